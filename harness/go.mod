module verifharness

go 1.17

require (
	github.com/confio/ics23/go v0.7.0
	github.com/cosmos/cosmos-sdk v0.45.2
	github.com/cosmos/ibc-go/v3 v3.0.0
	github.com/ethereum/go-ethereum v1.10.16
	github.com/gogo/protobuf v1.3.3
	github.com/teleport-network/teleport v0.0.0
	github.com/tendermint/tendermint v0.34.16
	github.com/tendermint/tm-db v0.6.7
	github.com/tharsis/ethermint v0.13.0
	golang.org/x/crypto v0.0.0-20220525230936-793ad666bf5e
)

require (
	filippo.io/edwards25519 v1.0.0-beta.2 // indirect
	github.com/99designs/keyring v1.1.6 // indirect
	github.com/ChainSafe/go-schnorrkel v0.0.0-20200405005733-88cbf1b4c40d // indirect
	github.com/VictoriaMetrics/fastcache v1.6.0 // indirect
	github.com/armon/go-metrics v0.3.10 // indirect
	github.com/beorn7/perks v1.0.1 // indirect
	github.com/bgentry/speakeasy v0.1.0 // indirect
	github.com/btcsuite/btcd v0.22.0-beta // indirect
	github.com/cespare/xxhash/v2 v2.1.2 // indirect
	github.com/cosmos/btcutil v1.0.4 // indirect
	github.com/cosmos/go-bip39 v1.0.0 // indirect
	github.com/cosmos/iavl v0.17.3 // indirect
	github.com/davecgh/go-spew v1.1.1 // indirect
	github.com/deckarep/golang-set v1.8.0 // indirect
	github.com/dvsekhvalnov/jose2go v0.0.0-20200901110807-248326c1351b // indirect
	github.com/edsrzf/mmap-go v1.1.0 // indirect
	github.com/felixge/httpsnoop v1.0.1 // indirect
	github.com/fsnotify/fsnotify v1.5.1 // indirect
	github.com/gballet/go-libpcsclite v0.0.0-20190607065134-2772fd86a8ff // indirect
	github.com/go-kit/kit v0.12.0 // indirect
	github.com/go-kit/log v0.2.0 // indirect
	github.com/go-logfmt/logfmt v0.5.1 // indirect
	github.com/go-stack/stack v1.8.0 // indirect
	github.com/godbus/dbus v0.0.0-20190726142602-4481cbc300e2 // indirect
	github.com/gogo/gateway v1.1.0 // indirect
	github.com/golang/protobuf v1.5.2 // indirect
	github.com/golang/snappy v0.0.4 // indirect
	github.com/google/btree v1.0.1 // indirect
	github.com/google/uuid v1.3.0 // indirect
	github.com/gorilla/handlers v1.5.1 // indirect
	github.com/gorilla/mux v1.8.0 // indirect
	github.com/gorilla/websocket v1.5.0 // indirect
	github.com/grpc-ecosystem/go-grpc-middleware v1.3.0 // indirect
	github.com/grpc-ecosystem/grpc-gateway v1.16.0 // indirect
	github.com/gsterjov/go-libsecret v0.0.0-20161001094733-a6f4afe4910c // indirect
	github.com/gtank/merlin v0.1.1 // indirect
	github.com/gtank/ristretto255 v0.1.2 // indirect
	github.com/hashicorp/go-immutable-radix v1.3.1 // indirect
	github.com/hashicorp/golang-lru v0.5.5-0.20210104140557-80c98217689d // indirect
	github.com/hashicorp/hcl v1.0.0 // indirect
	github.com/hdevalence/ed25519consensus v0.0.0-20210204194344-59a8610d2b87 // indirect
	github.com/holiman/bloomfilter/v2 v2.0.3 // indirect
	github.com/holiman/uint256 v1.2.0 // indirect
	github.com/huin/goupnp v1.0.2 // indirect
	github.com/jackpal/go-nat-pmp v1.0.2 // indirect
	github.com/libp2p/go-buffer-pool v0.0.2 // indirect
	github.com/magiconair/properties v1.8.5 // indirect
	github.com/mattn/go-isatty v0.0.14 // indirect
	github.com/mattn/go-runewidth v0.0.9 // indirect
	github.com/matttproud/golang_protobuf_extensions v1.0.1 // indirect
	github.com/mimoo/StrobeGo v0.0.0-20181016162300-f8f6d4d2b643 // indirect
	github.com/mitchellh/mapstructure v1.4.3 // indirect
	github.com/mtibben/percent v0.2.1 // indirect
	github.com/olekukonko/tablewriter v0.0.5 // indirect
	github.com/pelletier/go-toml v1.9.4 // indirect
	github.com/pkg/errors v0.9.1 // indirect
	github.com/pmezard/go-difflib v1.0.0 // indirect
	github.com/prometheus/client_golang v1.12.1 // indirect
	github.com/prometheus/client_model v0.2.0 // indirect
	github.com/prometheus/common v0.32.1 // indirect
	github.com/prometheus/procfs v0.7.3 // indirect
	github.com/prometheus/tsdb v0.10.0 // indirect
	github.com/rakyll/statik v0.1.7 // indirect
	github.com/rcrowley/go-metrics v0.0.0-20201227073835-cf1acfcdf475 // indirect
	github.com/regen-network/cosmos-proto v0.3.1 // indirect
	github.com/rjeczalik/notify v0.9.2 // indirect
	github.com/shirou/gopsutil v3.21.4-0.20210419000835-c7a38de76ee5+incompatible // indirect
	github.com/spf13/afero v1.6.0 // indirect
	github.com/spf13/cast v1.4.1 // indirect
	github.com/spf13/cobra v1.4.0 // indirect
	github.com/spf13/jwalterweatherman v1.1.0 // indirect
	github.com/spf13/pflag v1.0.5 // indirect
	github.com/spf13/viper v1.10.1 // indirect
	github.com/status-im/keycard-go v0.0.0-20200402102358-957c09536969 // indirect
	github.com/stretchr/testify v1.7.1 // indirect
	github.com/subosito/gotenv v1.2.0 // indirect
	github.com/syndtr/goleveldb v1.0.1-0.20210819022825-2ae1ddf74ef7 // indirect
	github.com/tendermint/btcd v0.1.1 // indirect
	github.com/tendermint/crypto v0.0.0-20191022145703-50d29ede1e15 // indirect
	github.com/tendermint/go-amino v0.16.0 // indirect
	github.com/tklauser/go-sysconf v0.3.7 // indirect
	github.com/tklauser/numcpus v0.2.3 // indirect
	github.com/tyler-smith/go-bip39 v1.1.0 // indirect
	golang.org/x/net v0.0.0-20211208012354-db4efeb81f4b // indirect
	golang.org/x/sync v0.0.0-20210220032951-036812b2e83c // indirect
	golang.org/x/sys v0.0.0-20220114195835-da31bd327af9 // indirect
	golang.org/x/term v0.0.0-20201126162022-7de9c90e9dd1 // indirect
	golang.org/x/text v0.3.7 // indirect
	google.golang.org/genproto v0.0.0-20220607223854-30acc4cbd2aa // indirect
	google.golang.org/grpc v1.47.0 // indirect
	google.golang.org/protobuf v1.28.0 // indirect
	gopkg.in/ini.v1 v1.66.2 // indirect
	gopkg.in/yaml.v2 v2.4.0 // indirect
	gopkg.in/yaml.v3 v3.0.0 // indirect
)

replace (
	github.com/99designs/keyring => github.com/cosmos/keyring v1.1.7-0.20210622111912-ef00f8ac3d76
	github.com/gogo/protobuf => github.com/regen-network/protobuf v1.3.3-alpha.regen.1
	github.com/teleport-network/teleport => /repo
	google.golang.org/grpc => google.golang.org/grpc v1.33.2
)
