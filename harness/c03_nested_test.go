//go:build c03

package verifharness

// C03 — packets announced INSIDE module-initiated EVM calls.
//
// A hand-assembled "bridging token" X: an ERC-20 look-alike chosen by a sender as the FEE token (or as callback contract).
// Every call answers `true`; once armed (a 1-byte call sets slot 0) the next call it receives — `transfer(relayer, fee)`
// from the packet contract during the relayer-fee payout of an acknowledgement, or the endpoint's `callback(...)` — first
// makes X bridge native coin it owns: endpoint.crossChainCall{value: v}(…). That nested send happens inside
// Keeper.CallPacket("sendPacketFeeToRelayer" / "OnAcknowledgePacket"): the endpoint escrows v and the packet contract emits
// PacketSent, so the post-transaction hook of that module-initiated call has to commit the packet exactly as it does for
// a user transaction. Oracle: every PacketSent log of the packet contract in the EVM logs of the MsgAcknowledgement has
// its commitment (escrow-without-commitment), and the native escrow towards the destination equals what is committed.
//
// The scenario runs on a world of its own at the start of TestC03 (it is not part of the op language / the model: X
// answers `true` to every view, so it is not a token of the dump).

import (
	"encoding/binary"
	"encoding/json"
	"fmt"
	"math/big"
	"strings"

	sdk "github.com/cosmos/cosmos-sdk/types"
	"github.com/ethereum/go-ethereum/common"
	"github.com/tharsis/ethermint/crypto/ethsecp256k1"
	evm "github.com/tharsis/ethermint/x/evm/types"

	endpointcontract "github.com/teleport-network/teleport/syscontracts/xibc_endpoint"
	packetcontract "github.com/teleport-network/teleport/syscontracts/xibc_packet"
	packettypes "github.com/teleport-network/teleport/x/xibc/core/packet/types"
)

// c03BridgingTokenRuntime: see above. nested = calldata of the crossChainCall it makes, value = the coin it sends along.
func c03BridgingTokenRuntime(nested []byte, value uint16) []byte {
	a := &c03Asm{labels: map[string]int{}, fixups: map[int]string{}}
	push2 := func(v uint16) { a.code = append(a.code, 0x61, byte(v>>8), byte(v)) }
	a.op("CALLDATASIZE", "ISZERO").pushLabel("stop").op("JUMPI") // plain coin transfer: accept
	a.op("CALLDATASIZE").push1(1).op("EQ").pushLabel("arm").op("JUMPI")
	a.push1(0).op("SLOAD", "ISZERO").pushLabel("answer").op("JUMPI") // not armed: just answer true
	a.push1(0).push1(0).op("SSTORE")                                   // one shot
	push2(uint16(len(nested)))                                         // size
	dataAt := len(a.code) + 1
	push2(0)                                          // offset of the data in the code (patched below)
	a.push1(0).op("CODECOPY")                         // mem[0..len) := nested calldata
	a.push1(0).push1(0)                               // out size, out offset
	push2(uint16(len(nested)))                        // in size
	a.push1(0)                                        // in offset
	push2(value)                                      // value
	a.code = append(a.code, 0x73)                     // PUSH20 endpoint
	a.code = append(a.code, endpointcontract.EndpointContractAddress.Bytes()...)
	a.op("GAS", "CALL", "ISZERO").pushLabel("fail").op("JUMPI")
	a.label("answer")
	a.push1(1).push1(0).op("MSTORE").push1(32).push1(0).op("RETURN")
	a.label("arm")
	a.push1(0).op("CALLDATALOAD").push1(0xf8).op("SHR").push1(0).op("SSTORE", "STOP")
	a.label("stop")
	a.op("STOP")
	a.label("fail")
	a.push1(0).push1(0).op("REVERT")
	code := a.bytes()
	binary.BigEndian.PutUint16(code[dataAt:], uint16(len(code)))
	return append(code, nested...)
}

func c03InitCode2(rt []byte) []byte { // like c03InitCode for runtimes longer than 255 bytes
	init := []byte{0x61, byte(len(rt) >> 8), byte(len(rt)), 0x60, 14, 0x60, 0, 0x39, 0x61, byte(len(rt) >> 8), byte(len(rt)), 0x60, 0, 0xf3}
	return append(init, rt...)
}

// logsOf: the EVM logs that the module-initiated calls of a delivered message emitted (tx_log events of CallEVMWithData)
func c03LogsOf(res *sdk.Result) []*evm.Log {
	var logs []*evm.Log
	if res == nil {
		return nil
	}
	for _, e := range res.Events {
		if e.Type != evm.EventTypeTxLog {
			continue
		}
		for _, at := range e.Attributes {
			if string(at.Key) == evm.AttributeKeyTxLog {
				var l evm.Log
				if json.Unmarshal(at.Value, &l) == nil {
					logs = append(logs, &l)
				}
			}
		}
	}
	return logs
}

// nestedSendScenario: mode "fee" — X is the fee token, armed before the acknowledgement (nested send inside
// sendPacketFeeToRelayer); mode "callback" — X is the callback contract (nested send inside OnAcknowledgePacket).
func (h *c03Harness) nestedSendScenario(mode string) {
	r := h.r
	out := h.apply("reset")
	_ = out
	for _, op := range h.defaultRegistry() {
		h.apply(h.canonRegister(op))
	}
	w := h.w
	const A, B = 0, 1
	const v = 500
	nestedData := packettypes.CrossChainData{DstChain: h.name(B), TokenAddress: common.Address{}, Receiver: strings.ToLower(w.acc[c03AccU6].String()), Amount: big.NewInt(v),
		ContractAddress: "", CallData: nil, CallbackAddress: common.Address{}, FeeOption: 0}
	nested, err := endpointcontract.EndpointContract.ABI.Pack("crossChainCall", nestedData, packettypes.Fee{TokenAddress: common.Address{}, Amount: big.NewInt(0)})
	if err != nil {
		r.t.Fatal(err)
	}
	key, _ := ethsecp256k1.GenerateKey()
	rt := c03BridgingTokenRuntime(nested, v)
	X := w.deployRaw(A, key, c03InitCode2(rt), len(rt))
	if failed, e, _ := w.sendTx(A, X, big.NewInt(2*v), nil); failed { // X owns coin it can bridge
		r.t.Fatalf("funding the bridging token failed: %s", e)
	}
	w.coord.CommitBlock(w.ch[A])
	// the user's packet: 10 of the native coin to B (not bound there: error acknowledgement, refunded), fee 5 in X / callback X
	data := packettypes.CrossChainData{DstChain: h.name(B), TokenAddress: common.Address{}, Receiver: strings.ToLower(w.acc[c03AccU7].String()), Amount: big.NewInt(10),
		ContractAddress: "", CallData: nil, CallbackAddress: common.Address{}, FeeOption: 0}
	fee := packettypes.Fee{TokenAddress: X, Amount: big.NewInt(5)}
	if mode == "callback" {
		data.CallbackAddress = X
		fee = packettypes.Fee{TokenAddress: common.Address{}, Amount: big.NewInt(5)}
	}
	payload, err := endpointcontract.EndpointContract.ABI.Pack("crossChainCall", data, fee)
	if err != nil {
		r.t.Fatal(err)
	}
	value := int64(10)
	if mode == "callback" {
		value = 15
	}
	failed, e, events, _ := w.sendTxLogs(A, c03AccUser, endpointcontract.EndpointContractAddress, big.NewInt(value), payload)
	if failed {
		r.t.Fatalf("nested-send scenario (%s): the user's send failed: %s", mode, e)
	}
	w.notePackets(events.ToABCIEvents())
	w.coord.CommitBlock(w.ch[A])
	rec := w.packets[c03Key(A, B, 1)]
	if rec == nil {
		r.t.Fatalf("nested-send scenario: packet not announced")
	}
	if _, err := w.relayRecv(A, B, 1, rec.bytes, c03AccUser); err != nil || rec.ack == nil {
		r.t.Fatalf("nested-send scenario: receive failed: %v", err)
	}
	if failed, e, _ := w.sendTx(A, X, big.NewInt(0), []byte{1}); failed { // armed
		r.t.Fatalf("arming failed: %s", e)
	}
	w.coord.CommitBlock(w.ch[A])
	seqBefore := w.ch[A].App.XIBCKeeper.PacketKeeper.GetNextSequenceSend(w.ch[A].GetContext(), h.name(A), h.name(B))
	res, aerr := w.relayAck(A, B, 1, rec.bytes, rec.ack, c03AccUser)
	hist := []string{"scenario nested-send/" + mode + ": X = contract that bridges " + fmt.Sprint(v) + " native coin of its own to chain 1 when called while armed",
		"send 0 -> 1: 10 native, fee 5 (fee token X resp. callback X)", "recv on 1 (native coin not bound there: error acknowledgement)", "arm X", "ack on 0"}
	find := func(sig, what, obs, req string) {
		r.Count("oracle.finding")
		r.Find(Finding{Sig: sig, What: what, Ops: hist, Obs: obs, Req: req})
	}
	if aerr != nil && mode == "callback" {
		// real code: the endpoint does not let a callback re-enter crossChainCall — the callback reverts and with it the whole
		// MsgAcknowledgement (like a reverting callback contract): nothing may have changed, the packet stays committed
		r.Count("nested-send.callback.rejected")
		if !w.hasCommitment(A, B, 1) || w.outTokens(A, common.Address{}, h.name(B)).Cmp(big.NewInt(10)) != 0 {
			find("C03:rejected-ack-changed-state", "a rejected MsgAcknowledgement (callback re-entering crossChainCall) changed commitment / escrow", "changed", "unchanged")
		}
		return
	}
	if aerr != nil {
		find("C03:nested-send:ack-rejected:"+mode, "the acknowledgement whose "+mode+" contract makes a cross-chain call of its own was rejected", aerr.Error(), "accepted, nested packet committed")
		return
	}
	r.Count("nested-send." + mode)
	logs := c03LogsOf(res)
	ev := packetcontract.PacketContract.ABI.Events["PacketSent"]
	n := 0
	for _, l := range logs {
		if common.HexToAddress(l.Address) != packetcontract.PacketContractAddress || len(l.Topics) == 0 || common.HexToHash(l.Topics[0]) != ev.ID {
			continue
		}
		n++
		vals, err := packetcontract.PacketContract.ABI.Unpack("PacketSent", l.Data)
		if err != nil {
			r.t.Fatal(err)
		}
		var p packettypes.Packet
		if err := p.ABIDecode(vals[0].([]byte)); err != nil {
			r.t.Fatal(err)
		}
		want, _ := packettypes.CommitPacket(&p)
		got := w.ch[A].App.XIBCKeeper.PacketKeeper.GetPacketCommitment(w.ch[A].GetContext(), p.SrcChain, p.DstChain, p.Sequence)
		if string(want) != string(got) {
			find("C03:escrow-without-commitment:module-call:"+mode, fmt.Sprintf("PacketSent event (%s -> %s seq %d) emitted inside the module-initiated call of a MsgAcknowledgement (%s): the endpoint escrowed for it but the keeper holds no matching commitment", p.SrcChain, p.DstChain, p.Sequence, mode),
				fmt.Sprintf("commitment %x", got), fmt.Sprintf("commitment %x", want))
		} else {
			r.Count("nested-send." + mode + ".committed")
		}
	}
	if n == 0 {
		r.t.Fatalf("nested-send scenario (%s): no PacketSent log in the module-initiated calls (the scenario does not exercise what it should)", mode)
	}
	// conservation on the real views: native coin escrowed on A towards B = amounts of the packets still committed (B minted nothing)
	esc := w.outTokens(A, common.Address{}, h.name(B))
	inflight := big.NewInt(0)
	seqAfter := w.ch[A].App.XIBCKeeper.PacketKeeper.GetNextSequenceSend(w.ch[A].GetContext(), h.name(A), h.name(B))
	for q := uint64(1); q < seqAfter; q++ {
		if w.hasCommitment(A, B, q) {
			if q == 1 {
				inflight.Add(inflight, big.NewInt(10))
			} else {
				inflight.Add(inflight, big.NewInt(v))
			}
		}
	}
	if esc.Cmp(inflight) != 0 {
		find("C03:not-conserved:nested-send:"+mode, fmt.Sprintf("pair 0->1 native coin: escrowed %s ≠ minted 0 + in flight %s (send counter %d -> %d)", esc, inflight, seqBefore, seqAfter), esc.String(), inflight.String())
	}
	// the nested packet is an ordinary packet: relayable
	if seqAfter == seqBefore+1 {
		key2 := c03Key(A, B, seqBefore)
		if rec2 := w.packets[key2]; rec2 != nil {
			if _, err := w.relayRecv(A, B, seqBefore, rec2.bytes, c03AccUser); err == nil {
				r.Count("nested-send." + mode + ".relayed")
			}
		}
	}
}
