//go:build c13

package verifharness

// C13 — aggregate registry states produced by the REAL governance / message paths (not planted through the setters):
// RegisterCoin, RegisterERC20, AddCoin, ToggleTokenRelay, UpdateTokenPairERC20 (to a second deployed contract with matching
// name / symbol / decimals) through `MsgSubmitProposal.ValidateBasic` + the handler gov's router returns, on a cache context written
// back on success; the self-destruct clean-up (`DeleteTokenPair`) through the ConvertCoin / ConvertERC20 message handlers. The
// export → validate → init → re-export pipeline is taken after every kind.
// (RegisterERC20Trace and the time-based supply-limit proposals only call EVM contracts; they write no aggregate module state.)
//
// op language (additions):
//   aggprop KIND CONTENTBLOB        a governance proposal (CONTENTBLOB = the packed govtypes.Content)                 -> ok | err
//   aggkill ADDR                    the contract self-destructs (EVM state only)                                      -> ok
//   aggconvert TOKEN DENOM          MsgConvertCoin (TOKEN = DENOM) / MsgConvertERC20 of 3 units by the test user      -> ok | err
//   mpair ID BLOB ERC20 K DENOM*K | mdelpair ID BLOB ERC20 K DENOM*K
//        MODEL-ONLY: what the preceding real operation must have done to the registry, by construction from the pair as it
//        was BEFORE the operation (the real store is not touched by these lines — a left-over entry must stay visible)

import (
	"fmt"
	"math/big"
	"strings"

	"github.com/cosmos/cosmos-sdk/crypto/keys/ed25519"
	sdk "github.com/cosmos/cosmos-sdk/types"
	authtypes "github.com/cosmos/cosmos-sdk/x/auth/types"
	banktypes "github.com/cosmos/cosmos-sdk/x/bank/types"
	govtypes "github.com/cosmos/cosmos-sdk/x/gov/types"
	stakingtypes "github.com/cosmos/cosmos-sdk/x/staking/types"
	"github.com/ethereum/go-ethereum/common"
	"github.com/ethereum/go-ethereum/crypto"
	"github.com/gogo/protobuf/proto"
	ethermint "github.com/tharsis/ethermint/types"
	"github.com/tharsis/ethermint/x/evm/statedb"

	erc20contracts "github.com/teleport-network/teleport/syscontracts/erc20"
	aggregatetypes "github.com/teleport-network/teleport/x/aggregate/types"
)

type c13Agg struct {
	ready bool
	user  common.Address
	ext   []common.Address // ext[0..3]: same name / symbol / decimals ("usdx"); ext[4]: other details
	coins []string
}

// one-time set-up on the base context: a validator (the EVM needs a proposer), a funded user, coins with supply, external ERC20s
func (w *c13World) aggSetup() {
	if w.agg.ready {
		return
	}
	a := w.app
	consPriv := ed25519.GenPrivKeyFromSecret([]byte("c13-consensus"))
	consAddr := sdk.ConsAddress(consPriv.PubKey().Address())
	hdr := w.base.BlockHeader()
	hdr.ProposerAddress = consAddr.Bytes()
	w.base = w.base.WithBlockHeader(hdr)
	ctx := w.base
	must := func(err error) {
		if err != nil {
			panic(err)
		}
	}
	val, err := stakingtypes.NewValidator(sdk.ValAddress(consAddr.Bytes()), consPriv.PubKey(), stakingtypes.Description{})
	must(err)
	must(a.StakingKeeper.SetValidatorByConsAddr(ctx, val))
	a.StakingKeeper.SetValidator(ctx, val)
	w.agg.user = common.HexToAddress("0x00000000000000000000000000000000c13c13c1")
	a.AccountKeeper.SetAccount(ctx, &ethermint.EthAccount{
		BaseAccount: authtypes.NewBaseAccount(sdk.AccAddress(w.agg.user.Bytes()), nil, 0, 0),
		CodeHash:    common.BytesToHash(crypto.Keccak256(nil)).String(),
	})
	w.agg.coins = []string{"acoin", "bcoin", "ccoin", "dcoin", "ibc/27394FB092D2ECCD56123C74F36E4C1F926001CEADA9CA97EA622B25F41E5EB2"}
	for _, d := range w.agg.coins {
		c := sdk.NewCoins(sdk.NewCoin(d, sdk.NewInt(1000000)))
		must(a.BankKeeper.MintCoins(ctx, aggregatetypes.ModuleName, c))
		must(a.BankKeeper.SendCoinsFromModuleToAccount(ctx, aggregatetypes.ModuleName, sdk.AccAddress(w.agg.user.Bytes()), c))
	}
	k := a.AggregateKeeper
	deploy := func(name, symbol string, dec uint8) common.Address {
		ctor, err := erc20contracts.ERC20MinterBurnerDecimalsContract.ABI.Pack("", name, symbol, dec)
		must(err)
		data := append(append([]byte{}, erc20contracts.ERC20MinterBurnerDecimalsContract.Bin...), ctor...)
		nonce, err := a.AccountKeeper.GetSequence(ctx, w.agg.user.Bytes())
		must(err)
		_, err = k.CallEVMWithData(ctx, w.agg.user, nil, data)
		must(err)
		addr := crypto.CreateAddress(w.agg.user, nonce)
		_, err = k.CallEVM(ctx, erc20contracts.ERC20MinterBurnerDecimalsContract.ABI, w.agg.user, addr, "mint", w.agg.user, sdk.NewInt(1000000).BigInt())
		must(err)
		return addr
	}
	for i := 0; i < 4; i++ {
		w.agg.ext = append(w.agg.ext, deploy("usdx", "USDX", 6))
	}
	w.agg.ext = append(w.agg.ext, deploy("Euro Coin", "EURX", 18))
	w.agg.ready = true
	w.reset()
}

func c13CoinMeta(base string) banktypes.Metadata {
	name := strings.ReplaceAll(strings.ReplaceAll(base, "/", ""), "ibc", "i")
	if len(name) > 12 {
		name = name[:12]
	}
	return banktypes.Metadata{Description: "coin " + base, Base: base, Name: name, Symbol: strings.ToUpper(name), Display: base,
		DenomUnits: []*banktypes.DenomUnit{{Denom: base, Exponent: 0}}}
}

func (w *c13World) aggPairs() map[string]aggregatetypes.TokenPair {
	m := map[string]aggregatetypes.TokenPair{}
	for _, p := range w.app.AggregateKeeper.GetAllTokenPairs(w.ctx) {
		m[string(p.GetID())] = p
	}
	return m
}

func (w *c13World) pairArgs(tp aggregatetypes.TokenPair) string {
	line := fmt.Sprintf("%s %s %s %d", hx(tp.GetID()), hx(w.app.AppCodec().MustMarshal(&tp)), hx(tp.GetERC20Contract().Bytes()), len(tp.Denoms))
	for _, d := range tp.Denoms {
		line += " " + hxs(d)
	}
	return line
}

// ---- real side ----------------------------------------------------------------------------------------------------------------

func (w *c13World) runProposal(ctx sdk.Context, c govtypes.Content) error {
	msg, err := govtypes.NewMsgSubmitProposal(c, sdk.NewCoins(), sdk.AccAddress(w.agg.user.Bytes()))
	if err != nil {
		return err
	}
	if err := msg.ValidateBasic(); err != nil {
		return err
	}
	return w.app.GovKeeper.Router().GetRoute(c.ProposalRoute())(ctx, c)
}

func (w *c13World) runConvert(ctx sdk.Context, tok, den string) error {
	k := w.app.AggregateKeeper
	sender := sdk.AccAddress(w.agg.user.Bytes())
	if tok == den {
		m := &aggregatetypes.MsgConvertCoin{Coin: sdk.Coin{Denom: den, Amount: sdk.NewInt(3)}, Receiver: w.agg.user.Hex(), Sender: sender.String()}
		if err := m.ValidateBasic(); err != nil {
			return err
		}
		_, err := k.ConvertCoin(sdk.WrapSDKContext(ctx), m)
		return err
	}
	m := &aggregatetypes.MsgConvertERC20{ContractAddress: tok, Amount: sdk.NewInt(3), Receiver: sender.String(), Sender: w.agg.user.Hex(), Denom: den}
	if err := m.ValidateBasic(); err != nil {
		return err
	}
	_, err := k.ConvertERC20(sdk.WrapSDKContext(ctx), m)
	return err
}

func (w *c13World) applyAggOp(r *Rec, f []string) string {
	w.aggSetupCheck()
	switch f[0] {
	case "aggprop":
		var c govtypes.Content
		if err := w.app.AppCodec().UnmarshalInterface(unhx(f[2]), &c); err != nil {
			panic(err)
		}
		cctx, write := w.ctx.CacheContext()
		var err error
		if pan, msg := safely(func() { err = w.runProposal(cctx, c) }); pan {
			err = fmt.Errorf("panic: %s", msg)
		}
		if err != nil {
			w.lastErr = err.Error()
			r.Count("aggprop.rejected")
			return "err"
		}
		write()
		return "ok"
	case "aggkill":
		a := common.BytesToAddress(unhx(f[1]))
		sdb := statedb.New(w.ctx, w.app.EvmKeeper, statedb.NewEmptyTxConfig(common.BytesToHash(w.ctx.HeaderHash().Bytes())))
		// ethermint's DeleteAccount removes the code blob by code hash (shared by every ERC20 instance): put it back
		var codeHash, code []byte
		if acc := w.app.EvmKeeper.GetAccountWithoutBalance(w.ctx, a); acc != nil && acc.IsContract() {
			codeHash = acc.CodeHash
			code = w.app.EvmKeeper.GetCode(w.ctx, common.BytesToHash(codeHash))
		}
		sdb.Suicide(a)
		if err := sdb.Commit(); err != nil {
			panic(err)
		}
		if len(code) > 0 {
			w.app.EvmKeeper.SetCode(w.ctx, codeHash, code)
		}
		return "ok"
	case "aggconvert":
		cctx, write := w.ctx.CacheContext()
		var err error
		if pan, msg := safely(func() { err = w.runConvert(cctx, string(unhx(f[1])), string(unhx(f[2]))) }); pan {
			err = fmt.Errorf("panic: %s", msg)
		}
		if err != nil {
			w.lastErr = err.Error()
			return "err"
		}
		write()
		return "ok"
	case "mpair", "mdelpair":
		return "ok" // model-only
	}
	return "bad-op"
}

func (w *c13World) aggSetupCheck() {
	if !w.agg.ready {
		hist, reach := w.hist, w.reachable
		// replaying a corpus history on a fresh world: the set-up is deterministic (same addresses); the history so far is
		// re-applied by the caller only in generation mode, so set up BEFORE the first op of a history (see TestC13)
		w.aggSetup()
		w.hist, w.reachable = hist, reach
	}
}

// ---- generator --------------------------------------------------------------------------------------------------------------------

func (w *c13World) contentBlob(c govtypes.Content) []byte {
	msg, ok := c.(proto.Message)
	if !ok {
		panic("content is not a proto message")
	}
	bz, err := w.app.AppCodec().MarshalInterface(msg)
	if err != nil {
		panic(err)
	}
	return bz
}

// a proposal that the real handler accepts becomes an op; returns whether it was accepted
func (w *c13World) genProposal(r *Rec, emit func(string), kind string, c govtypes.Content) bool {
	cctx, _ := w.ctx.CacheContext()
	var err error
	if pan, _ := safely(func() { err = w.runProposal(cctx, c) }); pan || err != nil {
		r.Count("aggreal.dry-rejected." + kind)
		return false
	}
	emit(fmt.Sprintf("aggprop %s %s", kind, hx(w.contentBlob(c))))
	r.Count("aggreal." + kind)
	return w.lastOut == "ok"
}

func (w *c13World) genAggReal(r *Rec, emit func(string), tail func(phase string)) {
	emit("chainname " + hxs("teleport"))
	emit(fmt.Sprintf("param %s %s %s", hxs("aggregate"), hxs("EnableAggregate"), hxs("true")))
	emit(fmt.Sprintf("param %s %s %s", hxs("aggregate"), hxs("EnableEVMHook"), hxs("true")))
	emit(c13RvParamsLine(r, "prop", true))
	ext := w.agg.ext
	usedCoin := map[string]bool{}
	freeCoin := func() string {
		for _, i := range r.Rng.Perm(len(w.agg.coins)) {
			if !usedCoin[w.agg.coins[i]] {
				return w.agg.coins[i]
			}
		}
		return ""
	}
	registeredExt := map[common.Address]bool{}
	steps := 4 + r.Rng.Intn(6)
	for s := 0; s < steps; s++ {
		pre := w.aggPairs()
		var pairs []aggregatetypes.TokenPair
		for _, p := range pre {
			pairs = append(pairs, p)
		}
		pick := func(f func(aggregatetypes.TokenPair) bool) (aggregatetypes.TokenPair, bool) {
			var c []aggregatetypes.TokenPair
			for _, p := range pairs {
				if f(p) {
					c = append(c, p)
				}
			}
			if len(c) == 0 {
				return aggregatetypes.TokenPair{}, false
			}
			// deterministic order: by contract address
			best := c[0]
			for _, p := range c {
				if p.ERC20Address < best.ERC20Address {
					best = p
				}
			}
			if r.Rng.Intn(2) == 0 {
				return c[r.Rng.Intn(len(c))], true
			}
			return best, true
		}
		k := r.Rng.Intn(9)
		if s == 0 {
			k = r.Rng.Intn(2) // start with a registration
		}
		switch k {
		case 0, 6: // RegisterERC20 of an external contract
			var cand []common.Address
			for _, a := range ext {
				if !registeredExt[a] {
					cand = append(cand, a)
				}
			}
			if len(cand) == 0 {
				continue
			}
			a := cand[r.Rng.Intn(len(cand))]
			if w.genProposal(r, emit, "regerc20", &aggregatetypes.RegisterERC20Proposal{Title: "t", Description: "d", ERC20Address: a.Hex()}) {
				registeredExt[a] = true
				id := w.app.AggregateKeeper.GetERC20Map(w.ctx, a)
				if p, ok := w.app.AggregateKeeper.GetTokenPair(w.ctx, id); ok {
					emit("mpair " + w.pairArgs(p))
				}
				tail("agg.after-register-erc20")
			}
		case 1, 7: // RegisterCoin
			d := freeCoin()
			if d == "" {
				continue
			}
			if w.genProposal(r, emit, "regcoin", &aggregatetypes.RegisterCoinProposal{Title: "t", Description: "d", Metadata: c13CoinMeta(d)}) {
				usedCoin[d] = true
				id := w.app.AggregateKeeper.GetDenomMap(w.ctx, d)
				if p, ok := w.app.AggregateKeeper.GetTokenPair(w.ctx, id); ok {
					emit("mpair " + w.pairArgs(p))
				}
				tail("agg.after-register-coin")
			}
		case 2: // AddCoin to an existing pair
			p, ok := pick(func(aggregatetypes.TokenPair) bool { return true })
			d := freeCoin()
			if !ok || d == "" {
				continue
			}
			if w.genProposal(r, emit, "addcoin", &aggregatetypes.AddCoinProposal{Title: "t", Description: "d", Metadata: c13CoinMeta(d), ContractAddress: p.ERC20Address}) {
				usedCoin[d] = true
				np := p
				np.Denoms = append(append([]string{}, p.Denoms...), d)
				emit("mdelpair " + w.pairArgs(p)) // the same id: the model deletes the stored pair and registers the extended one
				emit("mpair " + w.pairArgs(np))
				tail("agg.after-add-coin")
			}
		case 3: // ToggleTokenRelay by contract or by denomination
			p, ok := pick(func(aggregatetypes.TokenPair) bool { return true })
			if !ok {
				continue
			}
			tok := p.ERC20Address
			if r.Rng.Intn(2) == 0 {
				tok = p.Denoms[r.Rng.Intn(len(p.Denoms))]
			}
			if w.genProposal(r, emit, "toggle", &aggregatetypes.ToggleTokenRelayProposal{Title: "t", Description: "d", Token: tok}) {
				np := p
				np.Enabled = !p.Enabled
				emit("mdelpair " + w.pairArgs(p))
				emit("mpair " + w.pairArgs(np))
				tail("agg.after-toggle")
			}
		case 4, 8: // UpdateTokenPairERC20 to a second deployed contract with the same details
			p, ok := pick(func(p aggregatetypes.TokenPair) bool { return registeredExt[p.GetERC20Contract()] })
			if !ok {
				continue
			}
			var cand []common.Address
			for _, a := range ext[:4] {
				if !registeredExt[a] {
					cand = append(cand, a)
				}
			}
			if len(cand) == 0 {
				continue
			}
			na := cand[r.Rng.Intn(len(cand))]
			if w.genProposal(r, emit, "update", &aggregatetypes.UpdateTokenPairERC20Proposal{Title: "t", Description: "d", ERC20Address: p.ERC20Address, NewERC20Address: na.Hex()}) {
				delete(registeredExt, p.GetERC20Contract())
				registeredExt[na] = true
				emit("mdelpair " + w.pairArgs(p))
				np := p
				np.ERC20Address = na.Hex()
				emit("mpair " + w.pairArgs(np))
				tail("agg.after-update-erc20")
			}
		default: // the contract self-destructs; the next conversion removes the pair
			p, ok := pick(func(p aggregatetypes.TokenPair) bool { return registeredExt[p.GetERC20Contract()] && p.Enabled })
			if !ok {
				continue
			}
			cctx, _ := w.ctx.CacheContext()
			_ = cctx
			emit("aggkill " + hx(p.GetERC20Contract().Bytes()))
			tok, den := p.ERC20Address, p.Denoms[0]
			// dry run of the conversion
			dctx, _ := w.ctx.CacheContext()
			var err error
			if pan, _ := safely(func() { err = w.runConvert(dctx, tok, den) }); pan || err != nil {
				r.Count("aggreal.dry-rejected.convert")
				tail("agg.after-kill")
				continue
			}
			emit(fmt.Sprintf("aggconvert %s %s", hxs(tok), hxs(den)))
			if _, still := w.aggPairs()[string(p.GetID())]; !still {
				emit("mdelpair " + w.pairArgs(p))
				r.Count("aggreal.selfdestruct-cleanup")
				// the contract stays dead: never registered again in this history
			}
			tail("agg.after-selfdestruct-cleanup")
		}
	}
	tail("agg.end")
}

// a fixed script through every registry path: RegisterERC20, UpdateTokenPairERC20 (the pair moves to a second contract with the
// same details), ToggleTokenRelay, RegisterCoin, AddCoin, the self-destruct clean-up — the pipeline after each
func (w *c13World) genAggScript(r *Rec, emit func(string), tail func(phase string)) {
	emit("chainname " + hxs("teleport"))
	emit(fmt.Sprintf("param %s %s %s", hxs("aggregate"), hxs("EnableAggregate"), hxs("true")))
	emit(fmt.Sprintf("param %s %s %s", hxs("aggregate"), hxs("EnableEVMHook"), hxs("true")))
	emit(fmt.Sprintf("rvparams prop 0 1 %s 5", hxs("atele")))
	k := w.app.AggregateKeeper
	ext := w.agg.ext
	pairOf := func(a common.Address) aggregatetypes.TokenPair {
		p, _ := k.GetTokenPair(w.ctx, k.GetERC20Map(w.ctx, a))
		return p
	}
	if !w.genProposal(r, emit, "regerc20", &aggregatetypes.RegisterERC20Proposal{Title: "t", Description: "d", ERC20Address: ext[0].Hex()}) {
		return
	}
	p0 := pairOf(ext[0])
	emit("mpair " + w.pairArgs(p0))
	tail("agg.after-register-erc20")
	if w.genProposal(r, emit, "update", &aggregatetypes.UpdateTokenPairERC20Proposal{Title: "t", Description: "d", ERC20Address: ext[0].Hex(), NewERC20Address: ext[1].Hex()}) {
		emit("mdelpair " + w.pairArgs(p0))
		p1 := p0
		p1.ERC20Address = ext[1].Hex()
		emit("mpair " + w.pairArgs(p1))
		tail("agg.after-update-erc20")
		if w.genProposal(r, emit, "toggle", &aggregatetypes.ToggleTokenRelayProposal{Title: "t", Description: "d", Token: p1.Denoms[0]}) {
			emit("mdelpair " + w.pairArgs(p1))
			p2 := p1
			p2.Enabled = !p1.Enabled
			emit("mpair " + w.pairArgs(p2))
			tail("agg.after-toggle")
		}
	}
	if w.genProposal(r, emit, "regcoin", &aggregatetypes.RegisterCoinProposal{Title: "t", Description: "d", Metadata: c13CoinMeta("acoin")}) {
		pc, _ := k.GetTokenPair(w.ctx, k.GetDenomMap(w.ctx, "acoin"))
		emit("mpair " + w.pairArgs(pc))
		tail("agg.after-register-coin")
		if w.genProposal(r, emit, "addcoin", &aggregatetypes.AddCoinProposal{Title: "t", Description: "d", Metadata: c13CoinMeta("bcoin"), ContractAddress: pc.ERC20Address}) {
			emit("mdelpair " + w.pairArgs(pc))
			pd := pc
			pd.Denoms = append(append([]string{}, pc.Denoms...), "bcoin")
			emit("mpair " + w.pairArgs(pd))
			tail("agg.after-add-coin")
		}
	}
	if w.genProposal(r, emit, "regerc20", &aggregatetypes.RegisterERC20Proposal{Title: "t", Description: "d", ERC20Address: ext[4].Hex()}) {
		pe := pairOf(ext[4])
		emit("mpair " + w.pairArgs(pe))
		emit("aggkill " + hx(ext[4].Bytes()))
		emit(fmt.Sprintf("aggconvert %s %s", hxs(pe.ERC20Address), hxs(pe.Denoms[0])))
		if w.lastOut == "ok" {
			emit("mdelpair " + w.pairArgs(pe))
		}
		tail("agg.after-selfdestruct-cleanup")
	}
}

var _ = big.NewInt
