//go:build c08

package verifharness

// C08 — EVM storage proofs bind contract, slot, value, root and height (ETH and BSC light clients).
//
// Drives the real VerifyPacketCommitment / VerifyPacketAcknowledgement of
// x/xibc/clients/light-clients/{eth,bsc}/types on a real client store, with proofs produced by go-ethereum's
// trie.Prove from account / storage tries the harness builds itself (the ground truth of the oracle).
//
// op language (one case per line, stateless):
//   v <eth|bsc> <c|a> <headRn> <headRh> <delayParam> <contract> <hRn> <hRh> <src> <dst> <seq> <value>
//     <ncons> (<rn> <rh> <root[@innerRn-innerRh-timestamp]|X|Y>)* <raw proof json: base64|nil|-> <tag>
//     (@…: the Height/Timestamp fields inside the stored ConsensusState when they differ from the key height / 1)
//     | <derived: decoded proof record>  M <derived: trie.VerifyProof results>      -> ok | rej
//   (everything after `|` is recomputed by the harness from the part before it on every run / replay;
//    tag = class,reason,expect,breaking — generator class and the oracle's ground truth, ignored by the model)
//   fh <s> | hh <s> | rd <bytes> | ra <eth|bsc> <nonce> <bal> <storageHash> <codeHash> | kc <bytes> | sl <eth|bsc> <c|a> <src> <dst> <seq>
//     direct ties of FromHex, HexToHash, rlp.DecodeBytes, rlp(ProofAccount), Keccak256 and the proof-key constructors

import (
	"bytes"
	"encoding/base64"
	"encoding/hex"
	"encoding/json"
	"fmt"
	"math/big"
	"sort"
	"strconv"
	"strings"
	"testing"

	"github.com/cosmos/cosmos-sdk/codec"
	codectypes "github.com/cosmos/cosmos-sdk/codec/types"
	"github.com/cosmos/cosmos-sdk/store/dbadapter"
	sdk "github.com/cosmos/cosmos-sdk/types"
	"github.com/ethereum/go-ethereum/common"
	"github.com/ethereum/go-ethereum/common/hexutil"
	gethtypes "github.com/ethereum/go-ethereum/core/types"
	"github.com/ethereum/go-ethereum/crypto"
	"github.com/ethereum/go-ethereum/ethdb/memorydb"
	"github.com/ethereum/go-ethereum/light"
	"github.com/ethereum/go-ethereum/rlp"
	"github.com/ethereum/go-ethereum/trie"
	dbm "github.com/tendermint/tm-db"

	bsctypes "github.com/teleport-network/teleport/x/xibc/clients/light-clients/bsc/types"
	ethtypes "github.com/teleport-network/teleport/x/xibc/clients/light-clients/eth/types"
	clienttypes "github.com/teleport-network/teleport/x/xibc/core/client/types"
	"github.com/teleport-network/teleport/x/xibc/core/host"
	"github.com/teleport-network/teleport/x/xibc/exported"
)

// ---------------------------------------------------------------------------------------------
// ground truth: EVM world states built by the harness

type c08Acct struct {
	addr        []byte
	nonce       uint64
	balance     *big.Int
	codeHash    []byte
	storage     map[string][]byte // slot (32 bytes) -> stored big-endian value (non-empty, normally without leading zeros)
	raw         map[string][]byte // slot -> bytes put into the trie as they are (not RLP: no EVM writes such a value)
	storageRoot common.Hash
	strie       *trie.Trie
}

type c08State struct {
	accts map[string]*c08Acct
	root  common.Hash
	atrie *trie.Trie
}

type c08Path struct {
	kind     string
	src, dst string
	seq      uint64
}

type c08World struct {
	states   []*c08State
	byRoot   map[common.Hash]*c08State
	contract []byte
	other    []byte
	paths    []c08Path
	bpaths   []c08Path // boundary paths (long names, boundary sequences), present in every state
	bseq     []string
}

func c08PathBytes(kind, src, dst string, seq uint64) []byte {
	pfx := "commitments"
	if kind == "a" {
		pfx = "acks"
	}
	return []byte(pfx + "/" + src + "/" + dst + "/sequences/" + strconv.FormatUint(seq, 10))
}

// slot of an arbitrary byte string used as mapping key: keccak(key ‖ uint256(208)), over the WHOLE key
func c08SlotOfBytes(path []byte) []byte {
	word := make([]byte, 32)
	word[31] = 208
	return crypto.Keccak256(append(append([]byte{}, path...), word...))
}

func c08Slot(kind, src, dst string, seq uint64) []byte {
	return c08SlotOfBytes(c08PathBytes(kind, src, dst, seq))
}

// ---- boundary dimension: names of length 1..64 (and beyond), every character IsValidID allows, boundary sequences,
// path lengths just below / at / above 128, 160, 192, 256 bytes

const c08IDChars = "abcdefghijklmnopqrstuvwxyzABCDEFGHIJKLMNOPQRSTUVWXYZ0123456789._+-#[]<>"

var c08BoundSeqs = []uint64{1, 9, 10, 100000000, 123456789, 1000000000000000, 1 << 53, 1<<63 - 1, 1 << 63, ^uint64(0)}
var c08BoundSeqNames = []string{"1", "9", "10", "1e8", "123456789", "1e15", "2p53", "2p63m1", "2p63", "2p64m1"}
var c08Cuts = []int{128, 160, 192, 256}

func c08Name(r *Rec, n int) string {
	b := make([]byte, n)
	for i := range b {
		b[i] = c08IDChars[r.Rng.Intn(len(c08IDChars))]
	}
	if n > 0 && r.Rng.Intn(3) == 0 { // make sure the special characters occur
		b[r.Rng.Intn(n)] = "._+-#[]<>"[r.Rng.Intn(9)]
	}
	return string(b)
}

// a path whose total length hits a chosen target (or with chosen name lengths); returns the sequence's name too
func c08BoundaryPath(r *Rec) (c08Path, string) {
	p := c08Path{kind: []string{"c", "a"}[r.Rng.Intn(2)]}
	si := r.Rng.Intn(len(c08BoundSeqs))
	p.seq = c08BoundSeqs[si]
	konst := len(c08PathBytes(p.kind, "", "", p.seq))
	c08Cycle6++
	if c08Cycle6%3 == 0 { // name lengths chosen independently, incl. exactly 63 / 64 (the maximum of a valid identifier)
		ls := []int{1, 63, 64, 2, 31, 32, 33, 62}
		a, b := ls[c08Cycle4%len(ls)], ls[(c08Cycle4/len(ls))%len(ls)]
		if c08Cycle4%3 == 2 { // the extremes more often
			a, b = ls[c08Cycle4%3], ls[(c08Cycle4/3)%3]
		}
		c08Cycle4++
		p.src, p.dst = c08Name(r, a), c08Name(r, b)
		return p, c08BoundSeqNames[si]
	}
	targets := []int{127, 128, 129, 159, 160, 161, 162, 163, 170, 191, 192, 193, 255, 256, 257, 300}
	rem := targets[c08Cycle3%len(targets)] - konst
	c08Cycle3++
	if rem < 2 {
		rem = 2
	}
	var a int
	if rem <= 128 {
		lo, hi := rem-64, 64
		if lo < 1 {
			lo = 1
		}
		if hi > rem-1 {
			hi = rem - 1
		}
		a = lo + r.Rng.Intn(hi-lo+1)
		switch r.Rng.Intn(4) { // prefer the extremes
		case 0:
			a = lo
		case 1:
			a = hi
		}
	} else { // only reachable with names longer than a valid identifier
		a = rem / 2
	}
	p.src, p.dst = c08Name(r, a), c08Name(r, rem-a)
	return p, c08BoundSeqNames[si]
}

var c08Cycle, c08Cycle2, c08Cycle3, c08Cycle4, c08Cycle5, c08Cycle6 int

func c08LenBucket(n int) string {
	switch {
	case n < 128:
		return "lt128"
	case n == 128:
		return "eq128"
	case n < 160:
		return "129-159"
	case n == 160:
		return "eq160"
	case n == 161:
		return "eq161"
	case n < 192:
		return "162-191"
	case n == 192:
		return "eq192"
	case n < 256:
		return "193-255"
	case n == 256:
		return "eq256"
	}
	return "gt256"
}

func c08NewTrie() *trie.Trie {
	t, err := trie.New(common.Hash{}, trie.NewDatabase(memorydb.New()))
	if err != nil {
		panic(err)
	}
	return t
}

func c08Pad32(b []byte) []byte {
	if len(b) >= 32 {
		return append([]byte{}, b...)
	}
	return append(make([]byte, 32-len(b)), b...)
}

func (a *c08Acct) clone() *c08Acct {
	n := &c08Acct{addr: a.addr, nonce: a.nonce, balance: new(big.Int).Set(a.balance), codeHash: a.codeHash, storage: map[string][]byte{}, raw: map[string][]byte{}}
	for k, v := range a.storage {
		n.storage[k] = v
	}
	for k, v := range a.raw {
		n.raw[k] = v
	}
	return n
}

func c08Seal(accts map[string]*c08Acct) *c08State {
	st := &c08State{accts: accts, atrie: c08NewTrie()}
	for _, a := range accts {
		a.strie = c08NewTrie()
		for slot, v := range a.storage {
			enc, _ := rlp.EncodeToBytes(v)
			a.strie.Update(crypto.Keccak256([]byte(slot)), enc)
		}
		for slot, v := range a.raw {
			a.strie.Update(crypto.Keccak256([]byte(slot)), v)
		}
		a.storageRoot = a.strie.Hash()
		enc, err := rlp.EncodeToBytes(&gethtypes.StateAccount{Nonce: a.nonce, Balance: a.balance, Root: a.storageRoot, CodeHash: a.codeHash})
		if err != nil {
			panic(err)
		}
		st.atrie.Update(crypto.Keccak256(a.addr), enc)
	}
	st.root = st.atrie.Hash()
	return st
}

func c08Rand(r *Rec, n int) []byte {
	b := make([]byte, n)
	r.Rng.Read(b)
	return b
}

// a 32-byte hash value with a chosen number of leading zero bytes, returned in stored (trimmed) form
func c08RandValue(r *Rec) []byte {
	k := 0
	switch r.Rng.Intn(10) {
	case 0:
		k = 1
	case 1:
		k = 2
	case 2:
		k = 1 + r.Rng.Intn(30)
	case 3:
		k = 31
	}
	v := c08Rand(r, 32-k)
	if v[0] == 0 {
		v[0] = 1 + byte(r.Rng.Intn(255))
	}
	if r.Rng.Intn(8) == 0 && len(v) > 1 { // trailing zero bytes too
		v[len(v)-1] = 0
	}
	if r.Rng.Intn(12) == 0 { // small first byte (single byte < 0x80 is its own RLP)
		v[0] = byte(1 + r.Rng.Intn(0x7f))
	}
	return v
}

var c08Chains = []string{"teleport", "ethereum", "bsc-testnet", "rinkeby", "a", "chain/with/slash", ""}

func c08NewWorld(r *Rec) *c08World {
	w := &c08World{byRoot: map[common.Hash]*c08State{}}
	w.contract = c08Rand(r, 20)
	w.other = c08Rand(r, 20)
	// paths
	np := 4 + r.Rng.Intn(5)
	seen := map[string]bool{}
	for len(w.paths) < np {
		p := c08Path{kind: "c", src: c08Chains[r.Rng.Intn(4)], dst: c08Chains[r.Rng.Intn(len(c08Chains))], seq: uint64(r.Rng.Intn(4))}
		if r.Rng.Intn(2) == 0 {
			p.kind = "a"
		}
		switch r.Rng.Intn(8) {
		case 0:
			p.seq = ^uint64(0)
		case 1:
			p.seq = uint64(r.Rng.Int63())
		case 2:
			p.seq = 10
		}
		for _, q := range []c08Path{p, {kind: map[string]string{"c": "a", "a": "c"}[p.kind], src: p.src, dst: p.dst, seq: p.seq}, {kind: p.kind, src: p.src, dst: p.dst, seq: p.seq + 1}, {kind: p.kind, src: p.dst, dst: p.src + "/", seq: p.seq}} {
			k := fmt.Sprint(q)
			if !seen[k] {
				seen[k] = true
				w.paths = append(w.paths, q)
			}
			if r.Rng.Intn(2) == 0 {
				break // the twins (other kind, next sequence, swapped chains) only sometimes
			}
		}
	}
	mkAcct := func(addr []byte, slots int) *c08Acct {
		a := &c08Acct{addr: addr, nonce: uint64(r.Rng.Intn(3)), balance: big.NewInt(0), codeHash: c08Rand(r, 32), storage: map[string][]byte{}, raw: map[string][]byte{}}
		switch r.Rng.Intn(4) {
		case 0:
			a.balance = new(big.Int).SetBytes(c08Rand(r, 1+r.Rng.Intn(32)))
		case 1:
			a.balance = big.NewInt(int64(r.Rng.Intn(1000)))
		}
		if r.Rng.Intn(5) == 0 {
			a.nonce = r.Rng.Uint64()
		}
		for i := 0; i < slots; i++ {
			a.storage[string(c08Rand(r, 32))] = c08RandValue(r)
		}
		return a
	}
	filler := 0
	switch r.Rng.Intn(4) {
	case 0:
		filler = 0
	case 1:
		filler = 1 + r.Rng.Intn(3)
	case 2:
		filler = 10 + r.Rng.Intn(30)
	case 3:
		filler = 60 + r.Rng.Intn(120)
	}
	accts := map[string]*c08Acct{}
	c := mkAcct(w.contract, filler)
	d := mkAcct(w.other, filler/2)
	for i, p := range w.paths {
		if i%4 != 3 { // every 4th path starts absent
			v := c08RandValue(r)
			c.storage[string(c08Slot(p.kind, p.src, p.dst, p.seq))] = v
			switch r.Rng.Intn(3) {
			case 0:
				d.storage[string(c08Slot(p.kind, p.src, p.dst, p.seq))] = v // the other contract holds the same value
			case 1:
				d.storage[string(c08Slot(p.kind, p.src, p.dst, p.seq))] = c08RandValue(r)
			}
		}
	}
	// values no EVM writes: longer than a word, with a leading zero byte, or not RLP at all
	c.storage[string(c08Slot("c", "non-evm", "long", 1))] = c08Rand(r, 33+r.Rng.Intn(30))
	lz := c08RandValue(r)
	if n := 1 + r.Rng.Intn(20); n < len(lz) {
		lz = lz[:n]
	}
	c.storage[string(c08Slot("c", "non-evm", "lead0", 1))] = append([]byte{0}, lz...)
	switch r.Rng.Intn(3) {
	case 0:
		c.raw[string(c08Slot("c", "non-evm", "raw", 1))] = c08Rand(r, 32)
	case 1:
		c.raw[string(c08Slot("c", "non-evm", "raw", 1))] = append([]byte{0xb8, 0x20}, c08Rand(r, 32)...)
	case 2:
		c.raw[string(c08Slot("c", "non-evm", "raw", 1))] = append([]byte{0x81}, byte(r.Rng.Intn(0x80)))
	}
	// boundary paths, and for each of them the slots a length-limited or digit-dropping implementation would look at
	for i := 0; i < 16; i++ {
		bp, sn := c08BoundaryPath(r)
		w.bpaths, w.bseq = append(w.bpaths, bp), append(w.bseq, sn)
		path := c08PathBytes(bp.kind, bp.src, bp.dst, bp.seq)
		c.storage[string(c08SlotOfBytes(path))] = c08RandValue(r)
		for _, cut := range c08Cuts {
			if len(path) > cut {
				if ts := string(c08SlotOfBytes(path[:cut])); c.storage[ts] == nil {
					c.storage[ts] = c08RandValue(r)
				}
			}
		}
		for q := bp.seq / 10; q > 0 && q >= bp.seq/1000; q /= 10 {
			if qs := string(c08Slot(bp.kind, bp.src, bp.dst, q)); c.storage[qs] == nil {
				c.storage[qs] = c08RandValue(r)
			}
		}
	}
	accts[string(c.addr)] = c
	accts[string(d.addr)] = d
	ne := []int{0, 1, 5, 20, 60}[r.Rng.Intn(5)]
	for i := 0; i < ne; i++ {
		a := mkAcct(c08Rand(r, 20), 0)
		accts[string(a.addr)] = a
	}
	s0 := c08Seal(accts)
	w.states = append(w.states, s0)
	for k := 0; k < 2; k++ {
		prev := w.states[len(w.states)-1]
		next := map[string]*c08Acct{}
		for key, a := range prev.accts {
			next[key] = a.clone()
		}
		nc := next[string(w.contract)]
		nc.nonce++ // the account trie always changes
		switch r.Rng.Intn(3) {
		case 0: // storage of the contract unchanged (same storage root, other state root)
		default:
			for i, p := range w.paths {
				slot := string(c08Slot(p.kind, p.src, p.dst, p.seq))
				switch (i + k + r.Rng.Intn(2)) % 4 {
				case 0:
					delete(nc.storage, slot)
				case 1:
					nc.storage[slot] = c08RandValue(r)
				case 2:
					if _, ok := nc.storage[slot]; !ok {
						nc.storage[slot] = c08RandValue(r)
					}
				}
			}
		}
		w.states = append(w.states, c08Seal(next))
	}
	for _, s := range w.states {
		w.byRoot[s.root] = s
	}
	return w
}

func c08Prove(t *trie.Trie, key []byte) []string {
	var nl light.NodeList
	if err := t.Prove(key, 0, &nl); err != nil {
		panic(err)
	}
	out := make([]string, len(nl))
	for i, n := range nl {
		out[i] = hexutil.Encode(n)
	}
	return out
}

// ---------------------------------------------------------------------------------------------
// proof record in the JSON wire format of the clients (snake_case field names of the generated Proof type)

type c08SP struct {
	Key, Value string
	Proof      []string
	null       bool
}

type c08Rec struct {
	Address, Balance, CodeHash, Nonce, StorageHash string
	AccountProof                                   []string
	StorageProof                                   []*c08SP
	extra                                          bool
}

func (p *c08Rec) json() []byte {
	m := map[string]interface{}{
		"address": p.Address, "balance": p.Balance, "code_hash": p.CodeHash, "nonce": p.Nonce, "storage_hash": p.StorageHash,
		"account_proof": p.AccountProof,
	}
	sps := make([]interface{}, 0)
	for _, s := range p.StorageProof {
		if s == nil || s.null {
			sps = append(sps, nil)
			continue
		}
		sps = append(sps, map[string]interface{}{"key": s.Key, "value": s.Value, "proof": s.Proof})
	}
	m["storage_proof"] = sps
	if p.extra {
		m["height"] = "0x10"
		m["accountProof"] = []string{"0x00"}
	}
	b, err := json.Marshal(m)
	if err != nil {
		panic(err)
	}
	return b
}

// the record an honest relayer builds from eth_getProof for (account, slot) in a state
func (st *c08State) genuine(addr, slot []byte) *c08Rec {
	rec := &c08Rec{Address: hexutil.Encode(addr), AccountProof: c08Prove(st.atrie, crypto.Keccak256(addr))}
	a := st.accts[string(addr)]
	if a == nil {
		rec.Balance, rec.Nonce = "0x0", "0x0"
		rec.CodeHash = hexutil.Encode(crypto.Keccak256(nil))
		rec.StorageHash = "0x56e81f171bcc55a6ff8345e692c0f86e5b48e01b996cadc001622fb5e363b421"
		rec.StorageProof = []*c08SP{{Key: hexutil.Encode(slot), Value: "0x0", Proof: []string{}}}
		return rec
	}
	rec.Balance = hexutil.EncodeBig(a.balance)
	rec.Nonce = hexutil.EncodeUint64(a.nonce)
	rec.CodeHash = hexutil.Encode(a.codeHash)
	rec.StorageHash = a.storageRoot.Hex()
	val := "0x0"
	if v, ok := a.storage[string(slot)]; ok {
		val = hexutil.EncodeBig(new(big.Int).SetBytes(v))
	}
	rec.StorageProof = []*c08SP{{Key: hexutil.Encode(slot), Value: val, Proof: c08Prove(a.strie, crypto.Keccak256(slot))}}
	return rec
}

// ---------------------------------------------------------------------------------------------
// a case and its op line

type c08Cons struct {
	rn, rh uint64
	root   []byte
	bad    string // "", "X" (garbage bytes), "Y" (consensus state of the other client type)
	// the Height / Timestamp fields INSIDE the stored ConsensusState message; when `inner` is false they are the key
	// height and 1 (what a header update writes). CreateClient / UpgradeClient store any value (ValidateBasic is empty).
	inner         bool
	irn, irh, its uint64
}

func (e *c08Cons) innerHeight() (uint64, uint64, uint64) {
	if e.inner {
		return e.irn, e.irh, e.its
	}
	return e.rn, e.rh, 1
}

type c08Case struct {
	client, kind       string
	headRn, headRh, dp uint64
	contract           []byte
	hRn, hRh           uint64
	src, dst           string
	seq                uint64
	value              []byte
	cons               []c08Cons
	raw                []byte
	rawNil             bool
	class, reason      string
	expect             string // A (must accept) / R (must reject) / E (either: lenient syntax, not part of the property)
	breaking           bool
}

func (c *c08Case) delay() uint64 {
	if c.client == "bsc" {
		return c.dp/2 + 1
	}
	return c.dp
}

func (c *c08Case) core() string {
	var sb strings.Builder
	fmt.Fprintf(&sb, "v %s %s %d %d %d %s %d %d %s %s %d %s %d", c.client, c.kind, c.headRn, c.headRh, c.dp, hx(c.contract),
		c.hRn, c.hRh, hxs(c.src), hxs(c.dst), c.seq, hx(c.value), len(c.cons))
	for _, e := range c.cons {
		root := hx(e.root)
		if e.bad != "" {
			root = e.bad
		} else if e.inner {
			root += fmt.Sprintf("@%d-%d-%d", e.irn, e.irh, e.its)
		}
		fmt.Fprintf(&sb, " %d %d %s", e.rn, e.rh, root)
	}
	raw := "nil"
	if !c.rawNil {
		if len(c.raw) == 0 {
			raw = "-"
		} else {
			raw = base64.StdEncoding.EncodeToString(c.raw)
		}
	}
	br := "0"
	if c.breaking {
		br = "1"
	}
	fmt.Fprintf(&sb, " %s %s,%s,%s,%s", raw, c.class, c.reason, c.expect, br)
	return sb.String()
}

func c08ParseCore(t *testing.T, line string) *c08Case {
	if i := strings.Index(line, " | "); i >= 0 {
		line = line[:i]
	}
	f := strings.Fields(line)
	bad := func() { t.Fatalf("bad C08 op line: %.200s", line) }
	if len(f) < 16 || f[0] != "v" {
		bad()
	}
	u := func(s string) uint64 {
		n, err := strconv.ParseUint(s, 10, 64)
		if err != nil {
			bad()
		}
		return n
	}
	c := &c08Case{client: f[1], kind: f[2], headRn: u(f[3]), headRh: u(f[4]), dp: u(f[5]), contract: unhx(f[6]), hRn: u(f[7]), hRh: u(f[8]),
		src: string(unhx(f[9])), dst: string(unhx(f[10])), seq: u(f[11]), value: unhx(f[12])}
	n := int(u(f[13]))
	if len(f) != 14+3*n+2 {
		bad()
	}
	for i := 0; i < n; i++ {
		e := c08Cons{rn: u(f[14+3*i]), rh: u(f[15+3*i])}
		switch s := f[16+3*i]; s {
		case "X", "Y":
			e.bad = s
		default:
			if i := strings.Index(s, "@"); i >= 0 {
				p := strings.Split(s[i+1:], "-")
				if len(p) != 3 {
					bad()
				}
				e.inner, e.irn, e.irh, e.its = true, u(p[0]), u(p[1]), u(p[2])
				s = s[:i]
			}
			e.root = unhx(s)
		}
		c.cons = append(c.cons, e)
	}
	switch raw := f[14+3*n]; raw {
	case "nil":
		c.rawNil = true
	case "-":
		c.raw = []byte{}
	default:
		b, err := base64.StdEncoding.DecodeString(raw)
		if err != nil {
			bad()
		}
		c.raw = b
	}
	tag := strings.Split(f[15+3*n], ",")
	if len(tag) != 4 {
		bad()
	}
	c.class, c.reason, c.expect, c.breaking = tag[0], tag[1], tag[2], tag[3] == "1"
	return c
}

func c08Str(s string) string {
	if s == "" {
		return "h:-"
	}
	for i := 0; i < len(s); i++ {
		if s[i] < 0x21 || s[i] > 0x7e {
			return "h:" + hex.EncodeToString([]byte(s))
		}
	}
	return "s:" + s
}

var c08Cdc = func() codec.BinaryCodec {
	reg := codectypes.NewInterfaceRegistry()
	clienttypes.RegisterInterfaces(reg)
	ethtypes.RegisterInterfaces(reg)
	bsctypes.RegisterInterfaces(reg)
	return codec.NewProtoCodec(reg)
}()

func c08Verify(ns []string, root common.Hash, key []byte) string {
	nl := new(light.NodeList)
	for _, s := range ns {
		_ = nl.Put(nil, common.FromHex(s))
	}
	var val []byte
	var err error
	if pan, _ := safely(func() { val, err = trie.VerifyProof(root, key, nl.NodeSet()) }); pan || err != nil {
		return "E"
	}
	if len(val) == 0 {
		return "A"
	}
	return hex.EncodeToString(val)
}

// c08Derived is the derived part of an op line: the proof record decoded with the driven package's own type and the
// trie.VerifyProof results of each step, computed with that step's own node list (same library calls as the node)
func c08Derived(client string, proof []byte, consRoot []byte, haveCons bool) string {
	var sb strings.Builder
	var mpt []string
	if proof == nil {
		sb.WriteString("nil")
	} else {
		// both packages' Proof types are generated from identical messages; decode with the driven package's type
		var address, balance, codeHash, nonce, storageHash string
		var acctProof []string
		type sp struct {
			null       bool
			key, value string
			proof      []string
		}
		var sps []sp
		var jerr error
		if client == "eth" {
			var p ethtypes.Proof
			jerr = json.Unmarshal(proof, &p)
			address, balance, codeHash, nonce, storageHash, acctProof = p.Address, p.Balance, p.CodeHash, p.Nonce, p.StorageHash, p.AccountProof
			for _, s := range p.StorageProof {
				if s == nil {
					sps = append(sps, sp{null: true})
				} else {
					sps = append(sps, sp{key: s.Key, value: s.Value, proof: s.Proof})
				}
			}
		} else {
			var p bsctypes.Proof
			jerr = json.Unmarshal(proof, &p)
			address, balance, codeHash, nonce, storageHash, acctProof = p.Address, p.Balance, p.CodeHash, p.Nonce, p.StorageHash, p.AccountProof
			for _, s := range p.StorageProof {
				if s == nil {
					sps = append(sps, sp{null: true})
				} else {
					sps = append(sps, sp{key: s.Key, value: s.Value, proof: s.Proof})
				}
			}
		}
		if jerr != nil {
			sb.WriteString("bad")
		} else {
			fmt.Fprintf(&sb, "ok %s %s %s %s %s %d", c08Str(address), c08Str(balance), c08Str(codeHash), c08Str(nonce), c08Str(storageHash), len(acctProof))
			for _, n := range acctProof {
				sb.WriteString(" " + c08Str(n))
			}
			fmt.Fprintf(&sb, " %d", len(sps))
			for _, s := range sps {
				if s.null {
					sb.WriteString(" null")
					continue
				}
				fmt.Fprintf(&sb, " sp %s %s %d", c08Str(s.key), c08Str(s.value), len(s.proof))
				for _, n := range s.proof {
					sb.WriteString(" " + c08Str(n))
				}
			}
			if haveCons {
				root := common.BytesToHash(consRoot)
				key := crypto.Keccak256(common.FromHex(address))
				mpt = append(mpt, hx(root.Bytes())+" "+hx(key)+" "+c08Verify(acctProof, root, key))
			}
			if len(sps) >= 1 && !sps[0].null {
				root := common.HexToHash(storageHash)
				key := crypto.Keccak256(common.HexToHash(sps[0].key).Bytes())
				mpt = append(mpt, hx(root.Bytes())+" "+hx(key)+" "+c08Verify(sps[0].proof, root, key))
			}
		}
	}
	fmt.Fprintf(&sb, " M %d", len(mpt))
	for _, m := range mpt {
		sb.WriteString(" " + m)
	}
	return sb.String()
}

// apply runs the real code on the case and returns the full op line (core + derived part) and the observation
func c08Apply(t *testing.T, r *Rec, c *c08Case) (string, string) {
	store := dbadapter.Store{DB: dbm.NewMemDB()}
	h := clienttypes.NewHeight(c.hRn, c.hRh)
	var consRoot []byte
	haveCons := false
	seen := map[[2]uint64]bool{}
	for _, e := range c.cons {
		if seen[[2]uint64{e.rn, e.rh}] {
			t.Fatalf("duplicate consensus height in case")
		}
		seen[[2]uint64{e.rn, e.rh}] = true
		eh := clienttypes.NewHeight(e.rn, e.rh)
		var bz []byte
		var own, foreign exported.ConsensusState
		irn, irh, its := e.innerHeight()
		ih := clienttypes.NewHeight(irn, irh)
		if c.client == "eth" {
			own = &ethtypes.ConsensusState{Timestamp: its, Height: ih, Root: e.root}
			foreign = &bsctypes.ConsensusState{Timestamp: its, Height: ih, Root: e.root}
		} else {
			own = &bsctypes.ConsensusState{Timestamp: its, Height: ih, Root: e.root}
			foreign = &ethtypes.ConsensusState{Timestamp: its, Height: ih, Root: e.root}
		}
		switch e.bad {
		case "X":
			bz = []byte{0xde, 0xad, 0xbe, 0xef}
		case "Y":
			bz = clienttypes.MustMarshalConsensusState(c08Cdc, foreign)
		default:
			bz = clienttypes.MustMarshalConsensusState(c08Cdc, own)
			if e.rn == c.hRn && e.rh == c.hRh {
				consRoot, haveCons = e.root, true
			}
		}
		store.Set(host.ConsensusStateKey(eh), bz)
	}
	var cs exported.ClientState
	if c.client == "eth" {
		cs = &ethtypes.ClientState{Header: ethtypes.Header{Height: clienttypes.NewHeight(c.headRn, c.headRh)}, ContractAddress: c.contract, BlockDelay: c.dp}
	} else {
		vals := make([][]byte, c.dp)
		for i := range vals {
			vals[i] = make([]byte, 20)
		}
		cs = &bsctypes.ClientState{Header: bsctypes.Header{Height: clienttypes.NewHeight(c.headRn, c.headRh)}, ContractAddress: c.contract, Validators: vals, Epoch: 200}
	}
	var proof []byte
	if !c.rawNil {
		proof = c.raw
	}
	var err error
	pan, _ := safely(func() {
		if c.kind == "c" {
			err = cs.VerifyPacketCommitment(sdk.Context{}, store, c08Cdc, h, proof, c.src, c.dst, c.seq, c.value)
		} else {
			err = cs.VerifyPacketAcknowledgement(sdk.Context{}, store, c08Cdc, h, proof, c.src, c.dst, c.seq, c.value)
		}
	})
	out := "ok"
	if pan {
		out = "panic"
	} else if err != nil {
		out = "err"
	}

	// ---- derived part: decoded record and trie.VerifyProof results (same library calls as the node) ----
	var sb strings.Builder
	sb.WriteString(c.core())
	sb.WriteString(" | ")
	sb.WriteString(c08Derived(c.client, proof, consRoot, haveCons))
	line := sb.String()

	// ---- oracle 2 (needs no ground truth, also evaluated on replays): accepted ⇒ the account proof ALONE proves an
	// account for keccak(configured contract) under the root stored for the height, and the storage proof ALONE proves
	// under that account's storage root, for keccak(slot of the path), an RLP string that pads to the claimed value.
	// Evaluated with go-ethereum's trie.VerifyProof on each component's own node set.
	if out == "ok" {
		if why := c08SelfContained(c, consRoot, haveCons); why != "" {
			r.Find(Finding{Sig: "C08:accepted-not-self-contained:" + why, What: "accepted although the proof does not stand on its own (" + why + ": each component re-verified with trie.VerifyProof on its own node list, under the stored root / the proven storage root), class " + c.class,
				Ops: []string{line}, Obs: "ok", Req: "rejected"})
		}
		r.Count("selfcontained.checked")
	}
	if strings.HasPrefix(c.class, "xc-") || strings.HasPrefix(c.class, "sp-multi") {
		r.Count("xc." + c.client + "." + c.kind)
	}
	// ---- property oracle (ground truth recorded in the tag by the generator; independent of the model) ----
	r.Count("out." + out)
	r.Count("class." + c.class + ":" + out + ":" + c.reason)
	r.Count("expect." + c.expect)
	r.Count("mut." + c.class)
	if c.class == "cons-inner-height" {
		if out != "ok" && c.reason == "not-confirmed" {
			r.Count("inner.too-recent")
		}
		if out == "ok" && c.expect == "A" {
			r.Count("inner.accepted")
		}
	}
	if strings.HasPrefix(c.class, "forge-") {
		r.Count("forge." + c.client + "." + c.kind)
	}
	r.Count("client." + c.client + "." + c.kind + ":" + out)
	if out == "panic" {
		r.Count("panic." + c.class)
	}
	switch {
	case out == "ok" && c.reason == "non-evm-value":
		// outside the property (no EVM stores such a trie value); covered by the model comparison only
	case out == "ok" && c.reason != "true":
		r.Find(Finding{Sig: "C08:accepted-false-claim:" + c.reason, What: "proof accepted although the claim does not hold in the harness's ground truth (" + c.reason + "), class " + c.class,
			Ops: []string{line}, Obs: "ok", Req: "rejected"})
	case out == "ok" && c.breaking:
		r.Find(Finding{Sig: "C08:accepted-broken-proof:" + c.class, What: "proof accepted although a needed component was destroyed (" + c.class + ")",
			Ops: []string{line}, Obs: "ok", Req: "rejected"})
	case out != "ok" && c.expect == "A":
		r.Find(Finding{Sig: "C08:rejected-valid-proof:" + c.class, What: "genuine proof of a true claim at a confirmed height rejected (" + c.class + ")",
			Ops: []string{line}, Obs: out, Req: "ok"})
	}
	if c.expect == "A" && out == "ok" {
		r.Count("accepted.valid")
		lz := 0
		for lz < len(c.value) && c.value[lz] == 0 {
			lz++
		}
		if lz > 0 {
			r.Count("accepted.leading-zero")
		}
	}
	if c.expect == "R" && out != "ok" {
		r.Count("rejected.invalid")
	}
	if out != "ok" {
		// the observation compared with the model is accept / reject; a panic (recovered by the transaction runner in
		// DeliverTx) and an error return are both rejections — panics are counted above and reported in the stats
		out = "rej"
	}
	return line, out
}

// c08SelfContained re-verifies an accepted case component by component; "" = fine
func c08SelfContained(c *c08Case, consRoot []byte, haveCons bool) string {
	if !haveCons || c.rawNil {
		return "no-consensus-state-or-proof"
	}
	var p struct {
		AccountProof []string `json:"account_proof"`
		StorageProof []*struct {
			Proof []string `json:"proof"`
		} `json:"storage_proof"`
	}
	if json.Unmarshal(c.raw, &p) != nil {
		return "not-json"
	}
	if len(p.StorageProof) != 1 || p.StorageProof[0] == nil {
		return "storage-entry-count"
	}
	set := func(l []string) *light.NodeSet {
		nl := new(light.NodeList)
		for _, s := range l {
			_ = nl.Put(nil, common.FromHex(s))
		}
		return nl.NodeSet()
	}
	acctVal, err := trie.VerifyProof(common.BytesToHash(consRoot), crypto.Keccak256(c.contract), set(p.AccountProof))
	if err != nil || len(acctVal) == 0 {
		return "account-proof-alone"
	}
	var acct struct {
		Nonce, Balance *big.Int
		Root           common.Hash
		CodeHash       []byte
	}
	if rlp.DecodeBytes(acctVal, &acct) != nil {
		return "account-value"
	}
	val, err := trie.VerifyProof(acct.Root, crypto.Keccak256(c08Slot(c.kind, c.src, c.dst, c.seq)), set(p.StorageProof[0].Proof))
	if err != nil || len(val) == 0 {
		return "storage-proof-alone"
	}
	var t []byte
	if rlp.DecodeBytes(val, &t) != nil || !bytes.Equal(c08Pad32(t), c.value) {
		return "storage-proof-alone-other-value"
	}
	return ""
}

// ---------------------------------------------------------------------------------------------
// ground truth of a case

func (w *c08World) truth(c *c08Case) string {
	var ent *c08Cons
	for i := range c.cons {
		if c.cons[i].rn == c.hRn && c.cons[i].rh == c.hRh {
			ent = &c.cons[i]
		}
	}
	if ent == nil || ent.bad != "" {
		return "no-consensus-state"
	}
	if len(ent.root) != 32 {
		return "unknown-root"
	}
	st := w.byRoot[common.BytesToHash(ent.root)]
	if st == nil {
		return "unknown-root"
	}
	a := st.accts[string(c.contract)]
	if a == nil {
		return "no-such-contract"
	}
	if _, isRaw := a.raw[string(c08Slot(c.kind, c.src, c.dst, c.seq))]; isRaw {
		return "non-evm-value"
	}
	v, ok := a.storage[string(c08Slot(c.kind, c.src, c.dst, c.seq))]
	if !ok {
		return "slot-empty"
	}
	if len(v) > 32 || v[0] == 0 {
		return "non-evm-value"
	}
	if len(c.value) != 32 || !bytes.Equal(c08Pad32(v), c.value) {
		return "other-value"
	}
	if c.headRn < c.hRn {
		return "height-above-head"
	}
	if c.hRh > c.headRh {
		if c.headRn > c.hRn {
			return "block-above-head-cross-revision"
		}
		return "height-above-head"
	}
	if c.headRh-c.hRh < c.delay() {
		return "not-confirmed"
	}
	return "true"
}

// ---------------------------------------------------------------------------------------------
// generator

func c08FlipHexCase(r *Rec, s string, up bool) string {
	pre, body := "", s
	if strings.HasPrefix(s, "0x") || strings.HasPrefix(s, "0X") {
		pre, body = s[:2], s[2:]
	}
	if up {
		return pre + strings.ToUpper(body)
	}
	b := []byte(body)
	for i := range b {
		if r.Rng.Intn(2) == 0 {
			b[i] = strings.ToUpper(string(b[i]))[0]
		}
	}
	return pre + string(b)
}

func (rec *c08Rec) mapStrings(f func(string) string) {
	rec.Address, rec.Balance, rec.CodeHash, rec.Nonce, rec.StorageHash = f(rec.Address), f(rec.Balance), f(rec.CodeHash), f(rec.Nonce), f(rec.StorageHash)
	for i := range rec.AccountProof {
		rec.AccountProof[i] = f(rec.AccountProof[i])
	}
	for _, s := range rec.StorageProof {
		if s == nil {
			continue
		}
		s.Key = f(s.Key)
		for i := range s.Proof {
			s.Proof[i] = f(s.Proof[i])
		}
	}
}

func c08FlipByteHex(r *Rec, s string) string {
	b := common.FromHex(s)
	if len(b) == 0 {
		return "0x01"
	}
	i := r.Rng.Intn(len(b))
	b[i] ^= byte(1 << uint(r.Rng.Intn(8)))
	return hexutil.Encode(b)
}

func c08DropOne(r *Rec, l []string) []string {
	if len(l) == 0 {
		return l
	}
	i := r.Rng.Intn(len(l))
	switch r.Rng.Intn(3) {
	case 0:
		i = 0
	case 1:
		i = len(l) - 1
	}
	out := append([]string{}, l[:i]...)
	return append(out, l[i+1:]...)
}

var c08Classes = []string{
	"base", "base", "base", "base", "base", "base",
	"fmt-upper", "fmt-mixed", "fmt-no0x", "fmt-0X", "fmt-pad-quantities", "fmt-trailing-garbage-addr", "fmt-overlong-left", "fmt-overlong-right", "fmt-odd",
	"json-extra-field", "json-broken", "json-nil", "json-empty", "json-wrong-type", "sp-value-field",
	"node-flip-acct", "node-flip-stor", "node-drop-acct", "node-drop-stor", "node-none-acct", "node-none-stor", "node-extra", "node-shuffle", "node-badhex",
	// cross-component families: each proof must verify from ITS OWN node set
	"xc-storage-to-acct-all", "xc-storage-to-acct-all", "xc-storage-to-acct-some", "xc-storage-to-acct-some", "xc-storage-to-acct-leaf", "xc-storage-to-acct-root",
	"xc-acct-to-storage-all", "xc-acct-to-storage-some", "xc-storage-dup-in-acct", "xc-acct-dup-in-storage", "xc-swap-lists",
	"xc-other-trie-mixed", "xc-other-trie-replaces-some", "node-dup-all",
	// storage_proof lists with 0 / 2 / 3 entries, the matching entry first / last / absent
	"sp-multi-first", "sp-multi-last", "sp-multi-middle", "sp-multi-absent", "sp-multi-absent-claim-other", "other-slot-proof-claim-its-value",
	"other-slot-proof", "other-slot-nodes", "other-acct-record", "other-acct-proof", "other-state-record", "other-state-storage",
	// consistent multi-component forgeries: every single component verifies on its own, the link between them is broken
	"forge-storage-other-contract", "forge-storage-other-contract", "forge-storage-offchain", "forge-storage-offchain",
	"forge-account-other-xibc-storage", "forge-account-other-xibc-storage", "forge-fields-other-account", "field-storagehash-other-contract",
	"field-nonce", "field-balance", "field-codehash", "field-storagehash", "field-address", "key-other",
	"sp-count-0", "sp-count-2", "sp-null", "sp-second-null",
	"value-bitflip", "value-short31", "value-long33", "value-trimmed", "value-zero32",
	"path-seq", "path-src", "path-dst", "path-kind", "absent-key", "absent-key-zero",
	"cfg-contract-other", "cfg-contract-weird",
	"cons-missing", "cons-corrupt-X", "cons-corrupt-Y", "cons-root-random", "cons-root-other-state", "cons-root-short",
	"height-other-stored", "height-unstored",
	"non-evm-long", "non-evm-lead0", "non-evm-raw", "json-variant", "json-null-fields",
	"bnd-path-valid", "bnd-path-valid", "bnd-path-valid", "bnd-path-valid", "bnd-path-trunc-forgery", "bnd-path-trunc-forgery", "bnd-path-trunc-forgery",
	"bnd-seq-digits-cut", "bnd-seq-digits-cut", "bnd-heights", "bnd-heights", "bnd-bsc-validators", "bnd-bsc-validators", "bnd-bsc-validators", "bnd-bsc-validators",
	"bnd-bsc-validators", "bnd-bsc-validators", "bnd-bsc-validators", "bnd-eth-delay", "bnd-eth-delay", "bnd-eth-delay",
	"cons-inner-height", "cons-inner-height", "cons-inner-height", "cons-inner-height", "cons-inner-height", "cons-inner-height",
	"delay-boundary", "delay-boundary", "delay-boundary", "height-above-head", "rev-head-lower", "rev-head-higher", "rev-head-higher-wrap", "rev-both", "big-heights", "delay-huge",
}

func c08Gen(r *Rec, w *c08World) *c08Case {
	c := &c08Case{client: "eth", kind: "c"}
	if r.Rng.Intn(2) == 0 {
		c.client = "bsc"
	}
	si := r.Rng.Intn(len(w.states))
	st := w.states[si]
	// pick a path, preferring ones present in the chosen state
	var p c08Path
	for try := 0; try < 6; try++ {
		p = w.paths[r.Rng.Intn(len(w.paths))]
		if _, ok := st.accts[string(w.contract)].storage[string(c08Slot(p.kind, p.src, p.dst, p.seq))]; ok {
			break
		}
	}
	c.kind, c.src, c.dst, c.seq = p.kind, p.src, p.dst, p.seq
	c.contract = w.contract
	// heights of the three states: increasing block numbers
	base := uint64(1 + r.Rng.Intn(1000))
	switch r.Rng.Intn(6) {
	case 0:
		base = 0
	case 1:
		base = uint64(r.Rng.Int63())
	}
	hs := make([]uint64, len(w.states))
	for i := range hs {
		hs[i] = base + uint64(i)*uint64(1+r.Rng.Intn(50))
		if i > 0 && hs[i] <= hs[i-1] {
			hs[i] = hs[i-1] + 1
		}
	}
	rn := uint64(0)
	if r.Rng.Intn(5) == 0 {
		rn = uint64(r.Rng.Intn(3))
	}
	for i, s := range w.states {
		c.cons = append(c.cons, c08Cons{rn: rn, rh: hs[i], root: s.root.Bytes()})
	}
	r.Rng.Shuffle(len(c.cons), func(i, j int) { c.cons[i], c.cons[j] = c.cons[j], c.cons[i] })
	c.hRn, c.hRh = rn, hs[si]
	if c.client == "eth" {
		c.dp = []uint64{0, 0, 1, 2, 5, 12, 15, 64}[r.Rng.Intn(8)]
	} else {
		c.dp = []uint64{0, 1, 2, 3, 4, 7, 21, 41}[r.Rng.Intn(8)]
	}
	c.headRn = rn
	c.headRh = hs[len(hs)-1] + c.delay() + uint64([]int{0, 0, 1, 7, 1000}[r.Rng.Intn(5)])
	slot := c08Slot(c.kind, c.src, c.dst, c.seq)
	if v, ok := st.accts[string(w.contract)].storage[string(slot)]; ok {
		c.value = c08Pad32(v)
	} else {
		c.value = c08Rand(r, 32)
	}
	rec := st.genuine(w.contract, slot)
	c.class = c08Classes[r.Rng.Intn(len(c08Classes))]
	lenient := false
	otherState := w.states[(si+1+r.Rng.Intn(len(w.states)-1))%len(w.states)]
	otherPath := func() (c08Path, bool) { // another path present in this state
		for try := 0; try < 10; try++ {
			q := w.paths[r.Rng.Intn(len(w.paths))]
			if q == p {
				continue
			}
			if _, ok := st.accts[string(w.contract)].storage[string(c08Slot(q.kind, q.src, q.dst, q.seq))]; ok {
				return q, true
			}
		}
		return p, false
	}
	switch c.class {
	case "base":
	case "fmt-upper":
		rec.mapStrings(func(s string) string { return c08FlipHexCase(r, s, true) })
	case "fmt-mixed":
		rec.mapStrings(func(s string) string { return c08FlipHexCase(r, s, false) })
	case "fmt-no0x":
		rec.mapStrings(func(s string) string { return strings.TrimPrefix(s, "0x") })
	case "fmt-0X":
		rec.mapStrings(func(s string) string { return "0X" + strings.TrimPrefix(s, "0x") })
	case "fmt-pad-quantities":
		rec.Nonce = hexutil.Encode(c08Pad32(common.FromHex(rec.Nonce)))
		rec.Balance = hexutil.Encode(c08Pad32(common.FromHex(rec.Balance)))
	case "fmt-trailing-garbage-addr":
		rec.Address += []string{"zz", "g", " ", "0xzz", "\x00"}[r.Rng.Intn(5)]
		lenient = true
	case "fmt-overlong-left":
		f := func(s string) string {
			return "0x" + hex.EncodeToString(c08Rand(r, 1+r.Rng.Intn(3))) + strings.TrimPrefix(s, "0x")
		}
		switch r.Rng.Intn(4) {
		case 0:
			rec.StorageProof[0].Key = f(rec.StorageProof[0].Key)
		case 1:
			rec.StorageHash = f(rec.StorageHash)
		case 2:
			rec.CodeHash = f(rec.CodeHash)
		case 3:
			rec.Nonce = f(hexutil.Encode(c08Pad32(common.FromHex(rec.Nonce))))
		}
		lenient = true
	case "fmt-overlong-right":
		f := func(s string) string { return s + hex.EncodeToString(c08Rand(r, 1+r.Rng.Intn(2))) }
		switch r.Rng.Intn(4) {
		case 0:
			rec.StorageProof[0].Key = f(rec.StorageProof[0].Key)
		case 1:
			rec.StorageHash = f(rec.StorageHash)
		case 2:
			rec.CodeHash = f(rec.CodeHash)
		case 3:
			rec.Address = f(rec.Address)
		}
		lenient = true
	case "fmt-odd":
		// odd-length strings: drop a leading zero nibble where there is one, else add a nibble
		f := func(s string) string {
			b := strings.TrimPrefix(s, "0x")
			if strings.HasPrefix(b, "0") {
				return "0x" + b[1:]
			}
			return "0x" + b + "f"
		}
		switch r.Rng.Intn(3) {
		case 0:
			rec.StorageProof[0].Key = f(rec.StorageProof[0].Key)
		case 1:
			rec.StorageHash = f(rec.StorageHash)
		case 2:
			rec.Address = f(rec.Address)
		}
		lenient = true
	case "json-extra-field":
		rec.extra = true
		lenient = true
	case "sp-value-field":
		rec.StorageProof[0].Value = []string{"0x0", "", "0xdeadbeef", "zz"}[r.Rng.Intn(4)]
		lenient = true
	case "node-flip-acct":
		i := r.Rng.Intn(len(rec.AccountProof))
		rec.AccountProof[i] = c08FlipByteHex(r, rec.AccountProof[i])
		c.breaking = true
	case "node-flip-stor":
		sp := rec.StorageProof[0]
		if len(sp.Proof) > 0 {
			i := r.Rng.Intn(len(sp.Proof))
			sp.Proof[i] = c08FlipByteHex(r, sp.Proof[i])
			c.breaking = true
		}
	case "node-drop-acct":
		rec.AccountProof = c08DropOne(r, rec.AccountProof)
		c.breaking = true
	case "node-drop-stor":
		if len(rec.StorageProof[0].Proof) > 0 {
			rec.StorageProof[0].Proof = c08DropOne(r, rec.StorageProof[0].Proof)
			c.breaking = true
		}
	case "node-none-acct":
		rec.AccountProof = []string{}
		c.breaking = true
	case "node-none-stor":
		if len(rec.StorageProof[0].Proof) > 0 {
			rec.StorageProof[0].Proof = []string{}
			c.breaking = true
		}
	case "node-extra":
		junk := []string{hexutil.Encode(c08Rand(r, 1+r.Rng.Intn(80))), "0x", "", "0xc0", rec.AccountProof[0]}
		rec.AccountProof = append(rec.AccountProof, junk[r.Rng.Intn(len(junk))])
		sp := rec.StorageProof[0]
		if r.Rng.Intn(2) == 0 {
			sp.Proof = append([]string{junk[r.Rng.Intn(len(junk))]}, sp.Proof...)
		}
		if r.Rng.Intn(2) == 0 {
			sp.Proof = append(sp.Proof, rec.AccountProof...)
		}
		lenient = true
	case "xc-storage-to-acct-all", "xc-storage-to-acct-some", "xc-storage-to-acct-leaf", "xc-storage-to-acct-root":
		// nodes of the storage proof removed from storage_proof[0].proof and appended to account_proof
		sp := rec.StorageProof[0]
		n := len(sp.Proof)
		if n > 0 {
			take := make([]bool, n)
			switch c.class {
			case "xc-storage-to-acct-all":
				for i := range take {
					take[i] = true
				}
			case "xc-storage-to-acct-leaf":
				take[n-1] = true
			case "xc-storage-to-acct-root":
				take[0] = true
			default:
				take[r.Rng.Intn(n)] = true
				for i := range take {
					if r.Rng.Intn(3) == 0 {
						take[i] = true
					}
				}
			}
			var keep, moved []string
			for i, nd := range sp.Proof {
				if take[i] {
					moved = append(moved, nd)
				} else {
					keep = append(keep, nd)
				}
			}
			if keep == nil {
				keep = []string{}
			}
			sp.Proof = keep
			if r.Rng.Intn(2) == 0 {
				rec.AccountProof = append(rec.AccountProof, moved...)
			} else {
				rec.AccountProof = append(moved, rec.AccountProof...)
			}
			c.breaking = true
		}
	case "xc-acct-to-storage-all", "xc-acct-to-storage-some":
		// nodes of the account proof removed from account_proof and put into the storage proof
		n := len(rec.AccountProof)
		var keep, moved []string
		pick := r.Rng.Intn(n)
		for i, nd := range rec.AccountProof {
			if c.class == "xc-acct-to-storage-all" || i == pick || r.Rng.Intn(3) == 0 {
				moved = append(moved, nd)
			} else {
				keep = append(keep, nd)
			}
		}
		if keep == nil {
			keep = []string{}
		}
		rec.AccountProof = keep
		rec.StorageProof[0].Proof = append(rec.StorageProof[0].Proof, moved...)
		c.breaking = true
	case "xc-storage-dup-in-acct":
		// both proofs complete; the storage nodes additionally appear among the account nodes (harmless extra nodes)
		rec.AccountProof = append(append([]string{}, rec.AccountProof...), rec.StorageProof[0].Proof...)
		lenient = true
	case "xc-acct-dup-in-storage":
		rec.StorageProof[0].Proof = append(append([]string{}, rec.AccountProof...), rec.StorageProof[0].Proof...)
		lenient = true
	case "xc-swap-lists":
		rec.AccountProof, rec.StorageProof[0].Proof = rec.StorageProof[0].Proof, rec.AccountProof
		if rec.AccountProof == nil {
			rec.AccountProof = []string{}
		}
		c.breaking = true
	case "xc-other-trie-mixed":
		// complete proofs + nodes of other tries (other contract's storage, another state's account trie) in both lists
		o := otherState.genuine(w.other, slot)
		rec.AccountProof = append(append([]string{}, rec.AccountProof...), o.StorageProof[0].Proof...)
		rec.StorageProof[0].Proof = append(append([]string{}, o.AccountProof...), rec.StorageProof[0].Proof...)
		if r.Rng.Intn(2) == 0 {
			rec.StorageProof[0].Proof = append(rec.StorageProof[0].Proof, o.StorageProof[0].Proof...)
		}
		lenient = true
	case "xc-other-trie-replaces-some":
		// one storage node replaced by nodes of the other contract's storage trie, the removed one hidden in account_proof
		sp := rec.StorageProof[0]
		if len(sp.Proof) > 0 {
			o := st.genuine(w.other, slot)
			i := r.Rng.Intn(len(sp.Proof))
			removed := sp.Proof[i]
			rec.AccountProof = append(rec.AccountProof, removed)
			sp.Proof = append(append(append([]string{}, sp.Proof[:i]...), o.StorageProof[0].Proof...), sp.Proof[i+1:]...)
			c.breaking = true
			for _, nd := range sp.Proof { // the two tries can share a node (same slot, same value ⇒ same leaf)
				if nd == removed {
					c.breaking, lenient = false, true
				}
			}
		}
	case "node-dup-all":
		rec.AccountProof = append(append([]string{}, rec.AccountProof...), rec.AccountProof...)
		rec.StorageProof[0].Proof = append(append([]string{}, rec.StorageProof[0].Proof...), rec.StorageProof[0].Proof...)
		lenient = true
	case "sp-multi-first", "sp-multi-last", "sp-multi-middle", "sp-multi-absent", "sp-multi-absent-claim-other":
		// eth_getProof-style answers for several slots: 2 or 3 entries, the entry of the path's slot first / last / in the
		// middle / missing. The verifier takes exactly one entry, so all of them must be rejected.
		var others []*c08SP
		var firstOther c08Path
		for _, i := range r.Rng.Perm(len(w.paths)) {
			q := w.paths[i]
			if q == p {
				continue
			}
			if len(others) == 0 {
				firstOther = q
			}
			others = append(others, st.genuine(w.contract, c08Slot(q.kind, q.src, q.dst, q.seq)).StorageProof[0])
			if len(others) == 2 {
				break
			}
		}
		if len(others) == 2 {
			own := rec.StorageProof[0]
			if r.Rng.Intn(2) == 0 && c.class != "sp-multi-middle" {
				others = others[:1]
			}
			switch c.class {
			case "sp-multi-first":
				rec.StorageProof = append([]*c08SP{own}, others...)
			case "sp-multi-last":
				rec.StorageProof = append(others, own)
			case "sp-multi-middle":
				rec.StorageProof = []*c08SP{others[0], own, others[1]}
			default:
				rec.StorageProof = others
				if len(others) == 1 { // absent in a list of 2: a copy of the other entry
					cp := *others[0]
					rec.StorageProof = append(rec.StorageProof, &cp)
				}
				if c.class == "sp-multi-absent-claim-other" {
					// … and the claimed value is what the FIRST entry's slot holds
					if v, ok := st.accts[string(w.contract)].storage[string(c08Slot(firstOther.kind, firstOther.src, firstOther.dst, firstOther.seq))]; ok {
						c.value = c08Pad32(v)
					}
				}
			}
			c.breaking = true
		}
	case "other-slot-proof-claim-its-value":
		// a single genuine entry for ANOTHER slot, and the claimed value is what that slot holds
		if q, ok := otherPath(); ok {
			qs := c08Slot(q.kind, q.src, q.dst, q.seq)
			rec = st.genuine(w.contract, qs)
			c.value = c08Pad32(st.accts[string(w.contract)].storage[string(qs)])
			c.breaking = true
		}
	case "node-shuffle":
		r.Rng.Shuffle(len(rec.AccountProof), func(i, j int) { rec.AccountProof[i], rec.AccountProof[j] = rec.AccountProof[j], rec.AccountProof[i] })
		sp := rec.StorageProof[0]
		r.Rng.Shuffle(len(sp.Proof), func(i, j int) { sp.Proof[i], sp.Proof[j] = sp.Proof[j], sp.Proof[i] })
		lenient = true
	case "node-badhex":
		l := rec.AccountProof
		if r.Rng.Intn(2) == 0 && len(rec.StorageProof[0].Proof) > 0 {
			l = rec.StorageProof[0].Proof
		}
		i := r.Rng.Intn(len(l))
		b := []byte(l[i])
		b[2+r.Rng.Intn(len(b)-2)] = "gz xG-"[r.Rng.Intn(6)]
		l[i] = string(b)
		c.breaking = true
	case "other-slot-proof":
		if q, ok := otherPath(); ok {
			rec = st.genuine(w.contract, c08Slot(q.kind, q.src, q.dst, q.seq))
			c.breaking = true
		}
	case "other-slot-nodes":
		if q, ok := otherPath(); ok {
			o := st.genuine(w.contract, c08Slot(q.kind, q.src, q.dst, q.seq))
			rec.StorageProof[0].Proof = o.StorageProof[0].Proof
			c.breaking = true
		}
	case "other-acct-record":
		rec = st.genuine(w.other, slot)
		c.breaking = true
	case "other-acct-proof":
		rec = st.genuine(w.other, slot)
		rec.Address = hexutil.Encode(w.contract)
		c.breaking = true
	case "other-state-record":
		rec = otherState.genuine(w.contract, slot)
		c.breaking = true
	case "other-state-storage":
		o := otherState.genuine(w.contract, slot)
		rec.StorageProof = o.StorageProof
		if otherState.accts[string(w.contract)].storageRoot != st.accts[string(w.contract)].storageRoot {
			c.breaking = true
		}
	case "forge-storage-other-contract":
		// genuine account proof of the configured contract + storageHash and storage proof of the SECOND contract's trie,
		// claimed value = what that trie holds at the derived slot
		dAcct := st.accts[string(w.other)]
		cAcct := st.accts[string(w.contract)]
		var q c08Path
		found := 0
		for _, i := range r.Rng.Perm(len(w.paths)) {
			cand := w.paths[i]
			sl := string(c08Slot(cand.kind, cand.src, cand.dst, cand.seq))
			dv, ok := dAcct.storage[sl]
			if !ok {
				continue
			}
			cv, cok := cAcct.storage[sl]
			if !cok || !bytes.Equal(cv, dv) {
				q, found = cand, 2 // the configured contract does not hold that value there
				break
			}
			if found == 0 {
				q, found = cand, 1
			}
		}
		if found > 0 {
			c.kind, c.src, c.dst, c.seq = q.kind, q.src, q.dst, q.seq
			slot = c08Slot(c.kind, c.src, c.dst, c.seq)
			rec = st.genuine(w.contract, slot)
			o := st.genuine(w.other, slot)
			rec.StorageHash, rec.StorageProof = o.StorageHash, o.StorageProof
			c.value = c08Pad32(dAcct.storage[string(slot)])
			c.breaking = true
		} else {
			c.class = "base"
		}
	case "forge-storage-offchain":
		// genuine account proof + a storage trie built off-chain that holds an arbitrary word at the derived slot
		t := c08NewTrie()
		for i, n := 0, []int{0, 1, 5, 40}[r.Rng.Intn(4)]; i < n; i++ {
			enc, _ := rlp.EncodeToBytes(c08RandValue(r))
			t.Update(c08Rand(r, 32), enc)
		}
		v := c08RandValue(r)
		enc, _ := rlp.EncodeToBytes(v)
		t.Update(crypto.Keccak256(slot), enc)
		rec.StorageHash = t.Hash().Hex()
		rec.StorageProof = []*c08SP{{Key: hexutil.Encode(slot), Value: hexutil.EncodeBig(new(big.Int).SetBytes(v)), Proof: c08Prove(t, crypto.Keccak256(slot))}}
		c.value = c08Pad32(v)
		c.breaking = true
	case "forge-account-other-xibc-storage":
		// genuine storage proof and storageHash of the XIBC contract + account proof / nonce / balance / codeHash of another account
		o := st.genuine(w.other, slot)
		rec.AccountProof, rec.Nonce, rec.Balance, rec.CodeHash = o.AccountProof, o.Nonce, o.Balance, o.CodeHash
		if r.Rng.Intn(3) == 0 { // … under the other account's address, configured address unchanged
			rec.Address = o.Address
		}
		c.breaking = true
	case "forge-fields-other-account":
		// genuine proofs, but nonce / balance / codeHash claimed from the other account (storageHash genuine)
		o := st.genuine(w.other, slot)
		rec.Nonce, rec.Balance, rec.CodeHash = o.Nonce, o.Balance, o.CodeHash
		c.breaking = true
	case "field-storagehash-other-contract":
		rec.StorageHash = st.accts[string(w.other)].storageRoot.Hex()
		c.breaking = true
	case "field-nonce":
		rec.Nonce = hexutil.EncodeUint64(st.accts[string(w.contract)].nonce + 1 + uint64(r.Rng.Intn(3)))
		c.breaking = true
	case "field-balance":
		rec.Balance = hexutil.EncodeBig(new(big.Int).Add(st.accts[string(w.contract)].balance, big.NewInt(1)))
		c.breaking = true
	case "field-codehash":
		rec.CodeHash = c08FlipByteHex(r, rec.CodeHash)
		c.breaking = true
	case "field-storagehash":
		rec.StorageHash = c08FlipByteHex(r, rec.StorageHash)
		c.breaking = true
	case "field-address":
		rec.Address = c08FlipByteHex(r, rec.Address)
		c.breaking = true
	case "key-other":
		switch r.Rng.Intn(3) {
		case 0:
			rec.StorageProof[0].Key = c08FlipByteHex(r, rec.StorageProof[0].Key)
		case 1:
			rec.StorageProof[0].Key = hexutil.Encode(c08Rand(r, 32))
		case 2:
			rec.StorageProof[0].Key = ""
		}
		c.breaking = true
	case "sp-count-0":
		rec.StorageProof = []*c08SP{}
		c.breaking = true
	case "sp-count-2":
		sp := *rec.StorageProof[0]
		rec.StorageProof = append(rec.StorageProof, &sp)
		c.breaking = true
	case "sp-null":
		rec.StorageProof = []*c08SP{{null: true}}
		c.breaking = true
	case "sp-second-null":
		rec.StorageProof = append(rec.StorageProof, &c08SP{null: true})
		c.breaking = true
	case "value-bitflip":
		c.value = append([]byte{}, c.value...)
		c.value[r.Rng.Intn(32)] ^= byte(1 << uint(r.Rng.Intn(8)))
	case "value-short31":
		c.value = c.value[1:]
	case "value-long33":
		c.value = append([]byte{0}, c.value...)
	case "value-trimmed":
		c.value = bytes.TrimLeft(c.value, "\x00")
		if len(c.value) == 32 {
			c.value = c.value[:31]
		}
	case "value-zero32":
		c.value = make([]byte, 32)
	case "path-seq":
		c.seq += uint64(1 + r.Rng.Intn(2))
	case "path-src":
		c.src = c08Chains[r.Rng.Intn(len(c08Chains))] + "x"
	case "path-dst":
		c.src, c.dst = c.dst, c.src+"/"
	case "path-kind":
		if c.kind == "c" {
			c.kind = "a"
		} else {
			c.kind = "c"
		}
	case "absent-key", "absent-key-zero":
		c.src, c.seq = "absent-chain", uint64(r.Rng.Intn(5))
		slot = c08Slot(c.kind, c.src, c.dst, c.seq)
		rec = st.genuine(w.contract, slot)
		if c.class == "absent-key-zero" {
			c.value = make([]byte, 32)
		}
	case "non-evm-long", "non-evm-lead0", "non-evm-raw":
		c.kind, c.src, c.dst, c.seq = "c", "non-evm", strings.TrimPrefix(c.class, "non-evm-"), 1
		slot = c08Slot(c.kind, c.src, c.dst, c.seq)
		rec = st.genuine(w.contract, slot)
		a := st.accts[string(w.contract)]
		if v, ok := a.storage[string(slot)]; ok {
			c.value = c08Pad32(v)
		} else {
			c.value = c08Pad32(a.raw[string(slot)])
			if r.Rng.Intn(2) == 0 && len(c.value) >= 34 {
				c.value = c.value[len(c.value)-32:]
			}
		}
	case "cfg-contract-other":
		c.contract = w.other
		c.breaking = true
	case "cfg-contract-weird":
		switch r.Rng.Intn(4) {
		case 0:
			c.contract = c08Pad32(w.contract)
		case 1:
			c.contract = w.contract[1:]
		case 2:
			c.contract = nil
		case 3:
			c.contract = append(append([]byte{}, w.contract...), 0)
		}
		if r.Rng.Intn(2) == 0 { // the record claims the same odd address: passes the address comparison, fails the account proof
			rec.Address = hexutil.Encode(c.contract)
			if r.Rng.Intn(3) == 0 {
				rec.Address = hex.EncodeToString(c.contract)
			}
		}
	case "cons-missing", "cons-corrupt-X", "cons-corrupt-Y", "cons-root-random", "cons-root-other-state", "cons-root-short":
		for i := range c.cons {
			if c.cons[i].rh != c.hRh {
				continue
			}
			switch c.class {
			case "cons-missing":
				c.cons = append(c.cons[:i:i], c.cons[i+1:]...)
			case "cons-corrupt-X":
				c.cons[i].bad = "X"
			case "cons-corrupt-Y":
				c.cons[i].bad = "Y"
			case "cons-root-random":
				c.cons[i].root = c08Rand(r, 32)
			case "cons-root-other-state":
				c.cons[i].root = otherState.root.Bytes()
				c.breaking = true
			case "cons-root-short":
				c.cons[i].root = c.cons[i].root[:r.Rng.Intn(32)]
			}
			break
		}
	case "height-other-stored":
		for i, s := range w.states {
			if s == otherState {
				c.hRh = hs[i]
			}
		}
		c.breaking = true
	case "height-unstored":
		c.hRh = c.hRh + 1
		for _, x := range hs {
			if x == c.hRh {
				c.hRh = hs[len(hs)-1] + 1
			}
		}
	case "delay-boundary":
		d := c.delay()
		switch r.Rng.Intn(3) {
		case 0:
			if d > 0 {
				c.headRh = c.hRh + d - 1
			}
		case 1:
			c.headRh = c.hRh + d
		case 2:
			c.headRh = c.hRh + d + 1
		}
	case "cons-inner-height":
		// the Height field inside the stored consensus state differs from the key (proof height) it is stored under,
		// combined with the confirmation boundary of the PROOF height: the inner field must not matter
		d := c.delay()
		switch r.Rng.Intn(5) {
		case 0, 1:
			if d > 0 {
				c.headRh = c.hRh + d - 1 // too recent by one block
			}
		case 2:
			c.headRh = c.hRh + d // exactly confirmed
		case 3:
			c.headRh = c.hRh + d + 1
		}
		var e *c08Cons
		for i := range c.cons {
			if c.cons[i].rh == c.hRh {
				e = &c.cons[i]
			}
		}
		e.inner, e.irn, e.its = true, c.hRn, uint64(r.Rng.Intn(3))
		variant := []string{"omitted", "smaller", "larger", "above-head", "confirmed-by-inner", "other-revision", "max"}[r.Rng.Intn(7)]
		switch variant {
		case "omitted":
			e.irn, e.irh, e.its = 0, 0, 0
		case "smaller":
			if c.hRh > 0 {
				e.irh = c.hRh - 1 - uint64(r.Rng.Int63n(int64(c08Min(c.hRh, 1<<40))))
			}
		case "larger":
			e.irh = c.hRh + 1 + uint64(r.Rng.Intn(3))
		case "above-head":
			e.irh = c.headRh + 1 + uint64(r.Rng.Intn(1000)) // head - inner wraps around
		case "confirmed-by-inner":
			if c.headRh >= d {
				e.irh = c.headRh - d // head - inner == delay exactly
			}
		case "other-revision":
			e.irn, e.irh = c.hRn+1+uint64(r.Rng.Intn(2)), uint64(r.Rng.Intn(100))
		case "max":
			e.irh = ^uint64(0)
		}
		r.Count("inner." + variant)
		r.Count("inner." + c.client + "." + c.kind)
	case "bnd-path-valid", "bnd-path-trunc-forgery", "bnd-seq-digits-cut":
		bi := (c08Cycle5 * 7) % len(w.bpaths) // rotate through the boundary paths (7 is coprime to their number)
		c08Cycle5++
		bp := w.bpaths[bi]
		c.kind, c.src, c.dst, c.seq = bp.kind, bp.src, bp.dst, bp.seq
		path := c08PathBytes(bp.kind, bp.src, bp.dst, bp.seq)
		slot = c08SlotOfBytes(path)
		cAcct := st.accts[string(w.contract)]
		c.value = c08Pad32(cAcct.storage[string(slot)])
		rec = st.genuine(w.contract, slot)
		r.Count("bnd.pathlen." + c08LenBucket(len(path)))
		r.Count("bnd.seq." + w.bseq[bi])
		for _, nl := range []int{1, 63, 64} {
			if len(bp.src) == nl {
				r.Count(fmt.Sprintf("bnd.name.src%d", nl))
			}
			if len(bp.dst) == nl {
				r.Count(fmt.Sprintf("bnd.name.dst%d", nl))
			}
		}
		if len(bp.src) > 64 || len(bp.dst) > 64 {
			r.Count("bnd.name.overlong")
		}
		switch c.class {
		case "bnd-path-trunc-forgery":
			// claim: the packet's slot holds what the slot of the path CUT at 128 / 160 / 192 / 256 bytes holds, with a genuine
			// proof of that other slot (for a cut inside the sequence digits this is the real slot of another packet)
			var cuts []int
			for _, cut := range c08Cuts {
				if len(path) > cut {
					cuts = append(cuts, cut)
				}
			}
			if len(cuts) > 0 {
				cut := cuts[r.Rng.Intn(len(cuts))]
				ts := c08SlotOfBytes(path[:cut])
				rec = st.genuine(w.contract, ts)
				c.value = c08Pad32(cAcct.storage[string(ts)])
				c.breaking = true
				r.Count(fmt.Sprintf("bnd.trunc.%d", cut))
			} else {
				c.class = "bnd-path-valid"
			}
		case "bnd-seq-digits-cut":
			// claim: sequence s holds what the packet with the last digit(s) of s dropped holds, with that packet's genuine proof
			q := bp.seq / 10
			if r.Rng.Intn(3) == 0 && bp.seq >= 1000 {
				q = bp.seq / 100
			}
			if q > 0 {
				qs := c08Slot(bp.kind, bp.src, bp.dst, q)
				rec = st.genuine(w.contract, qs)
				c.value = c08Pad32(cAcct.storage[string(qs)])
				c.breaking = true
			} else {
				c.class = "bnd-path-valid"
			}
		}
	case "bnd-heights":
		// block numbers and revision numbers at the uint64 boundaries (same revision for head and stored states)
		bs := []uint64{0, 1, 1<<31 - 1, 1 << 32, 1<<53 + 1, 1<<63 - 1, 1 << 63, ^uint64(0) - c.delay() - 1, ^uint64(0) - c.delay()}
		target := bs[r.Rng.Intn(len(bs))]
		nrn := []uint64{0, 1, 1 << 32, 1 << 63, ^uint64(0)}[r.Rng.Intn(5)]
		used := map[uint64]bool{target: true}
		for i := range c.cons {
			c.cons[i].rn = nrn
			if c.cons[i].rh == c.hRh {
				c.cons[i].rh = target
				continue
			}
			nh := target + uint64(1+i) // other states a little above (wrapping keeps them distinct)
			if r.Rng.Intn(2) == 0 && target > uint64(1+i) {
				nh = target - uint64(1+i)
			}
			for used[nh] {
				nh++
			}
			used[nh] = true
			c.cons[i].rh = nh
		}
		c.hRn, c.headRn, c.hRh = nrn, nrn, target
		if target <= ^uint64(0)-c.delay() {
			c.headRh = target + c.delay()
			if r.Rng.Intn(3) == 0 && c.headRh > 0 && c.delay() > 0 {
				c.headRh-- // one confirmation short
			}
		} else {
			c.headRh = ^uint64(0)
		}
		r.Count("bnd.height")
	case "bnd-bsc-validators":
		// validator-set sizes 1..41, proof height exactly head − N/2 (one confirmation short) and head − N/2 − 1 (confirmed)
		c.client = "bsc"
		c.dp = uint64(1 + r.Rng.Intn(41))
		short := r.Rng.Intn(2) == 0
		if r.Rng.Intn(3) > 0 { // systematically: even sizes 2,4,6,8,20 × {one short, exactly confirmed}
			c.dp = []uint64{2, 4, 6, 8, 20}[c08Cycle%5]
			short = (c08Cycle/5)%2 == 0
			c08Cycle++
		}
		which := "exact"
		c.headRh = c.hRh + c.dp/2 + 1
		if short {
			which = "short"
			c.headRh = c.hRh + c.dp/2
		}
		if c.dp%2 == 0 {
			r.Count("bnd.bscval.even." + which)
			switch c.dp {
			case 2, 4, 6, 8, 20:
				r.Count(fmt.Sprintf("bnd.bscval.%d.%s", c.dp, which))
			}
		} else {
			r.Count("bnd.bscval.odd." + which)
		}
	case "bnd-eth-delay":
		c.client = "eth"
		di := c08Cycle2 % 4
		c.dp = []uint64{0, 1, 1 << 32, 1 << 63}[di]
		c.headRh = c.hRh + c.dp // hRh < 2^63 by construction
		which := "exact"
		c08Cycle2++
		if c.dp > 0 && (c08Cycle2/4)%2 == 0 {
			which = "short"
			c.headRh--
		}
		r.Count("bnd.ethdelay." + []string{"0", "1", "2p32", "2p63"}[di] + "." + which)
	case "height-above-head":
		if c.hRh > 0 {
			c.headRh = c.hRh - 1 - uint64(r.Rng.Intn(int(c08Min(c.hRh, 5))))
		} else {
			c.class = "base"
		}
	case "rev-head-lower":
		for i := range c.cons {
			c.cons[i].rn++
		}
		c.hRn++
	case "rev-head-higher":
		c.headRn++
	case "rev-head-higher-wrap":
		// head is in a later revision and has a smaller block number than the stored consensus state
		c.headRn++
		if c.hRh > 0 {
			c.headRh = uint64(r.Rng.Int63n(int64(c08Min(c.hRh, 1<<62))))
		} else {
			c.class = "rev-head-higher"
		}
	case "rev-both":
		n := uint64(1 + r.Rng.Intn(5))
		for i := range c.cons {
			c.cons[i].rn += n
		}
		c.hRn += n
		c.headRn += n
	case "big-heights":
		// block numbers at the top of the uint64 range
		top := ^uint64(0)
		span := hs[len(hs)-1] - hs[0]
		shift := top - c.delay() - span - uint64(r.Rng.Intn(3)) - hs[0]
		for i := range c.cons {
			c.cons[i].rh += shift
		}
		c.hRh += shift
		c.headRh = hs[len(hs)-1] + shift + c.delay()
		if r.Rng.Intn(3) == 0 && c.headRh < top {
			c.headRh++
		}
	case "delay-huge":
		if c.client == "eth" {
			c.dp = []uint64{^uint64(0), 1 << 63, (1 << 63) - 1, ^uint64(0) - 1}[r.Rng.Intn(4)]
			if r.Rng.Intn(2) == 0 {
				// satisfiable variant: proof height 0, head at the top of the range
				free := true
				for _, e := range c.cons {
					if e.rh == 0 && e.rh != c.hRh {
						free = false
					}
				}
				if free {
					for i := range c.cons {
						if c.cons[i].rh == c.hRh {
							c.cons[i].rh = 0
						}
					}
					c.hRh = 0
					c.headRh = ^uint64(0) - uint64(r.Rng.Intn(2))
				}
			}
		} else {
			c.class = "base"
		}
	}
	if r.Rng.Intn(6) == 0 { // noise: arbitrary inner fields on any stored state, whatever the class
		for i := range c.cons {
			if c.cons[i].bad == "" && !c.cons[i].inner && r.Rng.Intn(2) == 0 {
				c.cons[i].inner = true
				c.cons[i].irn, c.cons[i].irh, c.cons[i].its = uint64(r.Rng.Intn(2)), []uint64{0, c.headRh, c.headRh + 1, uint64(r.Rng.Int63()), ^uint64(0)}[r.Rng.Intn(5)], r.Rng.Uint64()>>uint(r.Rng.Intn(64))
			}
		}
		r.Count("inner.noise")
	}
	// raw proof
	switch c.class {
	case "json-nil":
		c.rawNil = true
		c.breaking = true
	case "json-empty":
		c.raw = []byte{}
		c.breaking = true
	case "json-broken":
		j := rec.json()
		switch r.Rng.Intn(3) {
		case 0:
			c.raw = j[:r.Rng.Intn(len(j))]
		case 1:
			c.raw = append(j, '}')
		case 2:
			c.raw = []byte("null x")
		}
		c.breaking = true
	case "json-variant":
		j := string(rec.json())
		switch r.Rng.Intn(5) {
		case 0: // field names are matched case-insensitively by encoding/json
			j = strings.Replace(j, `"address"`, `"Address"`, 1)
			j = strings.Replace(j, `"storage_proof"`, `"STORAGE_PROOF"`, 1)
		case 1: // duplicate key: the last one wins
			j = `{"address":"0x00",` + j[1:]
		case 2: // a duplicate after the real one replaces it
			j = j[:len(j)-1] + `,"address":"0x00"}`
			c.breaking = true
		case 3: // escaped characters inside strings
			j = strings.Replace(j, `"address":"0x`, `"address":"\u0030\u0078`, 1)
		case 4: // white space
			j = " \n\t" + strings.Replace(j, `,"`, ` , "`, -1) + " "
		}
		c.raw = []byte(j)
		lenient = !c.breaking
	case "json-null-fields":
		j := string(rec.json())
		switch r.Rng.Intn(3) {
		case 0:
			j = j[:strings.Index(j, `"storage_proof":`)] + `"storage_proof":null}`
		case 1:
			j = `{"account_proof":null,` + strings.Replace(j[1:], `"account_proof"`, `"x"`, 1)
		case 2:
			j = strings.Replace(j, `"storage_proof":[{`, `"storage_proof":[null,{`, 1)
		}
		c.raw = []byte(j)
		c.breaking = true
	case "json-wrong-type":
		c.raw = bytes.Replace(rec.json(), []byte(`"address":"`+rec.Address+`"`), []byte(`"address":12`), 1)
		c.breaking = true
	default:
		c.raw = rec.json()
	}
	c.reason = w.truth(c)
	switch {
	case c.reason == "non-evm-value" && !c.breaking:
		c.expect = "E"
	case c.reason != "true" || c.breaking:
		c.expect = "R"
	case lenient:
		c.expect = "E"
	default:
		c.expect = "A"
	}
	return c
}

func c08Min(a, b uint64) uint64 {
	if a < b {
		return a
	}
	return b
}

// ---------------------------------------------------------------------------------------------
// direct ties of the helper functions

func c08Direct(r *Rec) (string, string) {
	hexish := func() string {
		n := []int{0, 1, 2, 3, 20, 31, 32, 33, 40, 64, 65, 66, 70}[r.Rng.Intn(13)]
		b := make([]byte, n)
		al := "0123456789abcdefABCDEF"
		for i := range b {
			b[i] = al[r.Rng.Intn(len(al))]
		}
		if r.Rng.Intn(4) == 0 && n > 0 {
			b[r.Rng.Intn(n)] = "gx X\x00/:@`G"[r.Rng.Intn(10)]
		}
		s := string(b)
		switch r.Rng.Intn(4) {
		case 0:
			s = "0x" + s
		case 1:
			s = "0X" + s
		}
		return s
	}
	cl := []string{"eth", "bsc"}[r.Rng.Intn(2)]
	var op string
	switch r.Rng.Intn(6) {
	case 0:
		op = "fh " + hxs(hexish())
	case 1:
		op = "hh " + hxs(hexish())
	case 2:
		// RLP strings: canonical encodings, and every kind of malformed header
		var in []byte
		switch r.Rng.Intn(8) {
		case 0:
			in, _ = rlp.EncodeToBytes(c08Rand(r, r.Rng.Intn(70)))
		case 1:
			in, _ = rlp.EncodeToBytes(c08Rand(r, 1))
		case 2:
			in, _ = rlp.EncodeToBytes(c08Rand(r, 50+r.Rng.Intn(300)))
		case 3:
			in, _ = rlp.EncodeToBytes(c08Rand(r, r.Rng.Intn(70)))
			if len(in) > 0 {
				in = in[:r.Rng.Intn(len(in))]
			}
		case 4:
			in, _ = rlp.EncodeToBytes(c08Rand(r, r.Rng.Intn(70)))
			in = append(in, c08Rand(r, 1+r.Rng.Intn(3))...)
		case 5:
			in = append([]byte{byte(0xb8 + r.Rng.Intn(8))}, c08Rand(r, r.Rng.Intn(12))...)
			if r.Rng.Intn(2) == 0 && len(in) > 1 {
				in[1] = 0
			}
		case 6:
			n := r.Rng.Intn(80)
			in = append([]byte{0xb8, byte(n)}, c08Rand(r, n)...)
		case 7:
			in = c08Rand(r, r.Rng.Intn(40))
		}
		op = "rd " + hx(in)
	case 3:
		q := func() string {
			switch r.Rng.Intn(4) {
			case 0:
				return "0x0"
			case 1:
				return hexutil.EncodeUint64(r.Rng.Uint64() >> uint(r.Rng.Intn(64)))
			case 2:
				return hexutil.Encode(c08Rand(r, r.Rng.Intn(34)))
			}
			return hexish()
		}
		a, b, c, d := q(), q(), hexutil.Encode(c08Rand(r, 32)), hexutil.Encode(c08Rand(r, 32))
		if r.Rng.Intn(5) == 0 {
			c = hexish()
		}
		op = fmt.Sprintf("ra %s %s %s %s %s", cl, hxs(a), hxs(b), hxs(c), hxs(d))
	case 4:
		n := []int{0, 1, 31, 32, 55, 135, 136, 137, 200, 271, 272, 273, 500}[r.Rng.Intn(13)]
		op = "kc " + hx(c08Rand(r, n))
	default:
		src, dst := c08Chains[r.Rng.Intn(len(c08Chains))], c08Chains[r.Rng.Intn(len(c08Chains))]
		if r.Rng.Intn(4) == 0 {
			src = string(c08Rand(r, r.Rng.Intn(150)))
		}
		seq := r.Rng.Uint64() >> uint(r.Rng.Intn(64))
		if r.Rng.Intn(6) == 0 {
			seq = ^uint64(0)
		}
		kind := []string{"c", "a"}[r.Rng.Intn(2)]
		if r.Rng.Intn(2) == 0 { // boundary names / sequences / path lengths
			bp, _ := c08BoundaryPath(r)
			kind, src, dst, seq = bp.kind, bp.src, bp.dst, bp.seq
			r.Count("direct.sl.boundary." + c08LenBucket(len(c08PathBytes(kind, src, dst, seq))))
		}
		op = fmt.Sprintf("sl %s %s %s %s %d", cl, kind, hxs(src), hxs(dst), seq)
	}
	return op, c08DirectEval(r, op)
}

// the real helper behind a direct op
func c08DirectEval(r *Rec, op string) string {
	f := strings.Fields(op)
	str := func(i int) string { return string(unhx(f[i])) }
	switch f[0] {
	case "fh":
		return hx(common.FromHex(str(1)))
	case "hh":
		return hx(common.HexToHash(str(1)).Bytes())
	case "rd":
		var out []byte
		if err := rlp.DecodeBytes(unhx(f[1]), &out); err != nil {
			return "E"
		}
		return "ok " + hx(out)
	case "ra":
		a, b, c, d := str(2), str(3), str(4), str(5)
		var enc []byte
		if f[1] == "eth" {
			enc, _ = rlp.EncodeToBytes(&ethtypes.ProofAccount{Nonce: common.HexToHash(a).Big(), Balance: common.HexToHash(b).Big(), Storage: common.HexToHash(c), Codehash: common.HexToHash(d)})
		} else {
			enc, _ = rlp.EncodeToBytes(&bsctypes.ProofAccount{Nonce: common.HexToHash(a).Big(), Balance: common.HexToHash(b).Big(), Storage: common.HexToHash(c), Codehash: common.HexToHash(d)})
		}
		return hx(enc)
	case "kc":
		return hx(crypto.Keccak256(unhx(f[1])))
	case "sl":
		src, dst := str(3), str(4)
		seq, _ := strconv.ParseUint(f[5], 10, 64)
		var key []byte
		switch f[1] + f[2] {
		case "ethc":
			key = ethtypes.NewProofKeyConstructor(src, dst, seq).GetPacketCommitmentProofKey()
		case "bscc":
			key = bsctypes.NewProofKeyConstructor(src, dst, seq).GetPacketCommitmentProofKey()
		case "etha":
			key = ethtypes.NewProofKeyConstructor(src, dst, seq).GetAckProofKey()
		case "bsca":
			key = bsctypes.NewProofKeyConstructor(src, dst, seq).GetAckProofKey()
		}
		if want := c08Slot(f[2], src, dst, seq); !bytes.Equal(key, want) {
			r.Find(Finding{Sig: "C08:slot-derivation", What: "proof key differs from keccak(path ‖ uint256(208))", Ops: []string{op}, Obs: hx(key), Req: hx(want)})
		}
		return hx(key)
	}
	r.t.Fatalf("bad C08 op %.80s", op)
	return ""
}

func c08Replay(t *testing.T, r *Rec, lines []string) {
	for _, l := range lines {
		f := strings.Fields(l)
		if len(f) == 0 || f[0] == "reset" {
			if len(f) > 0 {
				r.Op("reset", "ok")
			}
			continue
		}
		if f[0] == "lc" {
			if c08TheLife == nil {
				c08TheLife = newC08Life()
			}
			if f[1] != "create" && !c08TheLife.created {
				t.Fatalf("life-cycle replay must start with `lc create`")
			}
			r.Op(c08TheLife.replay(r, nil, l))
			continue
		}
		if f[0] != "v" {
			r.Op(l, c08DirectEval(r, l))
			continue
		}
		c := c08ParseCore(t, l)
		line, out := c08Apply(t, r, c)
		r.Op(line, out)
		r.Nontrivial(hex.EncodeToString(crypto.Keccak256([]byte(line))))
	}
}

var c08TheLife *c08Life

func TestC08(t *testing.T) {
	r := NewRec(t, "C08")
	defer r.Close()
	if ops := replayOps(t); ops != nil {
		c08Replay(t, r, ops)
		return
	}
	for _, h := range corpusOps("C08") {
		c08Replay(t, r, h)
	}
	cases := 2500
	if r.Tier == "thorough" {
		cases = 12000
	}
	if n := envInt("VERIF_N", 0); n > 0 {
		cases = int(n)
	}
	var w *c08World
	for i := 0; i < cases; i++ {
		if i%40 == 0 {
			w = c08NewWorld(r)
			// one life-cycle history per world: create → real header updates / upgrade / toggle → verify at every depth
			if c08TheLife == nil {
				c08TheLife = newC08Life()
			}
			c08LifeHistory(r, c08TheLife, w, func(op, out string) {
				r.Op(op, out)
				r.Nontrivial(hex.EncodeToString(crypto.Keccak256([]byte(op))))
			})
		}
		c := c08Gen(r, w)
		line, out := c08Apply(t, r, c)
		r.Op(line, out)
		if c.class != "json-nil" && c.class != "json-empty" {
			r.Nontrivial(hex.EncodeToString(crypto.Keccak256([]byte(c.core()))))
		}
		if i%5 == 0 {
			op, o := c08Direct(r)
			r.Op(op, o)
			r.Count("direct." + strings.Fields(op)[0])
		}
	}
	ks := make([]string, 0)
	for k := range r.Stats {
		if strings.HasPrefix(k, "panic.") {
			ks = append(ks, k)
		}
	}
	sort.Strings(ks)
	r.Extra["panic_classes"] = ks
}
