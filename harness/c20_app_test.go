//go:build c20 || c15

package verifharness

// C20 — application life-cycle probe. The differential histories drive the module's BeginBlock entry point; this probe
// checks the glue around it: a fresh chain whose GENESIS already enables vesting and funds the pool is driven block by
// block through the whole application (InitChain, then BeginBlock / EndBlock / Commit from block 1 on, i.e. through the
// module manager and the begin-blocker order wired in app.go). Oracle (the property, per block, the first one included):
// the pool loses exactly min(reward, remaining) of every reward denomination, the same coins arrive on the fee-collector
// side (fee collector, or x/distribution which sweeps the fee collector later in the same BeginBlock), supply unchanged.
// Oracle only (no model line): the amounts are the ones Vesting.beginBlock computes, re-computed here with big.Int.

import (
	"encoding/json"
	"fmt"
	"time"

	abci "github.com/tendermint/tendermint/abci/types"
	"github.com/tendermint/tendermint/libs/log"
	tmproto "github.com/tendermint/tendermint/proto/tendermint/types"
	dbm "github.com/tendermint/tm-db"

	"github.com/cosmos/cosmos-sdk/crypto/keys/secp256k1"
	"github.com/cosmos/cosmos-sdk/simapp"
	sdk "github.com/cosmos/cosmos-sdk/types"
	authtypes "github.com/cosmos/cosmos-sdk/x/auth/types"
	banktypes "github.com/cosmos/cosmos-sdk/x/bank/types"
	distrtypes "github.com/cosmos/cosmos-sdk/x/distribution/types"

	"github.com/tharsis/ethermint/encoding"

	"github.com/teleport-network/teleport/app"
	rvestingtypes "github.com/teleport-network/teleport/x/rvesting/types"
)

func c20AppProbe(r *Rec) {
	const chainID = "teleport_9000-1"
	tp := app.NewTeleport(log.NewNopLogger(), dbm.NewMemDB(), nil, true, map[int64]bool{}, app.DefaultNodeHome, 5,
		encoding.MakeConfig(app.ModuleBasics), simapp.EmptyAppOptions{})
	gs := app.NewDefaultGenesisState()
	funder := sdk.AccAddress(secp256k1.GenPrivKey().PubKey().Address())
	// two probe denominations nothing else in the app mints or moves; the reward list is deliberately unsorted
	ra, rz := int64(1+r.Rng.Intn(120)), int64(1+r.Rng.Intn(9))
	pa, pz := int64(r.Rng.Intn(400)), int64(r.Rng.Intn(30))
	funderCoins := sdk.NewCoins(sdk.NewInt64Coin("aaa", 1000), sdk.NewInt64Coin("zzz", 1000))
	gs[authtypes.ModuleName] = tp.AppCodec().MustMarshalJSON(authtypes.NewGenesisState(authtypes.DefaultParams(),
		[]authtypes.GenesisAccount{authtypes.NewBaseAccount(funder, nil, 0, 0)}))
	gs[banktypes.ModuleName] = tp.AppCodec().MustMarshalJSON(banktypes.NewGenesisState(banktypes.DefaultGenesisState().Params,
		[]banktypes.Balance{{Address: funder.String(), Coins: funderCoins}}, funderCoins, []banktypes.Metadata{}))
	reward := sdk.Coins{sdk.NewInt64Coin("zzz", rz), sdk.NewInt64Coin("aaa", ra)}
	initReward := sdk.NewCoins(sdk.NewInt64Coin("aaa", pa), sdk.NewInt64Coin("zzz", pz))
	hist := []string{fmt.Sprintf("appprobe reward=%s pool=%s", reward, initReward)}
	rv := &rvestingtypes.GenesisState{Params: rvestingtypes.Params{EnableVesting: true, PerBlockReward: reward}, From: funder.String(), InitReward: initReward}
	if err := rvestingtypes.ValidateGenesis(rv); err != nil {
		r.t.Fatalf("c20 app probe: genesis invalid: %v", err)
	}
	gs[rvestingtypes.ModuleName] = tp.AppCodec().MustMarshalJSON(rv)
	bz, _ := json.Marshal(gs)
	tp.InitChain(abci.RequestInitChain{ChainId: chainID, Validators: []abci.ValidatorUpdate{}, ConsensusParams: app.DefaultConsensusParams, AppStateBytes: bz})
	pool := authtypes.NewModuleAddress(rvestingtypes.ModuleName)
	fee := authtypes.NewModuleAddress(authtypes.FeeCollectorName)
	distr := authtypes.NewModuleAddress(distrtypes.ModuleName)
	type snapT struct{ pool, feeSide, supply sdk.Coins }
	snap := func(h int64, committed bool) snapT {
		ctx := tp.BaseApp.NewContext(committed, tmproto.Header{ChainID: chainID, Height: h})
		sup, _, _ := tp.BankKeeper.GetPaginatedTotalSupply(ctx, nil)
		only := func(c sdk.Coins) sdk.Coins {
			return sdk.NewCoins(sdk.NewCoin("aaa", c.AmountOf("aaa")), sdk.NewCoin("zzz", c.AmountOf("zzz")))
		}
		return snapT{only(tp.BankKeeper.GetAllBalances(ctx, pool)),
			only(tp.BankKeeper.GetAllBalances(ctx, fee).Add(tp.BankKeeper.GetAllBalances(ctx, distr)...)), only(sup)}
	}
	t0 := time.Date(2022, 1, 1, 0, 0, 0, 0, time.UTC)
	proposer := secp256k1.GenPrivKey().PubKey().Address().Bytes()
	for h := int64(1); h <= 4; h++ {
		before := snap(h, h > 1)
		want := sdk.NewCoins()
		for _, c := range reward {
			want = want.Add(sdk.NewCoin(c.Denom, sdk.MinInt(c.Amount, before.pool.AmountOf(c.Denom))))
		}
		pan, msg := safely(func() {
			tp.BeginBlock(abci.RequestBeginBlock{Header: tmproto.Header{ChainID: chainID, Height: h, Time: t0.Add(time.Duration(h) * 5 * time.Second), ProposerAddress: proposer}})
		})
		hist = append(hist, fmt.Sprintf("appblock %d", h))
		which := "later"
		if h == 1 {
			which = "first"
		}
		r.Count("appblock." + which)
		if pan {
			r.Find(Finding{Sig: "C20:app-beginblock-panic:" + which, What: "app.BeginBlock panics on a chain whose genesis enables vesting: " + msg,
				Ops: append([]string{}, hist...), Obs: "panic: " + msg, Req: "moves min(reward, remaining)"})
			return
		}
		after := snap(h, false)
		moved, neg1 := before.pool.SafeSub(after.pool)
		got, neg2 := after.feeSide.SafeSub(before.feeSide)
		if neg1 || neg2 || !moved.IsEqual(want) || !got.IsEqual(want) || !after.supply.IsEqual(before.supply) {
			r.Find(Finding{Sig: "C20:app-block-wrong-amount:" + which, What: fmt.Sprintf("height %d through app.BeginBlock: pool lost %s, fee-collector side gained %s, required %s (pool before %s), supply %s -> %s", h, moved, got, want, before.pool, before.supply, after.supply),
				Ops: append([]string{}, hist...), Obs: fmt.Sprintf("moved %s / %s", moved, got), Req: "min(reward, remaining) = " + want.String()})
		}
		if !moved.IsZero() {
			r.Count("appblock.moved")
		}
		tp.EndBlock(abci.RequestEndBlock{Height: h})
		tp.Commit()
	}
}
