//go:build c15

package verifharness

// C15 — app life-cycle probe.  A fresh app (NewTeleport) is started from a genesis that passes ModuleBasics.ValidateGenesis and
// whose auth.accounts contain ONE account of every registered kind (BaseAccount, EthAccount, ModuleAccount, Continuous / Delayed /
// Periodic / PermanentLocked vesting account) placed at an address the app ITSELF writes at start-up or in an upgrade handler:
// the five system-contract addresses (SetEVMCode in InitChainer and in the v0.2 upgrade handler), every module-account address of
// maccPerms, the rvesting pool.  Phases, all outside transaction recovery:  InitChain;  then the scheduled "v0.2" upgrade executed by
// the upgrade BeginBlocker;  then the whole app.BeginBlocker / app.EndBlocker of the next block.
// ORACLE: a genesis accepted by ValidateGenesis must not panic in any phase ->  C15:lifecycle-panic:<phase>:<kind>@<address name>.
// Exception recorded, not reported: an account that is not a module account AT a module-account address makes cosmos-sdk's own
// auth keeper panic ("account is not a module account") — cosmos-sdk behaviour on any chain, independent of teleport code
// (counted as lifecycle.sdk-not-a-module-account).
// Every probe is one op line `lc <kind> <addrclass> <addrname>` with observation `v=<ok|err|panic> init=<…> upgrade=<…> block=<…>`;
// the model side (Driver/C15.lean, TM.NoPanic.lifecycle) predicts it from the kind/class table.

import (
	"encoding/json"
	"fmt"
	"strings"
	"testing"
	"time"

	"github.com/cosmos/cosmos-sdk/simapp"
	sdk "github.com/cosmos/cosmos-sdk/types"
	authtypes "github.com/cosmos/cosmos-sdk/x/auth/types"
	banktypes "github.com/cosmos/cosmos-sdk/x/bank/types"
	vestingtypes "github.com/cosmos/cosmos-sdk/x/auth/vesting/types"
	upgradetypes "github.com/cosmos/cosmos-sdk/x/upgrade/types"
	"github.com/ethereum/go-ethereum/common"
	"github.com/ethereum/go-ethereum/crypto"
	abci "github.com/tendermint/tendermint/abci/types"
	"github.com/tendermint/tendermint/libs/log"
	tmproto "github.com/tendermint/tendermint/proto/tendermint/types"
	dbm "github.com/tendermint/tm-db"
	"github.com/tharsis/ethermint/encoding"
	ethermint "github.com/tharsis/ethermint/types"

	"github.com/teleport-network/teleport/app"
	"github.com/teleport-network/teleport/syscontracts"
	rvestingtypes "github.com/teleport-network/teleport/x/rvesting/types"
)

var c15lKinds = []string{"BaseAccount", "EthAccount", "ModuleAccount", "ContinuousVestingAccount", "DelayedVestingAccount", "PeriodicVestingAccount", "PermanentLockedAccount"}

type c15lAddr struct {
	class, name string
	addr        sdk.AccAddress
	module      string // module name for module-account addresses
}

func c15lAddrs() []c15lAddr {
	var out []c15lAddr
	for _, s := range [][2]string{{"wtele", syscontracts.WTELEContractAddress}, {"agent", syscontracts.AgentContractAddress}, {"packet", syscontracts.PacketContractAddress},
		{"endpoint", syscontracts.EndpointContractAddress}, {"execute", syscontracts.ExecuteContractAddress}} {
		out = append(out, c15lAddr{class: "syscontract", name: s[0], addr: sdk.AccAddress(common.HexToAddress(s[1]).Bytes())})
	}
	for _, m := range []string{"fee_collector", "distribution", "bonded_tokens_pool", "not_bonded_tokens_pool", "gov", "transfer", "evm", "packet", "aggregate", "interchainaccounts"} {
		out = append(out, c15lAddr{class: "module", name: m, addr: authtypes.NewModuleAddress(m), module: m})
	}
	out = append(out, c15lAddr{class: "rvesting-pool", name: "rvesting", addr: authtypes.NewModuleAddress("rvesting"), module: "rvesting"})
	// control: an address nothing in the app writes to — every kind must go through all phases
	out = append(out, c15lAddr{class: "control", name: "plain", addr: sdk.AccAddress(common.HexToAddress("0x00000000000000000000000000000000000000aa").Bytes())})
	return out
}

func c15lAccount(kind string, a c15lAddr) authtypes.GenesisAccount {
	base := authtypes.NewBaseAccountWithAddress(a.addr)
	orig := sdk.NewCoins(sdk.NewInt64Coin("stake", 100))
	switch kind {
	case "BaseAccount":
		return base
	case "EthAccount":
		return &ethermint.EthAccount{BaseAccount: base, CodeHash: common.BytesToHash(crypto.Keccak256(nil)).Hex()}
	case "ModuleAccount":
		name := a.module
		if name == "" {
			name = "c15-" + a.name // cannot be valid: the address of a module account is derived from its name
		}
		return authtypes.NewModuleAccount(base, name)
	case "ContinuousVestingAccount":
		return vestingtypes.NewContinuousVestingAccount(base, orig, 1700000000, 1800000000)
	case "DelayedVestingAccount":
		return vestingtypes.NewDelayedVestingAccount(base, orig, 1800000000)
	case "PeriodicVestingAccount":
		return vestingtypes.NewPeriodicVestingAccount(base, orig, 1700000000, vestingtypes.Periods{{Length: 1000, Amount: orig}})
	case "PermanentLockedAccount":
		return vestingtypes.NewPermanentLockedAccount(base, orig)
	}
	return nil
}

func c15lPhase(pan bool, msg string) string {
	if pan {
		return "panic"
	}
	return "ok"
}

// one probe; returns observation and, per phase, the panic message
func c15lProbe(kind string, a c15lAddr) (obs string, msgs map[string]string) {
	msgs = map[string]string{}
	enc := encoding.MakeConfig(app.ModuleBasics)
	db := dbm.NewMemDB()
	ap := app.NewTeleport(log.NewNopLogger(), db, nil, true, map[int64]bool{}, app.DefaultNodeHome, 5, enc, simapp.EmptyAppOptions{})
	gs := app.NewDefaultGenesisState()
	var ag authtypes.GenesisState
	enc.Marshaler.MustUnmarshalJSON(gs[authtypes.ModuleName], &ag)
	accs, err := authtypes.PackAccounts(authtypes.GenesisAccounts{c15lAccount(kind, a)})
	if err != nil {
		return "v=err init=- upgrade=- block=-", msgs
	}
	ag.Accounts = accs
	gs[authtypes.ModuleName] = enc.Marshaler.MustMarshalJSON(&ag)
	var verr error
	if vp, vm := safely(func() { verr = app.ModuleBasics.ValidateGenesis(enc.Marshaler, enc.TxConfig, gs) }); vp {
		msgs["validate"] = vm
		return "v=panic init=- upgrade=- block=-", msgs
	}
	if verr != nil {
		return "v=err init=- upgrade=- block=-", msgs
	}
	state, _ := json.Marshal(gs)
	ip, im := safely(func() {
		ap.InitChain(abci.RequestInitChain{ChainId: "teleport_9000-1", Validators: []abci.ValidatorUpdate{}, ConsensusParams: app.DefaultConsensusParams, AppStateBytes: state})
	})
	if ip {
		msgs["initchain"] = im
		return "v=ok init=panic upgrade=- block=-", msgs
	}
	hdr := tmproto.Header{Height: 1, ChainID: "teleport_9000-1", Time: time.Unix(1700000000, 0).UTC()}
	ctx := ap.BaseApp.NewContext(false, hdr)
	up, um := safely(func() {
		if err := ap.UpgradeKeeper.ScheduleUpgrade(ctx, upgradetypes.Plan{Name: "v0.2", Height: 2}); err != nil {
			panic("schedule: " + err.Error())
		}
		hdr.Height = 2
		ctx = ap.BaseApp.NewContext(false, hdr)
		ap.BeginBlocker(ctx, abci.RequestBeginBlock{Header: hdr}) // upgrade module first: runs the v0.2 handler, then every other BeginBlocker
	})
	if up {
		msgs["upgrade"] = um
		return "v=ok init=ok upgrade=panic block=-", msgs
	}
	bp, bm := safely(func() {
		ap.EndBlocker(ctx, abci.RequestEndBlock{Height: 2})
		hdr.Height = 3
		ctx3 := ap.BaseApp.NewContext(false, hdr).WithBlockGasMeter(c15FilledMeter(c15BlockGasLimit - 1)) // a finite, almost full block gas meter
		ap.BeginBlocker(ctx3, abci.RequestBeginBlock{Header: hdr})
		ap.EndBlocker(ctx3, abci.RequestEndBlock{Height: 3})
	})
	if bp {
		msgs["block"] = bm
	}
	return "v=ok init=ok upgrade=ok block=" + c15lPhase(bp, bm), msgs
}

// ---- rvesting genesis SECTION shapes: lc rv <from> <init_reward shape> <per_block_reward shape> <enable> ----------------------------
var c15lRvShapes = []string{"empty", "sorted", "unsorted", "dup", "zero", "baddenom"}
var c15lRvFroms = []string{"none", "funded", "unfunded", "bad"}

func c15lRvCoins(shape string) sdk.Coins {
	c := func(d string, a int64) sdk.Coin { return sdk.Coin{Denom: d, Amount: sdk.NewInt(a)} }
	switch shape {
	case "sorted":
		return sdk.Coins{c("acoin", 5), c("stake", 7)}
	case "unsorted":
		return sdk.Coins{c("stake", 7), c("acoin", 5)}
	case "dup":
		return sdk.Coins{c("atele", 5), c("uxyz", 7), c("atele", 3)}
	case "zero":
		return sdk.Coins{c("acoin", 0)}
	case "baddenom":
		return sdk.Coins{c("a", 5)}
	}
	return sdk.Coins{}
}

func c15lRvProbe(from, ir, pbr string, enable bool) (obs string, msgs map[string]string) {
	msgs = map[string]string{}
	enc := encoding.MakeConfig(app.ModuleBasics)
	ap := app.NewTeleport(log.NewNopLogger(), dbm.NewMemDB(), nil, true, map[int64]bool{}, app.DefaultNodeHome, 5, enc, simapp.EmptyAppOptions{})
	gs := app.NewDefaultGenesisState()
	funded := sdk.AccAddress(common.HexToAddress("0x00000000000000000000000000000000000000b1").Bytes())
	unfunded := sdk.AccAddress(common.HexToAddress("0x00000000000000000000000000000000000000b2").Bytes())
	var bg banktypes.GenesisState
	enc.Marshaler.MustUnmarshalJSON(gs[banktypes.ModuleName], &bg)
	bg.Balances = append(bg.Balances, banktypes.Balance{Address: funded.String(),
		Coins: sdk.NewCoins(sdk.NewInt64Coin("acoin", 1000), sdk.NewInt64Coin("atele", 1000), sdk.NewInt64Coin("stake", 1000), sdk.NewInt64Coin("uxyz", 1000))})
	gs[banktypes.ModuleName] = enc.Marshaler.MustMarshalJSON(&bg)
	rg := rvestingtypes.GenesisState{Params: rvestingtypes.Params{EnableVesting: enable, PerBlockReward: c15lRvCoins(pbr)}, InitReward: c15lRvCoins(ir)}
	switch from {
	case "funded":
		rg.From = funded.String()
	case "unfunded":
		rg.From = unfunded.String()
	case "bad":
		rg.From = "not-bech32"
	}
	var bz []byte
	if p, _ := safely(func() { bz = enc.Marshaler.MustMarshalJSON(&rg) }); p {
		return "v=err init=- block=-", msgs
	}
	gs[rvestingtypes.ModuleName] = bz
	var verr error
	if vp, vm := safely(func() { verr = app.ModuleBasics.ValidateGenesis(enc.Marshaler, enc.TxConfig, gs) }); vp {
		msgs["validate"] = vm
		return "v=panic init=- block=-", msgs
	}
	if verr != nil {
		return "v=err init=- block=-", msgs
	}
	state, _ := json.Marshal(gs)
	if ip, im := safely(func() {
		ap.InitChain(abci.RequestInitChain{ChainId: "teleport_9000-1", Validators: []abci.ValidatorUpdate{}, ConsensusParams: app.DefaultConsensusParams, AppStateBytes: state})
	}); ip {
		msgs["initchain"] = im
		return "v=ok init=panic block=-", msgs
	}
	bp, bm := safely(func() {
		for h := int64(1); h <= 2; h++ {
			hdr := tmproto.Header{Height: h, ChainID: "teleport_9000-1", Time: time.Unix(1700000000+h, 0).UTC()}
			ctx := ap.BaseApp.NewContext(false, hdr).WithBlockGasMeter(c15FilledMeter(c15BlockGasLimit / 2))
			ap.BeginBlocker(ctx, abci.RequestBeginBlock{Header: hdr})
			ap.EndBlocker(ctx, abci.RequestEndBlock{Height: h})
		}
	})
	if bp {
		msgs["block"] = bm
	}
	return "v=ok init=ok block=" + c15lPhase(bp, bm), msgs
}

func c15lApplyRv(r *Rec, op string, f []string) {
	if len(f) != 6 {
		return
	}
	obs, msgs := c15lRvProbe(f[2], f[3], f[4], f[5] == "1")
	r.Op(op, obs)
	r.Nontrivial(op)
	r.Count("lifecycle.rv.from." + f[2])
	r.Count("lifecycle.rv.ir." + f[3])
	r.Count("lifecycle.rv.pbr." + f[4])
	r.Count("lifecycle.rv." + strings.Fields(obs)[0])
	for phase, m := range msgs {
		if phase == "validate" {
			continue
		}
		if phase == "initchain" && f[2] == "unfunded" && strings.Contains(m, "insufficient funds") {
			// what the unchanged code does: InitGenesis panic(err)s when `from` cannot pay init_reward — a fact of the bank genesis that the
			// module's stateless validation cannot see (docs/C15.md); modelled (rvInitDoc … canPay = false), counted, not reported
			r.Count("lifecycle.rvesting-unfunded-from")
			continue
		}
		shape := fmt.Sprintf("from=%s,init_reward=%s,per_block_reward=%s,enable=%s", f[2], f[3], f[4], f[5])
		r.Find(Finding{Sig: fmt.Sprintf("C15:lifecycle-panic:%s:rvesting-genesis:%s", phase, shape),
			What: "a genesis accepted by ModuleBasics.ValidateGenesis with the rvesting section " + shape + " panics in phase " + phase + ": " + m,
			Ops:  []string{op}, Obs: obs + " (" + m + ")", Req: "InitChain / BeginBlock / EndBlock of a validated genesis never panic"})
	}
}

func c15lApply(r *Rec, op string) {
	f := strings.Fields(op)
	if len(f) > 1 && f[1] == "rv" {
		c15lApplyRv(r, op, f)
		return
	}
	if len(f) != 4 {
		return
	}
	kind := f[1]
	var a *c15lAddr
	for _, x := range c15lAddrs() {
		x := x
		if x.class == f[2] && x.name == f[3] {
			a = &x
		}
	}
	if a == nil {
		return
	}
	obs, msgs := c15lProbe(kind, *a)
	r.Op(op, obs)
	r.Nontrivial(op)
	r.Count("lifecycle." + kind + "@" + a.class)
	r.Count("lifecycle." + strings.Fields(obs)[0])
	for phase, m := range msgs {
		if phase == "validate" {
			continue // a panicking validator does not accept
		}
		if strings.Contains(m, "is not a module account") {
			r.Count("lifecycle.sdk-not-a-module-account")
			continue
		}
		r.Find(Finding{Sig: fmt.Sprintf("C15:lifecycle-panic:%s:%s@%s", phase, kind, a.name),
			What: fmt.Sprintf("a genesis accepted by ModuleBasics.ValidateGenesis with a %s at the %s address %s panics in phase %s (outside transaction recovery): %s", kind, a.class, a.name, phase, m),
			Ops:  []string{op}, Obs: obs + " (" + m + ")", Req: "InitChain / BeginBlock / EndBlock of a validated genesis never panic"})
	}
}

func c15lRunRv(r *Rec) {
	for _, from := range c15lRvFroms {
		for _, ir := range c15lRvShapes {
			for _, pbr := range c15lRvShapes {
				for _, en := range []string{"0", "1"} {
					c15lApply(r, fmt.Sprintf("lc rv %s %s %s %s", from, ir, pbr, en))
				}
			}
		}
	}
}

func c15lRun(t *testing.T, r *Rec) {
	c15lRunRv(r)
	for _, a := range c15lAddrs() {
		for _, kind := range c15lKinds {
			c15lApply(r, fmt.Sprintf("lc %s %s %s", kind, a.class, a.name))
		}
	}
}
