//go:build c20 || c15

package verifharness

// C20 — reward vesting. Drives the real x/rvesting BeginBlocker inside a real app with parameters
// installed through the real parameter-change path (Subspace.Update → validatePerBlockReward).
//
// op language (denoms in hex):
//   reset                              -> ok
//   reward <k> <denom amt>*k           -> ok | err       (parameter change of PerBlockReward; amt may be negative)
//   enable <0|1>                       -> ok
//   fund <denom> <amt>                 -> ok              (mint into the vesting pool)
//   block                              -> ok P:<d=a,...> F:<d=a,...> | panic     (balances of every denom seen so far)

import (
	"fmt"
	"math/big"
	"sort"
	"strings"
	"testing"

	sdk "github.com/cosmos/cosmos-sdk/types"
	authtypes "github.com/cosmos/cosmos-sdk/x/auth/types"
	banktypes "github.com/cosmos/cosmos-sdk/x/bank/types"
	tmproto "github.com/tendermint/tendermint/proto/tendermint/types"

	abci "github.com/tendermint/tendermint/abci/types"

	"github.com/teleport-network/teleport/app"
	rvesting "github.com/teleport-network/teleport/x/rvesting/module"
	rvestingtypes "github.com/teleport-network/teleport/x/rvesting/types"
)

type c20World struct {
	app    *app.Teleport
	base   sdk.Context
	ctx    sdk.Context
	seen   []string // denoms in order of first appearance
	seenM  map[string]bool
	pool   sdk.AccAddress
	fee    sdk.AccAddress
	hist   []string
	reward [][2]string // last accepted reward list (denom, amount) for the oracle
	enable bool
	height int64 // height of the last block of the current history (0 = none yet)
}

func newC20World() *c20World {
	a := app.Setup(false, nil)
	ctx := a.BaseApp.NewContext(false, tmproto.Header{Height: 1, ChainID: "teleport_9000-1"})
	w := &c20World{app: a, base: ctx}
	w.pool = authtypes.NewModuleAddress(rvestingtypes.ModuleName)
	w.fee = authtypes.NewModuleAddress(authtypes.FeeCollectorName)
	w.reset()
	return w
}

func (w *c20World) reset() {
	w.ctx, _ = w.base.CacheContext()
	w.seen = nil
	w.seenM = map[string]bool{}
	w.hist = nil
	w.enable = false
	w.height = 0
	// mirror of DefaultParams for the oracle
	w.reward = [][2]string{{"atele", "100000000000000000"}}
	w.see("atele")
}

func (w *c20World) see(d string) {
	if !w.seenM[d] {
		w.seenM[d] = true
		w.seen = append(w.seen, d)
	}
}

func (w *c20World) dump(addr sdk.AccAddress) string {
	parts := make([]string, 0, len(w.seen))
	for _, d := range w.seen {
		amt := "0"
		if sdk.ValidateDenom(d) == nil {
			amt = w.app.BankKeeper.GetBalance(w.ctx, addr, d).Amount.String()
		}
		parts = append(parts, hxs(d)+"="+amt)
	}
	if len(parts) == 0 {
		return "-"
	}
	return strings.Join(parts, ",")
}

// everything that is not pool / fee collector, plus total supply: must never change in `block`.
func (w *c20World) rest(ctx sdk.Context) string {
	var parts []string
	w.app.BankKeeper.IterateAllBalances(ctx, func(a sdk.AccAddress, c sdk.Coin) bool {
		if a.Equals(w.pool) || a.Equals(w.fee) {
			return false
		}
		parts = append(parts, a.String()+":"+c.String())
		return false
	})
	sort.Strings(parts)
	sup, _, _ := w.app.BankKeeper.GetPaginatedTotalSupply(ctx, nil)
	return strings.Join(parts, ";") + "|" + sup.String()
}

func (w *c20World) apply(r *Rec, op string) string {
	f := strings.Fields(op)
	w.hist = append(w.hist, op)
	switch f[0] {
	case "reset":
		w.reset()
		w.hist = []string{op}
		return "ok"
	case "enable":
		ss, _ := w.app.ParamsKeeper.GetSubspace(rvestingtypes.ModuleName)
		v := "false"
		if f[1] == "1" {
			v = "true"
		}
		if err := ss.Update(w.ctx, rvestingtypes.KeyEnableVesting, []byte(v)); err != nil {
			return "err"
		}
		w.enable = f[1] == "1"
		return "ok"
	case "reward":
		var k int
		fmt.Sscan(f[1], &k)
		var js []string
		var rw [][2]string
		for i := 0; i < k; i++ {
			d := string(unhx(f[2+2*i]))
			w.see(d)
			if f[3+2*i] == "nil" {
				js = append(js, fmt.Sprintf(`{"denom":%q}`, d))
			} else {
				js = append(js, fmt.Sprintf(`{"denom":%q,"amount":%q}`, d, f[3+2*i]))
			}
			rw = append(rw, [2]string{d, f[3+2*i]})
		}
		ss, _ := w.app.ParamsKeeper.GetSubspace(rvestingtypes.ModuleName)
		var err error
		pan, _ := safely(func() { err = ss.Update(w.ctx, rvestingtypes.KeyPerBlockReward, []byte("["+strings.Join(js, ",")+"]")) })
		if pan {
			r.Find(Finding{Sig: "C20:param-validation-panic", What: "parameter validation panics (runs inside gov EndBlocker, outside recovery)",
				Ops: append([]string{}, w.hist...), Obs: "panic", Req: "ordinary error"})
		}
		if pan || err != nil {
			r.Count("reward.rejected")
			return "err"
		}
		r.Count("reward.accepted")
		w.reward = rw
		return "ok"
	case "fund", "fundraw":
		d := string(unhx(f[1]))
		w.see(d)
		amt, _ := sdk.NewIntFromString(f[2])
		c := sdk.NewCoins(sdk.NewCoin(d, amt))
		if err := w.app.BankKeeper.MintCoins(w.ctx, "aggregate", c); err != nil {
			return "err"
		}
		if acc := w.app.AccountKeeper.GetAccount(w.ctx, w.pool); acc != nil {
			if _, isModule := acc.(authtypes.ModuleAccountI); !isModule {
				// a plain account sits at the pool address (op poolacct): fund it the way a user transfer would, the
				// module-to-module helper of the HARNESS would refuse to treat it as a module account
				if err := w.app.BankKeeper.SendCoins(w.ctx, authtypes.NewModuleAddress("aggregate"), w.pool, c); err != nil {
					return "err"
				}
				if f[0] == "fundraw" {
					w.app.AccountKeeper.RemoveAccount(w.ctx, acc)
					r.Count("fund.no-account")
				}
				return "ok"
			}
		}
		if err := w.app.BankKeeper.SendCoinsFromModuleToModule(w.ctx, "aggregate", rvestingtypes.ModuleName, c); err != nil {
			return "err"
		}
		if f[0] == "fundraw" {
			// the state a bank-genesis balance without an auth-genesis account produces: the pool address holds coins
			// but no account object exists for it (balances and accounts are independent stores)
			if acc := w.app.AccountKeeper.GetAccount(w.ctx, w.pool); acc != nil {
				w.app.AccountKeeper.RemoveAccount(w.ctx, acc)
			}
			r.Count("fund.no-account")
		}
		return "ok"
	case "poolacct":
		// a PLAIN (non-module) account object at the pool address: what `add-genesis-account <pool address>` or a fee grant
		// to the pool address leaves behind. Balances are untouched; the schedule must not care (it derives the address only).
		if acc := w.app.AccountKeeper.GetAccount(w.ctx, w.pool); acc != nil {
			w.app.AccountKeeper.RemoveAccount(w.ctx, acc)
		}
		w.app.AccountKeeper.SetAccount(w.ctx, w.app.AccountKeeper.NewAccountWithAddress(w.ctx, w.pool))
		r.Count("pool.plain-account")
		return "ok"
	case "sendenabled":
		// x/bank send restrictions (user MsgSend / MsgMultiSend): a bank parameter, no business of the module-to-module
		// reward release — the schedule must not depend on it
		d := string(unhx(f[1]))
		bp := w.app.BankKeeper.GetParams(w.ctx)
		on := f[2] == "1"
		if d == "*" {
			bp.DefaultSendEnabled = on
		} else {
			var out []*banktypes.SendEnabled
			for _, se := range bp.SendEnabled {
				if se.Denom != d {
					out = append(out, se)
				}
			}
			bp.SendEnabled = append(out, &banktypes.SendEnabled{Denom: d, Enabled: on})
		}
		w.app.BankKeeper.SetParams(w.ctx, bp)
		if !on {
			r.Count("bank.send-disabled")
		}
		return "ok"
	case "restart":
		// module-level restart: export -> JSON (app codec) -> the module's own validation -> defaults -> import.
		// The pool is bank state and stays. Nothing the property talks about may change.
		poolBefore, feeBefore2 := w.dump(w.pool), w.dump(w.fee)
		pBefore := w.app.RVestingKeeper.GetParams(w.ctx)
		var finding string
		pan, msg := safely(func() {
			gs := w.app.RVestingKeeper.ExportGenesis(w.ctx)
			bz := w.app.AppCodec().MustMarshalJSON(gs)
			var back rvestingtypes.GenesisState
			w.app.AppCodec().MustUnmarshalJSON(bz, &back)
			if err := rvestingtypes.ValidateGenesis(&back); err != nil {
				finding = "the exported genesis fails the module's own validation: " + err.Error()
				return
			}
			w.app.RVestingKeeper.SetParams(w.ctx, rvestingtypes.DefaultParams())
			w.app.RVestingKeeper.InitGenesis(w.ctx, &back)
		})
		if pan {
			finding = "export / import panics: " + msg
		}
		pAfter := w.app.RVestingKeeper.GetParams(w.ctx)
		if finding == "" && (pAfter.EnableVesting != pBefore.EnableVesting || fmt.Sprint(pAfter.PerBlockReward) != fmt.Sprint(pBefore.PerBlockReward) ||
			len(pAfter.PerBlockReward) != len(pBefore.PerBlockReward) || w.dump(w.pool) != poolBefore || w.dump(w.fee) != feeBefore2) {
			finding = fmt.Sprintf("parameters or balances changed: %v/%v -> %v/%v", pBefore.EnableVesting, pBefore.PerBlockReward, pAfter.EnableVesting, pAfter.PerBlockReward)
		}
		r.Count("restart")
		if finding != "" {
			r.Find(Finding{Sig: "C20:restart-changed-state", What: "export / import of the rvesting module in the middle of a history: " + finding,
				Ops: append([]string{}, w.hist...), Obs: finding, Req: "restart is the identity on parameters, pool and fee collector"})
			return "changed"
		}
		return "ok"
	case "blockdry":
		// a discarded execution (simulation / failed tx style): BeginBlock on a cache context that is dropped
		cctx, _ := w.ctx.CacheContext()
		cctx = cctx.WithBlockHeight(w.height + 1)
		poolBefore, feeBefore2 := w.dump(w.pool), w.dump(w.fee)
		safely(func() { rvesting.NewAppModule(w.app.RVestingKeeper).BeginBlock(cctx, abci.RequestBeginBlock{Header: cctx.BlockHeader()}) })
		r.Count("blockdry")
		if w.dump(w.pool) != poolBefore || w.dump(w.fee) != feeBefore2 {
			r.Find(Finding{Sig: "C20:discarded-block-changed-state", What: "a BeginBlock run on a dropped cache context changed balances",
				Ops: append([]string{}, w.hist...), Obs: w.dump(w.pool) + " / " + w.dump(w.fee), Req: poolBefore + " / " + feeBefore2})
			return "changed"
		}
		return "ok"
	case "block":
		before := map[string]*big.Int{}
		for _, d := range w.seen {
			if sdk.ValidateDenom(d) == nil {
				before[d] = w.app.BankKeeper.GetBalance(w.ctx, w.pool, d).Amount.BigInt()
			} else {
				before[d] = big.NewInt(0)
			}
		}
		feeBefore := map[string]*big.Int{}
		for _, d := range w.seen {
			if sdk.ValidateDenom(d) == nil {
				feeBefore[d] = w.app.BankKeeper.GetBalance(w.ctx, w.fee, d).Amount.BigInt()
			} else {
				feeBefore[d] = big.NewInt(0)
			}
		}
		restBefore := w.rest(w.ctx)
		cctx, write := w.ctx.CacheContext()
		// the module's own BeginBlock entry point (what the module manager calls), at the history's block heights 1, 2, 3, …:
		// the property holds for EVERY block, the first one of a chain included
		w.height++
		cctx = cctx.WithBlockHeight(w.height)
		r.Count(fmt.Sprintf("block.height.%s", map[bool]string{true: "first", false: "later"}[w.height == 1]))
		pan, msg := safely(func() {
			rvesting.NewAppModule(w.app.RVestingKeeper).BeginBlock(cctx, abci.RequestBeginBlock{Header: cctx.BlockHeader()})
		})
		if pan {
			r.Count("block.panic")
			r.Find(Finding{Sig: "C20:beginblock-panic:" + dupSig(w.reward), What: "BeginBlocker panics with validated parameters: " + msg,
				Ops: append([]string{}, w.hist...), Obs: "panic: " + msg, Req: "moves min(reward, remaining) of every denomination"})
			return "panic"
		}
		write()
		// ---- property oracle on the implementation --------------------------------------
		moved := false
		for _, d := range w.seen {
			want := new(big.Int)
			if w.enable {
				sum := new(big.Int)
				for _, rw := range w.reward {
					if rw[0] == d {
						a, _ := new(big.Int).SetString(rw[1], 10)
						sum.Add(sum, a)
					}
				}
				want.Set(sum)
				if before[d].Cmp(want) < 0 {
					want.Set(before[d])
				}
			}
			var nowP, nowF *big.Int
			if sdk.ValidateDenom(d) == nil {
				nowP = w.app.BankKeeper.GetBalance(w.ctx, w.pool, d).Amount.BigInt()
				nowF = w.app.BankKeeper.GetBalance(w.ctx, w.fee, d).Amount.BigInt()
			} else {
				nowP, nowF = big.NewInt(0), big.NewInt(0)
			}
			gotP := new(big.Int).Sub(before[d], nowP)
			gotF := new(big.Int).Sub(nowF, feeBefore[d])
			if gotP.Sign() != 0 {
				moved = true
			}
			if gotP.Cmp(want) != 0 || gotF.Cmp(want) != 0 || nowP.Sign() < 0 {
				r.Find(Finding{Sig: "C20:wrong-amount:" + dupSig(w.reward), What: fmt.Sprintf("denom %q: pool lost %s, fee collector gained %s, required %s", d, gotP, gotF, want),
					Ops: append([]string{}, w.hist...), Obs: fmt.Sprintf("moved %s/%s", gotP, gotF), Req: "min(reward, remaining) = " + want.String()})
			}
		}
		if rb := w.rest(w.ctx); rb != restBefore {
			r.Find(Finding{Sig: "C20:other-balances-or-supply-changed", What: "an account other than pool / fee collector, or total supply, changed during BeginBlocker",
				Ops: append([]string{}, w.hist...), Obs: rb, Req: restBefore})
		}
		if moved {
			r.Count("block.moved")
		} else {
			r.Count("block.idle")
		}
		return "ok P:" + w.dump(w.pool) + " F:" + w.dump(w.fee)
	}
	r.t.Fatalf("bad op %q", op)
	return ""
}

func dupSig(rw [][2]string) string {
	seen := map[string]bool{}
	for _, x := range rw {
		if seen[x[0]] {
			return "duplicate-denom"
		}
		seen[x[0]] = true
	}
	return "no-duplicate"
}

func TestC20(t *testing.T) {
	r := NewRec(t, "C20")
	defer r.Close()
	w := newC20World()
	run := func(h []string) {
		for _, op := range h {
			out := w.apply(r, op)
			r.Op(op, out)
			if strings.HasPrefix(op, "block") {
				r.Nontrivial(strings.Join(w.hist, ";"))
			}
		}
	}
	if ops := replayOps(t); ops != nil {
		run(ops)
		return
	}
	for _, h := range corpusOps("C20") {
		run(append([]string{"reset"}, h...))
	}
	probes := 6
	if r.Tier == "thorough" {
		probes = 40
	}
	for i := 0; i < probes; i++ {
		c20AppProbe(r)
	}
	hist := 3000
	if r.Tier == "thorough" {
		hist = 20000
	}
	if n := envInt("VERIF_N", 0); n > 0 {
		hist = int(n)
	}
	for i := 0; i < hist; i++ {
		run(c20GenHistory(r))
	}
}

// c20GenHistory draws one history (also used by the C15 harness, which runs the same code outside recovery)
func c20GenHistory(r *Rec) []string {
	denoms := []string{"atele", "uatom", "ibc/27394FB092D2ECCD56123C74F36E4C1F926001CEADA9CA97EA622B25F41E5EB2", "xyz", "", "A B", "stake", "x.y_z-1:2", "a-b/c", "ab", "a:bc", "1abc"}
	amt := func(pool string) string {
		switch r.Rng.Intn(10) {
		case 0:
			return "0"
		case 1:
			return "1"
		case 2:
			return pool
		case 3:
			p, _ := new(big.Int).SetString(pool, 10)
			return p.Add(p, big.NewInt(1)).String()
		case 4:
			p, _ := new(big.Int).SetString(pool, 10)
			if p.Sign() > 0 {
				return p.Sub(p, big.NewInt(1)).String()
			}
			return "2"
		case 5:
			return "-" + fmt.Sprint(1+r.Rng.Intn(5))
		case 6:
			return "340282366920938463463374607431768211456000"
		case 7:
			if r.Rng.Intn(3) == 0 {
				return "nil"
			}
			return "3"
		default:
			return fmt.Sprint(r.Rng.Intn(20))
		}
	}
		h := []string{"reset"}
		pools := map[string]string{}
		steps := 3 + r.Rng.Intn(10)
		if r.Rng.Intn(5) > 0 { // mostly: vesting on, a funded pool and a valid multi-denom reward
			h = append(h, "enable 1")
			nf := 1 + r.Rng.Intn(3)
			for j := 0; j < nf; j++ {
				d := denoms[r.Rng.Intn(4)]
				a := fmt.Sprint(1 + r.Rng.Intn(30))
				cur, _ := new(big.Int).SetString(orZero(pools[d]), 10)
				add, _ := new(big.Int).SetString(a, 10)
				pools[d] = cur.Add(cur, add).String()
				if r.Rng.Intn(4) == 0 {
					h = append(h, "fundraw "+hxs(d)+" "+a)
				} else {
					h = append(h, "fund "+hxs(d)+" "+a)
				}
			}
			perm := r.Rng.Perm(4)
			k := 1 + r.Rng.Intn(3)
			parts := []string{}
			for j := 0; j < k; j++ {
				d := denoms[perm[j]]
				parts = append(parts, hxs(d), fmt.Sprint(r.Rng.Intn(12)))
			}
			h = append(h, fmt.Sprintf("reward %d %s", k, strings.Join(parts, " ")))
		}
		for s := 0; s < steps; s++ {
			switch x := r.Rng.Intn(10); {
			case x < 2:
				d := denoms[r.Rng.Intn(4)]
				a := fmt.Sprint(r.Rng.Intn(25))
				if r.Rng.Intn(6) == 0 {
					a = "1000000000000000000000000000000000000000000"
				}
				cur, _ := new(big.Int).SetString(orZero(pools[d]), 10)
				add, _ := new(big.Int).SetString(a, 10)
				pools[d] = cur.Add(cur, add).String()
				h = append(h, "fund "+hxs(d)+" "+a)
			case x < 4:
				k := r.Rng.Intn(4)
				if r.Rng.Intn(3) > 0 && k == 0 {
					k = 1
				}
				parts := []string{}
				for j := 0; j < k; j++ {
					d := denoms[r.Rng.Intn(len(denoms))]
					if r.Rng.Intn(3) > 0 {
						d = denoms[r.Rng.Intn(4)]
					}
					parts = append(parts, hxs(d), amt(orZero(pools[d])))
				}
				h = append(h, strings.TrimSpace(fmt.Sprintf("reward %d %s", k, strings.Join(parts, " "))))
			case x < 5:
				switch y := r.Rng.Intn(8); {
				case y < 2:
					h = append(h, "enable 0")
				case y < 5:
					h = append(h, "enable 1")
				case y < 5:
					h = append(h, "restart")
				case y < 6:
					if r.Rng.Intn(2) == 0 {
						h = append(h, "poolacct")
					} else {
						h = append(h, "restart")
					}
				case y < 7:
					d := denoms[r.Rng.Intn(4)]
					if r.Rng.Intn(5) == 0 {
						d = "*"
					}
					h = append(h, fmt.Sprintf("sendenabled %s %d", hxs(d), r.Rng.Intn(3)/2))
				default:
					h = append(h, "blockdry")
				}
			default:
				h = append(h, "block")
			}
		}
		return h
}


func orZero(s string) string {
	if s == "" {
		return "0"
	}
	return s
}
