//go:build c11

package verifharness

// The harness' own, prefix-agnostic reading of the address strings named in a message (independent of the sdk / of
// go-ethereum helpers the keeper uses): bech32 (BIP-173 checksum) -> (hrp, payload bytes); hex 0x… -> 20 bytes.

import (
	"encoding/hex"
	"strings"
)

const c11Charset = "qpzry9x8gf2tvdw0s3jn54khce6mua7l"

func c11Polymod(v []byte) uint32 {
	gen := []uint32{0x3b6a57b2, 0x26508e6d, 0x1ea119fa, 0x3d4233dd, 0x2a1462b3}
	chk := uint32(1)
	for _, x := range v {
		b := chk >> 25
		chk = (chk&0x1ffffff)<<5 ^ uint32(x)
		for i := 0; i < 5; i++ {
			if (b>>uint(i))&1 == 1 {
				chk ^= gen[i]
			}
		}
	}
	return chk
}

// c11Bech32Decode: ok=false when the string is not bech32 (length 8…1023, printable, one case, separator, charset,
// checksum constant 1, 5→8 bit regrouping without padding bits set).
func c11Bech32Decode(s string) (hrp string, data []byte, ok bool) {
	if len(s) < 8 || len(s) > 1023 {
		return "", nil, false
	}
	lower, upper := false, false
	for i := 0; i < len(s); i++ {
		c := s[i]
		if c < 33 || c > 126 {
			return "", nil, false
		}
		if c >= 'a' && c <= 'z' {
			lower = true
		}
		if c >= 'A' && c <= 'Z' {
			upper = true
		}
	}
	if lower && upper {
		return "", nil, false
	}
	s = strings.ToLower(s)
	one := strings.LastIndexByte(s, '1')
	if one < 1 || one+7 > len(s) {
		return "", nil, false
	}
	hrp = s[:one]
	var vals []byte
	for i := one + 1; i < len(s); i++ {
		p := strings.IndexByte(c11Charset, s[i])
		if p < 0 {
			return "", nil, false
		}
		vals = append(vals, byte(p))
	}
	var exp []byte
	for i := 0; i < len(hrp); i++ {
		exp = append(exp, hrp[i]>>5)
	}
	exp = append(exp, 0)
	for i := 0; i < len(hrp); i++ {
		exp = append(exp, hrp[i]&31)
	}
	if c11Polymod(append(exp, vals...)) != 1 {
		return "", nil, false
	}
	vals = vals[:len(vals)-6]
	acc, bits := uint32(0), uint(0)
	for _, v := range vals {
		acc = acc<<5 | uint32(v)
		bits += 5
		for bits >= 8 {
			bits -= 8
			data = append(data, byte(acc>>bits))
			acc &= (1 << bits) - 1
		}
	}
	if bits >= 5 || acc != 0 {
		return "", nil, false
	}
	return hrp, data, true
}

// the op-line field describing the decode: "!" or "<hex of hrp>.<payload hex or ->"
func c11DecField(s string) string {
	hrp, data, ok := c11Bech32Decode(s)
	if !ok {
		return "!"
	}
	return hxs(hrp) + "." + hx(data)
}

// c11HexAddr: optional 0x/0X, exactly 40 hex digits.
func c11HexAddr(s string) ([]byte, bool) {
	if len(s) >= 2 && s[0] == '0' && (s[1] == 'x' || s[1] == 'X') {
		s = s[2:]
	}
	if len(s) != 40 {
		return nil, false
	}
	b, err := hex.DecodeString(s)
	return b, err == nil
}
