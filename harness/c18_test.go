//go:build c18

package verifharness

// C18 — client lifecycle installs a usable client or changes nothing.
//
// Real code driven: the gov proposal handler `client.NewClientProposalHandler` (x/xibc/core/client/proposal_handler.go)
// executed exactly as gov does (content.ValidateBasic() at submission, then handler(cacheCtx, content) with the cache
// written only when err == nil, no recover), the msg server `Keeper.UpdateClient` (x/xibc/keeper/msg_server.go) executed
// as baseapp.runTx does (msg.ValidateBasic(), cache context, recover ⇒ nothing written), `ClientState.Status` and
// `VerifyPacketCommitment` of the installed client.  Client / consensus states are real ones of all four types:
// Tendermint states of a live xibctesting counterparty chain (with real ICS-23 proofs), BSC and ETH states from the
// packages' testdata, TSS states.
//
// There are two op languages.  The generator, the corpus and the replays use SYMBOLIC ops (they name real objects:
// "the counterparty's current header", "BSC testdata header 0" …).  Every symbolic op is realised against the live
// world into one CONCRETE op line — the abstract content the Lean model needs (type, height, digest, Validate() result,
// what Initialize of that state would write …) — and the concrete line is what is recorded and fed to the Lean driver.
//
// symbolic ops
//   reset
//   time <base> <offset-seconds>       base ∈ tm | bsc0 | bsc1 | eth0 | eth1   (consensus timestamp of that object + offset)
//                                      | now (relative) | cons:<name> (timestamp of the installed latest consensus state)
//   create|upgrade|toggle <name> <cs> <ks>
//        cs ∈ tm tmd tm!inv | bsc0 bsc1 bsc!epoch bsc!seal bsc!inv | eth0 eth1 eth!inv | tssA tssB tss!inv | nil
//        ks ∈ tm | bsc0 bsc1 | eth0 eth1 | tss | nil
//   relayer <who> <name>*              who ∈ r0 r1 tssA tssB bad
//   relayerx <who> <nAddresses> <name>*   (malformed: number of counterparty addresses given explicitly)
//   status <name>
//   verify <name> latest|bad|hi|nocons
//   update <name> <who> next|stale|forged|wrongtype|tss:A|tss:B|tss!inv
//
// concrete ops: see docs/C18.md and lean/TeleportModel/Driver/C18.lean.

import (
	"crypto/sha256"
	"encoding/binary"
	"encoding/hex"
	"encoding/json"
	"fmt"
	"os"
	"path/filepath"
	"regexp"
	"sort"
	"strconv"
	"strings"
	"testing"
	"time"


	"github.com/cosmos/cosmos-sdk/codec"
	codectypes "github.com/cosmos/cosmos-sdk/codec/types"
	sdk "github.com/cosmos/cosmos-sdk/types"
	govtypes "github.com/cosmos/cosmos-sdk/x/gov/types"

	"github.com/teleport-network/teleport/app"
	bsctypes "github.com/teleport-network/teleport/x/xibc/clients/light-clients/bsc/types"
	ethtypes "github.com/teleport-network/teleport/x/xibc/clients/light-clients/eth/types"
	tmtypes "github.com/teleport-network/teleport/x/xibc/clients/light-clients/tendermint/types"
	tsstypes "github.com/teleport-network/teleport/x/xibc/clients/tss-client/types"
	xibc "github.com/teleport-network/teleport/x/xibc"
	xibcclient "github.com/teleport-network/teleport/x/xibc/core/client"
	clienttypes "github.com/teleport-network/teleport/x/xibc/core/client/types"
	commitmenttypes "github.com/teleport-network/teleport/x/xibc/core/commitment/types"
	"github.com/teleport-network/teleport/x/xibc/core/host"
	"github.com/teleport-network/teleport/x/xibc/exported"
	xibctesting "github.com/teleport-network/teleport/x/xibc/testing"
	xibctypes "github.com/teleport-network/teleport/x/xibc/types"
)

const (
	c18Src = "srcx"
	c18Dst = "dstx"
	c18Seq = uint64(7)
)

type c18World struct {
	t      *testing.T
	coord  *xibctesting.Coordinator
	chainA *xibctesting.TestChain
	chainB *xibctesting.TestChain
	app    *app.Teleport
	cdc    codec.BinaryCodec
	ctx    sdk.Context
	now    time.Time
	hand   govtypes.Handler
	hist   []string // symbolic history since reset (for replays)

	commitVal []byte
	ackVal    []byte
	tmSnap    *tmtypes.Header // counterparty header used by the most recent `tm` client state
	bscGen    *bsctypes.BscHeader
	bscVals   [][]byte
	bscUpd    []*bsctypes.BscHeader
	ethHdr    []*ethtypes.EthHeader
	addr      map[string]string // who -> bech32
	// per installed name: is the installed (client state, consensus state) pair consistent, i.e. is the consensus
	// state the one of the client state's own header? (an inconsistent pair is a governance input error the clients do
	// not detect; the oracle's "valid header" is relative to a genuine trusted state)
	consistent map[string]bool
	bscG       *c18BscChain // generated chain with rotating validator sets (c18_bsc_test.go)
	bscBig     *c18BscChain // … at the top of the uint64 height range (2^64-16 …)
	bscMaxE    *c18BscChain // … one header at height 2^64-1 with epoch 2^64-1
	bscChains  map[uint64]*c18BscChain
	tmR        *c18TmrChain // synthetic Tendermint chain whose validator set changes with every block (c18_tm_test.go)
	tmFam      [][]*c18TmrChain // families of synthetic chains: the revisions of one counterparty
	tmV, tmW, tmX *c18TmrChain // revision 1 at 990…, its successor revision 2 starting again at 3…, and at 995…
	proofH     int64 // height of the live counterparty whose application hash every synthetic header carries
	// per Tendermint client, BY CONSTRUCTION: the height its last accepted proposal installed, and the greatest
	// (revision, block number) among that and the heights of the updates accepted since
	tmInstalled, tmWant map[string]clienttypes.Height
	// per installed TSS client: the TSS address it must have BY CONSTRUCTION (the proposal's, then the one of every
	// accepted key-rotation header) — independent of what the store says
	tssAddr map[string]string
	self    string // this chain's own name
}

func c18RepoDir() string {
	if d := os.Getenv("VERIF_REPO"); d != "" {
		return d
	}
	// the replace line of go.mod names the tree the harness was built against
	if b, err := os.ReadFile("go.mod"); err == nil {
		if m := regexp.MustCompile(`github.com/teleport-network/teleport => (\S+)`).FindSubmatch(b); m != nil {
			return string(m[1])
		}
	}
	return "/repo"
}

func newC18World(t *testing.T) *c18World {
	w := &c18World{t: t, addr: map[string]string{}}
	w.coord = xibctesting.NewCoordinator(t, 2)
	w.chainA = w.coord.GetChain(xibctesting.GetChainID(0))
	w.chainB = w.coord.GetChain(xibctesting.GetChainID(1))
	w.app = w.chainA.App
	w.cdc = w.app.AppCodec()
	w.hand = xibcclient.NewClientProposalHandler(w.app.XIBCKeeper.ClientKeeper)
	// a packet commitment on the counterparty, committed before any client is installed
	h := sha256.Sum256([]byte("c18 packet"))
	w.commitVal = h[:]
	w.chainB.App.XIBCKeeper.PacketKeeper.SetPacketCommitment(w.chainB.GetContext(), c18Src, c18Dst, c18Seq, w.commitVal)
	// the packet this chain receives from the chain it knows under <name> (commitments/<name>/<self>/sequences/n) and the
	// acknowledgement of the packet it sent there (acks/<self>/<name>/sequences/n): the proof paths contain the name
	self := w.app.XIBCKeeper.ClientKeeper.GetChainName(w.chainA.GetContext())
	ackH := sha256.Sum256([]byte("c18 ack"))
	w.ackVal = ackH[:]
	for _, sn := range c18ValidNames {
		w.chainB.App.XIBCKeeper.PacketKeeper.SetPacketCommitment(w.chainB.GetContext(), c18Name(sn), self, c18Seq, w.commitVal)
		w.chainB.App.XIBCKeeper.PacketKeeper.SetPacketAcknowledgement(w.chainB.GetContext(), self, c18Name(sn), c18Seq, w.ackVal)
	}
	w.coord.CommitBlock(w.chainB)
	w.coord.CommitBlock(w.chainB)
	w.coord.CommitBlock(w.chainB)

	dir := c18RepoDir()
	var gs struct {
		GenesisHeader          *bsctypes.BscHeader `json:"genesis_header"`
		GenesisValidatorHeader *bsctypes.BscHeader `json:"genesis_validator_header"`
	}
	c18ReadJSON(t, filepath.Join(dir, "x/xibc/clients/light-clients/bsc/types/testdata/genesis_state.json"), &gs)
	w.bscGen = gs.GenesisHeader
	vals, err := bsctypes.ParseValidators(gs.GenesisValidatorHeader.Extra)
	if err != nil {
		t.Fatal(err)
	}
	w.bscVals = vals
	c18ReadJSON(t, filepath.Join(dir, "x/xibc/clients/light-clients/bsc/types/testdata/update_headers.json"), &w.bscUpd)
	c18ReadJSON(t, filepath.Join(dir, "x/xibc/clients/light-clients/eth/types/testdata/update_headers.json"), &w.ethHdr)

	w.bscG = newC18BscChain()
	w.bscBig = newC18BscChainAt(7141, 10, 18446744073709551600, 6)
	w.bscMaxE = newC18BscChainAt(7142, 18446744073709551615, 18446744073709551615, 1)
	w.bscChains = map[uint64]*c18BscChain{c18BscChainID: w.bscG, 7141: w.bscBig, 7142: w.bscMaxE}
	t0 := w.coord.CurrentTime.Add(-10 * time.Minute).Truncate(time.Second)
	w.proofH = w.chainB.LastHeader.Header.Height
	ah := append([]byte{}, w.chainB.LastHeader.Header.AppHash...)
	w.tmR = newC18TmrChainAt(c18TmrChainID, c18TmrFirst, c18TmrLast-c18TmrFirst+1, t0, ah)
	w.tmV = newC18TmrChainAt("c18rev-1", 990, 14, t0, ah)
	w.tmW = newC18TmrChainAt("c18rev-2", 3, 10, t0.Add(2*time.Second), ah)
	w.tmX = newC18TmrChainAt("c18rev-2", 995, 10, t0.Add(2*time.Second), ah)
	w.tmFam = [][]*c18TmrChain{{w.tmR}, {w.tmV, w.tmW, w.tmX}}
	for _, k := range c18IDClasses {
		nf := int64(3)
		if k.oldID == k.newID {
			nf = 2000 // no revisions: the "new" installation point is simply a later block of the same chain
		}
		w.tmFam = append(w.tmFam, []*c18TmrChain{newC18TmrChainAt(k.oldID, 990, 14, t0, ah), newC18TmrChainAt(k.newID, nf, 10, t0.Add(2*time.Second), ah)})
	}
	for _, k := range c18ShapeClasses { // index len(c18IDClasses)+i: the same life cycle with other header shapes
		app := c18Fill(k.appLen, 'a')
		w.tmFam = append(w.tmFam, []*c18TmrChain{newC18TmrChainShape("ah"+k.class+"-1", 990, 14, t0, app, k.sh),
			newC18TmrChainShape("ah"+k.class+"-2", 3, 10, t0.Add(2*time.Second), app, k.sh)})
	}
	w.addr["r0"] = w.chainA.SenderAcc.String()
	w.addr["r1"] = sdk.AccAddress(sha256.New().Sum([]byte("r1"))[:20]).String()
	w.addr["tssA"] = sdk.AccAddress(sha256.New().Sum([]byte("tssA"))[:20]).String()
	w.addr["tssB"] = sdk.AccAddress(sha256.New().Sum([]byte("tssB"))[:20]).String()
	w.addr["bad"] = "teleport1notanaddress"
	c18Self = w.app.XIBCKeeper.ClientKeeper.GetChainName(w.chainA.GetContext())
	w.reset()
	return w
}

func c18ReadJSON(t *testing.T, p string, v interface{}) {
	b, err := os.ReadFile(p)
	if err != nil {
		t.Fatal(err)
	}
	if err := json.Unmarshal(b, v); err != nil {
		t.Fatal(err)
	}
}

func (w *c18World) reset() {
	w.ctx, _ = w.chainA.GetContext().CacheContext()
	w.now = w.coord.CurrentTime
	w.ctx = w.ctx.WithBlockTime(w.now)
	w.hist = nil
	w.tmSnap = nil
	w.consistent = map[string]bool{}
	w.tssAddr = map[string]string{}
	w.tmInstalled, w.tmWant = map[string]clienttypes.Height{}, map[string]clienttypes.Height{}
	w.self = w.app.XIBCKeeper.ClientKeeper.GetChainName(w.ctx)
}

// ---- canonical text ------------------------------------------------------------------------------

func c18Dig(b []byte) string {
	h := sha256.Sum256(b)
	return hex.EncodeToString(h[:6])
}

func c18H(h exported.Height) string {
	return fmt.Sprintf("%d-%d", h.GetRevisionNumber(), h.GetRevisionHeight())
}

var c18ConsPrefix = []byte(host.KeyConsensusStatePrefix + "/")

// canonical (key, value) of one entry of a client store
func c18Canon(k, v []byte) (string, string) {
	ks := string(k)
	switch {
	case ks == host.KeyClientState:
		return "cs", c18Dig(v)
	case strings.HasPrefix(ks, string(c18ConsPrefix)) && len(k) == len(c18ConsPrefix)+16:
		hb := k[len(c18ConsPrefix):]
		return fmt.Sprintf("c:%d-%d", binary.BigEndian.Uint64(hb[:8]), binary.BigEndian.Uint64(hb[8:])), c18Dig(v)
	case strings.HasPrefix(ks, string(c18ConsPrefix)) && len(k) == len(c18ConsPrefix)+16+len(tmtypes.KeyProcessedTime) && strings.HasSuffix(ks, string(tmtypes.KeyProcessedTime)):
		hb := k[len(c18ConsPrefix):]
		val := "x" + hex.EncodeToString(v)
		if len(v) == 8 {
			val = strconv.FormatUint(binary.BigEndian.Uint64(v), 10)
		}
		return fmt.Sprintf("pt:%d-%d", binary.BigEndian.Uint64(hb[:8]), binary.BigEndian.Uint64(hb[8:16])), val
	case strings.HasPrefix(ks, tmtypes.KeyIterateConsensusStatePrefix) && len(k) == len(tmtypes.KeyIterateConsensusStatePrefix)+16:
		hb := k[len(tmtypes.KeyIterateConsensusStatePrefix):]
		hh := clienttypes.NewHeight(binary.BigEndian.Uint64(hb[:8]), binary.BigEndian.Uint64(hb[8:]))
		val := "k"
		if string(v) != string(host.ConsensusStateKey(hh)) {
			val = "x" + hex.EncodeToString(v)
		}
		return "it:" + c18H(hh), val
	case strings.HasPrefix(ks, bsctypes.PrefixKeyRecentSingers+"/"):
		return "sg:" + ks[len(bsctypes.PrefixKeyRecentSingers)+1:], hex.EncodeToString(v)
	case ks == bsctypes.PrefixPendingValidators:
		return "pv", c18Dig(v)
	case strings.HasPrefix(ks, ethtypes.KeyIndexEthHeaderPrefix+"/0x") && len(ks) > len(ethtypes.KeyIndexEthHeaderPrefix)+67:
		r := ks[len(ethtypes.KeyIndexEthHeaderPrefix)+3:]
		return "ei:" + r[:64] + ":" + r[64:], c18Dig(v)
	case strings.HasPrefix(ks, ethtypes.KeyMainRootPrefix+"/0x") && len(ks) > len(ethtypes.KeyMainRootPrefix)+67:
		r := ks[len(ethtypes.KeyMainRootPrefix)+3:]
		val := c18Dig(v)
		vs := string(v)
		if strings.HasPrefix(vs, ethtypes.KeyIndexEthHeaderPrefix+"/0x") && len(vs) > len(ethtypes.KeyIndexEthHeaderPrefix)+67 {
			val = vs[len(ethtypes.KeyIndexEthHeaderPrefix)+3:][:64]
		}
		return "er:" + r[:64] + ":" + r[64:], val
	}
	return "x:" + hex.EncodeToString(k), c18Dig(v)
}

func c18StoreMap(st sdk.KVStore) map[string]string {
	m := map[string]string{}
	it := st.Iterator(nil, nil)
	defer it.Close()
	for ; it.Valid(); it.Next() {
		k, v := c18Canon(it.Key(), it.Value())
		m[k] = v
	}
	return m
}

// dump of every client store ("clients/<name>/<path>") of the xibc module store, sorted
func (w *c18World) dump(ctx sdk.Context) string {
	st := ctx.KVStore(w.app.GetKey(host.StoreKey))
	it := sdk.KVStorePrefixIterator(st, []byte("clients/"))
	defer it.Close()
	var parts []string
	for ; it.Valid(); it.Next() {
		rest := it.Key()[len("clients/"):]
		i := strings.IndexByte(string(rest), '/')
		if i < 0 {
			parts = append(parts, "?"+hex.EncodeToString(rest))
			continue
		}
		k, v := c18Canon(rest[i+1:], it.Value())
		parts = append(parts, hxs(string(rest[:i]))+"/"+k+"="+v)
	}
	sort.Strings(parts)
	if len(parts) == 0 {
		return "-"
	}
	return strings.Join(parts, ",")
}

func (w *c18World) dumpRelayers(ctx sdk.Context) string {
	var parts []string
	for _, ir := range w.app.XIBCKeeper.ClientKeeper.GetAllRelayers(ctx) {
		var cs []string
		for _, c := range ir.Chains {
			cs = append(cs, hxs(c))
		}
		parts = append(parts, ir.Address+"="+strings.Join(cs, ";")+"#"+strconv.Itoa(len(ir.Addresses)))
	}
	sort.Strings(parts)
	if len(parts) == 0 {
		return "-"
	}
	return strings.Join(parts, ",")
}

// ---- abstract description of real client / consensus states ---------------------------------------

type c18CS struct {
	ty      string
	latest  exported.Height
	dig     string
	valid   bool
	trust   uint64
	delay   uint64
	initOk  bool
	x1, x2, x3 string
}

func (c c18CS) tokens() string {
	if c.ty == "nil" {
		return "nil 0 0 - 0 0 0 0 - - -"
	}
	b := func(x bool) string {
		if x {
			return "1"
		}
		return "0"
	}
	d := func(s string) string {
		if s == "" {
			return "-"
		}
		return s
	}
	return fmt.Sprintf("%s %d %d %s %s %d %d %s %s %s %s", c.ty, c.latest.GetRevisionNumber(), c.latest.GetRevisionHeight(), c.dig, b(c.valid), c.trust, c.delay, b(c.initOk), d(c.x1), d(c.x2), d(c.x3))
}

func c18TyOfCS(cs exported.ClientState) string {
	switch cs.(type) {
	case *tmtypes.ClientState:
		return "tm"
	case *bsctypes.ClientState:
		return "bsc"
	case *ethtypes.ClientState:
		return "eth"
	case *tsstypes.ClientState:
		return "tss"
	}
	return "nil"
}

func c18TyOfKS(ks exported.ConsensusState) (string, uint64) {
	switch k := ks.(type) {
	case *tmtypes.ConsensusState:
		return "tm", uint64(k.Timestamp.UnixNano())
	case *bsctypes.ConsensusState:
		return "bsc", k.Timestamp
	case *ethtypes.ConsensusState:
		return "eth", k.Timestamp
	case *tsstypes.ConsensusState:
		return "tss", 0
	}
	return "nil", 0
}

// describe computes the abstract content of a real client state. What the state's own Initialize writes (and whether
// it succeeds) is obtained by running the real Initialize on an empty scratch client store of a throw-away context.
func (w *c18World) describe(cs exported.ClientState, ks exported.ConsensusState) c18CS {
	if cs == nil {
		return c18CS{ty: "nil"}
	}
	d := c18CS{ty: c18TyOfCS(cs), latest: cs.GetLatestHeight(), dig: c18Dig(clienttypes.MustMarshalClientState(w.cdc, cs))}
	d.valid = cs.Validate() == nil
	switch c := cs.(type) {
	case *tmtypes.ClientState:
		d.trust, d.delay, d.initOk = uint64(c.TrustingPeriod), c.TimeDelay, true
	case *tsstypes.ClientState:
		d.initOk, d.x1 = true, c.TssAddress
	case *bsctypes.ClientState:
		d.trust, d.delay = c.TrustingPeriod, c.GetDelayBlock()
	case *ethtypes.ClientState:
		d.trust, d.delay = c.TrustingPeriod, c.BlockDelay
	}
	if d.ty == "bsc" || d.ty == "eth" {
		sctx, _ := w.ctx.CacheContext()
		st := w.app.XIBCKeeper.ClientKeeper.ClientStore(sctx, "zz-c18-scratch")
		var err error
		// a consensus state of the client's own type: initOk describes the client state alone
		var useKs exported.ConsensusState = &bsctypes.ConsensusState{}
		if d.ty == "eth" {
			useKs = &ethtypes.ConsensusState{}
		}
		pan, _ := safely(func() { err = cs.Initialize(sctx, w.cdc, st, useKs) })
		d.initOk = !pan && err == nil
		// what Initialize of this type has to write is stated BY CONSTRUCTION (own seal recovery, own parsing of the
		// extra data, the header's exported hash), never read back from the code under test
		switch c := cs.(type) {
		case *bsctypes.ClientState:
			if a, ok := c18BscRecover(&c.Header, c.ChainId); ok {
				d.x1 = hex.EncodeToString(a.Bytes())
			}
			if vs, ok := c18BscAnnounced(c.Header.Extra); ok {
				d.x2 = c18Dig(w.cdc.MustMarshal(&bsctypes.ValidatorSet{Validators: vs}))
			}
		case *ethtypes.ClientState:
			hd := c.Header
			safely(func() {
				d.x1 = hex.EncodeToString(hd.Hash().Bytes())
				d.x2 = hex.EncodeToString(hd.ToEthHeader().Root.Bytes())
				if bz, err := w.cdc.MarshalInterface(&hd); err == nil {
					d.x3 = c18Dig(bz)
				}
			})
		}
	}
	return d
}

func (w *c18World) describeKS(ks exported.ConsensusState) string {
	if ks == nil {
		return "nil 0 - 1"
	}
	ty, ts := c18TyOfKS(ks)
	return fmt.Sprintf("%s %d %s %d", ty, ts, c18Dig(clienttypes.MustMarshalConsensusState(w.cdc, ks)), c18b(ks.ValidateBasic() == nil))
}

// ---- realisation of symbolic descriptors --------------------------------------------------------

func (w *c18World) bscHeader(i int) *bsctypes.BscHeader {
	if i == 0 {
		return w.bscGen
	}
	return w.bscUpd[199]
}

func (w *c18World) bscState(h bsctypes.Header) *bsctypes.ClientState {
	return &bsctypes.ClientState{Header: h, ChainId: 56, Epoch: 200, BlockInteval: 3, Validators: w.bscVals,
		ContractAddress: []byte("0x00"), TrustingPeriod: 1000000}
}

// chain id 4 (Rinkeby) makes the ETH client skip the ethash seal check (≈ 2 s per header); the `…p` descriptors use
// chain id 1 and pay for the real proof-of-work verification
func (w *c18World) ethState(h ethtypes.Header, chain uint64) *ethtypes.ClientState {
	return &ethtypes.ClientState{Header: h, ChainId: chain, ContractAddress: []byte("0x00"), TrustingPeriod: 1000000, TimeDelay: 0, BlockDelay: 1}
}

func (w *c18World) realiseCS(desc string) exported.ClientState {
	switch desc {
	case "tm", "tmd", "tm!inv":
		w.coord.CommitBlock(w.chainB)
		hd := *w.chainB.LastHeader
		w.tmSnap = &hd
		delay := uint64(0)
		if desc == "tmd" {
			delay = uint64(20 * time.Second)
		}
		tp := xibctesting.TrustingPeriod
		if desc == "tm!inv" {
			tp = 0
		}
		return tmtypes.NewClientState(w.chainB.ChainID, tmtypes.DefaultTrustLevel, tp, xibctesting.UnbondingPeriod,
			xibctesting.MaxClockDrift, hd.GetHeight().(clienttypes.Height), commitmenttypes.GetSDKSpecs(), xibctesting.Prefix, delay)
	}
	if len(desc) == 5 && strings.HasPrefix(desc, "tmi") { // chain-id shape / header shape classes
		c := w.tmFam[2+c18Idx(desc[3])][int(desc[4]-'a')]
		hd := c.hdr[c.first]
		return tmtypes.NewClientState(c.chainID, tmtypes.DefaultTrustLevel, xibctesting.TrustingPeriod, xibctesting.UnbondingPeriod,
			xibctesting.MaxClockDrift, hd.GetHeight().(clienttypes.Height), commitmenttypes.GetSDKSpecs(), xibctesting.Prefix, 0)
	}
	switch desc {
	case "tmi??": // (handled above)
		c := w.tmFam[2][0]
		hd := c.hdr[c.first]
		return tmtypes.NewClientState(c.chainID, tmtypes.DefaultTrustLevel, xibctesting.TrustingPeriod, xibctesting.UnbondingPeriod,
			xibctesting.MaxClockDrift, hd.GetHeight().(clienttypes.Height), commitmenttypes.GetSDKSpecs(), xibctesting.Prefix, 0)
	case "tmv0", "tmw0", "tmx0": // revision 1 at block 990; revision 2 starting again at block 3 / continuing at 995
		c := map[string]*c18TmrChain{"tmv0": w.tmV, "tmw0": w.tmW, "tmx0": w.tmX}[desc]
		hd := c.hdr[c.first]
		return tmtypes.NewClientState(c.chainID, tmtypes.DefaultTrustLevel, xibctesting.TrustingPeriod, xibctesting.UnbondingPeriod,
			xibctesting.MaxClockDrift, hd.GetHeight().(clienttypes.Height), commitmenttypes.GetSDKSpecs(), xibctesting.Prefix, 0)
	case "tmr0", "tmr1": // synthetic chain, validator set changes with every block
		hd := w.tmR.hdr[c18TmrFirst+3*int64(desc[3]-'0')]
		return tmtypes.NewClientState(c18TmrChainID, tmtypes.DefaultTrustLevel, xibctesting.TrustingPeriod, xibctesting.UnbondingPeriod,
			xibctesting.MaxClockDrift, hd.GetHeight().(clienttypes.Height), commitmenttypes.GetSDKSpecs(), xibctesting.Prefix, 0)
	case "bscr0", "bscr1", "bscr2":
		return w.bscG.state(20 + 10*uint64(desc[4]-'0'))
	case "bscq0", "bscq1", "bscq2": // the same chain under revision number 7
		return w.bscG.stateRev(20+10*uint64(desc[4]-'0'), 7)
	case "bscbig": // heights at the top of the uint64 range
		return w.bscBig.state(w.bscBig.first)
	case "bscmaxe": // epoch 2^64-1, header at height 2^64-1
		return w.bscMaxE.state(w.bscMaxE.first)
	case "ethq0", "ethq1": // ETH headers under revision number 5
		h := w.ethHdr[5*int(desc[4]-'0')].ToHeader()
		h.Height.RevisionNumber = 5
		return w.ethState(h, 4)
	case "tmbig": // a Tendermint client at revision height 2^63 of revision 2^64-1 (no header can follow)
		c := tmtypes.NewClientState("c18big-18446744073709551615", tmtypes.DefaultTrustLevel, xibctesting.TrustingPeriod, xibctesting.UnbondingPeriod,
			xibctesting.MaxClockDrift, clienttypes.NewHeight(18446744073709551615, 9223372036854775808), commitmenttypes.GetSDKSpecs(), xibctesting.Prefix, 0)
		return c
	case "bscr!stale": // the announced list of the installed header was tampered with after sealing: seal no longer matches
		st := w.bscG.state(20)
		h := st.Header
		ex := append([]byte{}, h.Extra...)
		ex[40] ^= 0x01
		h.Extra = ex
		st.Header = h
		return st
	case "bsc0":
		return w.bscState(w.bscGen.ToHeader())
	case "bsc1":
		return w.bscState(w.bscUpd[199].ToHeader())
	case "bsc!epoch": // not an epoch block: Initialize / UpgradeState must refuse it
		return w.bscState(w.bscUpd[0].ToHeader())
	case "bsc!seal": // coinbase does not match the seal
		h := w.bscGen.ToHeader()
		cb := append([]byte{}, h.Coinbase...)
		cb[0] ^= 0xff
		h.Coinbase = cb
		return w.bscState(h)
	case "bsc!h0": // Validate() fails: header at height zero
		h := w.bscGen.ToHeader()
		h.Height.RevisionHeight = 0
		return w.bscState(h)
	case "eth!h0":
		h := w.ethHdr[0].ToHeader()
		h.Height.RevisionHeight = 0
		return w.ethState(h, 4)
	case "bsc!noval": // epoch header that carries no validator list (vanity + seal only): Initialize / UpgradeState refuse
		h := w.bscGen.ToHeader()
		ex := append([]byte{}, h.Extra[:32]...)
		h.Extra = append(ex, h.Extra[len(h.Extra)-65:]...)
		return w.bscState(h)
	case "bsc!inv": // Validate() fails: extra data shorter than the vanity
		h := w.bscGen.ToHeader()
		h.Extra = h.Extra[:10]
		return w.bscState(h)
	case "eth0":
		return w.ethState(w.ethHdr[0].ToHeader(), 4)
	case "eth1":
		return w.ethState(w.ethHdr[5].ToHeader(), 4)
	case "eth0p":
		return w.ethState(w.ethHdr[0].ToHeader(), 1)
	case "eth1p":
		return w.ethState(w.ethHdr[5].ToHeader(), 1)
	case "eth!inv": // Validate() fails: gasUsed > gasLimit
		h := w.ethHdr[0].ToHeader()
		h.GasUsed = h.GasLimit + 1
		return w.ethState(h, 4)
	case "tssA", "tssB":
		return &tsstypes.ClientState{TssAddress: w.addr[desc], Pubkey: []byte(desc + "pk"), PartPubkeys: [][]byte{[]byte("p1"), []byte("p2")}, Threshold: 2}
	case "tss!inv":
		return &tsstypes.ClientState{TssAddress: w.addr["bad"], Pubkey: []byte("pk"), Threshold: 1}
	}
	if i := strings.Index(desc, "!"); i > 0 {
		return w.invalidCS(desc[:i], desc[i+1:])
	}
	return nil
}

// client states that are well formed except for ONE thing the type's Validate() excludes
var c18InvalidCS = []string{
	"tm!chain", "tm!tl0", "tm!tlden", "tm!tlbig", "tm!inv", "tm!ubd0", "tm!drift0", "tm!h0", "tm!tpge", "tm!specs",
	"bscr!epoch0", "bscr!chainbig", "bscr!h0", "bscr!extra", "bscr!mix", "bscr!uncle", "bscr!diff0",
	"eth!h0", "eth!inv", "eth!gascap", "eth!diff0", "eth!bloom",
	"tss!inv", "tss!empty",
}

// … and client states that pass Validate() but which the type's Initialize / UpgradeState must refuse
var c18UninstallableCS = []string{"bsc!epoch", "bsc!seal", "bsc!noval", "bscr!stale"}

func (w *c18World) invalidCS(base, tag string) exported.ClientState {
	switch base {
	case "tm":
		c := w.realiseCS("tm").(*tmtypes.ClientState)
		switch tag {
		case "chain":
			c.ChainId = "   "
		case "tl0":
			c.TrustLevel = tmtypes.Fraction{Numerator: 0, Denominator: 3}
		case "tlden":
			c.TrustLevel = tmtypes.Fraction{Numerator: 1, Denominator: 0}
		case "tlbig":
			c.TrustLevel = tmtypes.Fraction{Numerator: 1 << 63, Denominator: 1 << 63}
		case "ubd0":
			c.UnbondingPeriod = 0
		case "drift0":
			c.MaxClockDrift = 0
		case "h0":
			c.LatestHeight.RevisionHeight = 0
		case "tpge":
			c.TrustingPeriod = c.UnbondingPeriod
		case "specs":
			c.ProofSpecs = nil
		case "spec0":
			c.ProofSpecs = append(c.ProofSpecs[:0:0], nil)
		default:
			return nil
		}
		return c
	case "bscr":
		c := w.bscG.state(20)
		h := c.Header
		switch tag {
		case "epoch0":
			c.Epoch = 0
		case "chainbig":
			c.ChainId = 1 << 63
		case "h0":
			h.Height.RevisionHeight = 0
		case "extra":
			h.Extra = h.Extra[:40]
		case "mix":
			h.MixDigest = append(make([]byte, 31), 1)
		case "uncle":
			u := append([]byte{}, h.UncleHash...)
			u[0] ^= 1
			h.UncleHash = u
		case "diff0":
			h.Difficulty = []byte{0}
		default:
			return nil
		}
		c.Header = h
		return c
	case "eth":
		h := w.ethHdr[0].ToHeader()
		switch tag {
		case "gascap":
			h.GasLimit = 1 << 63
		case "diff0":
			h.Difficulty = []byte{}
		case "bloom":
			h.Bloom = make([]byte, 257)
		default:
			return nil
		}
		return w.ethState(h, 4)
	case "tss":
		if tag == "empty" {
			return &tsstypes.ClientState{TssAddress: "", Pubkey: []byte("pk"), Threshold: 1}
		}
	}
	return nil
}

func (w *c18World) realiseKS(desc string) exported.ConsensusState {
	if len(desc) == 5 && strings.HasPrefix(desc, "tmi") {
		c := w.tmFam[2+c18Idx(desc[3])][int(desc[4]-'a')]
		return c.hdr[c.first].ConsensusState()
	}
	switch desc {
	case "tm":
		if w.tmSnap == nil {
			hd := *w.chainB.LastHeader
			w.tmSnap = &hd
		}
		return w.tmSnap.ConsensusState()
	case "tm!root", "tm!nvh", "tm!ts": // Tendermint consensus states failing ValidateBasic
		if w.tmSnap == nil {
			hd := *w.chainB.LastHeader
			w.tmSnap = &hd
		}
		k := w.tmSnap.ConsensusState()
		switch desc {
		case "tm!root":
			k.Root = nil
		case "tm!nvh":
			k.NextValidatorsHash = []byte{1, 2, 3}
		default:
			k.Timestamp = time.Unix(0, 0).UTC()
		}
		return k
	case "tmv0", "tmw0", "tmx0":
		c := map[string]*c18TmrChain{"tmv0": w.tmV, "tmw0": w.tmW, "tmx0": w.tmX}[desc]
		return c.hdr[c.first].ConsensusState()
	case "tmr0", "tmr1":
		return w.tmR.hdr[c18TmrFirst+3*int64(desc[3]-'0')].ConsensusState()
	case "bscr0", "bscr1", "bscr2":
		return w.bscG.cons(20 + 10*uint64(desc[4]-'0'))
	case "bscq0", "bscq1", "bscq2":
		return w.bscG.consRev(20+10*uint64(desc[4]-'0'), 7)
	case "bscbig":
		return w.bscBig.cons(w.bscBig.first)
	case "bscmaxe":
		return w.bscMaxE.cons(w.bscMaxE.first)
	case "ethq0", "ethq1":
		h := w.ethHdr[5*int(desc[4]-'0')]
		return &ethtypes.ConsensusState{Timestamp: h.Time, Height: clienttypes.NewHeight(5, h.Number.Uint64()), Root: h.Root[:]}
	case "tmbig":
		return w.tmR.hdr[c18TmrFirst].ConsensusState()
	case "bsc0", "bsc1":
		h := w.bscHeader(int(desc[3] - '0'))
		return &bsctypes.ConsensusState{Timestamp: h.Time, Height: clienttypes.NewHeight(0, h.Number.Uint64()), Root: h.Root[:]}
	case "eth0", "eth1":
		h := w.ethHdr[0]
		if desc == "eth1" {
			h = w.ethHdr[5]
		}
		return &ethtypes.ConsensusState{Timestamp: h.Time, Height: clienttypes.NewHeight(0, h.Number.Uint64()), Root: h.Root[:]}
	case "tss":
		return &tsstypes.ConsensusState{}
	}
	return nil
}

func (w *c18World) baseTime(base string) time.Time {
	if strings.HasPrefix(base, "cons:") { // timestamp of the consensus state at the latest height of that client
		n := c18Name(base[5:])
		ck := w.app.XIBCKeeper.ClientKeeper
		if cs, ok := ck.GetClientState(w.ctx, n); ok {
			if ks, ok := ck.GetClientConsensusState(w.ctx, n, cs.GetLatestHeight()); ok {
				switch k := ks.(type) {
				case *tmtypes.ConsensusState:
					return k.Timestamp
				case *bsctypes.ConsensusState:
					return time.Unix(int64(k.Timestamp), 0)
				case *ethtypes.ConsensusState:
					return time.Unix(int64(k.Timestamp), 0)
				}
			}
		}
		return w.now
	}
	if len(base) == 5 && strings.HasPrefix(base, "tmi") {
		c := w.tmFam[2+c18Idx(base[3])][int(base[4]-'a')]
		return c.hdr[c.first].GetTime()
	}
	switch base {
	case "now":
		return w.now
	case "tmv0", "tmw0", "tmx0":
		c := map[string]*c18TmrChain{"tmv0": w.tmV, "tmw0": w.tmW, "tmx0": w.tmX}[base]
		return c.hdr[c.first].GetTime()
	case "tmr0", "tmr1":
		return w.tmR.hdr[c18TmrFirst+3*int64(base[3]-'0')].GetTime()
	case "bscr0", "bscr1", "bscr2", "bscq0", "bscq1", "bscq2":
		return time.Unix(int64(w.bscG.hdr[20+10*uint64(base[4]-'0')].Time), 0)
	case "bscbig", "bscmaxe":
		return time.Unix(c18BscT0, 0)
	case "ethq0", "ethq1":
		return time.Unix(int64(w.ethHdr[5*int(base[4]-'0')].Time), 0)
	case "tmbig":
		return w.tmR.hdr[c18TmrFirst].GetTime()
	case "bsc0":
		return time.Unix(int64(w.bscGen.Time), 0)
	case "bsc1":
		return time.Unix(int64(w.bscUpd[199].Time), 0)
	case "eth0":
		return time.Unix(int64(w.ethHdr[0].Time), 0)
	case "eth1":
		return time.Unix(int64(w.ethHdr[5].Time), 0)
	}
	return w.coord.CurrentTime
}

// ---- the property's notions evaluated on the real store -------------------------------------------

// validity of a chain name, stated independently of the code under test (3..64 characters out of the allowed set)
func c18NameValid(n string) bool {
	if len(n) < 3 || len(n) > 64 {
		return false
	}
	for _, c := range []byte(n) {
		ok := c >= 'a' && c <= 'z' || c >= 'A' && c <= 'Z' || c >= '0' && c <= '9' || strings.IndexByte("._+-#[]<>", c) >= 0
		if !ok {
			return false
		}
	}
	return true
}

// is ks the consensus state of cs's own header (same root and timestamp)?
func (w *c18World) c18Consistent(cs exported.ClientState, ks exported.ConsensusState) bool {
	switch c := cs.(type) {
	case *bsctypes.ClientState:
		k, ok := ks.(*bsctypes.ConsensusState)
		return ok && string(k.Root) == string(c.Header.Root) && k.Timestamp == c.Header.Time
	case *ethtypes.ClientState:
		k, ok := ks.(*ethtypes.ConsensusState)
		return ok && string(k.Root) == string(c.Header.Root) && k.Timestamp == c.Header.Time
	case *tmtypes.ClientState:
		k, ok := ks.(*tmtypes.ConsensusState)
		if !ok {
			return false
		}
		// the consensus state of the header the client state points at, on the chain the client state names
		var hd *tmtypes.Header
		if w.tmSynthetic(c.ChainId) {
			if ch := w.tmChainAt(c.ChainId, c.LatestHeight); ch != nil && ch.chainID == c.ChainId {
				hd = ch.hdr[int64(c.LatestHeight.RevisionHeight)]
			}
		} else if w.tmSnap != nil && w.tmSnap.GetHeight().EQ(c.LatestHeight) {
			hd = w.tmSnap
		}
		return hd != nil && string(k.Root) == string(hd.Header.GetAppHash()) && string(k.NextValidatorsHash) == string(hd.Header.NextValidatorsHash)
	}
	return true
}

// InitialisedFor: the metadata the type needs at the latest height exists (real store)
func c18Initialised(ty string, latest exported.Height, m map[string]string) bool {
	switch ty {
	case "tm":
		_, a := m["pt:"+c18H(latest)]
		_, b := m["it:"+c18H(latest)]
		return a && b
	case "bsc":
		_, a := m["sg:"+c18H(latest)]
		_, b := m["pv"]
		return a && b
	case "eth":
		a, b := false, false
		suf := ":" + strconv.FormatUint(latest.GetRevisionHeight(), 10)
		for k := range m {
			if strings.HasPrefix(k, "ei:") && strings.HasSuffix(k, suf) {
				a = true
			}
			if strings.HasPrefix(k, "er:") && strings.HasSuffix(k, suf) {
				b = true
			}
		}
		return a && b
	}
	return true
}

func (w *c18World) fresh(cs c18CS, ksTy string, ksTs uint64) bool {
	if cs.ty == "tss" {
		return true
	}
	if ksTy != cs.ty {
		return false
	}
	if cs.ty == "tm" {
		return ksTs+cs.trust > uint64(w.now.UnixNano())
	}
	return ksTs+cs.trust >= uint64(w.now.Unix())
}

// a usable client is an exportable one: after every accepted proposal / update the real ExportGenesis of the client
// module must pass its own GenesisState.Validate()
func (w *c18World) exportOracle(r *Rec, kind, ty string) {
	var gerr error
	pan, pm := safely(func() {
		gs := xibcclient.ExportGenesis(w.ctx, w.app.XIBCKeeper.ClientKeeper)
		gerr = gs.Validate()
	})
	if pan {
		gerr = fmt.Errorf("panic: %s", pm)
	}
	if gerr != nil {
		r.Count("export.invalid-after." + kind + "." + ty)
		w.find(r, "C18:export-invalid-after:"+kind+":"+ty, "after the accepted "+kind+" the exported client genesis fails its own validation: "+gerr.Error(), gerr.Error(), "ExportGenesis().Validate() == nil")
	} else {
		r.Count("export.valid-after." + kind)
	}
}

func (w *c18World) find(r *Rec, sig, what, obs, req string) {
	r.Count("finding")
	r.Find(Finding{Sig: sig, What: what, Ops: append([]string{}, w.hist...), Obs: obs, Req: req})
}

// ---- apply one symbolic op: returns (concrete op line, canonical observation) -----------------------

func (w *c18World) apply(r *Rec, op string) (string, string) {
	f := strings.Fields(op)
	w.hist = append(w.hist, op)
	ck := w.app.XIBCKeeper.ClientKeeper
	switch f[0] {
	case "reset":
		w.reset()
		w.hist = []string{op}
		return fmt.Sprintf("reset %d %s", w.now.UnixNano(), hxs(w.self)), "ok"
	case "time":
		off, _ := strconv.ParseInt(f[2], 10, 64)
		w.now = w.baseTime(f[1]).Add(time.Duration(off) * time.Second)
		w.ctx = w.ctx.WithBlockTime(w.now)
		return fmt.Sprintf("time %d", w.now.UnixNano()), "ok"
	case "chainid": // the three chain-id helpers of core/client/types/height.go on one id, differentially and against an own reading
		id := f[1]
		rev, _ := strconv.ParseUint(f[2], 10, 64)
		isFmt := clienttypes.IsRevisionFormat(id)
		parse := "panic"
		var pv uint64
		if pan, _ := safely(func() { pv = clienttypes.ParseChainID(id) }); !pan {
			parse = strconv.FormatUint(pv, 10)
		}
		set := "err"
		var sv string
		var serr error
		if pan, _ := safely(func() { sv, serr = clienttypes.SetRevisionNumber(id, rev) }); pan {
			set = "panic"
		} else if serr == nil {
			set = hxs(sv)
		}
		_, _, ownFmt := c18OwnSplitID(id)
		ownRev, fits := c18OwnRevision(id)
		r.Count("chainid.fmt=" + strconv.Itoa(c18b(isFmt)))
		if ownFmt != isFmt {
			w.find(r, "C18:chain-id-helper-wrong:IsRevisionFormat", "IsRevisionFormat("+id+")", fmt.Sprint(isFmt), fmt.Sprint(ownFmt))
		}
		if fits && parse != strconv.FormatUint(ownRev, 10) {
			w.find(r, "C18:chain-id-helper-wrong:ParseChainID", "ParseChainID("+id+")", parse, strconv.FormatUint(ownRev, 10))
		}
		if ownSet, ok := c18OwnSetRevision(id, rev); rev < 1<<63 && ((ok && set != hxs(ownSet)) || (!ok && set != "err")) {
			w.find(r, "C18:chain-id-helper-wrong:SetRevisionNumber", fmt.Sprintf("SetRevisionNumber(%s, %d): the name part is everything before the LAST hyphen, only the revision is replaced", id, rev), string(unhx(strings.Replace(set, "err", "-", 1))), ownSet)
		} else if rev < 1<<63 {
			r.Count("chainid.set.checked")
		} else {
			r.Count("chainid.set.beyond-int63")
		}
		return "chainid " + hxs(id) + " " + f[2], "fmt=" + strconv.Itoa(c18b(isFmt)) + " parse=" + parse + " set=" + set
	case "vbshape": // MsgUpdateClient.ValidateBasic on a correctly signed header whose free-form fields have the given lengths
		var n [5]int
		for i := range n {
			n[i], _ = strconv.Atoi(f[1+i])
		}
		out := "err"
		pan, _ := safely(func() {
			c := newC18TmrChainShape("vbs-1", 100, 2, w.tmR.t0, c18Fill(n[0], 'a'), c18TmShape{n[1], n[2], n[3], n[4]})
			hd := c.update(101, clienttypes.NewHeight(1, 100))
			msg, err := clienttypes.NewMsgUpdateClient("chain-b", hd, w.chainA.SenderAcc)
			if err == nil && msg.ValidateBasic() == nil {
				out = "ok"
			}
		})
		if pan {
			out = "panic"
		}
		r.Count(fmt.Sprintf("vbshape.apphash-len.%d.%s", n[0], out))
		if out != "ok" && (n[1] == 0 || n[1] == 32) && (n[2] == 0 || n[2] == 32) && (n[3] == 0 || n[3] == 32) && n[4] == 20 {
			w.find(r, fmt.Sprintf("C18:update-stateless-stage-rejects-valid-header:apphash-len-%d", n[0]), "MsgUpdateClient.ValidateBasic refuses a correctly signed Tendermint header whose free-form fields are well formed (the app hash may have any length)", out, "ok")
		}
		return strings.Join(f, " "), out
	case "timens": // relative, in nanoseconds (1 ns around a deadline)
		off, _ := strconv.ParseInt(f[1], 10, 64)
		w.now = w.now.Add(time.Duration(off))
		w.ctx = w.ctx.WithBlockTime(w.now)
		return fmt.Sprintf("time %d", w.now.UnixNano()), "ok"
	case "restart":
		return w.restart(r)
	case "dry":
		return w.dry(r, f[1:])
	case "create", "upgrade", "toggle":
		return w.proposal(r, f)
	case "relayer", "relayerx":
		who := f[1]
		names := f[2:]
		na := len(names)
		if f[0] == "relayerx" {
			na, _ = strconv.Atoi(f[2])
			names = f[3:]
		}
		addrs := make([]string, na)
		for i := range addrs {
			addrs[i] = "0xabc" + strconv.Itoa(i)
		}
		var chains []string
		var hn []string
		for _, n := range names {
			n = c18Name(n)
			chains = append(chains, n)
			hn = append(hn, hxs(n))
		}
		p := clienttypes.NewRegisterRelayerProposal("t", "d", w.addr[who], chains, addrs)
		_, aerr := sdk.AccAddressFromBech32(w.addr[who])
		conc := fmt.Sprintf("relayer %s %d %d %d %s", w.addr[who], c18b(aerr == nil), na, len(chains), strings.Join(hn, " "))
		before := w.dumpRelayers(w.ctx) + "|" + w.dump(w.ctx)
		res := w.govExec(p)
		after := w.dumpRelayers(w.ctx) + "|" + w.dump(w.ctx)
		if res == "rej" {
			r.Count("relayer.rejected-at-submission")
			r.Count("relayer.err")
		} else {
			r.Count("relayer." + res)
		}
		if res != "ok" && before != after {
			w.find(r, "C18:failed-proposal-changed-store:relayer", "a failed RegisterRelayer proposal changed the store", after, before)
		}
		if res == "panic" {
			w.find(r, "C18:proposal-panic:relayer", "RegisterRelayer proposal panics inside the gov handler", "panic", "ok or error")
		}
		return strings.TrimSpace(conc), res + " R:" + w.dumpRelayers(w.ctx)
	case "status":
		n := c18Name(f[1])
		cs, found := ck.GetClientState(w.ctx, n)
		out := "none"
		if found {
			out = string(cs.Status(w.ctx, ck.ClientStore(w.ctx, n), w.cdc))
		}
		r.Count("status." + out)
		return "status " + hxs(n), out
	case "verify":
		return w.verify(r, f)
	case "update":
		return w.update(r, f)
	}
	w.t.Fatalf("bad op %q", op)
	return "", ""
}

// the synthetic Tendermint chain holding the header of (revision, height)
// chain-id shapes of Tendermint counterparties: each class is a chain that moves from one revision (old id, blocks
// 990…) to the next (new id, blocks starting again at 3…)
var c18IDClasses = []struct{ class, oldID, newID string }{
	{"name-has-cur-rev", "testnet-2-1", "testnet-2-2"},
	{"name-has-cur-rev-prefix", "net-20-1", "net-20-2"},
	{"name-has-old-rev", "a-1-1", "a-1-2"},
	{"digit-count-9-10", "x9-9", "x9-10"},
	{"many-number-segments", "a-1-2-3-1", "a-1-2-3-2"},
	{"rev-0-to-1", "zero-0", "zero-1"},
	{"rev-2e31", "big-2147483648", "big-2147483649"},
	{"rev-near-2e63", "huge-9223372036854775806", "huge-9223372036854775807"},
	{"rev-beyond-int63", "top-9223372036854775807", "top-9223372036854775808"},
	{"not-revision-format", "plainchain", "plainchain"},
}

const c18IdxChars = "0123456789ABCDEFGHIJKLMN"

func c18Idx(c byte) int { return strings.IndexByte(c18IdxChars, c) }

// header-shape classes of Tendermint counterparties: app hashes of any length, empty data / evidence / last-results hashes
var c18ShapeClasses = []struct {
	class  string
	appLen int
	sh     c18TmShape
}{
	{"1", 1, c18TmShapeDefault}, {"8", 8, c18TmShape{0, 32, 32, 20}}, {"20", 20, c18TmShape{32, 0, 32, 20}}, {"31", 31, c18TmShape{32, 32, 0, 20}},
	{"33", 33, c18TmShapeDefault}, {"64", 64, c18TmShape{0, 0, 0, 20}},
}

// own reading of a chain id, independent of core/client/types/height.go: revision format = <name not ending in '-'>-<number
// without leading zero>; the name part is everything before the LAST hyphen
func c18OwnSplitID(id string) (name, num string, ok bool) {
	i := strings.LastIndexByte(id, '-')
	if i <= 0 || id[i-1] == '-' || i == len(id)-1 {
		return "", "", false
	}
	num = id[i+1:]
	if num[0] < '1' || num[0] > '9' {
		return "", "", false
	}
	for j := 0; j < len(num); j++ {
		if num[j] < '0' || num[j] > '9' {
			return "", "", false
		}
	}
	return id[:i], num, true
}

func c18OwnRevision(id string) (uint64, bool) { // (revision, fits uint64)
	_, num, ok := c18OwnSplitID(id)
	if !ok {
		return 0, true
	}
	v, err := strconv.ParseUint(num, 10, 64)
	return v, err == nil
}

// the chain id of revision rev of the chain whose id is `id` (only meaningful for rev < 2^63: beyond, the code's
// strconv.Itoa(int(revision)) writes a negative number — documented, modelled as `itoaInt`)
func c18OwnSetRevision(id string, rev uint64) (string, bool) {
	name, _, ok := c18OwnSplitID(id)
	if !ok {
		return "", false
	}
	return name + "-" + strconv.FormatUint(rev, 10), true
}

// the synthetic Tendermint chain of the family of clientID that holds the header of (revision, height)
func (w *c18World) tmChainAt(clientID string, h clienttypes.Height) *c18TmrChain {
	for _, fam := range w.tmFam {
		in := false
		for _, c := range fam {
			in = in || c.chainID == clientID
		}
		if !in {
			continue
		}
		for _, c := range fam {
			if rev, _ := c18OwnRevision(c.chainID); rev == h.RevisionNumber {
				if _, ok := c.hdr[int64(h.RevisionHeight)]; ok {
					return c
				}
			}
		}
	}
	return nil
}

func (w *c18World) tmSynthetic(chainID string) bool {
	for _, fam := range w.tmFam {
		for _, c := range fam {
			if c.chainID == chainID {
				return true
			}
		}
	}
	return false
}

func (w *c18World) tmIDClass(chainID string) string {
	for _, k := range c18IDClasses {
		if k.oldID == chainID || k.newID == chainID {
			return k.class
		}
	}
	return "plain"
}

func c18MaxLex(a, b clienttypes.Height) clienttypes.Height {
	if b.GT(a) {
		return b
	}
	return a
}

// every client's Status(), sorted by name
func (w *c18World) statuses() string {
	ck := w.app.XIBCKeeper.ClientKeeper
	var parts []string
	for _, ic := range ck.GetAllGenesisClients(w.ctx) {
		if cs, ok := ck.GetClientState(w.ctx, ic.ChainName); ok {
			parts = append(parts, ic.ChainName+"="+string(cs.Status(w.ctx, ck.ClientStore(w.ctx, ic.ChainName), w.cdc)))
		}
	}
	sort.Strings(parts)
	return strings.Join(parts, ",")
}

// restart: the hosting chain is exported and re-imported — xibc ExportGenesis -> JSON through the app codec -> the
// module's own Validate -> emptied xibc store -> InitGenesis. Nothing a client stores (state, consensus states,
// auxiliary records), no relayer and no Status() may change.
func (w *c18World) restart(r *Rec) (string, string) {
	before, relBefore, statBefore := w.dump(w.ctx), w.dumpRelayers(w.ctx), w.statuses()
	cctx, write := w.ctx.CacheContext()
	var verr error
	pan, msg := safely(func() {
		gs := xibc.ExportGenesis(cctx, *w.app.XIBCKeeper)
		cdc := w.app.AppCodec()
		var gs2 xibctypes.GenesisState
		cdc.MustUnmarshalJSON(cdc.MustMarshalJSON(gs), &gs2)
		if verr = gs2.Validate(); verr != nil {
			return
		}
		st := cctx.KVStore(w.app.GetKey(host.StoreKey))
		var ks [][]byte
		it := sdk.KVStorePrefixIterator(st, nil)
		for ; it.Valid(); it.Next() {
			ks = append(ks, append([]byte{}, it.Key()...))
		}
		it.Close()
		for _, kk := range ks {
			st.Delete(kk)
		}
		xibc.InitGenesis(cctx, *w.app.XIBCKeeper, false, &gs2)
	})
	if pan || verr != nil {
		r.Count("restart.failed")
		w.find(r, "C18:restart-export-not-importable", "the exported xibc genesis fails validation / InitGenesis: "+fmt.Sprintf("panic=%v %s err=%v", pan, msg, verr), fmt.Sprintf("panic=%v err=%v", pan, verr), "export -> validate -> import succeeds")
		return "restart", "err D:" + before + " R:" + relBefore
	}
	write()
	r.Count("restart")
	after, relAfter, statAfter := w.dump(w.ctx), w.dumpRelayers(w.ctx), w.statuses()
	if strings.Contains(before, "/pv=") || strings.Contains(before, "/sg:") {
		r.Count("restart.with-bsc-aux")
	}
	if strings.Contains(before, "/ei:") {
		r.Count("restart.with-eth-aux")
	}
	if strings.Contains(before, "/pt:") {
		r.Count("restart.with-tm-aux")
	}
	if after != before || relAfter != relBefore {
		w.find(r, "C18:restart-changed-client-store", "export + InitGenesis changed what the clients / the relayer registry store", after+" R:"+relAfter, before+" R:"+relBefore)
	}
	if statAfter != statBefore {
		w.find(r, "C18:restart-changed-status", "export + InitGenesis changed a client's Status()", statAfter, statBefore)
	}
	return "restart", "ok D:" + after + " R:" + relAfter
}

// dry: the operation is executed on a context that is DROPPED (gov's dry run of the handler at submission, Simulate /
// CheckTx, a failed multi-message tx); nothing may be kept, and the real execution later must be unaffected
func (w *c18World) dry(r *Rec, inner []string) (string, string) {
	before, relBefore, statBefore := w.dump(w.ctx), w.dumpRelayers(w.ctx), w.statuses()
	saveCtx, saveHist, saveSnap := w.ctx, append([]string{}, w.hist...), w.tmSnap
	saveTss, saveCons := map[string]string{}, map[string]bool{}
	for k, v := range w.tssAddr {
		saveTss[k] = v
	}
	for k, v := range w.consistent {
		saveCons[k] = v
	}
	saveInst, saveWant := map[string]clienttypes.Height{}, map[string]clienttypes.Height{}
	for k, v := range w.tmInstalled {
		saveInst[k] = v
	}
	for k, v := range w.tmWant {
		saveWant[k] = v
	}
	w.ctx, _ = w.ctx.CacheContext()
	conc, out := w.apply(r, strings.Join(inner, " "))
	w.ctx, w.hist, w.tmSnap, w.tssAddr, w.consistent = saveCtx, saveHist, saveSnap, saveTss, saveCons
	w.tmInstalled, w.tmWant = saveInst, saveWant
	r.Count("dry." + inner[0] + "." + strings.Fields(out)[0])
	after, relAfter := w.dump(w.ctx), w.dumpRelayers(w.ctx)
	if after != before || relAfter != relBefore {
		w.find(r, "C18:dropped-execution-changed-state", "an execution on a dropped context changed the state", after, before)
	}
	if sa := w.statuses(); sa != statBefore { // through the keeper's own getters: a context-ignoring memo shows here
		w.find(r, "C18:dropped-execution-changed-status", "an execution on a dropped context changed what the keeper reports for the clients", sa, statBefore)
	}
	return "dry " + conc, "dropped D:" + after + " R:" + relAfter
}

// entries of the dump that belong to other clients than `name`
func c18Others(dump, name string) string {
	pre := hxs(name) + "/"
	var keep []string
	for _, e := range strings.Split(dump, ",") {
		if e != "-" && e != "" && !strings.HasPrefix(e, pre) {
			keep = append(keep, e)
		}
	}
	return strings.Join(keep, ",")
}

// symbolic names of valid chain names: the counterparty commits a packet (src = that name, dst = this chain) and an
// acknowledgement (src = this chain, dst = that name) for each of them, so that the proof paths contain the name
var c18ValidNames = []string{"N0", "N1", "N2", "Nmin", "Nmax", "Nupper", "Npfx", "Nchars", "Ndigits", "N63",
	"Nc+", "Nc.", "Nc_", "Nc#", "Nc[", "Nc]", "Nc<", "Nc>", "Nc-", "NcU", "Ncl"}

// which character class of IsValidID a chain name exercises (the first special character; else its letters / digits)
func c18NameClass(n string) string {
	cl := map[byte]string{'+': "plus", '.': "dot", '_': "underscore", '#': "hash", '[': "lbracket", ']': "rbracket", '<': "lt", '>': "gt", '-': "dash"}
	multi := 0
	first := ""
	for i := 0; i < len(n); i++ {
		if c, ok := cl[n[i]]; ok {
			if first == "" {
				first = c
			}
			multi++
		}
	}
	switch {
	case multi > 3:
		return "all-classes"
	case first != "":
		return first
	case strings.ToUpper(n) == n && strings.ToLower(n) != n:
		return "upper"
	case strings.Trim(n, "0123456789") == "":
		return "digits"
	}
	return "lower"
}

func c18b(b bool) int {
	if b {
		return 1
	}
	return 0
}

// symbolic names: a small table, including invalid identifiers
var c18Self = "" // set by newC18World: the hosting chain's own name

func c18Name(s string) string {
	switch s {
	case "Nself":
		return c18Self
	case "N0":
		return "chain-b"
	case "N1":
		return "bsc.main"
	case "N2":
		return "eth_1"
	case "Nc+":
		return "ab+cd"
	case "Nc.":
		return "ab.cd"
	case "Nc_":
		return "ab_cd"
	case "Nc#":
		return "ab#cd"
	case "Nc[":
		return "ab[cd"
	case "Nc]":
		return "ab]cd"
	case "Nc<":
		return "ab<cd"
	case "Nc>":
		return "ab>cd"
	case "Nc-":
		return "ab-cd"
	case "NcU":
		return "ABCD"
	case "Ncl":
		return "abcd"
	case "Nchars": // every character class IsValidID allows
		return "a.B_c+9-e#f[g]h<i>J"
	case "Nupper": // differs from N0 only by case
		return "CHAIN-B"
	case "Npfx": // N0 is a prefix of it
		return "chain-b2"
	case "Ndigits":
		return "0123456789"
	case "N63":
		return strings.Repeat("z", 63)
	case "Nuni": // not ASCII
		return "cha\u00eene"
	case "Ntab":
		return "ab\tcd"
	case "Nshort":
		return "ab"
	case "Nslash":
		return "a/bc"
	case "Nlong":
		return strings.Repeat("x", 65)
	case "Nmax":
		return strings.Repeat("y", 64)
	case "Nmin":
		return "abc"
	case "Nspace":
		return "ab cd"
	case "Nblank":
		return "   "
	}
	return s
}

// govExec executes a proposal content exactly as x/gov does: ValidateBasic at submission, then the routed handler on
// a cache context which is written back only if the handler returned nil (gov.EndBlocker; there is no recover there).
// "rej" = refused at submission (content.ValidateBasic(), as MsgSubmitProposal.ValidateBasic calls it), "err" = refused
// by the routed handler, "panic" at either stage
func (w *c18World) govExec(c govtypes.Content) string {
	var verr error
	if pan, _ := safely(func() { verr = c.ValidateBasic() }); pan {
		return "panic"
	}
	if verr != nil {
		return "rej"
	}
	cctx, write := w.ctx.CacheContext()
	var err error
	pan, _ := safely(func() { err = w.hand(cctx, c) })
	if pan {
		return "panic"
	}
	if err != nil {
		return "err"
	}
	write()
	return "ok"
}

func (w *c18World) proposal(r *Rec, f []string) (string, string) {
	ck := w.app.XIBCKeeper.ClientKeeper
	kind, name := f[0], c18Name(f[1])
	cs := w.realiseCS(f[2])
	ks := w.realiseKS(f[3])
	var csAny, ksAny *codectypes.Any
	if cs != nil {
		csAny, _ = clienttypes.PackClientState(cs)
	}
	if ks != nil {
		ksAny, _ = clienttypes.PackConsensusState(ks)
	}
	// an Any of a type the interface registry does not know (neither state unpacks)
	if f[2] == "unk" {
		csAny = &codectypes.Any{TypeUrl: "/c18.UnknownClientState", Value: []byte{0x0a, 0x01, 0x41}}
	}
	if f[3] == "unk" {
		ksAny = &codectypes.Any{TypeUrl: "/c18.UnknownConsensusState", Value: []byte{0x0a, 0x01, 0x42}}
	}
	// invalid BY CONSTRUCTION: a descriptor marked `!`, a state that does not unpack, or a consensus state of another
	// type than a non-TSS client state — such a proposal must fail at one of the two stages and change nothing
	ksTy0, _ := c18TyOfKS(ks)
	invalidBC := strings.Contains(f[2], "!") || strings.Contains(f[3], "!") || cs == nil || ks == nil ||
		(c18TyOfCS(cs) != "tss" && ksTy0 != c18TyOfCS(cs))
	statusOf := func() string {
		if c, ok := ck.GetClientState(w.ctx, name); ok {
			return string(c.Status(w.ctx, ck.ClientStore(w.ctx, name), w.cdc))
		}
		return "none"
	}
	statusBefore := statusOf()
	var content govtypes.Content
	switch kind {
	case "create":
		content = &clienttypes.CreateClientProposal{Title: "t", Description: "d", ChainName: name, ClientState: csAny, ConsensusState: ksAny}
	case "upgrade":
		content = &clienttypes.UpgradeClientProposal{Title: "t", Description: "d", ChainName: name, ClientState: csAny, ConsensusState: ksAny}
	default:
		content = &clienttypes.ToggleClientProposal{Title: "t", Description: "d", ChainName: name, ClientState: csAny, ConsensusState: ksAny}
	}
	d := w.describe(cs, ks)
	conc := fmt.Sprintf("%s %s %s %s", kind, hxs(name), d.tokens(), w.describeKS(ks))

	before := w.dump(w.ctx)
	relBefore := w.dumpRelayers(w.ctx)
	oldCS, existed := ck.GetClientState(w.ctx, name)
	oldTy := ""
	if existed {
		oldTy = c18TyOfCS(oldCS)
	}
	out := w.govExec(content)
	res := out // counters and the oracle treat both refusal stages as "err"; the observation keeps the stage
	if out == "rej" {
		res = "err"
		r.Count(kind + ".rejected-at-submission")
	} else if out == "err" {
		r.Count(kind + ".rejected-by-handler")
	}
	after := w.dump(w.ctx)
	pair := kind + "." + oldTy + ">" + d.ty
	r.Count(kind + "." + res)
	r.Count("pair." + pair + "." + res)
	if kind == "create" && name == w.self {
		r.Count("create.own-name." + res)
	}
	if invalidBC {
		r.Count(kind + ".invalid." + out)
		r.Count("invalid." + kind + "." + oldTy + ">" + f[2] + "/" + f[3] + "." + out)
		if res == "ok" && !strings.Contains(f[2], "!") && strings.HasPrefix(f[3], "tm!") && c18TyOfCS(cs) == "tm" {
			// the only invalidity is a Tendermint consensus state failing its own ValidateBasic (repaired in fafdbf1)
			w.find(r, "C18:invalid-tm-consensus-state-accepted:"+kind, fmt.Sprintf("a %s proposal whose Tendermint consensus state fails ConsensusState.ValidateBasic() (%s) is accepted: no proposal's ValidateBasic looks at the consensus state and Initialize / UpgradeState only check its type; the client can never verify a proof and the exported client genesis fails validation", kind, f[3]), "ok", "rejected at submission")
		} else if res == "ok" {
			w.find(r, "C18:invalid-proposal-accepted:"+kind+":"+f[2]+"/"+f[3], fmt.Sprintf("a %s proposal with invalid content (client state %s, consensus state %s) passed both the submission check and the handler; the previous client (%s) was replaced / a client was installed", kind, f[2], f[3], oldTy), "ok", "rejected at submission or by the handler, nothing changed")
		}
	}
	if c18Others(before, name) != c18Others(after, name) {
		w.find(r, "C18:other-client-changed:"+kind, "a "+kind+" proposal about "+name+" changed the store of another client", c18Others(after, name), c18Others(before, name))
	}
	if res != "ok" {
		if sa := statusOf(); sa != statusBefore {
			w.find(r, "C18:failed-proposal-changed-status:"+kind, "a failed "+kind+" proposal changed the Status() of the existing client", sa, statusBefore)
		}
	}
	// mixed proposals: the client state and the consensus state are of different client types
	if mixKs, _ := c18TyOfKS(ks); cs != nil && ks != nil && mixKs != d.ty {
		r.Count(kind + ".mixed-types.attempted")
		r.Count(kind + ".mixed-types." + res)
		if existed && d.ty != oldTy && mixKs == oldTy {
			r.Count(kind + ".mixed-types.cs-other-ks-existing.attempted")
		}
		if existed && d.ty == oldTy {
			r.Count(kind + ".mixed-types.cs-existing-ks-other.attempted")
		}
	}

	// ---- property oracle, evaluated on the real code's own observations --------------------------
	switch {
	case res == "panic":
		w.find(r, "C18:proposal-panic:"+pair, "lifecycle proposal panics inside the gov handler (no recover there)", "panic", "ok or error")
	case res != "ok":
		if before != after || relBefore != w.dumpRelayers(w.ctx) {
			w.find(r, "C18:failed-proposal-changed-store:"+kind, "a failed "+kind+" proposal changed the client store", after, before)
		}
	default:
		r.Nontrivial(strings.Join(w.hist, ";"))
		if f[2] == "tmbig" || f[2] == "bscbig" || f[2] == "bscmaxe" || strings.HasPrefix(f[2], "bscq") || strings.HasPrefix(f[2], "ethq") {
			r.Count("boundary." + f[2] + "." + kind + ".ok")
		}
		w.consistent[name] = w.c18Consistent(cs, ks)
		if !w.consistent[name] {
			r.Count("installed.inconsistent-pair")
		}
		if kind == "create" && (!c18NameValid(name) || existed) {
			w.find(r, "C18:create-accepted-invalid-or-existing-name", fmt.Sprintf("create accepted for name %q (valid=%v, existed=%v)", name, c18NameValid(name), existed), "ok", "error")
		}
		if kind == "create" && name == w.self {
			w.find(r, "C18:create-accepted-own-chain-name", "create accepted under the chain's own name "+name, "ok", "error")
		}
		delete(w.tmInstalled, name)
		delete(w.tmWant, name)
		if tc, ok := cs.(*tmtypes.ClientState); ok {
			w.tmInstalled[name], w.tmWant[name] = tc.LatestHeight, tc.LatestHeight
		}
		delete(w.tssAddr, name)
		if tc, ok := cs.(*tsstypes.ClientState); ok {
			w.tssAddr[name] = tc.TssAddress
		}
		w.exportOracle(r, kind, d.ty)
		if d.ty == "tss" {
			for key := range c18StoreMap(ck.ClientStore(w.ctx, name)) {
				if strings.HasPrefix(key, "c:") && !strings.Contains(before, hxs(name)+"/"+key+"=") {
					w.find(r, "C18:tss-client-has-consensus-state:"+kind, "a TSS client has no consensus states, but the accepted "+kind+" stored one at "+key[2:], after, "no consensus state")
				}
			}
		}
		storedTy := ""
		if stored, ok := ck.GetClientState(w.ctx, name); ok {
			storedTy = c18TyOfCS(stored)
		}
		if kind == "upgrade" && (!existed || oldTy != d.ty || storedTy != oldTy) {
			w.find(r, "C18:upgrade-changed-type:"+pair, fmt.Sprintf("upgrade accepted although the client type differs / client missing: client type before %q, proposed %q, stored after %q", oldTy, d.ty, storedTy), "ok, stored type "+storedTy, "error (an upgrade keeps the client type "+oldTy+")")
		}
		if kind == "toggle" && (!existed || oldTy == d.ty || storedTy == oldTy) {
			w.find(r, "C18:toggle-kept-type:"+pair, "toggle accepted although the client type is the same / client missing", "ok", "error")
		}
		if !d.valid {
			w.find(r, "C18:accepted-invalid-client-state:"+kind+"."+d.ty, "proposal with a client state failing Validate() accepted", "ok", "error")
		}
		st := ck.ClientStore(w.ctx, name)
		m := c18StoreMap(st)
		ksTy, ksTs := c18TyOfKS(ks)
		wantK := c18Dig(clienttypes.MustMarshalConsensusState(w.cdc, ks))
		gotK, hasK := m["c:"+c18H(d.latest)]
		if m["cs"] != d.dig || (d.ty != "tss" && (!hasK || gotK != wantK)) {
			w.find(r, "C18:installed-state-differs:"+pair, "stored client / consensus state is not the proposal's", fmt.Sprintf("cs=%s c=%s", m["cs"], gotK), fmt.Sprintf("cs=%s c=%s", d.dig, wantK))
		}
		// the type-specific auxiliary records right after the install, against what they must be BY CONSTRUCTION
		switch d.ty {
		case "bsc":
			sg := 0
			for key := range m {
				if strings.HasPrefix(key, "sg:") {
					sg++
				}
			}
			if d.x2 == "" || m["pv"] != d.x2 || m["sg:"+c18H(d.latest)] != d.x1 || sg != 1 {
				w.find(r, "C18:bsc-aux-records-differ:"+kind, fmt.Sprintf("after the accepted %s the BSC pending validator set must be the list announced in the installed epoch header's extra data and the only recent signer the sealer of that header: stored pv=%s sg=%s (%d signer records)", kind, m["pv"], m["sg:"+c18H(d.latest)], sg), "pv="+m["pv"]+" sg="+m["sg:"+c18H(d.latest)], "pv="+d.x2+" sg="+d.x1)
			}
		case "eth":
			hn := strconv.FormatUint(d.latest.GetRevisionHeight(), 10)
			if m["ei:"+d.x1+":"+hn] != d.x3 || m["er:"+d.x2+":"+hn] != d.x1 {
				w.find(r, "C18:eth-aux-records-differ:"+kind, "after the accepted "+kind+" the ETH header index / root-main records are not those of the installed header", after, "ei:"+d.x1+":"+hn+"="+d.x3+" er:"+d.x2+":"+hn+"="+d.x1)
			}
		case "tm":
			if m["pt:"+c18H(d.latest)] != strconv.FormatInt(w.now.UnixNano(), 10) || m["it:"+c18H(d.latest)] != "k" {
				w.find(r, "C18:tm-aux-records-differ:"+kind, "after the accepted "+kind+" the processed time at the latest height is not the block time / the iteration key is wrong", after, "pt="+strconv.FormatInt(w.now.UnixNano(), 10))
			}
		}
		if !c18Initialised(d.ty, d.latest, m) {
			w.find(r, "C18:not-initialised-for-new-type:"+pair, "accepted "+kind+" but the metadata the new client type needs at its latest height is missing", after, "InitialisedFor "+d.ty)
		}
		if w.fresh(d, ksTy, ksTs) {
			stat := string(cs.Status(w.ctx, st, w.cdc))
			if stat != "Active" {
				w.find(r, "C18:installed-not-active:"+pair, "accepted "+kind+" with a fresh consensus state of the right type, but Status() = "+stat, stat, "Active")
			}
		} else if ksTy != d.ty && d.ty != "tss" {
			w.find(r, "C18:accepted-mismatched-consensus-type:"+kind+"."+d.ty+"<"+ksTy, "accepted a consensus state of another client type (the client can never become Active)", "ok", "error")
		}
	}
	return conc, out + " D:" + after
}

func (w *c18World) verify(r *Rec, f []string) (string, string) {
	ck := w.app.XIBCKeeper.ClientKeeper
	n := c18Name(f[1])
	cs, found := ck.GetClientState(w.ctx, n)
	if !found {
		return fmt.Sprintf("verify %s 0 0 0 -", hxs(n)), "none"
	}
	st := ck.ClientStore(w.ctx, n)
	ty := c18TyOfCS(cs)
	var proof, ackProof []byte
	member := false
	h := cs.GetLatestHeight().(clienttypes.Height)
	ptxt := "-"
	switch ty {
	case "tm":
		if want, ok := w.tmWant[n]; ok && (f[2] == "latest" || f[2] == "hi" || f[2] == "bad") {
			h = want // the latest height BY CONSTRUCTION (installed height, accepted update heights)
		}
		if inst, ok := w.tmInstalled[n]; ok && f[2] == "installed" {
			h = inst // the height the last accepted lifecycle proposal installed
		}
		if w.tmSynthetic(cs.(*tmtypes.ClientState).ChainId) {
			// every synthetic header carries the application hash of the live counterparty at proofH: its genuine
			// ICS-23 proofs verify against every consensus state of the synthetic chains
			if f[2] == "nocons" {
				return "noop", "skip"
			}
			if f[2] == "hi" {
				h.RevisionHeight++
			}
			proof, _ = w.chainB.QueryProofAtHeight(host.PacketCommitmentKey(n, w.self, c18Seq), w.proofH)
			ackProof, _ = w.chainB.QueryProofAtHeight(host.PacketAcknowledgementKey(w.self, n, c18Seq), w.proofH)
			// ground truth of the membership: the proof commits to the counterparty's root at proofH, which is the root of
			// every genuine synthetic consensus state (a proposal may have paired the client state with a foreign one)
			member = false
			if ks, ok := ck.GetClientConsensusState(w.ctx, n, h); ok {
				member = string(ks.GetRoot()) == string(w.tmR.hdr[c18TmrFirst].Header.AppHash)
			}
			if f[2] == "bad" {
				proof[len(proof)/2] ^= 0x55
				member = false
			}
			break
		}
		if cs.(*tmtypes.ClientState).ChainId != w.chainB.ChainID {
			return "noop", "skip" // only the live counterparty has application state to prove against
		}
		qh := h.RevisionHeight
		if f[2] == "hi" {
			h.RevisionHeight++
		}
		if f[2] == "nocons" && qh > 2 {
			qh--
			h.RevisionHeight--
		}
		if int64(qh) > w.chainB.App.LastBlockHeight()+1 || qh < 2 {
			return "noop", "skip"
		}
		proof, _ = w.chainB.QueryProofAtHeight(host.PacketCommitmentKey(n, w.self, c18Seq), int64(qh))
		ackProof, _ = w.chainB.QueryProofAtHeight(host.PacketAcknowledgementKey(w.self, n, c18Seq), int64(qh))
		member = true
		if f[2] == "bad" {
			proof[len(proof)/2] ^= 0x55
			member = false
		}
	case "tss":
		// the address the client must have by construction (proposal / accepted rotations), not the stored one
		a, tracked := w.tssAddr[n]
		if !tracked {
			a = cs.(*tsstypes.ClientState).TssAddress
		}
		want := a
		if f[2] == "bad" {
			a = w.addr["r1"]
		}
		if strings.HasPrefix(f[2], "addr:") {
			a = w.addr["tss"+f[2][5:]]
		}
		proof, ptxt = []byte(a), a
		member = true
		var verr error
		pan, _ := safely(func() {
			verr = cs.VerifyPacketCommitment(w.ctx, st, w.cdc, h, proof, n, w.self, c18Seq, w.commitVal)
		})
		if !pan && tracked && (verr == nil) != (a == want) {
			w.find(r, "C18:tss-proof-verdict-differs-from-installed-address", fmt.Sprintf("TSS client must hold address %s (proposal / accepted key rotations); proof naming %s: accepted=%v", want, a, verr == nil), fmt.Sprint(verr == nil), fmt.Sprint(a == want))
		}
	default:
		return "noop", "skip"
	}
	var err error
	pan, _ := safely(func() {
		err = cs.VerifyPacketCommitment(w.ctx, st, w.cdc, h, proof, n, w.self, c18Seq, w.commitVal)
	})
	out := "ok"
	if pan {
		out = "panic"
	} else if err != nil {
		out = "err"
	}
	r.Count("verify." + ty + "." + f[2] + "." + out)
	class := c18NameClass(n)
	if ty == "tm" && (f[2] == "latest" || f[2] == "installed") {
		r.Count("verify.tm." + f[2] + "." + out + ".name-class." + class)
	}
	// the acknowledgement path (acks/<self>/<name>/sequences/n) must give the same verdict as the commitment path
	if ty == "tm" && ackProof != nil && (f[2] == "latest" || f[2] == "installed") && member && out == "ok" {
		var aerr error
		apan, _ := safely(func() {
			aerr = cs.VerifyPacketAcknowledgement(w.ctx, st, w.cdc, h, ackProof, w.self, n, c18Seq, w.ackVal)
		})
		if apan || aerr != nil {
			r.Count("verify.tm.ack.err.name-class." + class)
			w.find(r, "C18:genuine-ack-proof-rejected:tm:name-"+class, "the commitment proof under this chain name verifies but the genuine acknowledgement proof is rejected: "+fmt.Sprint(aerr), "err", "ok")
		} else {
			r.Count("verify.tm.ack.ok.name-class." + class)
		}
	}
	// oracle: a genuine proof at the client's latest height verifies once the delay has passed, if the client is active
	if (f[2] == "latest" || f[2] == "installed") && member && out != "ok" && cs.Status(w.ctx, st, w.cdc) == exported.Active {
		pass := true
		if ty == "tm" {
			m := c18StoreMap(st)
			if pt, ok := m["pt:"+c18H(h)]; ok {
				p, _ := strconv.ParseUint(pt, 10, 64)
				pass = p+cs.GetDelayTime() <= uint64(w.now.UnixNano())
			}
			if _, ok := m["c:"+c18H(h)]; !ok && f[2] == "installed" {
				pass = false // the installed consensus state has been pruned since
			}
		}
		if pass {
			w.find(r, "C18:genuine-proof-rejected:"+ty+":name-"+class, "client is Active, delay passed, but a genuine proof at the installed / latest height, on the path commitments/"+n+"/"+w.self+"/sequences/…, is rejected: "+fmt.Sprint(err), out, "ok")
		}
	}
	return fmt.Sprintf("verify %s %d %d %d %s", hxs(n), h.RevisionNumber, h.RevisionHeight, c18b(member), ptxt), out
}

func (w *c18World) update(r *Rec, f []string) (string, string) {
	ck := w.app.XIBCKeeper.ClientKeeper
	n, who, how := c18Name(f[1]), f[2], f[3]
	signer := w.addr[who]
	cs, found := ck.GetClientState(w.ctx, n)
	ty := ""
	if found {
		ty = c18TyOfCS(cs)
	}
	var header exported.Header
	vbc := false // valid by construction: the genuine next header for the installed client
	otherRev := false    // … BSC / ETH: the next block under a revision number other than the client's
	idClass := ""        // chain-id shape class of the synthetic Tendermint client's chain
	tmOldRev := false    // … a late header of an earlier revision than the client's
	tmRotation := false  // … of the synthetic Tendermint chain: signed by a validator set other than the previous header's
	bscNewcomer := false // … sealed by a validator that joined with the set announced at the install / last epoch
	switch {
	case strings.HasPrefix(how, "tss"):
		a := w.addr["tss"+strings.TrimPrefix(strings.TrimPrefix(how, "tss:"), "tss!")]
		if how == "tss!inv" {
			a = w.addr["bad"]
		}
		header = &tsstypes.Header{TssAddress: a, Pubkey: []byte("pk2"), PartPubkeys: [][]byte{[]byte("q")}, Threshold: 1}
		vbc = ty == "tss" && how != "tss!inv"
	case how == "wrongtype":
		if ty == "tss" || ty == "" {
			hh := w.bscUpd[0].ToHeader()
			header = &hh
		} else {
			header = &tsstypes.Header{TssAddress: w.addr["tssA"], Threshold: 1}
		}
	default: // next | stale | forged : by the installed client's type
		switch ty {
		case "tm":
			synthetic := w.tmSynthetic(cs.(*tmtypes.ClientState).ChainId)
			if how != "stale" && !synthetic {
				w.coord.CommitBlock(w.chainB)
			}
			trusted := cs.GetLatestHeight().(clienttypes.Height)
			if want, ok := w.tmWant[n]; ok && synthetic { // by construction, not what the store says
				trusted = want
			}
			var hd *tmtypes.Header
			var err error
			if synthetic && how == "oldrev" {
				// a valid LATE header of an EARLIER revision: the next block after the highest consensus state of a
				// lower revision that is still in the store
				var best clienttypes.Height
				for key := range c18StoreMap(ck.ClientStore(w.ctx, n)) {
					if strings.HasPrefix(key, "c:") {
						if hh, e := clienttypes.ParseHeight(key[2:]); e == nil && hh.RevisionNumber < trusted.RevisionNumber && hh.GT(best) {
							best = hh
						}
					}
				}
				if ch := w.tmChainAt(cs.(*tmtypes.ClientState).ChainId, best); ch != nil && !best.IsZero() {
					trusted = best
					hd = ch.update(int64(best.RevisionHeight)+1, best)
					if hd != nil {
						tmRotation, tmOldRev = true, true
					}
				}
			} else if synthetic { // the next header of the chain whose validator set changes with every block
				nh := int64(trusted.RevisionHeight) + 1
				if how == "stale" {
					nh--
				}
				if ch := w.tmChainAt(cs.(*tmtypes.ClientState).ChainId, clienttypes.NewHeight(trusted.RevisionNumber, uint64(nh))); ch != nil {
					hd = ch.update(nh, trusted)
				}
				if hd != nil && how == "next" {
					tmRotation = true
				}
			}
			pan := false
			if !synthetic {
				pan, _ = safely(func() { hd, err = w.chainA.ConstructUpdateTMClientHeaderWithTrustedHeight(w.chainB, n, trusted) })
			}
			if pan || err != nil || hd == nil {
				x := *w.chainB.LastHeader
				hd = &x
				hd.TrustedHeight = trusted
			}
			cp := *hd
			hd = &cp
			if how == "forged" {
				sh := *hd.SignedHeader
				cm := *sh.Commit
				sigs := append(cm.Signatures[:0:0], cm.Signatures...)
				sg := append([]byte{}, sigs[0].Signature...)
				sg[3] ^= 0x40
				sigs[0].Signature = sg
				cm.Signatures = sigs
				sh.Commit = &cm
				hd.SignedHeader = &sh
			}
			header = hd
			ht := hd.GetHeight().(clienttypes.Height)
			if synthetic && tmRotation {
				// own computation of the chain id the header must carry: the client's id with the header's revision
				cid, hid := cs.(*tmtypes.ClientState).ChainId, hd.Header.ChainID
				hrev, _ := c18OwnRevision(hid)
				expect, isf := c18OwnSetRevision(cid, hrev)
				if !isf {
					expect = cid
				}
				idClass = w.tmIDClass(cid)
				switch {
				case hrev >= 1<<63 && isf:
					tmRotation = false // strconv.Itoa(int(revision)) is not faithful there: the code cannot follow such a chain (documented)
					r.Count("update.tm.revision-beyond-int63")
				case expect != hid:
					tmRotation = false
				}
			}
			vbc = (how == "next" || how == "oldrev") && (!synthetic || tmRotation) && ht.GT(trusted) && hd.GetTime().Before(w.now.Add(xibctesting.MaxClockDrift)) /* light.Verify: header time must be strictly before now + drift */
		case "bsc":
			num := cs.GetLatestHeight().GetRevisionHeight()
			if gc, isGen := w.bscChains[cs.(*bsctypes.ClientState).ChainId]; isGen { // a generated chain with rotating validator sets
				n := num + 1
				if how == "stale" {
					n = num
				}
				g, ok := gc.hdr[n]
				if !ok || n < num {
					g, ok = gc.hdr[gc.first], false
				}
				hh := *g
				hh.Height.RevisionNumber = cs.GetLatestHeight().GetRevisionNumber()
				if how == "otherrev" { // the genuine next block, labelled with another revision number than the client's
					hh.Height.RevisionNumber = (hh.Height.RevisionNumber + 7) % 11
					otherRev = true
				}
				if how == "forged" { // sealed by a key that is not the coinbase
					cb := append([]byte{}, hh.Coinbase...)
					cb[1] ^= 0x01
					hh.Coinbase = cb
				}
				header = &hh
				vbc = how == "next" && ok && n == num+1
				if vbc && gc.newcomer[n] {
					bscNewcomer = true
				}
				break
			}
			idx := int(num+1) - int(w.bscUpd[0].Number.Uint64())
			if how == "stale" {
				idx--
			}
			if idx < 0 || idx >= len(w.bscUpd) {
				idx = 0
			}
			hh := w.bscUpd[idx].ToHeader()
			if how == "forged" {
				cb := append([]byte{}, hh.Coinbase...)
				cb[1] ^= 0x01
				hh.Coinbase = cb
			}
			header = &hh
			vbc = how == "next" && hh.Height.RevisionHeight == num+1
		case "eth":
			num := cs.GetLatestHeight().GetRevisionHeight()
			idx := int(num+1) - int(w.ethHdr[0].Number.Uint64())
			if how == "stale" {
				idx--
			}
			if idx < 0 || idx >= len(w.ethHdr) {
				idx = 0
			}
			hh := w.ethHdr[idx].ToHeader()
			hh.Height.RevisionNumber = cs.GetLatestHeight().GetRevisionNumber()
			if how == "otherrev" {
				hh.Height.RevisionNumber = (hh.Height.RevisionNumber + 7) % 11
				otherRev = true
			}
			if how == "forged" {
				hh.Nonce ^= 1
				if cs.(*ethtypes.ClientState).ChainId == 4 {
					hh.ParentHash = append([]byte{}, hh.ParentHash...)
					hh.ParentHash[0] ^= 1
				}
			}
			header = &hh
			vbc = how == "next" && hh.Height.RevisionHeight == num+1 && hh.Time <= uint64(w.now.Unix())+15
		default: // tss or no client
			header = &tsstypes.Header{TssAddress: w.addr["tssB"], Pubkey: []byte("pk3"), Threshold: 1}
			vbc = ty == "tss"
		}
	}
	msg, err := clienttypes.NewMsgUpdateClient(n, header, sdk.AccAddress{})
	if err != nil {
		w.t.Fatal(err)
	}
	msg.Signer = signer
	_, serr := sdk.AccAddressFromBech32(signer)
	hvb := header.ValidateBasic() == nil

	// abstract part (header verification and the light client's own book-keeping): dry run of the installed client's
	// real CheckHeaderAndUpdateState on a throw-away branch; its verdict, resulting states and store delta go on the line
	dry, newCS, newKS, delta := false, "nil 0 0 - 0 0 0 0 - - -", "nil 0 - 1", []string{}
	if found {
		dctx, _ := w.ctx.CacheContext()
		dst := ck.ClientStore(dctx, n)
		b4 := c18StoreMap(dst)
		var ncs exported.ClientState
		var nks exported.ConsensusState
		var derr error
		pan, _ := safely(func() { ncs, nks, derr = cs.CheckHeaderAndUpdateState(dctx, w.cdc, dst, header) })
		if !pan && derr == nil && ncs != nil {
			dry = true
			var nksForInit exported.ConsensusState = nks
			if nks == nil || (fmt.Sprintf("%v", nks) == "<nil>") {
				nks = nil
				nksForInit = nil
			}
			newCS = w.describe(ncs, nksForInit).tokens()
			newKS = w.describeKS(nks)
			af := c18StoreMap(dst)
			var ks []string
			for k := range af {
				ks = append(ks, k)
			}
			for k := range b4 {
				if _, ok := af[k]; !ok {
					ks = append(ks, k)
				}
			}
			sort.Strings(ks)
			for _, k := range ks {
				a, ina := af[k]
				b, inb := b4[k]
				if ina && (!inb || a != b) {
					delta = append(delta, "+ "+k+" "+a)
				} else if !ina && inb {
					delta = append(delta, "- "+k)
				}
			}
		}
	}
	hh := "nil nil"
	var gh exported.Height
	pan0, _ := safely(func() { gh = header.GetHeight() })
	if !pan0 && gh != nil && fmt.Sprintf("%v", gh) != "<nil>" {
		hh = fmt.Sprintf("%d %d", gh.GetRevisionNumber(), gh.GetRevisionHeight())
	}
	hty := "tss"
	switch header.(type) {
	case *tmtypes.Header:
		hty = "tm"
	case *bsctypes.Header:
		hty = "bsc"
	case *ethtypes.Header:
		hty = "eth"
	}
	conc := fmt.Sprintf("update %s %s %d %s %d %s %d %s %s %d", hxs(n), signer, c18b(serr == nil), hty, c18b(hvb), hh, c18b(dry), newCS, newKS, len(delta))
	if len(delta) > 0 {
		conc += " " + strings.Join(delta, " ")
	}

	// ---- the real transaction path: ValidateBasic, cache context, recover --------------------------
	before := w.dump(w.ctx)
	tssWant, tssTracked := w.tssAddr[n]
	if ty == "tss" && !tssTracked {
		tssWant = cs.(*tsstypes.ClientState).TssAddress
	}
	authorised := found && ck.AuthRelayer(w.ctx, n, signer) && serr == nil && (ty != "tss" || tssWant == signer)
	active := found && cs.Status(w.ctx, ck.ClientStore(w.ctx, n), w.cdc) == exported.Active
	res := "ok"
	var perr error
	if err := msg.ValidateBasic(); err != nil {
		res = "err"
	} else {
		cctx, write := w.ctx.CacheContext()
		var e error
		pan, pm := safely(func() { _, e = w.app.XIBCKeeper.UpdateClient(sdk.WrapSDKContext(cctx), msg) })
		switch {
		case pan:
			res, perr = "panic", fmt.Errorf("%s", pm)
		case e != nil:
			res, perr = "err", e
		default:
			write()
		}
	}
	after := w.dump(w.ctx)
	r.Count("update." + ty + "." + how + "." + res)
	if res == "ok" && ty != "tss" && strings.Count(c18Others(after, "\x00")+",", hxs(n)+"/c:") <= strings.Count(c18Others(before, "\x00")+",", hxs(n)+"/c:") {
		r.Count("update." + ty + ".pruned-a-consensus-state.ok")
	}
	if res == "ok" && gh != nil && (ty == "bsc" || ty == "eth") && gh.GetRevisionNumber() != 0 {
		r.Count("update." + ty + ".revision-nonzero.ok")
	}
	if res == "ok" && gh != nil && gh.GetRevisionHeight() >= 1<<63 {
		r.Count("update." + ty + ".height-top-of-uint64.ok")
	}
	if bscNewcomer {
		r.Count("update.bsc.sealed-by-newcomer." + res)
	}
	if th, ok := header.(*tmtypes.Header); ok && vbc && th.Header != nil {
		r.Count(fmt.Sprintf("update.tm.apphash-len.%d.%s", len(th.Header.AppHash), res))
	}
	if tmRotation {
		r.Count("update.tm.valset-changed." + res)
	}
	if idClass != "" && vbc {
		which := "cur"
		if tmOldRev {
			which = "old"
		}
		r.Count("update.tm.chain-id-class." + idClass + "." + which + "-revision-header." + res)
	}
	if otherRev {
		r.Count("update." + ty + ".other-revision-label." + res)
		if res == "ok" {
			w.find(r, "C18:update-changed-revision:"+ty, "a "+ty+" client accepted a header labelled with another revision number than its own: its latest height leaves the revision the lifecycle proposal installed", "ok", "error")
		}
	}
	if tmOldRev {
		above := "below"
		if gh != nil && gh.GetRevisionHeight() > w.tmWant[n].RevisionHeight {
			above = "above"
		}
		r.Count("update.tm.late-old-revision-header." + above + "-new-latest-block." + res)
	}
	if os.Getenv("C18_DEBUG") != "" && res != "ok" {
		fmt.Printf("DEBUG update %s %s vbc=%v auth=%v active=%v: %v\n    hist=%v\n", ty, how, vbc, authorised, active, perr, w.hist)
	}
	if res == "ok" {
		r.Nontrivial(strings.Join(w.hist, ";"))
	}
	if c18Others(before, n) != c18Others(after, n) {
		w.find(r, "C18:other-client-changed:update", "an update of "+n+" changed the store of another client", c18Others(after, n), c18Others(before, n))
	}
	if res != "ok" && before != after {
		w.find(r, "C18:failed-update-changed-store:"+ty, "a failed update changed the client store", after, before)
	}
	if vbc && !w.consistent[n] {
		vbc = false
		r.Count("update.on-inconsistent-pair")
	}
	if vbc && authorised && active && hvb && res != "ok" {
		w.find(r, "C18:valid-update-rejected:"+ty+":"+res, "valid header from the authorised account for an Active "+ty+" client is not accepted: "+fmt.Sprint(perr), res, "ok")
	}
	if res == "ok" {
		// the stored client state must be the one the accepted header prescribes (by construction)
		stored, _ := ck.GetClientState(w.ctx, n)
		okStored, want := true, ""
		switch hd := header.(type) {
		case *tsstypes.Header:
			sc, ok := stored.(*tsstypes.ClientState)
			okStored = ok && sc.TssAddress == hd.TssAddress && string(sc.Pubkey) == string(hd.Pubkey) && sc.Threshold == hd.Threshold && len(sc.PartPubkeys) == len(hd.PartPubkeys)
			want = "tss address " + hd.TssAddress
			if ty == "tss" {
				w.tssAddr[n] = hd.TssAddress
			}
		case *bsctypes.Header:
			sc, ok := stored.(*bsctypes.ClientState)
			okStored = ok && string(w.cdc.MustMarshal(&sc.Header)) == string(w.cdc.MustMarshal(hd))
			want = "bsc header " + c18H(hd.Height)
		case *ethtypes.Header:
			sc, ok := stored.(*ethtypes.ClientState)
			okStored = ok && string(w.cdc.MustMarshal(&sc.Header)) == string(w.cdc.MustMarshal(hd))
			want = "eth header " + c18H(hd.Height)
		case *tmtypes.Header:
			sc, ok := stored.(*tmtypes.ClientState)
			oldL := cs.GetLatestHeight().(clienttypes.Height)
			if t, ok := w.tmWant[n]; ok {
				oldL = t // by construction: installed height and the accepted update heights, not the stored latest
			}
			wantL := c18MaxLex(oldL, hd.GetHeight().(clienttypes.Height))
			w.tmWant[n] = wantL
			if inst, ok := w.tmInstalled[n]; ok && sc != nil && inst.GT(sc.LatestHeight) {
				w.find(r, "C18:latest-height-below-installed:tm", fmt.Sprintf("after an accepted update the Tendermint client's latest height %s is below the height %s its last lifecycle proposal installed", sc.LatestHeight, inst), sc.LatestHeight.String(), ">= "+inst.String())
			}
			okStored = ok && sc.LatestHeight.EQ(wantL)
			want = "tm latest " + c18H(wantL)
		}
		if okStored && ty != "tss" {
			_, has := ck.GetClientConsensusState(w.ctx, n, header.GetHeight())
			if !has {
				okStored, want = false, "consensus state at "+c18H(header.GetHeight())
			}
		}
		w.exportOracle(r, "update", ty)
		if !okStored {
			w.find(r, "C18:accepted-update-not-stored:"+ty, "update accepted but the stored client / consensus state is not the one the header prescribes ("+want+")", fmt.Sprint(stored), want)
		}
	}
	if res == "ok" && (!authorised || !active) {
		w.find(r, "C18:update-accepted-unauthorised-or-inactive:"+ty, fmt.Sprintf("update accepted (authorised=%v active=%v)", authorised, active), "ok", "error")
	}
	return conc, res + " D:" + after
}

// ---- generator ---------------------------------------------------------------------------------

var c18Types = []string{"tm", "bsc", "eth", "tss"}

func c18CSOf(ty string, second bool) (string, string) {
	switch ty {
	case "tm":
		return "tm", "tm"
	case "bsc": // the generated chain: the validator set rotates at the install epoch
		if second {
			return "bscr1", "bscr1"
		}
		return "bscr0", "bscr0"
	case "eth":
		if second {
			return "eth1", "eth1"
		}
		return "eth0", "eth0"
	}
	if second {
		return "tssB", "tss"
	}
	return "tssA", "tss"
}

func c18TimeFor(cs string) string {
	switch {
	case len(cs) == 5 && strings.HasPrefix(cs, "tmi"):
		return cs
	case cs == "tmv0" || cs == "tmw0" || cs == "tmx0" || cs == "tmr0" || cs == "tmr1" || cs == "tmbig" || cs == "bscbig" || cs == "bscmaxe" || cs == "ethq0" || cs == "ethq1":
		return cs
	case strings.HasPrefix(cs, "bscq"):
		return cs[:5]
	case strings.HasPrefix(cs, "bscr1"), strings.HasPrefix(cs, "bscr2"), strings.HasPrefix(cs, "bscr0"):
		return cs[:5]
	case strings.HasPrefix(cs, "bscr"):
		return "bscr0"
	case strings.HasPrefix(cs, "bsc1"):
		return "bsc1"
	case strings.HasPrefix(cs, "bsc"):
		return "bsc0"
	case strings.HasPrefix(cs, "eth1"):
		return "eth1"
	case strings.HasPrefix(cs, "eth"):
		return "eth0"
	}
	return "tm"
}

// one full use cycle of the client called name, whose installed client state descriptor is cs
func c18Use(name, cs string, who string) []string {
	// (R) the chain is exported and re-imported right after the install, with the auxiliary records present
	h := []string{"restart", "status " + name}
	// past the trusting period of the INSTALLED consensus state while the latest one is still fresh: the next update
	// prunes the installed state (its auxiliary records must be where the pruning looks for them) and must succeed
	prune := func(off int64) []string {
		return []string{fmt.Sprintf("time cons:%s %d", name, off), "status " + name, "update " + name + " " + who + " next", "status " + name,
			fmt.Sprintf("time cons:%s 30", name)}
	}
	tmTrust := int64(xibctesting.TrustingPeriod / time.Second)
	switch {
	case cs == "tmbig" || cs == "bscmaxe": // no header can follow: installed, restarted, exported
		h = append(h, "time "+cs+" 30", "status "+name, "update "+name+" "+who+" next", "status "+name)
		return append(h, "restart", "status "+name)
	case cs == "bscbig": // five headers up to 2^64-11, the switch at 2^64-15 included
		h = append(h, "time bscbig 200", "update "+name+" "+who+" next", "restart", "update "+name+" "+who+" next", "update "+name+" "+who+" next",
			"update "+name+" "+who+" next", "update "+name+" "+who+" next", "status "+name, "update "+name+" "+who+" next", "update "+name+" "+who+" stale")
		return append(h, "restart", "status "+name)
	case strings.HasPrefix(cs, "tss"):
		other, ot := "tssB", "B"
		me := cs[3:4]
		if cs == "tssB" {
			other, ot = "tssA", "A"
		}
		// key rotation through the msg server; afterwards the old address can neither prove nor update
		h = append(h, "verify "+name+" latest", "dry update "+name+" "+cs+" tss:"+ot, "update "+name+" "+cs+" tss:"+ot, "status "+name, "verify "+name+" latest",
			"verify "+name+" addr:"+me, "verify "+name+" addr:"+ot, "restart", "update "+name+" "+cs+" tss:"+me, "update "+name+" "+other+" tss:"+me,
			"verify "+name+" latest", "verify "+name+" addr:"+ot)
	case strings.HasPrefix(cs, "tmr"):
		// four updates, each signed by another validator set than the one before (NextValidatorsHash chain)
		h = append(h, "time "+cs+" 60", "update "+name+" "+who+" next", "dry update "+name+" "+who+" next", "update "+name+" "+who+" next", "restart", "update "+name+" "+who+" next",
			"update "+name+" "+who+" next", "status "+name, "update "+name+" "+who+" forged", "update "+name+" "+who+" stale")
		h = append(h, prune(tmTrust-3)...)
	case strings.HasPrefix(cs, "tm"):
		// the time-delay boundary: 19 s after installation (tmd: too early), exactly 20 s (inclusive, and 1 ns around it)
		h = append(h, "verify "+name+" latest", "time now 19", "verify "+name+" latest", "time now 1", "timens -1", "verify "+name+" latest", "timens 1", "verify "+name+" latest",
			"time tm 30", "verify "+name+" latest", "dry update "+name+" "+who+" next", "update "+name+" "+who+" next", "status "+name, "restart", "verify "+name+" latest")
		// the trusting period to the nanosecond: Expired from exactly timestamp + trusting period on
		h = append(h, fmt.Sprintf("time cons:%s %d", name, tmTrust), "status "+name, "timens -1", "status "+name, "timens 2", "status "+name, fmt.Sprintf("time cons:%s 30", name))
		h = append(h, prune(tmTrust-3)...)
	case strings.HasPrefix(cs, "bscr"), strings.HasPrefix(cs, "bscq"):
		// long enough to cross the validator-set switch (epoch + len/2) and to accept headers sealed by validators that
		// joined with the set announced at the install epoch
		h = append(h, "time "+c18TimeFor(cs)+" 200")
		for i := 0; i < 7; i++ {
			if i == 1 {
				h = append(h, "dry update "+name+" "+who+" next", "restart") // between the epoch header and the switch point
			}
			if i == 3 {
				h = append(h, "restart") // right after the switch
			}
			h = append(h, "update "+name+" "+who+" next")
		}
		h = append(h, "status "+name, "update "+name+" "+who+" forged", "update "+name+" "+who+" stale", "update "+name+" "+who+" otherrev", "status "+name)
		h = append(h, prune(999997)...)
	case strings.HasPrefix(cs, "eth"):
		h = append(h, "time "+c18TimeFor(cs)+" 200", "update "+name+" "+who+" next", "dry update "+name+" "+who+" next", "update "+name+" "+who+" next", "restart", "update "+name+" "+who+" next", "status "+name,
			"update "+name+" "+who+" forged", "update "+name+" "+who+" stale", "update "+name+" "+who+" otherrev", "status "+name)
		h = append(h, prune(999997)...)
	default:
		h = append(h, "time "+c18TimeFor(cs)+" 200", "update "+name+" "+who+" next", "update "+name+" "+who+" next", "status "+name)
		h = append(h, prune(999997)...)
	}
	return append(h, "restart", "status "+name)
}

// the exhaustive matrix: every ordered type pair for toggle, every type for upgrade and create, each followed by use
// consensus-state descriptor of type c that goes with the client-state descriptor cb of type b (the matching one when
// the types agree, otherwise the first variant of that type)
func c18KSOf(c, b, cb string) string {
	if c == b {
		_, k := c18CSOf(b, strings.HasSuffix(cb, "1") || cb == "tssB")
		return k
	}
	_, k := c18CSOf(c, false)
	return k
}

// the mixed matrix: against each of the 4 existing client types, every kind of proposal with the proposal's
// CLIENT-state type and CONSENSUS-state type varying independently over all 4 x 4 combinations (each in a history of
// its own, because an accepted one changes the state); creates also under a fresh name
func c18MixedMatrix() [][]string {
	var out [][]string
	for _, a := range c18Types {
		ca, ka := c18CSOf(a, false)
		pre := []string{"reset", "relayer r0 N0 N1", "relayer tssA N0 N1", "relayer tssB N0 N1", "time " + c18TimeFor(ca) + " 1", "create N0 " + ca + " " + ka}
		for _, kind := range []string{"upgrade", "toggle", "create"} {
			for _, b := range c18Types {
				cb, _ := c18CSOf(b, a == b)
				for _, c := range c18Types {
					kc := c18KSOf(c, b, cb)
					h := append([]string{}, pre...)
					h = append(h, "time "+c18TimeFor(cb)+" 1", kind+" N0 "+cb+" "+kc, "status N0")
					if kind == "create" {
						h = append(h, "create N1 "+cb+" "+kc, "status N1")
					}
					// whatever is installed now must still be usable by its own rules
					h = append(h, "time "+c18TimeFor(cb)+" 200", "update N0 r0 next", "update N0 tssA tss:B", "status N0")
					out = append(out, h)
				}
			}
		}
	}
	return out
}

// valid consensus-state descriptor going with an (invalid) client-state descriptor
func c18KSForDesc(cs string) string {
	switch {
	case strings.HasPrefix(cs, "tm"):
		return "tm"
	case strings.HasPrefix(cs, "bscr"):
		return "bscr0"
	case strings.HasPrefix(cs, "bsc"):
		return "bsc0"
	case strings.HasPrefix(cs, "eth"):
		return "eth0"
	}
	return "tss"
}

// the invalid matrix: against each of the 4 existing client types (which has a history: one update), every kind of
// proposal with every individually invalid client state, every uninstallable one, invalid / nil / unknown / foreign
// consensus states — all in ONE history per (existing type, kind), because each must fail and change nothing; the
// history ends by using the untouched client (status, update, proof)
func c18InvalidMatrix() [][]string {
	var out [][]string
	for _, a := range c18Types {
		ca, ka := c18CSOf(a, false)
		who := "r0"
		if a == "tss" {
			who = "tssA"
		}
		for _, kind := range []string{"create", "upgrade", "toggle"} {
			h := []string{"reset", "relayer r0 N0 N1", "relayer tssA N0 N1", "relayer tssB N0 N1", "time " + c18TimeFor(ca) + " 1", "create N0 " + ca + " " + ka,
				"time " + c18TimeFor(ca) + " 200"}
			if a == "tss" {
				h = append(h, "update N0 tssA tss:A")
			} else {
				h = append(h, "update N0 r0 next")
			}
			h = append(h, "status N0")
			targets := []string{"N0"}
			if kind == "create" {
				targets = []string{"N0", "N1"}
			}
			for _, tgt := range targets {
				for _, cs := range append(append([]string{}, c18InvalidCS...), c18UninstallableCS...) {
					h = append(h, kind+" "+tgt+" "+cs+" "+c18KSForDesc(cs))
				}
				for _, b := range c18Types { // valid client state of every type with an unusable consensus state
					cb, kb := c18CSOf(b, a == b)
					for _, ks := range []string{"nil", "unk"} {
						h = append(h, kind+" "+tgt+" "+cb+" "+ks)
					}
					h = append(h, kind+" "+tgt+" nil "+kb, kind+" "+tgt+" unk "+kb)
					if b != "tss" {
						for _, c := range c18Types {
							if c != b {
								_, kc := c18CSOf(c, false)
								h = append(h, kind+" "+tgt+" "+cb+" "+kc)
							}
						}
					}
				}
				for _, ks := range []string{"tm!root", "tm!nvh", "tm!ts"} { // Tendermint consensus states failing ValidateBasic
					h = append(h, kind+" "+tgt+" tm "+ks)
				}
				h = append(h, "status "+tgt)
			}
			h = append(h, "status N0", "update N0 "+who+" "+map[bool]string{true: "tss:B", false: "next"}[a == "tss"], "verify N0 latest", "status N0")
			out = append(out, h)
		}
	}
	// Tendermint consensus states failing their own ValidateBasic (empty root, malformed next-validators hash, zero
	// time), also each in a short history of its own (C18:invalid-tm-consensus-state-accepted — repaired in /repo fafdbf1)
	for _, ks := range []string{"tm!root", "tm!nvh", "tm!ts"} {
		rel := []string{"reset", "relayer r0 N0 N1", "time tm 1"}
		out = append(out, append(append([]string{}, rel...), "create N1 tm "+ks, "status N1"))
		out = append(out, append(append([]string{}, rel...), "create N0 tm tm", "time tm 1", "upgrade N0 tm "+ks, "status N0"))
		out = append(out, append(append([]string{}, rel...), "time bscr0 1", "create N0 bscr0 bscr0", "time tm 1", "toggle N0 tm "+ks, "status N0"))
	}
	return out
}

// (S) several clients of every type side by side, under names that differ by case / are prefixes of one another / use
// every allowed character class; a lifecycle op + use cycle on each in turn. The frame oracle (every other client's
// store byte-identical after every proposal and update) and the restart oracle run throughout.
func c18SideBySide() [][]string {
	all := "N0 Nupper N1 Npfx N2 Nchars Nmin Nmax Ndigits N63"
	pre := []string{"reset", "relayer r0 " + all, "relayer tssA " + all, "relayer tssB " + all,
		"time tm 1", "create N0 tm tm", "create Nupper tmd tm", "time tmr0 1", "create N63 tmr0 tmr0",
		"time bscr0 1", "create N1 bscr0 bscr0", "time bscr1 1", "create Npfx bscr1 bscr1", "time bsc0 1", "create Ndigits bsc0 bsc0",
		"time eth0 1", "create N2 eth0 eth0", "time eth1 1", "create Nchars eth1 eth1",
		"create Nmin tssA tss", "create Nmax tssB tss", "restart"}
	type cl struct{ name, cs string }
	cls := []cl{{"N0", "tm"}, {"Nupper", "tmd"}, {"N63", "tmr0"}, {"N1", "bscr0"}, {"Npfx", "bscr1"}, {"Ndigits", "bsc0"}, {"N2", "eth0"}, {"Nchars", "eth1"}, {"Nmin", "tssA"}, {"Nmax", "tssB"}}
	var out [][]string
	// A: every client is used in turn
	h := append([]string{}, pre...)
	for _, c := range cls {
		who := "r0"
		if strings.HasPrefix(c.cs, "tss") {
			who = c.cs
		}
		h = append(h, "time "+c18TimeFor(c.cs)+" 1")
		h = append(h, c18Use(c.name, c.cs, who)...)
	}
	out = append(out, h)
	// B: upgrades and toggles of some, then everything is used
	h = append([]string{}, pre...)
	h = append(h, "time tm 1", "dry upgrade N0 tm tm", "upgrade N0 tm tm", "time bscr2 1", "upgrade N1 bscr2 bscr2", "time eth1 1", "upgrade N2 eth1 eth1", "upgrade Nmin tssB tss",
		"time tm 1", "dry toggle Npfx tm tm", "toggle Npfx tm tm", "time bscr0 1", "toggle Nupper bscr0 bscr0", "toggle Nchars tssA tss", "time eth0 1", "toggle Nmax eth0 eth0", "restart")
	for _, c := range []cl{{"N0", "tm"}, {"N1", "bscr2"}, {"N2", "eth1"}, {"Nmin", "tssB"}, {"Npfx", "tm"}, {"Nupper", "bscr0"}, {"Nchars", "tssA"}, {"Nmax", "eth0"}, {"N63", "tmr0"}, {"Ndigits", "bsc0"}} {
		who := "r0"
		if strings.HasPrefix(c.cs, "tss") {
			who = c.cs
		}
		h = append(h, "time "+c18TimeFor(c.cs)+" 1")
		h = append(h, c18Use(c.name, c.cs, who)...)
	}
	out = append(out, h)
	// C: the client whose name is a prefix of / differs by case from others is toggled (its store is cleared)
	h = append([]string{}, pre...)
	h = append(h, "time eth0 1", "dry toggle N0 eth0 eth0", "toggle N0 eth0 eth0", "restart")
	for _, c := range []cl{{"N0", "eth0"}, {"Npfx", "bscr1"}, {"Nupper", "tmd"}} {
		h = append(h, "time "+c18TimeFor(c.cs)+" 1")
		h = append(h, c18Use(c.name, c.cs, "r0")...)
	}
	out = append(out, h)
	return out
}

// (B) boundary values: revision numbers ≠ 0 for BSC / ETH heights, heights and epochs at the top of the uint64 range, a
// Tendermint client at revision 2^64-1 / height 2^63; each created, toggled in, upgraded where a second point exists
func c18Boundary() [][]string {
	var out [][]string
	rel := []string{"reset", "relayer r0 N0 N1 Nchars", "relayer tssA N0 N1 Nchars", "relayer tssB N0"}
	for _, cs := range []string{"bscq0", "bscq1", "ethq0", "ethq1", "bscbig", "bscmaxe", "tmbig"} {
		out = append(out, append(append([]string{}, rel...), append([]string{"time " + c18TimeFor(cs) + " 1", "create Nchars " + cs + " " + cs}, c18Use("Nchars", cs, "r0")...)...))
		out = append(out, append(append([]string{}, rel...), append([]string{"time tm 1", "create N0 tssA tss", "time " + c18TimeFor(cs) + " 1", "toggle N0 " + cs + " " + cs}, c18Use("N0", cs, "r0")...)...))
	}
	// upgrades along the chain under a non-zero revision; a revision change by upgrade
	out = append(out, append(append([]string{}, rel...), append([]string{"time bscq0 1", "create N0 bscq0 bscq0", "time bscq0 200", "update N0 r0 next", "update N0 r0 next", "time bscq2 1", "upgrade N0 bscq2 bscq2"}, c18Use("N0", "bscq2", "r0")...)...))
	out = append(out, append(append([]string{}, rel...), append([]string{"time bscr0 1", "create N0 bscr0 bscr0", "time bscq1 1", "upgrade N0 bscq1 bscq1"}, c18Use("N0", "bscq1", "r0")...)...))
	out = append(out, append(append([]string{}, rel...), append([]string{"time ethq0 1", "create N0 ethq0 ethq0", "time ethq0 200", "update N0 r0 next", "time ethq1 1", "upgrade N0 ethq1 ethq1"}, c18Use("N0", "ethq1", "r0")...)...))
	out = append(out, append(append([]string{}, rel...), append([]string{"time eth0 1", "create N0 eth0 eth0", "time ethq1 1", "upgrade N0 ethq1 ethq1"}, c18Use("N0", "ethq1", "r0")...)...))
	// mismatching revisions between client state and consensus state of the same header
	out = append(out, append(append([]string{}, rel...), "time bscq0 1", "create N0 bscq0 bscr0", "status N0", "create N1 ethq0 eth0", "status N1", "restart"))
	return out
}

// Tendermint clients moved to a NEW revision by an upgrade proposal, the block numbers of the new revision starting
// again BELOW (tmw0: 2-3) or continuing near (tmx0: 2-995) those of the old one (1-990 …): late valid headers of the old
// revision with block numbers above and below the new latest block number, new-revision headers, genuine proofs at the
// installed height and at the latest height in between. The latest height must stay the lexicographic maximum.
func c18Revisions() [][]string {
	var out [][]string
	rel := []string{"reset", "relayer r0 N0 N1", "relayer tssA N0 N1", "relayer tssB N0", "time tmv0 120"}
	for _, nw := range []string{"tmw0", "tmx0"} {
		for _, start := range [][]string{{"create N0 tmv0 tmv0"}, {"create N0 tssA tss", "toggle N0 tmv0 tmv0"}} {
			h := append(append([]string{}, rel...), start...)
			h = append(h, "update N0 r0 next", "update N0 r0 next", "update N0 r0 next", "verify N0 latest", "verify N0 installed",
				"dry upgrade N0 "+nw+" "+nw, "upgrade N0 "+nw+" "+nw, "status N0", "verify N0 installed", "verify N0 latest",
				"update N0 r0 oldrev", "status N0", "verify N0 installed", "verify N0 latest",
				"update N0 r0 next", "verify N0 latest", "verify N0 installed",
				"dry update N0 r0 oldrev", "update N0 r0 oldrev", "update N0 r0 next", "restart", "verify N0 installed", "verify N0 latest",
				"update N0 r0 oldrev", "update N0 r0 oldrev", "verify N0 installed", "update N0 r0 next", "verify N0 latest", "update N0 r0 stale", "update N0 r0 forged", "status N0")
			out = append(out, h)
		}
	}
	// the same revision change by toggle (through TSS) instead of upgrade: nothing of revision 1 survives, no late header applies
	out = append(out, append(append([]string{}, rel...), "create N0 tmv0 tmv0", "update N0 r0 next", "toggle N0 tssA tss", "toggle N0 tmw0 tmw0", "verify N0 installed",
		"update N0 r0 oldrev", "update N0 r0 next", "verify N0 latest", "verify N0 installed"))
	return out
}

// the chain-name dimension reaches the PROOF PATH: a Tendermint client of the live counterparty (and of a synthetic chain)
// under a name of every character class IsValidID allows — created with a time delay (too early / exactly at / after the
// delay), updated, upgraded, toggled in — and genuine ICS-23 proofs of commitments/<name>/<self>/… and
// acks/<self>/<name>/… at the installed and at the latest height
func c18NameClasses() [][]string {
	var out [][]string
	for _, nm := range []string{"Nc+", "Nc.", "Nc_", "Nc#", "Nc[", "Nc]", "Nc<", "Nc>", "Nc-", "NcU", "Ncl", "Ndigits", "Nchars", "Nmax"} {
		rel := []string{"reset", "relayer r0 " + nm, "relayer tssA " + nm, "time tm 1"}
		h := append(append([]string{}, rel...), "create "+nm+" tmd tm", "status "+nm, "verify "+nm+" installed", "time now 19", "verify "+nm+" installed",
			"time now 1", "timens -1", "verify "+nm+" installed", "timens 1", "verify "+nm+" installed", "verify "+nm+" latest",
			"time tm 30", "update "+nm+" r0 next", "time now 25", "verify "+nm+" latest", "verify "+nm+" installed", "restart",
			"time tm 1", "upgrade "+nm+" tm tm", "verify "+nm+" installed", "verify "+nm+" latest")
		out = append(out, h)
		h = append(append([]string{}, rel...), "create "+nm+" tssA tss", "time tm 1", "toggle "+nm+" tm tm", "verify "+nm+" installed",
			"time tmr0 60", "toggle "+nm+" tssA tss", "toggle "+nm+" tmr0 tmr0", "verify "+nm+" installed", "update "+nm+" r0 next", "verify "+nm+" latest", "verify "+nm+" installed")
		out = append(out, h)
	}
	return out
}

// chain-id shapes of Tendermint counterparties (name part containing the text of a revision, digit-count changes, many
// number segments, revision 0, large revisions, ids not in revision format): create at revision r, updates, upgrade to
// r+1, then late valid headers of revision r and headers of r+1 in turn; and the three helpers on each id directly
func c18ChainIDs() [][]string {
	var out [][]string
	revs := []string{"0", "1", "2", "9", "10", "20", "2147483648", "4294967296", "9223372036854775807", "9223372036854775808", "18446744073709551615"}
	for i, k := range c18IDClasses {
		a, b := "tmi"+c18IdxChars[i:i+1]+"a", "tmi"+c18IdxChars[i:i+1]+"b"
		h := []string{"reset", "relayer r0 N0 N1", "time " + a + " 120", "create N0 " + a + " " + a, "update N0 r0 next", "update N0 r0 next", "verify N0 latest",
			"upgrade N0 " + b + " " + b, "status N0", "verify N0 installed", "update N0 r0 oldrev", "update N0 r0 next", "verify N0 latest", "update N0 r0 oldrev",
			"restart", "update N0 r0 next", "update N0 r0 oldrev", "verify N0 installed", "verify N0 latest", "status N0"}
		for _, id := range []string{k.oldID, k.newID} {
			for _, rv := range revs {
				h = append(h, "chainid "+id+" "+rv)
			}
		}
		out = append(out, h)
	}
	h := []string{"reset"}
	for _, id := range []string{"a", "a-", "-1", "a--1", "a-01", "a-0", "a-1x", "a-1-", "a1", "1-1", "a-b-c", "x-18446744073709551615", "x-18446744073709551616", "x-99999999999999999999", "-", "--", "a-1-1-1", "teleport_9000-10"} {
		for _, rv := range []string{"0", "1", "11", "9223372036854775808"} {
			h = append(h, "chainid "+id+" "+rv)
		}
	}
	return append(out, h)
}

// header-shape classes of Tendermint counterparties: app hashes of 1, 8, 20, 31, 33, 64 bytes (32 everywhere else), empty
// data / evidence / last-results hashes — created, updated, upgraded to the next revision, toggled in; every update goes
// through MsgUpdateClient.ValidateBasic and then the msg server. Plus the stateless stage alone on a grid of shapes.
func c18HeaderShapes() [][]string {
	var out [][]string
	for i := range c18ShapeClasses {
		ix := c18IdxChars[len(c18IDClasses)+i : len(c18IDClasses)+i+1]
		a, b := "tmi"+ix+"a", "tmi"+ix+"b"
		out = append(out, []string{"reset", "relayer r0 N0 N1", "relayer tssA N1", "time " + a + " 120", "create N0 " + a + " " + a, "status N0", "update N0 r0 next", "dry update N0 r0 next", "update N0 r0 next",
			"upgrade N0 " + b + " " + b, "status N0", "update N0 r0 oldrev", "update N0 r0 next", "restart", "update N0 r0 next", "update N0 r0 forged", "status N0",
			"create N1 tssA tss", "toggle N1 " + a + " " + a, "update N1 r0 next", "update N1 r0 next", "status N1"})
	}
	h := []string{"reset"}
	for _, al := range []int{0, 1, 8, 20, 31, 32, 33, 64, 1000} {
		h = append(h, fmt.Sprintf("vbshape %d 32 32 32 20", al), fmt.Sprintf("vbshape %d 0 0 0 20", al))
	}
	for _, x := range []string{"32 5 32 32 20", "32 32 31 32 20", "32 32 32 33 20", "32 32 32 32 19", "32 32 32 32 21", "32 32 32 32 0", "8 0 32 0 20", "64 32 0 32 20"} {
		h = append(h, "vbshape "+x)
	}
	return append(out, h)
}

// (D) two proposals about the same client decided in the same block, executed one after the other in both orders
// (each passed ValidateBasic at its submission, before either ran); and two creates of the same name
func c18InFlight() [][]string {
	var out [][]string
	rel := []string{"reset", "relayer r0 N0 N1", "relayer tssA N0 N1", "relayer tssB N0 N1"}
	for _, a := range c18Types {
		ca, ka := c18CSOf(a, false)
		ca2, ka2 := c18CSOf(a, true)
		for _, b := range c18Types {
			if a == b {
				continue
			}
			cb, kb := c18CSOf(b, false)
			cb2, kb2 := c18CSOf(b, true)
			who := map[bool]string{true: "tssA", false: "r0"}
			pre := append(append([]string{}, rel...), "time "+c18TimeFor(ca)+" 1", "create N0 "+ca+" "+ka, "time "+c18TimeFor(cb)+" 1")
			// toggle to b, then the upgrade (written for b) of the same block
			h := append(append([]string{}, pre...), "toggle N0 "+cb+" "+kb, "upgrade N0 "+cb2+" "+kb2, "status N0")
			out = append(out, append(h, c18Use("N0", cb2, who[b == "tss"])...))
			// upgrade of a, then the toggle to b
			h = append(append([]string{}, pre...), "upgrade N0 "+ca2+" "+ka2, "toggle N0 "+cb+" "+kb, "status N0")
			out = append(out, append(h, c18Use("N0", cb, who[b == "tss"])...))
			// toggle to b first: the upgrade written for a must now fail and change nothing
			h = append(append([]string{}, pre...), "toggle N0 "+cb+" "+kb, "upgrade N0 "+ca2+" "+ka2, "status N0")
			out = append(out, append(h, c18Use("N0", cb, who[b == "tss"])...))
			// two creates of one name, both orders: the second fails and changes nothing
			out = append(out, append(append([]string{}, rel...), "time "+c18TimeFor(ca)+" 1", "create N1 "+ca+" "+ka, "create N1 "+cb+" "+kb, "status N1"))
		}
	}
	return out
}

func c18Matrix(pow bool) [][]string {
	var out [][]string
	rel := []string{"reset", "relayer r0 N0 N1", "relayer tssA N0", "relayer tssB N0"}
	// ETH with the real ethash verification (chain id 1): create + updates, and toggled in from TSS
	out = append(out, append(append([]string{}, rel...), append([]string{"time eth0 1", "create N0 eth0p eth0"}, c18Use("N0", "eth0p", "r0")...)...))
	if pow {
		out = append(out, append(append([]string{}, rel...), append([]string{"time tm 1", "create N0 tssA tss", "time eth1 1", "toggle N0 eth1p eth1"}, c18Use("N0", "eth1p", "r0")...)...))
		out = append(out, append(append([]string{}, rel...), append([]string{"time eth0 1", "create N0 eth0p eth0", "time eth1 1", "upgrade N0 eth1p eth1"}, c18Use("N0", "eth1p", "r0")...)...))
	}
	// synthetic Tendermint chain with a validator set changing every block: created, toggled in, upgraded along the chain
	out = append(out, append(append([]string{}, rel...), append([]string{"time tmr0 1", "create N0 tmr0 tmr0"}, c18Use("N0", "tmr0", "r0")...)...))
	out = append(out, append(append([]string{}, rel...), append([]string{"time tm 1", "create N0 tssA tss", "time tmr0 1", "toggle N0 tmr0 tmr0"}, c18Use("N0", "tmr0", "r0")...)...))
	out = append(out, append(append([]string{}, rel...), append([]string{"time bscr0 1", "create N0 bscr0 bscr0", "time tmr1 1", "toggle N0 tmr1 tmr1"}, c18Use("N0", "tmr1", "r0")...)...))
	out = append(out, append(append([]string{}, rel...), append([]string{"time tmr0 1", "create N0 tmr0 tmr0", "time tmr0 60", "update N0 r0 next", "time tmr1 1", "upgrade N0 tmr1 tmr1"}, c18Use("N0", "tmr1", "r0")...)...))
	// BSC main-net testdata (the announced set equals the installed one there): create, upgrade, toggled in and out
	out = append(out, append(append([]string{}, rel...), append([]string{"time bsc0 1", "create N0 bsc0 bsc0"}, c18Use("N0", "bsc0", "r0")...)...))
	out = append(out, append(append([]string{}, rel...), append([]string{"time bsc0 1", "create N0 bsc0 bsc0", "time bsc1 1", "upgrade N0 bsc1 bsc1"}, c18Use("N0", "bsc1", "r0")...)...))
	out = append(out, append(append([]string{}, rel...), append([]string{"time tm 1", "create N0 tssA tss", "time bsc0 1", "toggle N0 bsc0 bsc0"}, c18Use("N0", "bsc0", "r0")...)...))
	out = append(out, append(append([]string{}, rel...), append([]string{"time bscr0 1", "create N0 bscr0 bscr0", "time bsc0 1", "upgrade N0 bsc0 bsc0"}, c18Use("N0", "bsc0", "r0")...)...))
	// generated chain: the third install point, upgrades along the chain after some updates
	out = append(out, append(append([]string{}, rel...), append([]string{"time bscr2 1", "create N0 bscr2 bscr2"}, c18Use("N0", "bscr2", "r0")...)...))
	out = append(out, append(append([]string{}, rel...), append([]string{"time bscr0 1", "create N0 bscr0 bscr0", "time bscr0 200", "update N0 r0 next", "update N0 r0 next", "update N0 r0 next", "time bscr2 1", "upgrade N0 bscr2 bscr2"}, c18Use("N0", "bscr2", "r0")...)...))
	out = append(out, append(append([]string{}, rel...), "time bscr0 1", "create N0 bscr!stale bscr0", "status N0"))
	for _, a := range c18Types { // a client under the chain's own name is never installed
		ca, ka := c18CSOf(a, false)
		out = append(out, append(append([]string{}, rel...), "time "+c18TimeFor(ca)+" 1", "create Nself "+ca+" "+ka, "status Nself", "upgrade Nself "+ca+" "+ka, "toggle Nself "+ca+" "+ka))
	}
	for _, a := range c18Types {
		ca, ka := c18CSOf(a, false)
		pre := []string{"reset", "relayer r0 N0 N1", "relayer tssA N0", "relayer tssB N0", "time " + c18TimeFor(ca) + " 1", "create N0 " + ca + " " + ka}
		out = append(out, append(append([]string{}, pre...), c18Use("N0", ca, "r0")...))
		out = append(out, append(append([]string{}, pre[:len(pre)-1]...), append([]string{"create N0 tmd tm"}, c18Use("N0", "tmd", "r0")...)...))
		for _, b := range c18Types {
			cb, kb := c18CSOf(b, a == b)
			for _, kind := range []string{"toggle", "upgrade"} {
				h := append([]string{}, pre...)
				if a == "tm" { // a history before the change: the old client has several consensus states
					h = append(h, "update N0 r0 next", "update N0 r0 next")
				}
				h = append(h, "time "+c18TimeFor(cb)+" 1", "dry "+kind+" N0 "+cb+" "+kb, "status N0", kind+" N0 "+cb+" "+kb)
				h = append(h, c18Use("N0", cb, "r0")...)
				out = append(out, h)
			}
			if a == b {
				continue
			}
			// two toggles in a row (a -> b -> c): what the first replaced client left behind must not disturb the third
			for _, c := range c18Types {
				if c == b {
					continue
				}
				cc, kc := c18CSOf(c, c == a)
				h := append([]string{}, pre...)
				h = append(h, "time "+c18TimeFor(cb)+" 1", "toggle N0 "+cb+" "+kb, "time "+c18TimeFor(cc)+" 1", "toggle N0 "+cc+" "+kc)
				h = append(h, c18Use("N0", cc, "r0")...)
				out = append(out, h)
			}
		}
	}
	return out
}

func (w *c18World) randomHistory(r *Rec) []string {
	rng := r.Rng
	names := []string{"N0", "N0", "N0", "N1", "N2", "Nmin", "Nmax", "Nupper", "Npfx", "Nchars"}
	bad := []string{"Nshort", "Nslash", "Nlong", "Nspace", "Nblank", "Nself", "Nself", "Nuni", "Ntab"}
	goodCS := []string{"tm", "tmd", "tmr0", "tmr1", "bsc0", "bsc1", "bscr0", "bscr1", "bscr2", "eth0", "eth1", "tssA", "tssB"}
	badCS := []string{"tm!inv", "bsc!epoch", "bsc!seal", "bsc!inv", "bsc!h0", "bsc!noval", "bscr!stale", "tm!h0", "tm!tl0", "tm!specs", "bscr!epoch0", "bscr!chainbig", "bscr!mix", "eth!gascap", "eth!diff0", "tss!empty", "unk", "eth!inv", "eth!h0", "tss!inv", "nil"}
	allKS := []string{"tm", "bsc0", "bsc1", "bscr0", "bscr1", "eth0", "eth1", "tss", "nil"}
	ksFor := func(cs string) string {
		switch {
		case cs == "tmr0" || cs == "tmr1":
			return cs
		case strings.HasPrefix(cs, "tm"):
			return "tm"
		case cs == "bscr0" || cs == "bscr1" || cs == "bscr2":
			return cs
		case strings.HasPrefix(cs, "bscr"):
			return "bscr0"
		case strings.HasPrefix(cs, "bsc1"):
			return "bsc1"
		case strings.HasPrefix(cs, "bsc"):
			return "bsc0"
		case strings.HasPrefix(cs, "eth1"):
			return "eth1"
		case strings.HasPrefix(cs, "eth"):
			return "eth0"
		case strings.HasPrefix(cs, "tss"):
			return "tss"
		}
		return allKS[rng.Intn(len(allKS))]
	}
	whos := []string{"r0", "r0", "r0", "r1", "tssA", "tssB", "bad"}
	h := []string{"reset"}
	if rng.Intn(8) > 0 {
		h = append(h, "relayer r0 N0 N1 N2 Nmin Nmax Nupper Npfx Nchars", "relayer tssA N0 N1 Nupper", "relayer tssB N0 Npfx")
	}
	installed := map[string]string{}
	steps := 4 + rng.Intn(12)
	for s := 0; s < steps; s++ {
		name := names[rng.Intn(len(names))]
		if rng.Intn(12) == 0 {
			name = bad[rng.Intn(len(bad))]
		}
		x := rng.Intn(22)
		if x >= 8 && len(installed) > 0 && rng.Intn(6) > 0 { // use-ops mostly address installed clients
			var ins []string
			for _, nm := range names {
				if installed[nm] != "" {
					ins = append(ins, nm)
				}
			}
			if len(ins) > 0 {
				name = ins[rng.Intn(len(ins))]
			}
		}
		switch {
		case x < 8: // lifecycle proposal
			kind := []string{"create", "upgrade", "toggle"}[rng.Intn(3)]
			if installed[name] == "" && rng.Intn(4) > 0 {
				kind = "create"
			}
			cs := goodCS[rng.Intn(len(goodCS))]
			if cur := installed[name]; cur != "" && rng.Intn(3) > 0 {
				// make the kind fit the type relation most of the time
				same := cur[:2] == cs[:2]
				if kind == "upgrade" && !same {
					cs = cur
					if rng.Intn(2) == 0 && (strings.HasPrefix(cur, "bsc") || strings.HasPrefix(cur, "eth")) {
						cs = cur[:3] + "1"
						if strings.HasPrefix(cur, "bscr") {
							cs = []string{"bscr1", "bscr2"}[rng.Intn(2)]
						}
					}
				}
				if kind == "toggle" && same {
					kind = "upgrade"
				}
			}
			if rng.Intn(7) == 0 {
				cs = badCS[rng.Intn(len(badCS))]
			}
			ks := ksFor(cs)
			if rng.Intn(9) == 0 {
				ks = allKS[rng.Intn(len(allKS))]
			}
			switch rng.Intn(10) {
			case 0: // expired at installation
				h = append(h, fmt.Sprintf("time %s %d", c18TimeFor(cs), 3000000))
			case 1: // exactly at / around the trusting period boundary
				off := int64(1000000)
				if strings.HasPrefix(cs, "tm") {
					off = int64(xibctesting.TrustingPeriod / time.Second)
				}
				h = append(h, fmt.Sprintf("time %s %d", c18TimeFor(cs), off+int64(rng.Intn(3))-1))
			default:
				h = append(h, fmt.Sprintf("time %s %d", c18TimeFor(cs), rng.Intn(40)))
			}
			h = append(h, kind+" "+name+" "+cs+" "+ks)
			if rng.Intn(3) > 0 {
				h = append(h, "status "+name)
			}
			// we do not know here whether it was accepted; remember optimistically (only steers the generator)
			if !strings.Contains(cs, "!") && cs != "nil" && !strings.HasPrefix(name, "Ns") && !strings.HasPrefix(name, "Nl") && !strings.HasPrefix(name, "Nb") {
				if kind == "create" && installed[name] == "" || kind == "upgrade" && installed[name] != "" && installed[name][:2] == cs[:2] || kind == "toggle" && installed[name] != "" && installed[name][:2] != cs[:2] {
					installed[name] = cs
				}
			}
		case x < 13: // update
			who := whos[rng.Intn(len(whos))]
			how := []string{"next", "next", "next", "next", "stale", "forged", "wrongtype", "tss:A", "tss:B", "tss!inv"}[rng.Intn(10)]
			if cur := installed[name]; strings.HasPrefix(cur, "tss") && rng.Intn(3) > 0 {
				who = cur
				how = []string{"tss:A", "tss:B", "next"}[rng.Intn(3)]
			}
			if rng.Intn(3) > 0 {
				h = append(h, fmt.Sprintf("time %s %d", c18TimeFor(installed[name]), rng.Intn(30)))
			}
			h = append(h, "update "+name+" "+who+" "+how)
		case x < 15:
			h = append(h, "status "+name)
		case x < 18:
			h = append(h, "verify "+name+" "+[]string{"latest", "latest", "bad", "hi", "nocons", "addr:A", "addr:B"}[rng.Intn(7)])
		case x < 19:
			k := rng.Intn(4)
			var ns []string
			for i := 0; i < k; i++ {
				ns = append(ns, names[rng.Intn(len(names))])
			}
			if rng.Intn(4) == 0 {
				ns = append(ns, bad[rng.Intn(len(bad))])
			}
			if rng.Intn(4) == 0 {
				h = append(h, strings.TrimSpace(fmt.Sprintf("relayerx %s %d %s", whos[rng.Intn(len(whos))], rng.Intn(3), strings.Join(ns, " "))))
			} else {
				h = append(h, strings.TrimSpace("relayer "+whos[rng.Intn(len(whos))]+" "+strings.Join(ns, " ")))
			}
		case x < 21: // trusting-period boundary of the installed client, then status and an update attempt
			tp := int64(1000000)
			if strings.HasPrefix(installed[name], "tm") {
				tp = int64(xibctesting.TrustingPeriod / time.Second)
			}
			h = append(h, fmt.Sprintf("time cons:%s %d", name, tp+int64(rng.Intn(3))-1), "status "+name, "update "+name+" r0 next",
				fmt.Sprintf("time cons:%s %d", name, 20+rng.Intn(30)))
		default:
			switch rng.Intn(5) {
			case 0:
				h = append(h, "restart")
				continue
			case 1: // the last lifecycle / update op again, on a dropped context
				for j := len(h) - 1; j > 0; j-- {
					f0 := strings.Fields(h[j])[0]
					if f0 == "create" || f0 == "upgrade" || f0 == "toggle" || f0 == "update" {
						h = append(h, "dry "+h[j])
						break
					}
				}
				continue
			case 2:
				h = append(h, fmt.Sprintf("timens %d", []int{-1, 1, 2, -2}[rng.Intn(4)]))
				continue
			}
			if rng.Intn(2) == 0 {
				h = append(h, fmt.Sprintf("time now %d", []int{1, 19, 20, 21, 100}[rng.Intn(5)]))
			} else {
				h = append(h, fmt.Sprintf("time %s %d", []string{"tm", "bsc0", "eth0"}[rng.Intn(3)], rng.Intn(100)))
			}
		}
	}
	return h
}

func TestC18(t *testing.T) {
	r := NewRec(t, "C18")
	defer r.Close()
	w := newC18World(t)
	run := func(h []string) {
		for _, op := range h {
			conc, out := w.apply(r, op)
			r.Op(conc, out)
		}
	}
	if ops := replayOps(t); ops != nil {
		run(ops)
		return
	}
	for _, h := range corpusOps("C18") {
		run(append([]string{"reset"}, h...))
	}
	if r.Shard == 0 || r.Tier == "quick" {
		for _, h := range c18Matrix(r.Tier == "thorough") {
			run(h)
		}
		for _, h := range c18MixedMatrix() {
			run(h)
		}
		for _, h := range c18InvalidMatrix() {
			run(h)
		}
		for _, h := range c18SideBySide() {
			run(h)
		}
		for _, h := range c18InFlight() {
			run(h)
		}
		for _, h := range c18Boundary() {
			run(h)
		}
		for _, h := range c18Revisions() {
			run(h)
		}
		for _, h := range c18NameClasses() {
			run(h)
		}
		for _, h := range c18ChainIDs() {
			run(h)
		}
		for _, h := range c18HeaderShapes() {
			run(h)
		}
	}
	hist := 300
	if r.Tier == "thorough" {
		hist = 4000
	}
	if n := envInt("VERIF_N", -1); n >= 0 {
		hist = int(n)
	}
	for i := 0; i < hist; i++ {
		run(w.randomHistory(r))
	}
}
