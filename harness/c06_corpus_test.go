//go:build c06

package verifharness

// Directed C06 histories; `VERIF_WRITE_CORPUS=1 go test -run TestC06WriteCorpus` regenerates corpus/C06/*.ops
// (the files are committed; they are replayed first by every run of TestC06).

import (
	"fmt"
	"os"
	"path/filepath"
	"strings"
	"testing"
)

func c06CorpusScripts() map[string][]string {
	A := c06Accts
	S, T := hxs(c06S), hxs(c06T)
	tssa := hxs("tss-a")
	reg := func(addr string, chains, addrs []string) string {
		p := []string{"reg", "1", hxs(addr), fmt.Sprint(len(chains))}
		for _, c := range chains {
			p = append(p, hxs(c))
		}
		p = append(p, fmt.Sprint(len(addrs)))
		for _, c := range addrs {
			p = append(p, hxs(c))
		}
		return strings.Join(p, " ")
	}
	sg := func(a c06Acct) string { return hxs(a.lower) + " " + hxs(a.lower) }
	up := func(a c06Acct) string { return hxs(a.upper) + " " + hxs(a.lower) }
	recv := func(s, src string, seq int, proof int) string {
		return fmt.Sprintf("recv %s %s %s %d 1 %d", s, src, T, seq, proof)
	}
	ack := func(s, dst string, seq int, proof int, rl string) string {
		return fmt.Sprintf("ack %s %s %s %d 1 1 %d %s 1 %s", s, T, dst, seq, proof, hxs(rl), c06B(c06EvmOK(uint64(seq))))
	}
	head := []string{"reset " + T, "mkclient " + S + " oth"}
	return map[string][]string{
		// a re-registration overwrites: the relayer loses the chain it is no longer listed for
		"reregistration-loses-chain": append(append([]string{}, head...),
			reg(A[0].lower, []string{c06S}, []string{"0xAbCdEf0000000000000000000000000000000001"}),
			recv(sg(A[0]), S, 1, 1),
			"upd "+sg(A[0])+" "+S+" ? none",
			reg(A[0].lower, []string{"tss-a", "nocl"}, []string{"x", "y"}),
			recv(sg(A[0]), S, 2, 1),
			"upd "+sg(A[0])+" "+S+" ? none",
			reg(A[1].lower, []string{"nocl", c06S}, []string{"x", "relayer-X"}),
			recv(sg(A[1]), S, 2, 1),
			recv(sg(A[1]), S, 2, 1), // replay
			recv(sg(A[2]), S, 3, 1), // never registered
		),
		// TSS-secured chain: registered relayers that are not the TSS account are refused; spelling matters
		"tss-only-the-tss-account": append(append([]string{}, head...),
			"mkclient "+tssa+" tss "+hxs(A[1].lower),
			reg(A[1].lower, []string{"tss-a"}, []string{"relayer-x"}),
			reg(A[2].lower, []string{"tss-a"}, []string{"relayer-X"}),
			reg(A[1].upper, []string{"tss-a"}, []string{"up"}),
			recv(sg(A[2]), tssa, 1, 1),
			recv(up(A[1]), tssa, 1, 0),
			recv(sg(A[1]), tssa, 1, 0),
			"mkcommit "+T+" "+tssa+" 1",
			ack(sg(A[2]), tssa, 1, 1, "relayer-x"),
			ack(sg(A[1]), tssa, 1, 0, "RELAYER-X"),
			"upd "+sg(A[2])+" "+tssa+" ? "+hxs(A[2].lower),
			"upd "+sg(A[1])+" "+tssa+" ? "+hxs(A[2].lower),
		),
		// first matching chain in the registered list; payout resolves case-insensitively in store order
		"first-match-and-case-fold": append(append([]string{}, head...),
			reg(A[3].lower, []string{c06S, "nocl", c06S}, []string{"0xabcdef0000000000000000000000000000000002", "n", "0xABCDEF0000000000000000000000000000000001"}),
			reg(A[0].lower, []string{c06S}, []string{"0xAbCdEf0000000000000000000000000000000001"}),
			recv(sg(A[3]), S, 1, 1),
			recv(sg(A[0]), S, 2, 1),
			"q "+S+" "+hxs(A[3].lower)+" "+hxs("0xabcdef0000000000000000000000000000000001"),
			"q "+S+" "+hxs(A[0].upper)+" "+hxs("0xABCDEF0000000000000000000000000000000002"),
			"mkcommit "+T+" "+S+" 1",
			ack(sg(A[5]), S, 1, 1, c06PoolAckRelayer(1)),
		),
		// several chains in NON-sorted order with different addresses: Chains[i] / Addresses[i] stay paired
		// (an implementation that sorts the chain list but not the address list pays the bsc address here)
		"multichain-unsorted-registration": append(append([]string{}, head...),
			reg(A[0].lower, []string{c06S, "bsc"}, []string{"addr-on-teleport-11", "addr-on-bsc"}),
			recv(sg(A[0]), S, 1, 1),
			"q "+S+" "+hxs(A[0].lower)+" "+hxs("ADDR-ON-TELEPORT-11"),
			"q "+hxs("bsc")+" "+hxs(A[0].lower)+" "+hxs("addr-on-bsc"),
			reg(A[4].lower, []string{"tss-a", "nocl", c06S}, []string{"0xAbCdEf0000000000000000000000000000000001", "n", "relayer-X"}),
			recv(sg(A[4]), S, 2, 1),
			"mkcommit "+T+" "+S+" 4",
			ack(sg(A[5]), S, 4, 1, c06PoolAckRelayer(4)),
		),
		// TSS-secured chain: the message's own proof field is irrelevant — writing the (public) TSS address into it
		// must not let another account through (recv from a registered relayer, ack from anybody)
		"tss-proof-field-is-tss-address": append(append([]string{}, head...),
			"mkclient "+tssa+" tss "+hxs(A[1].lower),
			reg(A[1].lower, []string{"tss-a"}, []string{"0xfee0000000000000000000000000000000000003"}),
			reg(A[2].lower, []string{"tss-a"}, []string{"relayer-X"}),
			recv(sg(A[2]), tssa, 1, 1)+" pf="+hxs(A[1].lower),
			recv(sg(A[3]), tssa, 1, 1)+" pf="+hxs(A[1].lower),
			recv(sg(A[2]), tssa, 1, 0)+" pf="+hxs(A[2].lower),
			recv(sg(A[1]), tssa, 1, 0)+" pf=-",
			recv(sg(A[1]), tssa, 2, 0)+" pf=deadbeef",
			"mkcommit "+T+" "+tssa+" 1",
			ack(sg(A[3]), tssa, 1, 1, "0xfee0000000000000000000000000000000000003")+" pf="+hxs(A[1].lower),
			ack(sg(A[2]), tssa, 1, 1, "0xfee0000000000000000000000000000000000003")+" pf="+hxs(A[1].lower),
			ack(sg(A[3]), tssa, 1, 1, "0xfee0000000000000000000000000000000000003")+" pf=-",
			ack(sg(A[1]), tssa, 1, 0, "0xFEE0000000000000000000000000000000000003")+" pf="+hxs(A[3].lower),
		),
		// chain names differing only in letter case are different chains: registered for TELEPORT_9000-11 (a TSS
		// client here) confers nothing for teleport_9000-11 (the Tendermint client) — before and after being moved
		"case-sibling-chain-names": append(append([]string{}, head...),
			"mkclient "+hxs(c06SUp)+" tss "+hxs(A[2].lower),
			reg(A[0].lower, []string{c06SUp}, []string{"0xabcdef0000000000000000000000000000000001"}),
			"q "+S+" "+hxs(A[0].lower)+" "+hxs("0xABCDEF0000000000000000000000000000000001"),
			"upd "+sg(A[0])+" "+S+" ? none",
			recv(sg(A[0]), S, 1, 1),
			"mkcommit "+T+" "+S+" 1",
			ack(sg(A[0]), S, 1, 1, c06PoolAckRelayer(1)),
			reg(A[0].lower, []string{c06S}, []string{"moved"}),
			recv(sg(A[0]), S, 1, 1),
			"upd "+sg(A[0])+" "+S+" ? none",
			reg(A[0].lower, []string{"Tss-A", c06SUp}, []string{"a", "b"}),
			recv(sg(A[0]), S, 2, 1),
			"upd "+sg(A[0])+" "+S+" ? none",
			recv(sg(A[0]), hxs(c06SUp), 1, 1),
		),
		// every branch of RecvPacket that writes an acknowledgement records the REGISTERED counterparty address:
		// callback ok (kind 1), callback fails at EVM level (2 undecodable call data, 4 failing post-tx hook),
		// callback returns a code (3), destination chain without client (own-name client, below governance)
		"ack-classes-fee-recipient": append(append([]string{}, head...),
			"mkclient "+tssa+" tss "+hxs(A[1].lower),
			"mkclient "+T+" tss "+hxs(A[1].lower),
			reg(A[1].lower, []string{"nocl", "tss-a", c06T}, []string{"wrong-chain-address", "0xfee0000000000000000000000000000000000003", "own-name-address"}),
			fmt.Sprintf("recv %s %s %s 1 1 0 ?", sg(A[1]), tssa, T),
			fmt.Sprintf("recv %s %s %s 2 2 0 ?", sg(A[1]), tssa, T),
			fmt.Sprintf("recv %s %s %s 3 3 0 ?", sg(A[1]), tssa, T),
			fmt.Sprintf("recv %s %s %s 4 4 0 ?", sg(A[1]), tssa, T),
			fmt.Sprintf("recv %s %s %s 501 2 0 ?", sg(A[1]), T, hxs("nocl")),
			fmt.Sprintf("recv %s %s %s 502 1 0 ?", sg(A[1]), T, tssa),
		),
		// a re-registration with the SAME address list and another chain list of the same length is a new registration
		"reregistration-same-addresses-other-chains": append(append([]string{}, head...),
			"mkclient "+tssa+" tss "+hxs(A[0].lower),
			reg(A[0].lower, []string{c06S, "nocl"}, []string{"addr-one", "addr-two"}),
			recv(sg(A[0]), S, 1, 1),
			reg(A[0].lower, []string{"tss-a", c06S}, []string{"addr-one", "addr-two"}),
			"q "+S+" "+hxs(A[0].lower)+" "+hxs("ADDR-TWO"),
			"q "+hxs("nocl")+" "+hxs(A[0].lower)+" "+hxs("addr-two"),
			recv(sg(A[0]), S, 2, 1),
			recv(sg(A[0]), tssa, 1, 0),
			reg(A[0].lower, []string{"nocl", "tss-b"}, []string{"addr-one", "addr-two"}),
			recv(sg(A[0]), S, 3, 1),
			"upd "+sg(A[0])+" "+S+" ? none",
			recv(sg(A[0]), tssa, 2, 0),
		),
		// a registration that only ran on a DISCARDED context branch confers nothing (dropped dry run, failed multi-step
		// execution, a real MsgSubmitProposal with an empty deposit that never passes); a committed one does
		"discarded-registration": append(append([]string{}, head...),
			"mkclient "+tssa+" tss "+hxs(A[1].lower),
			reg(A[0].lower, []string{c06S}, []string{"addr-committed"}),
			"regdry drop 1 "+hxs(A[2].lower)+" 1 "+S+" 1 "+hxs("dry-only-address"),
			"q "+S+" "+hxs(A[2].lower)+" "+hxs("DRY-ONLY-ADDRESS"),
			"upd "+sg(A[2])+" "+S+" ? none",
			recv(sg(A[2]), S, 1, 1),
			"regdry gov 1 "+hxs(A[1].lower)+" 1 "+tssa+" 1 "+hxs("dry-only-address"),
			recv(sg(A[1]), tssa, 1, 0),
			"regdry fail 1 "+hxs(A[0].lower)+" 1 "+hxs("nocl")+" 1 "+hxs("moved-dry"),
			"q "+S+" "+hxs(A[0].lower)+" "+hxs("addr-committed"),
			recv(sg(A[0]), S, 1, 1),
			"upd "+sg(A[0])+" "+S+" ? none",
			"regdry gov 1 "+hxs(A[3].lower)+" 2 "+S+" "+tssa+" 1 "+hxs("too-short"),
			reg(A[2].lower, []string{c06S}, []string{"now-committed"}),
			recv(sg(A[2]), S, 2, 1),
		),
		// restart (module-level, then whole application) with two relayers of the same chain and a third one elsewhere:
		// afterwards everybody has exactly the chains and addresses of his own registration
		"restart-several-relayers": append(append([]string{}, head...),
			"mkclient "+hxs(c06S2)+" oth",
			reg(A[0].lower, []string{c06S, "nocl"}, []string{"a-on-s", "a-on-nocl"}),
			reg(A[1].lower, []string{c06S}, []string{"b-on-s"}),
			reg(A[2].lower, []string{c06S2}, []string{"c-on-s2"}),
			"restart module",
			"q "+S+" "+hxs(A[1].lower)+" "+hxs("B-ON-S"),
			"q "+hxs("nocl")+" "+hxs(A[1].lower)+" "+hxs("a-on-nocl"),
			"q "+S+" "+hxs(A[2].lower)+" "+hxs("a-on-s"),
			recv(sg(A[1]), S, 1, 1),
			"upd "+sg(A[2])+" "+S+" ? none",
			recv(sg(A[2]), S, 2, 1),
			"restart app",
			recv(sg(A[2]), hxs(c06S2), 1, 1),
			recv(sg(A[0]), S, 2, 1),
			"upd "+sg(A[1])+" "+hxs(c06S2)+" ? none",
			"upd "+sg(A[2])+" "+hxs(c06S2)+" ? none",
		),
		// the contract level: call data inside a relayed packet and through `execute`
		"evm-nested-paths": {
			"evmreset",
			"addr packetModule 7426afc489d0eef99a0b438def226ad139f75235",
			"addr aggregateModule ee3c65b5c7f4dd0ebed8bf046725e273e3eeed3c",
			"addr packetContract 0000000000000000000000000000000020000001",
			"addr endpointContract 0000000000000000000000000000000020000002",
			"addr executeContract 0000000000000000000000000000000020000003",
			"whoami packet",
			"call packet setSequence packet",
			"call packet setChainName execute " + hx(c06EOA.addr),
			"call endpoint bindToken packet",
			"call endpoint onRecvPacket contract " + hx(c06EOA.addr) + " " + hx(c06SwallowAddr.Bytes()),
			"call packet sendPacket module 0000000000000000000000000000000020000003",
			"call packet sendPacket module 0000000000000000000000000000000020000002",
			"call packet setChainName delegatecall " + hx(c06EOA.addr) + " " + hx(c06DelegateAddr.Bytes()),
			"call endpoint bindToken callcode " + hx(c06EOA.addr) + " " + hx(c06CallcodeAddr.Bytes()),
			"call packet setAckStatus staticcall " + hx(c06EOA.addr) + " " + hx(c06StaticAddr.Bytes()),
			"emit " + hx(c06EOA.addr) + " " + hx(c06EmitterAddr.Bytes()),
			"emit packet " + hx(c06EmitterAddr.Bytes()),
			"emitmix " + hx(c06EOA.addr) + " gf " + hx(c06EmitterAddr.Bytes()),
			"emitmix " + hx(c06EOA.addr) + " fgf " + hx(c06EmitterAddr.Bytes()),
			"emitmix packet gs " + hx(c06EmitterAddr.Bytes()),
			"emitmix packet fg " + hx(c06EmitterAddr.Bytes()),
			"spoof agent-send",
			"evmrestart",
			"call packet setSequence eoa " + hx(c06EOA.addr),
			"call packet setSequence module 7426afc489d0eef99a0b438def226ad139f75235",
			"evmupgrade",
			"call packet setSequence packet",
			"call packet setSequence module 7426afc489d0eef99a0b438def226ad139f75235",
			"emit " + hx(c06EOA.addr) + " " + hx(c06EmitterAddr.Bytes()),
		},
	}
}

func TestC06WriteCorpus(t *testing.T) {
	if os.Getenv("VERIF_WRITE_CORPUS") == "" {
		t.Skip("set VERIF_WRITE_CORPUS=1 to regenerate corpus/C06")
	}
	dir := filepath.Join(verifRoot(), "corpus", "C06")
	_ = os.MkdirAll(dir, 0o755)
	for name, ops := range c06CorpusScripts() {
		if err := os.WriteFile(filepath.Join(dir, name+".ops"), []byte(strings.Join(ops, "\n")+"\n"), 0o644); err != nil {
			t.Fatal(err)
		}
	}
}
