//go:build c12

package verifharness

// C12 — whole-app restart in the middle of a history (sample): the history's state is committed,
// app.ExportAppStateAndValidators (every module's ExportGenesis through the app codec) → a new app on a fresh db →
// InitChain (every module's Validate + InitGenesis) → the history goes on in the new app. The model's restart is the
// identity; the oracle compares the registry / metadata / live-contract dump before and after and then runs the standing
// oracles (Consistent, conversion gate, real conversion round trips) on the new app.

import (
	"strings"

	"github.com/cosmos/cosmos-sdk/simapp"
	sdk "github.com/cosmos/cosmos-sdk/types"
	abci "github.com/tendermint/tendermint/abci/types"
	"github.com/tendermint/tendermint/libs/log"
	tmproto "github.com/tendermint/tendermint/proto/tendermint/types"
	dbm "github.com/tendermint/tm-db"
	"github.com/tharsis/ethermint/encoding"

	"github.com/teleport-network/teleport/app"
)

// restartApp is applied at top level only (no open `push`): op `env restartapp`.
func (w *c12World) restartApp(r *Rec) string {
	if len(w.stack) != 0 || w.writeBase == nil {
		return "whole-app restart inside a branch"
	}
	pre := w.snapshotRestart(w.ctx)
	var failure string
	if pan, msg := safely(func() {
		w.writeBase() // the history so far becomes the block's state
		hdr := w.base.BlockHeader()
		w.app.Commit()
		exported, err := w.app.ExportAppStateAndValidators(false, nil)
		if err != nil {
			failure = "export: " + err.Error()
			return
		}
		newApp := app.NewTeleport(log.NewNopLogger(), dbm.NewMemDB(), nil, true, map[int64]bool{}, app.DefaultNodeHome, 5,
			encoding.MakeConfig(app.ModuleBasics), simapp.EmptyAppOptions{})
		newApp.InitChain(abci.RequestInitChain{
			ChainId:         "teleport_9000-1",
			InitialHeight:   exported.Height,
			Validators:      []abci.ValidatorUpdate{},
			ConsensusParams: exported.ConsensusParams,
			AppStateBytes:   exported.AppState,
		})
		newApp.Commit()
		nh := tmproto.Header{ChainID: "teleport_9000-1", Height: newApp.LastBlockHeight() + 1, ProposerAddress: hdr.ProposerAddress}
		newApp.BeginBlock(abci.RequestBeginBlock{Header: nh})
		w.app = newApp
		w.base = newApp.BaseApp.NewContext(false, nh)
		w.ctx, w.writeBase = w.base.CacheContext()
	}); pan {
		failure = "panic: " + msg
	}
	if failure != "" {
		if len(failure) > 500 {
			failure = failure[:500]
		}
		return failure
	}
	r.Count("restartapp")
	if post := w.snapshotRestart(w.ctx); post != pre {
		r.Find(Finding{Sig: "C12:state-lost-across-app-restart", What: "whole-app export / InitChain changed the registry, the bank metadata or the set of live contracts",
			Ops: append(append([]string{}, w.hist...), "env restartapp"), Obs: post, Req: pre})
	}
	return ""
}

func (w *c12World) snapshotRestart(ctx sdk.Context) string {
	reg, metas := w.dump(ctx)
	return reg + " M:" + metas + " L:" + strings.Join(w.live(ctx), ",")
}

// appRestartHistories: a few fixed and random histories with whole-app restarts in the middle, on a world of their own.
func c12AppRestartHistories(r *Rec, n int, genmode string) {
	w := newC12World()
	w.genmode = genmode
	w.do(r, genmode)
	e, m := w.ext, w.mod
	voucher := hxs("aggregate/" + e[0].String())
	fixed := []string{
		"regcoin _ _ _ _ _ _ " + c12MetaFields(c12Coin("acoin", "acoin")),
		"addcoin _ _ _ " + w.tokStr(m[0]) + " " + c12MetaFields(c12Coin("bcoin", "bcoin")),
		"regerc20 _ " + c12Addr(e[0]) + " _ _ _ _ _ _ _ _ _",
		"addcoin _ _ _ " + w.tokStr(e[0]) + " " + c12MetaFields(c12Coin("ccoin", "ccoin")),
		"regerc20 _ " + c12Addr(e[1]) + " _ _ _ _ _ _ _ _ _",
		"toggle _ " + w.tokStr(e[1]), // a disabled pair
		"convert _ " + hxs("acoin") + " " + hxs("acoin") + " _",
		"convert _ " + w.tokStr(e[0]) + " " + voucher + " _",
		"env restartapp",
		"convert _ " + w.tokStr(m[0]) + " " + hxs("acoin") + " _", // tokens minted before the restart come back
		"convert _ " + voucher + " " + voucher + " _",
		"toggle _ " + w.tokStr(e[1]),
		"update _ " + c12Addr(e[0]) + " " + c12Addr(e[2]) + " _ _ _ _ _ _ _",
		"restart",
		"env restartapp",
		"convert _ " + hxs("ccoin") + " " + hxs("ccoin") + " _",
		"regcoin _ _ _ _ _ _ " + c12MetaFields(c12IbcCoin()),
		"env restartapp",
		"genexport",
	}
	w.do(r, "reset")
	for _, l := range fixed {
		out, _ := w.do(r, l)
		if strings.HasPrefix(out, "ok") || strings.HasPrefix(out, "conv") {
			w.roundTrip(r)
		}
	}
	alpha := w.alphabet(false)
	for i := 0; i < n; i++ { // the random part continues in the same (restarted) chain: no reset is possible after a commit
		line := alpha[r.Rng.Intn(len(alpha))]
		if r.Rng.Intn(3) == 0 {
			line = w.randomOp(r)
		}
		if r.Rng.Intn(12) == 0 {
			line = "env restartapp"
		}
		if strings.HasPrefix(line, "gen") || strings.HasPrefix(line, "env wipe") {
			continue
		}
		out, changed := w.do(r, line)
		if changed && (strings.HasPrefix(out, "ok") || strings.HasPrefix(out, "del")) {
			w.roundTrip(r)
		}
	}
}
