//go:build c15

package verifharness

// C15 — the gov module's own EndBlocker paths and the bank adapter (adapter/bank.OverwriteBankKeeper) they go through.
//
// The REAL gov life cycle on the fully wired app: MsgSubmitProposal / MsgDeposit / MsgVote(Weighted) through the msg servers
// (ValidateBasic first, executed on a cache context and kept on success, under recover — they are transactions), block time
// advanced past MaxDepositPeriod / VotingPeriod, then gov.EndBlocker (or the whole app.EndBlocker) OUTSIDE recovery, plus
// staking Slash (what the slashing / evidence BeginBlockers call) and staking.EndBlocker.  ORACLE: nothing that runs in
// Begin/EndBlock panics.  The model (TM.GovCycle) tracks proposals, deposits and the gov module balance; tally verdicts,
// handler outcomes, solvency of depositors and slash amounts are EXT inputs computed with the node's own code on throw-away
// cache contexts.
//
//   gv reset
//   gv submit  <EXT vbRest> <proposer> <k> {<denom> <amt>} <EXT hOk> <EXT canPay> raw=kind:<text|textbad|relayer|tss>
//   gv deposit <EXT vbRest> <id> <depositor> <k> {<denom> <amt>} <EXT canPay>
//   gv vote <EXT vbOk> <id> raw=vote:<"voterIdx option">            option: yes no veto abstain split bad none
//   gv advance <seconds>
//   gv endblock | appendblock <EXT k> {<id> <p:ok|p:err|p:panic|reject|burn>}      -> ok st=<id:status,…> g=<denom=amt,…> | panic
//   gv slash <EXT bonded> <EXT notBonded> <EXT burnBonded> <EXT burnNotBonded> raw=slash:<"valIdx fraction old|now">   -> ok | panic
//   gv setup <unbond valIdx amt | jail valIdx | stakingend> <EXT ok|err|panic>     (staking set-up; echoed by the model)

import (
	"fmt"
	"sort"
	"strings"
	"testing"
	"time"

	"github.com/cosmos/cosmos-sdk/crypto/keys/ed25519"
	sdk "github.com/cosmos/cosmos-sdk/types"
	authtypes "github.com/cosmos/cosmos-sdk/x/auth/types"
	banktypes "github.com/cosmos/cosmos-sdk/x/bank/types"
	"github.com/cosmos/cosmos-sdk/x/gov"
	govkeeper "github.com/cosmos/cosmos-sdk/x/gov/keeper"
	govtypes "github.com/cosmos/cosmos-sdk/x/gov/types"
	"github.com/cosmos/cosmos-sdk/x/staking"
	stakingkeeper "github.com/cosmos/cosmos-sdk/x/staking/keeper"
	stakingtypes "github.com/cosmos/cosmos-sdk/x/staking/types"
	"github.com/ethereum/go-ethereum/common"
	abci "github.com/tendermint/tendermint/abci/types"
	tmproto "github.com/tendermint/tendermint/proto/tendermint/types"

	"github.com/teleport-network/teleport/app"
	aggtypes "github.com/teleport-network/teleport/x/aggregate/types"
	tsstypes "github.com/teleport-network/teleport/x/xibc/clients/tss-client/types"
	clienttypes "github.com/teleport-network/teleport/x/xibc/core/client/types"
)

type c15gWorld struct {
	app    *app.Teleport
	base   sdk.Context
	ctx    sdk.Context
	hist   []string
	accts  []sdk.AccAddress // 0..2 rich, 3 poor
	vals   []sdk.AccAddress // validator operators (also the voters), powers 100 / 200 / 300
	seen   []string
	seenM  map[string]bool
	dead   bool
	gsrv   govtypes.MsgServer
	ssrv   stakingtypes.MsgServer
	height int64
}

func newC15gWorld(t *testing.T) *c15gWorld {
	a := app.Setup(false, nil)
	ctx := a.BaseApp.NewContext(false, tmproto.Header{Height: 2, ChainID: "teleport_9000-1", Time: time.Unix(1700000000, 0).UTC()})
	w := &c15gWorld{app: a, gsrv: govkeeper.NewMsgServerImpl(a.GovKeeper), ssrv: stakingkeeper.NewMsgServerImpl(a.StakingKeeper)}
	dp, vp := a.GovKeeper.GetDepositParams(ctx), a.GovKeeper.GetVotingParams(ctx)
	if dp.MinDeposit.String() != "10000000stake" || dp.MaxDepositPeriod != 172800*time.Second || vp.VotingPeriod != 172800*time.Second || a.StakingKeeper.BondDenom(ctx) != "stake" {
		t.Fatalf("gov / staking parameters differ from the constants of TM.GovCycle: %v %v %s", dp, vp, a.StakingKeeper.BondDenom(ctx))
	}
	mint := func(acc sdk.AccAddress, coins sdk.Coins) {
		if err := a.BankKeeper.MintCoins(ctx, "aggregate", coins); err != nil {
			t.Fatal(err)
		}
		if err := a.BankKeeper.SendCoinsFromModuleToAccount(ctx, "aggregate", acc, coins); err != nil {
			t.Fatal(err)
		}
	}
	for i := 0; i < 4; i++ {
		acc := sdk.AccAddress(common.HexToAddress(fmt.Sprintf("0x00000000000000000000000000000000000000d%d", i)).Bytes())
		if i < 3 {
			mint(acc, sdk.NewCoins(sdk.NewInt64Coin("stake", 1000000000), sdk.NewInt64Coin("acoin", 1000000), sdk.NewInt64Coin("bcoin", 1000000)))
		} else {
			mint(acc, sdk.NewCoins(sdk.NewInt64Coin("stake", 50)))
		}
		w.accts = append(w.accts, acc)
	}
	pr := a.StakingKeeper.PowerReduction(ctx)
	for i := 0; i < 3; i++ {
		acc := sdk.AccAddress(common.HexToAddress(fmt.Sprintf("0x00000000000000000000000000000000000000e%d", i)).Bytes())
		amt := sdk.TokensFromConsensusPower(int64(100*(i+1)), pr)
		mint(acc, sdk.NewCoins(sdk.NewCoin("stake", amt.MulRaw(2))))
		pk := ed25519.GenPrivKeyFromSecret([]byte{byte(i)}).PubKey()
		msg, err := stakingtypes.NewMsgCreateValidator(sdk.ValAddress(acc), pk, sdk.NewCoin("stake", amt), stakingtypes.Description{Moniker: "v"},
			stakingtypes.NewCommissionRates(sdk.ZeroDec(), sdk.OneDec(), sdk.OneDec()), sdk.OneInt())
		if err != nil {
			t.Fatal(err)
		}
		if _, err := w.ssrv.CreateValidator(sdk.WrapSDKContext(ctx), msg); err != nil {
			t.Fatal("create validator: ", err)
		}
		w.vals = append(w.vals, acc)
	}
	staking.EndBlocker(ctx, a.StakingKeeper)
	// a block proposer, so that module-initiated EVM calls (aggregate proposals) work in this world too
	if v, found := a.StakingKeeper.GetValidator(ctx, sdk.ValAddress(w.vals[0])); found {
		if ca, err := v.GetConsAddr(); err == nil {
			h := ctx.BlockHeader()
			h.ProposerAddress = ca.Bytes()
			ctx = ctx.WithBlockHeader(h)
		}
	}
	w.base = ctx
	w.reset()
	return w
}

func (w *c15gWorld) reset() {
	w.ctx, _ = w.base.CacheContext()
	w.hist, w.seen, w.seenM, w.dead, w.height = nil, nil, map[string]bool{}, false, 2
}

func (w *c15gWorld) see(d string) {
	if !w.seenM[d] {
		w.seenM[d] = true
		w.seen = append(w.seen, d)
	}
}

func (w *c15gWorld) govAddr() sdk.AccAddress { return authtypes.NewModuleAddress(govtypes.ModuleName) }

func (w *c15gWorld) dumpBal() string {
	if len(w.seen) == 0 {
		return "-"
	}
	var parts []string
	for _, d := range w.seen {
		amt := "0"
		if sdk.ValidateDenom(d) == nil {
			amt = w.app.BankKeeper.GetBalance(w.ctx, w.govAddr(), d).Amount.String()
		}
		parts = append(parts, hxs(d)+"="+amt)
	}
	return strings.Join(parts, ",")
}

var c15gStatus = map[govtypes.ProposalStatus]string{govtypes.StatusDepositPeriod: "deposit", govtypes.StatusVotingPeriod: "voting",
	govtypes.StatusPassed: "passed", govtypes.StatusRejected: "rejected", govtypes.StatusFailed: "failed"}

func (w *c15gWorld) stOf(id uint64) string {
	if p, ok := w.app.GovKeeper.GetProposal(w.ctx, id); ok {
		return c15gStatus[p.Status]
	}
	return "-"
}

func (w *c15gWorld) dumpSt() string {
	ps := w.app.GovKeeper.GetProposals(w.ctx)
	sort.Slice(ps, func(i, j int) bool { return ps[i].ProposalId < ps[j].ProposalId })
	var parts []string
	for _, p := range ps {
		parts = append(parts, fmt.Sprintf("%d:%s", p.ProposalId, c15gStatus[p.Status]))
	}
	if len(parts) == 0 {
		return "-"
	}
	return strings.Join(parts, ",")
}

// raw coin list of an op: no normalisation (unsorted / duplicate / zero / negative entries stay as written)
func (w *c15gWorld) coins(f []string, i int) (sdk.Coins, int) {
	k := c15n(f[i])
	i++
	cs := sdk.Coins{}
	for j := 0; j < k; j++ {
		d := string(unhx(f[i]))
		w.see(d)
		cs = append(cs, sdk.Coin{Denom: d, Amount: sdk.NewIntFromBigInt(c15big(f[i+1]))})
		i += 2
	}
	return cs, i
}

func (w *c15gWorld) content(kind string) govtypes.Content {
	switch kind {
	case "textbad":
		return govtypes.NewTextProposal("", "d")
	case "regcoin": // an aggregate proposal whose handler makes a module-initiated EVM call (contract deployment)
		return aggtypes.NewRegisterCoinProposal("t", "d", banktypes.Metadata{Description: "d", Name: "acoin", Symbol: "AC", Base: "acoin", Display: "acoin",
			DenomUnits: []*banktypes.DenomUnit{{Denom: "acoin", Exponent: 0}}})
	case "relayer":
		return clienttypes.NewRegisterRelayerProposal("t", "d", w.accts[0].String(), []string{"chain-a"}, []string{"0xabc"})
	case "tss":
		c, _ := clienttypes.NewCreateClientProposal("t", "d", "tss-gv", &tsstypes.ClientState{TssAddress: w.accts[0].String()}, &tsstypes.ConsensusState{})
		return c
	}
	return govtypes.NewTextProposal("t", "d")
}

func (w *c15gWorld) canPay(who string, cs sdk.Coins) bool {
	ok := false
	safely(func() {
		from, err := sdk.AccAddressFromBech32(who)
		if err != nil {
			return
		}
		cc, _ := w.ctx.CacheContext()
		ok = w.app.BankKeeper.SendCoinsFromAccountToModule(cc, from, govtypes.ModuleName, cs) == nil
	})
	return ok
}

func (w *c15gWorld) handlerRes(ctx sdk.Context, c govtypes.Content) string {
	res := "err"
	cc, _ := ctx.CacheContext()
	if p, _ := safely(func() {
		if w.app.GovKeeper.Router().GetRoute(c.ProposalRoute())(cc, c) == nil {
			res = "ok"
		}
	}); p {
		return "panic"
	}
	return res
}

func (w *c15gWorld) finding(r *Rec, sig, what, msg string) {
	r.Find(Finding{Sig: sig, What: what + ": " + msg, Ops: c15gv(w.hist), Obs: "panic (" + msg + ")", Req: "code that runs in BeginBlock / EndBlock never panics"})
}

func c15gv(h []string) []string {
	out := make([]string, 0, len(h))
	for _, o := range h {
		out = append(out, "gv "+o)
	}
	return out
}

func c15gRaw(all []string) (f []string, raw map[string]string, sfx string) {
	raw = map[string]string{}
	for _, t := range all {
		if strings.HasPrefix(t, "raw=") {
			if i := strings.IndexByte(t, ':'); i > 4 {
				raw[t[4:i]] = string(unhx(t[i+1:]))
				sfx += " " + t
			}
			continue
		}
		f = append(f, t)
	}
	return
}

// apply executes one gv op (without the "gv " prefix); returns the canonical op and the observation ("" = skipped)
func (w *c15gWorld) apply(r *Rec, op string) (string, string) {
	f, raw, sfx := c15gRaw(strings.Fields(op))
	if f[0] == "reset" {
		w.reset()
		w.hist = []string{op}
		return op, "ok"
	}
	if w.dead {
		return "", ""
	}
	w.hist = append(w.hist, op)
	done := func(line, out string) (string, string) { w.hist[len(w.hist)-1] = line + sfx; return line + sfx, out }
	gk := w.app.GovKeeper
	switch f[0] {
	case "submit":
		who := string(unhx(f[2]))
		cs, i := w.coins(f, 3)
		c := w.content(raw["kind"])
		proposer, _ := sdk.AccAddressFromBech32(who)
		mk := func(dep sdk.Coins) *govtypes.MsgSubmitProposal {
			m, err := govtypes.NewMsgSubmitProposal(c, dep, proposer)
			if err != nil {
				return nil
			}
			m.Proposer = who
			return m
		}
		vbRest := false
		safely(func() { vbRest = mk(sdk.Coins{}).ValidateBasic() == nil })
		hOk := w.handlerRes(w.ctx, c) == "ok"
		cp := w.canPay(who, cs)
		line := strings.Join(append(append([]string{f[0], c15f(vbRest)}, f[2:i]...), c15f(hOk), c15f(cp)), " ")
		w.hist[len(w.hist)-1] = line + sfx
		msg := mk(cs)
		var verr error
		vp, _ := safely(func() { verr = msg.ValidateBasic() })
		v := c15oc(vp, verr)
		r.Count("gv.submit.v=" + v)
		r.Count("gv.submit.deposit." + c15gDepClass(cs))
		if v != "ok" {
			return done(line, "v=err m=- id=- st=-")
		}
		cc, write := w.ctx.CacheContext()
		var res *govtypes.MsgSubmitProposalResponse
		var err error
		if p, _ := safely(func() { res, err = w.gsrv.SubmitProposal(sdk.WrapSDKContext(cc), msg) }); p || err != nil {
			return done(line, "v=ok m=err id=- st=-")
		}
		write()
		r.Count("gv.submit.ok")
		return done(line, fmt.Sprintf("v=ok m=ok id=%d st=%s", res.ProposalId, w.stOf(res.ProposalId)))
	case "deposit":
		id := c15u(f[2])
		who := string(unhx(f[3]))
		cs, i := w.coins(f, 4)
		depositor, _ := sdk.AccAddressFromBech32(who)
		msg := govtypes.NewMsgDeposit(depositor, id, sdk.Coins{})
		msg.Depositor = who
		vbRest := false
		safely(func() { vbRest = msg.ValidateBasic() == nil })
		msg.Amount = cs
		cp := w.canPay(who, cs)
		line := strings.Join(append(append([]string{f[0], c15f(vbRest)}, f[2:i]...), c15f(cp)), " ")
		w.hist[len(w.hist)-1] = line + sfx
		var verr error
		vp, _ := safely(func() { verr = msg.ValidateBasic() })
		r.Count("gv.deposit.deposit." + c15gDepClass(cs))
		if c15oc(vp, verr) != "ok" {
			return done(line, "v=err m=- st="+w.stOf(id))
		}
		cc, write := w.ctx.CacheContext()
		var err error
		if p, _ := safely(func() { _, err = w.gsrv.Deposit(sdk.WrapSDKContext(cc), msg) }); p || err != nil {
			return done(line, "v=ok m=err st="+w.stOf(id))
		}
		write()
		r.Count("gv.deposit.ok")
		return done(line, "v=ok m=ok st="+w.stOf(id))
	case "vote":
		id := c15u(f[2])
		vf := strings.Fields(raw["vote"])
		voter := w.vals[c15n(vf[0])%len(w.vals)]
		var msg sdk.Msg
		switch vf[1] {
		case "split":
			msg = govtypes.NewMsgVoteWeighted(voter, id, govtypes.WeightedVoteOptions{{Option: govtypes.OptionYes, Weight: sdk.NewDecWithPrec(5, 1)}, {Option: govtypes.OptionNo, Weight: sdk.NewDecWithPrec(5, 1)}})
		case "none":
			msg = govtypes.NewMsgVoteWeighted(voter, id, govtypes.WeightedVoteOptions{})
		case "bad":
			msg = govtypes.NewMsgVote(voter, id, govtypes.VoteOption(9))
		default:
			o := map[string]govtypes.VoteOption{"yes": govtypes.OptionYes, "no": govtypes.OptionNo, "veto": govtypes.OptionNoWithVeto, "abstain": govtypes.OptionAbstain}[vf[1]]
			msg = govtypes.NewMsgVote(voter, id, o)
		}
		var verr error
		vp, _ := safely(func() { verr = msg.ValidateBasic() })
		v := c15oc(vp, verr)
		line := strings.Join([]string{f[0], c15f(v == "ok"), f[2]}, " ")
		w.hist[len(w.hist)-1] = line + sfx
		if v != "ok" {
			return done(line, "v=err m=-")
		}
		cc, write := w.ctx.CacheContext()
		var err error
		p, _ := safely(func() {
			switch m := msg.(type) {
			case *govtypes.MsgVote:
				_, err = w.gsrv.Vote(sdk.WrapSDKContext(cc), m)
			case *govtypes.MsgVoteWeighted:
				_, err = w.gsrv.VoteWeighted(sdk.WrapSDKContext(cc), m)
			}
		})
		if p || err != nil {
			return done(line, "v=ok m=err")
		}
		write()
		r.Count("gv.vote.ok." + vf[1])
		return done(line, "v=ok m=ok")
	case "advance":
		w.height++
		w.ctx = w.ctx.WithBlockTime(w.ctx.BlockTime().Add(time.Duration(c15i(f[1])) * time.Second)).WithBlockHeight(w.height)
		return done(op, "ok")
	case "endblock", "appendblock":
		// EXT: tally verdict and handler outcome of every proposal whose voting period is over
		var ext []string
		handlerPanics := false
		acc, _ := w.ctx.CacheContext() // accumulates the effects of the handlers that succeed, in queue order, as EndBlocker does
		safely(func() {
			gk.IterateActiveProposalsQueue(w.ctx, w.ctx.BlockHeader().Time, func(p govtypes.Proposal) bool {
				tc, _ := acc.CacheContext()
				passes, burn, _ := gk.Tally(tc, p)
				v := "reject"
				if passes {
					hr := "err"
					hc, write := acc.CacheContext()
					if pn, _ := safely(func() {
						if gk.Router().GetRoute(p.ProposalRoute())(hc, p.GetContent()) == nil {
							hr = "ok"
							write()
						}
					}); pn {
						hr = "panic"
					}
					handlerPanics = handlerPanics || hr == "panic"
					v = "p:" + hr
				} else if burn {
					v = "burn"
				}
				ext = append(ext, fmt.Sprint(p.ProposalId), v)
				r.Count("gv.verdict." + v)
				return false
			})
		})
		nInactive := 0
		safely(func() {
			gk.IterateInactiveProposalsQueue(w.ctx, w.ctx.BlockHeader().Time, func(p govtypes.Proposal) bool { nInactive++; return false })
		})
		r.Stats["gv.dropped"] += nInactive
		line := strings.Join(append([]string{f[0], fmt.Sprint(len(ext) / 2)}, ext...), " ")
		w.hist[len(w.hist)-1] = line + sfx
		// the block's gas meter: nil (keeper-level context) or FINITE (max_gas = 10000000) and filled by the block's transactions
		fill := raw["gas"]
		for _, fl := range c15GasFills {
			if fl.name == fill {
				w.ctx = w.ctx.WithBlockGasMeter(c15FilledMeter(fl.used))
			}
		}
		if fill == "" || fill == "nil" {
			fill = "nil"
			w.ctx = w.ctx.WithBlockGasMeter(nil)
		}
		r.Count("gv.gasfill." + fill)
		for i := 1; i < len(ext); i += 2 {
			if strings.HasPrefix(ext[i], "p:") {
				r.Count("gv.gasfill.handler-run." + fill)
			}
		}
		var pan, oog bool
		var pm string
		if f[0] == "endblock" {
			pan, pm, oog = c15SafelyGas(func() { gov.EndBlocker(w.ctx, gk) })
		} else {
			pan, pm, oog = c15SafelyGas(func() { w.app.EndBlocker(w.ctx, abci.RequestEndBlock{Height: w.height}) })
		}
		r.Count("gv." + f[0])
		if pan {
			w.dead = true
			if oog {
				w.finding(r, "C15:block-phase-panic:out-of-gas:gov-endblock:"+fill, "gov.EndBlocker panics under a finite block gas meter ("+fill+")", pm)
			} else if handlerPanics {
				w.finding(r, "C15:gov-endblock-panic:handler", "a proposal handler panics inside gov.EndBlocker", pm)
			} else {
				w.finding(r, "C15:gov-endblock-panic:deposits:"+c15class(pm), "gov.EndBlocker panics on its own deposit / tally / state-transition paths (through the bank adapter)", pm)
			}
			return done(line, "panic")
		}
		return done(line, "ok st="+w.dumpSt()+" g="+w.dumpBal())
	case "slash":
		sf := strings.Fields(raw["slash"])
		val := w.vals[c15n(sf[0])%len(w.vals)]
		frac := sdk.MustNewDecFromStr(sf[1])
		sk := w.app.StakingKeeper
		pools := func(ctx sdk.Context) (sdk.Int, sdk.Int) {
			return w.app.BankKeeper.GetBalance(ctx, sk.GetBondedPool(ctx).GetAddress(), "stake").Amount, w.app.BankKeeper.GetBalance(ctx, sk.GetNotBondedPool(ctx).GetAddress(), "stake").Amount
		}
		run := func(ctx sdk.Context) (bool, string) {
			return safely(func() {
				v, found := sk.GetValidator(ctx, sdk.ValAddress(val))
				if !found {
					return
				}
				ca, _ := v.GetConsAddr()
				h := ctx.BlockHeight()
				if sf[2] == "old" {
					h = 1
				}
				sk.Slash(ctx, ca, h, v.ConsensusPower(sk.PowerReduction(ctx)), frac)
			})
		}
		b0, n0 := pools(w.ctx)
		cc, _ := w.ctx.CacheContext()
		run(cc)
		b1, n1 := pools(cc)
		bb, bn := b0.Sub(b1), n0.Sub(n1)
		line := strings.Join([]string{f[0], b0.String(), n0.String(), bb.String(), bn.String()}, " ")
		w.hist[len(w.hist)-1] = line + sfx
		r.Count("gv.slash")
		if bb.IsPositive() {
			r.Count("gv.slash.burn-bonded")
		}
		if bn.IsPositive() {
			r.Count("gv.slash.burn-not-bonded")
		}
		if !bb.IsPositive() && !bn.IsPositive() {
			r.Count("gv.slash.zero")
		}
		if pan, pm := run(w.ctx); pan {
			w.dead = true
			w.finding(r, "C15:staking-slash-panic:"+c15class(pm), "staking Slash (called by the slashing / evidence BeginBlockers) panics", pm)
			return done(line, "panic")
		}
		return done(line, "ok")
	case "setup":
		res := "ok"
		var err error
		var pan bool
		var pm string
		switch f[1] {
		case "unbond":
			val := w.vals[c15n(f[2])%len(w.vals)]
			cc, write := w.ctx.CacheContext()
			pan, _ = safely(func() {
				_, err = w.ssrv.Undelegate(sdk.WrapSDKContext(cc), stakingtypes.NewMsgUndelegate(val, sdk.ValAddress(val), sdk.NewCoin("stake", sdk.NewIntFromBigInt(c15big(f[3])))))
			})
			if pan || err != nil {
				res = "err"
			} else {
				write()
			}
			line := strings.Join([]string{f[0], f[1], f[2], f[3], res}, " ")
			return done(line, res)
		case "jail":
			val := w.vals[c15n(f[2])%len(w.vals)]
			pan, pm = safely(func() {
				if v, found := w.app.StakingKeeper.GetValidator(w.ctx, sdk.ValAddress(val)); found && !v.IsJailed() {
					ca, _ := v.GetConsAddr()
					w.app.StakingKeeper.Jail(w.ctx, ca)
				}
			})
			if pan {
				res = "err"
			}
			return done(strings.Join([]string{f[0], f[1], f[2], res}, " "), res)
		case "stakingend":
			pan, pm = safely(func() { staking.EndBlocker(w.ctx, w.app.StakingKeeper) })
			if pan {
				w.dead = true
				w.finding(r, "C15:staking-endblock-panic:"+c15class(pm), "staking.EndBlocker panics", pm)
				res = "panic"
			}
			return done(strings.Join([]string{f[0], f[1], res}, " "), res)
		}
	}
	return op, "bad-op"
}

func c15gDepClass(cs sdk.Coins) string {
	switch {
	case len(cs) == 0:
		return "empty"
	case !cs.IsValid():
		for _, c := range cs {
			if c.Amount.IsZero() {
				return "zero-coin"
			}
		}
		return "invalid"
	case len(cs) > 1:
		return "multi-denom"
	case cs[0].Denom == "stake" && cs[0].Amount.GTE(sdk.NewInt(10000000)):
		return "min-or-more"
	}
	return "small"
}

// ---- generator -------------------------------------------------------------------------------------------------------

func (w *c15gWorld) genCoins(r *Rec) string {
	switch x := r.Rng.Intn(100); {
	case x < 25:
		return "0" // empty
	case x < 40:
		return "1 " + hxs("stake") + " " + c15pick(r, "1", "7", "100", "9999999")
	case x < 55:
		return "1 " + hxs("stake") + " " + c15pick(r, "10000000", "10000001", "20000000")
	case x < 68:
		return "2 " + hxs("acoin") + " " + c15pick(r, "1", "500") + " " + hxs("stake") + " " + c15pick(r, "5", "10000000", "4000000")
	case x < 74:
		return "3 " + hxs("acoin") + " 3 " + hxs("bcoin") + " 4 " + hxs("stake") + " " + c15pick(r, "6000000", "1")
	case x < 79:
		return "1 " + hxs("stake") + " 0" // zero-amount coin
	case x < 83:
		return "2 " + hxs("stake") + " 5 " + hxs("acoin") + " 5" // unsorted
	case x < 87:
		return "2 " + hxs("stake") + " 5 " + hxs("stake") + " 5" // duplicate
	case x < 90:
		return "1 " + hxs("stake") + " -5"
	case x < 93:
		return "1 " + hxs(c15pick(r, "a", "", "Bad Denom")) + " 5"
	case x < 96:
		return "2 " + hxs("acoin") + " 1 " + hxs("stake") + " 0"
	default:
		return "1 " + hxs("stake") + " 2000000000" // more than anybody has
	}
}

func (w *c15gWorld) genWho(r *Rec) string {
	switch x := r.Rng.Intn(20); {
	case x < 15:
		return hxs(w.accts[r.Rng.Intn(3)].String())
	case x < 18:
		return hxs(w.accts[3].String()) // poor
	case x < 19:
		return hxs(strings.ToUpper(w.accts[0].String()))
	}
	return hxs("not-bech32")
}

// ids of the proposals currently in the given status
func (w *c15gWorld) idsIn(st govtypes.ProposalStatus) []uint64 {
	var ids []uint64
	safely(func() {
		for _, p := range w.app.GovKeeper.GetProposals(w.ctx) {
			if p.Status == st {
				ids = append(ids, p.ProposalId)
			}
		}
	})
	return ids
}

// c15gRunHistory generates one history op by op, looking at the live state (so that votes hit proposals in their voting period)
func c15gRunHistory(r *Rec, w *c15gWorld, emit func(op string)) {
	emit("reset")
	nextID := 1
	anyID := func(pref []uint64) uint64 {
		if len(pref) > 0 && c15coin(r, 80) {
			return pref[r.Rng.Intn(len(pref))]
		}
		return uint64(1 + r.Rng.Intn(nextID+1))
	}
	vote := func(id uint64, v int, opt string) {
		emit(fmt.Sprintf("vote 0 %d raw=vote:%s", id, hxs(fmt.Sprintf("%d %s", v, opt))))
	}
	steps := 6 + r.Rng.Intn(14)
	for i := 0; i < steps && !w.dead; i++ {
		voting, depositing := w.idsIn(govtypes.StatusVotingPeriod), w.idsIn(govtypes.StatusDepositPeriod)
		switch x := r.Rng.Intn(100); {
		case x < 24:
			kind := c15pick(r, "text", "text", "text", "relayer", "tss", "tss", "textbad", "regcoin", "regcoin")
			emit("submit 0 " + w.genWho(r) + " " + w.genCoins(r) + " 0 0 raw=kind:" + hxs(kind))
			nextID++
		case x < 40:
			emit(fmt.Sprintf("deposit 0 %d %s %s 0", anyID(append(depositing, voting...)), w.genWho(r), w.genCoins(r)))
		case x < 52:
			opt := c15pick(r, "yes", "yes", "no", "veto", "abstain", "split", "bad", "none")
			vote(anyID(voting), r.Rng.Intn(3), opt)
		case x < 64: // a whole ballot on one proposal in its voting period: pass / veto / reject / all abstain / below quorum / nobody
			if len(voting) == 0 {
				continue
			}
			id := voting[r.Rng.Intn(len(voting))]
			switch c15pick(r, "pass", "pass", "veto", "reject", "abstain", "lowquorum", "split") {
			case "pass":
				vote(id, 2, "yes")
				vote(id, 1, "yes")
				vote(id, 0, c15pick(r, "no", "abstain", "yes"))
			case "veto":
				vote(id, 2, "veto")
				vote(id, 1, "yes")
			case "reject":
				vote(id, 2, "no")
				vote(id, 0, "yes")
			case "abstain":
				vote(id, 2, "abstain")
				vote(id, 1, "abstain")
			case "lowquorum":
				vote(id, 0, "yes")
			case "split":
				vote(id, 2, "split")
				vote(id, 1, "yes")
			}
		case x < 76:
			emit("advance " + c15pick(r, "0", "100", "172799", "172800", "172801", "86400", "200000"))
		case x < 88:
			emit(c15pick(r, "endblock", "endblock", "endblock", "appendblock") + " 0 raw=gas:" + hxs(c15pick(r, "nil", "empty", "half", "limit-1000", "limit-1", "full")))
		case x < 94:
			emit("slash 0 0 0 0 raw=slash:" + hxs(fmt.Sprintf("%d %s %s", r.Rng.Intn(3), c15pick(r, "0", "0.000000000000000001", "0.01", "0.5", "1"), c15pick(r, "now", "old"))))
		case x < 96: // burns out of the NOT-bonded pool: slash an unbonding delegation / an unbonding validator
			v := r.Rng.Intn(3)
			if c15coin(r, 50) {
				emit(fmt.Sprintf("setup unbond %d %s 0", v, c15pick(r, "1000000000000000000", "10000000000000000")))
				emit("slash 0 0 0 0 raw=slash:" + hxs(fmt.Sprintf("%d %s old", v, c15pick(r, "0.5", "1", "0.000000000000000001"))))
			} else {
				emit(fmt.Sprintf("setup jail %d 0", v))
				emit("setup stakingend 0")
				emit("slash 0 0 0 0 raw=slash:" + hxs(fmt.Sprintf("%d %s now", v, c15pick(r, "0.5", "1", "0"))))
			}
		case x < 97:
			emit(fmt.Sprintf("setup unbond %d %s 0", r.Rng.Intn(3), c15pick(r, "1", "1000000000000000000", "10000000000000000")))
		case x < 99:
			emit(fmt.Sprintf("setup jail %d 0", r.Rng.Intn(3)))
		default:
			emit("setup stakingend 0")
		}
	}
	// every history ends with both periods elapsed and two EndBlockers
	emit("advance 172800")
	emit(c15pick(r, "endblock", "appendblock") + " 0 raw=gas:" + hxs(c15pick(r, "nil", "empty", "half", "limit-1000", "limit-1", "full")))
	emit("advance 172801")
	emit("endblock 0 raw=gas:" + hxs(c15pick(r, "limit-1", "full", "limit-1000")))
}
