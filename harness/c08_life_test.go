//go:build c08

package verifharness

// C08 — life cycle: the delay (and contract) a client is created / upgraded / toggled with is the one in force when a
// proof is verified, after real header updates. ETH clients only (BSC headers need the signed-header generator of C09,
// which is not linkable into this build; BSC is covered with planted client states in c08_test.go).
//
// Real path: ClientKeeper.CreateClient / UpgradeClient / ToggleClient / UpdateClient of a full app, chain id 4 (no ethash
// seal, as the package tests), headers built as rule-abiding children of the head whose state root is the root of one of
// the harness's EVM states; verification with the STORED client state on the client's own store.
//
//   lc create|toggle|upgrade <timeDelay> <blockDelay> <chainId> <trusting> <contract> <rn> <rh> <hdrHash> <root> <time> <innerRn> <innerRh>
//   lc update <good|bad> <rn> <rh> <hdrHash> <root> <time>                    -> ok|rej <dump of the FULL stored client state>
//   lc verify <c|a> <hRn> <hRh> <src> <dst> <seq> <value> <raw proof> | <derived> -> ok | rej

import (
	"encoding/base64"
	"fmt"
	"math/big"
	"sort"
	"strconv"
	"strings"
	"time"

	sdk "github.com/cosmos/cosmos-sdk/types"
	"github.com/ethereum/go-ethereum/common"
	tmproto "github.com/tendermint/tendermint/proto/tendermint/types"

	"github.com/teleport-network/teleport/app"
	ethtypes "github.com/teleport-network/teleport/x/xibc/clients/light-clients/eth/types"
	tsstypes "github.com/teleport-network/teleport/x/xibc/clients/tss-client/types"
	clienttypes "github.com/teleport-network/teleport/x/xibc/core/client/types"
	"github.com/teleport-network/teleport/x/xibc/core/host"
)

const c08LifeName = "eth-life"

type c08LifeHdr struct {
	rn, rh uint64
	parent common.Hash
	root   []byte
	time   uint64
}

func (h *c08LifeHdr) proto() ethtypes.Header {
	return ethtypes.Header{
		ParentHash: h.parent.Bytes(), UncleHash: make([]byte, 32), Coinbase: make([]byte, 20), Root: h.root, TxHash: make([]byte, 32),
		ReceiptHash: make([]byte, 32), Bloom: make([]byte, 256), Difficulty: big.NewInt(131072).Bytes(), Height: clienttypes.NewHeight(h.rn, h.rh),
		GasLimit: 10000000, GasUsed: 5000000, Time: h.time, MixDigest: make([]byte, 32), Nonce: 0, BaseFee: big.NewInt(1000).Bytes(),
	}
}

func (h *c08LifeHdr) hash() common.Hash { p := h.proto(); return p.Hash() }

// the harness's OWN record of what was configured and which headers were accepted (never read back from the store)
type c08Life struct {
	app      *app.Teleport
	base     sdk.Context
	ctx      sdk.Context
	hist     []string
	created  bool
	bd, td   uint64
	contract []byte
	head     *c08LifeHdr
	phase    string                      // "create" | "upgrade" | "toggle": how the configuration in force was installed
	updates  int                         // accepted updates since then
	known    map[common.Hash]*c08LifeHdr // every header the harness saw accepted (its own header tree)
	reorged  bool                        // the last accepted update was not a child of the head
}

func newC08Life() *c08Life {
	a := app.Setup(false, nil)
	l := &c08Life{app: a}
	l.base = a.BaseApp.NewContext(false, tmproto.Header{Height: 1, ChainID: "teleport_9000-1", Time: time.Unix(1700000000, 0)})
	return l
}

func (l *c08Life) dump() string {
	csI, ok := l.app.XIBCKeeper.ClientKeeper.GetClientState(l.ctx, c08LifeName)
	if !ok {
		return "none"
	}
	cs, ok := csI.(*ethtypes.ClientState)
	if !ok {
		return "other-type " + csI.ClientType()
	}
	store := l.app.XIBCKeeper.ClientKeeper.ClientStore(l.ctx, c08LifeName)
	pfx := []byte(host.KeyConsensusStatePrefix + "/")
	it := sdk.KVStorePrefixIterator(store, pfx)
	defer it.Close()
	var cons []string
	for ; it.Valid(); it.Next() {
		k := it.Key()[len(pfx):]
		if len(k) != 16 {
			cons = append(cons, "badkey:"+hx(k))
			continue
		}
		rn, rh := sdk.BigEndianToUint64(k[:8]), sdk.BigEndianToUint64(k[8:])
		csI, err := clienttypes.UnmarshalConsensusState(l.app.AppCodec(), it.Value())
		e, isEth := csI.(*ethtypes.ConsensusState)
		if err != nil || !isEth {
			cons = append(cons, fmt.Sprintf("%d-%d:X", rn, rh))
			continue
		}
		cons = append(cons, fmt.Sprintf("%d-%d:%s:%d-%d:%d", rn, rh, hx(e.Root), e.Height.RevisionNumber, e.Height.RevisionHeight, e.Timestamp))
	}
	hh := cs.Header.Hash()
	return strings.Join(append([]string{"eth", fmt.Sprint(cs.ChainId), fmt.Sprint(cs.TimeDelay), fmt.Sprint(cs.BlockDelay), fmt.Sprint(cs.TrustingPeriod),
		hx(cs.ContractAddress), fmt.Sprintf("%d-%d", cs.Header.Height.RevisionNumber, cs.Header.Height.RevisionHeight), hx(hh.Bytes()), "C", fmt.Sprint(len(cons))}, cons...), " ")
}

func c08U(s string) uint64 { n, _ := strconv.ParseUint(s, 10, 64); return n }

// apply one life-cycle op on the real code; returns the full op line and the observation
func (l *c08Life) apply(r *Rec, w *c08World, op string) (string, string) {
	f := strings.Fields(op)
	l.hist = append(l.hist, op)
	ck := l.app.XIBCKeeper.ClientKeeper
	switch f[1] {
	case "create", "toggle", "upgrade":
		td, bd, chainID, trusting, contract := c08U(f[2]), c08U(f[3]), c08U(f[4]), c08U(f[5]), unhx(f[6])
		h := &c08LifeHdr{rn: c08U(f[7]), rh: c08U(f[8]), root: unhx(f[10]), time: c08U(f[11])}
		if len(f) > 14 {
			h.parent = common.BytesToHash(unhx(f[14]))
		}
		p := h.proto()
		cs := &ethtypes.ClientState{Header: p, ChainId: chainID, ContractAddress: contract, TrustingPeriod: trusting, TimeDelay: td, BlockDelay: bd}
		cons := &ethtypes.ConsensusState{Timestamp: h.time, Height: clienttypes.NewHeight(c08U(f[12]), c08U(f[13])), Root: h.root}
		var err error
		switch f[1] {
		case "create":
			l.ctx, _ = l.base.CacheContext()
			l.ctx = l.ctx.WithBlockTime(time.Unix(int64(h.time), 0))
			l.hist = []string{op}
			err = ck.CreateClient(l.ctx, c08LifeName, cs, cons)
		case "upgrade":
			err = ck.UpgradeClient(l.ctx, c08LifeName, cs, cons)
		case "toggle": // to another client type and back: the second toggle installs the configuration
			if err = ck.ToggleClient(l.ctx, c08LifeName, &tsstypes.ClientState{TssAddress: "0x0000000000000000000000000000000000000001"}, &tsstypes.ConsensusState{}); err == nil {
				err = ck.ToggleClient(l.ctx, c08LifeName, cs, cons)
			}
		}
		if err != nil {
			r.t.Fatalf("C08 life %s: %v", f[1], err)
		}
		l.created, l.bd, l.td, l.contract, l.head, l.phase, l.updates, l.reorged = true, bd, td, contract, h, f[1], 0, false
		if f[1] != "upgrade" || l.known == nil {
			l.known = map[common.Hash]*c08LifeHdr{}
		}
		l.known[h.hash()] = h
		r.Count("life." + f[1])
		return op, "ok " + l.dump()
	case "update":
		h := &c08LifeHdr{rn: c08U(f[3]), rh: c08U(f[4]), root: unhx(f[6]), time: c08U(f[7]), parent: l.head.hash()}
		if len(f) > 8 { // not a child of the head: a competing child of another accepted header
			h.parent = common.BytesToHash(unhx(f[8]))
		}
		fork := h.parent != l.head.hash()
		oldHead := l.head
		if f[2] == "bad" {
			h.parent[0] ^= 0xff // unknown parent
		}
		p := h.proto()
		cctx, write := l.ctx.CacheContext()
		cctx = cctx.WithBlockTime(time.Unix(int64(h.time), 0))
		var err error
		pan, msg := safely(func() { err = ck.UpdateClient(cctx, c08LifeName, &p) })
		if pan {
			err = fmt.Errorf("panic: %s", msg)
		}
		res := "rej"
		if err == nil {
			write()
			l.ctx = l.ctx.WithBlockTime(time.Unix(int64(h.time), 0))
			res = "ok"
			if f[2] == "good" {
				// own fork choice = the rule of the ETH client: every accepted header is adopted as the head
				l.head, l.reorged = h, fork
				l.known[h.hash()] = h
				l.updates++
				if fork {
					switch {
					case h.rh < oldHead.rh:
						r.Count("life.reorg.tip-below-head")
					case h.rh == oldHead.rh:
						r.Count("life.reorg.tip-at-head")
					default:
						r.Count("life.reorg.tip-above-head")
					}
				}
				// cross-check with the client state the keeper stored
				if csI, ok := ck.GetClientState(l.ctx, c08LifeName); ok {
					if cs, ok := csI.(*ethtypes.ClientState); ok && cs.Header.Hash() != h.hash() {
						r.Find(Finding{Sig: "C08:stored-head-is-not-the-adopted-header", What: fmt.Sprintf("after an accepted update to %d-%d (fork=%v, old head %d-%d) the stored client state still has head %s", h.rn, h.rh, fork, oldHead.rn, oldHead.rh, cs.Header.Height),
							Ops: append([]string{}, l.hist...), Obs: cs.Header.Height.String(), Req: fmt.Sprintf("%d-%d", h.rn, h.rh)})
					} else if ok && fork {
						r.Count("life.reorg.switched")
					}
				}
			}
		}
		if (f[2] == "good") != (err == nil) {
			r.Find(Finding{Sig: "C08:life-update-" + f[2] + "-" + res, What: fmt.Sprintf("header update built as %s was %s: %v", f[2], res, err), Ops: append([]string{}, l.hist...), Obs: res, Req: f[2]})
		}
		r.Count("life.update." + f[2])
		return op, res + " " + l.dump()
	case "verify":
		// f: lc verify kind hRn hRh src dst seq value raw
		kind, hRn, hRh := f[2], c08U(f[3]), c08U(f[4])
		src, dst, seq, value := string(unhx(f[5])), string(unhx(f[6])), c08U(f[7]), unhx(f[8])
		proof, _ := base64.StdEncoding.DecodeString(f[9])
		csI, _ := ck.GetClientState(l.ctx, c08LifeName)
		store := ck.ClientStore(l.ctx, c08LifeName)
		height := clienttypes.NewHeight(hRn, hRh)
		var err error
		pan, _ := safely(func() {
			if kind == "c" {
				err = csI.VerifyPacketCommitment(l.ctx, store, l.app.AppCodec(), height, proof, src, dst, seq, value)
			} else {
				err = csI.VerifyPacketAcknowledgement(l.ctx, store, l.app.AppCodec(), height, proof, src, dst, seq, value)
			}
		})
		out := "ok"
		if pan || err != nil {
			out = "rej"
		}
		var consRoot []byte
		haveCons := false
		if e, err := ethtypes.GetConsensusState(store, l.app.AppCodec(), height); err == nil {
			consRoot, haveCons = e.Root, true
		}
		tag := "main"
		core := strings.Join(f[:10], " ")
		if len(f) > 10 && f[10] != "|" {
			tag = f[10]
			core += " " + tag
		}
		line := core + " | " + c08Derived("eth", proof, consRoot, haveCons)
		l.hist[len(l.hist)-1] = line
		// ---- oracle with the harness's OWN record of the configured delay and of the accepted headers (never the stored
		// client state); every life-cycle verification carries a genuine proof of a true claim at a stored height ----
		after := "after-" + l.phase
		if l.updates > 0 {
			after = "after-update"
			if l.phase != "create" {
				after += "-after-" + l.phase
			}
			if l.reorged {
				after = "after-reorg"
			}
		}
		// tag (from the generator's own header tree): main = the proof is from the state of the adopted chain's header at
		// that height; abandoned = from a header of an abandoned branch with another root; above-head = above the own head
		switch {
		case hRn != l.head.rn:
		case tag == "above-head" || hRh > l.head.rh:
			if out == "ok" {
				r.Find(Finding{Sig: "C08:accepted-above-head:" + after, What: fmt.Sprintf("proof at height %d accepted, the head the client adopted last is %d", hRh, l.head.rh),
					Ops: append([]string{}, l.hist...), Obs: "ok", Req: "rejected"})
			}
			r.Count("life." + after + ".above-head-proof")
		case tag == "abandoned":
			if out == "ok" {
				r.Find(Finding{Sig: "C08:accepted-abandoned-branch-root:" + after, What: fmt.Sprintf("proof under the root of an abandoned branch's header at height %d accepted (head %d)", hRh, l.head.rh),
					Ops: append([]string{}, l.hist...), Obs: "ok", Req: "rejected"})
			}
			r.Count("life." + after + ".abandoned-branch-proof")
		default:
			depth := l.head.rh - hRh
			if l.reorged {
				r.Count("life.after-reorg." + map[bool]string{true: "confirmed", false: "young"}[depth >= l.bd])
			}
			switch {
			case out == "ok" && depth < l.bd:
				r.Find(Finding{Sig: "C08:accepted-younger-than-configured-delay:" + after, What: fmt.Sprintf("proof at depth %d accepted, BlockDelay configured at %s was %d (TimeDelay %d), %d updates since", depth, l.phase, l.bd, l.td, l.updates),
					Ops: append([]string{}, l.hist...), Obs: "ok", Req: "rejected"})
			case out != "ok" && depth >= l.bd:
				r.Find(Finding{Sig: "C08:rejected-confirmed-valid-proof:" + after, What: fmt.Sprintf("genuine proof at depth %d rejected, BlockDelay configured at %s was %d (TimeDelay %d), %d updates since", depth, l.phase, l.bd, l.td, l.updates),
					Ops: append([]string{}, l.hist...), Obs: "rej", Req: "ok"})
			}
		}
		return line, out
	}
	r.t.Fatalf("bad C08 life op %.80s", op)
	return "", ""
}

// one generated history: create with a delay shape, then updates / upgrade / toggle, verifying at every stored height
// (every confirmation depth) after each step
func c08LifeHistory(r *Rec, l *c08Life, w *c08World, emit func(op, out string)) {
	shape := []string{"0/N", "N/0", "N/M", "equal", "0/0"}[c08LifeCycle%5]
	c08LifeCycle++
	n, m := uint64(1+r.Rng.Intn(3)), uint64(1+r.Rng.Intn(3))
	if m == n {
		m = n + 1
	}
	delays := func(shape string) (td, bd uint64) {
		switch shape {
		case "0/N":
			return 0, n
		case "N/0":
			return n, 0
		case "N/M":
			return m, n
		case "equal":
			return n, n
		}
		return 0, 0
	}
	td, bd := delays(shape)
	base := uint64(10 + r.Rng.Intn(1000))
	now := uint64(1700000000)
	rn := uint64(0)
	if r.Rng.Intn(4) == 0 {
		rn = uint64(1 + r.Rng.Intn(3))
	}
	cfg := func(what string, td, bd, rh uint64, st *c08State) string {
		h := &c08LifeHdr{rn: rn, rh: rh, root: st.root.Bytes(), time: now}
		if what == "upgrade" && l.head != nil {
			h.parent = l.head.hash()
		}
		irn, irh := rn, rh
		switch r.Rng.Intn(4) { // the supplied consensus state is stored verbatim: its inner Height may be anything
		case 0:
			irn, irh = 0, 0
		case 1:
			irh = rh + 7
		}
		line := fmt.Sprintf("lc %s %d %d 4 1000000000 %s %d %d %s %s %d %d %d", what, td, bd, hx(w.contract), rn, rh, hx(h.hash().Bytes()), hx(st.root.Bytes()), now, irn, irh)
		if what == "upgrade" && l.head != nil {
			line += " " + hx(h.parent.Bytes()) // the upgrade header is a child of the head: the header index keeps the link
		}
		return line
	}
	run := func(op string) string {
		line, out := l.apply(r, w, op)
		emit(line, out)
		return out
	}
	stOf := map[common.Hash]*c08State{}    // own record: accepted header -> the EVM state whose root it carries
	mainAt := func(h uint64) *c08LifeHdr { // the header of the adopted chain (own head's ancestry) at a height
		for x := l.head; x != nil; x = l.known[x.parent] {
			if x.rh == h {
				return x
			}
			if x.rh < h {
				return nil
			}
		}
		return nil
	}
	verifyAll := func(after string) {
		var xs []*c08LifeHdr
		for _, x := range l.known {
			if stOf[x.hash()] != nil && x.rh+5 >= l.head.rh && x.rh <= l.head.rh+4 {
				xs = append(xs, x)
			}
		}
		sort.Slice(xs, func(i, j int) bool {
			if xs[i].rh != xs[j].rh {
				return xs[i].rh < xs[j].rh
			}
			return hx(xs[i].hash().Bytes()) < hx(xs[j].hash().Bytes())
		})
		for _, x := range xs {
			h, st := x.rh, stOf[x.hash()]
			tag := "main"
			if h > l.head.rh {
				tag = "above-head"
			} else if m := mainAt(h); m == nil || (m != x && string(m.root) != string(x.root)) {
				tag = "abandoned"
			}
			var p c08Path
			found := false
			for _, i := range r.Rng.Perm(len(w.paths)) {
				if _, ok := st.accts[string(w.contract)].storage[string(c08Slot(w.paths[i].kind, w.paths[i].src, w.paths[i].dst, w.paths[i].seq))]; ok {
					p, found = w.paths[i], true
					break
				}
			}
			if !found {
				continue
			}
			slot := c08Slot(p.kind, p.src, p.dst, p.seq)
			value := c08Pad32(st.accts[string(w.contract)].storage[string(slot)])
			rec := st.genuine(l.contract, slot)
			run(fmt.Sprintf("lc verify %s %d %d %s %s %d %s %s %s", p.kind, rn, h, hxs(p.src), hxs(p.dst), p.seq, hx(value), base64.StdEncoding.EncodeToString(rec.json()), tag))
			if tag != "main" {
				continue
			}
			depth := l.head.rh - h
			confirmed := depth >= l.bd
			r.Count(fmt.Sprintf("life.%s.%s.%s", shape, after, map[bool]string{true: "confirmed", false: "young"}[confirmed]))
			if depth == l.bd || depth+1 == l.bd {
				r.Count("life.boundary." + shape + "." + after)
			}
		}
	}
	run(cfg("create", td, bd, base, w.states[0]))
	stOf[l.head.hash()] = w.states[0]
	verifyAll("after-create")
	steps := 4 + r.Rng.Intn(5)
	for i := 0; i < steps; i++ {
		now += 12
		next := l.head.rh + 1
		st := w.states[(i+1)%len(w.states)]
		switch x := r.Rng.Intn(12); {
		case x < 2 && i > 0: // upgrade: possibly another delay shape; the old consensus states stay
			shape = []string{"0/N", "N/0", "N/M", "equal"}[r.Rng.Intn(4)]
			td, bd = delays(shape)
			run(cfg("upgrade", td, bd, next, st))
			stOf[l.head.hash()] = st
			verifyAll("after-upgrade")
		case x < 4 && i > 0: // toggle to a TSS client and back: the store is cleared
			shape = []string{"0/N", "N/0", "N/M", "equal"}[r.Rng.Intn(4)]
			td, bd = delays(shape)
			run(cfg("toggle", td, bd, next, st))
			stOf = map[common.Hash]*c08State{l.head.hash(): st}
			verifyAll("after-toggle")
		case x == 4:
			run(fmt.Sprintf("lc update bad %d %d %s %s %d", rn, next, hx((&c08LifeHdr{rn: rn, rh: next, root: st.root.Bytes(), time: now, parent: l.head.hash()}).hash().Bytes()), hx(st.root.Bytes()), now))
			verifyAll("after-rejected-update")
		case x < 8 && len(l.known) > 1:
			// a competing child of another accepted header (an ancestor of the head, or a header of an abandoned branch): the
			// client adopts it, so the head moves down, sideways or up
			var cands []*c08LifeHdr
			for _, x := range l.known {
				if x != l.head && x.hash() != l.head.hash() {
					cands = append(cands, x)
				}
			}
			sort.Slice(cands, func(i, j int) bool { return hx(cands[i].hash().Bytes()) < hx(cands[j].hash().Bytes()) })
			pnt := cands[r.Rng.Intn(len(cands))]
			switch c08LifeCycle2 % 3 { // steer towards the three tip positions
			case 0:
				for _, c := range cands {
					if c.rh+1 < l.head.rh {
						pnt = c
					}
				}
			case 1:
				for _, c := range cands {
					if c.rh+1 == l.head.rh {
						pnt = c
					}
				}
			case 2:
				for _, c := range cands {
					if c.rh+1 > l.head.rh {
						pnt = c
					}
				}
			}
			c08LifeCycle2++
			fst := st
			for _, cand := range w.states { // another root than the headers already known at that height, if possible
				clash := false
				for _, x := range l.known {
					if x.rh == pnt.rh+1 && string(x.root) == string(cand.root.Bytes()) {
						clash = true
					}
				}
				if !clash {
					fst = cand
				}
			}
			h := &c08LifeHdr{rn: rn, rh: pnt.rh + 1, root: fst.root.Bytes(), time: now, parent: pnt.hash()}
			if _, dup := l.known[h.hash()]; dup {
				h.time++ // never the same header twice
			}
			run(fmt.Sprintf("lc update good %d %d %s %s %d %s", rn, h.rh, hx(h.hash().Bytes()), hx(fst.root.Bytes()), h.time, hx(pnt.hash().Bytes())))
			if l.head.hash() == h.hash() {
				stOf[h.hash()] = fst
			}
			verifyAll("after-reorg")
		default:
			h := &c08LifeHdr{rn: rn, rh: next, root: st.root.Bytes(), time: now, parent: l.head.hash()}
			run(fmt.Sprintf("lc update good %d %d %s %s %d", rn, next, hx(h.hash().Bytes()), hx(st.root.Bytes()), now))
			if l.head.hash() == h.hash() {
				stOf[h.hash()] = st
			}
			after := "after-update"
			if l.phase != "create" {
				after = "after-update-after-" + l.phase
			}
			verifyAll(after)
		}
	}
}

var c08LifeCycle2 int

var c08LifeCycle int

// replay of life-cycle lines (a history starts at `lc create`)
func (l *c08Life) replay(r *Rec, w *c08World, line string) (string, string) {
	f := strings.Fields(line)
	if f[1] == "verify" { // strip the derived part, it is recomputed
		if i := strings.Index(line, " | "); i >= 0 {
			line = line[:i]
		}
	}
	return l.apply(r, w, line)
}
