//go:build c01 || c02 || c05

package verifharness

// EVM-secured counterparties of the C01 / C02 / C05 world: a BSC and an ETH light client installed on chain 0
// through the client keeper (client state + consensus states; no header chain — header verification is C09 / C10),
// tracking an EVM world state that the harness builds itself with go-ethereum tries: the packet contract account whose
// storage holds commitments / acknowledgement hashes at keccak(path ‖ pad32(208)), and a second account with the same
// code hash. Proofs are produced with trie.Prove (what eth_getProof returns); the ground truth of the oracle is the
// content of the sealed state whose root the client holds at the proof height — computed without the verifying code.

import (
	"bytes"
	"crypto/sha256"
	"encoding/binary"
	"encoding/json"
	"fmt"
	"math/big"
	"strings"

	"github.com/ethereum/go-ethereum/common"
	"github.com/ethereum/go-ethereum/common/hexutil"
	gethtypes "github.com/ethereum/go-ethereum/core/types"
	"github.com/ethereum/go-ethereum/crypto"
	"github.com/ethereum/go-ethereum/ethdb/memorydb"
	"github.com/ethereum/go-ethereum/light"
	"github.com/ethereum/go-ethereum/rlp"
	"github.com/ethereum/go-ethereum/trie"

	endpointcontract "github.com/teleport-network/teleport/syscontracts/xibc_endpoint"
	bsctypes "github.com/teleport-network/teleport/x/xibc/clients/light-clients/bsc/types"
	ethtypes "github.com/teleport-network/teleport/x/xibc/clients/light-clients/eth/types"
	clienttypes "github.com/teleport-network/teleport/x/xibc/core/client/types"
	"github.com/teleport-network/teleport/x/xibc/core/host"
	packettypes "github.com/teleport-network/teleport/x/xibc/core/packet/types"
	"github.com/teleport-network/teleport/x/xibc/exported"
)

type pktEvmAcct struct {
	addr     []byte
	nonce    uint64
	balance  *big.Int
	codeHash []byte
	storage  map[string][]byte // slot (32 bytes) -> 32-byte value
}

type pktEvmSealedAcct struct {
	pktEvmAcct
	strie *trie.Trie
	sroot common.Hash
}

type pktEvmState struct {
	height uint64
	root   common.Hash
	atrie  *trie.Trie
	accts  map[string]*pktEvmSealedAcct
}

type pktEvmPacket struct {
	bz      []byte
	p       packettypes.Packet
	slot    []byte
	at      uint64 // first sealed height containing the commitment
	recvd   bool
	ackBz   []byte
	outward bool // host -> evm (acknowledgement flow)
	ackAt   uint64
	acked   bool
	class     string // value-boundary class of the stored word (lead0 | lead00 | trail0 | trail00), "" if not ground
	ackStored bool // outward packets: the EVM chain has written the acknowledgement hash under the ack slot
}

type pktEvm struct {
	kind, name string
	host       *pktChain
	contract   []byte
	other      []byte
	cur        map[string]*pktEvmAcct
	states     map[uint64]*pktEvmState
	heights    []uint64
	head       uint64
	delay      uint64
	inSeq      uint64
	in         []*pktEvmPacket
	out        []*pktEvmPacket
	relayerHex string
}

func pktEvmSlot(path []byte) []byte {
	word := make([]byte, 32)
	word[31] = 208
	return crypto.Keccak256(append(append([]byte{}, path...), word...))
}

func pktEvmNewTrie() *trie.Trie {
	t, err := trie.New(common.Hash{}, trie.NewDatabase(memorydb.New()))
	if err != nil {
		panic(err)
	}
	return t
}

func pktEvmStorageTrie(storage map[string][]byte) *trie.Trie {
	t := pktEvmNewTrie()
	for slot, v := range storage {
		enc, _ := rlp.EncodeToBytes(bytes.TrimLeft(v, "\x00"))
		t.Update(crypto.Keccak256([]byte(slot)), enc)
	}
	return t
}

func (ev *pktEvm) seal(h uint64) *pktEvmState {
	st := &pktEvmState{height: h, atrie: pktEvmNewTrie(), accts: map[string]*pktEvmSealedAcct{}}
	for k, a := range ev.cur {
		sa := &pktEvmSealedAcct{pktEvmAcct: pktEvmAcct{addr: a.addr, nonce: a.nonce, balance: new(big.Int).Set(a.balance), codeHash: a.codeHash, storage: map[string][]byte{}}}
		for s, v := range a.storage {
			sa.storage[s] = v
		}
		sa.strie = pktEvmStorageTrie(sa.storage)
		sa.sroot = sa.strie.Hash()
		enc, err := rlp.EncodeToBytes(&gethtypes.StateAccount{Nonce: sa.nonce, Balance: sa.balance, Root: sa.sroot, CodeHash: sa.codeHash})
		if err != nil {
			panic(err)
		}
		st.atrie.Update(crypto.Keccak256(sa.addr), enc)
		st.accts[k] = sa
	}
	st.root = st.atrie.Hash()
	ev.states[h] = st
	ev.heights = append(ev.heights, h)
	return st
}

func pktEvmProve(t *trie.Trie, key []byte) []string {
	var nl light.NodeList
	if err := t.Prove(key, 0, &nl); err != nil {
		panic(err)
	}
	out := make([]string, len(nl))
	for i, n := range nl {
		out[i] = hexutil.Encode(n)
	}
	return out
}

// wire record (snake_case JSON of the generated Proof types of both clients)
type pktEvmSP struct {
	Key   string   `json:"key"`
	Value string   `json:"value"`
	Proof []string `json:"proof"`
}
type pktEvmRec struct {
	Address      string      `json:"address"`
	Balance      string      `json:"balance"`
	CodeHash     string      `json:"code_hash"`
	Nonce        string      `json:"nonce"`
	StorageHash  string      `json:"storage_hash"`
	AccountProof []string    `json:"account_proof"`
	StorageProof []*pktEvmSP `json:"storage_proof"`
}

func (r *pktEvmRec) json() []byte {
	b, err := json.Marshal(r)
	if err != nil {
		panic(err)
	}
	return b
}

func (r *pktEvmRec) clone() *pktEvmRec {
	var c pktEvmRec
	_ = json.Unmarshal(r.json(), &c)
	return &c
}

// genuine: what an honest relayer builds from eth_getProof(account, [slot]) at this state
func (st *pktEvmState) genuine(addr, slot []byte) *pktEvmRec {
	a := st.accts[string(addr)]
	rec := &pktEvmRec{Address: hexutil.Encode(addr), AccountProof: pktEvmProve(st.atrie, crypto.Keccak256(addr)),
		Balance: hexutil.EncodeBig(a.balance), Nonce: hexutil.EncodeUint64(a.nonce), CodeHash: hexutil.Encode(a.codeHash), StorageHash: a.sroot.Hex()}
	val := "0x0"
	if v, ok := a.storage[string(slot)]; ok {
		val = hexutil.EncodeBig(new(big.Int).SetBytes(v))
	}
	rec.StorageProof = []*pktEvmSP{{Key: hexutil.Encode(slot), Value: val, Proof: pktEvmProve(a.strie, crypto.Keccak256(slot))}}
	return rec
}

// pktEvmSame: do two wire records mean the same to a verifier (hex spelling aside; the `value` field is not read)?
func pktEvmSame(a, b []byte) bool {
	if bytes.Equal(a, b) {
		return true
	}
	var x, y pktEvmRec
	if json.Unmarshal(a, &x) != nil || json.Unmarshal(b, &y) != nil {
		return false
	}
	eqList := func(p, q []string) bool {
		if len(p) != len(q) {
			return false
		}
		for i := range p {
			if !bytes.Equal(common.FromHex(p[i]), common.FromHex(q[i])) {
				return false
			}
		}
		return true
	}
	if !bytes.Equal(common.FromHex(x.Address), common.FromHex(y.Address)) || common.HexToHash(x.Balance) != common.HexToHash(y.Balance) ||
		common.HexToHash(x.CodeHash) != common.HexToHash(y.CodeHash) || common.HexToHash(x.Nonce) != common.HexToHash(y.Nonce) ||
		common.HexToHash(x.StorageHash) != common.HexToHash(y.StorageHash) || !eqList(x.AccountProof, y.AccountProof) ||
		len(x.StorageProof) != len(y.StorageProof) {
		return false
	}
	for i := range x.StorageProof {
		if x.StorageProof[i] == nil || y.StorageProof[i] == nil {
			return false
		}
		if common.HexToHash(x.StorageProof[i].Key) != common.HexToHash(y.StorageProof[i].Key) || !eqList(x.StorageProof[i].Proof, y.StorageProof[i].Proof) {
			return false
		}
	}
	return true
}

// ---------------------------------------------------------------------------------------------
// installation on the host chain

func (w *pktWorld) addEvm(hostC *pktChain, kind, name string) *pktEvm {
	ev := &pktEvm{kind: kind, name: name, host: hostC, cur: map[string]*pktEvmAcct{}, states: map[uint64]*pktEvmState{}, inSeq: 1}
	ev.contract = common.HexToAddress("0x00000000000000000000000000000000300000" + map[string]string{"bsc": "b5", "eth": "e7"}[kind]).Bytes()
	ev.other = common.HexToAddress("0x00000000000000000000000000000000400000" + map[string]string{"bsc": "b5", "eth": "e7"}[kind]).Bytes()
	code := crypto.Keccak256([]byte("packet contract runtime code"))
	ev.cur[string(ev.contract)] = &pktEvmAcct{addr: ev.contract, nonce: 1, balance: big.NewInt(0), codeHash: code, storage: map[string][]byte{}}
	ev.cur[string(ev.other)] = &pktEvmAcct{addr: ev.other, nonce: 1, balance: big.NewInt(0), codeHash: code, storage: map[string][]byte{}}
	// some unrelated storage so that the tries have branches
	for i := 0; i < 6; i++ {
		k := crypto.Keccak256([]byte(fmt.Sprintf("slot-%d", i)))
		ev.cur[string(ev.contract)].storage[string(k)] = crypto.Keccak256(k)
		ev.cur[string(ev.other)].storage[string(k)] = crypto.Keccak256(k, k)
	}
	ev.head = 100
	st := ev.seal(ev.head)
	tc := hostC.tc
	ctx := tc.GetContext()
	height := clienttypes.NewHeight(0, ev.head)
	var cs exported.ClientState
	var cons exported.ConsensusState
	switch kind {
	case "bsc":
		ev.delay = 2 // len(Validators)/2 + 1
		hdr := bsctypes.Header{Height: height, Root: st.root.Bytes(), Difficulty: []byte{2}, Extra: make([]byte, 32+65),
			UncleHash: common.HexToHash("0x1dcc4de8dec75d7aab85b567b6ccd41ad312451b948a7413f0a142fd40d49347").Bytes(), Time: 1}
		cs = &bsctypes.ClientState{Header: hdr, ChainId: 56, Epoch: 200, BlockInteval: 3,
			Validators: [][]byte{bytes.Repeat([]byte{1}, 20), bytes.Repeat([]byte{2}, 20), bytes.Repeat([]byte{3}, 20)},
			ContractAddress: ev.contract, TrustingPeriod: 1 << 40}
		cons = &bsctypes.ConsensusState{Timestamp: 1, Height: height, Root: st.root.Bytes()}
	default:
		ev.delay = 3
		hdr := ethtypes.Header{Height: height, Root: st.root.Bytes(), Difficulty: []byte{2}, Time: 1, GasLimit: 10, GasUsed: 1}
		cs = &ethtypes.ClientState{Header: hdr, ChainId: 1, ContractAddress: ev.contract, TrustingPeriod: 1 << 40, TimeDelay: 0, BlockDelay: ev.delay}
		cons = &ethtypes.ConsensusState{Timestamp: 1, Height: height, Root: st.root.Bytes()}
	}
	tc.App.XIBCKeeper.ClientKeeper.SetClientState(ctx, name, cs)
	tc.App.XIBCKeeper.ClientKeeper.SetClientConsensusState(ctx, name, height, cons)
	w.op(fmt.Sprintf("client %s %s %s 0 %d %s 0 0 %d -", hxs(hostC.name), hxs(name), kind, ev.head, hx(st.root.Bytes()), ev.delay), "ok")
	// a token of the host bound to the EVM chain's base token, so that transfers from it execute with code 0
	ctorArgs, _ := erc20Ctor()
	nonce := tc.App.EvmKeeper.GetNonce(ctx, endpointcontract.EndpointContractAddress)
	a := crypto.CreateAddress(endpointcontract.EndpointContractAddress, nonce)
	if res, err := tc.App.AggregateKeeper.CallEVMWithData(ctx, endpointcontract.EndpointContractAddress, nil, ctorArgs); err != nil || res.Failed() {
		w.t.Fatalf("deploy erc20 for %s: %v", name, err)
	}
	if err := tc.App.AggregateKeeper.RegisterERC20Trace(ctx, a, strings.ToLower(common.Address{}.String()), name, uint8(0)); err != nil {
		w.t.Fatal(err)
	}
	hostC.kind[name] = kind
	w.evms = append(w.evms, ev)
	w.evmBy[hostC.name+"|"+name] = ev
	w.commit(hostC)
	return ev
}

// advance seals the current EVM state at a new head and installs its root as consensus state on the host.
func (w *pktWorld) evmAdvance(ev *pktEvm, by uint64) *pktEvmState {
	ev.head += by
	st := ev.seal(ev.head)
	tc := ev.host.tc
	ctx := tc.GetContext()
	height := clienttypes.NewHeight(0, ev.head)
	if ev.host.kind[ev.name] == "tss" {
		return st // toggled to a TSS client: the EVM chain goes on, but there is no light client to feed
	}
	cs, found := tc.App.XIBCKeeper.ClientKeeper.GetClientState(ctx, ev.name)
	if !found {
		w.t.Fatalf("evm client %s vanished", ev.name)
	}
	switch c := cs.(type) {
	case *bsctypes.ClientState:
		c.Header.Height = height
		c.Header.Root = st.root.Bytes()
		tc.App.XIBCKeeper.ClientKeeper.SetClientState(ctx, ev.name, c)
		tc.App.XIBCKeeper.ClientKeeper.SetClientConsensusState(ctx, ev.name, height, &bsctypes.ConsensusState{Timestamp: ev.head, Height: height, Root: st.root.Bytes()})
	case *ethtypes.ClientState:
		c.Header.Height = height
		c.Header.Root = st.root.Bytes()
		tc.App.XIBCKeeper.ClientKeeper.SetClientState(ctx, ev.name, c)
		tc.App.XIBCKeeper.ClientKeeper.SetClientConsensusState(ctx, ev.name, height, &ethtypes.ConsensusState{Timestamp: ev.head, Height: height, Root: st.root.Bytes()})
	default:
		w.t.Fatalf("unexpected client type %T", cs)
	}
	w.op(fmt.Sprintf("cons %s %s 0 %d %s", hxs(ev.host.name), hxs(ev.name), ev.head, hx(st.root.Bytes())), "ok")
	w.r.Count("evm.advance." + ev.kind)
	return st
}

// evmTruth: ground truth for a message verified by the EVM client: the sealed state at the proof height holds exactly
// `value` at the slot of `path` in the packet contract's storage (semantic), and the proof means the same as the
// genuine eth_getProof record for that (state, contract, slot) (genuine).
func (ev *pktEvm) truth(path, value []byte, h clienttypes.Height, proof []byte) (semantic, genuine bool) {
	if h.RevisionNumber != 0 {
		return false, false
	}
	st := ev.states[h.RevisionHeight]
	if st == nil {
		return false, false
	}
	slot := pktEvmSlot(path)
	got, ok := st.accts[string(ev.contract)].storage[string(slot)]
	if !ok || !bytes.Equal(got, value) {
		return false, false
	}
	return true, pktEvmSame(proof, st.genuine(ev.contract, slot).json())
}

// ---------------------------------------------------------------------------------------------
// traffic

// evmSend: the EVM chain "sends" a packet to the host: its commitment appears in the packet contract's storage.
func (w *pktWorld) evmSend(ev *pktEvm, amount int64, store bool) *pktEvmPacket {
	hostC := ev.host
	amt := make([]byte, 32)
	big.NewInt(amount).FillBytes(amt)
	td := packettypes.TransferData{Receiver: strings.ToLower(hostC.tc.SenderAddress.String()), Amount: amt,
		Token: strings.ToLower(common.Address{}.String()), OriToken: ""}
	tdBz, _ := td.ABIPack()
	p := packettypes.Packet{SrcChain: ev.name, DstChain: hostC.name, Sequence: ev.inSeq, Sender: strings.ToLower(hostC.tc.SenderAddress.String()),
		TransferData: tdBz, CallData: []byte{}, CallbackAddress: common.Address{}.String(), FeeOption: 0}
	ev.inSeq++
	bz, _ := p.ABIPack()
	ep := &pktEvmPacket{bz: bz, p: p, slot: pktEvmSlot(host.PacketCommitmentKey(p.SrcChain, p.DstChain, p.Sequence))}
	if store {
		ev.cur[string(ev.contract)].storage[string(ep.slot)] = pktSha(bz)
		ev.cur[string(ev.contract)].nonce++
		ev.in = append(ev.in, ep)
		w.r.Count("evm.send." + ev.kind)
	}
	return ep
}

// evmProvable advances the head so that everything stored so far is sealed and past the confirmation-block delay;
// returns the proof height.
func (w *pktWorld) evmProvable(ev *pktEvm) uint64 {
	st := w.evmAdvance(ev, 1)
	w.evmAdvance(ev, ev.delay)
	return st.height
}

func erc20Ctor() ([]byte, error) {
	ctorArgs, err := erc20ABI().Pack("", "name", "symbol", uint8(18))
	if err != nil {
		return nil, err
	}
	return append(append([]byte{}, erc20Bin()...), ctorArgs...), nil
}

// ---------------------------------------------------------------------------------------------
// value-boundary classes of the stored 32-byte word

// pktWordClass: how many zero bytes the word starts / ends with (the EVM stores the word RLP-trimmed on the left only).
func pktWordClass(h []byte) string {
	switch {
	case h[0] == 0 && h[1] == 0:
		return "lead00"
	case h[0] == 0:
		return "lead0"
	case h[31] == 0 && h[30] == 0:
		return "trail00"
	case h[31] == 0:
		return "trail0"
	}
	return ""
}

// pktGrind varies the 4 low bytes of the 8-byte big-endian marker inside bz (which must occur exactly once) until the
// sha256 of the bytes is of the wanted class; returns nil if the marker is not unique or nothing is found.
func pktGrind(bz, marker []byte, class string, start uint32) []byte {
	if bytes.Count(bz, marker) != 1 {
		return nil
	}
	idx := bytes.Index(bz, marker)
	out := append([]byte{}, bz...)
	for i := uint32(0); i < 1<<22; i++ {
		binary.BigEndian.PutUint32(out[idx+4:idx+8], start+i)
		h := sha256.Sum256(out)
		if pktWordClass(h[:]) == class {
			return out
		}
	}
	return nil
}

// evmGroundPacket: a packet EVM chain -> host (sequence seq) whose commitment sha256(ABIPack p) is of the given class;
// the free field is the transfer amount. nil if grinding failed.
func (w *pktWorld) evmGroundPacket(ev *pktEvm, seq uint64, class string, start uint32) *pktEvmPacket {
	hostC := ev.host
	marker := []byte{0, 0, 0, 9, 0xa7, 0x5e, 0xc1, 0x3d} // amount = 9 * 2^32 + x
	amt := make([]byte, 32)
	copy(amt[24:], marker)
	td := packettypes.TransferData{Receiver: strings.ToLower(hostC.tc.SenderAddress.String()), Amount: amt,
		Token: strings.ToLower(common.Address{}.String()), OriToken: ""}
	tdBz, _ := td.ABIPack()
	p := packettypes.Packet{SrcChain: ev.name, DstChain: hostC.name, Sequence: seq, Sender: strings.ToLower(hostC.tc.SenderAddress.String()),
		TransferData: tdBz, CallData: []byte{}, CallbackAddress: common.Address{}.String(), FeeOption: 0}
	bz0, _ := p.ABIPack()
	bz := pktGrind(bz0, marker, class, start)
	if bz == nil {
		return nil
	}
	var dp packettypes.Packet
	if dp.ABIDecode(bz) != nil {
		return nil
	}
	if re, err := dp.ABIPack(); err != nil || !bytes.Equal(re, bz) {
		return nil // must stay the canonical encoding: the commitment is the hash of the re-packed packet
	}
	return &pktEvmPacket{bz: bz, p: dp, slot: pktEvmSlot(host.PacketCommitmentKey(dp.SrcChain, dp.DstChain, dp.Sequence)), class: class}
}

// evmGroundAck: acknowledgement bytes (code, message, relayer as given; the free field is the result) whose sha256 is of
// the given class.
func (w *pktWorld) evmGroundAck(code uint64, message, relayer string, class string, start uint32) []byte {
	marker := []byte{0x5a, 0x17, 0xc3, 0x09, 0xa7, 0x5e, 0xc1, 0x3d}
	bz0, err := packettypes.NewAcknowledgement(code, marker, message, relayer, 0).ABIPack()
	if err != nil {
		return nil
	}
	bz := pktGrind(bz0, marker, class, start)
	if bz == nil {
		return nil
	}
	var a packettypes.Acknowledgement
	if a.ABIDecode(bz) != nil {
		return nil
	}
	return bz
}

// pktShift: the word a right-padding (resp. left-trimming) comparison would confuse with h:
// h ends in k zero bytes -> 0^k ‖ h[0..32-k);  mirror: h starts with k zero bytes -> h[k..] ‖ 0^k.
func pktShift(h []byte, mirror bool) []byte {
	out := make([]byte, 32)
	if !mirror {
		k := 0
		for k < 32 && h[31-k] == 0 {
			k++
		}
		copy(out[k:], h[:32-k])
		return out
	}
	k := 0
	for k < 32 && h[k] == 0 {
		k++
	}
	copy(out, h[k:])
	return out
}
