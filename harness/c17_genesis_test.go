//go:build c17

package verifharness

// C17 — "the system address runs exactly Staking.sol / Gov.sol" is established at genesis (adapter.InitGenesis inside
// InitChainer). This phase starts whole apps from genesis documents that pass ModuleBasics.ValidateGenesis and carry, at
// BOTH system-contract addresses, every account shape:
//
//   none | codeless (EthAccount, empty code hash) | base (BaseAccount) | genuine (contract account with the embedded
//   Staking / Gov code) | foreign (contract account with an event-forging look-alike: it logs its call data under the
//   Delegated / Voted topic), the last two with and without evm storage.
//
//   genesis <shape> <storage 0|1>   -> <staking code> <gov code>     each `genuine:eth` | `foreign:eth` | `none` | `genuine:<other type>` …
//                                      or `initchain-panic`
// Oracle (independent of the adapter): after InitChain the code at each system address is byte-equal to the embedded
// genuine byte code; then, on that world, an attacker sends a transaction to the system address with call data
// abi(victim, validator, amount) / abi(victim, proposal, option): nothing may happen for the victim (the genuine contracts
// have no such function: the transaction fails and every dump is unchanged); genuine calls by the victim still execute
// natively (standing oracle of `tx`).

import (
	"encoding/hex"
	"encoding/json"
	"fmt"
	"math/big"
	"strings"

	codectypes "github.com/cosmos/cosmos-sdk/codec/types"
	sdk "github.com/cosmos/cosmos-sdk/types"
	authtypes "github.com/cosmos/cosmos-sdk/x/auth/types"
	"github.com/ethereum/go-ethereum/common"
	"github.com/ethereum/go-ethereum/crypto"
	abci "github.com/tendermint/tendermint/abci/types"
	dbm "github.com/tendermint/tm-db"
	"github.com/tharsis/ethermint/encoding"
	ethermint "github.com/tharsis/ethermint/types"
	evm "github.com/tharsis/ethermint/x/evm/types"

	"github.com/teleport-network/teleport/app"
	"github.com/teleport-network/teleport/syscontracts"
	govcontract "github.com/teleport-network/teleport/syscontracts/gov"
	stakingcontract "github.com/teleport-network/teleport/syscontracts/staking"
)

var c17GenesisShapes = []string{"none", "codeless", "base", "genuine", "foreign"}

// c17ForgerCode: CALLDATACOPY(0,0,size); LOG1(0,size,topic); STOP — emits its call data as the data of an event `topic`
func c17ForgerCode(topic common.Hash) []byte {
	code := []byte{0x36, 0x60, 0x00, 0x60, 0x00, 0x37, 0x7f}
	code = append(code, topic.Bytes()...)
	return append(code, 0x36, 0x60, 0x00, 0xa1, 0x00)
}

func c17GenuineCode(which string) []byte {
	if which == "staking" {
		return stakingcontract.StakingContract.Bin
	}
	return govcontract.GovContract.Bin
}

func c17SysAddr(which string) common.Address {
	if which == "staking" {
		return common.HexToAddress(syscontracts.StakingContractAddress)
	}
	return common.HexToAddress(syscontracts.GovContractAddress)
}

func c17ForeignCode(which string) []byte {
	if which == "staking" {
		return c17ForgerCode(stakingcontract.StakingContract.ABI.Events["Delegated"].ID)
	}
	return c17ForgerCode(govcontract.GovContract.ABI.Events["Voted"].ID)
}

// c17GenesisDoc: the default genesis with an account of the given shape at both system-contract addresses
func c17GenesisDoc(shape string, storage bool) (map[string]json.RawMessage, error) {
	enc := encoding.MakeConfig(app.ModuleBasics)
	cdc := enc.Marshaler
	gs := app.NewDefaultGenesisState()
	var authGen authtypes.GenesisState
	cdc.MustUnmarshalJSON(gs[authtypes.ModuleName], &authGen)
	var evmGen evm.GenesisState
	cdc.MustUnmarshalJSON(gs[evm.ModuleName], &evmGen)
	for _, which := range []string{"staking", "gov"} {
		addr := c17SysAddr(which)
		base := authtypes.NewBaseAccountWithAddress(sdk.AccAddress(addr.Bytes()))
		var acc authtypes.GenesisAccount
		var code []byte
		switch shape {
		case "none":
			continue
		case "base":
			acc = base
		case "codeless":
			acc = &ethermint.EthAccount{BaseAccount: base, CodeHash: common.BytesToHash(crypto.Keccak256(nil)).Hex()}
		case "genuine":
			code = c17GenuineCode(which)
		case "foreign":
			code = c17ForeignCode(which)
		}
		if code != nil {
			acc = &ethermint.EthAccount{BaseAccount: base, CodeHash: crypto.Keccak256Hash(code).Hex()}
			ga := evm.GenesisAccount{Address: addr.Hex(), Code: hex.EncodeToString(code)}
			if storage {
				ga.Storage = evm.Storage{{Key: common.Hash{}.Hex(), Value: common.BytesToHash([]byte{0xc1, 0x17}).Hex()},
					{Key: common.BytesToHash([]byte{7}).Hex(), Value: common.BytesToHash(addr.Bytes()).Hex()}}
			}
			evmGen.Accounts = append(evmGen.Accounts, ga)
		}
		any, err := codectypes.NewAnyWithValue(acc)
		if err != nil {
			return nil, err
		}
		authGen.Accounts = append(authGen.Accounts, any)
	}
	gs[authtypes.ModuleName] = cdc.MustMarshalJSON(&authGen)
	gs[evm.ModuleName] = cdc.MustMarshalJSON(&evmGen)
	if err := app.ModuleBasics.ValidateGenesis(cdc, enc.TxConfig, gs); err != nil {
		return nil, err
	}
	return gs, nil
}

// c17CodeAt: what runs at the address (independent reading through the account and evm keepers)
func c17CodeAt(a *app.Teleport, ctx sdk.Context, which string) (string, bool) {
	acc := a.AccountKeeper.GetAccount(ctx, c17SysAddr(which).Bytes())
	if acc == nil {
		return "none", false
	}
	eth, ok := acc.(*ethermint.EthAccount)
	if !ok {
		return fmt.Sprintf("nocode:%T", acc), false
	}
	code := a.EvmKeeper.GetCode(ctx, common.HexToHash(eth.CodeHash))
	genuine := string(code) == string(c17GenuineCode(which))
	switch {
	case genuine:
		return "genuine:eth", true
	case len(code) == 0:
		return "codeless:eth", false
	default:
		return "foreign:eth", false
	}
}

func c17GenesisPhase(r *Rec) {
	for _, shape := range c17GenesisShapes {
		for _, storage := range []bool{false, true} {
			if storage && shape != "genuine" && shape != "foreign" {
				continue
			}
			c17GenesisCase(r, shape, storage)
		}
	}
}

func c17GenesisCase(r *Rec, shape string, storage bool) {
	op := fmt.Sprintf("genesis %s %s", shape, b01(storage))
	find := func(sig, what, obs, req string) {
		r.Find(Finding{Sig: sig, What: what, Ops: []string{op}, Obs: obs, Req: req})
	}
	gs, err := c17GenesisDoc(shape, storage)
	if err != nil {
		// the generator must only produce documents the chain's own validation accepts
		r.t.Fatalf("c17 genesis %s: document rejected by ValidateGenesis: %v", shape, err)
	}
	stateBytes, _ := json.MarshalIndent(gs, "", " ")
	a := c17NewApp(dbm.NewMemDB())
	pan, msg := safely(func() {
		a.InitChain(abci.RequestInitChain{ChainId: "teleport_9000-1", Validators: []abci.ValidatorUpdate{}, ConsensusParams: app.DefaultConsensusParams, AppStateBytes: stateBytes})
	})
	r.Count("genesis.shape." + shape)
	if storage {
		r.Count("genesis.with-storage")
	}
	if pan {
		// a start-up panic on some account shape is the business of the no-panic property (C15), not of this one; it is
		// recorded (and compared with the model's expectation, which says the install overwrites every prior account)
		r.Count("genesis.initchain-panic")
		r.Extra["genesis.panic."+shape] = msg
		r.Op(op, "initchain-panic")
		return
	}
	w := newC17WorldOn(a, false)
	var obs []string
	for _, which := range []string{"staking", "gov"} {
		o, genuine := c17CodeAt(a, w.ctx, which)
		obs = append(obs, o)
		if !genuine {
			find("C17:system-address-code-not-genuine:"+which+":"+shape, "after InitChain the code at the "+which+" system-contract address is not the embedded genuine byte code",
				o, "genuine:eth")
		}
	}
	r.Op(op, strings.Join(obs, " "))
	r.Nontrivial(op)

	// ---- the attacker names a victim
	attacker, victim := 0, w.eoas[2]
	e18 := new(big.Int).Exp(big.NewInt(10), big.NewInt(18), nil)
	sd, _ := stakingcontract.StakingContract.ABI.Events["Delegated"].Inputs.Pack(victim, w.vals[0].String(), e18)
	gd, _ := govcontract.GovContract.ABI.Events["Voted"].Inputs.Pack(victim, uint64(1), uint32(3))
	for _, at := range []struct {
		which string
		data  []byte
	}{{"staking", sd}, {"gov", gd}} {
		before := w.dump(w.ctx)
		res := w.sendTx(attacker, c17SysAddr(at.which), big.NewInt(0), at.data)
		after := w.dump(w.ctx)
		r.Count("genesis.attack." + at.which + "." + res.status)
		if after != before {
			find("C17:forged-native-action:"+at.which+":"+shape, "a transaction sent by an attacker to the "+at.which+" system address, naming a victim in its call data, changed native state (a message was executed for an account that did not send the transaction)",
				after, before)
		} else if res.status == "ok" {
			find("C17:system-address-accepts-foreign-call:"+at.which+":"+shape, "the "+at.which+" system address accepted call data that is no function of the genuine contract", "ok", "vmfail")
		}
	}
	// ---- genuine calls by the victim still reach the native modules (standing oracle of `tx`)
	w.hist = []string{"# " + op}
	for _, call := range []*c17Call{
		{fn: "delegate", v1: w.vals[1].String(), amt: e18},
		{fn: "vote", pid: 1, opt: 2},
		{fn: "undelegate", v1: w.vals[1].String(), amt: big.NewInt(5)},
	} {
		line := "tx " + hx(victim.Bytes()) + " " + w.nodeToks(&c17Node{tag: 'S', kind: 'c', call: call})
		_, out := w.applyTx(r, strings.Fields(line), false)
		if strings.HasPrefix(out, "ok") {
			r.Count("genesis.genuine-call-ok")
		}
	}
}
