//go:build c15

package verifharness

// C15 generator: histories of proposals / genesis states that are mostly accepted by stateless validation but
// degenerate (zero epoch, zero / huge heights and chain ids, empty and oversized byte fields, duplicate and unsorted
// denom units, empty lists, nil and wrongly typed Any values, missing consensus state, client / consensus type mismatch …).
// EXT fields are written as "0" / "f" / "err" placeholders; apply() recomputes them.

import (
	"fmt"
	"strings"
)

func c15pick(r *Rec, xs ...string) string { return xs[r.Rng.Intn(len(xs))] }
func c15coin(r *Rec, pct int) bool          { return r.Rng.Intn(100) < pct }
func c15bit(r *Rec, pctOne int) string      { return c15f(c15coin(r, pctOne)) }

var c15Chains = []string{"bsc-a", "eth-b", "tmc-c", "tss-d"}

func c15chain(r *Rec) string { return hxs(c15Chains[r.Rng.Intn(len(c15Chains))]) }

const c15U64Max = "18446744073709551615"
const c15I64Max = "9223372036854775807"
const c15I64MaxP1 = "9223372036854775808"

// strictly valid client state of a random type (what a careful operator would submit)
func c15validCS(r *Rec) string {
	switch r.Rng.Intn(4) {
	case 0:
		// (height 0 and an epoch header without validators are rejected since 6c8eeb9 / 24f4cfb)
		return fmt.Sprintf("bsc:%s:56:%s:%s:1:1:%s:%s:0", c15pick(r, "1", "200"), c15pick(r, "200", "400", "1000"), c15pick(r, "117", "137", "197"), c15pick(r, "0", "256"), c15pick(r, "0", "8"))
	case 1:
		return fmt.Sprintf("eth:%s:30000000:5000:%s:0", c15pick(r, "1", "100", "7"), c15pick(r, "0", "256"))
	case 2:
		return fmt.Sprintf("tm:0:1:100:200:10:%s:0:0", c15pick(r, "1", "7"))
	}
	return "tss:1"
}

func c15genBsc(r *Rec, mostlyValid bool) string {
	if c15coin(r, 15) { // everything valid and sealed, Extra length at the boundaries of the two slice expressions
		return fmt.Sprintf("bsc:%s:56:%s:%s:1:1:0:0:0", c15pick(r, "1", "200"), c15pick(r, "0", "200", "400", "400"),
			c15pick(r, "32", "64", "65", "66", "96", "97", "98", "116", "117", "137"))
	}
	if mostlyValid && c15coin(r, 70) {
		ep := c15pick(r, "1", "200", "100")
		h := c15pick(r, "0", "200", "400", "1000", "200", "400")
		return fmt.Sprintf("bsc:%s:%s:%s:%s:1:1:%s:%s:0", ep, c15pick(r, "56", "97", "0", c15I64Max), h,
			c15pick(r, "97", "117", "137", "98", "197", "117", "137"), c15pick(r, "0", "256"), c15pick(r, "0", "8"))
	}
	return fmt.Sprintf("bsc:%s:%s:%s:%s:%s:%s:%s:%s:%s",
		c15pick(r, "0", "0", "1", "200", c15U64Max),
		c15pick(r, "0", "56", c15I64Max, c15I64MaxP1, c15U64Max),
		c15pick(r, "0", "0", "1", "200", "400", c15I64MaxP1, c15U64Max),
		c15pick(r, "0", "31", "32", "64", "65", "96", "97", "97", "98", "117", "137"),
		c15bit(r, 85), c15bit(r, 85),
		c15pick(r, "0", "255", "256", "257", "300"),
		c15pick(r, "0", "8", "9"),
		c15bit(r, 30))
}

func c15genEth(r *Rec, mostlyValid bool) string {
	if mostlyValid && c15coin(r, 70) {
		return fmt.Sprintf("eth:%s:%s:%s:%s:0", c15pick(r, "0", "1", "100", "1", "100"), c15pick(r, "5000", "30000000", c15I64Max), c15pick(r, "0", "5000"), c15pick(r, "0", "256"))
	}
	return fmt.Sprintf("eth:%s:%s:%s:%s:%s",
		c15pick(r, "0", "0", "1", "100", c15U64Max),
		c15pick(r, "0", "5000", c15I64Max, c15I64MaxP1, c15U64Max),
		c15pick(r, "0", "0", "5000", "5001", c15U64Max),
		c15pick(r, "0", "32", "256", "257", "300", "1024"),
		c15bit(r, 30))
}

func c15genTm(r *Rec, mostlyValid bool) string {
	if mostlyValid && c15coin(r, 70) {
		return fmt.Sprintf("tm:0:1:%s:%s:%s:%s:0:0", c15pick(r, "100", "1"), c15pick(r, "200", "1000"), c15pick(r, "10", "1", "-5"), c15pick(r, "1", "7", c15U64Max))
	}
	return fmt.Sprintf("tm:%s:%s:%s:%s:%s:%s:%s:%s", c15bit(r, 15), c15bit(r, 85),
		c15pick(r, "0", "1", "100", "-100", c15I64Max), c15pick(r, "0", "1", "200", "-1", c15I64Max), c15pick(r, "0", "10", "-10"),
		c15pick(r, "0", "1", "7", c15U64Max), c15bit(r, 10), c15bit(r, 10))
}

func c15genCS(r *Rec, mostlyValid bool) string {
	switch x := r.Rng.Intn(100); {
	case x < 4:
		return "nil"
	case x < 8:
		return "wrong"
	case x < 40:
		return c15genBsc(r, mostlyValid)
	case x < 65:
		return c15genEth(r, mostlyValid)
	case x < 85:
		return c15genTm(r, mostlyValid)
	default:
		return "tss:" + c15bit(r, 85)
	}
}

func c15genCons(r *Rec, cs string) string {
	// mostly the matching type; sometimes missing, wrong interface, or another client's type
	t := strings.Split(cs, ":")[0]
	if t == "nil" || t == "wrong" {
		t = "tm"
	}
	switch x := r.Rng.Intn(100); {
	case x < 70:
		return t
	case x < 78:
		return "nil"
	case x < 84:
		return "wrong"
	default:
		return c15pick(r, "tm", "bsc", "eth", "tss")
	}
}

func c15genClientOp(r *Rec, kind string) string {
	cs := c15genCS(r, true)
	cons := c15genCons(r, cs)
	sig := c15pick(r, "g", "g", "g", "m", "f")
	abs := c15bit(r, 93)
	switch kind {
	case "create":
		ch := c15chain(r)
		if c15coin(r, 4) {
			ch = hxs("teleport") // the chain's own name (3b1567f)
		}
		return strings.Join([]string{"create", abs, ch, cs, cons, sig, "0"}, " ")
	case "upgrade":
		return strings.Join([]string{"upgrade", abs, c15chain(r), cs, cons, sig, "0", "0", "0"}, " ")
	}
	return strings.Join([]string{"toggle", abs, c15chain(r), cs, cons, sig, "0"}, " ")
}

func c15genXgen(r *Rec) string {
	out := []string{"xgen", c15bit(r, 92), c15bit(r, 92)}
	nC := r.Rng.Intn(4)
	out = append(out, fmt.Sprint(nC))
	var chains []string
	for i := 0; i < nC; i++ {
		ch := c15chain(r)
		if c15coin(r, 6) {
			ch = hxs("x") // too short an identifier
		}
		chains = append(chains, ch)
		if c15coin(r, 75) {
			out = append(out, "0", ch, c15validCS(r))
		} else {
			out = append(out, "0", ch, c15genCS(r, true))
		}
	}
	nK := 0
	if nC > 0 {
		nK = r.Rng.Intn(4)
	} else if c15coin(r, 10) {
		nK = 1
		chains = append(chains, c15chain(r))
	}
	out = append(out, fmt.Sprint(nK))
	for i := 0; i < nK; i++ {
		ch := chains[r.Rng.Intn(len(chains))]
		if c15coin(r, 8) {
			ch = hxs("unknown-chain")
		}
		k := r.Rng.Intn(3)
		out = append(out, ch, fmt.Sprint(k))
		for j := 0; j < k; j++ {
			out = append(out, c15bit(r, 6), c15pick(r, "tm", "bsc", "bsc", "tss", "bsc", "eth", "nil", "wrong"), c15bit(r, 90), "0")
		}
	}
	nM := 0
	if nC > 0 && c15coin(r, 40) {
		nM = 1
	}
	out = append(out, fmt.Sprint(nM))
	for i := 0; i < nM; i++ {
		ch := chains[r.Rng.Intn(len(chains))]
		k := r.Rng.Intn(3)
		out = append(out, ch, fmt.Sprint(k))
		for j := 0; j < k; j++ {
			out = append(out, c15bit(r, 8), c15bit(r, 8))
		}
	}
	return strings.Join(out, " ")
}

var c15Bases = []string{"acoin", "bcoin", "atele", "ccoin", "ibc/27394FB092D2ECCD56123C74F36E4C1F926001CEADA9CA97EA622B25F41E5EB2", "a", "Bad Denom"}

func c15genMeta(r *Rec) string {
	base := c15Bases[r.Rng.Intn(len(c15Bases))]
	name := base
	if c15coin(r, 25) {
		name = c15pick(r, "Coin Name", " ", "acoin", "channel-0 coin")
	}
	display := base
	k := r.Rng.Intn(4)
	if c15coin(r, 60) && k == 0 {
		k = 1
	}
	var units []string
	exp := 0
	for i := 0; i < k; i++ {
		d := base
		if i > 0 {
			d = c15pick(r, "m"+base, "big"+base, base, "xx", "u")
			exp += r.Rng.Intn(4) // 0 ⇒ unsorted / duplicate exponent
			if c15coin(r, 40) {
				display = d
			}
		} else if c15coin(r, 10) {
			d = "other"
		} else if c15coin(r, 8) {
			exp = 6
		}
		units = append(units, hxs(d), fmt.Sprint(exp), "0")
	}
	if c15coin(r, 8) {
		display = "nodisplay"
	}
	sym := c15bit(r, 7)
	return strings.Join(append([]string{"0", sym, "0", "0", hxs(name), hxs(base), hxs(display), fmt.Sprint(k)}, units...), " ")
}

var c15Addrs = []string{"00000000000000000000000000000000000000c1", "00000000000000000000000000000000000000c2"}

func (w *c15World) c15genAddr(r *Rec) string {
	x := r.Rng.Intn(10)
	if x < 3 {
		return c15addrTok(w.ercPool[r.Rng.Intn(len(w.ercPool))])
	}
	if x < 7 {
		if ps := w.app.AggregateKeeper.GetAllTokenPairs(w.ctx); len(ps) > 0 {
			return c15addrTok(ps[r.Rng.Intn(len(ps))].GetERC20Contract())
		}
	}
	return c15Addrs[r.Rng.Intn(len(c15Addrs))]
}

func c15genNum(r *Rec) string { return c15pick(r, "x", "0", "-1", "1", "2", "3", "10", "100000000000000000000000000") }

func c15genAgen(r *Rec) string {
	n := r.Rng.Intn(4)
	out := []string{"agen", c15bit(r, 85), fmt.Sprint(n)}
	for i := 0; i < n; i++ {
		addr := c15pick(r, c15Addrs[0], c15Addrs[1], "00000000000000000000000000000000000000c3", hxs("0x12"), hxs(""))
		k := r.Rng.Intn(4)
		if k == 0 && c15coin(r, 60) {
			k = 1
		}
		out = append(out, addr, "0", fmt.Sprint(k))
		for j := 0; j < k; j++ {
			out = append(out, hxs(c15pick(r, "acoin", "bcoin", "ccoin", "dcoin", "a", "")), "0")
		}
	}
	return strings.Join(out, " ")
}

func c15genRvgen(r *Rec) string {
	k := r.Rng.Intn(4)
	out := []string{"rvgen", c15bit(r, 50), fmt.Sprint(k)}
	if c15coin(r, 45) { // a valid reward list
		ds := []string{"atele", "acoin", "bcoin"}
		k = 1 + r.Rng.Intn(3)
		out[2] = fmt.Sprint(k)
		for i := 0; i < k; i++ {
			out = append(out, hxs(ds[i]), c15pick(r, "0", "1", "5", "100000000000000000"))
		}
		k = 0
	}
	for i := 0; i < k; i++ {
		out = append(out, hxs(c15pick(r, "atele", "acoin", "bcoin", "a", "", "Bad Denom")), c15pick(r, "1", "5", "0", "-1", "nil", "100000000000000000"))
	}
	return strings.Join(append(out, c15pick(r, "none", "none", "bad", "good", "good"), "0", c15bit(r, 60)), " ")
}

func c15GenHistory(r *Rec, w *c15World) []string {
	h := []string{"reset"}
	emit := func(op string) { h = append(h, op) }
	// genesis part (only directly after reset)
	if c15coin(r, 45) {
		emit(c15genXgen(r))
	}
	if c15coin(r, 35) {
		emit(c15genAgen(r))
	}
	if c15coin(r, 30) {
		emit(c15genRvgen(r))
	}
	// the generator needs the world state for address pools: run the prefix now
	n := 4 + r.Rng.Intn(10)
	for i := 0; i < n; i++ {
		switch x := r.Rng.Intn(100); {
		case x < 22:
			emit(c15genClientOp(r, "create"))
		case x < 36:
			emit(c15genClientOp(r, "upgrade"))
		case x < 50:
			emit(c15genClientOp(r, "toggle"))
		case x < 55:
			na := r.Rng.Intn(3)
			nc := na
			if c15coin(r, 25) {
				nc = r.Rng.Intn(3)
			}
			emit(strings.Join([]string{"relayer", c15bit(r, 92), c15bit(r, 90), fmt.Sprint(nc), fmt.Sprint(na), c15bit(r, 90)}, " "))
		case x < 68:
			emit("regcoin " + c15genMeta(r) + " 0 0 0 0 err")
		case x < 76:
			emit("addcoin " + c15genMeta(r) + " 0 " + c15pick(r, "-", "ADDR") + " 0 0 0")
		case x < 81:
			emit("regerc20 0 ADDR err")
		case x < 87:
			if c15coin(r, 50) {
				emit("togglerelay 0 e:ADDR")
			} else {
				emit("togglerelay 0 d:" + hxs(c15pick(r, "acoin", "bcoin", "ccoin", "a", "ibc/27394FB092D2ECCD56123C74F36E4C1F926001CEADA9CA97EA622B25F41E5EB2")))
			}
		case x < 92:
			emit("updatepair 0 ADDR ADDR 0 0 0")
		case x < 94:
			emit("trace " + c15bit(r, 90) + " 0")
		case x < 96:
			emit("disable " + c15bit(r, 90) + " 0")
		default:
			if c15coin(r, 50) {
				emit("enable 1 " + c15pick(r, "1", "60") + " 1000 100 10 1 0")
			} else {
				emit(strings.Join([]string{"enable", c15bit(r, 90), c15genNum(r), c15genNum(r), c15genNum(r), c15genNum(r), c15bit(r, 90), "0"}, " "))
			}
		}
	}
	return h
}

// ADDR placeholders are resolved against the current world state when the op is applied
func (w *c15World) resolveAddrs(r *Rec, op string) string {
	for strings.Contains(op, "ADDR") {
		op = strings.Replace(op, "ADDR", w.c15genAddr(r), 1)
	}
	return op
}
