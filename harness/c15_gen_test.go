//go:build c15

package verifharness

// C15 generator: histories of proposals / genesis states that are mostly accepted by stateless validation but
// degenerate (zero epoch, zero / huge heights and chain ids, empty and oversized byte fields, duplicate and unsorted
// denom units, empty lists, nil and wrongly typed Any values, missing consensus state, client / consensus type mismatch …).
// EXT fields are written as "0" / "f" / "err" placeholders; apply() recomputes them.

import (
	"fmt"
	"math/big"
	"strings"

	"github.com/ethereum/go-ethereum/common"
)

func c15pick(r *Rec, xs ...string) string { return xs[r.Rng.Intn(len(xs))] }
func c15coin(r *Rec, pct int) bool          { return r.Rng.Intn(100) < pct }
func c15bit(r *Rec, pctOne int) string      { return c15f(c15coin(r, pctOne)) }

var c15Chains = []string{"bsc-a", "eth-b", "tmc-c", "tss-d"}

func c15chain(r *Rec) string { return hxs(c15Chains[r.Rng.Intn(len(c15Chains))]) }

const c15U64Max = "18446744073709551615"
const c15I64Max = "9223372036854775807"
const c15I64MaxP1 = "9223372036854775808"

// strictly valid client state of a random type (what a careful operator would submit)
func c15validCS(r *Rec) string {
	switch r.Rng.Intn(4) {
	case 0:
		// (height 0 and an epoch header without validators are rejected since 6c8eeb9 / 24f4cfb)
		return fmt.Sprintf("bsc:%s:56:%s:%s:1:1:%s:%s:0", c15pick(r, "1", "200"), c15pick(r, "200", "400", "1000"), c15pick(r, "117", "137", "197"), c15pick(r, "0", "256"), c15pick(r, "0", "8"))
	case 1:
		return fmt.Sprintf("eth:%s:30000000:5000:%s:0", c15pick(r, "1", "100", "7"), c15pick(r, "0", "256"))
	case 2:
		return fmt.Sprintf("tm:0:1:100:200:10:%s:0:0", c15pick(r, "1", "7"))
	}
	return "tss:1"
}

func c15genBsc(r *Rec, mostlyValid bool) string {
	if c15coin(r, 15) { // everything valid and sealed, Extra length at the boundaries of the two slice expressions
		return fmt.Sprintf("bsc:%s:56:%s:%s:1:1:0:0:0", c15pick(r, "1", "200"), c15pick(r, "0", "200", "400", "400"),
			c15pick(r, "32", "64", "65", "66", "96", "97", "98", "116", "117", "137"))
	}
	if mostlyValid && c15coin(r, 70) {
		ep := c15pick(r, "1", "200", "100")
		h := c15pick(r, "0", "200", "400", "1000", "200", "400")
		return fmt.Sprintf("bsc:%s:%s:%s:%s:1:1:%s:%s:0", ep, c15pick(r, "56", "97", "0", c15I64Max), h,
			c15pick(r, "97", "117", "137", "98", "197", "117", "137"), c15pick(r, "0", "256"), c15pick(r, "0", "8"))
	}
	return fmt.Sprintf("bsc:%s:%s:%s:%s:%s:%s:%s:%s:%s",
		c15pick(r, "0", "0", "1", "200", c15U64Max),
		c15pick(r, "0", "56", c15I64Max, c15I64MaxP1, c15U64Max),
		c15pick(r, "0", "0", "1", "200", "400", c15I64MaxP1, c15U64Max),
		c15pick(r, "0", "31", "32", "64", "65", "96", "97", "97", "98", "117", "137"),
		c15bit(r, 85), c15bit(r, 85),
		c15pick(r, "0", "255", "256", "257", "300"),
		c15pick(r, "0", "8", "9"),
		c15bit(r, 30))
}

func c15genEth(r *Rec, mostlyValid bool) string {
	if mostlyValid && c15coin(r, 70) {
		return fmt.Sprintf("eth:%s:%s:%s:%s:0", c15pick(r, "0", "1", "100", "1", "100"), c15pick(r, "5000", "30000000", c15I64Max), c15pick(r, "0", "5000"), c15pick(r, "0", "256"))
	}
	return fmt.Sprintf("eth:%s:%s:%s:%s:%s",
		c15pick(r, "0", "0", "1", "100", c15U64Max),
		c15pick(r, "0", "5000", c15I64Max, c15I64MaxP1, c15U64Max),
		c15pick(r, "0", "0", "5000", "5001", c15U64Max),
		c15pick(r, "0", "32", "256", "257", "300", "1024"),
		c15bit(r, 30))
}

func c15genTm(r *Rec, mostlyValid bool) string {
	if mostlyValid && c15coin(r, 70) {
		return fmt.Sprintf("tm:0:1:%s:%s:%s:%s:0:0", c15pick(r, "100", "1"), c15pick(r, "200", "1000"), c15pick(r, "10", "1", "-5"), c15pick(r, "1", "7", c15U64Max))
	}
	return fmt.Sprintf("tm:%s:%s:%s:%s:%s:%s:%s:%s", c15bit(r, 15), c15bit(r, 85),
		c15pick(r, "0", "1", "100", "-100", c15I64Max), c15pick(r, "0", "1", "200", "-1", c15I64Max), c15pick(r, "0", "10", "-10"),
		c15pick(r, "0", "1", "7", c15U64Max), c15bit(r, 10), c15bit(r, 10))
}

func c15genCS(r *Rec, mostlyValid bool) string {
	switch x := r.Rng.Intn(100); {
	case x < 4:
		return "nil"
	case x < 8:
		return "wrong"
	case x < 40:
		return c15genBsc(r, mostlyValid)
	case x < 65:
		return c15genEth(r, mostlyValid)
	case x < 85:
		return c15genTm(r, mostlyValid)
	default:
		return "tss:" + c15bit(r, 85)
	}
}

func c15genCons(r *Rec, cs string) string {
	// mostly the matching type; sometimes missing, wrong interface, or another client's type
	t := strings.Split(cs, ":")[0]
	if t == "nil" || t == "wrong" {
		t = "tm"
	}
	switch x := r.Rng.Intn(100); {
	case x < 68:
		if t == "tm" && c15coin(r, 25) { // tendermint consensus state with degenerate content (rejected by its ValidateBasic since fafdbf1)
			return "tm:" + c15pick(r, "1:1:1", "0:0:1", "0:1:0", "1:0:0", "0:1:1")
		}
		return t
	case x < 76:
		return "nil"
	case x < 82:
		return "wrong"
	case x < 86:
		return "tm:" + c15pick(r, "1:1:1", "0:0:1", "0:1:0", "0:1:1")
	default:
		return c15pick(r, "tm", "bsc", "eth", "tss")
	}
}

func c15genClientOp(r *Rec, kind string) string {
	cs := c15genCS(r, true)
	cons := c15genCons(r, cs)
	sig := c15pick(r, "g", "g", "g", "m", "f")
	abs := c15bit(r, 93)
	hint := ""
	if strings.HasPrefix(cs, "tss:") {
		hint = c15rawHint(r, 35, "tss", "bech")
	}
	switch kind {
	case "create":
		ch := c15chain(r)
		if c15coin(r, 4) {
			ch = hxs("teleport") // the chain's own name (3b1567f)
		}
		return strings.Join([]string{"create", abs, ch, cs, cons, sig, "0"}, " ") + hint
	case "upgrade":
		return strings.Join([]string{"upgrade", abs, c15chain(r), cs, cons, sig, "0", "0", "0"}, " ") + hint
	}
	return strings.Join([]string{"toggle", abs, c15chain(r), cs, cons, sig, "0"}, " ") + hint
}

func c15genXgen(r *Rec) string {
	out := []string{"xgen", c15bit(r, 92), c15bit(r, 92)}
	nC := r.Rng.Intn(4)
	out = append(out, fmt.Sprint(nC))
	var chains []string
	for i := 0; i < nC; i++ {
		ch := c15chain(r)
		if c15coin(r, 6) {
			ch = hxs("x") // too short an identifier
		}
		chains = append(chains, ch)
		if c15coin(r, 75) {
			out = append(out, "0", ch, c15validCS(r))
		} else {
			out = append(out, "0", ch, c15genCS(r, true))
		}
	}
	nK := 0
	if nC > 0 {
		nK = r.Rng.Intn(4)
	} else if c15coin(r, 10) {
		nK = 1
		chains = append(chains, c15chain(r))
	}
	out = append(out, fmt.Sprint(nK))
	for i := 0; i < nK; i++ {
		ch := chains[r.Rng.Intn(len(chains))]
		if c15coin(r, 8) {
			ch = hxs("unknown-chain")
		}
		k := r.Rng.Intn(3)
		out = append(out, ch, fmt.Sprint(k))
		for j := 0; j < k; j++ {
			out = append(out, c15bit(r, 6), c15pick(r, "tm", "bsc", "bsc", "tss", "bsc", "eth", "nil", "wrong"), c15bit(r, 90), "0")
		}
	}
	nM := 0
	if nC > 0 && c15coin(r, 40) {
		nM = 1
	}
	out = append(out, fmt.Sprint(nM))
	for i := 0; i < nM; i++ {
		ch := chains[r.Rng.Intn(len(chains))]
		k := r.Rng.Intn(3)
		out = append(out, ch, fmt.Sprint(k))
		for j := 0; j < k; j++ {
			out = append(out, c15bit(r, 8), c15bit(r, 8))
		}
	}
	return strings.Join(out, " ")
}

var c15Bases = []string{"acoin", "bcoin", "atele", "ccoin", "ibc/27394FB092D2ECCD56123C74F36E4C1F926001CEADA9CA97EA622B25F41E5EB2", "a", "Bad Denom"}

func c15genMeta(r *Rec) string {
	base := c15Bases[r.Rng.Intn(len(c15Bases))]
	name := base
	if c15coin(r, 25) {
		name = c15pick(r, "Coin Name", " ", "acoin", "channel-0 coin")
	}
	display := base
	k := r.Rng.Intn(4)
	if c15coin(r, 60) && k == 0 {
		k = 1
	}
	var units []string
	exp := 0
	for i := 0; i < k; i++ {
		d := base
		if i > 0 {
			d = c15pick(r, "m"+base, "big"+base, base, "xx", "u")
			exp += r.Rng.Intn(4) // 0 ⇒ unsorted / duplicate exponent
			if c15coin(r, 40) {
				display = d
			}
		} else if c15coin(r, 10) {
			d = "other"
		} else if c15coin(r, 8) {
			exp = 6
		}
		units = append(units, hxs(d), fmt.Sprint(exp), "0")
	}
	if c15coin(r, 8) {
		display = "nodisplay"
	}
	sym := c15bit(r, 7)
	return strings.Join(append([]string{"0", sym, "0", "0", hxs(name), hxs(base), hxs(display), fmt.Sprint(k)}, units...), " ")
}

var c15Addrs = []string{"00000000000000000000000000000000000000c1", "00000000000000000000000000000000000000c2"}

func (w *c15World) c15genAddr(r *Rec) string {
	x := r.Rng.Intn(10)
	if x < 3 {
		return c15addrTok(w.ercPool[r.Rng.Intn(len(w.ercPool))])
	}
	if x < 7 {
		if ps := w.app.AggregateKeeper.GetAllTokenPairs(w.ctx); len(ps) > 0 {
			return c15addrTok(ps[r.Rng.Intn(len(ps))].GetERC20Contract())
		}
	}
	return c15Addrs[r.Rng.Intn(len(c15Addrs))]
}

// ---- lexical pools -------------------------------------------------------------------------------------------
// The property quantifies over ALL contents accepted by stateless validation, so string-typed numeric / address fields
// are drawn in many spellings and handed to the REAL ValidateBasic; whatever it accepts goes to the handler.

// spellings of the non-negative integer v (some denote v for a base-0 parser only, some for nobody)
func c15numSpelling(r *Rec, v *big.Int) string {
	dec := v.String()
	switch r.Rng.Intn(30) {
	case 0:
		return "+" + dec
	case 1:
		return "-" + dec
	case 2:
		return "00" + dec
	case 3:
		return "0x" + v.Text(16)
	case 4:
		return "0X" + strings.ToUpper(v.Text(16))
	case 5:
		return "0b" + v.Text(2)
	case 6:
		return "0o" + v.Text(8)
	case 7:
		return "0" + v.Text(8) // octal for base 0, another decimal number for base 10
	case 8:
		if len(dec) > 1 {
			return dec[:1] + "_" + dec[1:]
		}
		return "0_" + dec
	case 9:
		return " " + dec
	case 10:
		return dec + " "
	case 11:
		return "\t" + dec + "\n"
	case 12:
		if z := strings.TrimRight(dec, "0"); z != "" && len(z) < len(dec) {
			return fmt.Sprintf("%se%d", z, len(dec)-len(z))
		}
		return dec + "e0"
	case 13:
		return dec + ".0"
	case 14:
		return strings.Repeat("0", 90) + dec
	case 15:
		return dec + strings.Repeat("0", 90) // very long (another value)
	case 16:
		return ""
	case 17:
		return "+-" + dec
	case 18:
		return "\u2212" + dec // unicode minus
	case 19: // full-width digits
		out := ""
		for _, c := range dec {
			out += string(rune(0xFF10 + (c - '0')))
		}
		return out
	case 20: // arabic-indic digits
		out := ""
		for _, c := range dec {
			out += string(rune(0x0660 + (c - '0')))
		}
		return out
	case 21:
		return "0x"
	case 22:
		return "0x_" + v.Text(16)
	case 23:
		return dec[:1] + "," + dec[1:] + "000"
	case 24:
		return "0B" + v.Text(2)
	case 25:
		return "0O" + v.Text(8)
	case 26:
		return "0x" + strings.ToUpper(v.Text(16))
	case 27:
		return "+0x" + v.Text(16)
	case 28:
		return dec + "_"
	}
	return "12a"
}

func c15big(x string) *big.Int { v, _ := new(big.Int).SetString(x, 10); return v }

// the four numeric fields of an EnableTimeBasedSupplyLimitProposal: period, limit, max, min (hex of the literal strings)
func c15genLimitNums(r *Rec) [4]string {
	var v [4]*big.Int // period, limit, max, min
	switch x := r.Rng.Intn(100); {
	case x < 70: // coherent: period > 0, 0 < min < max < limit
		mn := c15big(c15pick(r, "1", "7", "10", "1000", "100000000000000000000"))
		mx := new(big.Int).Mul(mn, big.NewInt(int64(2+r.Rng.Intn(60))))
		lim := new(big.Int).Add(mx, big.NewInt(int64(1+r.Rng.Intn(1000))))
		v = [4]*big.Int{c15big(c15pick(r, "1", "60", "3600", "86400")), lim, mx, mn}
	case x < 85: // boundaries of the order relations
		mn := big.NewInt(int64(r.Rng.Intn(3)))
		mx := big.NewInt(mn.Int64() + int64(r.Rng.Intn(2)))
		lim := big.NewInt(mx.Int64() + int64(r.Rng.Intn(2)))
		v = [4]*big.Int{big.NewInt(int64(r.Rng.Intn(2))), lim, mx, mn}
	default:
		for i := range v {
			v[i] = c15big(c15pick(r, "0", "1", "2", "3", "10", "100000000000000000000000000",
				"115792089237316195423570985008687907853269984665640564039457584007913129639936"))
		}
	}
	var out [4]string
	nd := 0
	for i := range v {
		sp := v[i].String()
		if c15coin(r, 28) {
			sp = c15numSpelling(r, v[i])
			nd++
		}
		out[i] = hxs(sp)
	}
	return out
}

// spellings of a 20-byte address given as 40 lower-case hex digits
func c15addrSpelling(r *Rec, canon string) string {
	a := common.HexToAddress("0x" + canon)
	switch r.Rng.Intn(20) {
	case 0:
		return "0x" + canon
	case 1:
		return "0X" + canon
	case 2:
		return canon
	case 3:
		return "0x" + strings.ToUpper(canon)
	case 4:
		return strings.ToUpper(canon)
	case 5:
		return a.Hex()
	case 6:
		return " " + a.Hex()
	case 7:
		return a.Hex() + " "
	case 8:
		return "0x" + canon[1:] // 39 digits
	case 9:
		return "0x" + canon + "0" // 41 digits
	case 10:
		return "0x" + canon + canon
	case 11:
		return "0x" + canon[:20] + "_" + canon[21:]
	case 12:
		return ""
	case 13:
		return "0x"
	case 14:
		return "0x" + canon[:39] + "\uFF11" // a full-width digit
	case 15:
		return "0x0x" + canon[2:]
	case 16:
		return "0x" + canon[:39] + "g"
	case 17:
		return "0x" + strings.Repeat("0", 24) + canon // 32-byte word
	case 18:
		return "\t0x" + canon
	}
	return "0x" + canon[:38] + "zz"
}

// spellings of a bech32 account address
func c15bech32Spelling(r *Rec, addr string) string {
	switch r.Rng.Intn(12) {
	case 0:
		return strings.ToUpper(addr)
	case 1:
		return strings.ToUpper(addr[:10]) + addr[10:]
	case 2:
		return " " + addr
	case 3:
		return addr + " "
	case 4:
		return addr + "\n"
	case 5:
		return ""
	case 6:
		return "   "
	case 7:
		return "cosmos1" + addr[strings.IndexByte(addr, '1')+1:]
	case 8:
		return addr[:len(addr)-1]
	case 9:
		return addr + addr
	case 10:
		return "0x" + strings.Repeat("ab", 20) // an eth-style address where bech32 is expected
	}
	return addr
}

// raw=<name>:@<kind> placeholders are resolved (like ADDR) when the op is applied
func c15rawHint(r *Rec, pct int, name, kind string) string {
	if c15coin(r, pct) {
		return " raw=" + name + ":@" + kind
	}
	return ""
}

func c15genAgen(r *Rec) string {
	n := r.Rng.Intn(4)
	out := []string{"agen", c15bit(r, 85), fmt.Sprint(n)}
	for i := 0; i < n; i++ {
		addr := c15pick(r, c15Addrs[0], c15Addrs[1], "00000000000000000000000000000000000000c3", hxs("0x12"), hxs(""))
		k := r.Rng.Intn(4)
		if k == 0 && c15coin(r, 60) {
			k = 1
		}
		out = append(out, addr, "0", fmt.Sprint(k))
		for j := 0; j < k; j++ {
			out = append(out, hxs(c15pick(r, "acoin", "bcoin", "ccoin", "dcoin", "a", "")), "0")
		}
	}
	return strings.Join(out, " ")
}

func c15genRvgen(r *Rec) string {
	k := r.Rng.Intn(4)
	out := []string{"rvgen", c15bit(r, 50), fmt.Sprint(k)}
	if c15coin(r, 45) { // a valid reward list
		ds := []string{"atele", "acoin", "bcoin"}
		k = 1 + r.Rng.Intn(3)
		out[2] = fmt.Sprint(k)
		for i := 0; i < k; i++ {
			out = append(out, hxs(ds[i]), c15pick(r, "0", "1", "5", "100000000000000000"))
		}
		k = 0
	}
	for i := 0; i < k; i++ {
		out = append(out, hxs(c15pick(r, "atele", "acoin", "bcoin", "a", "", "Bad Denom")), c15pick(r, "1", "5", "0", "-1", "nil", "100000000000000000"))
	}
	return strings.Join(append(out, c15pick(r, "none", "none", "bad", "good", "good"), "0", c15bit(r, 60)), " ") + c15rawHint(r, 25, "f", "from")
}

func c15GenHistory(r *Rec, w *c15World) []string {
	h := []string{"reset"}
	emit := func(op string) { h = append(h, op) }
	// genesis part (only directly after reset)
	if c15coin(r, 45) {
		emit(c15genXgen(r))
	}
	if c15coin(r, 35) {
		emit(c15genAgen(r))
	}
	if c15coin(r, 30) {
		emit(c15genRvgen(r))
	}
	// the generator needs the world state for address pools: run the prefix now
	n := 4 + r.Rng.Intn(10)
	for i := 0; i < n; i++ {
		switch x := r.Rng.Intn(100); {
		case x < 20:
			emit(c15genClientOp(r, "create"))
		case x < 33:
			emit(c15genClientOp(r, "upgrade"))
		case x < 46:
			emit(c15genClientOp(r, "toggle"))
		case x < 51:
			na := r.Rng.Intn(3)
			nc := na
			if c15coin(r, 25) {
				nc = r.Rng.Intn(3)
			}
			emit(strings.Join([]string{"relayer", c15bit(r, 92), c15bit(r, 90), fmt.Sprint(nc), fmt.Sprint(na), c15bit(r, 90)}, " ") + c15rawHint(r, 35, "addr", "bech"))
		case x < 63:
			emit("regcoin " + c15genMeta(r) + " 0 0 0 0 err")
		case x < 71:
			emit("addcoin " + c15genMeta(r) + " 0 " + c15pick(r, "-", "ADDR") + " 0 0 0" + c15rawHint(r, 30, "c", "contract"))
		case x < 76:
			emit("regerc20 0 ADDR err" + c15rawHint(r, 35, "a", "f2"))
		case x < 82:
			if c15coin(r, 50) {
				emit("togglerelay 0 e:ADDR" + c15rawHint(r, 35, "t", "f2e"))
			} else {
				emit("togglerelay 0 d:" + hxs(c15pick(r, "acoin", "bcoin", "ccoin", "a", "ibc/27394FB092D2ECCD56123C74F36E4C1F926001CEADA9CA97EA622B25F41E5EB2")))
			}
		case x < 87:
			emit("updatepair 0 ADDR ADDR 0 0 0" + c15rawHint(r, 25, "o", "f2") + c15rawHint(r, 25, "n", "f3"))
		case x < 89:
			emit("trace " + c15bit(r, 90) + " 0" + c15rawHint(r, 35, "a", "pool"))
		case x < 91:
			emit("disable " + c15bit(r, 90) + " 0" + c15rawHint(r, 35, "a", "pool"))
		default:
			n := c15genLimitNums(r)
			emit(strings.Join([]string{"enable", c15bit(r, 93), n[0], n[1], n[2], n[3], c15bit(r, 93), "0"}, " ") + c15rawHint(r, 25, "a", "pool"))
		}
	}
	return h
}

// ADDR placeholders are resolved against the current world state when the op is applied
func (w *c15World) resolveAddrs(r *Rec, op string) string {
	for strings.Contains(op, "ADDR") {
		op = strings.Replace(op, "ADDR", w.c15genAddr(r), 1)
	}
	if !strings.Contains(op, ":@") {
		return op
	}
	var f, hints []string
	for _, t := range strings.Fields(op) {
		if strings.HasPrefix(t, "raw=") {
			hints = append(hints, t)
		} else {
			f = append(f, t)
		}
	}
	isAddr := func(t string) bool { return len(t) == 40 && common.IsHexAddress(t) }
	for _, h := range hints {
		i := strings.Index(h, ":@")
		if i < 0 {
			f = append(f, h)
			continue
		}
		name, kind, sp := h[4:i], h[i+2:], ""
		base := w.c15genAddr(r)
		switch kind {
		case "f2":
			base = f[2]
		case "f2e":
			base = strings.TrimPrefix(f[2], "e:")
		case "f3":
			base = f[3]
		case "contract":
			if t := f[len(f)-4]; isAddr(t) {
				base = t
			}
		}
		switch kind {
		case "bech":
			sp = c15bech32Spelling(r, w.funded.String())
		case "from":
			sp = c15bech32Spelling(r, c15pick(r, w.funded.String(), w.funded.String(), w.unfunded.String()))
		default:
			if !isAddr(base) {
				base = c15Addrs[0]
			}
			sp = c15addrSpelling(r, base)
		}
		f = append(f, "raw="+name+":"+hxs(sp))
	}
	return strings.Join(f, " ")
}
