//go:build c17

package verifharness

// C17 — world: a real app with the Staking / Gov system contracts deployed at genesis (adapter.InitGenesis inside
// InitChainer), bonded validators created through the real MsgCreateValidator handler, funded EOAs, two hand-assembled
// helper contracts (generic proxy: CALL / DELEGATECALL / LOG0 / LOG1 / REVERT interpreter), governance proposals in
// voting and deposit period. Every history runs on a cache context of this base state.

import (
	"encoding/binary"
	"fmt"
	"math/big"
	"sort"
	"strings"
	"time"

	"github.com/cosmos/cosmos-sdk/crypto/keys/ed25519"
	sdk "github.com/cosmos/cosmos-sdk/types"
	authtypes "github.com/cosmos/cosmos-sdk/x/auth/types"
	bankkeeper "github.com/cosmos/cosmos-sdk/x/bank/keeper"
	govtypes "github.com/cosmos/cosmos-sdk/x/gov/types"
	"github.com/cosmos/cosmos-sdk/x/staking"
	stakingtypes "github.com/cosmos/cosmos-sdk/x/staking/types"
	"github.com/ethereum/go-ethereum/common"
	ethtypes "github.com/ethereum/go-ethereum/core/types"
	"github.com/ethereum/go-ethereum/crypto"
	abci "github.com/tendermint/tendermint/abci/types"
	tmproto "github.com/tendermint/tendermint/proto/tendermint/types"
	"github.com/tharsis/ethermint/crypto/ethsecp256k1"
	"github.com/tharsis/ethermint/server/config"
	"github.com/tharsis/ethermint/tests"
	evm "github.com/tharsis/ethermint/x/evm/types"

	adbank "github.com/teleport-network/teleport/adapter/bank"
	"github.com/teleport-network/teleport/app"
	"github.com/teleport-network/teleport/syscontracts"
	govcontract "github.com/teleport-network/teleport/syscontracts/gov"
	stakingcontract "github.com/teleport-network/teleport/syscontracts/staking"
)

// ---- tiny EVM assembler -------------------------------------------------------------------------

const (
	c17STOP         = 0x00
	c17ADD          = 0x01
	c17LT           = 0x10
	c17EQ           = 0x14
	c17ISZERO       = 0x15
	c17AND          = 0x16
	c17SHR          = 0x1c
	c17CALLDATALOAD = 0x35
	c17CALLDATASIZE = 0x36
	c17CALLDATACOPY = 0x37
	c17POP          = 0x50
	c17SLOAD        = 0x54
	c17SSTORE       = 0x55
	c17JUMP         = 0x56
	c17JUMPI        = 0x57
	c17GAS          = 0x5a
	c17JUMPDEST     = 0x5b
	c17PUSH1        = 0x60
	c17PUSH2        = 0x61
	c17DUP1         = 0x80
	c17SWAP1        = 0x90
	c17LOG0         = 0xa0
	c17LOG1         = 0xa1
	c17LOG2         = 0xa2
	c17CALL         = 0xf1
	c17DELEGATECALL = 0xf4
	c17CREATE2      = 0xf5
	c17STATICCALL   = 0xfa
	c17REVERT       = 0xfd
)

// c17asm assembles: int = opcode byte, [1]int{n} = PUSH1 n, "@l" defines label l (emits JUMPDEST), ":l" = PUSH2 <addr of l>.
func c17asm(items ...interface{}) []byte {
	var out []byte
	labels := map[string]int{}
	type fix struct {
		pos int
		l   string
	}
	var fixes []fix
	for _, it := range items {
		switch v := it.(type) {
		case int:
			out = append(out, byte(v))
		case [1]int:
			out = append(out, c17PUSH1, byte(v[0]))
		case string:
			if strings.HasPrefix(v, "@") {
				labels[v[1:]] = len(out)
				out = append(out, c17JUMPDEST)
			} else {
				out = append(out, c17PUSH2, 0, 0)
				fixes = append(fixes, fix{len(out) - 2, v[1:]})
			}
		default:
			panic("c17asm: bad item")
		}
	}
	for _, f := range fixes {
		a, ok := labels[f.l]
		if !ok {
			panic("c17asm: no label " + f.l)
		}
		binary.BigEndian.PutUint16(out[f.pos:], uint16(a))
	}
	return out
}

func c17dup(n int) int  { return c17DUP1 + n - 1 }
func c17swap(n int) int { return c17SWAP1 + n - 1 }

// c17ProxyCode: interpreter of a list of segments in calldata. On entry storage slot 0 is incremented.
//
//	op&0x0f: 0 CALL, 1 DELEGATECALL : [target:20][len:2][payload]     (op&0x10: ignore failure of the sub call)
//	         2 LOG1 : [topic:32][len:2][data]      3 LOG0 : [len:2][data]      4 REVERT
//	         5 STATICCALL, 6 CALL with value 1 : like 0      8 LOG2 : [topic1:32][topic2:32][len:2][data]
//	         7 CREATE2 + CALL : [salt:32][ilen:2][initcode][plen:2][payload]   (deploys initcode, then CALLs the new
//	           contract with payload; op&0x10 as above)
func c17ProxyCode() []byte {
	p := func(n int) [1]int { return [1]int{n} }
	return c17asm(
		p(0), c17SLOAD, p(1), c17ADD, p(0), c17SSTORE,
		p(0),
		"@loop",
		c17CALLDATASIZE, c17dup(2), c17LT, ":body", c17JUMPI,
		c17STOP,
		"@body",
		c17dup(1), c17CALLDATALOAD, p(248), c17SHR, // [p op]
		c17dup(1), p(0x0f), c17AND, // [p op kind]
		c17dup(1), p(4), c17EQ, ":rev", c17JUMPI,
		c17dup(1), p(2), c17EQ, ":log1", c17JUMPI,
		c17dup(1), p(3), c17EQ, ":log0", c17JUMPI,
		c17dup(1), p(8), c17EQ, ":log2", c17JUMPI,
		c17dup(1), p(7), c17EQ, ":create2", c17JUMPI,
		c17dup(3), p(1), c17ADD, c17CALLDATALOAD, p(96), c17SHR, // [p op kind tgt]
		c17dup(4), p(21), c17ADD, c17CALLDATALOAD, p(240), c17SHR, // [p op kind tgt len]
		c17dup(1), c17dup(6), p(23), c17ADD, p(0), c17CALLDATACOPY,
		c17dup(3), p(1), c17EQ, ":dcall", c17JUMPI,
		c17dup(3), p(5), c17EQ, ":scall", c17JUMPI,
		c17dup(3), p(6), c17EQ, ":vcall", c17JUMPI,
		p(0), p(0), c17dup(3), p(0), p(0), c17dup(7), c17GAS, c17CALL,
		":after", c17JUMP,
		"@vcall",
		p(0), p(0), c17dup(3), p(0), p(1), c17dup(7), c17GAS, c17CALL,
		":after", c17JUMP,
		"@scall",
		p(0), p(0), c17dup(3), p(0), c17dup(6), c17GAS, c17STATICCALL,
		":after", c17JUMP,
		"@dcall",
		p(0), p(0), c17dup(3), p(0), c17dup(6), c17GAS, c17DELEGATECALL,
		"@after", // [p op kind tgt len success]
		":next", c17JUMPI,
		c17dup(4), p(0x10), c17AND, ":next", c17JUMPI,
		p(0), p(0), c17REVERT,
		"@next",                          // [p op kind tgt len]
		c17dup(5), c17ADD, p(23), c17ADD, // [p op kind tgt newp]
		c17swap(4), c17POP, c17POP, c17POP, c17POP,
		":loop", c17JUMP,
		"@log1",                                                   // [p op kind]
		c17dup(3), p(33), c17ADD, c17CALLDATALOAD, p(240), c17SHR, // [p op kind len]
		c17dup(1), c17dup(5), p(35), c17ADD, p(0), c17CALLDATACOPY,
		c17dup(4), p(1), c17ADD, c17CALLDATALOAD, // [p op kind len topic]
		c17dup(2), p(0), c17LOG1, // [p op kind len]
		c17dup(4), c17ADD, p(35), c17ADD, // [p op kind newp]
		c17swap(3), c17POP, c17POP, c17POP,
		":loop", c17JUMP,
		"@log0",
		c17dup(3), p(1), c17ADD, c17CALLDATALOAD, p(240), c17SHR, // [p op kind len]
		c17dup(1), c17dup(5), p(3), c17ADD, p(0), c17CALLDATACOPY,
		c17dup(1), p(0), c17LOG0,
		c17dup(4), c17ADD, p(3), c17ADD,
		c17swap(3), c17POP, c17POP, c17POP,
		":loop", c17JUMP,
		"@log2",                                                   // [p op kind]
		c17dup(3), p(65), c17ADD, c17CALLDATALOAD, p(240), c17SHR, // [p op kind len]
		c17dup(1), c17dup(5), p(67), c17ADD, p(0), c17CALLDATACOPY,
		c17dup(4), p(33), c17ADD, c17CALLDATALOAD, // [p op kind len topic2]
		c17dup(5), p(1), c17ADD, c17CALLDATALOAD, // [p op kind len topic2 topic1]
		c17dup(3), p(0), c17LOG2, // LOG2(offset, size, topic1, topic2) -> [p op kind len]
		c17dup(4), c17ADD, p(67), c17ADD,
		c17swap(3), c17POP, c17POP, c17POP,
		":loop", c17JUMP,
		"@create2",                                                // [p op kind]
		c17dup(3), p(33), c17ADD, c17CALLDATALOAD, p(240), c17SHR, // [p op kind ilen]
		c17dup(1), c17dup(5), p(35), c17ADD, p(0), c17CALLDATACOPY,
		c17dup(4), p(1), c17ADD, c17CALLDATALOAD, // [p op kind ilen salt]
		c17dup(2), p(0), p(0), c17CREATE2, // [p op kind ilen addr]
		c17dup(2), c17dup(6), c17ADD, p(35), c17ADD, // [p op kind ilen addr q]
		c17dup(1), c17CALLDATALOAD, p(240), c17SHR, // [p op kind ilen addr q plen]
		c17dup(1), c17dup(3), p(2), c17ADD, p(0), c17CALLDATACOPY,
		p(0), p(0), c17dup(3), p(0), p(0), c17dup(8), c17GAS, c17CALL, // [p op kind ilen addr q plen success]
		c17dup(4), c17ISZERO, c17ISZERO, c17AND,
		":c2ok", c17JUMPI,
		c17dup(6), p(0x10), c17AND, ":c2ok", c17JUMPI,
		p(0), p(0), c17REVERT,
		"@c2ok",              // [p op kind ilen addr q plen]
		c17ADD, p(2), c17ADD, // [p op kind ilen addr newp]
		c17swap(5), c17POP, c17POP, c17POP, c17POP, c17POP,
		":loop", c17JUMP,
		"@rev",
		p(0), p(0), c17REVERT,
	)
}

func c17SegCall(kind byte, ignore bool, target common.Address, payload []byte) []byte {
	op := kind
	if ignore {
		op |= 0x10
	}
	out := []byte{op}
	out = append(out, target.Bytes()...)
	out = append(out, byte(len(payload)>>8), byte(len(payload)))
	return append(out, payload...)
}

func c17SegLog1(topic common.Hash, data []byte) []byte {
	out := []byte{2}
	out = append(out, topic.Bytes()...)
	out = append(out, byte(len(data)>>8), byte(len(data)))
	return append(out, data...)
}

func c17SegLog2(t1, t2 common.Hash, data []byte) []byte {
	out := []byte{8}
	out = append(out, t1.Bytes()...)
	out = append(out, t2.Bytes()...)
	out = append(out, byte(len(data)>>8), byte(len(data)))
	return append(out, data...)
}

// c17InitCode: constructor returning the helper contract's runtime code (a fresh helper contract at a new address)
func c17InitCode() []byte {
	rt := c17ProxyCode()
	stub := []byte{c17PUSH2, byte(len(rt) >> 8), byte(len(rt)), c17DUP1, c17PUSH1, 12, c17PUSH1, 0, 0x39 /*CODECOPY*/, c17PUSH1, 0, 0xf3 /*RETURN*/}
	return append(stub, rt...)
}

func c17Create2Addr(creator common.Address, salt common.Hash) common.Address {
	return crypto.CreateAddress2(creator, salt, crypto.Keccak256(c17InitCode()))
}

func c17SegCreate2(ignore bool, salt common.Hash, payload []byte) []byte {
	op := byte(7)
	if ignore {
		op |= 0x10
	}
	ic := c17InitCode()
	out := []byte{op}
	out = append(out, salt.Bytes()...)
	out = append(out, byte(len(ic)>>8), byte(len(ic)))
	out = append(out, ic...)
	out = append(out, byte(len(payload)>>8), byte(len(payload)))
	return append(out, payload...)
}

func c17SegLog0(data []byte) []byte {
	out := []byte{3, byte(len(data) >> 8), byte(len(data))}
	return append(out, data...)
}

// ---- world ------------------------------------------------------------------------------------------

type c17World struct {
	app   *app.Teleport
	base  sdk.Context
	ctx   sdk.Context
	denom string

	eoaKeys        []*ethsecp256k1.PrivKey
	eoas           []common.Address
	proxies        []common.Address
	plain          common.Address // funded account without code and without key (call target without code)
	vals           []sdk.ValAddress
	valOps         []sdk.AccAddress
	unknown        sdk.ValAddress // well-formed operator address without validator
	stakingA, govA common.Address
	obk            adbank.OverwriteBankKeeper
	hist           []string
	named          map[string]string // bech32 acc address -> hex
	skip           bool              // after `slash`: shares != tokens, the model's outputs are not compared until the next reset
	maskB          bool              // after `allocate`: rewards outstanding, balances and supply are not compared
}

var c17BlockTime = time.Date(2022, 6, 1, 0, 0, 0, 0, time.UTC)

func c17Fund(a *app.Teleport, ctx sdk.Context, to sdk.AccAddress, denom string, amt sdk.Int) {
	c := sdk.NewCoins(sdk.NewCoin(denom, amt))
	if err := a.BankKeeper.MintCoins(ctx, "aggregate", c); err != nil {
		panic(err)
	}
	if err := a.BankKeeper.SendCoinsFromModuleToAccount(ctx, "aggregate", to, c); err != nil {
		panic(err)
	}
}

func c17Pow10(n int64) sdk.Int {
	return sdk.NewIntFromBigInt(new(big.Int).Exp(big.NewInt(10), big.NewInt(n), nil))
}

// c17UnbondingTime: staking parameter of the worlds (short, so that maturities are reached inside a history while the
// governance periods of two days are not)
const c17UnbondingTime = 6 * time.Hour

func newC17World() *c17World { return newC17WorldOn(app.Setup(false, nil), true) }

// foreign: plant coins of a second denomination in module accounts (targets of the `burn` operation). Not on the
// committed chain: the crisis module's invariants (run every 5th block there) rightly reject such coins.
func newC17WorldOn(a *app.Teleport, foreign bool) *c17World {
	ctx := a.BaseApp.NewContext(false, tmproto.Header{Height: 1, ChainID: "teleport_9000-1", Time: c17BlockTime})
	w := &c17World{app: a, base: ctx, named: map[string]string{}}
	w.denom = a.StakingKeeper.BondDenom(ctx)
	w.stakingA = common.HexToAddress(syscontracts.StakingContractAddress)
	w.govA = common.HexToAddress(syscontracts.GovContractAddress)
	w.obk = adbank.NewOverwriteBankKeeper(a.BankKeeper.(bankkeeper.BaseKeeper))
	sp := a.StakingKeeper.GetParams(ctx)
	sp.UnbondingTime = c17UnbondingTime
	a.StakingKeeper.SetParams(ctx, sp)

	// validators: three bonded (self delegation 5e18, 7e18, 9e18), created through the real handler
	for i := 0; i < 3; i++ {
		op := sdk.AccAddress(append([]byte("c17-validator-op-000"), byte('0'+i))[1:21])
		c17Fund(a, ctx, op, w.denom, c17Pow10(20))
		pk := ed25519.GenPrivKeyFromSecret([]byte(fmt.Sprintf("c17-cons-%d", i))).PubKey()
		self := c17Pow10(18).MulRaw(int64(5 + 2*i))
		msg, err := stakingtypes.NewMsgCreateValidator(sdk.ValAddress(op), pk, sdk.NewCoin(w.denom, self),
			stakingtypes.NewDescription(fmt.Sprintf("v%d", i), "", "", "", ""),
			stakingtypes.NewCommissionRates(sdk.ZeroDec(), sdk.OneDec(), sdk.ZeroDec()), sdk.OneInt())
		if err != nil {
			panic(err)
		}
		if _, err := a.MsgServiceRouter().Handler(msg)(ctx, msg); err != nil {
			panic(err)
		}
		if i == 0 {
			h := ctx.BlockHeader()
			h.ProposerAddress = sdk.ConsAddress(pk.Address())
			ctx = ctx.WithBlockHeader(h)
			w.base = ctx
		}
		w.vals = append(w.vals, sdk.ValAddress(op))
		w.valOps = append(w.valOps, op)
	}
	staking.EndBlocker(ctx, a.StakingKeeper)
	for _, v := range w.vals {
		val, ok := a.StakingKeeper.GetValidator(ctx, v)
		if !ok || !val.IsBonded() {
			panic("c17: validator not bonded")
		}
	}
	w.unknown = sdk.ValAddress([]byte("c17-no-such-validator")[:20])

	// EOAs
	for i := 0; i < 3; i++ {
		k := &ethsecp256k1.PrivKey{Key: common.LeftPadBytes([]byte{0xc1, 0x17, byte(i + 1)}, 32)}
		addr := common.BytesToAddress(k.PubKey().Address().Bytes())
		w.eoaKeys = append(w.eoaKeys, k)
		w.eoas = append(w.eoas, addr)
		c17Fund(a, ctx, addr.Bytes(), w.denom, c17Pow10(21))
		if ed := a.EvmKeeper.GetParams(ctx).EvmDenom; ed != w.denom {
			c17Fund(a, ctx, addr.Bytes(), ed, c17Pow10(21))
		}
	}
	// helper contracts
	code := c17ProxyCode()
	for i := 0; i < 2; i++ {
		addr := common.BytesToAddress(append([]byte{0xc1, 0x70, 0x00, 0x00}, byte(0xa0+i)))
		a.SetEVMCode(ctx, addr, code)
		c17Fund(a, ctx, addr.Bytes(), w.denom, c17Pow10(21))
		if ed := a.EvmKeeper.GetParams(ctx).EvmDenom; ed != w.denom {
			c17Fund(a, ctx, addr.Bytes(), ed, c17Pow10(21))
		}
		w.proxies = append(w.proxies, addr)
	}
	// one account rich enough for delegations of 2^64 … 2^128 (boundary values of the amount field)
	c17Fund(a, ctx, w.eoas[1].Bytes(), w.denom, sdk.NewIntFromBigInt(new(big.Int).Lsh(big.NewInt(1), 130)))
	for _, m := range []string{govtypes.ModuleName, stakingtypes.BondedPoolName, stakingtypes.NotBondedPoolName, "distribution"} {
		if !foreign {
			break
		}
		c := sdk.NewCoins(sdk.NewCoin("uatom", sdk.NewInt(5000)))
		if err := a.BankKeeper.MintCoins(ctx, "aggregate", c); err != nil {
			panic(err)
		}
		if err := a.BankKeeper.SendCoinsFromModuleToModule(ctx, "aggregate", m, c); err != nil {
			panic(err)
		}
	}
	w.plain = common.BytesToAddress([]byte{0xc1, 0x70, 0x00, 0x00, 0xee})
	c17Fund(a, ctx, w.plain.Bytes(), w.denom, c17Pow10(18))

	// governance: proposals 1 and 3 in voting period, proposal 2 in deposit period
	govParams := a.GovKeeper.GetDepositParams(ctx)
	minDep := govParams.MinDeposit
	proposer := sdk.AccAddress(w.eoas[2].Bytes())
	for i, dep := range []sdk.Coins{minDep, sdk.NewCoins(), minDep} {
		content := govtypes.NewTextProposal(fmt.Sprintf("p%d", i), "c17")
		if len(dep) > 0 && dep[0].Denom != w.denom {
			c17Fund(a, ctx, proposer, dep[0].Denom, dep[0].Amount)
		}
		msg, err := govtypes.NewMsgSubmitProposal(content, dep, proposer)
		if err != nil {
			panic(err)
		}
		if _, err := a.MsgServiceRouter().Handler(msg)(ctx, msg); err != nil {
			panic(err)
		}
	}
	p1, _ := a.GovKeeper.GetProposal(ctx, 1)
	p2, _ := a.GovKeeper.GetProposal(ctx, 2)
	p3, _ := a.GovKeeper.GetProposal(ctx, 3)
	// block height 1 begins for real (distribution records the proposer, evm / feemarket set up their block state)
	a.BeginBlocker(ctx, abci.RequestBeginBlock{Header: ctx.BlockHeader()})
	if p1.Status != govtypes.StatusVotingPeriod || p2.Status != govtypes.StatusDepositPeriod || p3.Status != govtypes.StatusVotingPeriod {
		panic("c17: proposal setup")
	}
	w.reset()
	return w
}

func (w *c17World) reset() {
	w.ctx, _ = w.base.CacheContext()
	w.hist = nil
	w.skip, w.maskB = false, false
}

// ---- observation ------------------------------------------------------------------------------------

func (w *c17World) actors() []common.Address {
	out := append([]common.Address{}, w.eoas...)
	out = append(out, w.proxies...)
	out = append(out, w.plain)
	return out
}

func c17hexA(a []byte) string { return hx(a) }

func (w *c17World) valIndex(v string) string {
	for i, x := range w.vals {
		if x.String() == v {
			return fmt.Sprintf("k%d", i)
		}
	}
	return "?" + v
}

func (w *c17World) accHex(bech string) string {
	a, err := sdk.AccAddressFromBech32(bech)
	if err != nil {
		return "?" + bech
	}
	return hx(a)
}

// dump: canonical observation of contract-visible and native state.
//
//	C: proxy counters (storage slot 0)    B: bank balances of actors, staking pools, fee collector; S: total supply of bond denom
//	D: delegations (delegator/validator=shares, exchange rate is 1 in every generated history)
//	U: unbonding delegations (entries' balances)   R: redelegations   V: votes   G: deposits
func (w *c17World) dump(ctx sdk.Context) string {
	var sb strings.Builder
	sb.WriteString("C:")
	for i, p := range w.proxies {
		if i > 0 {
			sb.WriteByte(',')
		}
		v := w.app.EvmKeeper.GetState(ctx, p, common.Hash{})
		sb.WriteString(new(big.Int).SetBytes(v.Bytes()).String())
	}
	sb.WriteString(" B:")
	bal := func(a sdk.AccAddress) string { return w.app.BankKeeper.GetBalance(ctx, a, w.denom).Amount.String() }
	var bs []string
	for _, a := range w.actors() {
		bs = append(bs, bal(a.Bytes()))
	}
	bs = append(bs, bal(authtypes.NewModuleAddress(stakingtypes.BondedPoolName)),
		bal(authtypes.NewModuleAddress(stakingtypes.NotBondedPoolName)),
		bal(authtypes.NewModuleAddress(authtypes.FeeCollectorName)))
	sb.WriteString(strings.Join(bs, ","))
	sb.WriteString(" S:" + w.app.BankKeeper.GetSupply(ctx, w.denom).Amount.String())

	isOp := func(bech string) bool {
		for _, o := range w.valOps {
			if o.String() == bech {
				return true
			}
		}
		return false
	}
	var ds []string
	for _, d := range w.app.StakingKeeper.GetAllDelegations(ctx) {
		if isOp(d.DelegatorAddress) || strings.HasPrefix(w.valIndex(d.ValidatorAddress), "?") {
			continue // genesis self delegations (constant; checked by the oracle through the validator tokens)
		}
		sh := d.Shares.String()
		if d.Shares.IsInteger() {
			sh = d.Shares.TruncateInt().String()
		}
		ds = append(ds, w.accHex(d.DelegatorAddress)+"/"+w.valIndex(d.ValidatorAddress)+"="+sh)
	}
	sort.Strings(ds)
	sb.WriteString(" D:" + c17join(ds))
	var us []string
	w.app.StakingKeeper.IterateUnbondingDelegations(ctx, func(_ int64, u stakingtypes.UnbondingDelegation) bool {
		var es []string
		for _, e := range u.Entries {
			es = append(es, e.Balance.String())
		}
		us = append(us, w.accHex(u.DelegatorAddress)+"/"+w.valIndex(u.ValidatorAddress)+"="+strings.Join(es, "+"))
		return false
	})
	sort.Strings(us)
	sb.WriteString(" U:" + c17join(us))
	var rs []string
	w.app.StakingKeeper.IterateRedelegations(ctx, func(_ int64, r stakingtypes.Redelegation) bool {
		var es []string
		for _, e := range r.Entries {
			es = append(es, e.InitialBalance.String())
		}
		rs = append(rs, w.accHex(r.DelegatorAddress)+"/"+w.valIndex(r.ValidatorSrcAddress)+">"+w.valIndex(r.ValidatorDstAddress)+"="+strings.Join(es, "+"))
		return false
	})
	sort.Strings(rs)
	sb.WriteString(" R:" + c17join(rs))
	var vs []string
	for _, v := range w.app.GovKeeper.GetAllVotes(ctx) {
		var os []string
		for _, o := range v.Options {
			os = append(os, fmt.Sprintf("%d*%s", int32(o.Option), o.Weight.MulInt64(100).TruncateInt().String()))
		}
		vs = append(vs, fmt.Sprintf("%d/%s=%s", v.ProposalId, w.accHex(v.Voter), strings.Join(os, "+")))
	}
	sort.Strings(vs)
	sb.WriteString(" V:" + c17join(vs))
	var gs []string
	for _, d := range w.app.GovKeeper.GetAllDeposits(ctx) {
		gs = append(gs, fmt.Sprintf("%d/%s=%s", d.ProposalId, w.accHex(d.Depositor), strings.ReplaceAll(d.Amount.String(), ",", "+")))
	}
	sort.Strings(gs)
	sb.WriteString(" G:" + c17join(gs))
	return sb.String()
}

func c17join(s []string) string {
	if len(s) == 0 {
		return "-"
	}
	return strings.Join(s, ",")
}

// ---- EVM transaction (SendTx style: the real msg server EthereumTx → ApplyTransaction), wrapped in the runTx
// discipline of baseapp (message state written only when the handler returns no error and does not panic). ------

type c17TxResult struct {
	status string // ok | vmfail | hookfail | err | panic
	logs   []*ethtypes.Log
	info   string
}

func (w *c17World) sendTx(fromIdx int, to common.Address, value *big.Int, data []byte) c17TxResult {
	cctx, write := w.ctx.CacheContext()
	from := w.eoas[fromIdx]
	chainID := w.app.EvmKeeper.ChainID()
	nonce := w.app.EvmKeeper.GetNonce(cctx, from)
	tx := evm.NewTx(chainID, nonce, &to, value, config.DefaultGasCap, big.NewInt(0), big.NewInt(0), big.NewInt(0), data, &ethtypes.AccessList{})
	tx.From = from.Hex()
	if err := tx.Sign(ethtypes.LatestSignerForChainID(chainID), tests.NewSigner(w.eoaKeys[fromIdx])); err != nil {
		panic(err)
	}
	var rsp *evm.MsgEthereumTxResponse
	var err error
	pan, msg := safely(func() { rsp, err = w.app.EvmKeeper.EthereumTx(sdk.WrapSDKContext(cctx), tx) })
	if pan {
		return c17TxResult{status: "panic", info: msg}
	}
	if err != nil {
		return c17TxResult{status: "err", info: err.Error()}
	}
	write()
	res := c17TxResult{status: "ok", info: rsp.VmError}
	if rsp.VmError != "" {
		if rsp.VmError == evm.ErrPostTxProcessing.Error() {
			res.status = "hookfail"
		} else {
			res.status = "vmfail"
		}
	}
	res.logs = evm.LogsToEthereum(rsp.Logs)
	return res
}

var _ = govcontract.GovContract
var _ = stakingcontract.StakingContract
