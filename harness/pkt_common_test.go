//go:build c01 || c02 || c05

package verifharness

// Shared harness of C01 / C02 / C05 (the XIBC receive / acknowledge path).
//
// World: three real app.Teleport chains (x/xibc/testing Coordinator) with Tendermint light clients of each
// other, three accounts per chain (S = the testing package's sender, R1, R2) and a relayer registry.
// Packets are created by real EVM `crossChainCall` transactions on the endpoint contract (base-token transfers,
// optionally with call data); MsgRecvPacket / MsgAcknowledgement / MsgUpdateClient go through
// BaseApp.Deliver (ante handler, runMsgs cache semantics). After every message the four packet prefixes of the
// xibc store are dumped and the delta against the previous dump is the canonical observation.
//
// The op language is documented in lean/TeleportModel/Driver/XibcProto.lean.

import (
	"bytes"
	"crypto/sha256"
	"encoding/hex"
	"fmt"
	"math/big"
	"os"
	"sort"
	"strings"
	"testing"

	abci "github.com/tendermint/tendermint/abci/types"

	"github.com/cosmos/cosmos-sdk/simapp/helpers"
	sdk "github.com/cosmos/cosmos-sdk/types"

	"github.com/ethereum/go-ethereum/accounts/abi"
	"github.com/ethereum/go-ethereum/common"
	ethtypes "github.com/ethereum/go-ethereum/core/types"
	"github.com/ethereum/go-ethereum/crypto"

	"github.com/tharsis/ethermint/crypto/ethsecp256k1"
	"github.com/tharsis/ethermint/server/config"
	"github.com/tharsis/ethermint/tests"
	evm "github.com/tharsis/ethermint/x/evm/types"

	erc20contracts "github.com/teleport-network/teleport/syscontracts/erc20"
	stakingcontract "github.com/teleport-network/teleport/syscontracts/staking"
	agentcontract "github.com/teleport-network/teleport/syscontracts/xibc_agent"
	endpointcontract "github.com/teleport-network/teleport/syscontracts/xibc_endpoint"
	packetcontract "github.com/teleport-network/teleport/syscontracts/xibc_packet"
	xibc "github.com/teleport-network/teleport/x/xibc"
	xibctmtypes "github.com/teleport-network/teleport/x/xibc/clients/light-clients/tendermint/types"
	clienttypes "github.com/teleport-network/teleport/x/xibc/core/client/types"
	commitmenttypes "github.com/teleport-network/teleport/x/xibc/core/commitment/types"
	"github.com/teleport-network/teleport/x/xibc/core/host"
	packettypes "github.com/teleport-network/teleport/x/xibc/core/packet/types"
	xibctesting "github.com/teleport-network/teleport/x/xibc/testing"
	xibctypes "github.com/teleport-network/teleport/x/xibc/types"
)

type pktAcct struct {
	priv *ethsecp256k1.PrivKey
	addr sdk.AccAddress
}

type pktChain struct {
	tc    *xibctesting.TestChain
	name  string
	accts []pktAcct              // 0 = S (testing sender), 1 = R1, 2 = R2
	prev  map[string]string      // last dump (hex key -> hex value)
	track map[string]*pktChain   // client name -> the real chain it tracks
	erc20 common.Address
	// registry mirror: relayer address string -> chains it is registered for
	reg map[string][]string
	// relayer address string -> chain -> the address registered for that chain ("address on the other chain")
	regAddr map[string]map[string]string
	restarts int // genesis export -> import restarts so far
	kind     map[string]string // client name -> tm | bsc | eth | tss (what the client currently is)
	toggled  map[string]bool   // clients currently switched away from their native kind
	tssCur   map[string]int    // TSS client name -> account index of its authoritative address (own record)
	tssEver  map[string]map[int]bool // TSS client name -> accounts that have been authoritative at some point
}

const pktT = 3 // index of the TSS account

const pktT2 = 4 // the second TSS key (rotations)

func (c *pktChain) tssAddr() string { return c.accts[pktT].addr.String() }

// tssAcct: the account whose address is the authoritative TSS address of client `name` according to the harness' own
// record: the one named by the create / toggle / upgrade proposal or by the last ACCEPTED MsgUpdateClient.
func (c *pktChain) tssAcct(name string) int {
	if a, ok := c.tssCur[name]; ok {
		return a
	}
	return pktT
}
func (c *pktChain) tssAddrOf(name string) string { return c.accts[c.tssAcct(name)].addr.String() }

type pktSent struct {
	bz       []byte
	p        packettypes.Packet
	src, dst *pktChain
	sentAt   int64 // block height of the source chain in which it was committed
	mech     string // how the destination execution is built (see pktCallSpec)
	cbErr    bool   // by construction CallPacket("onRecvPacket") returns an error on the destination
	// relay progress known to the generator
	recvd    bool
	recvMsg  *pktRecvRec
	ackBz    []byte // ack bytes written by the destination (from the event)
	acked    bool
}

type pktRecvRec struct {
	chain  *pktChain
	packet []byte
	proof  []byte
	height clienttypes.Height
	signer int
	epoch  int // number of restarts of the chain when the receive was accepted
}

type pktWorld struct {
	t      *testing.T
	r      *Rec
	coord  *xibctesting.Coordinator
	chains []*pktChain
	byName map[string]*pktChain
	pktIDs map[string]string
	ackIDs map[string]string
	ackEnc map[string]bool
	hist   []string
	sent   []*pktSent
	byEnc  map[string]*pktSent // canonical packet bytes -> sent packet
	bulks  []*pktBulk
	tsss   []*pktTss
	curSigner string // signer of the message whose ground truth is being computed
	evms   []*pktEvm           // EVM-secured counterparties (bsc / eth clients on chain 0)
	evmBy  map[string]*pktEvm  // host chain name | client name
	// oracle state
	accepted map[string]int // chain|receiptkey -> number of accepted receives
	ackedN   map[string]int // chain|commitkey -> number of accepted acknowledgements
}

func (w *pktWorld) op(op, out string) {
	w.hist = append(w.hist, op)
	w.r.Op(op, out)
}

// ---------------------------------------------------------------------------------------------
// world construction

// pktMixedNames: XIBC chain names used in the mixed-case histories (valid per host.IsValidID): one mixed-case
// name and two names that differ only in case — three distinct counterparties.
var pktMixedNames = []string{"Teleport-A", "abc", "Abc"}

func pktHasUpper(s string) bool { return strings.ToLower(s) != s }

func pktNewWorld(t *testing.T, r *Rec, mixedCase bool) *pktWorld {
	w := &pktWorld{t: t, r: r, byName: map[string]*pktChain{}, pktIDs: map[string]string{}, ackIDs: map[string]string{},
		ackEnc: map[string]bool{}, byEnc: map[string]*pktSent{}, evmBy: map[string]*pktEvm{}, accepted: map[string]int{}, ackedN: map[string]int{}}
	w.coord = xibctesting.NewCoordinator(t, 3)
	w.op("reset", "ok")
	for i := 0; i < 3; i++ {
		tc := w.coord.GetChain(xibctesting.GetChainID(i))
		c := &pktChain{tc: tc, name: tc.ChainID, prev: map[string]string{}, track: map[string]*pktChain{}, reg: map[string][]string{}, regAddr: map[string]map[string]string{}, kind: map[string]string{}, toggled: map[string]bool{}, tssCur: map[string]int{}, tssEver: map[string]map[int]bool{}}
		if mixedCase {
			// the XIBC chain name is independent of the Tendermint chain id (which stays tc.ChainID): rename the chain
			// in the client keeper and in the packet contract before anything else happens
			c.name = pktMixedNames[i]
			tc.App.XIBCKeeper.ClientKeeper.SetChainName(tc.GetContext(), c.name)
			tc.SetPacketChainName()
		}
		c.accts = append(c.accts, pktAcct{priv: tc.SenderPrivKey.(*ethsecp256k1.PrivKey), addr: tc.SenderAcc})
		w.chains = append(w.chains, c)
		w.byName[c.name] = c
	}
	// extra accounts (same keys on all chains so that addresses coincide, like the testing sender)
	var extra []*ethsecp256k1.PrivKey
	for i := 0; i < 4; i++ { // R1, R2, T (the TSS account) and T2 (the key TSS rotations switch to)
		// deterministic keys derived from the PRNG
		kb := make([]byte, 32)
		r.Rng.Read(kb)
		kb[0] |= 1
		extra = append(extra, &ethsecp256k1.PrivKey{Key: kb})
	}
	for _, c := range w.chains {
		for _, k := range extra {
			a := pktAcct{priv: k, addr: sdk.AccAddress(k.PubKey().Address().Bytes())}
			c.accts = append(c.accts, a)
			err := c.tc.App.BankKeeper.SendCoins(c.tc.GetContext(), c.accts[0].addr, a.addr,
				sdk.NewCoins(sdk.NewCoin(sdk.DefaultBondDenom, sdk.NewInt(1000000000))))
			if err != nil {
				t.Fatal(err)
			}
		}
		w.op("chain "+hxs(c.name), "ok")
	}
	w.commitAll()
	return w
}

func (w *pktWorld) commitAll() {
	for _, c := range w.chains {
		w.commit(c)
	}
}

// commit ends the current block of c and begins the next one (time advances on all chains).
func (w *pktWorld) commit(c *pktChain) {
	c.tc.App.EndBlock(abci.RequestEndBlock{Height: c.tc.CurrentHeader.Height})
	c.tc.App.Commit()
	c.tc.NextBlock()
	w.coord.IncrementTime()
}

func (c *pktChain) now() uint64 { return uint64(c.tc.CurrentHeader.Time.UnixNano()) }

// createClient creates on chain c a Tendermint client named `name` tracking chain `of` at its last header.
func (w *pktWorld) createClient(c *pktChain, name string, of *pktChain, delay uint64) {
	w.commit(of)
	hdr := of.tc.LastHeader
	height := hdr.GetHeight().(clienttypes.Height)
	cs := xibctmtypes.NewClientState(of.tc.ChainID, xibctesting.DefaultTrustLevel, xibctesting.TrustingPeriod,
		xibctesting.UnbondingPeriod, xibctesting.MaxClockDrift, height, commitmenttypes.GetSDKSpecs(), xibctesting.Prefix, delay)
	cons := hdr.ConsensusState()
	ctx := c.tc.GetContext()
	if err := c.tc.App.XIBCKeeper.ClientKeeper.CreateClient(ctx, name, cs, cons); err != nil {
		w.t.Fatal(err)
	}
	c.track[name] = of
	c.kind[name] = "tm"
	w.op(fmt.Sprintf("client %s %s tm %d %d %s %d %d 0 -", hxs(c.name), hxs(name), height.RevisionNumber, height.RevisionHeight,
		hx(cons.GetRoot()), uint64(ctx.BlockTime().UnixNano()), delay), "ok")
	w.commit(c)
}

func (w *pktWorld) register(c *pktChain, acct int, chains []string) {
	addr := c.accts[acct].addr.String()
	addrs := make([]string, len(chains))
	var sb strings.Builder
	for i, ch := range chains {
		// the relayer's address "on the other chain": its 0x hex form — checksummed (mixed case) on even chains,
		// lower case on odd ones, so that the EqualFold lookup of the acknowledgement path is exercised
		a := common.BytesToAddress(c.accts[acct].addr.Bytes()).Hex()
		if c == w.chains[1] {
			a = strings.ToLower(a)
		}
		addrs[i] = a
		sb.WriteString(" " + hxs(ch) + " " + hxs(a))
	}
	c.tc.App.XIBCKeeper.ClientKeeper.RegisterRelayers(c.tc.GetContext(), addr, chains, addrs)
	c.reg[addr] = chains
	c.regAddr[addr] = map[string]string{}
	for i := len(chains) - 1; i >= 0; i-- { // GetRelayerAddressOnOtherChain takes the first matching chain
		c.regAddr[addr][chains[i]] = addrs[i]
	}
	w.op(fmt.Sprintf("relayer %s %s %d%s", hxs(c.name), hxs(addr), len(chains), sb.String()), "ok")
}

// setupToken deploys an ERC20 on c and binds it to the base token of every other chain.
func (w *pktWorld) setupToken(c *pktChain) {
	tc := c.tc
	ctorArgs, err := erc20contracts.ERC20MinterBurnerDecimalsContract.ABI.Pack("", "name", "symbol", uint8(18))
	if err != nil {
		w.t.Fatal(err)
	}
	data := append(append([]byte{}, erc20contracts.ERC20MinterBurnerDecimalsContract.Bin...), ctorArgs...)
	nonce := tc.App.EvmKeeper.GetNonce(tc.GetContext(), endpointcontract.EndpointContractAddress)
	addr := crypto.CreateAddress(endpointcontract.EndpointContractAddress, nonce)
	res, err := tc.App.AggregateKeeper.CallEVMWithData(tc.GetContext(), endpointcontract.EndpointContractAddress, nil, data)
	if err != nil || res.Failed() {
		w.t.Fatalf("deploy erc20: %v", err)
	}
	c.erc20 = addr
	for _, o := range w.chains {
		if o == c || (c == w.chains[2] && o == w.chains[1]) {
			continue // no token bound on chain 2 for the base token of chain 1: those receives execute with an error result
		}
		// one token per origin chain is required by the registry; deploy one each
		nonce := tc.App.EvmKeeper.GetNonce(tc.GetContext(), endpointcontract.EndpointContractAddress)
		a := crypto.CreateAddress(endpointcontract.EndpointContractAddress, nonce)
		res, err := tc.App.AggregateKeeper.CallEVMWithData(tc.GetContext(), endpointcontract.EndpointContractAddress, nil, data)
		if err != nil || res.Failed() {
			w.t.Fatalf("deploy erc20: %v", err)
		}
		if err := tc.App.AggregateKeeper.RegisterERC20Trace(tc.GetContext(), a,
			strings.ToLower(common.Address{}.String()), o.name, uint8(0)); err != nil {
			w.t.Fatal(err)
		}
	}
	w.commit(c)
}

// ---------------------------------------------------------------------------------------------
// dumps

var pktPrefixes = []string{host.KeyPacketReceiptPrefix + "/", host.KeyPacketCommitmentPrefix + "/", host.KeyPacketAckPrefix + "/", host.KeyNextSeqSendPrefix + "/"}

func (c *pktChain) dump() map[string]string {
	ctx := c.tc.GetContext()
	store := ctx.KVStore(c.tc.App.GetKey(host.StoreKey))
	m := map[string]string{}
	for _, p := range pktPrefixes {
		it := sdk.KVStorePrefixIterator(store, []byte(p))
		for ; it.Valid(); it.Next() {
			m[hx(it.Key())] = hx(it.Value())
		}
		it.Close()
	}
	return m
}

func pktDelta(before, after map[string]string) string {
	var keys []string
	for k := range after {
		if v, ok := before[k]; !ok || v != after[k] {
			keys = append(keys, k)
		}
	}
	for k := range before {
		if _, ok := after[k]; !ok {
			keys = append(keys, k)
		}
	}
	if len(keys) == 0 {
		return "-"
	}
	sort.Strings(keys)
	parts := make([]string, len(keys))
	for i, k := range keys {
		if v, ok := after[k]; ok {
			parts[i] = "+" + k + "=" + v
		} else {
			parts[i] = "-" + k
		}
	}
	return strings.Join(parts, ",")
}

// observe returns the delta since the previous dump and stores the new dump.
func (c *pktChain) observe() (string, map[string]string, map[string]string) {
	before := c.prev
	after := c.dump()
	c.prev = after
	return pktDelta(before, after), before, after
}

func (w *pktWorld) fullDump(c *pktChain) {
	c.prev = c.dump()
	w.op("dump "+hxs(c.name), sortedKV(c.prev))
}

func (c *pktChain) ackStatus(dst string, seq uint64) uint8 {
	abi := packetcontract.PacketContract.ABI
	res, err := c.tc.App.AggregateKeeper.CallEVM(c.tc.GetContext(), abi, packettypes.ModuleAddress,
		packetcontract.PacketContractAddress, "getAckStatus", dst, seq)
	if err != nil {
		return 0 // the view reverts for arguments no packet can have (e.g. undecodable packet bytes)
	}
	var st uint8
	if err := abi.UnpackIntoInterface(&st, "getAckStatus", res.Ret); err != nil {
		return 0
	}
	return st
}

// ---------------------------------------------------------------------------------------------
// environment tables (what the real libraries compute for these byte strings)

func pktSha(b []byte) []byte { h := sha256.Sum256(b); return h[:] }

// defPacket emits the `pkt` line for these packet bytes (once) and returns id, decoded packet, decode error flag.
func (w *pktWorld) defPacket(bz []byte) (string, packettypes.Packet, bool) {
	var p packettypes.Packet
	var derr error
	if pan, _ := safely(func() { derr = p.ABIDecode(bz) }); pan {
		derr = fmt.Errorf("panic")
	}
	k := string(bz)
	id, ok := w.pktIDs[k]
	if ok {
		return id, p, derr != nil
	}
	id = fmt.Sprintf("p%d", len(w.pktIDs))
	w.pktIDs[k] = id
	enc, err := p.ABIPack()
	if err != nil {
		w.t.Fatalf("ABIPack failed: %v", err)
	}
	encS := hx(enc)
	if bytes.Equal(enc, bz) {
		encS = "="
	}
	de := "0"
	if derr != nil {
		de = "1"
	}
	w.op(fmt.Sprintf("pkt %s %s %s %s %s %d %s %s %s %s %d %s %s", id, hx(bz), de, hxs(p.SrcChain), hxs(p.DstChain), p.Sequence,
		hxs(p.Sender), hx(p.TransferData), hx(p.CallData), hxs(p.CallbackAddress), p.FeeOption, encS, hx(pktSha(enc))), "ok")
	return id, p, derr != nil
}

func (w *pktWorld) defAck(bz []byte) (string, packettypes.Acknowledgement, bool) {
	var a packettypes.Acknowledgement
	var derr error
	if pan, _ := safely(func() { derr = a.ABIDecode(bz) }); pan {
		derr = fmt.Errorf("panic")
	}
	k := string(bz)
	id, ok := w.ackIDs[k]
	if ok {
		return id, a, derr == nil
	}
	id = fmt.Sprintf("a%d", len(w.ackIDs))
	w.ackIDs[k] = id
	dok := "1"
	if derr != nil {
		dok = "0"
		a = packettypes.Acknowledgement{}
	}
	w.op(fmt.Sprintf("ack %s %s %s %d %s %s %s %d %s", id, hx(bz), dok, a.Code, hx(a.Result), hxs(a.Message), hxs(a.Relayer),
		a.FeeOption, hx(pktSha(bz))), "ok")
	return id, a, derr == nil
}

// defAckEnc tells the model what NewAcknowledgement(...).ABIPack() is for these fields.
func (w *pktWorld) defAckEnc(code uint64, result []byte, message, relayer string, fee uint64) []byte {
	bz, err := packettypes.NewAcknowledgement(code, result, message, relayer, fee).ABIPack()
	if err != nil {
		w.t.Fatal(err)
	}
	id, _, _ := w.defAck(bz)
	k := fmt.Sprintf("%d|%x|%s|%s|%d", code, result, message, relayer, fee)
	if !w.ackEnc[k] {
		w.ackEnc[k] = true
		w.op(fmt.Sprintf("ackenc %d %s %s %s %d %s", code, hx(result), hxs(message), hxs(relayer), fee, id), "ok")
	}
	return bz
}

// ---------------------------------------------------------------------------------------------
// proofs and ground truth

// storeAt reads key from the committed xibc store of c at the given version (nil,false if unavailable).
func (c *pktChain) storeAt(key []byte, version int64) ([]byte, bool) {
	if version < 1 || version > c.tc.App.LastBlockHeight() {
		return nil, false
	}
	var res abci.ResponseQuery
	if pan, _ := safely(func() {
		res = c.tc.App.Query(abci.RequestQuery{Path: fmt.Sprintf("store/%s/key", host.StoreKey), Height: version, Data: key})
	}); pan || res.Code != 0 {
		return nil, false
	}
	return res.Value, res.Value != nil
}

// proofAt returns the genuine membership proof of key at proof height h (version h-1), nil if impossible.
func (c *pktChain) proofAt(key []byte, h uint64) []byte {
	version := int64(h) - 1
	if version < 1 || version > c.tc.App.LastBlockHeight() {
		return nil
	}
	var out []byte
	safely(func() {
		res := c.tc.App.Query(abci.RequestQuery{Path: fmt.Sprintf("store/%s/key", host.StoreKey), Height: version, Data: key, Prove: true})
		if res.Code != 0 || res.ProofOps == nil || res.Value == nil {
			return
		}
		mp, err := commitmenttypes.ConvertProofs(res.ProofOps)
		if err != nil {
			return
		}
		bz, err := c.tc.App.AppCodec().Marshal(&mp)
		if err != nil {
			return
		}
		out = bz
	})
	return out
}

func (c *pktChain) revision() uint64 { return clienttypes.ParseChainID(c.tc.ChainID) }

func pktProofID(proof []byte) string {
	if len(proof) == 0 {
		return "-"
	}
	h := sha256.Sum256(proof)
	return hex.EncodeToString(h[:8])
}

// sameProof: byte-identical, or both decode to equal MerkleProof messages.
func (c *pktChain) sameProof(a, b []byte) bool {
	if bytes.Equal(a, b) {
		return true
	}
	var ma, mb commitmenttypes.MerkleProof
	cdc := c.tc.App.AppCodec()
	if cdc.Unmarshal(a, &ma) != nil || cdc.Unmarshal(b, &mb) != nil {
		return false
	}
	ba, e1 := cdc.Marshal(&ma)
	bb, e2 := cdc.Marshal(&mb)
	return e1 == nil && e2 == nil && bytes.Equal(ba, bb)
}

// truth: ground truth of "the chain tracked by client `client` of chain c committed `value` under `path` in the
// state that consensus height h refers to" (semantic), and additionally whether `proof` is the genuine proof of
// exactly that (path, height) (genuine).
func (w *pktWorld) truth(c *pktChain, client string, path []byte, value []byte, h clienttypes.Height, proof []byte) (semantic, genuine bool) {
	if c.kind[client] == "tss" {
		// a TSS-secured counterparty: what it "committed" is what its TSS address signs — by construction of the harness
		// the TSS account T; the proof field plays no role
		return w.curSigner == c.tssAddrOf(client), true
	}
	if ev, isEvm := w.evmBy[c.name+"|"+client]; isEvm {
		return ev.truth(path, value, h, proof)
	}
	of, ok := c.track[client]
	if !ok {
		return false, false
	}
	if h.RevisionNumber != of.revision() {
		return false, false
	}
	got, found := of.storeAt(path, int64(h.RevisionHeight)-1)
	semantic = found && bytes.Equal(got, value)
	if !semantic {
		return false, false
	}
	gp := of.proofAt(path, h.RevisionHeight)
	genuine = gp != nil && len(proof) > 0 && of.sameProof(gp, proof)
	return
}

// ---------------------------------------------------------------------------------------------
// transactions

// deliverMsgs signs msgs with account acct of chain c and delivers the tx in the current block (no commit).
func (w *pktWorld) deliverMsgs(c *pktChain, acct int, msgs ...sdk.Msg) (res *sdk.Result, err error) {
	tc := c.tc
	a := c.accts[acct]
	account := tc.App.AccountKeeper.GetAccount(tc.GetContext(), a.addr)
	tx, gerr := helpers.GenTx(tc.TxConfig, msgs, sdk.Coins{sdk.NewInt64Coin(sdk.DefaultBondDenom, 0)}, helpers.DefaultGenTxGas*4,
		tc.ChainID, []uint64{account.GetAccountNumber()}, []uint64{account.GetSequence()}, a.priv)
	if gerr != nil {
		w.t.Fatal(gerr)
	}
	if pan, msg := safely(func() { _, res, err = tc.App.BaseApp.Deliver(tc.TxConfig.TxEncoder(), tx) }); pan {
		return nil, fmt.Errorf("panic: %s", msg)
	}
	return res, err
}

// evmTx sends an EVM transaction from S of chain c (as the integration tests do) and returns the response.
func (w *pktWorld) evmTx(c *pktChain, to common.Address, amount *big.Int, data []byte) (*evm.MsgEthereumTxResponse, error) {
	tc := c.tc
	ctx := sdk.WrapSDKContext(tc.GetContext())
	chainID := tc.App.EvmKeeper.ChainID()
	signer := tests.NewSigner(tc.SenderPrivKey)
	nonce := tc.App.EvmKeeper.GetNonce(tc.GetContext(), tc.SenderAddress)
	tx := evm.NewTx(chainID, nonce, &to, amount, config.DefaultGasCap, big.NewInt(0), big.NewInt(0), big.NewInt(0), data, &ethtypes.AccessList{})
	tx.From = tc.SenderAddress.Hex()
	if err := tx.Sign(ethtypes.LatestSignerForChainID(chainID), signer); err != nil {
		w.t.Fatal(err)
	}
	var rsp *evm.MsgEthereumTxResponse
	var err error
	if pan, msg := safely(func() { rsp, err = tc.App.EvmKeeper.EthereumTx(ctx, tx) }); pan {
		return nil, fmt.Errorf("panic: %s", msg)
	}
	return rsp, err
}

// sentPackets extracts the packet bytes of PacketSent logs.
func pktSentPackets(rsp *evm.MsgEthereumTxResponse) [][]byte {
	var out [][]byte
	if rsp == nil {
		return nil
	}
	abi := packetcontract.PacketContract.ABI
	for _, l := range rsp.Logs {
		if common.HexToAddress(l.Address) != packetcontract.PacketContractAddress || len(l.Topics) == 0 {
			continue
		}
		ev, err := abi.EventByID(common.HexToHash(l.Topics[0]))
		if err != nil || ev.Name != packettypes.PacketSendEvent {
			continue
		}
		vals, err := abi.Unpack(ev.Name, l.Data)
		if err != nil || len(vals) == 0 {
			continue
		}
		if bz, ok := vals[0].([]byte); ok {
			out = append(out, bz)
		}
	}
	return out
}

// pktCallSpec describes the destination execution of a packet.
//   mech: n (transfer only) | eoa (call to an address without code) | garbage (garbage call to a real contract: result
//   code 3) | evm-revert (malformed contract address: Execute reverts the whole onRecvPacket call => CallPacket error)
//   | baddr (malformed receiver string in the transfer data) | hook-staking (EVM run succeeds, the staking hook fails
//   afterwards: invalid validator => CallPacket error) | hook-agent (call data makes the agent contract forward to a
//   chain for which the destination has no client: SendPacket fails in the post-transaction hook => CallPacket error)
type pktCallSpec struct {
	mech     string
	receiver string
	contract string
	call     []byte
	cbErr    bool
}

func (w *pktWorld) callSpec(src, dst *pktChain, mech string, rnd func([]byte)) pktCallSpec {
	cs := pktCallSpec{mech: mech, receiver: strings.ToLower(src.tc.SenderAddress.String())}
	switch mech {
	case "eoa":
		cs.contract = strings.ToLower(src.tc.SenderAddress.String())
		cs.call = make([]byte, 12)
		rnd(cs.call)
	case "garbage":
		cs.contract = strings.ToLower(dst.erc20.String())
		cs.call = make([]byte, 20)
		rnd(cs.call)
	case "evm-revert":
		cs.contract = "0x12"
		cs.call, _ = packetcontract.PacketContract.ABI.Pack("chainName")
		cs.cbErr = true
	case "baddr":
		cs.receiver = "not-an-address"
	case "hook-staking":
		cs.contract = strings.ToLower(stakingcontract.StakingAddress.String())
		cs.call, _ = stakingcontract.StakingContract.ABI.Pack("delegate", "notavalidator", big.NewInt(1))
		cs.cbErr = true
	case "hook-agent":
		cs.receiver = strings.ToLower(agentcontract.AgentContractAddress.String())
		cs.contract = strings.ToLower(agentcontract.AgentContractAddress.String())
		var err error
		cs.call, err = agentcontract.AgentContract.ABI.Pack("send", src.tc.SenderAddress, strings.ToLower(src.tc.SenderAddress.String()), "nowhere-1", big.NewInt(0))
		if err != nil {
			w.t.Fatal(err)
		}
		cs.cbErr = true
	}
	return cs
}

// send performs a base-token crossChainCall from S of src to dstName and records the op.
// Returns the sent packet (nil if the transaction failed).
func (w *pktWorld) send(src *pktChain, dstName string, amount int64, cs pktCallSpec, feeOpt uint64) *pktSent {
	data := packettypes.CrossChainData{
		DstChain:        dstName,
		TokenAddress:    common.Address{},
		Receiver:        cs.receiver,
		Amount:          big.NewInt(amount),
		ContractAddress: cs.contract,
		CallData:        cs.call,
		CallbackAddress: common.Address{},
		FeeOption:       feeOpt,
	}
	fee := packettypes.Fee{TokenAddress: common.Address{}, Amount: big.NewInt(7)}
	payload, err := endpointcontract.EndpointContract.ABI.Pack("crossChainCall", data, fee)
	if err != nil {
		w.t.Fatal(err)
	}
	now := src.now()
	rsp, err := w.evmTx(src, endpointcontract.EndpointContractAddress, big.NewInt(amount+7), payload)
	failed := err != nil || rsp == nil || rsp.VmError != ""
	pk := pktSentPackets(rsp)
	delta, sb, sa := src.observe()
	w.stepOracle(sb, sa, "")
	if failed || len(pk) == 0 {
		// nothing may have changed in the packet stores
		w.r.Count("send.failed")
		w.r.Count("send.failed." + cs.mech)
		if delta != "-" {
			w.r.Find(Finding{Sig: "pkt:failed-evm-tx-changed-packet-store", What: "a failed crossChainCall changed the xibc packet stores",
				Ops: append([]string{}, w.hist...), Obs: delta, Req: "-"})
		}
		return nil
	}
	id, p, _ := w.defPacket(pk[0])
	w.op(fmt.Sprintf("send %s %d %s 1", hxs(src.name), now, id), "ok "+delta)
	w.r.Count("send.ok")
	w.r.Count("send.ok." + cs.mech)
	// the transfer part is executed first: where the base token of src has no binding on the destination (chain 2 for
	// chain 1, see setupToken) onRecvPacket returns result code 2 before the call data is looked at
	cbErr := cs.cbErr && (len(p.TransferData) == 0 || !(w.byName[dstName] == w.chains[2] && src == w.chains[1]))
	s := &pktSent{bz: pk[0], p: p, src: src, dst: w.byName[dstName], sentAt: src.tc.CurrentHeader.Height, mech: cs.mech, cbErr: cbErr}
	if s.dst != nil { // packets to an EVM-secured counterparty are tracked by pktEvm.out
		w.sent = append(w.sent, s)
	}
	if enc, err := p.ABIPack(); err == nil {
		w.byEnc[string(enc)] = s
	}
	return s
}

// pktHighSeq: sequences around the int64 / uint64 boundaries (an honest sender cannot reach them by sending: the
// packet contract lets the send counter grow by one)
func pktIsHighSeq(seq uint64) bool { return seq >= 1<<62 }

// plant writes the commitment of a well-formed base-token transfer packet src -> dst with the given sequence directly
// into the source chain's store (Keeper.SetPacketCommitment); everything afterwards (client update, proof, receive,
// replays, acknowledgement) is the real path. Returns nil if that key is already taken.
func (w *pktWorld) plant(src, dst *pktChain, seq uint64, amount int64) *pktSent {
	amt := make([]byte, 32)
	big.NewInt(amount).FillBytes(amt)
	td := packettypes.TransferData{Receiver: strings.ToLower(src.tc.SenderAddress.String()), Amount: amt,
		Token: strings.ToLower(common.Address{}.String()), OriToken: ""}
	tdBz, err := td.ABIPack()
	if err != nil {
		w.t.Fatal(err)
	}
	p := packettypes.Packet{SrcChain: src.name, DstChain: dst.name, Sequence: seq, Sender: strings.ToLower(src.tc.SenderAddress.String()),
		TransferData: tdBz, CallData: []byte{}, CallbackAddress: common.Address{}.String(), FeeOption: 0}
	bz, err := p.ABIPack()
	if err != nil {
		w.t.Fatal(err)
	}
	if _, taken := w.byEnc[string(bz)]; taken {
		return nil
	}
	ctx := src.tc.GetContext()
	if src.tc.App.XIBCKeeper.PacketKeeper.HasPacketCommitment(ctx, p.SrcChain, p.DstChain, seq) {
		return nil
	}
	src.tc.App.XIBCKeeper.PacketKeeper.SetPacketCommitment(ctx, p.SrcChain, p.DstChain, seq, pktSha(bz))
	id, dp, _ := w.defPacket(bz)
	delta, sb, sa := src.observe()
	w.stepOracle(sb, sa, "")
	w.op(fmt.Sprintf("plant %s %s", hxs(src.name), id), "ok "+delta)
	w.r.Count("plant")
	s := &pktSent{bz: bz, p: dp, src: src, dst: dst, sentAt: src.tc.CurrentHeader.Height, mech: "planted"}
	w.sent = append(w.sent, s)
	w.byEnc[string(bz)] = s
	return s
}

// restart takes chain c through what a node restart from an exported genesis does to the xibc module: ExportGenesis,
// JSON round trip, validation, every key of the xibc store deleted, InitGenesis. EVM / bank / account state stays.
// The model's `restart` is the identity, so the canonical observation must be an empty delta.
func (w *pktWorld) restart(c *pktChain) bool {
	tc := c.tc
	ctx := tc.GetContext()
	var failed string
	if pan, msg := safely(func() {
		gs := xibc.ExportGenesis(ctx, *tc.App.XIBCKeeper)
		cdc := tc.App.AppCodec()
		bz, err := cdc.MarshalJSON(gs)
		if err != nil {
			failed = "marshal: " + err.Error()
			return
		}
		var gs2 xibctypes.GenesisState
		if err := cdc.UnmarshalJSON(bz, &gs2); err != nil {
			failed = "unmarshal: " + err.Error()
			return
		}
		if err := gs2.Validate(); err != nil {
			failed = "validate: " + err.Error()
			return
		}
		store := ctx.KVStore(tc.App.GetKey(host.StoreKey))
		var keys [][]byte
		it := store.Iterator(nil, nil)
		for ; it.Valid(); it.Next() {
			keys = append(keys, append([]byte{}, it.Key()...))
		}
		it.Close()
		for _, k := range keys {
			store.Delete(k)
		}
		xibc.InitGenesis(ctx, *tc.App.XIBCKeeper, false, &gs2)
	}); pan {
		failed = "panic: " + msg
	}
	if failed != "" {
		// the exported genesis of a running chain must be importable; nothing was changed if we get here before the wipe
		w.r.Count("restart.failed")
		w.r.Find(Finding{Sig: "pkt:restart-export-not-importable", What: "the exported xibc genesis could not be re-imported: " + failed,
			Ops: append([]string{}, w.hist...), Obs: failed, Req: "importable"})
		return false
	}
	delta, before, after := c.observe()
	w.stepOracle(before, after, "")
	w.op("restart "+hxs(c.name), "ok "+delta)
	w.r.Count("restart")
	c.restarts++
	if delta != "-" {
		w.r.Find(Finding{Sig: "C01:restart-moved-packet-state", What: "receipts / acknowledgements / commitments / send sequences are not under the same keys after a genesis export -> import restart",
			Ops: append([]string{}, w.hist...), Obs: delta, Req: "-"})
	}
	return true
}

// pktBulk: many packets src -> dst whose commitment (source), receipt and acknowledgement (destination) were written
// with the keeper setters, to fill the packet stores beyond any page size; the replays after restarts carry real
// proofs (the commitments really are in the source chain's committed store).
type pktBulk struct {
	src, dst *pktChain
	pkts     []*pktSent
	byRcpt   map[string]*pktSent // hex receipt key -> packet
}

func (w *pktWorld) bulk(src, dst *pktChain, from uint64, n int) *pktBulk {
	b := &pktBulk{src: src, dst: dst, byRcpt: map[string]*pktSent{}}
	relayer := dst.regAddr[dst.accts[0].addr.String()][src.name]
	ackBz := w.defAckEnc(0, []byte{}, "", relayer, 0)
	aid, _, _ := w.defAck(ackBz)
	sctx, dctx := src.tc.GetContext(), dst.tc.GetContext()
	var ids []string
	for i := 0; i < n; i++ {
		seq := from + uint64(i)
		amt := make([]byte, 32)
		big.NewInt(int64(1 + i%50)).FillBytes(amt)
		td := packettypes.TransferData{Receiver: strings.ToLower(src.tc.SenderAddress.String()), Amount: amt,
			Token: strings.ToLower(common.Address{}.String()), OriToken: ""}
		tdBz, _ := td.ABIPack()
		p := packettypes.Packet{SrcChain: src.name, DstChain: dst.name, Sequence: seq, Sender: strings.ToLower(src.tc.SenderAddress.String()),
			TransferData: tdBz, CallData: []byte{}, CallbackAddress: common.Address{}.String(), FeeOption: 0}
		bz, err := p.ABIPack()
		if err != nil {
			w.t.Fatal(err)
		}
		id, dp, _ := w.defPacket(bz)
		ids = append(ids, id)
		src.tc.App.XIBCKeeper.PacketKeeper.SetPacketCommitment(sctx, p.SrcChain, p.DstChain, seq, pktSha(bz))
		dst.tc.App.XIBCKeeper.PacketKeeper.SetPacketReceipt(dctx, p.SrcChain, p.DstChain, seq)
		dst.tc.App.XIBCKeeper.PacketKeeper.SetPacketAcknowledgement(dctx, p.SrcChain, p.DstChain, seq, pktSha(ackBz))
		s := &pktSent{bz: bz, p: dp, src: src, dst: dst, sentAt: src.tc.CurrentHeader.Height, mech: "bulk", recvd: true, ackBz: ackBz}
		w.sent = append(w.sent, s)
		w.byEnc[string(bz)] = s
		b.pkts = append(b.pkts, s)
		b.byRcpt[hx(host.PacketReceiptKey(p.SrcChain, p.DstChain, seq))] = s
		w.accepted[dst.name+"|"+hx(host.PacketReceiptKey(p.SrcChain, p.DstChain, seq))] = 1 // counts as delivered once
	}
	w.op(fmt.Sprintf("bulk %s %s %s %s", hxs(src.name), hxs(dst.name), aid, strings.Join(ids, " ")), "ok")
	w.r.Count("bulk")
	w.fullDump(src)
	w.fullDump(dst)
	w.bulks = append(w.bulks, b)
	return b
}

// updateClient delivers a genuine MsgUpdateClient for client `name` of chain c (signed by acct) with the last
// header of the tracked chain.
func (w *pktWorld) updateClient(c *pktChain, name string, acct int) bool {
	of := c.track[name]
	if of == nil {
		return false
	}
	var hdr *xibctmtypes.Header
	var err error
	if pan, _ := safely(func() { hdr, err = c.tc.ConstructUpdateTMClientHeader(of.tc, name) }); pan || err != nil {
		return false
	}
	msg, err := clienttypes.NewMsgUpdateClient(name, hdr, c.accts[acct].addr)
	if err != nil {
		w.t.Fatal(err)
	}
	now := c.now()
	height := hdr.GetHeight().(clienttypes.Height)
	// validity of the header by construction: genuine header of the tracked chain, trusted height = the client's
	// latest height; Tendermint accepts it iff it is strictly above the trusted height
	hok := "0"
	if cs0, found := c.tc.App.XIBCKeeper.ClientKeeper.GetClientState(c.tc.GetContext(), name); found && cs0.GetLatestHeight().LT(height) {
		hok = "1"
	}
	_, derr := w.deliverMsgs(c, acct, msg)
	root := hdr.Header.GetAppHash()
	latest := "none"
	if cs, found := c.tc.App.XIBCKeeper.ClientKeeper.GetClientState(c.tc.GetContext(), name); found {
		l := cs.GetLatestHeight()
		latest = fmt.Sprintf("%d-%d", l.GetRevisionNumber(), l.GetRevisionHeight())
	}
	ud, ub, ua := c.observe()
	w.stepOracle(ub, ua, "")
	if ud != "-" {
		w.r.Find(Finding{Sig: "pkt:update-client-changed-packet-store", What: "MsgUpdateClient changed the packet stores",
			Ops: append([]string{}, w.hist...), Obs: ud, Req: "-"})
	}
	res := "ok"
	if derr != nil {
		res = "err"
		w.r.Count("update.rejected")
	} else {
		w.r.Count("update.accepted")
	}
	// the stored verifier after the update, read back from the client store
	stored := "none"
	if cons, found := c.tc.App.XIBCKeeper.ClientKeeper.GetClientConsensusState(c.tc.GetContext(), name, height); found {
		stored = hx(cons.GetRoot())
	}
	w.op(fmt.Sprintf("update %s %d %s %d %d %s %s %s", hxs(c.name), now, hxs(name), height.RevisionNumber, height.RevisionHeight,
		hx(root), hxs(c.accts[acct].addr.String()), hok), res+" L="+latest+" V="+stored)
	if derr == nil && stored != hx(root) {
		w.r.Find(Finding{Sig: "C02:update-accepted-root-not-stored", What: "an accepted MsgUpdateClient must leave the header's root as the consensus state at the header height",
			Ops: append([]string{}, w.hist...), Obs: stored, Req: hx(root)})
	}
	return derr == nil
}

// ---------------------------------------------------------------------------------------------
// receive / acknowledge with oracle

type pktOutcome struct {
	ok             bool
	delta          string
	before, after  map[string]string
	semantic, genu bool
	ackBz          []byte // ack written (accepted receive addressed to this chain)
}

// expectedRelayer mirrors GetRelayerAddressOnOtherChain on the harness' registry mirror (all addresses equal the signer).
func (c *pktChain) registeredFor(acct int, chain string) bool {
	for _, ch := range c.reg[c.accts[acct].addr.String()] {
		if ch == chain {
			return true
		}
	}
	return false
}

// recv delivers MsgRecvPacket{packet, proof, h, signer=acct} on chain c, records the op and evaluates the
// oracles of C01 / C02 that are local to one step.
func (w *pktWorld) recv(c *pktChain, packet, proof []byte, h clienttypes.Height, acct int, tag string) pktOutcome {
	id, p, _ := w.defPacket(packet)
	signer := c.accts[acct].addr.String()
	enc, _ := p.ABIPack()
	value := pktSha(enc)
	path := host.PacketCommitmentKey(p.SrcChain, p.DstChain, p.Sequence)
	w.curSigner = signer
	sem, gen := w.truth(c, p.SrcChain, path, value, h, proof)
	// acknowledgements the model may have to construct (callback result is supplied after the fact from the event)
	msg := &packettypes.MsgRecvPacket{Packet: packet, ProofCommitment: proof, ProofHeight: h, Signer: signer}
	now := c.now()
	res, err := w.deliverMsgs(c, acct, msg)
	ok := err == nil
	delta, before, after := c.observe()
	out := pktOutcome{ok: ok, delta: delta, before: before, after: after, semantic: sem, genu: gen}
	cb := "ok:0:-:-"
	// by construction: is this exactly a packet that was sent with a destination execution that makes CallPacket fail?
	var sentRec *pktSent
	if sr, known := w.byEnc[string(enc)]; known && sr.dst == c {
		sentRec = sr
	}
	var wantErrAck []byte
	if sentRec != nil && sentRec.cbErr {
		if ra, reg := c.regAddr[signer][p.SrcChain]; reg {
			wantErrAck = w.defAckEnc(1, []byte{}, "receive packet callback failed", ra, p.FeeOption)
			cb = "fail"
		}
	}
	if ok && res != nil {
		for _, ev := range res.Events {
			if !strings.HasSuffix(ev.Type, "EventWriteAck") {
				continue
			}
			pm, perr := sdk.ParseTypedEvent(abci.Event(ev))
			if perr != nil {
				continue
			}
			if wa, isWa := pm.(*packettypes.EventWriteAck); isWa {
				out.ackBz = wa.Ack
			}
		}
	}
	if out.ackBz != nil {
		var a packettypes.Acknowledgement
		if a.ABIDecode(out.ackBz) == nil {
			// NB: ABIDecode drops FeeOption (tuple component `feeOption` vs json tag `fee_option`); the handler
			// constructs the ack with packet.FeeOption
			if wantErrAck != nil {
				// keep "fail": the model must arrive at the error acknowledgement on its own
			} else if a.Code == 1 && a.Message == "receive packet callback failed" && len(a.Result) == 0 {
				cb = "fail"
			} else {
				cb = fmt.Sprintf("ok:%d:%s:%s", a.Code, hx(a.Result), hxs(a.Message))
			}
			if ra, reg := c.regAddr[signer][p.SrcChain]; reg && a.Relayer != ra {
				w.r.Find(Finding{Sig: "C05:ack-relayer-not-the-registered-address:" + tag, What: "the acknowledgement written by an accepted receive must carry the address the signer registered for the source chain",
					Ops: append([]string{}, w.hist...), Obs: a.Relayer, Req: ra})
			}
			if sentRec != nil {
				if a.Code == 1 && a.Message == "receive packet callback failed" {
					w.r.Count("recv.callback-error." + sentRec.mech)
				} else {
					w.r.Count(fmt.Sprintf("recv.result.%s.code%d", sentRec.mech, a.Code))
				}
			}
			w.defAckEnc(a.Code, a.Result, a.Message, a.Relayer, p.FeeOption)
			w.r.Count(fmt.Sprintf("recv.ackcode.%d", a.Code))
		}
	}
	truth := "0"
	if sem && gen {
		truth = "1"
	}
	st := c.ackStatus(p.DstChain, p.Sequence)
	r := "err"
	if ok {
		r = "ok"
	}
	w.op(fmt.Sprintf("recv %s %d %s %s %s %d %d %s %s", hxs(c.name), now, id, pktProofID(proof), truth, h.RevisionNumber, h.RevisionHeight,
		hxs(signer), cb), fmt.Sprintf("%s %s S=%d", r, delta, st))
	w.r.Count("recv." + tag + "." + r)
	w.r.Count("recv." + r)
	if pktIsHighSeq(p.Sequence) {
		if ok {
			w.r.Count("recv.accepted.high-sequence")
		} else if strings.HasPrefix(tag, "replay") {
			w.r.Count("recv.replay.high-sequence.err")
		}
	}
	if pktHasUpper(p.SrcChain) || pktHasUpper(p.DstChain) {
		if ok {
			w.r.Count("recv.accepted.mixed-case-name")
		} else if strings.HasPrefix(tag, "replay") {
			w.r.Count("recv.replay.mixed-case-name.err")
		}
	}
	if sentRec != nil && sentRec.cbErr && sentRec.recvd && strings.HasPrefix(tag, "replay") {
		w.r.Count("recv.replay-of-callback-error." + r)
	}
	// ---- oracles (statements of the properties on the implementation's own observations)
	rk := hx(host.PacketReceiptKey(p.SrcChain, p.DstChain, p.Sequence))
	if ok {
		key := c.name + "|" + rk
		w.accepted[key]++
		if w.accepted[key] > 1 {
			w.r.Find(Finding{Sig: "C01:triple-accepted-twice:" + tag, What: "a receive for an already received (src,dst,seq) was accepted",
				Ops: append([]string{}, w.hist...), Obs: "accepted", Req: "rejected"})
		}
		if _, had := before[rk]; had {
			w.r.Find(Finding{Sig: "C01:accepted-with-receipt-present:" + tag, What: "receive accepted although its receipt existed",
				Ops: append([]string{}, w.hist...), Obs: "accepted", Req: "rejected"})
		}
		if _, has := after[rk]; !has {
			w.r.Find(Finding{Sig: "C01:accepted-without-receipt:" + tag, What: "accepted receive left no receipt",
				Ops: append([]string{}, w.hist...), Obs: delta, Req: "receipt written"})
		}
		if !sem {
			w.r.Find(Finding{Sig: "C02:recv-accepted-not-committed:" + tag, What: "receive accepted although the source chain did not commit this packet under this path at the proof height",
				Ops: append([]string{}, w.hist...), Obs: "accepted", Req: "rejected"})
		}
		if p.DstChain == c.name && wantErrAck != nil {
			ak := hx(host.PacketAcknowledgementKey(p.SrcChain, p.DstChain, p.Sequence))
			if after[ak] != hx(pktSha(wantErrAck)) {
				w.r.Find(Finding{Sig: "C05:callback-error-ack-missing-or-wrong:" + sentRec.mech, What: "an accepted receive whose callback fails must store the hash of the code-1 error acknowledgement (registered relayer address, packet fee option)",
					Ops: append([]string{}, w.hist...), Obs: "acks[key]=" + after[ak] + " delta " + delta, Req: hx(pktSha(wantErrAck))})
			}
		}
		if p.DstChain == c.name {
			ak := hx(host.PacketAcknowledgementKey(p.SrcChain, p.DstChain, p.Sequence))
			want := "+" + ak + "=" + hx(pktSha(out.ackBz)) + ",+" + rk + "=01"
			if _, wrote := after[ak]; !wrote {
				w.r.Find(Finding{Sig: "C05:accepted-recv-without-ack:" + tag, What: "an accepted receive addressed to this chain left no acknowledgement in the store",
					Ops: append([]string{}, w.hist...), Obs: delta, Req: "+" + ak + "=<sha256 of the acknowledgement>"})
			} else if _, had := before[ak]; had || out.ackBz == nil || delta != want {
				w.r.Find(Finding{Sig: "C05:recv-did-not-write-exactly-one-ack:" + tag, What: "an accepted receive addressed to this chain must write exactly its receipt and the hash of the acknowledgement it emitted under the packet's ack key",
					Ops: append([]string{}, w.hist...), Obs: delta, Req: want})
			}
		}
	} else {
		if delta != "-" {
			w.r.Find(Finding{Sig: "C02:rejected-recv-changed-state:" + tag, What: "a rejected receive changed the packet stores",
				Ops: append([]string{}, w.hist...), Obs: delta, Req: "-"})
		}
	}
	w.stepOracle(before, after, "")
	return out
}

// ack delivers MsgAcknowledgement on chain c.
func (w *pktWorld) ack(c *pktChain, packet, ackBz, proof []byte, h clienttypes.Height, acct int, tag string) pktOutcome {
	id, p, _ := w.defPacket(packet)
	aid, _, _ := w.defAck(ackBz)
	signer := c.accts[acct].addr.String()
	path := host.PacketAcknowledgementKey(p.SrcChain, p.DstChain, p.Sequence)
	w.curSigner = signer
	sem, gen := w.truth(c, p.DstChain, path, pktSha(ackBz), h, proof)
	msg := &packettypes.MsgAcknowledgement{Packet: packet, Acknowledgement: ackBz, ProofAcked: proof, ProofHeight: h, Signer: signer}
	now := c.now()
	stBefore := c.ackStatus(p.DstChain, p.Sequence)
	// C05: state the fee / callback oracles look at (source side only)
	var msgAck packettypes.Acknowledgement
	msgAckOk := msgAck.ABIDecode(ackBz) == nil
	_, feeBefore := c.packetFee(p.DstChain, p.Sequence)
	recBefore := c.ackRecord(p.DstChain, p.Sequence)
	resolved, resolvedOk := c.resolveRelayer(p.DstChain, msgAck.Relayer)
	var resolvedAcc, senderAcc sdk.AccAddress
	var relBalBefore, sndBalBefore *big.Int
	if resolvedOk {
		resolvedAcc, _ = sdk.AccAddressFromBech32(resolved)
		relBalBefore = c.baseBalance(resolvedAcc)
	}
	if common.IsHexAddress(p.Sender) {
		senderAcc = sdk.AccAddress(common.HexToAddress(p.Sender).Bytes())
		sndBalBefore = c.baseBalance(senderAcc)
	}
	_, err := w.deliverMsgs(c, acct, msg)
	ok := err == nil
	if err != nil && os.Getenv("VERIF_PKT_DEBUG") != "" {
		fmt.Fprintf(os.Stderr, "ACKERR line=%d tag=%s seq=%d: %v\n", len(w.hist), tag, p.Sequence, err)
	}
	delta, before, after := c.observe()
	out := pktOutcome{ok: ok, delta: delta, before: before, after: after, semantic: sem, genu: gen}
	truth := "0"
	if sem && gen {
		truth = "1"
	}
	st := c.ackStatus(p.DstChain, p.Sequence)
	r := "err"
	if ok {
		r = "ok"
	}
	// known behaviour of the packet contract (C03 side finding, out of scope here): OnAcknowledgePacket reverts for an
	// error acknowledgement of a packet without transfer data (nothing to refund) — such a packet stays unacknowledged
	evmOut := "111"
	var da0 packettypes.Acknowledgement
	if len(p.TransferData) == 0 && da0.ABIDecode(ackBz) == nil && da0.Code != 0 {
		evmOut = "110"
		w.r.Count("ack.onack-reverts-by-construction")
	}
	w.op(fmt.Sprintf("ackm %s %d %s %s %s %s %d %d %s %s", hxs(c.name), now, id, aid, pktProofID(proof), truth, h.RevisionNumber,
		h.RevisionHeight, hxs(signer), evmOut), fmt.Sprintf("%s %s S=%d", r, delta, st))
	if sr, known := w.byEnc[string(enc0(p))]; known && sr.cbErr && sr.src == c {
		w.r.Count("ack.callback-error." + r)
	}
	w.r.Count("ack." + tag + "." + r)
	w.r.Count("ack." + r)
	if ok && (pktHasUpper(p.SrcChain) || pktHasUpper(p.DstChain)) {
		w.r.Count("ack.accepted.mixed-case-name")
	}
	if pktIsHighSeq(p.Sequence) {
		w.r.Count("ack.high-sequence." + r)
	}
	ck := hx(host.PacketCommitmentKey(p.SrcChain, p.DstChain, p.Sequence))
	enc, _ := p.ABIPack()
	if ok {
		key := c.name + "|" + ck
		w.ackedN[key]++
		if w.ackedN[key] > 1 {
			w.r.Find(Finding{Sig: "C05:ack-accepted-twice:" + tag, What: "a second acknowledgement for the same packet was accepted",
				Ops: append([]string{}, w.hist...), Obs: "accepted", Req: "rejected"})
		}
		if before[ck] != hx(pktSha(enc)) {
			w.r.Find(Finding{Sig: "C02:ack-accepted-without-commitment:" + tag, What: "acknowledgement accepted although this chain did not hold the commitment of exactly this packet",
				Ops: append([]string{}, w.hist...), Obs: "accepted; stored " + before[ck], Req: "rejected"})
		}
		if p.SrcChain == c.name && msgAckOk {
			// the acknowledgement was processed: fee released once to the resolved relayer account, sender callback ran
			_, feeAfter := c.packetFee(p.DstChain, p.Sequence)
			recAfter := c.ackRecord(p.DstChain, p.Sequence)
			wantRec := fmt.Sprintf("%d|%x|%s|%s", msgAck.Code, msgAck.Result, msgAck.Message, msgAck.Relayer)
			if recBefore != "" || recAfter != wantRec {
				w.r.Find(Finding{Sig: "C05:sender-callback-not-run-once:" + tag, What: "after an accepted acknowledgement the packet contract must hold exactly this acknowledgement for (dst, seq), and must not have held one before (OnAcknowledgePacket runs once)",
					Ops: append([]string{}, w.hist...), Obs: "before " + recBefore + " after " + recAfter, Req: "before - after " + wantRec})
			}
			if !resolvedOk {
				w.r.Find(Finding{Sig: "C05:ack-accepted-relayer-unresolvable:" + tag, What: "an acknowledgement was accepted although the relayer it names does not resolve to an account in this chain's registry",
					Ops: append([]string{}, w.hist...), Obs: "accepted, relayer " + msgAck.Relayer, Req: "rejected"})
			} else {
				// expected movement of the base token: fee to the resolved account; refund of the transfer to the sender on an
				// error acknowledgement (base-token transfers only — all this harness sends)
				wantRel := new(big.Int).Set(feeBefore)
				wantSnd := big.NewInt(0)
				var td packettypes.TransferData
				if msgAck.Code != 0 && len(p.TransferData) > 0 && td.ABIDecode(p.TransferData) == nil && common.HexToAddress(td.Token) == (common.Address{}) {
					wantSnd = new(big.Int).SetBytes(td.Amount)
				}
				gotRel := new(big.Int).Sub(c.baseBalance(resolvedAcc), relBalBefore)
				if senderAcc != nil && senderAcc.Equals(resolvedAcc) {
					wantRel.Add(wantRel, wantSnd)
				} else if senderAcc != nil {
					gotSnd := new(big.Int).Sub(c.baseBalance(senderAcc), sndBalBefore)
					if gotSnd.Cmp(wantSnd) != 0 {
						w.r.Find(Finding{Sig: "C05:ack-refund-wrong:" + tag, What: "the sender's base-token balance must grow by exactly the transferred amount on an error acknowledgement and not at all on a success acknowledgement",
							Ops: append([]string{}, w.hist...), Obs: gotSnd.String(), Req: wantSnd.String()})
					}
				}
				if gotRel.Cmp(wantRel) != 0 {
					w.r.Find(Finding{Sig: "C05:ack-fee-not-paid-once-to-resolved-relayer:" + tag, What: "an accepted acknowledgement must release the escrowed packet fee exactly once to the account the registry resolves for the acknowledgement's relayer field",
						Ops: append([]string{}, w.hist...), Obs: fmt.Sprintf("resolved %s got %s (fee record %s -> %s)", resolved, gotRel, feeBefore, feeAfter), Req: wantRel.String()})
				}
				w.r.Count("ack.fee-oracle")
				if feeBefore.Sign() > 0 {
					w.r.Count("ack.fee-paid")
				}
				if wantSnd.Sign() > 0 {
					w.r.Count("ack.refund")
				}
			}
		}
		if _, still := after[ck]; still {
			w.r.Find(Finding{Sig: "C05:ack-accepted-commitment-kept:" + tag, What: "accepted acknowledgement did not remove the commitment",
				Ops: append([]string{}, w.hist...), Obs: delta, Req: "-" + ck})
		}
		if !sem {
			w.r.Find(Finding{Sig: "C05:commitment-removed-by-unverified-ack:" + tag, What: "a commitment was removed by an acknowledgement the counterparty (its light client's state / its TSS address) never produced",
				Ops: append([]string{}, w.hist...), Obs: "accepted", Req: "rejected"})
			w.r.Find(Finding{Sig: "C02:ack-accepted-not-committed:" + tag, What: "acknowledgement accepted although the destination chain did not store the hash of these ack bytes at the proof height",
				Ops: append([]string{}, w.hist...), Obs: "accepted", Req: "rejected"})
		}
		var da packettypes.Acknowledgement
		if da.ABIDecode(ackBz) == nil {
			wantSt := uint8(2)
			if da.Code == 0 {
				wantSt = 1
			}
			w.r.Count(fmt.Sprintf("ack.status%d", st))
			if st != wantSt {
				w.r.Find(Finding{Sig: "C05:ack-status-wrong:" + tag, What: "ack status after an accepted acknowledgement does not reflect its code",
					Ops: append([]string{}, w.hist...), Obs: fmt.Sprint(st), Req: fmt.Sprint(wantSt)})
			}
		}
		if stBefore != 0 {
			w.r.Find(Finding{Sig: "C05:ack-status-set-twice:" + tag, What: "ack status was already set when an acknowledgement was accepted",
				Ops: append([]string{}, w.hist...), Obs: fmt.Sprint(stBefore), Req: "0"})
		}
	} else {
		if delta != "-" || st != stBefore {
			w.r.Find(Finding{Sig: "C02:rejected-ack-changed-state:" + tag, What: "a rejected acknowledgement changed the packet stores or the ack status",
				Ops: append([]string{}, w.hist...), Obs: fmt.Sprintf("%s S %d->%d", delta, stBefore, st), Req: "-"})
		}
	}
	if ok {
		w.stepOracle(before, after, ck)
	} else {
		w.stepOracle(before, after, "")
	}
	return out
}

// stepOracle: global per-step invariants of C05 evaluated on two consecutive dumps of one chain.
func (w *pktWorld) stepOracle(before, after map[string]string, acceptedAckOfCommitKey string) {
	ackP := hx([]byte(host.KeyPacketAckPrefix + "/"))
	comP := hx([]byte(host.KeyPacketCommitmentPrefix + "/"))
	for k, v := range before {
		if strings.HasPrefix(k, ackP) {
			if nv, ok := after[k]; !ok || nv != v {
				w.r.Find(Finding{Sig: "C05:stored-ack-changed", What: "a stored acknowledgement was overwritten or removed",
					Ops: append([]string{}, w.hist...), Obs: k + " -> " + nv, Req: v})
			}
		}
		if strings.HasPrefix(k, comP) {
			if _, ok := after[k]; !ok && k != acceptedAckOfCommitKey {
				w.r.Find(Finding{Sig: "C05:commitment-removed-without-its-ack", What: "a commitment disappeared in a step that is not an accepted acknowledgement of that packet",
					Ops: append([]string{}, w.hist...), Obs: "-" + k, Req: "kept"})
			}
		}
	}
}

func enc0(p packettypes.Packet) []byte {
	b, _ := p.ABIPack()
	return b
}

func erc20ABI() abi.ABI { return erc20contracts.ERC20MinterBurnerDecimalsContract.ABI }
func erc20Bin() []byte  { return erc20contracts.ERC20MinterBurnerDecimalsContract.Bin }

// ---------------------------------------------------------------------------------------------
// packet-contract views and balances used by the C05 oracles

func (c *pktChain) packetFee(dst string, seq uint64) (common.Address, *big.Int) {
	abi := packetcontract.PacketContract.ABI
	res, err := c.tc.App.AggregateKeeper.CallEVM(c.tc.GetContext(), abi, packettypes.ModuleAddress,
		packetcontract.PacketContractAddress, "packetFees", []byte(dst+"/"+fmt.Sprint(seq)))
	if err != nil {
		return common.Address{}, big.NewInt(0)
	}
	var fee packettypes.Fee
	if err := abi.UnpackIntoInterface(&fee, "packetFees", res.Ret); err != nil || fee.Amount == nil {
		return common.Address{}, big.NewInt(0)
	}
	return fee.TokenAddress, fee.Amount
}

// ackRecord: the acknowledgement the packet contract recorded for (dst, seq) when OnAcknowledgePacket ran ("" if none)
func (c *pktChain) ackRecord(dst string, seq uint64) string {
	abi := packetcontract.PacketContract.ABI
	res, err := c.tc.App.AggregateKeeper.CallEVM(c.tc.GetContext(), abi, packettypes.ModuleAddress,
		packetcontract.PacketContractAddress, "acks", []byte(dst+"/"+fmt.Sprint(seq)))
	if err != nil {
		return ""
	}
	var a packettypes.Acknowledgement
	if err := abi.UnpackIntoInterface(&a, "acks", res.Ret); err != nil {
		return ""
	}
	if a.Code == 0 && len(a.Result) == 0 && a.Message == "" && a.Relayer == "" {
		return ""
	}
	return fmt.Sprintf("%d|%x|%s|%s", a.Code, a.Result, a.Message, a.Relayer)
}

func (c *pktChain) baseBalance(addr sdk.AccAddress) *big.Int {
	return c.tc.App.BankKeeper.GetBalance(c.tc.GetContext(), addr, sdk.DefaultBondDenom).Amount.BigInt()
}

// resolveRelayer mirrors GetRelayerAddressOnTeleport on the harness' registry mirror: relayers in store order
// (ascending address string), the first one registered for `chain` with an address equal to `addr` up to case.
func (c *pktChain) resolveRelayer(chain, addr string) (string, bool) {
	var rs []string
	for r := range c.regAddr {
		rs = append(rs, r)
	}
	sort.Strings(rs)
	for _, r := range rs {
		if a, ok := c.regAddr[r][chain]; ok && strings.EqualFold(a, addr) {
			return r, true
		}
	}
	return "", false
}
