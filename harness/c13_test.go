//go:build c13

package verifharness

// C13 — genesis export / import round trip of the xibc, aggregate and rvesting module state.
//
// Every op line is a REAL keeper call (executed on a full app, in a cache context) and, with the same text,
// an operation of the Lean model (Model/Genesis.lean). Blobs (proto encodings of client / consensus states,
// relayers, token pairs), hashes and Validate() results are external computations: they arrive on the op
// line, computed here with the node's own libraries.
//
// op language (all byte strings hex, `-` = empty; numbers decimal):
//   reset
//   chainname N                                           ClientKeeper.SetChainName
//   relayer BLOB                                          ClientKeeper.RegisterRelayers (BLOB = IdentifiedRelayer)
//   create TY CHAIN CBLOB CVALID SBLOB SVALID REV H EXTRA…  ClientKeeper.CreateClient   (TY = tm|bsc|eth|tss)
//            EXTRA: tm: NOWNS | bsc: SIGNER PENDINGBLOB | eth: HASH ROOT INDEXBLOB | tss: -
//   client CHAIN BLOB VALID                               ClientKeeper.SetClientState
//   cons CHAIN REV H BLOB VALID                           ClientKeeper.SetClientConsensusState
//   tmmeta CHAIN REV H TIMENS                             tendermint SetProcessedTime + SetIterationKey (what an update writes)
//   prune CHAIN REV H                                     delete consensus state + tendermint metadata (what pruning deletes)
//   bscsigner CHAIN REV H VAL | bscdelsigner CHAIN REV H  bsc SetSigner / DeleteSigner
//   bscpending CHAIN BLOB                                 bsc SetPendingValidators (BLOB = ValidatorSet)
//   ethindex CHAIN HASH H BLOB | ethroot CHAIN ROOT H HASH   eth header index / root-main entries
//   commit|ack S D SEQ DATA | receipt S D SEQ | nextseq S D SEQ | delcommit S D SEQ     packet keeper
//   pair ID BLOB ERC20 K DENOM*K | delpair ID BLOB ERC20 K DENOM*K                     aggregate keeper
//   param SUBSPACE KEY JSON                               params Subspace.Update
//   rawx KEY VAL                                          raw write into the xibc store (NOT a reachable state: oracle off)
//   dump                      -> x[k=v,…] a[…] p[…]       full KV dump of the module stores
//   keys                      -> 1                        (model: ModuleKeys of the dumped state; only emitted for reachable states)
//   export                    -> canonical listing of ExportGenesis (after JSON marshal/unmarshal with the app codec) | panic
//   validate                  -> ok | err
//   init                      -> dump of a FRESH (emptied) store after InitGenesis | panic
//   export2                   -> listing of ExportGenesis of the re-imported state

import (
	"bytes"
	"encoding/json"
	"encoding/binary"
	"fmt"
	"math/big"
	"os"
	"runtime/debug"
	"sort"
	"strconv"
	"strings"
	"testing"
	"time"

	"github.com/cosmos/cosmos-sdk/store/prefix"
	"github.com/cosmos/cosmos-sdk/codec"
	sdk "github.com/cosmos/cosmos-sdk/types"
	authtypes "github.com/cosmos/cosmos-sdk/x/auth/types"
	paramstypes "github.com/cosmos/cosmos-sdk/x/params/types"
	"github.com/ethereum/go-ethereum/common"
	"github.com/ethereum/go-ethereum/crypto"
	"github.com/ethereum/go-ethereum/rlp"
	abci "github.com/tendermint/tendermint/abci/types"
	"github.com/tendermint/tendermint/libs/log"
	tmproto "github.com/tendermint/tendermint/proto/tendermint/types"
	dbm "github.com/tendermint/tm-db"
	"golang.org/x/crypto/sha3"

	"github.com/cosmos/cosmos-sdk/simapp"
	"github.com/tharsis/ethermint/encoding"

	"github.com/teleport-network/teleport/app"
	aggregatemodule "github.com/teleport-network/teleport/x/aggregate/module"
	rvestingmodule "github.com/teleport-network/teleport/x/rvesting/module"
	xibcmodule "github.com/teleport-network/teleport/x/xibc/module"
	aggregatetypes "github.com/teleport-network/teleport/x/aggregate/types"
	rvestingtypes "github.com/teleport-network/teleport/x/rvesting/types"
	bsctypes "github.com/teleport-network/teleport/x/xibc/clients/light-clients/bsc/types"
	ethtypes "github.com/teleport-network/teleport/x/xibc/clients/light-clients/eth/types"
	tmtypes "github.com/teleport-network/teleport/x/xibc/clients/light-clients/tendermint/types"
	tsstypes "github.com/teleport-network/teleport/x/xibc/clients/tss-client/types"
	clienttypes "github.com/teleport-network/teleport/x/xibc/core/client/types"
	commitmenttypes "github.com/teleport-network/teleport/x/xibc/core/commitment/types"
	"github.com/teleport-network/teleport/x/xibc/core/host"
	"github.com/teleport-network/teleport/x/xibc/exported"
	xibctypes "github.com/teleport-network/teleport/x/xibc/types"
)

type c13World struct {
	app       *app.Teleport
	base      sdk.Context
	ctx       sdk.Context
	ctx2      sdk.Context
	hist      []string
	reachable bool
	lastOut   string
	lastErr   string
	agg       c13Agg
	// export → validate → init → export2 pipeline state
	gen      *c13Gen
	list1    string
	dump1    string
	exported bool
}

type c13Gen struct {
	x  xibctypes.GenesisState
	a  aggregatetypes.GenesisState
	rv rvestingtypes.GenesisState
	// the module-level JSON (AppModule.ExportGenesis), what ValidateGenesis / InitGenesis of the module manager receive
	xj, aj, rj json.RawMessage
}

var c13Amino = codec.NewLegacyAmino()

var c13ParamSubspaces = []string{"aggregate", "rvesting"}

func newC13World() *c13World {
	a := app.Setup(false, nil)
	ctx := a.BaseApp.NewContext(false, tmproto.Header{Height: 1, ChainID: "teleport_9000-1", Time: time.Unix(1700000000, 0)})
	w := &c13World{app: a, base: ctx}
	w.reset()
	w.aggSetup()
	return w
}

func (w *c13World) reset() {
	w.ctx, _ = w.base.CacheContext()
	c13Wipe(w.ctx, w) // a history starts from EMPTY module stores; parameters and chain name are explicit ops
	w.hist = nil
	w.reachable = true
	w.gen = nil
	w.exported = false
}

// ---- dumps ------------------------------------------------------------------------------------

func c13DumpStore(ctx sdk.Context, w *c13World) string {
	var sb strings.Builder
	put := func(tag string, st sdk.KVStore, pfx []byte) {
		sb.WriteString(tag + "[")
		it := sdk.KVStorePrefixIterator(st, pfx)
		first := true
		for ; it.Valid(); it.Next() {
			if !first {
				sb.WriteByte(',')
			}
			first = false
			sb.WriteString(hx(it.Key()) + "=" + hx(it.Value()))
		}
		it.Close()
		sb.WriteString("]")
	}
	put("x", ctx.KVStore(w.app.GetKey(host.StoreKey)), nil)
	sb.WriteByte(' ')
	put("a", ctx.KVStore(w.app.GetKey(aggregatetypes.StoreKey)), nil)
	sb.WriteByte(' ')
	// params: the two subspaces, keys printed with their subspace prefix
	sb.WriteString("p[")
	ps := ctx.KVStore(w.app.GetKey(paramstypes.StoreKey))
	first := true
	for _, sub := range c13ParamSubspaces {
		it := sdk.KVStorePrefixIterator(ps, []byte(sub+"/"))
		for ; it.Valid(); it.Next() {
			if !first {
				sb.WriteByte(',')
			}
			first = false
			sb.WriteString(hx(it.Key()) + "=" + hx(it.Value()))
		}
		it.Close()
	}
	sb.WriteString("]")
	return sb.String()
}

func c13Wipe(ctx sdk.Context, w *c13World) {
	wipe := func(st sdk.KVStore, pfx []byte) {
		var ks [][]byte
		it := sdk.KVStorePrefixIterator(st, pfx)
		for ; it.Valid(); it.Next() {
			ks = append(ks, append([]byte{}, it.Key()...))
		}
		it.Close()
		for _, k := range ks {
			st.Delete(k)
		}
	}
	wipe(ctx.KVStore(w.app.GetKey(host.StoreKey)), nil)
	wipe(ctx.KVStore(w.app.GetKey(aggregatetypes.StoreKey)), nil)
	for _, sub := range c13ParamSubspaces {
		wipe(ctx.KVStore(w.app.GetKey(paramstypes.StoreKey)), []byte(sub+"/"))
	}
}

// ---- export listing -------------------------------------------------------------------------------

// the three modules exactly as the module manager holds them (app.go)
func (w *c13World) mods() (xibcmodule.AppModule, aggregatemodule.AppModule, rvestingmodule.AppModule) {
	return xibcmodule.NewAppModule(w.app.XIBCKeeper), aggregatemodule.NewAppModule(*w.app.AggregateKeeper, w.app.AccountKeeper), rvestingmodule.NewAppModule(w.app.RVestingKeeper)
}

// export through the REAL module entry points: AppModule.ExportGenesis (JSON), as `mm.ExportGenesis` calls them
func (w *c13World) c13Export(ctx sdk.Context) *c13Gen {
	cdc := w.app.AppCodec()
	xm, am, rm := w.mods()
	out := &c13Gen{xj: xm.ExportGenesis(ctx, cdc), aj: am.ExportGenesis(ctx, cdc), rj: rm.ExportGenesis(ctx, cdc)}
	// decoded only for the canonical listing and the export-vs-store oracles
	cdc.MustUnmarshalJSON(out.xj, &out.x)
	cdc.MustUnmarshalJSON(out.aj, &out.a)
	cdc.MustUnmarshalJSON(out.rj, &out.rv)
	return out
}

func (w *c13World) c13Listing(g *c13Gen) string {
	cdc := w.app.AppCodec()
	var sb strings.Builder
	cg := g.x.ClientGenesis
	sb.WriteString("C[")
	for i, c := range cg.Clients {
		if i > 0 {
			sb.WriteByte(',')
		}
		bz, _ := c.ClientState.Marshal()
		sb.WriteString(hxs(c.ChainName) + "=" + hx(bz))
	}
	sb.WriteString("] S[")
	for i, cc := range cg.ClientsConsensus {
		if i > 0 {
			sb.WriteByte(',')
		}
		sb.WriteString(hxs(cc.ChainName) + "{")
		for j, cs := range cc.ConsensusStates {
			if j > 0 {
				sb.WriteByte(';')
			}
			bz, _ := cs.ConsensusState.Marshal()
			sb.WriteString(fmt.Sprintf("%d-%d=%s", cs.Height.RevisionNumber, cs.Height.RevisionHeight, hx(bz)))
		}
		sb.WriteString("}")
	}
	sb.WriteString("] M[")
	for i, m := range cg.ClientsMetadata {
		if i > 0 {
			sb.WriteByte(',')
		}
		sb.WriteString(hxs(m.ChainName) + "{")
		for j, e := range m.Metadata {
			if j > 0 {
				sb.WriteByte(';')
			}
			sb.WriteString(hx(e.Key) + "=" + hx(e.Value))
		}
		sb.WriteString("}")
	}
	sb.WriteString("] N=" + hxs(cg.NativeChainName) + " R[")
	for i, r := range cg.Relayers {
		if i > 0 {
			sb.WriteByte(',')
		}
		rr := r
		sb.WriteString(hx(cdc.MustMarshal(&rr)))
	}
	sb.WriteString("]")
	type pe = struct {
		s, d string
		q    uint64
		v    []byte
	}
	ps := func(tag string, l []pe) {
		sb.WriteString(" " + tag + "[")
		for i, e := range l {
			if i > 0 {
				sb.WriteByte(',')
			}
			sb.WriteString(fmt.Sprintf("%s/%s/%d=%s", hxs(e.s), hxs(e.d), e.q, hx(e.v)))
		}
		sb.WriteString("]")
	}
	pg := g.x.PacketGenesis
	var l []pe
	for _, e := range pg.Acknowledgements {
		l = append(l, pe{e.SrcChain, e.DstChain, e.Sequence, e.Data})
	}
	ps("A", l)
	l = nil
	for _, e := range pg.Commitments {
		l = append(l, pe{e.SrcChain, e.DstChain, e.Sequence, e.Data})
	}
	ps("K", l)
	l = nil
	for _, e := range pg.Receipts {
		l = append(l, pe{e.SrcChain, e.DstChain, e.Sequence, e.Data})
	}
	ps("P", l)
	sb.WriteString(" Q[")
	for i, e := range pg.SendSequences {
		if i > 0 {
			sb.WriteByte(',')
		}
		sb.WriteString(fmt.Sprintf("%s/%s=%d", hxs(e.SrcChain), hxs(e.DstChain), e.Sequence))
	}
	sb.WriteString("] T[")
	for i, p := range g.a.TokenPairs {
		if i > 0 {
			sb.WriteByte(',')
		}
		pp := p
		sb.WriteString(hx(cdc.MustMarshal(&pp)))
	}
	sb.WriteString("] PR[")
	// exported parameters as the (subspace/key, legacy-amino JSON) pairs the params store holds
	amino := c13Amino
	var prs []string
	for _, pair := range g.a.Params.ParamSetPairs() {
		bz, _ := amino.MarshalJSON(reflectDeref(pair.Value))
		prs = append(prs, hx(append([]byte("aggregate/"), pair.Key...))+"="+hx(bz))
	}
	for _, pair := range g.rv.Params.ParamSetPairs() {
		bz, _ := amino.MarshalJSON(reflectDeref(pair.Value))
		prs = append(prs, hx(append([]byte("rvesting/"), pair.Key...))+"="+hx(bz))
	}
	sort.Strings(prs) // keys are distinct ASCII words of different first letters per subspace: hex order = byte order
	sb.WriteString(strings.Join(prs, ","))
	sb.WriteString("]")
	return sb.String()
}

func reflectDeref(p interface{}) interface{} {
	switch v := p.(type) {
	case *bool:
		return *v
	case *sdk.Coins:
		return *v
	}
	return p
}

// ---- helpers for blobs ----------------------------------------------------------------------------

func (w *c13World) csBlob(cs exported.ClientState) []byte {
	bz, err := w.app.AppCodec().MarshalInterface(cs)
	if err != nil {
		panic(err)
	}
	return bz
}
func (w *c13World) consBlob(cs exported.ConsensusState) []byte {
	bz, err := w.app.AppCodec().MarshalInterface(cs)
	if err != nil {
		panic(err)
	}
	return bz
}
func (w *c13World) unCS(bz []byte) exported.ClientState {
	var cs exported.ClientState
	if err := w.app.AppCodec().UnmarshalInterface(bz, &cs); err != nil {
		panic(err)
	}
	return cs
}
func (w *c13World) unCons(bz []byte) exported.ConsensusState {
	var cs exported.ConsensusState
	if err := w.app.AppCodec().UnmarshalInterface(bz, &cs); err != nil {
		panic(err)
	}
	return cs
}
func b01i(b bool) int {
	if b {
		return 1
	}
	return 0
}
func b01(b bool) string {
	if b {
		return "1"
	}
	return "0"
}
func pu(s string) uint64 {
	n, err := strconv.ParseUint(s, 10, 64)
	if err != nil {
		panic(err)
	}
	return n
}

// ---- apply one op line on the real code ---------------------------------------------------------------

func (w *c13World) apply(r *Rec, op string) (out string) {
	f := strings.Fields(op)
	w.hist = append(w.hist, op)
	ck := w.app.XIBCKeeper.ClientKeeper
	pk := w.app.XIBCKeeper.PacketKeeper
	defer func() { w.lastOut = out }()
	defer func() {
		if rec := recover(); rec != nil {
			out = "harness-panic " + strings.ReplaceAll(fmt.Sprint(rec), "\n", " ")
			if os.Getenv("C13_DEBUG") != "" {
				fmt.Println(string(debug.Stack()))
			}
		}
	}()
	switch f[0] {
	case "reset":
		w.reset()
		w.hist = []string{op}
		return "ok"
	case "chainname":
		ck.SetChainName(w.ctx, string(unhx(f[1])))
		return "ok"
	case "relayer":
		var ir clienttypes.IdentifiedRelayer
		w.app.AppCodec().MustUnmarshal(unhx(f[1]), &ir)
		ck.RegisterRelayers(w.ctx, ir.Address, ir.Chains, ir.Addresses)
		return "ok"
	case "create", "toggle", "upgrade":
		// proposal level: Create/Toggle/UpgradeClientProposal.ValidateBasic runs ClientState.Validate() before the keeper is reached;
		// a failing keeper call is reverted with its transaction
		chain := string(unhx(f[2]))
		cs := w.unCS(unhx(f[3]))
		cons := w.unCons(unhx(f[5]))
		if cs.Validate() != nil {
			r.Count(f[0] + ".rejected-by-validate")
			return "err"
		}
		ctx, write := w.ctx.CacheContext()
		if f[1] == "tm" {
			ctx = ctx.WithBlockTime(time.Unix(0, int64(pu(f[9]))))
		}
		var err error
		switch f[0] {
		case "create":
			err = ck.CreateClient(ctx, chain, cs, cons)
		case "upgrade":
			err = ck.UpgradeClient(ctx, chain, cs, cons)
		default:
			err = ck.ToggleClient(ctx, chain, cs, cons)
		}
		if err != nil {
			r.Count(f[0] + ".rejected-by-keeper")
			return "err"
		}
		write()
		return "ok"
	case "rvinit":
		// rvesting InitGenesis with `From` funding, on a scratch branch: rvinit FROMVALID NB (DENOM BAL)*NB NR (DENOM AMT)*NR
		cctx, _ := w.ctx.CacheContext()
		from := sdk.AccAddress(bytes.Repeat([]byte{0xf7}, 20))
		pool := authtypes.NewModuleAddress(rvestingtypes.ModuleName)
		nb := int(pu(f[2]))
		var denoms []string
		for i := 0; i < nb; i++ {
			d := string(unhx(f[3+2*i]))
			denoms = append(denoms, d)
			amt, _ := sdk.NewIntFromString(f[4+2*i])
			if amt.IsPositive() {
				c := sdk.NewCoins(sdk.NewCoin(d, amt))
				if err := w.app.BankKeeper.MintCoins(cctx, "aggregate", c); err != nil {
					panic(err)
				}
				if err := w.app.BankKeeper.SendCoinsFromModuleToAccount(cctx, "aggregate", from, c); err != nil {
					panic(err)
				}
			}
		}
		nr := int(pu(f[3+2*nb]))
		var reward sdk.Coins
		for i := 0; i < nr; i++ {
			amt, _ := sdk.NewIntFromString(f[5+2*nb+2*i])
			reward = append(reward, sdk.NewCoin(string(unhx(f[4+2*nb+2*i])), amt))
		}
		before := map[string]sdk.Int{}
		for _, d := range denoms {
			before[d] = w.app.BankKeeper.GetBalance(cctx, pool, d).Amount
		}
		gs := rvestingtypes.GenesisState{Params: w.app.RVestingKeeper.GetParams(cctx), From: from.String(), InitReward: reward}
		if f[1] == "0" {
			gs.From = "not-a-bech32-address"
		}
		if pan, _ := safely(func() { w.app.RVestingKeeper.InitGenesis(cctx, &gs) }); pan {
			r.Count("rvinit.panic")
			return "panic"
		}
		r.Count("rvinit.ok")
		var ps, fs []string
		for _, d := range denoms {
			ps = append(ps, hxs(d)+"="+w.app.BankKeeper.GetBalance(cctx, pool, d).Amount.Sub(before[d]).String())
			fs = append(fs, hxs(d)+"="+w.app.BankKeeper.GetBalance(cctx, from, d).Amount.String())
		}
		// oracle (statement of initRvesting_funded on the implementation): pool gained exactly InitReward
		for _, d := range denoms {
			if got := w.app.BankKeeper.GetBalance(cctx, pool, d).Amount.Sub(before[d]); !got.Equal(reward.AmountOf(d)) {
				r.Find(Finding{Sig: "C13:rvesting-init-funding", What: "InitGenesis with From did not move exactly InitReward into the pool", Ops: append([]string{}, w.hist...), Obs: got.String(), Req: reward.AmountOf(d).String()})
			}
		}
		return "ok P[" + strings.Join(ps, ",") + "] F[" + strings.Join(fs, ",") + "]"
	case "client":
		ck.SetClientState(w.ctx, string(unhx(f[1])), w.unCS(unhx(f[2])))
		return "ok"
	case "cons":
		ck.SetClientConsensusState(w.ctx, string(unhx(f[1])), clienttypes.NewHeight(pu(f[2]), pu(f[3])), w.unCons(unhx(f[4])))
		return "ok"
	case "tmmeta":
		st := ck.ClientStore(w.ctx, string(unhx(f[1])))
		h := clienttypes.NewHeight(pu(f[2]), pu(f[3]))
		tmtypes.SetProcessedTime(st, h, pu(f[4]))
		tmtypes.SetIterationKey(st, h)
		return "ok"
	case "prune":
		st := ck.ClientStore(w.ctx, string(unhx(f[1])))
		h := clienttypes.NewHeight(pu(f[2]), pu(f[3]))
		st.Delete(host.ConsensusStateKey(h))
		st.Delete(tmtypes.ProcessedTimeKey(h))
		st.Delete(tmtypes.IterationKey(h))
		return "ok"
	case "bscsigner":
		st := ck.ClientStore(w.ctx, string(unhx(f[1])))
		bsctypes.SetSigner(st, bsctypes.Signer{Height: clienttypes.NewHeight(pu(f[2]), pu(f[3])), Validator: unhx(f[4])})
		return "ok"
	case "bscdelsigner":
		st := ck.ClientStore(w.ctx, string(unhx(f[1])))
		bsctypes.DeleteSigner(st, clienttypes.NewHeight(pu(f[2]), pu(f[3])))
		return "ok"
	case "bscpending":
		st := ck.ClientStore(w.ctx, string(unhx(f[1])))
		var vs bsctypes.ValidatorSet
		w.app.AppCodec().MustUnmarshal(unhx(f[2]), &vs)
		bsctypes.SetPendingValidators(st, w.app.AppCodec(), vs.Validators)
		return "ok"
	case "ethindex":
		st := ck.ClientStore(w.ctx, string(unhx(f[1])))
		st.Set(ethtypes.EthHeaderIndexKey(common.BytesToHash(unhx(f[2])), pu(f[3])), unhx(f[4]))
		return "ok"
	case "ethroot":
		st := ck.ClientStore(w.ctx, string(unhx(f[1])))
		ethtypes.SetEthConsensusRoot(st, pu(f[3]), common.BytesToHash(unhx(f[2])), common.BytesToHash(unhx(f[4])))
		return "ok"
	case "commit":
		pk.SetPacketCommitment(w.ctx, string(unhx(f[1])), string(unhx(f[2])), pu(f[3]), unhx(f[4]))
		return "ok"
	case "ack":
		pk.SetPacketAcknowledgement(w.ctx, string(unhx(f[1])), string(unhx(f[2])), pu(f[3]), unhx(f[4]))
		return "ok"
	case "receipt":
		pk.SetPacketReceipt(w.ctx, string(unhx(f[1])), string(unhx(f[2])), pu(f[3]))
		return "ok"
	case "nextseq":
		pk.SetNextSequenceSend(w.ctx, string(unhx(f[1])), string(unhx(f[2])), pu(f[3]))
		return "ok"
	case "delcommit":
		w.ctx.KVStore(w.app.GetKey(host.StoreKey)).Delete(host.PacketCommitmentKey(string(unhx(f[1])), string(unhx(f[2])), pu(f[3])))
		return "ok"
	case "pair", "delpair":
		var tp aggregatetypes.TokenPair
		w.app.AppCodec().MustUnmarshal(unhx(f[2]), &tp)
		if f[0] == "pair" {
			id := tp.GetID()
			w.app.AggregateKeeper.SetTokenPair(w.ctx, tp)
			w.app.AggregateKeeper.SetDenomsMap(w.ctx, tp.Denoms, id)
			w.app.AggregateKeeper.SetERC20Map(w.ctx, tp.GetERC20Contract(), id)
		} else {
			w.app.AggregateKeeper.DeleteTokenPair(w.ctx, tp)
		}
		return "ok"
	case "param":
		ss := w.app.GetSubspace(string(unhx(f[1])))
		if err := ss.Update(w.ctx, unhx(f[2]), unhx(f[3])); err != nil {
			panic("param update: " + err.Error())
		}
		return "ok"
	case "rvparams":
		// rvparams VIA ENABLE K (DENOM AMT|nil)*K — VIA = prop: what a ParameterChangeProposal does (Subspace.Update of PerBlockReward,
		// then EnableVesting); VIA = genesis: rvesting InitGenesis (SetParamSet). Rejected (error / panic) => nothing is written.
		k := int(pu(f[3]))
		var coins sdk.Coins
		var js []string
		for i := 0; i < k; i++ {
			d := string(unhx(f[4+2*i]))
			if f[5+2*i] == "nil" {
				coins = append(coins, sdk.Coin{Denom: d})
				js = append(js, fmt.Sprintf(`{"denom":%q}`, d))
			} else {
				amt, _ := sdk.NewIntFromString(f[5+2*i])
				coins = append(coins, sdk.Coin{Denom: d, Amount: amt})
				js = append(js, fmt.Sprintf(`{"denom":%q,"amount":%q}`, d, f[5+2*i]))
			}
		}
		cctx, write := w.ctx.CacheContext()
		var err error
		pan, _ := safely(func() {
			if f[1] == "genesis" {
				w.app.RVestingKeeper.InitGenesis(cctx, &rvestingtypes.GenesisState{Params: rvestingtypes.Params{EnableVesting: f[2] == "1", PerBlockReward: coins}})
				return
			}
			ss := w.app.GetSubspace(rvestingtypes.ModuleName)
			if err = ss.Update(cctx, rvestingtypes.KeyPerBlockReward, []byte("["+strings.Join(js, ",")+"]")); err != nil {
				return
			}
			err = ss.Update(cctx, rvestingtypes.KeyEnableVesting, []byte(map[bool]string{true: "true", false: "false"}[f[2] == "1"]))
		})
		if pan || err != nil {
			r.Count("rvparams.rejected")
			return "err"
		}
		write()
		r.Count("rvparams." + f[1])
		return "ok"
	case "aggprop", "aggkill", "aggconvert", "mpair", "mdelpair":
		return w.applyAggOp(r, f)
	case "update", "bscupdate", "plant", "unplant":
		return w.applyUpdateOp(r, f)
	case "rawx":
		w.reachable = false
		w.ctx.KVStore(w.app.GetKey(host.StoreKey)).Set(unhx(f[1]), unhx(f[2]))
		return "ok"
	case "dump":
		return c13DumpStore(w.ctx, w)
	case "keys":
		return "1"
	case "export":
		w.dump1 = c13DumpStore(w.ctx, w)
		w.gen = nil
		w.exported = false
		var g *c13Gen
		pan, msg := safely(func() { g = w.c13Export(w.ctx) })
		if pan {
			if w.reachable {
				r.Find(Finding{Sig: "C13:export-panics:" + c13Slug(msg), What: "ExportGenesis (or its JSON round trip) panics on a reachable state: " + msg,
					Ops: append([]string{}, w.hist...), Obs: "panic: " + msg, Req: "export succeeds"})
			}
			r.Count("export.panic")
			return "panic"
		}
		w.gen = g
		w.list1 = w.c13Listing(g)
		if w.reachable {
			// which parameter combination / zero-valued sub-structures went through the module-level import
			m := c13ParseDump(w.dump1)
			bit := func(k string) string {
				if m["p:"+hxs(k)] == hxs("true") {
					return "1"
				}
				return "0"
			}
			r.Count("combo.agg." + bit("aggregate/EnableAggregate") + bit("aggregate/EnableEVMHook") + ".rv." + bit("rvesting/EnableVesting"))
			if len(g.x.ClientGenesis.Relayers) == 0 {
				r.Count("zero.no-relayers")
			}
			for _, rl := range g.x.ClientGenesis.Relayers {
				if len(rl.Chains) == 0 {
					r.Count("zero.relayer-without-chains")
				}
			}
			if len(g.a.TokenPairs) == 0 {
				r.Count("zero.no-token-pairs")
			}
			for _, tp := range g.a.TokenPairs {
				if !tp.Enabled {
					r.Count("zero.pair-disabled")
				}
			}
			if len(g.x.ClientGenesis.Clients) == 0 {
				r.Count("zero.no-clients")
			}
			if len(g.x.PacketGenesis.SendSequences)+len(g.x.PacketGenesis.Commitments)+len(g.x.PacketGenesis.Receipts)+len(g.x.PacketGenesis.Acknowledgements) == 0 {
				r.Count("zero.no-packet-state")
			}
			allZero := len(g.rv.Params.PerBlockReward) > 0
			for _, c := range g.rv.Params.PerBlockReward {
				if !c.Amount.IsZero() {
					allZero = false
				}
			}
			if allZero {
				r.Count("zero.reward-all-zero")
			}
		}
		// every exported client-metadata entry has a non-empty key and a non-empty value (what GenesisMetadata.Validate demands),
		// checked on the export itself — independent of the module's Validate() and of any re-import
		if w.reachable {
			for _, cm := range g.x.ClientGenesis.ClientsMetadata {
				for _, e := range cm.Metadata {
					if len(e.Key) == 0 || len(e.Value) == 0 {
						what := "value"
						if len(e.Key) == 0 {
							what = "key"
						}
						r.Find(Finding{Sig: "C13:export-metadata-empty-" + what + ":" + c13Family("x", append([]byte("clients/x/"), e.Key...)),
							What: "an exported client-metadata entry has an empty " + what + " (client " + cm.ChainName + ", key " + string(e.Key) + ")",
							Ops: append([]string{}, w.hist...), Obs: "empty " + what, Req: "non-empty key and value"})
						r.Count("export.metadata-empty")
					}
				}
			}
			r.Count("export.metadata-checked")
		}
		// export vs store, independent of any re-import: as many exported entries of each collection as the store holds
		if w.reachable {
			m := c13ParseDump(w.dump1)
			cnt := map[string]int{}
			for k := range m {
				if k[:2] == "x:" {
					cnt[c13Family("x", unhx(k[2:]))]++
				} else if k[:2] == "a:" && strings.HasPrefix(k[2:], "01") {
					cnt["pairs"]++
				}
			}
			for _, c := range [][3]string{{" A[", "acks", "acks"}, {" K[", "commitments", "commitments"}, {" P[", "receipts", "receipts"},
				{" Q[", "nextSequenceSend", "send-sequences"}, {" R[", "relayers", "relayers"}, {" T[", "pairs", "token-pairs"}, {"C[", "clientState", "clients"}} {
				sec := c13Section(" "+w.list1, " "+strings.TrimPrefix(c[0], " "))
				n := 0
				if sec != "" {
					n = strings.Count(sec, ",") + 1
				}
				if n != cnt[c[1]] {
					r.Find(Finding{Sig: "C13:export-differs-from-store:" + c[2] + "-count", What: fmt.Sprintf("the export lists %d %s, the store holds %d", n, c[2], cnt[c[1]]),
						Ops: append([]string{}, w.hist...), Obs: fmt.Sprint(n), Req: fmt.Sprint(cnt[c[1]])})
					r.Count("export.count-differs")
				}
			}
			r.Count("export.counts-checked")
		}
		// the exported parameters are the stored parameters (independent of any re-import): PR[...] of the listing = p[...] of the dump
		if w.reachable {
			if pr, pd := c13Section(w.list1, " PR["), c13Section(w.dump1, " p["); pr != pd {
				r.Find(Finding{Sig: "C13:export-differs-from-store:params", What: "the exported parameters differ from the parameters in the store",
					Ops: append([]string{}, w.hist...), Obs: "exported " + pr, Req: "stored " + pd})
				r.Count("export.params-differ")
			} else {
				r.Count("export.params-same")
			}
		}
		w.c13CheckCanonical(r)
		r.Count("export.ok")
		return w.list1
	case "validate":
		if w.gen == nil {
			return "none"
		}
		var err error
		pan, msg := safely(func() {
			// AppModuleBasic.ValidateGenesis(cdc, txCfg, json) of the three modules, as ModuleBasics.ValidateGenesis calls them
			cdc := w.app.AppCodec()
			txc := encoding.MakeConfig(app.ModuleBasics).TxConfig
			if err = (xibcmodule.AppModuleBasic{}).ValidateGenesis(cdc, txc, w.gen.xj); err != nil {
				return
			}
			if err = (aggregatemodule.AppModuleBasic{}).ValidateGenesis(cdc, txc, w.gen.aj); err != nil {
				return
			}
			err = (rvestingmodule.AppModuleBasic{}).ValidateGenesis(cdc, txc, w.gen.rj)
		})
		if pan {
			err = fmt.Errorf("panic: %s", msg)
		}
		if err != nil {
			r.Count("validate.err")
			if w.reachable {
				slug := c13Slug(err.Error())
				if slug == "zero-height" && !strings.Contains(w.dump1, hxs("/consensusStates/")+strings.Repeat("00", 16)+"=") {
					slug = "nonzero-height-rejected" // the known finding needs a consensus state stored at 0-0
				}
				if slug == "empty-metadata-value" && !strings.Contains(w.dump1, hxs("/pendingValidators")+"=-") {
					slug = "nonempty-metadata-rejected"
				}
				r.Find(Finding{Sig: "C13:validate-fails:" + slug, What: "the export of a reachable state fails the modules' own genesis validation: " + err.Error(),
					Ops: append([]string{}, w.hist...), Obs: err.Error(), Req: "Validate() = nil"})
			}
			return "err"
		}
		r.Count("validate.ok")
		return "ok"
	case "init":
		if w.gen == nil {
			return "none"
		}
		w.ctx2, _ = w.base.CacheContext()
		c13Wipe(w.ctx2, w)
		pan, msg := safely(func() {
			// AppModule.InitGenesis(ctx, cdc, json) of the three modules, as the module manager's InitGenesis calls them
			cdc := w.app.AppCodec()
			xm, am, rm := w.mods()
			xm.InitGenesis(w.ctx2, cdc, w.gen.xj)
			am.InitGenesis(w.ctx2, cdc, w.gen.aj)
			rm.InitGenesis(w.ctx2, cdc, w.gen.rj)
		})
		if pan {
			r.Count("init.panic")
			if w.reachable {
				r.Find(Finding{Sig: "C13:init-panics:" + c13Slug(msg), What: "InitGenesis panics on the export of a reachable state: " + msg,
					Ops: append([]string{}, w.hist...), Obs: "panic: " + msg, Req: "InitGenesis reproduces the state"})
			}
			return "panic"
		}
		w.exported = true
		d2 := c13DumpStore(w.ctx2, w)
		r.Count("init.ok")
		if w.reachable && d2 != w.dump1 {
			fam, k := c13FirstDiff(w.dump1, d2)
			r.Find(Finding{Sig: "C13:roundtrip-differs:" + fam, What: "module state after export → InitGenesis into a fresh store differs from the state before export (first differing key " + k + ")",
				Ops: append([]string{}, w.hist...), Obs: "dump2 != dump1 at key " + k + " (" + fam + ")", Req: "dump2 = dump1"})
			r.Count("roundtrip.differs")
		} else if w.reachable {
			r.Count("roundtrip.same")
			r.Nontrivial(w.dump1)
		}
		return d2
	case "export2":
		if !w.exported {
			return "none"
		}
		var g *c13Gen
		pan, msg := safely(func() { g = w.c13Export(w.ctx2) })
		if pan {
			if w.reachable {
				r.Find(Finding{Sig: "C13:export2-panics:" + c13Slug(msg), What: "exporting the re-imported state panics: " + msg, Ops: append([]string{}, w.hist...), Obs: "panic", Req: "second export = first export"})
			}
			return "panic"
		}
		l2 := w.c13Listing(g)
		if w.reachable && l2 != w.list1 {
			r.Find(Finding{Sig: "C13:export-not-idempotent", What: "export of the re-imported state differs from the first export", Ops: append([]string{}, w.hist...), Obs: "listing2 != listing1", Req: "second export = first export"})
			r.Count("export2.differs")
		} else {
			r.Count("export2.same")
		}
		return l2
	}
	return "bad-op"
}

func c13Section(line, tag string) string {
	i := strings.Index(line, tag)
	if i < 0 {
		return "?"
	}
	rest := line[i+len(tag):]
	if j := strings.IndexByte(rest, ']'); j >= 0 {
		return rest[:j]
	}
	return rest
}

// ProtoCanonical: unmarshal-then-marshal is the identity on every stored proto value (hypothesis of the theorems).
func (w *c13World) c13CheckCanonical(r *Rec) {
	cdc := w.app.AppCodec()
	bad := ""
	st := w.ctx.KVStore(w.app.GetKey(host.StoreKey))
	it := sdk.KVStorePrefixIterator(st, nil)
	for ; it.Valid(); it.Next() {
		k, v := it.Key(), it.Value()
		safely(func() {
			switch {
			case bytes.HasPrefix(k, []byte("relayers")):
				var ir clienttypes.IdentifiedRelayer
				cdc.MustUnmarshal(v, &ir)
				if !bytes.Equal(cdc.MustMarshal(&ir), v) || "relayers"+ir.Address != string(k) {
					bad = "relayer"
				}
			case bytes.HasSuffix(k, []byte("/clientState")) && bytes.HasPrefix(k, []byte("clients/")):
				if !bytes.Equal(w.csBlob(w.unCS(v)), v) {
					bad = "clientState"
				}
			case bytes.HasPrefix(k, []byte("clients/")) && bytes.Contains(k, []byte("/consensusStates/")) && len(k) >= 32 && k[len(k)-32-1] == '/':
				if i := bytes.Index(k, []byte("/consensusStates/")); i+17+16 == len(k) {
					if !bytes.Equal(w.consBlob(w.unCons(v)), v) {
						bad = "consensusState"
					}
				}
			}
		})
	}
	it.Close()
	at := prefix.NewStore(w.ctx.KVStore(w.app.GetKey(aggregatetypes.StoreKey)), aggregatetypes.KeyPrefixTokenPair)
	it = sdk.KVStorePrefixIterator(at, nil)
	for ; it.Valid(); it.Next() {
		var tp aggregatetypes.TokenPair
		cdc.MustUnmarshal(it.Value(), &tp)
		if !bytes.Equal(cdc.MustMarshal(&tp), it.Value()) {
			bad = "tokenPair"
		}
	}
	it.Close()
	if bad != "" && w.reachable {
		r.Find(Finding{Sig: "C13:proto-not-canonical:" + bad, What: "hypothesis ProtoCanonical does not hold for a stored " + bad, Ops: append([]string{}, w.hist...), Obs: "marshal(unmarshal v) != v", Req: "= v"})
	}
	r.Count("canonical.checked")
}

// stable slug of an error / panic text: the mechanism, without the random values
func c13Slug(msg string) string {
	switch {
	case strings.Contains(msg, "does not equal client state client type"):
		i := strings.Index(msg, "consensus state client type ")
		rest := strings.Fields(msg[i+len("consensus state client type "):])
		if len(rest) >= 9 {
			return "type-mismatch:" + rest[0] + "-vs-" + rest[len(rest)-1]
		}
		return "type-mismatch"
	case strings.Contains(msg, "denomination duplicated on genesis"):
		return "aggregate-duplicate-denomination"
	case strings.Contains(msg, "ERC20 contract duplicated on genesis"):
		return "aggregate-duplicate-contract"
	case strings.Contains(msg, "per block reward"):
		return "rvesting-per-block-reward"
	case strings.Contains(msg, "height cannot be zero"):
		return "zero-height"
	case strings.Contains(msg, "metadata value cannot be empty"):
		return "empty-metadata-value"
	case strings.Contains(msg, "metadata key cannot be empty"):
		return "empty-metadata-key"
	case strings.Contains(msg, "does not map to a genesis client"):
		return "orphan-client-data"
	case strings.Contains(msg, "invalid client consensus state"):
		return "consensus-validatebasic"
	case strings.Contains(msg, "invalid client "):
		return "client-validate"
	case strings.Contains(msg, "value is nil"):
		return "nil-value"
	case strings.Contains(msg, "sequence cannot be 0"):
		return "zero-sequence"
	case strings.Contains(msg, "identifier"):
		return "identifier"
	}
	return "other"
}

// classification of an xibc / aggregate / params key into its family (for stable finding signatures)
func c13Family(store string, k []byte) string {
	s := string(k)
	if store == "a" {
		if len(k) > 0 {
			return fmt.Sprintf("aggregate-prefix-%d", k[0])
		}
		return "aggregate"
	}
	if store == "p" {
		return "params"
	}
	switch {
	case s == "chainName":
		return "chainName"
	case strings.HasPrefix(s, "relayers"):
		return "relayers"
	case strings.HasPrefix(s, "relayer/"):
		return "packet-relayer"
	case strings.HasPrefix(s, "acks/"):
		return "acks"
	case strings.HasPrefix(s, "commitments/"):
		return "commitments"
	case strings.HasPrefix(s, "receipts/"):
		return "receipts"
	case strings.HasPrefix(s, "nextSequenceSend/"):
		return "nextSequenceSend"
	case strings.HasPrefix(s, "clients/"):
		rest := s[len("clients/"):]
		i := strings.IndexByte(rest, '/')
		if i < 0 {
			return "clients-other"
		}
		p := rest[i+1:]
		switch {
		case p == "clientState":
			return "clientState"
		case strings.HasPrefix(p, "consensusStates/") && len(p) == 32:
			return "consensusState"
		case strings.HasPrefix(p, "consensusStates") && strings.HasSuffix(p, "/processedTime"):
			return "tm-processedTime"
		case strings.HasPrefix(p, "iterateConsensusStates"):
			return "tm-iteration-key"
		case strings.HasPrefix(p, "recentSingers"):
			return "bsc-recent-signers"
		case strings.HasPrefix(p, "pendingValidators"):
			return "bsc-pending-validators"
		case strings.HasPrefix(p, "ethHeaderIndex"):
			return "eth-header-index"
		case strings.HasPrefix(p, "ethRootMain"):
			return "eth-root-main"
		}
		return "client-store-other"
	}
	return "other"
}

func c13ParseDump(d string) map[string]string {
	m := map[string]string{}
	for _, part := range strings.Fields(d) {
		tag := part[:1]
		body := part[2 : len(part)-1]
		if body == "" {
			continue
		}
		for _, e := range strings.Split(body, ",") {
			kv := strings.SplitN(e, "=", 2)
			m[tag+":"+kv[0]] = kv[1]
		}
	}
	return m
}

func c13FirstDiff(d1, d2 string) (family, key string) {
	m1, m2 := c13ParseDump(d1), c13ParseDump(d2)
	var ks []string
	for k := range m1 {
		ks = append(ks, k)
	}
	for k := range m2 {
		if _, ok := m1[k]; !ok {
			ks = append(ks, k)
		}
	}
	sort.Strings(ks)
	// prefer reporting lost keys, then changed, then new ones; deterministic
	best, bestRank := "", 9
	for _, k := range ks {
		v1, ok1 := m1[k]
		v2, ok2 := m2[k]
		rank := 9
		switch {
		case ok1 && !ok2:
			rank = 0
		case ok1 && ok2 && v1 != v2:
			rank = 1
		case !ok1 && ok2:
			rank = 2
		}
		if rank < bestRank {
			best, bestRank = k, rank
		}
	}
	if best == "" {
		return "none", ""
	}
	kind := []string{"lost", "changed", "added"}[bestRank]
	return kind + ":" + c13Family(best[:1], unhx(best[2:])), best
}

// ---- generator ----------------------------------------------------------------------------------------

var c13Charset = "abcdefghijklmnopqrstuvwxyzABCDEFGHIJKLMNOPQRSTUVWXYZ0123456789._+-#[]<>"

func c13Name(r *Rec, used map[string]bool) string {
	for {
		n := 3 + r.Rng.Intn(6)
		if r.Rng.Intn(20) == 0 {
			n = 64
		}
		b := make([]byte, n)
		for i := range b {
			b[i] = c13Charset[r.Rng.Intn(len(c13Charset))]
		}
		s := string(b)
		if r.Rng.Intn(4) == 0 && len(used) > 0 {
			// extension of an existing name: by a character sorting below '/' ('-', '+', '#', '.': key order != name order)
			// or above it (letters, digits, '_', '<', '>', '[', ']': the longer name's keys start with the shorter name's)
			for u := range used {
				if len(u) < 60 {
					s = u + c13Ext(r) + s[:r.Rng.Intn(2)]
				}
				break
			}
		}
		if !used[s] {
			used[s] = true
			return s
		}
	}
}

var c13ExtBefore = "-+#."                                                                // sort before '/'
var c13ExtAfter = "abcxyzABCXYZ0123456789_<>[]"                                          // sort after '/'

func c13Ext(r *Rec) string {
	if r.Rng.Intn(3) == 0 {
		return string(c13ExtBefore[r.Rng.Intn(len(c13ExtBefore))])
	}
	return string(c13ExtAfter[r.Rng.Intn(len(c13ExtAfter))])
}

// a family of valid chain names in which one name is a proper prefix of the others, extended by letters, digits and every
// allowed punctuation character (both the ones sorting before '/' and the ones sorting after it)
func c13PrefixFamily(r *Rec) (fam []string, after, before int) {
	base := []string{"bsc", "eth", "chain1", "abc", "tele", "A-b", "x_y", "n0.", "q[1]"}[r.Rng.Intn(9)]
	if r.Rng.Intn(3) == 0 {
		b := make([]byte, 3+r.Rng.Intn(4))
		for i := range b {
			b[i] = c13Charset[r.Rng.Intn(len(c13Charset))]
		}
		base = string(b)
	}
	fam = []string{base}
	seen := map[string]bool{base: true}
	for n := 1 + r.Rng.Intn(4); n > 0; n-- {
		from := fam[r.Rng.Intn(len(fam))] // chains of extensions: chain1 / chain10 / chain10x
		var e string
		switch r.Rng.Intn(4) {
		case 0:
			e = string(c13ExtBefore[r.Rng.Intn(len(c13ExtBefore))])
		case 1:
			e = []string{"test", "2", "0", "_x", "<", ">", "[", "]", "Z"}[r.Rng.Intn(9)]
		default:
			e = string(c13ExtAfter[r.Rng.Intn(len(c13ExtAfter))])
		}
		if r.Rng.Intn(3) == 0 {
			e += string(c13Charset[r.Rng.Intn(len(c13Charset))])
		}
		m := from + e
		if seen[m] || len(m) > 64 {
			continue
		}
		seen[m] = true
		fam = append(fam, m)
		if e[0] > '/' {
			after++
		} else {
			before++
		}
	}
	return
}

// packet state, clients, consensus states and relayers on prefix-related chain names, as source AND destination, with equal
// and with different sequences on the related paths
func (w *c13World) genPrefixRelated(r *Rec, emit func(string), used map[string]bool) {
	fam, after, before := c13PrefixFamily(r)
	if len(fam) < 2 {
		return
	}
	r.Stats["family.after-slash"] += after
	r.Stats["family.before-slash"] += before
	other := []string{"teleport", "zzz", fam[0], fam[len(fam)-1]}[r.Rng.Intn(4)]
	kinds := []string{"commit", "ack", "receipt", "nextseq"}
	for rounds := 1 + r.Rng.Intn(4); rounds > 0; rounds-- {
		kind := kinds[r.Rng.Intn(4)]
		role := r.Rng.Intn(3) // 0: family as destination, 1: as source, 2: both
		equal := r.Rng.Intn(2) == 0
		q := 1 + uint64(r.Rng.Intn(12))
		for i, m := range fam {
			src, dst := other, m
			switch role {
			case 1:
				src, dst = m, other
			case 2:
				src, dst = m, fam[(i+1)%len(fam)]
			}
			qq := q
			if !equal {
				qq = q + uint64(i)*uint64(1+r.Rng.Intn(9))
			}
			switch kind {
			case "commit", "ack":
				emit(fmt.Sprintf("%s %s %s %d %s", kind, hxs(src), hxs(dst), qq, hx(c13Bytes(r, 32))))
			default:
				emit(fmt.Sprintf("%s %s %s %d", kind, hxs(src), hxs(dst), qq))
			}
		}
		r.Count("family." + kind)
		r.Count([]string{"family.dst", "family.src", "family.both"}[role])
		if equal {
			r.Count("family.equal-seq")
		} else {
			r.Count("family.diff-seq")
		}
	}
	// clients + consensus states under prefix-related names
	if r.Rng.Intn(2) == 0 {
		ntypes := []string{"tm", "bsc", "eth", "tss"}
		for _, m := range fam {
			if used[m] {
				continue
			}
			used[m] = true
			cl := w.genCreate(r, ntypes[r.Rng.Intn(4)], m, emit)
			if cl.failed {
				continue
			}
			if cl.ty != "tss" {
				h := clienttypes.NewHeight(c13Rev(r), 1+c13U64(r)%1000000)
				cons := w.genConsFor(r, cl, h)
				emit(fmt.Sprintf("cons %s %d %d %s %s", hxs(cl.chain), h.RevisionNumber, h.RevisionHeight, hx(w.consBlob(cons)), b01(cons.ValidateBasic() == nil)))
				if cl.ty == "tm" {
					emit(fmt.Sprintf("tmmeta %s %d %d %d", hxs(cl.chain), h.RevisionNumber, h.RevisionHeight, uint64(1700000000000000000+r.Rng.Int63n(1000000000000))))
				}
			}
			r.Count("family.client")
		}
	}
	// relayers whose addresses (store keys "relayers<address>") and chain lists are prefix-related
	if r.Rng.Intn(2) == 0 {
		for i, m := range fam {
			ir := clienttypes.IdentifiedRelayer{Address: m, Chains: []string{fam[(i+1)%len(fam)], m}, Addresses: []string{"0x" + m, common.BytesToAddress(c13Bytes(r, 20)).Hex()}}
			emit("relayer " + hx(w.app.AppCodec().MustMarshal(&ir)))
			r.Count("family.relayer")
		}
	}
	r.Count("family.cases")
}

// heights biased to the bytes 0x2f, 0x00, 0xff
func c13U64(r *Rec) uint64 {
	switch r.Rng.Intn(10) {
	case 0:
		return []uint64{47, 303, 0x2f2f, 0x2f00, 0x2fff, 12079, 0x2f2f2f2f2f2f2f2f, 0x2f00000000000000, 0xffffffffffffffff, 0xff2f, 1, 46, 48}[r.Rng.Intn(13)]
	case 1, 2, 3:
		var b [8]byte
		for i := range b {
			switch r.Rng.Intn(6) {
			case 0:
				b[i] = 0x2f
			case 1:
				b[i] = 0xff
			case 2:
				b[i] = byte(r.Rng.Intn(256))
			default:
				b[i] = 0
			}
		}
		return binary.BigEndian.Uint64(b[:])
	case 4, 5:
		return uint64(r.Rng.Intn(400))
	default:
		return 1 + uint64(r.Rng.Intn(100000))
	}
}

func c13Rev(r *Rec) uint64 {
	if r.Rng.Intn(2) == 0 {
		return 0
	}
	return c13U64(r)
}

func c13Bytes(r *Rec, n int) []byte {
	b := make([]byte, n)
	r.Rng.Read(b)
	return b
}

var c13BscKey, _ = crypto.HexToECDSA("b71c71a67e1177ad4e901695e1b4b9ee17ae16c6668d313eac2f96dbcda3f291")

func c13BscSealHash(h bsctypes.Header, chainID *big.Int) common.Hash {
	hasher := sha3.NewLegacyKeccak256()
	_ = rlp.Encode(hasher, []interface{}{
		chainID, h.ParentHash, h.UncleHash, h.Coinbase, h.Root, h.TxHash, h.ReceiptHash, h.Bloom, h.Difficulty,
		h.Height.RevisionHeight, h.GasLimit, h.GasUsed, h.Time, h.Extra[:len(h.Extra)-65], h.MixDigest, h.Nonce,
	})
	var out common.Hash
	hasher.Sum(out[:0])
	return out
}

type c13Client struct {
	failed  bool
	ty      string
	chain   string
	heights []clienttypes.Height
}

// create / toggle are proposal-level operations: they may be rejected (ClientState.Validate, Initialize)
func c13MayFail(op, out string) bool {
	return out == "err" && (strings.HasPrefix(op, "create ") || strings.HasPrefix(op, "toggle ") || strings.HasPrefix(op, "upgrade ") || strings.HasPrefix(op, "rvparams ") || strings.HasPrefix(op, "update ") || strings.HasPrefix(op, "bscupdate ") || strings.HasPrefix(op, "aggprop ") || strings.HasPrefix(op, "aggconvert "))
}

type c13Fix struct {
	set    bool
	rev, h uint64
	nval   int // bsc: number of validators in the epoch header (-1 = random)
	verb   string // "create" (default), "toggle" or "upgrade"
	mix    string // if set: the proposal carries a consensus state of THIS client type instead of the client's own
}

func (w *c13World) genCreate(r *Rec, ty, chain string, emit func(string)) *c13Client {
	return w.genCreateAt(r, ty, chain, emit, c13Fix{nval: -1})
}

func (w *c13World) genCreateAt(r *Rec, ty, chain string, emit func(string), fx c13Fix) *c13Client {
	rev, h := c13Rev(r), c13U64(r)
	if r.Rng.Intn(40) == 0 {
		rev, h = 0, 0 // a client created from block 0 (BSC / ETH genesis header)
	}
	if fx.set {
		rev, h = fx.rev, fx.h
	}
	cl := &c13Client{ty: ty, chain: chain}
	var cs exported.ClientState
	var cons exported.ConsensusState
	extra := "-"
	switch ty {
	case "tm":
		if h == 0 {
			h = 1
		}
		cs = tmtypes.NewClientState("chain-"+chain, tmtypes.Fraction{Numerator: 1, Denominator: 3}, time.Hour*24*14, time.Hour*24*21, time.Second*10,
			clienttypes.NewHeight(rev, h), commitmenttypes.GetSDKSpecs(), commitmenttypes.MerklePrefix{KeyPrefix: []byte("xibc")}, uint64(r.Rng.Intn(3)))
		cons = tmtypes.NewConsensusState(time.Unix(1600000000+int64(r.Rng.Intn(1000000)), int64(r.Rng.Intn(1000))).UTC(), c13Bytes(r, 32), c13Bytes(r, 32))
		extra = strconv.FormatUint(uint64(1700000000000000000+r.Rng.Int63n(1000000000000)), 10)
	case "bsc":
		epoch := uint64(200)
		if r.Rng.Intn(3) == 0 {
			epoch = 1 + uint64(r.Rng.Intn(7))
		}
		if fx.set {
			epoch = 1
		}
		h = h - h%epoch
		nval := r.Rng.Intn(4)
		if r.Rng.Intn(8) != 0 && nval == 0 {
			nval = 1
		}
		if fx.nval >= 0 {
			nval = fx.nval
		}
		if nval == 0 {
			r.Count("bsc.no-validators")
		}
		ext := c13Bytes(r, 32)
		var vals [][]byte
		for i := 0; i < nval; i++ {
			v := c13Bytes(r, 20)
			vals = append(vals, v)
			ext = append(ext, v...)
		}
		ext = append(ext, make([]byte, 65)...)
		signer := crypto.PubkeyToAddress(c13BscKey.PublicKey)
		hd := bsctypes.Header{ParentHash: c13Bytes(r, 32), UncleHash: ethUncleHash(), Coinbase: signer.Bytes(), Root: c13Bytes(r, 32),
			TxHash: c13Bytes(r, 32), ReceiptHash: c13Bytes(r, 32), Bloom: make([]byte, 256), Difficulty: []byte{2}, Height: clienttypes.NewHeight(rev, h),
			GasLimit: 30000000, GasUsed: 1, Time: 1600000000 + uint64(r.Rng.Intn(1000000)), Extra: ext, MixDigest: make([]byte, 32), Nonce: make([]byte, 8)}
		chainID := uint64(56)
		sig, err := crypto.Sign(c13BscSealHash(hd, new(big.Int).SetUint64(chainID)).Bytes(), c13BscKey)
		if err != nil {
			panic(err)
		}
		copy(hd.Extra[len(hd.Extra)-65:], sig)
		cs = &bsctypes.ClientState{Header: hd, ChainId: chainID, Epoch: epoch, BlockInteval: 3, Validators: vals, ContractAddress: c13Bytes(r, 20), TrustingPeriod: 999999999}
		cons = &bsctypes.ConsensusState{Timestamp: hd.Time, Height: hd.Height, Root: hd.Root}
		pend := w.app.AppCodec().MustMarshal(&bsctypes.ValidatorSet{Validators: vals})
		extra = hx(signer.Bytes()) + " " + hx(pend)
	case "eth":
		hd := ethtypes.Header{ParentHash: c13Bytes(r, 32), UncleHash: ethUncleHash(), Coinbase: c13Bytes(r, 20), Root: c13Bytes(r, 32),
			TxHash: c13Bytes(r, 32), ReceiptHash: c13Bytes(r, 32), Bloom: make([]byte, 256), Difficulty: []byte{1, 0}, Height: clienttypes.NewHeight(rev, h),
			GasLimit: 30000000, GasUsed: 1, Time: 1600000000 + uint64(r.Rng.Intn(1000000)), Extra: c13Bytes(r, r.Rng.Intn(8)), MixDigest: c13Bytes(r, 32), Nonce: uint64(r.Rng.Int63()), BaseFee: []byte{7}}
		cs = &ethtypes.ClientState{Header: hd, ChainId: 1, ContractAddress: c13Bytes(r, 20), TrustingPeriod: 99999999, TimeDelay: 0, BlockDelay: 1}
		cons = &ethtypes.ConsensusState{Timestamp: hd.Time, Height: hd.Height, Root: hd.Root}
		idx, err := w.app.AppCodec().MarshalInterface(&hd)
		if err != nil {
			panic(err)
		}
		extra = hx(hd.Hash().Bytes()) + " " + hx(hd.Root) + " " + hx(idx)
	case "tss":
		rev, h = 0, 0
		cs = &tsstypes.ClientState{TssAddress: sdk.AccAddress(c13Bytes(r, 20)).String(), Pubkey: c13Bytes(r, 33), PartPubkeys: [][]byte{c13Bytes(r, 33)}}
		cons = &tsstypes.ConsensusState{}
	}
	if ty != "tss" {
		cl.heights = append(cl.heights, clienttypes.NewHeight(rev, h))
	}
	verb := "create"
	if fx.verb != "" {
		verb = fx.verb
	}
	if fx.mix != "" && fx.mix != ty {
		// mixed proposal: the Tendermint / BSC / ETH clients reject it, the TSS client accepts any consensus state
		// (and stores none)
		if fx.mix == "tss" {
			cons = &tsstypes.ConsensusState{}
		} else {
			cons = w.genConsFor(r, &c13Client{ty: fx.mix}, clienttypes.NewHeight(rev, h))
		}
		r.Count(verb + ".mixed")
		if ty == "tss" {
			r.Count(verb + ".tss-client-other-consensus")
		}
	}
	emit(fmt.Sprintf(verb+" %s %s %s %s %s %s %d %d %s", ty, hxs(chain), hx(w.csBlob(cs)), b01(cs.Validate() == nil),
		hx(w.consBlob(cons)), b01(cons.ValidateBasic() == nil), rev, h, extra))
	cl.failed = w.lastOut == "err"
	if cl.failed {
		r.Count(verb + ".rejected")
		cl.heights = nil
		return cl
	}
	r.Count(verb + "." + ty)
	if rev == 0 && h == 0 && ty != "tss" {
		r.Count("height.zero")
	}
	return cl
}

func ethUncleHash() []byte {
	// types.CalcUncleHash(nil) = keccak(rlp([]))
	return common.HexToHash("0x1dcc4de8dec75d7aab85b567b6ccd41ad312451b948a7413f0a142fd40d49347").Bytes()
}

func c13HasByte(h clienttypes.Height, b byte) bool {
	return bytes.IndexByte(host.ConsensusStateKey(h)[16:], b) >= 0
}

func (w *c13World) genConsFor(r *Rec, cl *c13Client, h clienttypes.Height) exported.ConsensusState {
	switch cl.ty {
	case "tm":
		return tmtypes.NewConsensusState(time.Unix(1600000000+int64(r.Rng.Intn(1000000)), 0).UTC(), c13Bytes(r, 32), c13Bytes(r, 32))
	case "bsc":
		return &bsctypes.ConsensusState{Timestamp: uint64(r.Rng.Int63()), Height: h, Root: c13Bytes(r, 32)}
	case "eth":
		return &ethtypes.ConsensusState{Timestamp: uint64(r.Rng.Int63()), Height: h, Root: c13Bytes(r, 32)}
	}
	return nil
}

// one random reachable history (without the final dump/export pipeline)
func (w *c13World) genHistory(r *Rec, emit func(string), size int) {
	used := map[string]bool{}
	if r.Rng.Intn(5) != 0 {
		emit("chainname " + hxs(c13Name(r, used)))
	} else {
		emit("chainname " + hxs("teleport"))
	}
	ntypes := []string{"tm", "bsc", "eth", "tss"}
	var clients []*c13Client
	ncl := r.Rng.Intn(size + 1)
	for i := 0; i < ncl; i++ {
		fx := c13Fix{nval: -1}
		ty := ntypes[r.Rng.Intn(4)]
		if r.Rng.Intn(6) == 0 {
			fx.mix = ntypes[r.Rng.Intn(4)]
			if r.Rng.Intn(2) == 0 {
				ty = "tss"
			}
		}
		if cl := w.genCreateAt(r, ty, c13Name(r, used), emit, fx); !cl.failed {
			clients = append(clients, cl)
		}
	}
	// updates: further consensus states (+ the metadata the real update of that client type writes)
	for _, cl := range clients {
		if cl.ty == "tss" {
			continue
		}
		n := r.Rng.Intn(size + 2)
		for i := 0; i < n; i++ {
			h := clienttypes.NewHeight(c13Rev(r), c13U64(r))
			if r.Rng.Intn(3) == 0 && len(cl.heights) > 0 {
				h = clienttypes.NewHeight(cl.heights[0].RevisionNumber, c13U64(r))
			}
			if h.IsZero() {
				continue // updates never store height 0-0 (headers above the latest height only)
			}
			cons := w.genConsFor(r, cl, h)
			emit(fmt.Sprintf("cons %s %d %d %s %s", hxs(cl.chain), h.RevisionNumber, h.RevisionHeight, hx(w.consBlob(cons)), b01(cons.ValidateBasic() == nil)))
			cl.heights = append(cl.heights, h)
			r.Count("cons." + cl.ty)
			if c13HasByte(h, 0x2f) {
				r.Count("height.has2f")
			}
			if h.RevisionNumber != 0 {
				r.Count("height.revision-nonzero")
			}
			switch cl.ty {
			case "tm":
				emit(fmt.Sprintf("tmmeta %s %d %d %d", hxs(cl.chain), h.RevisionNumber, h.RevisionHeight, uint64(1700000000000000000+r.Rng.Int63n(1000000000000))))
				r.Count("tmmeta")
			case "bsc":
				emit(fmt.Sprintf("bscsigner %s %d %d %s", hxs(cl.chain), h.RevisionNumber, h.RevisionHeight, hx(c13Bytes(r, 20))))
				if r.Rng.Intn(3) == 0 {
					var vals [][]byte
					for j := 0; j < 1+r.Rng.Intn(3); j++ {
						vals = append(vals, c13Bytes(r, 20))
					}
					emit(fmt.Sprintf("bscpending %s %s", hxs(cl.chain), hx(w.app.AppCodec().MustMarshal(&bsctypes.ValidatorSet{Validators: vals}))))
				}
				r.Count("bscmeta")
			case "eth":
				hash, root := c13Bytes(r, 32), c13Bytes(r, 32)
				emit(fmt.Sprintf("ethindex %s %s %d %s", hxs(cl.chain), hx(hash), h.RevisionHeight, hx(c13Bytes(r, 20+r.Rng.Intn(30)))))
				emit(fmt.Sprintf("ethroot %s %s %d %s", hxs(cl.chain), hx(root), h.RevisionHeight, hx(hash)))
				r.Count("ethmeta")
			}
		}
		// pruning
		if len(cl.heights) > 1 && r.Rng.Intn(3) == 0 {
			h := cl.heights[r.Rng.Intn(len(cl.heights))]
			switch cl.ty {
			case "tm":
				emit(fmt.Sprintf("prune %s %d %d", hxs(cl.chain), h.RevisionNumber, h.RevisionHeight))
			case "bsc":
				emit(fmt.Sprintf("bscdelsigner %s %d %d", hxs(cl.chain), h.RevisionNumber, h.RevisionHeight))
			}
			r.Count("prune")
		}
	}
	// UpgradeClient: a new client state of the SAME type (TSS -> TSS included); sometimes with a consensus state of another type
	for _, cl := range clients {
		if r.Rng.Intn(4) != 0 && !(cl.ty == "tss" && r.Rng.Intn(2) == 0) {
			continue
		}
		fx := c13Fix{nval: -1, verb: "upgrade"}
		if r.Rng.Intn(3) == 0 {
			fx.mix = ntypes[r.Rng.Intn(4)]
		}
		ty := cl.ty
		if r.Rng.Intn(10) == 0 {
			ty = ntypes[r.Rng.Intn(4)] // mostly another type: rejected
		}
		w.genCreateAt(r, ty, cl.chain, emit, fx)
	}
	// ToggleClient (repaired: clears the replaced client's store, then creates the client of the other type)
	for _, cl := range clients {
		if r.Rng.Intn(5) != 0 {
			continue
		}
		nt := ntypes[r.Rng.Intn(4)]
		tfx := c13Fix{nval: -1, verb: "toggle"}
		if r.Rng.Intn(5) == 0 {
			tfx.mix = ntypes[r.Rng.Intn(4)]
			if r.Rng.Intn(2) == 0 {
				nt = "tss"
			}
		}
		ncl := w.genCreateAt(r, nt, cl.chain, emit, tfx)
		if ncl.failed {
			continue // same type, or rejected by Validate / Initialize: nothing changed
		}
		if ncl.ty != "tss" && r.Rng.Intn(2) == 0 {
			h := clienttypes.NewHeight(c13Rev(r), 1+c13U64(r)%1000000)
			cons := w.genConsFor(r, ncl, h)
			emit(fmt.Sprintf("cons %s %d %d %s %s", hxs(ncl.chain), h.RevisionNumber, h.RevisionHeight, hx(w.consBlob(cons)), b01(cons.ValidateBasic() == nil)))
			switch ncl.ty {
			case "tm":
				emit(fmt.Sprintf("tmmeta %s %d %d %d", hxs(ncl.chain), h.RevisionNumber, h.RevisionHeight, uint64(1700000000000000000+r.Rng.Int63n(1000000000000))))
			case "bsc":
				emit(fmt.Sprintf("bscsigner %s %d %d %s", hxs(ncl.chain), h.RevisionNumber, h.RevisionHeight, hx(c13Bytes(r, 20))))
			}
		}
	}
	// relayers
	for i := r.Rng.Intn(size + 1); i > 0; i-- {
		ir := clienttypes.IdentifiedRelayer{Address: sdk.AccAddress(c13Bytes(r, 20)).String()}
		if r.Rng.Intn(4) == 0 {
			// bech32 is case-insensitive as a whole: the all-upper-case spelling is a valid address string, and a different store key
			ir.Address = strings.ToUpper(ir.Address)
			r.Count("relayer.uppercase-bech32")
		}
		for j := r.Rng.Intn(3); j > 0; j-- {
			ir.Chains = append(ir.Chains, c13Name(r, map[string]bool{}))
			ir.Addresses = append(ir.Addresses, common.BytesToAddress(c13Bytes(r, 20)).Hex())
		}
		emit("relayer " + hx(w.app.AppCodec().MustMarshal(&ir)))
		r.Count("relayer")
	}
	// packet state
	var chains []string
	for i := 0; i < 1+r.Rng.Intn(3); i++ {
		chains = append(chains, c13Name(r, used))
	}
	seq := func() uint64 {
		switch r.Rng.Intn(6) {
		case 0:
			return []uint64{1, 9, 10, 11, 99, 100, 47, 18446744073709551615, 9999999999999999999, 10000000000000000000}[r.Rng.Intn(10)]
		case 1:
			return 1 + uint64(r.Rng.Int63())
		}
		return 1 + uint64(r.Rng.Intn(30))
	}
	for i := r.Rng.Intn(3*size + 1); i > 0; i-- {
		s, d := chains[r.Rng.Intn(len(chains))], chains[r.Rng.Intn(len(chains))]
		q := seq()
		switch r.Rng.Intn(5) {
		case 0:
			emit(fmt.Sprintf("commit %s %s %d %s", hxs(s), hxs(d), q, hx(c13Bytes(r, 32))))
			if r.Rng.Intn(4) == 0 {
				emit(fmt.Sprintf("delcommit %s %s %d", hxs(s), hxs(d), q))
			}
		case 1:
			emit(fmt.Sprintf("ack %s %s %d %s", hxs(s), hxs(d), q, hx(c13Bytes(r, 32))))
		case 2:
			emit(fmt.Sprintf("receipt %s %s %d", hxs(s), hxs(d), q))
		default:
			emit(fmt.Sprintf("nextseq %s %s %d", hxs(s), hxs(d), q))
		}
		r.Count("packet")
	}
	if r.Rng.Intn(2) == 0 {
		w.genPrefixRelated(r, emit, used)
	}
	// aggregate token pairs (each denomination / contract used once, as the registry guarantees)
	for i := r.Rng.Intn(size + 1); i > 0; i-- {
		tp := aggregatetypes.TokenPair{ERC20Address: common.BytesToAddress(c13Bytes(r, 20)).Hex(), Enabled: r.Rng.Intn(2) == 0, ContractOwner: aggregatetypes.Owner(1 + r.Rng.Intn(2))}
		for j := 1 + r.Rng.Intn(3); j > 0; j-- {
			tp.Denoms = append(tp.Denoms, "d"+strings.ToLower(common.Bytes2Hex(c13Bytes(r, 3+r.Rng.Intn(4)))))
		}
		line := fmt.Sprintf("%s %s %s %d", hx(tp.GetID()), hx(w.app.AppCodec().MustMarshal(&tp)), hx(tp.GetERC20Contract().Bytes()), len(tp.Denoms))
		for _, d := range tp.Denoms {
			line += " " + hxs(d)
		}
		emit("pair " + line)
		if r.Rng.Intn(5) == 0 {
			emit("delpair " + line)
		}
		r.Count("pair")
	}
	// parameters (all four are always present: SetParamSet writes every key). aggregate: two booleans, both ways.
	rb := func() string { return []string{"true", "false"}[r.Rng.Intn(2)] }
	emit(fmt.Sprintf("param %s %s %s", hxs("aggregate"), hxs("EnableAggregate"), hxs(rb())))
	emit(fmt.Sprintf("param %s %s %s", hxs("aggregate"), hxs("EnableEVMHook"), hxs(rb())))
	if r.Rng.Intn(4) == 0 {
		emit(fmt.Sprintf("param %s %s %s", hxs("aggregate"), hxs([]string{"EnableAggregate", "EnableEVMHook"}[r.Rng.Intn(2)]), hxs(rb())))
	}
	// rvesting: every shape of reward list the module's validator accepts, set the way a ParameterChangeProposal does or by genesis
	via := func() string { return []string{"prop", "genesis"}[r.Rng.Intn(2)] }
	emit(c13RvParamsLine(r, via(), true))
	for i := r.Rng.Intn(3); i > 0; i-- {
		emit(c13RvParamsLine(r, via(), r.Rng.Intn(3) != 0))
	}
	r.Count("params")
}

// ---- SIZE as a generator dimension: every exported collection with 0, 1, 99, 100, 101, 250, 1000 entries -----------------------
//
// The entries are planted through the keepers' setters (SetPacketCommitment / SetPacketAcknowledgement / SetPacketReceipt /
// SetNextSequenceSend, SetClientConsensusState + SetProcessedTime/SetIterationKey, SetSigner, the ETH index/root setters,
// RegisterRelayers, SetTokenPair+SetDenomsMap+SetERC20Map, Subspace.Update) — relaying 1000 packets or 1000 header updates through
// the handlers would take minutes; clients are created through the real CreateClient (TSS / Tendermint: no signature work).

var c13SizeKinds = []string{"commit-single", "commit-multi", "receipt-single", "receipt-multi", "ack-single", "ack-multi", "nextseq",
	"clients", "cons-tm", "bsc-signers", "eth-meta", "relayers", "relayer-chains", "pairs", "pair-denoms", "rvreward"}
var c13SizeClasses = []int{0, 1, 99, 100, 101, 250, 1000}

func (w *c13World) genSized(r *Rec, emit func(string), kind string, n int) {
	emit("chainname " + hxs("teleport"))
	emit(fmt.Sprintf("param %s %s %s", hxs("aggregate"), hxs("EnableAggregate"), hxs("true")))
	emit(fmt.Sprintf("param %s %s %s", hxs("aggregate"), hxs("EnableEVMHook"), hxs("false")))
	if kind != "rvreward" {
		emit(c13RvParamsLine(r, "prop", true))
	}
	pairsOf := func(multi bool, i int) (string, string) {
		if !multi {
			return "teleport", "bsc"
		}
		srcs := []string{"teleport", "eth", "bsc", "bsctest", "chain1"}
		dsts := []string{"bsc", "bsctest", "eth2", "chain10", "teleport", "zzz"}
		return srcs[i%len(srcs)], dsts[(i/len(srcs))%len(dsts)]
	}
	seqOf := func(multi bool, i int) uint64 {
		if multi {
			return uint64(1 + i/30 + (i%7)*1000) // the same sequences recur on different paths
		}
		return uint64(1 + i) // 1..n: decimal key order (1,10,100,1000,101,…) differs from numeric order
	}
	switch kind {
	case "commit-single", "commit-multi", "ack-single", "ack-multi":
		verb := map[byte]string{'c': "commit", 'a': "ack"}[kind[0]]
		multi := strings.HasSuffix(kind, "multi")
		for i := 0; i < n; i++ {
			sc, dc := pairsOf(multi, i)
			emit(fmt.Sprintf("%s %s %s %d %s", verb, hxs(sc), hxs(dc), seqOf(multi, i), hx(c13Bytes(r, 32))))
		}
	case "receipt-single", "receipt-multi":
		multi := strings.HasSuffix(kind, "multi")
		for i := 0; i < n; i++ {
			sc, dc := pairsOf(multi, i)
			emit(fmt.Sprintf("receipt %s %s %d", hxs(sc), hxs(dc), seqOf(multi, i)))
		}
	case "nextseq":
		for i := 0; i < n; i++ {
			emit(fmt.Sprintf("nextseq %s %s %d", hxs("teleport"), hxs(fmt.Sprintf("dst%d", i)), 1+r.Rng.Intn(1000)))
		}
	case "clients":
		for i := 0; i < n; i++ {
			w.genCreate(r, []string{"tss", "tm"}[i%2], fmt.Sprintf("cl%d", i), emit)
		}
	case "cons-tm":
		cl := w.genCreateAt(r, "tm", "tmbig", emit, c13Fix{set: true, rev: 1, h: 2000000, nval: -1})
		for i := 0; i < n; i++ {
			h := clienttypes.NewHeight(1, uint64(1+i))
			cons := w.genConsFor(r, cl, h)
			emit(fmt.Sprintf("cons %s %d %d %s %s", hxs(cl.chain), h.RevisionNumber, h.RevisionHeight, hx(w.consBlob(cons)), b01(cons.ValidateBasic() == nil)))
			emit(fmt.Sprintf("tmmeta %s %d %d %d", hxs(cl.chain), h.RevisionNumber, h.RevisionHeight, 1700000000000000000+uint64(i)))
		}
	case "bsc-signers":
		cl := w.genCreateAt(r, "bsc", "bscbig", emit, c13Fix{set: true, rev: 0, h: 5000000, nval: 3})
		for i := 0; i < n; i++ {
			emit(fmt.Sprintf("bscsigner %s %d %d %s", hxs(cl.chain), 0, 1+i, hx(c13Bytes(r, 20))))
		}
	case "eth-meta":
		cl := w.genCreateAt(r, "eth", "ethbig", emit, c13Fix{set: true, rev: 0, h: 5000000, nval: -1})
		for i := 0; i < n; i++ {
			hash, root := c13Bytes(r, 32), c13Bytes(r, 32)
			emit(fmt.Sprintf("ethindex %s %s %d %s", hxs(cl.chain), hx(hash), 1+i, hx(c13Bytes(r, 24))))
			emit(fmt.Sprintf("ethroot %s %s %d %s", hxs(cl.chain), hx(root), 1+i, hx(hash)))
		}
	case "relayers":
		for i := 0; i < n; i++ {
			ir := clienttypes.IdentifiedRelayer{Address: sdk.AccAddress(c13Bytes(r, 20)).String(), Chains: []string{"bsc"}, Addresses: []string{common.BytesToAddress(c13Bytes(r, 20)).Hex()}}
			emit("relayer " + hx(w.app.AppCodec().MustMarshal(&ir)))
		}
	case "relayer-chains":
		ir := clienttypes.IdentifiedRelayer{Address: sdk.AccAddress(c13Bytes(r, 20)).String()}
		for i := 0; i < n; i++ {
			ir.Chains = append(ir.Chains, fmt.Sprintf("chain%d", i))
			ir.Addresses = append(ir.Addresses, common.BytesToAddress(c13Bytes(r, 20)).Hex())
		}
		emit("relayer " + hx(w.app.AppCodec().MustMarshal(&ir)))
	case "pairs", "pair-denoms":
		np, nd := n, 1
		if kind == "pair-denoms" {
			np, nd = 1, n
			if nd == 0 {
				nd = 1 // a registered pair lists at least one denomination
			}
		}
		for i := 0; i < np; i++ {
			tp := aggregatetypes.TokenPair{ERC20Address: common.BytesToAddress(c13Bytes(r, 20)).Hex(), Enabled: i%2 == 0, ContractOwner: aggregatetypes.Owner(1 + i%2)}
			for j := 0; j < nd; j++ {
				tp.Denoms = append(tp.Denoms, fmt.Sprintf("d%dx%d", i, j))
			}
			line := fmt.Sprintf("%s %s %s %d", hx(tp.GetID()), hx(w.app.AppCodec().MustMarshal(&tp)), hx(tp.GetERC20Contract().Bytes()), len(tp.Denoms))
			for _, d := range tp.Denoms {
				line += " " + hxs(d)
			}
			emit("pair " + line)
		}
	case "rvreward":
		m := n
		if m == 0 {
			m = 1 // an empty reward list is rejected by the validator
		}
		line := fmt.Sprintf("rvparams %s 1 %d", []string{"prop", "genesis"}[r.Rng.Intn(2)], m)
		for i := 0; i < m; i++ {
			line += fmt.Sprintf(" %s %d", hxs(fmt.Sprintf("den%d", (i*7919)%m+1000)), r.Rng.Intn(3)*(1+r.Rng.Intn(1000)))
		}
		emit(line)
	}
	r.Count("size.kind." + kind)
	r.Count(fmt.Sprintf("size.class.%d", n))
	r.Count(fmt.Sprintf("size.%s.%d", kind, n))
}

var c13Denoms = []string{"atele", "btele", "ctele", "zzz", "aaa", "paused", "Uatom", "x-y/z-1",
	"ibc/27394FB092D2ECCD56123C74F36E4C1F926001CEADA9CA97EA622B25F41E5EB2", "aa0", "zz9", "mmm"}

// one `rvparams` line; valid = accepted by validatePerBlockReward (NOT necessarily sorted or free of zero amounts)
func c13RvParamsLine(r *Rec, via string, valid bool) string {
	n := 1
	switch r.Rng.Intn(10) {
	case 0, 1, 2:
		n = 1
		r.Count("rvparams.gen.single")
	case 3, 4, 5, 6:
		n = 2 + r.Rng.Intn(2)
	default:
		n = 4 + r.Rng.Intn(6)
		r.Count("rvparams.gen.many")
	}
	perm := r.Rng.Perm(len(c13Denoms))[:n]
	ds := make([]string, n)
	for i, j := range perm {
		ds[i] = c13Denoms[j]
	}
	if r.Rng.Intn(4) == 0 {
		sort.Strings(ds)
	}
	if !sort.StringsAreSorted(ds) {
		r.Count("rvparams.gen.unsorted")
	} else {
		r.Count("rvparams.gen.sorted")
	}
	amts := make([]string, n)
	for i := range amts {
		switch r.Rng.Intn(5) {
		case 0:
			amts[i] = "1"
		case 1:
			amts[i] = "100000000000000000"
		case 2:
			amts[i] = "123456789012345678901234567890123456"
		default:
			amts[i] = strconv.FormatInt(1+r.Rng.Int63n(1000000), 10)
		}
	}
	switch r.Rng.Intn(8) {
	case 0, 1:
		amts[r.Rng.Intn(n)] = "0"
		r.Count("rvparams.gen.zero-one")
	case 2:
		for i := range amts {
			amts[i] = "0"
		}
		r.Count("rvparams.gen.zero-all")
	}
	if !valid {
		switch r.Rng.Intn(6) {
		case 0:
			ds, amts = nil, nil // empty list
		case 1:
			ds = append(ds, ds[0]) // duplicate denomination
			amts = append(amts, "7")
		case 2:
			ds[r.Rng.Intn(n)] = []string{"A B", "1ab", "ab", "", "a!c", "x.y", "a_b", "a:b"}[r.Rng.Intn(8)]
		case 3:
			amts[r.Rng.Intn(n)] = "-5"
		case 4:
			amts[r.Rng.Intn(n)] = "nil"
		default:
			ds = append(ds, ds[len(ds)-1])
			amts = append(amts, "0")
		}
		r.Count("rvparams.gen.invalid")
	}
	en := r.Rng.Intn(2)
	r.Count(fmt.Sprintf("rvparams.gen.enable-%d", en))
	line := fmt.Sprintf("rvparams %s %d %d", via, en, len(ds))
	for i := range ds {
		line += " " + hxs(ds[i]) + " " + amts[i]
	}
	return line
}

// ---- whole-app export / init (app/export.go) ------------------------------------------------------------------

func c13AppExport(t *testing.T, r *Rec) { c13AppExportWith(t, r, false) }

// allOff: every boolean parameter of the three modules false (a zero-valued Params struct is NOT an absent one) — the whole-app
// path goes through ExportAppStateAndValidators and InitChain, i.e. the module manager's ExportGenesis / InitGenesis
func c13AppExportWith(t *testing.T, r *Rec, allOff bool) {
	a := app.Setup(false, nil)
	w := &c13World{app: a}
	w.base = a.BaseApp.NewContext(false, tmproto.Header{Height: 1, ChainID: "teleport_9000-1", Time: time.Unix(1700000000, 0)})
	w.ctx = w.base // write straight into the deliver state
	w.reachable = true
	var ops []string
	w.genHistory(r, func(op string) {
		ops = append(ops, op)
		if out := w.apply(r, op); out != "ok" && !c13MayFail(op, out) {
			t.Fatalf("app-export setup op %q -> %s", op, out)
		}
	}, 2)
	if allOff {
		for _, op := range []string{
			fmt.Sprintf("param %s %s %s", hxs("aggregate"), hxs("EnableAggregate"), hxs("false")),
			fmt.Sprintf("param %s %s %s", hxs("aggregate"), hxs("EnableEVMHook"), hxs("false")),
			fmt.Sprintf("rvparams prop 0 1 %s 0", hxs("atele")),
		} {
			ops = append(ops, op)
			if out := w.apply(r, op); out != "ok" {
				t.Fatalf("app-export setup op %q -> %s", op, out)
			}
		}
		r.Count("appexport.all-switches-off")
	}
	d1 := c13DumpStore(w.ctx, w)
	a.Commit()
	var exp []byte
	pan, msg := safely(func() {
		e, err := a.ExportAppStateAndValidators(false, nil)
		if err != nil {
			panic(err)
		}
		exp = e.AppState
	})
	if pan {
		r.Count("appexport.export-panic")
		r.Find(Finding{Sig: "C13:app-export-panics:" + c13Slug(msg), What: "ExportAppStateAndValidators fails: " + msg, Ops: ops, Obs: msg, Req: "export succeeds"})
		return
	}
	// ModuleBasics.ValidateGenesis of the exported app state for our three modules
	b := app.NewTeleport(log.NewNopLogger(), dbm.NewMemDB(), nil, true, map[int64]bool{}, app.DefaultNodeHome, 5, encoding.MakeConfig(app.ModuleBasics), simapp.EmptyAppOptions{})
	pan, msg = safely(func() {
		b.InitChain(abci.RequestInitChain{ChainId: "teleport_9000-1", Validators: []abci.ValidatorUpdate{}, ConsensusParams: app.DefaultConsensusParams, AppStateBytes: exp})
	})
	if pan {
		r.Count("appexport.init-panic")
		r.Extra["appexport_init_panic"] = msg
		r.Find(Finding{Sig: "C13:app-init-panics:" + c13Slug(msg), What: "InitChain of a fresh app with the exported app state panics: " + msg, Ops: ops, Obs: msg, Req: "a fresh chain starts from the export"})
		return
	}
	w2 := &c13World{app: b}
	ctx2 := b.BaseApp.NewContext(false, tmproto.Header{Height: 1, ChainID: "teleport_9000-1"})
	d2 := c13DumpStore(ctx2, w2)
	if d1 != d2 {
		fam, k := c13FirstDiff(d1, d2)
		r.Find(Finding{Sig: "C13:app-roundtrip-differs:" + fam, What: "module stores of a fresh app started from ExportAppStateAndValidators differ (key " + k + ")", Ops: ops, Obs: "differs at " + k, Req: "same module state"})
		r.Count("appexport.differs")
		return
	}
	r.Count("appexport.ok")
}

// ---- corpus writer (C13_CORPUS=dir go test -run TestC13): hand-picked histories, regenerated from the real code ------

func c13WriteCorpus(t *testing.T, r *Rec, dir string) {
	w := newC13World()
	type hist struct {
		name string
		f    func(emit func(string))
	}
	params := func(emit func(string)) {
		emit(fmt.Sprintf("param %s %s %s", hxs("aggregate"), hxs("EnableAggregate"), hxs("true")))
		emit(fmt.Sprintf("param %s %s %s", hxs("aggregate"), hxs("EnableEVMHook"), hxs("true")))
		emit(fmt.Sprintf("param %s %s %s", hxs("rvesting"), hxs("EnableVesting"), hxs("false")))
		emit(fmt.Sprintf("param %s %s %s", hxs("rvesting"), hxs("PerBlockReward"), hxs(`[{"denom":"atele","amount":"100000000000000000"}]`)))
		emit("chainname " + hxs("teleport"))
	}
	upd := func(emit func(string), cl *c13Client, rev, h uint64) {
		hh := clienttypes.NewHeight(rev, h)
		cons := w.genConsFor(r, cl, hh)
		emit(fmt.Sprintf("cons %s %d %d %s %s", hxs(cl.chain), rev, h, hx(w.consBlob(cons)), b01(cons.ValidateBasic() == nil)))
		switch cl.ty {
		case "tm":
			emit(fmt.Sprintf("tmmeta %s %d %d %d", hxs(cl.chain), rev, h, 1700000000000000000+h))
		case "bsc":
			emit(fmt.Sprintf("bscsigner %s %d %d %s", hxs(cl.chain), rev, h, hx(c13Bytes(r, 20))))
		case "eth":
			hash, root := c13Bytes(r, 32), c13Bytes(r, 32)
			emit(fmt.Sprintf("ethindex %s %s %d %s", hxs(cl.chain), hx(hash), h, hx(c13Bytes(r, 24))))
			emit(fmt.Sprintf("ethroot %s %s %d %s", hxs(cl.chain), hx(root), h, hx(hash)))
		}
	}
	hs := []hist{
		{"heights-0x2f", func(emit func(string)) {
			// the heights the strings.Split parsers lost (1-47, 1-303) and revisions / heights full of 0x2f bytes, every client type
			for _, ty := range []string{"tm", "bsc", "eth"} {
				cl := w.genCreateAt(r, ty, ty+"-chain", emit, c13Fix{set: true, rev: 1, h: 46, nval: 2})
				for _, h := range []uint64{47, 48, 303, 400, 12079, 0x2f2f2f2f2f2f2f2f, 0x2f00000000000000, 0xff2f} {
					upd(emit, cl, 1, h)
				}
				upd(emit, cl, 47, 47)
				upd(emit, cl, 0x2f2f, 1)
				upd(emit, cl, 0x2f00000000002f00, 0x002f00000000002f)
			}
		}},
		{"tm-iteration-keys", func(emit func(string)) {
			cl := w.genCreateAt(r, "tm", "tmchain", emit, c13Fix{set: true, rev: 0, h: 5, nval: -1})
			upd(emit, cl, 0, 6)
		}},
		{"eth-consensus-type", func(emit func(string)) {
			w.genCreateAt(r, "eth", "ethchain", emit, c13Fix{set: true, rev: 0, h: 100, nval: -1})
		}},
		{"fixed-zero-height-rejected", func(emit func(string)) {
			w.genCreateAt(r, "bsc", "bsc-genesis", emit, c13Fix{set: true, rev: 0, h: 0, nval: 2})
		}},
		{"fixed-bsc-no-validators-rejected", func(emit func(string)) {
			w.genCreateAt(r, "bsc", "bsc-empty", emit, c13Fix{set: true, rev: 0, h: 200, nval: 0})
		}},
		{"size-101-commitments-one-path", func(emit func(string)) {
			// more than 100 entries of one kind (a paginated walk with the default page size would export the first 100 only)
			for i := 1; i <= 101; i++ {
				emit(fmt.Sprintf("commit %s %s %d %s", hxs("teleport"), hxs("bsc"), i, hx(c13Bytes(r, 32))))
			}
		}},
		{"size-101-receipts-acks-many-paths", func(emit func(string)) {
			for i := 0; i < 101; i++ {
				src, dst := []string{"teleport", "eth", "bsc"}[i%3], []string{"bsc", "bsctest", "eth2", "chain10"}[(i/3)%4]
				emit(fmt.Sprintf("receipt %s %s %d", hxs(src), hxs(dst), 1+i/12))
				emit(fmt.Sprintf("ack %s %s %d %s", hxs(src), hxs(dst), 1+i/12, hx(c13Bytes(r, 32))))
			}
			for i := 0; i < 101; i++ {
				emit(fmt.Sprintf("nextseq %s %s %d", hxs("teleport"), hxs(fmt.Sprintf("dst%d", i)), 1+i))
			}
		}},
		{"params-all-switches-off", func(emit func(string)) {
			// governance switched everything off: a zero-valued Params struct is a legitimate state, not an absent section
			emit(fmt.Sprintf("param %s %s %s", hxs("aggregate"), hxs("EnableAggregate"), hxs("false")))
			emit(fmt.Sprintf("param %s %s %s", hxs("aggregate"), hxs("EnableEVMHook"), hxs("false")))
			emit(fmt.Sprintf("rvparams prop 0 1 %s 0", hxs("atele")))
		}},
		{"relayer-uppercase-bech32", func(emit func(string)) {
			// the all-upper-case spelling of a bech32 address is valid and is another store key ("relayers" + address as given)
			for i := 0; i < 2; i++ {
				a := sdk.AccAddress(c13Bytes(r, 20)).String()
				if i == 0 {
					a = strings.ToUpper(a)
				}
				ir := clienttypes.IdentifiedRelayer{Address: a, Chains: []string{"bsc"}, Addresses: []string{common.BytesToAddress(c13Bytes(r, 20)).Hex()}}
				emit("relayer " + hx(w.app.AppCodec().MustMarshal(&ir)))
			}
			ir := clienttypes.IdentifiedRelayer{Address: sdk.AccAddress(c13Bytes(r, 20)).String()} // no chains at all
			emit("relayer " + hx(w.app.AppCodec().MustMarshal(&ir)))
		}},
		{"rv-unsorted-reward", func(emit func(string)) {
			// reward lists the validator accepts but sdk.NewCoins would change: unsorted (set by a parameter-change proposal)
			emit(fmt.Sprintf("rvparams prop 1 2 %s 5 %s 7", hxs("zzz"), hxs("aaa")))
		}},
		{"rv-zero-amount-reward", func(emit func(string)) {
			emit(fmt.Sprintf("rvparams genesis 0 2 %s 100 %s 0", hxs("atele"), hxs("paused")))
		}},
		{"rv-all-zero-reward", func(emit func(string)) {
			// every amount zero: a canonicalising export would carry an empty list, which fails the module's own ValidateGenesis
			emit(fmt.Sprintf("rvparams prop 1 2 %s 0 %s 0", hxs("btele"), hxs("atele")))
			emit(fmt.Sprintf("rvparams prop 1 0"))                                      // rejected: empty
			emit(fmt.Sprintf("rvparams genesis 1 2 %s 1 %s 2", hxs("atele"), hxs("atele"))) // rejected: duplicate
			emit(fmt.Sprintf("rvparams prop 1 1 %s 3", hxs("a.b")))                     // rejected: '.' is not a denom character in sdk v0.45
		}},
		{"tss-upgrade-no-consensus-state", func(emit func(string)) {
			// /repo 6c33891: no consensus state is stored for a TSS client on create, upgrade or toggle, whatever consensus state
			// the proposal carries (before: UpgradeClient of a TSS client and a TSS client created with a non-TSS consensus state
			// stored one at the zero height, and the export failed Validate)
			w.genCreateAt(r, "tss", "N00", emit, c13Fix{nval: -1})
			w.genCreateAt(r, "tss", "N00", emit, c13Fix{nval: -1, verb: "upgrade"})
			w.genCreateAt(r, "tss", "N01", emit, c13Fix{nval: -1, mix: "tm"})
			w.genCreateAt(r, "tss", "N01", emit, c13Fix{nval: -1, verb: "upgrade", mix: "bsc"})
			cl := w.genCreateAt(r, "tm", "N02", emit, c13Fix{set: true, rev: 0, h: 5, nval: -1})
			upd(emit, cl, 0, 6)
			w.genCreateAt(r, "tss", "N02", emit, c13Fix{nval: -1, verb: "toggle", mix: "tm"})
			// same-type upgrades of the other client types, and mixed proposals they reject
			e := w.genCreateAt(r, "eth", "N03", emit, c13Fix{set: true, rev: 0, h: 100, nval: -1})
			upd(emit, e, 0, 101)
			w.genCreateAt(r, "eth", "N03", emit, c13Fix{set: true, rev: 0, h: 200, nval: -1, verb: "upgrade"})
			w.genCreateAt(r, "eth", "N03", emit, c13Fix{set: true, rev: 0, h: 300, nval: -1, verb: "upgrade", mix: "tss"})
			b := w.genCreateAt(r, "bsc", "N04", emit, c13Fix{set: true, rev: 0, h: 400, nval: 2})
			upd(emit, b, 0, 401)
			w.genCreateAt(r, "bsc", "N04", emit, c13Fix{set: true, rev: 0, h: 600, nval: 3, verb: "upgrade"})
			w.genCreateAt(r, "tm", "N05", emit, c13Fix{set: true, rev: 1, h: 47, nval: -1, mix: "eth"})
			t := w.genCreateAt(r, "tm", "N06", emit, c13Fix{set: true, rev: 1, h: 47, nval: -1})
			upd(emit, t, 1, 48)
			w.genCreateAt(r, "tm", "N06", emit, c13Fix{set: true, rev: 1, h: 303, nval: -1, verb: "upgrade"})
		}},
		{"toggle-to-tss", func(emit func(string)) {
			// ToggleClient to a TSS client must not store a consensus state (TSS latest height is 0-0)
			cl := w.genCreateAt(r, "tm", "tmchain", emit, c13Fix{set: true, rev: 0, h: 5, nval: -1})
			upd(emit, cl, 0, 6)
			w.genCreateAt(r, "tss", "tmchain", emit, c13Fix{nval: -1, verb: "toggle"})
		}},
		{"toggle-clears-store", func(emit func(string)) {
			// the repaired ToggleClient clears the replaced client's consensus states and metadata; the result round-trips
			a := w.genCreateAt(r, "tm", "chain-a", emit, c13Fix{set: true, rev: 1, h: 47, nval: -1})
			upd(emit, a, 1, 303)
			b := w.genCreateAt(r, "bsc", "chain-b", emit, c13Fix{set: true, rev: 0, h: 400, nval: 2})
			upd(emit, b, 0, 401)
			na := w.genCreateAt(r, "eth", "chain-a", emit, c13Fix{set: true, rev: 0, h: 9, nval: -1, verb: "toggle"})
			upd(emit, na, 0, 10)
			w.genCreateAt(r, "tm", "chain-b", emit, c13Fix{set: true, rev: 2, h: 0x2f2f, nval: -1, verb: "toggle"})
			w.genCreateAt(r, "tm", "chain-b", emit, c13Fix{set: true, rev: 2, h: 0x2f30, nval: -1, verb: "toggle"}) // same type: rejected
		}},
		{"prefix-related-names", func(emit func(string)) {
			// destination / source names where one is a proper prefix of the other and the next character sorts AFTER '/':
			// "commitments/a/bsctest/…" starts with "commitments/a/bsc" — every key must be parsed on its own
			for _, pr := range [][2]string{{"bsc", "bsctest"}, {"eth", "eth2"}, {"chain1", "chain10"}, {"abc", "abc_"}, {"abc", "abc["}, {"abc", "abc-"}} {
				for _, o := range []string{"teleport", pr[0]} {
					for _, m := range pr {
						emit(fmt.Sprintf("commit %s %s %d %s", hxs(o), hxs(m), 1, hx(c13Bytes(r, 32))))
						emit(fmt.Sprintf("ack %s %s %d %s", hxs(o), hxs(m), 1, hx(c13Bytes(r, 32))))
						emit(fmt.Sprintf("receipt %s %s %d", hxs(o), hxs(m), 1))
						emit(fmt.Sprintf("nextseq %s %s %d", hxs(o), hxs(m), 5+len(m)))
						emit(fmt.Sprintf("commit %s %s %d %s", hxs(m), hxs(o), 2, hx(c13Bytes(r, 32))))
						emit(fmt.Sprintf("nextseq %s %s %d", hxs(m), hxs(o), 7+len(m)))
					}
				}
				emit(fmt.Sprintf("commit %s %s %d %s", hxs("teleport"), hxs(pr[1]), 3, hx(c13Bytes(r, 32))))
			}
			for i, n := range []string{"bsc", "bsctest", "eth", "eth2", "chain1", "chain10"} {
				cl := w.genCreateAt(r, []string{"bsc", "bsc", "eth", "eth", "tm", "tm"}[i], n, emit, c13Fix{set: true, rev: 0, h: 7, nval: 1})
				upd(emit, cl, 0, 8)
				ir := clienttypes.IdentifiedRelayer{Address: n, Chains: []string{n}, Addresses: []string{"0x" + n}}
				emit("relayer " + hx(w.app.AppCodec().MustMarshal(&ir)))
			}
		}},
		{"name-order-vs-key-order", func(emit func(string)) {
			// "ab-c" sorts before "ab" as a key ("ab-" < "ab/") but after it as a name
			for i, n := range []string{"abc", "abc-d", "abc+", "abc.x", "abc#", "ABC", "abc0"} {
				cl := w.genCreateAt(r, []string{"tm", "eth", "bsc", "tss"}[i%4], n, emit, c13Fix{set: true, rev: 2, h: 7, nval: 1})
				if cl.ty != "tss" {
					upd(emit, cl, 2, 8)
				}
			}
			emit(fmt.Sprintf("commit %s %s %d %s", hxs("abc"), hxs("abc-d"), uint64(18446744073709551615), hx(c13Bytes(r, 32))))
			emit(fmt.Sprintf("ack %s %s %d %s", hxs("abc-d"), hxs("abc"), 10, hx(c13Bytes(r, 32))))
			emit(fmt.Sprintf("receipt %s %s %d", hxs("abc"), hxs("abc+"), 9))
			emit(fmt.Sprintf("nextseq %s %s %d", hxs("abc"), hxs("abc-d"), uint64(0x2f2f2f2f2f2f2f2f)))
		}},
		{"unreachable-fake-metadata", func(emit func(string)) {
			// the keys of x/xibc TestResetStates: not a reachable state, the model must still predict export and re-import
			cl := w.genCreateAt(r, "tm", "tmchain", emit, c13Fix{set: true, rev: 0, h: 5, nval: -1})
			_ = cl
			emit("rawx " + hxs("clients/tmchain/consensusStates/1/processedTime") + " " + hx([]byte{1, 2}))
			emit("rawx " + hxs("clients/other/consensusStates/1/processedTime") + " " + hx([]byte{3}))
			emit("rawx " + hxs("clients/tmchain/zzz") + " " + hx([]byte{4}))
		}},
	}
	// histories driven by the real update paths (the pipeline is taken inside the history, at every phase)
	for _, rh := range []struct {
		name string
		f    func(emit func(string), tail func(string))
	}{
		{"real-bsc-updates", func(e func(string), tl func(string)) { w.genBscReal(r, e, tl) }},
		{"real-bsc-across-two-switches", func(e func(string), tl func(string)) { w.genBscRealAt(r, e, tl, 20, 27, true) }},
		{"real-tm-updates", func(e func(string), tl func(string)) { w.genTmReal(r, e, tl) }},
		{"real-aggregate-proposals", func(e func(string), tl func(string)) { w.genAggReal(r, e, tl) }},
		{"real-aggregate-every-path", func(e func(string), tl func(string)) { w.genAggScript(r, e, tl) }},
		{"real-eth-updates", func(e func(string), tl func(string)) { w.genEthReal(r, e, tl) }},
	} {
		var ops []string
		w.apply(r, "reset")
		emit := func(op string) {
			if out := w.apply(r, op); out != "ok" && !c13MayFail(op, out) {
				t.Fatalf("corpus %s: %q -> %s", rh.name, op, out)
			}
			ops = append(ops, op)
		}
		tail := func(string) {
			for _, op := range c13Tail {
				w.apply(r, op)
				ops = append(ops, op)
			}
		}
		rh.f(emit, tail)
		if err := os.WriteFile(dir+"/"+rh.name+".ops", []byte(strings.Join(ops, "\n")+"\n"), 0o644); err != nil {
			t.Fatal(err)
		}
	}
	for _, h := range hs {
		var ops []string
		w.apply(r, "reset")
		emit := func(op string) {
			if out := w.apply(r, op); out != "ok" && !c13MayFail(op, out) {
				t.Fatalf("corpus %s: %q -> %s", h.name, op, out)
			}
			ops = append(ops, op)
		}
		params(emit)
		h.f(emit)
		for _, op := range c13Tail {
			if op == "keys" && !w.reachable {
				continue
			}
			ops = append(ops, op)
		}
		if err := os.WriteFile(dir+"/"+h.name+".ops", []byte(strings.Join(ops, "\n")+"\n"), 0o644); err != nil {
			t.Fatal(err)
		}
	}
}

// ---- the test ---------------------------------------------------------------------------------------------------

var c13Tail = []string{"dump", "keys", "export", "validate", "init", "export2"}

func TestC13(t *testing.T) {
	r := NewRec(t, "C13")
	defer r.Close()
	w := newC13World()
	run := func(ops []string) {
		for _, op := range ops {
			r.Op(op, w.apply(r, op))
		}
	}
	if d := os.Getenv("C13_CORPUS"); d != "" {
		c13WriteCorpus(t, r, d)
		return
	}
	if rp := replayOps(t); rp != nil {
		run(append([]string{"reset"}, rp...))
		return
	}
	for _, h := range corpusOps("C13") {
		run(append([]string{"reset"}, h...))
		r.Count("corpus")
	}
	cases := 320
	if r.Tier == "thorough" {
		cases = 600
	}
	sizeIdx := 0
	for c := 0; c < cases; c++ {
		r.Op("reset", w.apply(r, "reset"))
		emit := func(op string) {
			out := w.apply(r, op)
			r.Op(op, out)
			if out != "ok" && !c13MayFail(op, out) {
				t.Fatalf("setup op %q -> %s", op, out)
			}
		}
		size := 1 + r.Rng.Intn(4)
		if c%10 == 0 {
			size = 0
		}
		sized := c%5 == 2 && c%8 != 3
		if c%8 == 3 {
			// states produced by the REAL update paths, the pipeline taken at every phase
			tail := func(phase string) {
				for _, op := range c13Tail {
					r.Op(op, w.apply(r, op))
				}
				r.Count(c13PhaseKey(phase))
			}
			switch (c / 8) % 5 {
			case 0:
				w.genBscReal(r, emit, tail)
			case 1:
				w.genTmReal(r, emit, tail)
			case 2:
				w.genEthReal(r, emit, tail)
			default:
				w.genAggReal(r, emit, tail) // the registry through its real proposal / message handlers
			}
			continue
		}
		if sized {
			// SIZE dimension: kinds cycle, classes rotate with the shard and the seed so that every (kind, class) pair is reached
			i := sizeIdx
			sizeIdx++
			kind := c13SizeKinds[i%len(c13SizeKinds)]
			cls := c13SizeClasses[(i/len(c13SizeKinds)+i+r.Shard*3+int(r.Seed))%len(c13SizeClasses)]
			if cls == 1000 && (i/len(c13SizeKinds)+r.Shard)%3 != 0 {
				cls = 300 // the list-based Lean model is quadratic: most of the largest stores are 300 entries, every third one 1000
			}
			w.genSized(r, emit, kind, cls)
		} else {
			w.genHistory(r, emit, size)
		}
		mutated := !sized && r.Rng.Intn(6) == 0
		if mutated {
			// unreachable states: stale / foreign keys in the xibc store (the model must still predict export and re-import exactly)
			for i := 1 + r.Rng.Intn(3); i > 0; i-- {
				var k string
				switch r.Rng.Intn(5) {
				case 0:
					k = "clients/" + c13Name(r, map[string]bool{}) + "/consensusStates/1/processedTime"
				case 1:
					k = "clients/" + c13Name(r, map[string]bool{}) + "/iterateConsensusStates" + string(c13Bytes(r, 16))
				case 2:
					k = "clients/" + c13Name(r, map[string]bool{}) + "/" + []string{"recentSingers/0-5", "pendingValidators", "ethHeaderIndex/0xab5", "ethRootMain/0xcd7", "zzz"}[r.Rng.Intn(5)]
				case 3:
					k = "clients/" + c13Name(r, map[string]bool{}) + "/consensusStates/" + string(c13Bytes(r, 15))
				default:
					k = "zz" + c13Name(r, map[string]bool{})
				}
				emit("rawx " + hxs(k) + " " + hx(c13Bytes(r, 1+r.Rng.Intn(8))))
			}
			r.Count("case.mutated")
		} else {
			r.Count("case.reachable")
		}
		if r.Rng.Intn(3) == 0 {
			// rvesting InitGenesis with From funding (a hand-written genesis; exports never carry From)
			ds := []string{"atele", "btele", "ctele"}[:1+r.Rng.Intn(3)]
			line := fmt.Sprintf("rvinit %d %d", b01i(r.Rng.Intn(6) != 0), len(ds))
			bals := map[string]int64{}
			for _, d := range ds {
				bals[d] = []int64{0, 1, 5, 1000, 1 << 40}[r.Rng.Intn(5)]
				line += fmt.Sprintf(" %s %d", hxs(d), bals[d])
			}
			var rw []string
			for _, d := range ds {
				if r.Rng.Intn(3) == 0 {
					continue
				}
				amt := []int64{1, 5, 999, 1000, 1001, bals[d], bals[d] + 1}[r.Rng.Intn(7)]
				if amt <= 0 {
					amt = 1
				}
				rw = append(rw, fmt.Sprintf("%s %d", hxs(d), amt))
			}
			line += fmt.Sprintf(" %d", len(rw))
			if len(rw) > 0 {
				line += " " + strings.Join(rw, " ")
			}
			r.Op(line, w.apply(r, line))
			r.Count("rvinit")
		}
		for _, op := range c13Tail {
			if op == "keys" && mutated {
				continue
			}
			r.Op(op, w.apply(r, op))
		}
	}
	if r.Shard == 0 {
		c13AppExport(t, r)
		c13AppExportWith(t, r, true)
	}
}
