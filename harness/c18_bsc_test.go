//go:build c18

package verifharness

// C18 — a self-signed BSC (parlia) chain whose validator set ROTATES at every epoch header, so that a BSC client
// installed (created / toggled to / upgraded) at an epoch header is given ClientState.Validators ≠ the set announced in
// that header's extra data, and the updates after the install cross the validator-set switch (epoch + len/2) and
// continue with headers sealed by newly joined validators.
//
// Everything here is BY CONSTRUCTION (own keys, own seal hash, own parsing of the extra data): it is the reference the
// real client's stored auxiliary records (pending validators, recent signers) and its verdicts are compared with.
//
//   epoch 10, chain id 7140
//   height 20 (epoch) : in force S0 (3 validators)   announces S1 (5)   -> S1 verifies from 22 on (switch after 20+3/2)
//   height 30 (epoch) : in force S1                  announces S2 (3)   -> S2 verifies from 33 on (switch after 30+5/2)
//   height 40 (epoch) : in force S2                  announces S3 (7)   -> S3 verifies from 42 on
//   the first header after every switch (22, 33, 42) is sealed by a validator that was NOT in the previous set

import (
	"bytes"
	"crypto/ecdsa"
	"crypto/sha256"
	"math/big"
	"sort"

	"github.com/ethereum/go-ethereum/common"
	"github.com/ethereum/go-ethereum/crypto"
	"github.com/ethereum/go-ethereum/rlp"
	"golang.org/x/crypto/sha3"

	bsctypes "github.com/teleport-network/teleport/x/xibc/clients/light-clients/bsc/types"
	clienttypes "github.com/teleport-network/teleport/x/xibc/core/client/types"
)

const (
	c18BscChainID = 7140
	c18BscEpoch   = 10
	c18BscFirst   = 20
	c18BscLast    = 48
	c18BscT0      = 1650000000
)

var c18UncleHash = common.HexToHash("0x1dcc4de8dec75d7aab85b567b6ccd41ad312451b948a7413f0a142fd40d49347")

type c18BscChain struct {
	chainID, epoch, first uint64
	keyOf     map[common.Address]*ecdsa.PrivateKey
	addrs     []common.Address
	announced map[uint64][]common.Address // epoch height -> set announced in its extra data
	inForce   map[uint64][]common.Address // height -> set that verifies the header of that height
	sealer    map[uint64]common.Address
	hdr       map[uint64]*bsctypes.Header
	newcomer  map[uint64]bool // height sealed by a validator that was not in the previous set
}

// seal hash exactly as bsc/types/header.go computes it (unexported there)
func c18BscSealHash(h *bsctypes.Header, chainID uint64) (hash common.Hash) {
	hasher := sha3.NewLegacyKeccak256()
	if err := rlp.Encode(hasher, []interface{}{
		big.NewInt(int64(chainID)),
		h.ParentHash, h.UncleHash, h.Coinbase, h.Root, h.TxHash, h.ReceiptHash, h.Bloom, h.Difficulty,
		h.Height.RevisionHeight, h.GasLimit, h.GasUsed, h.Time,
		h.Extra[:len(h.Extra)-65],
		h.MixDigest, h.Nonce,
	}); err != nil {
		panic(err)
	}
	hasher.Sum(hash[:0])
	return hash
}

// the sealer of a header, recovered independently of the package's ecrecover
func c18BscRecover(h *bsctypes.Header, chainID uint64) (common.Address, bool) {
	if len(h.Extra) < 65+32 {
		return common.Address{}, false
	}
	var pub []byte
	var err error
	if pan, _ := safely(func() { pub, err = crypto.Ecrecover(c18BscSealHash(h, chainID).Bytes(), h.Extra[len(h.Extra)-65:]) }); pan || err != nil {
		return common.Address{}, false
	}
	var a common.Address
	copy(a[:], crypto.Keccak256(pub[1:])[12:])
	return a, true
}

// the validator list an epoch header announces: extra = 32 vanity | n * 20 address bytes | 65 seal
func c18BscAnnounced(extra []byte) ([][]byte, bool) {
	if len(extra) < 32+65 {
		return nil, false
	}
	vb := extra[32 : len(extra)-65]
	if len(vb)%20 != 0 || len(vb) == 0 {
		return nil, false
	}
	var out [][]byte
	for i := 0; i < len(vb); i += 20 {
		out = append(out, append([]byte{}, vb[i:i+20]...))
	}
	return out, true
}

func c18SortedAddrs(as []common.Address) []common.Address {
	s := append([]common.Address{}, as...)
	sort.Slice(s, func(i, j int) bool { return bytes.Compare(s[i][:], s[j][:]) < 0 })
	return s
}

func c18AddrBytes(as []common.Address) [][]byte {
	out := make([][]byte, len(as))
	for i, a := range as {
		out[i] = append([]byte{}, a.Bytes()...)
	}
	return out
}

func c18SameSet(a, b []common.Address) bool {
	if len(a) != len(b) {
		return false
	}
	for _, x := range a {
		if !c18Has(b, x) {
			return false
		}
	}
	return true
}

func c18Has(as []common.Address, a common.Address) bool {
	for _, x := range as {
		if x == a {
			return true
		}
	}
	return false
}

func newC18BscChain() *c18BscChain {
	return newC18BscChainAt(c18BscChainID, c18BscEpoch, c18BscFirst, c18BscLast-c18BscFirst+1)
}

// a chain of `count` headers from height `first` (an epoch height) with the given chain id and epoch; the heights may
// sit at the top of the uint64 range
func newC18BscChainAt(chainID, epoch, first uint64, count int) *c18BscChain {
	c := &c18BscChain{chainID: chainID, epoch: epoch, first: first, keyOf: map[common.Address]*ecdsa.PrivateKey{}, announced: map[uint64][]common.Address{},
		inForce: map[uint64][]common.Address{}, sealer: map[uint64]common.Address{}, hdr: map[uint64]*bsctypes.Header{}, newcomer: map[uint64]bool{}}
	for i := 0; len(c.addrs) < 10; i++ {
		seed := sha256.Sum256([]byte{'c', '1', '8', 'b', 's', 'c', byte(i)})
		k, err := crypto.ToECDSA(seed[:])
		if err != nil {
			continue
		}
		a := crypto.PubkeyToAddress(k.PublicKey)
		c.addrs = append(c.addrs, a)
		c.keyOf[a] = k
	}
	a := c.addrs
	s0 := []common.Address{a[0], a[1], a[2]}
	sets := [][]common.Address{{a[2], a[3], a[4], a[5], a[6]}, {a[0], a[1], a[3]}, {a[4], a[5], a[6], a[7], a[8], a[9], a[1]}}
	cur, prev := s0, s0
	var pending []common.Address
	var parent *bsctypes.Header
	nEpoch := 0
	for i := 0; i < count; i++ {
		n := first + uint64(i)
		if n%epoch == 0 {
			c.announced[n] = sets[nEpoch%len(sets)]
			nEpoch++
		}
		c.inForce[n] = cur
		limit := uint64(len(cur)/2 + 1)
		recent := func(x common.Address) bool {
			for d := uint64(1); d < limit && d <= n-first; d++ {
				if c.sealer[n-d] == x {
					return true
				}
			}
			return false
		}
		sorted := c18SortedAddrs(cur)
		inturn := sorted[n%uint64(len(sorted))]
		var signer common.Address
		picked := false
		if n > first && !c18SameSet(prev, cur) && !c18Has(prev, inturn) && !recent(inturn) {
			signer, picked = inturn, true
		}
		if !picked && n > first && !c18SameSet(prev, cur) { // first header after a switch: a newcomer
			for _, x := range sorted {
				if !c18Has(prev, x) && !recent(x) {
					signer, picked = x, true
					break
				}
			}
		}
		if !picked && !recent(inturn) {
			signer, picked = inturn, true
		}
		for _, x := range sorted {
			if !picked && !recent(x) {
				signer, picked = x, true
			}
		}
		c.newcomer[n] = n > first && !c18SameSet(prev, cur) && !c18Has(prev, signer)
		prev = cur
		extra := make([]byte, 32)
		copy(extra, []byte("c18 generated bsc chain"))
		if n%epoch == 0 {
			for _, x := range c.announced[n] {
				extra = append(extra, x.Bytes()...)
			}
		}
		extra = append(extra, make([]byte, 65)...)
		root := sha256.Sum256([]byte{'r', byte(n)})
		txh := sha256.Sum256([]byte{'t', byte(n)})
		rch := sha256.Sum256([]byte{'c', byte(n)})
		ph := sha256.Sum256([]byte("c18 parent of the first generated header"))
		parentHash := ph[:]
		if parent != nil {
			parentHash = parent.Hash().Bytes()
		}
		diff := []byte{1}
		if signer == inturn {
			diff = []byte{2}
		}
		h := &bsctypes.Header{
			Height:     clienttypes.NewHeight(0, n),
			ParentHash: parentHash, UncleHash: c18UncleHash.Bytes(), Coinbase: signer.Bytes(),
			Root: root[:], TxHash: txh[:], ReceiptHash: rch[:], Difficulty: diff,
			GasLimit: 30000000, GasUsed: 21000 * (n - first + 1), Time: c18BscT0 + 3*(n-first),
			Extra: extra, MixDigest: make([]byte, 32), Nonce: make([]byte, 8),
		}
		sig, err := crypto.Sign(c18BscSealHash(h, chainID).Bytes(), c.keyOf[signer])
		if err != nil {
			panic(err)
		}
		copy(h.Extra[len(h.Extra)-65:], sig)
		c.hdr[n], c.sealer[n], parent = h, signer, h
		// the client applies the switch while processing the header at epoch + len(cur)/2
		if n%epoch == 0 {
			pending = c.announced[n]
		}
		if pending != nil && n%epoch == uint64(len(cur)/2) {
			cur = pending
		}
	}
	return c
}

// client state installed at generated epoch height n: the validators in force there, NOT the announced ones
func (c *c18BscChain) state(n uint64) *bsctypes.ClientState {
	return &bsctypes.ClientState{Header: *c.hdr[n], ChainId: c.chainID, Epoch: c.epoch, BlockInteval: 3,
		Validators: c18AddrBytes(c.inForce[n]), ContractAddress: []byte("0x00"), TrustingPeriod: 1000000}
}

func (c *c18BscChain) cons(n uint64) *bsctypes.ConsensusState {
	h := c.hdr[n]
	return &bsctypes.ConsensusState{Timestamp: h.Time, Height: h.Height, Root: h.Root}
}

// the same states under a revision number ≠ 0 (the seal does not cover the revision)
func (c *c18BscChain) stateRev(n, rev uint64) *bsctypes.ClientState {
	st := c.state(n)
	st.Header.Height.RevisionNumber = rev
	return st
}

func (c *c18BscChain) consRev(n, rev uint64) *bsctypes.ConsensusState {
	k := c.cons(n)
	k.Height.RevisionNumber = rev
	return k
}
