//go:build c04

package verifharness

// C04 — transactions whose ONE receipt mixes bridge sends with logs of the OTHER system contracts the hook chain
// listens to (staking, gov — their hooks run BEFORE the packet hook on the same receipt — plus ERC-20 events and plain
// foreign logs), in both orders and interleaved, through the hand-assembled multicall contract. The receipt is read from
// the transaction RESPONSE (the EVM's own log list), never from a later hook's view: every PacketSent log of the packet
// contract in it must have its commitment (checkEmitted) and its EventSendPacket (C04:sends-vs-logs).
// Plus a source guard: no PostTxProcessing hook may re-slice, assign to or append into receipt.Logs (Go slices alias).

import (
	"fmt"
	"go/ast"
	"go/parser"
	"go/token"
	"math/big"
	"os"
	"path/filepath"
	"regexp"
	"strings"

	"github.com/ethereum/go-ethereum/common"

	sdk "github.com/cosmos/cosmos-sdk/types"
	banktypes "github.com/cosmos/cosmos-sdk/x/bank/types"
	govtypes "github.com/cosmos/cosmos-sdk/x/gov/types"

	"github.com/teleport-network/teleport/syscontracts"
	govcontract "github.com/teleport-network/teleport/syscontracts/gov"
	stakingcontract "github.com/teleport-network/teleport/syscontracts/staking"
	endpointcontract "github.com/teleport-network/teleport/syscontracts/xibc_endpoint"
)

// prepMixed: native coins for the multicall contract (it is the delegator), the validator, a proposal in voting period
func (w *c04World) prepMixed() {
	ctx := w.A.GetContext()
	coins := sdk.NewCoins(sdk.NewInt64Coin(sdk.DefaultBondDenom, 1_000_000_000))
	c04Must(w.A.App.BankKeeper.SendCoins(ctx, w.A.SenderAcc, sdk.AccAddress(w.multi.Bytes()), coins))
	_ = banktypes.ModuleName
	w.validator = sdk.ValAddress(w.A.Vals.Validators[0].Address).String()
	dep := w.A.App.GovKeeper.GetDepositParams(ctx).MinDeposit
	msg, err := govtypes.NewMsgSubmitProposal(govtypes.NewTextProposal("c04", "mixed receipts"), dep, w.A.SenderAcc)
	c04Must(err)
	if _, err := w.A.App.MsgServiceRouter().Handler(msg)(ctx, msg); err == nil {
		w.proposal = 1
	}
}

// delegated: tokens the multicall contract has delegated to the validator, read from the staking keeper (plus what the
// transaction being planned has already added / removed)
func (h *c04Hist) delegated() *big.Int {
	if h.plannedDel == nil {
		w := h.w
		ctx := w.A.GetContext()
		h.plannedDel = big.NewInt(0)
		valAddr, err := sdk.ValAddressFromBech32(w.validator)
		c04Must(err)
		if d, found := w.A.App.StakingKeeper.GetDelegation(ctx, sdk.AccAddress(w.multi.Bytes()), valAddr); found {
			if v, ok := w.A.App.StakingKeeper.GetValidator(ctx, valAddr); ok {
				h.plannedDel = v.TokensFromShares(d.Shares).TruncateInt().BigInt()
			}
		}
	}
	return h.plannedDel
}

func c04StakingPack(fn string, args ...interface{}) []byte {
	b, err := stakingcontract.StakingContract.ABI.Pack(fn, args...)
	c04Must(err)
	return b
}

// doMixed: 2..5 calls in one transaction, at least one crossChainCall and at least one staking / gov call
func (h *c04Hist) doMixed() {
	w, rg := h.w, h.rg
	staking := common.HexToAddress(syscontracts.StakingContractAddress)
	gov := common.HexToAddress(syscontracts.GovContractAddress)
	n := 2 + rg.Intn(4)
	kinds := make([]string, n)
	for i := range kinds {
		kinds[i] = []string{"send", "send", "stake", "stake", "vote", "erc20", "fake"}[rg.Intn(7)]
	}
	kinds[rg.Intn(n)] = "send"
	for { // one system-contract call at a position that is not the (only) send
		i := rg.Intn(n)
		cnt := 0
		for _, k := range kinds {
			if k == "send" {
				cnt++
			}
		}
		if kinds[i] != "send" || cnt > 1 {
			kinds[i] = []string{"stake", "stake", "vote"}[rg.Intn(3)]
			break
		}
	}
	var data []byte
	total := big.NewInt(0)
	var order []string
	h.plannedDel = nil
	for _, k := range kinds {
		switch k {
		case "send":
			s := h.randSend(true)
			s.tok, s.feeTok, s.feeAmt = rg.Intn(2), 0, big.NewInt(0)
			s.feeTok = s.tok
			if rg.Intn(5) != 0 {
				s.dst = []string{w.B.ChainID, w.C.ChainID, w.tss}[rg.Intn(3)]
				s.amt = big.NewInt(int64(1 + rg.Intn(50)))
				s.receiver, s.contract, s.callData = c04Relayer, "", nil
			}
			d, val := w.ccPack(s)
			total.Add(total, val)
			data = append(data, c04Record(endpointcontract.EndpointContractAddress, rg.Intn(6) != 0, val, d)...)
			order = append(order, "S")
		case "stake":
			// the staking contract only emits the event; the adapter hook performs the action and fails (reverting the
			// whole transaction) if it is invalid — so only actions that are valid on the current staking state are planned
			var d []byte
			del := h.delegated()
			switch x := rg.Intn(4); {
			case x == 0 && del.Sign() > 0 && h.undelegations < 5:
				amt := big.NewInt(int64(1 + rg.Intn(500)))
				if amt.Cmp(del) > 0 {
					amt = del
				}
				d = c04StakingPack("undelegate", w.validator, amt)
				h.undelegations++
				h.plannedDel.Sub(h.plannedDel, amt)
			case x == 1 && del.Sign() > 0:
				d = c04StakingPack("withdraw", w.validator)
			default:
				amt := big.NewInt(int64(1000 + rg.Intn(5000)))
				d = c04StakingPack("delegate", w.validator, amt)
				h.plannedDel.Add(h.plannedDel, amt)
			}
			data = append(data, c04Record(staking, true, big.NewInt(0), d)...)
			order = append(order, "K")
		case "vote":
			if w.proposal == 0 {
				continue
			}
			d, err := govcontract.GovContract.ABI.Methods["vote"].Inputs.Pack(w.proposal, uint32(1+rg.Intn(4)))
			c04Must(err)
			d = append(append([]byte{}, govcontract.GovContract.ABI.Methods["vote"].ID...), d...)
			data = append(data, c04Record(gov, false, big.NewInt(0), d)...)
			order = append(order, "G")
		case "erc20":
			data = append(data, c04Record(w.tok[rg.Intn(2)], true, big.NewInt(0), c04ERC20Pack("approve", endpointcontract.EndpointContractAddress, big.NewInt(int64(2000+rg.Intn(1000)))))...)
			order = append(order, "E")
		default:
			payload := append(w.sentTopic.Bytes(), h.sentLogData(h.randomForgedPacket())...)
			data = append(data, c04Record(w.fake, true, big.NewInt(0), payload)...)
			order = append(order, "F")
		}
	}
	h.mixedOrder = strings.Join(order, "")
	h.doTx("mixed", w.multi, total, data)
	h.mixedOrder = ""
}

// countMixed: which shapes of mixed receipts actually committed (called by doTx for committed mixed transactions);
// classification on the RECEIPT (addresses of the logs in the transaction response), not on the plan
func (h *c04Hist) countMixed(out c04TxOut) {
	staking := common.HexToAddress(syscontracts.StakingContractAddress)
	gov := common.HexToAddress(syscontracts.GovContractAddress)
	var shape []byte
	for _, l := range out.logs {
		switch {
		case l.Address == staking:
			shape = append(shape, 'K')
		case l.Address == gov:
			shape = append(shape, 'G')
		case l.Address == h.w.fake:
			shape = append(shape, 'F')
		default:
			if s, p, _ := h.classifyRaw(l); s != "o" && p != nil {
				shape = append(shape, 'S')
			}
		}
	}
	sh := string(shape)
	if !strings.Contains(sh, "S") {
		return
	}
	h.r.Count("send.mixed-receipt")
	if regexp.MustCompile("S.*K").MatchString(sh) {
		h.r.Count("send.mixed-receipt.send-before-staking")
	}
	if regexp.MustCompile("K.*S").MatchString(sh) {
		h.r.Count("send.mixed-receipt.staking-before-send")
	}
	if regexp.MustCompile("S.*K.*S|K.*S.*K").MatchString(sh) {
		h.r.Count("send.mixed-receipt.interleaved")
	}
	if regexp.MustCompile("S.*G").MatchString(sh) {
		h.r.Count("send.mixed-receipt.send-before-gov")
	}
	if regexp.MustCompile("G.*S").MatchString(sh) {
		h.r.Count("send.mixed-receipt.gov-before-send")
	}
	if strings.Contains(sh, "F") {
		h.r.Count("send.mixed-receipt.foreign-log")
	}
	h.r.Nontrivial("mixed " + sh)
}

// c04ScanHooks: source guard for `other_hooks_do_not_hide_sends` — in every PostTxProcessing of adapter/* and
// x/**/keeper/evm_hooks.go nothing re-slices receipt.Logs, assigns to it or to an element of it, or appends into it
// (a slice derived by re-slicing shares the backing array the later hooks read).
func c04ScanHooks(r *Rec) {
	repo := "/repo"
	if v := os.Getenv("VERIF_REPO"); v != "" {
		repo = v
	} else if b, err := os.ReadFile("go.mod"); err == nil {
		if m := regexp.MustCompile(`github.com/teleport-network/teleport => (\S+)`).FindSubmatch(b); m != nil {
			repo = string(m[1])
		}
	}
	var files []string
	for _, pat := range []string{"adapter/*/*.go", "x/*/keeper/evm_hooks.go", "x/*/*/*/keeper/evm_hooks.go", "x/*/*/keeper/evm_hooks.go"} {
		fs, _ := filepath.Glob(filepath.Join(repo, pat))
		files = append(files, fs...)
	}
	isLogs := func(e ast.Expr) bool {
		s, ok := e.(*ast.SelectorExpr)
		return ok && s.Sel.Name == "Logs"
	}
	n := 0
	for _, f := range files {
		if strings.HasSuffix(f, "_test.go") {
			continue
		}
		fset := token.NewFileSet()
		af, err := parser.ParseFile(fset, f, nil, 0)
		if err != nil {
			continue
		}
		for _, d := range af.Decls {
			fd, ok := d.(*ast.FuncDecl)
			if !ok || fd.Name.Name != "PostTxProcessing" || fd.Body == nil {
				continue
			}
			n++
			ast.Inspect(fd.Body, func(x ast.Node) bool {
				bad := ""
				switch v := x.(type) {
				case *ast.SliceExpr:
					if isLogs(v.X) {
						bad = "re-slices receipt.Logs"
					}
				case *ast.AssignStmt:
					for _, l := range v.Lhs {
						if isLogs(l) {
							bad = "assigns to receipt.Logs"
						}
						if ix, ok := l.(*ast.IndexExpr); ok && isLogs(ix.X) {
							bad = "assigns to an element of receipt.Logs"
						}
					}
				case *ast.CallExpr:
					if id, ok := v.Fun.(*ast.Ident); ok && id.Name == "append" && len(v.Args) > 0 && isLogs(v.Args[0]) {
						bad = "appends into receipt.Logs"
					}
				}
				if bad != "" {
					rel, _ := filepath.Rel(repo, f)
					r.Find(Finding{Sig: "C04:hook-modifies-shared-receipt", What: "a PostTxProcessing hook " + bad + " — the receipt is shared with the hooks that run after it (packet hook last)",
						Obs: fmt.Sprintf("%s:%d", rel, fset.Position(x.Pos()).Line), Req: "hooks only read the receipt", Ops: []string{"(source guard)"}})
				}
				return true
			})
		}
	}
	r.Extra["hooks_scanned"] = n
	if n < 4 {
		r.Find(Finding{Sig: "C04:hook-scan-incomplete", What: "fewer PostTxProcessing hooks found than the chain has (staking, gov, aggregate, packet)", Obs: fmt.Sprint(n), Req: ">= 4", Ops: []string{"(source guard)"}})
	}
}
