//go:build c04

package verifharness

// C04 — op `restartapp`: restart of chain A from an exported genesis in the middle of a history.
//
//   commit the current block → app.ExportAppStateAndValidators(false, nil) (every module's ExportGenesis, JSON through the
//   app codec) → a fresh app.NewTeleport on a new memdb → InitChain(AppStateBytes = exported state, exported consensus
//   params, InitialHeight = exported height) → Commit → BeginBlock of the next height; the world continues on the new
//   app (same accounts / keys, chains B and C untouched).
//
// A restart must lose NOTHING the property talks about (the model's `restart` is the identity): the oracle compares,
// before and after, the xibc packet state, the storage / code / balance of every system contract and token, the packet
// contract's chain name, and the canonical dump; the standing invariants (chain counter == contract counter,
// counter == sends + 1 ACROSS the restart, one commitment per send) run on the new app right afterwards.

import (
	"crypto/sha256"
	"encoding/hex"
	"fmt"
	"sort"
	"strings"

	"github.com/ethereum/go-ethereum/common"

	"github.com/cosmos/cosmos-sdk/simapp"
	sdk "github.com/cosmos/cosmos-sdk/types"
	abci "github.com/tendermint/tendermint/abci/types"
	"github.com/tendermint/tendermint/libs/log"
	tmproto "github.com/tendermint/tendermint/proto/tendermint/types"
	dbm "github.com/tendermint/tm-db"

	"github.com/tharsis/ethermint/encoding"
	evm "github.com/tharsis/ethermint/x/evm/types"

	"github.com/teleport-network/teleport/app"
	"github.com/teleport-network/teleport/syscontracts"
	agentcontract "github.com/teleport-network/teleport/syscontracts/xibc_agent"
	endpointcontract "github.com/teleport-network/teleport/syscontracts/xibc_endpoint"
	packetcontract "github.com/teleport-network/teleport/syscontracts/xibc_packet"
	"github.com/teleport-network/teleport/x/xibc/core/host"
)

func (w *c04World) storeDigest(name string, prefixes ...string) string {
	ctx := w.A.GetContext()
	hsh := sha256.New()
	st := ctx.KVStore(w.A.App.GetKey(name))
	it := st.Iterator(nil, nil)
	defer it.Close()
	for ; it.Valid(); it.Next() {
		k := it.Key()
		if len(prefixes) > 0 {
			ok := false
			for _, p := range prefixes {
				if strings.HasPrefix(string(k), p) {
					ok = true
				}
			}
			if !ok {
				continue
			}
		}
		hsh.Write([]byte(fmt.Sprintf("%d:%x=%d:%x;", len(k), k, len(it.Value()), it.Value())))
	}
	return hex.EncodeToString(hsh.Sum(nil))[:16]
}

// c04Contracts: every contract whose storage a send / receive / acknowledgement touches
func (w *c04World) contracts() map[string]common.Address {
	return map[string]common.Address{
		"packet":   packetcontract.PacketContractAddress,
		"endpoint": endpointcontract.EndpointContractAddress,
		"execute":  common.HexToAddress(syscontracts.ExecuteContractAddress),
		"agent":    agentcontract.AgentContractAddress,
		"wtele":    common.HexToAddress(syscontracts.WTELEContractAddress),
		"token0":   w.tok[0],
		"token1":   w.tok[1],
		"bound":    w.bnd,
		"multi":    w.multi,
		"fake":     w.fake,
	}
}

// snapshot of everything a restart has to preserve, by part (so that a loss is reported by name)
func (h *c04Hist) restartSnapshot() map[string]string {
	w := h.w
	ctx := w.A.GetContext()
	snap := map[string]string{}
	snap["xibc.packet-state"] = w.storeDigest(host.StoreKey, host.KeyNextSeqSendPrefix, host.KeyPacketCommitmentPrefix, host.KeyPacketReceiptPrefix, host.KeyPacketAckPrefix)
	snap["xibc.whole-store"] = w.storeDigest(host.StoreKey)
	snap["evm.whole-store"] = w.storeDigest(evm.StoreKey)
	for name, addr := range w.contracts() {
		hsh := sha256.New()
		var slots []string
		w.A.App.EvmKeeper.ForEachStorage(ctx, addr, func(k, v common.Hash) bool {
			slots = append(slots, k.Hex()+"="+v.Hex())
			return true
		})
		sort.Strings(slots)
		hsh.Write([]byte(strings.Join(slots, ";")))
		snap["storage."+name] = fmt.Sprintf("%d slots %s", len(slots), hex.EncodeToString(hsh.Sum(nil))[:12])
		if acct := w.A.App.EvmKeeper.GetAccount(ctx, addr); acct != nil {
			ch := sha256.Sum256(w.A.App.EvmKeeper.GetCode(ctx, common.BytesToHash(acct.CodeHash)))
			snap["code."+name] = hex.EncodeToString(ch[:6])
			snap["nonce."+name] = fmt.Sprint(acct.Nonce)
		} else {
			snap["code."+name] = "no account"
		}
		snap["balance."+name] = w.A.App.BankKeeper.GetAllBalances(ctx, sdk.AccAddress(addr.Bytes())).String()
	}
	snap["balance.sender"] = w.A.App.BankKeeper.GetAllBalances(ctx, w.A.SenderAcc).String()
	if ret, err := w.view(packetcontract.PacketContract, packetcontract.PacketContractAddress, "chainName"); err == nil {
		snap["packet.chainName"] = hex.EncodeToString(ret)
		if vals, err := packetcontract.PacketContract.ABI.Unpack("chainName", ret); err == nil && len(vals) == 1 {
			snap["packet.chainName"] = fmt.Sprintf("%q", vals[0])
		}
	} else {
		snap["packet.chainName"] = "viewerr"
	}
	snap["chain.name"] = w.A.App.XIBCKeeper.ClientKeeper.GetChainName(ctx)
	snap["dump"] = h.dump()
	// acknowledgement status and fees of every send observed so far (packet contract views)
	var ds []string
	for d := range h.sent {
		ds = append(ds, d)
	}
	sort.Strings(ds)
	var acks []string
	for _, d := range ds {
		for q := uint64(1); q <= uint64(len(h.sent[d])); q++ {
			a, e1 := w.view(packetcontract.PacketContract, packetcontract.PacketContractAddress, "getAckStatus", d, q)
			f, e2 := w.view(packetcontract.PacketContract, packetcontract.PacketContractAddress, "packetFees", []byte(d+"/"+fmt.Sprint(q)))
			acks = append(acks, fmt.Sprintf("%s/%d:%x/%v:%x/%v", d, q, a, e1 != nil, f, e2 != nil))
		}
	}
	ah := sha256.Sum256([]byte(strings.Join(acks, ";")))
	snap["packet.ackStatus+fees"] = fmt.Sprintf("%d packets %s", len(acks), hex.EncodeToString(ah[:6]))
	return snap
}

func (h *c04Hist) doRestart() {
	w := h.w
	w.coord.CommitBlock(w.A) // export reads the committed state
	pre := h.restartSnapshot()
	var failure string
	if pan, msg := safely(func() {
		exported, err := w.A.App.ExportAppStateAndValidators(false, nil)
		if err != nil {
			failure = "export: " + err.Error()
			return
		}
		newApp := app.NewTeleport(log.NewNopLogger(), dbm.NewMemDB(), nil, true, map[int64]bool{}, app.DefaultNodeHome, 5,
			encoding.MakeConfig(app.ModuleBasics), simapp.EmptyAppOptions{})
		newApp.InitChain(abci.RequestInitChain{
			ChainId:         "teleport_9000-1", // what xibctesting.SetupWithGenesisValSet uses
			Time:            w.A.CurrentHeader.Time,
			InitialHeight:   exported.Height,
			Validators:      []abci.ValidatorUpdate{},
			ConsensusParams: exported.ConsensusParams,
			AppStateBytes:   exported.AppState,
		})
		newApp.Commit()
		w.A.App = newApp
		w.A.QueryServer = newApp.XIBCKeeper
		w.A.Codec = newApp.AppCodec()
		w.A.CurrentHeader = tmproto.Header{
			ChainID:            w.A.ChainID,
			Height:             newApp.LastBlockHeight() + 1,
			AppHash:            newApp.LastCommitID().Hash,
			Time:               w.A.CurrentHeader.Time,
			ValidatorsHash:     w.A.Vals.Hash(),
			NextValidatorsHash: w.A.Vals.Hash(),
			ProposerAddress:    w.A.Vals.Proposer.Address,
		}
		newApp.BeginBlock(abci.RequestBeginBlock{Header: w.A.CurrentHeader})
	}); pan {
		failure = "panic: " + msg
	}
	if failure != "" {
		if len(failure) > 600 {
			failure = failure[:600]
		}
		h.find("C04:restart-from-export-failed", "whole-app export / InitChain of the exported genesis failed", failure, "a chain can be restarted from its exported state")
		h.r.Count("restart.failed")
		h.emit("restartapp", "err")
		return
	}
	post := h.restartSnapshot()
	var lost []string
	for k, v := range pre {
		if post[k] != v {
			if k == "xibc.whole-store" || k == "evm.whole-store" || strings.HasPrefix(k, "nonce.") {
				// diagnostics only: whole-store digests are reported through the named parts; account nonces of
				// contracts are outside the property (InitChainer's SetEVMCode re-creates the system-contract accounts)
				h.r.Count("restart.diff." + k)
				h.r.Extra["restart.diff."+k] = c04Clip(v) + " -> " + c04Clip(post[k])
				continue
			}
			lost = append(lost, fmt.Sprintf("%s: %s -> %s", k, c04Clip(v), c04Clip(post[k])))
		}
	}
	sort.Strings(lost)
	if len(lost) > 0 {
		h.find("C04:state-lost-across-restart", "restart from the exported genesis changed state the send path depends on",
			strings.Join(lost, " | "), "export → NewTeleport → InitChain preserves counters, commitments, receipts, contract storage (sequences, escrow, fees, ack status, chain name), code and balances")
	}
	h.r.Count("restart")
	if h.nSent() > 0 {
		h.r.Count("restart.after-sends")
	}
	h.restarted++
	h.r.Nontrivial(strings.Join(h.ops, ";") + ";restartapp")
	h.emit("restartapp", "ok")
}

func c04Clip(s string) string {
	if len(s) > 120 {
		return s[:120] + "…"
	}
	return s
}

func (h *c04Hist) nSent() int {
	n := 0
	for _, ss := range h.sent {
		n += len(ss)
	}
	return n
}
