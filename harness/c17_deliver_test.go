//go:build c17

package verifharness

// C17 — the same call shapes through the REAL BaseApp.DeliverTx (ante handler, runTx cache + panic recovery,
// EthereumTx, ApplyTransaction, hooks) on a dedicated app: a small fixed scenario list, oracle only (not part of the
// model stream): success commits, native failure / native panic leave EVM storage, staking and gov state and supply as before.

import (
	"fmt"
	"math/big"
	"strings"

	sdk "github.com/cosmos/cosmos-sdk/types"
	"github.com/ethereum/go-ethereum/common"
	ethtypes "github.com/ethereum/go-ethereum/core/types"
	abci "github.com/tendermint/tendermint/abci/types"
	"github.com/tharsis/ethermint/encoding"
	"github.com/tharsis/ethermint/tests"
	evm "github.com/tharsis/ethermint/x/evm/types"

	"github.com/teleport-network/teleport/app"
)

func c17Sections(d string, keep string) string {
	var out []string
	for _, f := range strings.Fields(d) {
		if strings.Contains(keep, f[:1]) {
			out = append(out, f)
		}
	}
	return strings.Join(out, " ")
}

func c17DeliverPhase(r *Rec) {
	w := newC17World()
	a := w.app
	h := w.base.BlockHeader()
	h.Height = 1
	var pan bool
	var msg string
	pan, msg = safely(func() { a.BeginBlock(abci.RequestBeginBlock{Header: h}) })
	if pan {
		r.Extra["delivertx"] = "BeginBlock panicked: " + msg
		return
	}
	ctx := a.BaseApp.NewContext(false, h)
	w.ctx = ctx
	evmDenom := a.EvmKeeper.GetParams(ctx).EvmDenom
	for _, e := range w.eoas {
		c17Fund(a, ctx, e.Bytes(), evmDenom, c17Pow10(21))
	}
	enc := encoding.MakeConfig(app.ModuleBasics)
	feeCap := big.NewInt(100_000_000_000)
	if bf := a.FeeMarketKeeper.GetBaseFee(ctx); bf != nil && bf.Sign() > 0 {
		feeCap = new(big.Int).Mul(bf, big.NewInt(2))
	}
	deliver := func(fromIdx int, to common.Address, data []byte) (uint32, string, string) {
		from := w.eoas[fromIdx]
		chainID := a.EvmKeeper.ChainID()
		nonce := a.EvmKeeper.GetNonce(ctx, from)
		tx := evm.NewTx(chainID, nonce, &to, big.NewInt(0), 3_000_000, nil, feeCap, big.NewInt(1), data, &ethtypes.AccessList{})
		tx.From = from.Hex()
		if err := tx.Sign(ethtypes.LatestSignerForChainID(chainID), tests.NewSigner(w.eoaKeys[fromIdx])); err != nil {
			panic(err)
		}
		sdkTx, err := tx.BuildTx(enc.TxConfig.NewTxBuilder(), evmDenom)
		if err != nil {
			panic(err)
		}
		bz, err := enc.TxConfig.TxEncoder()(sdkTx)
		if err != nil {
			panic(err)
		}
		res := a.BaseApp.DeliverTx(abci.RequestDeliverTx{Tx: bz})
		vmErr := ""
		if res.Code == 0 {
			var txd sdk.TxMsgData
			if err := txd.Unmarshal(res.Data); err == nil && len(txd.Data) > 0 {
				var rsp evm.MsgEthereumTxResponse
				if err := rsp.Unmarshal(txd.Data[0].Data); err == nil {
					vmErr = rsp.VmError
				}
			}
		}
		return res.Code, vmErr, res.Log
	}
	e18 := new(big.Int).Exp(big.NewInt(10), big.NewInt(18), nil)
	v0 := w.vals[0].String()
	keep := "CDURVS"
	type sc struct {
		name   string
		root   *c17Node
		expect string // ok | fail
	}
	huge := new(big.Int).Sub(new(big.Int).Lsh(big.NewInt(1), 256), big.NewInt(1))
	scs := []sc{
		{"proxy-call-delegate", &c17Node{tag: 'P', kind: 'c', target: w.proxies[0], body: []*c17Node{{tag: 'S', kind: 'c', call: &c17Call{fn: "delegate", v1: v0, amt: e18}}}}, "ok"},
		{"eoa-delegate", &c17Node{tag: 'S', kind: 'c', call: &c17Call{fn: "delegate", v1: v0, amt: e18}}, "ok"},
		{"native-failure", &c17Node{tag: 'P', kind: 'c', target: w.proxies[1], body: []*c17Node{
			{tag: 'S', kind: 'c', call: &c17Call{fn: "delegate", v1: v0, amt: e18}},
			{tag: 'S', kind: 'c', call: &c17Call{fn: "delegate", v1: v0, amt: new(big.Int).Mul(e18, big.NewInt(100000))}}}}, "fail"},
		{"native-panic", &c17Node{tag: 'S', kind: 'c', call: &c17Call{fn: "undelegate", v1: v0, amt: huge}}, "fail"},
		{"delegatecall-ignored", &c17Node{tag: 'P', kind: 'c', target: w.proxies[0], body: []*c17Node{{tag: 'S', kind: 'd', call: &c17Call{fn: "delegate", v1: v0, amt: e18}}}}, "ok"},
		{"vote", &c17Node{tag: 'S', kind: 'c', call: &c17Call{fn: "vote", pid: 1, opt: 1}}, "ok"},
	}
	for _, s := range scs {
		var to common.Address
		var data []byte
		if s.root.tag == 'P' {
			to, data = s.root.target, w.segments(s.root.body)
		} else {
			to, data = w.sysTarget(s.root), w.packCall(s.root.call)
		}
		from := w.eoas[0]
		cnt := map[common.Address]int{}
		_, emits := w.interp(c17Frame{self: from, sender: from}, []*c17Node{s.root}, cnt)
		before := w.dump(ctx)
		want := c17Sections(before, keep)
		if s.expect == "ok" {
			refCtx, _ := ctx.CacheContext()
			if !w.reference(refCtx, emits) {
				r.Find(Finding{Sig: "C17:delivertx:scenario", Ops: []string{"# delivertx scenario " + s.name}, What: "scenario " + s.name + ": reference execution failed", Obs: "fail", Req: "ok"})
				continue
			}
			d := w.dump(refCtx)
			want = c17Sections(w.expectedCounters(ctx, cnt)+d[strings.Index(d, " B:"):], keep)
		}
		code, vmErr, log := deliver(0, to, data)
		after := c17Sections(w.dump(ctx), keep)
		r.Count(fmt.Sprintf("delivertx.%s.code%d.vmerr%v", s.name, code, vmErr != ""))
		failed := code != 0 || vmErr != ""
		switch {
		case s.expect == "ok" && failed:
			r.Find(Finding{Sig: "C17:delivertx:spurious-failure", Ops: []string{"# delivertx scenario " + s.name}, What: "DeliverTx scenario " + s.name + " failed: " + vmErr + " " + log, Obs: "failed", Req: "ok"})
		case s.expect == "fail" && !failed:
			r.Find(Finding{Sig: "C17:delivertx:failure-swallowed", Ops: []string{"# delivertx scenario " + s.name}, What: "DeliverTx scenario " + s.name + ": a native message fails but the transaction succeeded", Obs: after, Req: "failure"})
		}
		if after != want {
			r.Find(Finding{Sig: "C17:delivertx:state:" + s.expect, Ops: []string{"# delivertx scenario " + s.name}, What: "DeliverTx scenario " + s.name + ": EVM storage / staking / gov state / supply after the transaction is not what the attributed messages imply (unchanged on failure)",
				Obs: after, Req: want})
		}
	}
}
