//go:build c06

package verifharness

// C06 (b) — contract level: every privileged method of the system contracts (packet, endpoint, execute) is
// callable only by the chain's own module / contract address. EXHAUSTIVE table run on the real byte code:
//   {every non-view method of the three ABI JSON files of the repo} x {call paths}
//
// op language:
//   evmreset                                   new world (real app, contracts as installed by InitChainer)
//   addr <class> <hex>                         the address the GO CODE uses for that caller class      -> ok
//   const <contract> <class>                   byte code of <contract> pushes exactly that address      -> ok | missing
//   row <contract> <method>                    caller class OBSERVED on the byte code                   -> row <class>
//   call <contract> <method> <path...>         -> pass | revert
//        eoa <a>              signed Ethereum transaction from account a (EvmKeeper.EthereumTx, as integration_test.SendTx)
//        contract <a> <c>     a sends a transaction to the hand-assembled forwarder c, which CALLs the method
//        execute <a>          a calls execute.execute({target, calldata})
//        packet               the call data travels in a received packet (real MsgRecvPacket through the msg server)
//        module <m>           keeper-style module call (ApplyMessage with from = m, as PacketKeeper.CallEVMWithData)
//   whoami <path...>          msg.sender seen by a callee on that path                                  -> caller <hex>

import (
	"bytes"
	"fmt"
	"math/big"
	"sort"
	"strings"
	"testing"

	sdk "github.com/cosmos/cosmos-sdk/types"
	"github.com/ethereum/go-ethereum/accounts/abi"
	"github.com/ethereum/go-ethereum/common"
	ethtypes "github.com/ethereum/go-ethereum/core/types"
	"github.com/tharsis/ethermint/crypto/ethsecp256k1"
	"github.com/tharsis/ethermint/server/config"
	"github.com/tharsis/ethermint/tests"
	evmtypes "github.com/tharsis/ethermint/x/evm/types"

	"github.com/teleport-network/teleport/app"
	"github.com/teleport-network/teleport/syscontracts"
	endpointcontract "github.com/teleport-network/teleport/syscontracts/xibc_endpoint"
	packetcontract "github.com/teleport-network/teleport/syscontracts/xibc_packet"
	aggregatetypes "github.com/teleport-network/teleport/x/aggregate/types"
	tsstypes "github.com/teleport-network/teleport/x/xibc/clients/tss-client/types"
	clienttypes "github.com/teleport-network/teleport/x/xibc/core/client/types"
	packettypes "github.com/teleport-network/teleport/x/xibc/core/packet/types"
)

type c06CallRes struct {
	ok     bool   // executed without revert / error
	reason string // revert reason (Error(string)) or error text
	ret    []byte
}

// c06ModuleCall is what PacketKeeper.CallEVMWithData does (ApplyMessage(commit=true) + PostTxProcessing),
// keeping the return data so that the revert reason is observable.
func c06ModuleCall(a *app.Teleport, ctx sdk.Context, from common.Address, to common.Address, data []byte) (out c06CallRes) {
	if p, m := safely(func() {
		nonce := a.EvmKeeper.GetNonce(ctx, from)
		msg := ethtypes.NewMessage(from, &to, nonce, big.NewInt(0), config.DefaultGasCap, big.NewInt(0), big.NewInt(0), big.NewInt(0), data, ethtypes.AccessList{}, true)
		res, err := a.EvmKeeper.ApplyMessage(ctx, msg, evmtypes.NewNoOpTracer(), true)
		if err != nil {
			out = c06CallRes{false, "error: " + err.Error(), nil}
			return
		}
		if !res.Failed() {
			receipt := &ethtypes.Receipt{Logs: evmtypes.LogsToEthereum(res.Logs), TxHash: common.HexToHash(res.Hash)}
			if err = a.EvmKeeper.PostTxProcessing(ctx, msg, receipt); err != nil {
				out = c06CallRes{false, "post-processing: " + err.Error(), res.Ret}
				return
			}
			out = c06CallRes{true, "", res.Ret}
			return
		}
		out = c06CallRes{false, c06Reason(res.VmError, res.Ret), res.Ret}
	}); p {
		out = c06CallRes{false, "panic: " + m, nil}
	}
	return
}

func c06Reason(vmErr string, ret []byte) string {
	if r, err := abi.UnpackRevert(ret); err == nil {
		return r
	}
	return vmErr
}

// ---- hand-assembled helper contracts (no solc in the sandbox) -------------------------------------

// forwarder: calldata = 32-byte word holding the target address ++ payload. CALLs target with the payload,
// copies the return data, REVERTs if the inner call failed, RETURNs it otherwise.
//
//	60 20 36 03   PUSH1 0x20 CALLDATASIZE SUB          size = cds-32
//	60 20 60 00 37 PUSH1 0x20 PUSH1 0 CALLDATACOPY      mem[0..size) = calldata[32..]
//	60 00 60 00   retSize retOffset
//	60 20 36 03   argsSize
//	60 00 60 00   argsOffset value
//	60 00 35 5a f1 PUSH1 0 CALLDATALOAD GAS CALL
//	3d 60 00 60 00 3e  RETURNDATASIZE PUSH1 0 PUSH1 0 RETURNDATACOPY
//	60 26 57      PUSH1 <ok> JUMPI
//	3d 60 00 fd   RETURNDATASIZE PUSH1 0 REVERT
//	5b 3d 60 00 f3 JUMPDEST RETURNDATASIZE PUSH1 0 RETURN
var c06ForwarderCode = []byte{
	0x60, 0x20, 0x36, 0x03, 0x60, 0x20, 0x60, 0x00, 0x37,
	0x60, 0x00, 0x60, 0x00, 0x60, 0x20, 0x36, 0x03, 0x60, 0x00, 0x60, 0x00, 0x60, 0x00, 0x35, 0x5a, 0xf1,
	0x3d, 0x60, 0x00, 0x60, 0x00, 0x3e,
	0x60, 0x27, 0x57,
	0x3d, 0x60, 0x00, 0xfd,
	0x5b, 0x3d, 0x60, 0x00, 0xf3,
}

// swallowing forwarder: same CALL, never reverts, returns the 32-byte success flag of the inner call.
//
//	... CALL ; 60 00 52 PUSH1 0 MSTORE ; 60 20 60 00 f3 PUSH1 0x20 PUSH1 0 RETURN
var c06SwallowCode = []byte{
	0x60, 0x20, 0x36, 0x03, 0x60, 0x20, 0x60, 0x00, 0x37,
	0x60, 0x00, 0x60, 0x00, 0x60, 0x20, 0x36, 0x03, 0x60, 0x00, 0x60, 0x00, 0x60, 0x00, 0x35, 0x5a, 0xf1,
	0x60, 0x00, 0x52, 0x60, 0x20, 0x60, 0x00, 0xf3,
}

// whoami: returns msg.sender.   33 60 00 52 60 20 60 00 f3
var c06WhoamiCode = []byte{0x33, 0x60, 0x00, 0x52, 0x60, 0x20, 0x60, 0x00, 0xf3}

var (
	c06ForwarderAddr = common.HexToAddress("0x00000000000000000000000000000000c0600001")
	c06SwallowAddr   = common.HexToAddress("0x00000000000000000000000000000000c0600002")
	c06WhoamiAddr    = common.HexToAddress("0x00000000000000000000000000000000c0600003")
	c06Wtele         = common.HexToAddress(syscontracts.WTELEContractAddress)
	c06EOA           = c06Accts[3]
)

const c06BindKey = "0xorigin/tss-a"

type c06Method struct {
	contract string
	name     string
	abi      abi.ABI
	addr     common.Address
}

// every non-view method of the three ABI files, regenerated from the JSON of the repo on every run
func c06Methods() []c06Method {
	var out []c06Method
	for _, c := range []struct {
		n string
		a abi.ABI
		x common.Address
	}{{"packet", packetcontract.PacketContract.ABI, packetcontract.PacketContractAddress},
		{"endpoint", endpointcontract.EndpointContract.ABI, endpointcontract.EndpointContractAddress},
		{"execute", endpointcontract.ExecuteContract.ABI, endpointcontract.ExecuteContractAddress}} {
		var names []string
		for n, m := range c.a.Methods {
			if !m.IsConstant() {
				names = append(names, n)
			}
		}
		sort.Strings(names)
		for _, n := range names {
			out = append(out, c06Method{c.n, n, c.a, c.x})
		}
	}
	return out
}

type c06EvmWorld struct {
	t    *testing.T
	mw   *c06World
	app  *app.Teleport
	self string
	hist []string
}

func newC06EvmWorld(t *testing.T) *c06EvmWorld {
	mw := newC06World(t)
	T := mw.T
	ctx := T.GetContext()
	ck := T.App.XIBCKeeper.ClientKeeper
	if err := ck.CreateClient(ctx, "tss-a", &tsstypes.ClientState{TssAddress: c06Accts[0].lower}, &tsstypes.ConsensusState{}); err != nil {
		t.Fatal(err)
	}
	ck.RegisterRelayers(ctx, c06Accts[0].lower, []string{"tss-a"}, []string{"0xfee"})
	mw.lastReg[c06Accts[0].lower] = c06Reg{[]string{"tss-a"}, []string{"0xfee"}}
	mw.tssCfg["tss-a"] = c06Accts[0].lower
	T.App.SetEVMCode(ctx, c06ForwarderAddr, c06ForwarderCode)
	T.App.SetEVMCode(ctx, c06SwallowAddr, c06SwallowCode)
	T.App.SetEVMCode(ctx, c06WhoamiAddr, c06WhoamiCode)
	w := &c06EvmWorld{t: t, mw: mw, app: T.App, self: T.ChainID}
	w.installHelpers(ctx)
	mw.coord.CommitBlock(T)
	return w
}

func (w *c06EvmWorld) classAddr(class string) (common.Address, bool) {
	switch class {
	case "packetModule":
		return packettypes.ModuleAddress, true
	case "aggregateModule":
		return aggregatetypes.ModuleAddress, true
	case "packetContract":
		return packetcontract.PacketContractAddress, true
	case "endpointContract":
		return endpointcontract.EndpointContractAddress, true
	case "executeContract":
		return endpointcontract.ExecuteContractAddress, true
	}
	return common.Address{}, false
}

// arguments with which the method changes contract state when its guard lets the caller through
func (w *c06EvmWorld) args(m c06Method) ([]interface{}, bool) {
	cd, _ := (&packettypes.CallData{ContractAddress: "0x1111111111111111111111111111111111111111", CallData: []byte{1, 2}}).ABIPack()
	td, _ := (&packettypes.TransferData{Token: "0xorigin", OriToken: "", Amount: big.NewInt(5).Bytes(), Receiver: "0x1111111111111111111111111111111111111111"}).ABIPack()
	pkIn := *packettypes.NewPacket("tss-a", w.self, 1, c06Sender, td, cd, c06ZeroHex, 0)
	pkOut := *packettypes.NewPacket(w.self, "tss-a", 1, c06Sender, nil, cd, c06ZeroHex, 0)
	zeroFee := packettypes.Fee{TokenAddress: common.Address{}, Amount: big.NewInt(0)}
	switch m.contract + "." + m.name {
	case "packet.OnAcknowledgePacket":
		return []interface{}{pkOut, packettypes.NewAcknowledgement(0, []byte{}, "", "0xfee", 0)}, true
	case "packet.onRecvPacket":
		return []interface{}{pkIn}, true
	case "packet.sendPacket":
		return []interface{}{pkOut, zeroFee}, true
	case "packet.sendPacketFeeToRelayer":
		return []interface{}{"tss-a", uint64(1), c06EOA.addr2()}, true
	case "packet.setAckStatus":
		return []interface{}{"tss-a", uint64(1), uint8(1)}, true
	case "packet.setChainName":
		return []interface{}{"hijacked-name"}, true
	case "packet.setSequence":
		return []interface{}{"tss-a", uint64(2)}, true
	case "packet.addPacketFee":
		return []interface{}{"tss-a", uint64(1), big.NewInt(0)}, true
	case "endpoint.bindToken":
		return []interface{}{c06Wtele, "0xorigin", "tss-a", uint8(0)}, true
	case "endpoint.enableTimeBasedSupplyLimit":
		return []interface{}{c06Wtele, big.NewInt(100), big.NewInt(50), big.NewInt(10), big.NewInt(1)}, true
	case "endpoint.disableTimeBasedSupplyLimit":
		return []interface{}{c06Wtele}, true
	case "endpoint.onRecvPacket":
		return []interface{}{pkIn}, true
	case "endpoint.onAcknowledgementPacket":
		return []interface{}{pkOut, uint64(0), []byte{}, ""}, true
	case "endpoint.crossChainCall":
		return []interface{}{packettypes.CrossChainData{DstChain: "tss-a", TokenAddress: common.Address{}, Receiver: "", Amount: big.NewInt(0),
			ContractAddress: "0x1111111111111111111111111111111111111111", CallData: []byte{1}, CallbackAddress: common.Address{}, FeeOption: 0}, zeroFee}, true
	case "execute.execute":
		return []interface{}{packettypes.CallData{ContractAddress: "0x1111111111111111111111111111111111111111", CallData: []byte{1, 2}}}, true
	}
	return nil, false
}

func (a c06Acct) addr2() common.Address { return common.BytesToAddress(a.addr) }

// state the method needs so that an AUTHORISED call succeeds (made through the real module paths)
func (w *c06EvmWorld) setup(ctx sdk.Context, m c06Method) (failure string) {
	ea := endpointcontract.EndpointContract.ABI
	ep := endpointcontract.EndpointContractAddress
	key := m.contract + "." + m.name
	if key == "endpoint.enableTimeBasedSupplyLimit" || key == "endpoint.disableTimeBasedSupplyLimit" || key == "endpoint.onRecvPacket" || key == "packet.onRecvPacket" {
		d, _ := ea.Pack("bindToken", c06Wtele, "0xorigin", "tss-a", uint8(0))
		if r := c06ModuleCall(w.app, ctx, aggregatetypes.ModuleAddress, ep, d); !r.ok {
			return "bindToken by the aggregate module: " + r.reason
		}
	}
	if key == "packet.sendPacketFeeToRelayer" {
		// a user sends a packet with a relay fee of 7 (real crossChainCall transaction), so that paying the fee moves funds
		T := w.mw.T
		sender := c06Acct{key: T.SenderPrivKey.(*ethsecp256k1.PrivKey), addr: T.SenderAcc}
		d, _ := ea.Pack("crossChainCall", packettypes.CrossChainData{DstChain: "tss-a", TokenAddress: common.Address{}, Receiver: "", Amount: big.NewInt(0),
			ContractAddress: "0x1111111111111111111111111111111111111111", CallData: []byte{1}, CallbackAddress: common.Address{}, FeeOption: 0},
			packettypes.Fee{TokenAddress: common.Address{}, Amount: big.NewInt(7)})
		if r := w.ethTxValue(ctx, sender, ep, d, big.NewInt(7)); !r.ok {
			return "crossChainCall with fee: " + r.reason
		}
	}
	if key == "endpoint.disableTimeBasedSupplyLimit" {
		d, _ := ea.Pack("enableTimeBasedSupplyLimit", c06Wtele, big.NewInt(100), big.NewInt(50), big.NewInt(10), big.NewInt(1))
		if r := c06ModuleCall(w.app, ctx, aggregatetypes.ModuleAddress, ep, d); !r.ok {
			return "enableTimeBasedSupplyLimit by the aggregate module: " + r.reason
		}
	}
	return ""
}

// the privileged entry points as the PROPERTY names them, with the only caller it allows
// (independent of the Lean table; the oracle demands exactly this)
var c06PropertyCaller = map[string]string{
	"packet.onRecvPacket":                  "packetModule", // handing the contracts a received packet
	"packet.OnAcknowledgePacket":           "packetModule", // ... or an acknowledgement
	"packet.setSequence":                   "packetModule", // setting sequences,
	"packet.setAckStatus":                  "packetModule", // ack status
	"packet.setChainName":                  "packetModule", // or chain name
	"packet.sendPacketFeeToRelayer":        "packetModule", // paying out relayer fees
	"packet.sendPacket":                    "endpointContract",
	"endpoint.onRecvPacket":                "packetContract",
	"endpoint.onAcknowledgementPacket":     "packetContract",
	"endpoint.bindToken":                   "aggregateModule", // binding tokens
	"endpoint.enableTimeBasedSupplyLimit":  "aggregateModule", // and supply limits
	"endpoint.disableTimeBasedSupplyLimit": "aggregateModule",
}

func (w *c06EvmWorld) find(r *Rec, sig, what, obs, req string) {
	r.Find(Finding{Sig: sig, What: what, Ops: append([]string{}, w.hist...), Obs: obs, Req: req})
}

// raw storage of the three system contracts
func (w *c06EvmWorld) storage(ctx sdk.Context) string {
	var sb strings.Builder
	for _, a := range []common.Address{packetcontract.PacketContractAddress, endpointcontract.EndpointContractAddress, endpointcontract.ExecuteContractAddress} {
		var kv []string
		w.app.EvmKeeper.ForEachStorage(ctx, a, func(k, v common.Hash) bool {
			kv = append(kv, k.Hex()+"="+v.Hex())
			return true
		})
		sort.Strings(kv)
		sb.WriteString(a.Hex() + "{" + strings.Join(kv, ",") + "}")
		sb.WriteString(w.app.BankKeeper.GetAllBalances(ctx, sdk.AccAddress(a.Bytes())).String())
	}
	return sb.String()
}

// the contract views named by the property (read on throw-away contexts)
func (w *c06EvmWorld) views(ctx sdk.Context) string {
	pa, ea := packetcontract.PacketContract.ABI, endpointcontract.EndpointContract.ABI
	pk, ep := packetcontract.PacketContractAddress, endpointcontract.EndpointContractAddress
	type q struct {
		a    abi.ABI
		to   common.Address
		m    string
		args []interface{}
	}
	var sb strings.Builder
	for _, x := range []q{
		{pa, pk, "getNextSequenceSend", []interface{}{"tss-a"}},
		{pa, pk, "sequences", []interface{}{[]byte("tss-a")}},
		{pa, pk, "getAckStatus", []interface{}{"tss-a", uint64(1)}},
		{pa, pk, "ackStatus", []interface{}{[]byte("tss-a/1")}},
		{pa, pk, "acks", []interface{}{[]byte("tss-a/1")}},
		{pa, pk, "packetFees", []interface{}{[]byte("tss-a/1")}},
		{pa, pk, "chainName", nil},
		{ea, ep, "outTokens", []interface{}{c06Wtele, "tss-a"}},
		{ea, ep, "outTokens", []interface{}{common.Address{}, "tss-a"}},
		{ea, ep, "bindings", []interface{}{c06BindKey}},
		{ea, ep, "bindingTraces", []interface{}{c06BindKey}},
		{ea, ep, "limits", []interface{}{c06Wtele}},
	} {
		d, err := x.a.Pack(x.m, x.args...)
		if err != nil {
			w.t.Fatalf("pack view %s: %v", x.m, err)
		}
		cc, _ := ctx.CacheContext()
		r := c06ModuleCall(w.app, cc, c06Accts[7].addr2(), x.to, d)
		sb.WriteString(x.m + "=" + fmt.Sprintf("%v:%x;", r.ok, r.ret))
	}
	return sb.String()
}

func (w *c06EvmWorld) ethTx(ctx sdk.Context, from c06Acct, to common.Address, data []byte) c06CallRes {
	return w.ethTxValue(ctx, from, to, data, big.NewInt(0))
}

func (w *c06EvmWorld) ethTxValue(ctx sdk.Context, from c06Acct, to common.Address, data []byte, value *big.Int) c06CallRes {
	chainID := w.app.EvmKeeper.ChainID()
	nonce := w.app.EvmKeeper.GetNonce(ctx, from.addr2())
	tx := evmtypes.NewTx(chainID, nonce, &to, value, config.DefaultGasCap, big.NewInt(0), big.NewInt(0), big.NewInt(0), data, &ethtypes.AccessList{})
	tx.From = from.addr2().Hex()
	if err := tx.Sign(ethtypes.LatestSignerForChainID(chainID), tests.NewSigner(from.key)); err != nil {
		w.t.Fatalf("sign: %v", err)
	}
	var out c06CallRes
	if p, m := safely(func() {
		rsp, err := w.app.EvmKeeper.EthereumTx(sdk.WrapSDKContext(ctx), tx)
		if err != nil {
			out = c06CallRes{false, "error: " + err.Error(), nil}
			return
		}
		if rsp.Failed() {
			out = c06CallRes{false, c06Reason(rsp.VmError, rsp.Ret), rsp.Ret}
			return
		}
		out = c06CallRes{true, "", rsp.Ret}
	}); p {
		out = c06CallRes{false, "panic: " + m, nil}
	}
	return out
}

func c06Word(a common.Address) []byte { return common.LeftPadBytes(a.Bytes(), 32) }

// runPath performs the call of `to` with `data` along the path; returns whether the INNER call of the
// method went through, and the reason if not.
func (w *c06EvmWorld) runPath(ctx sdk.Context, path []string, to common.Address, data []byte) (c06CallRes, bool) {
	xa := endpointcontract.ExecuteContract.ABI
	switch path[0] {
	case "eoa":
		a := c06AcctByEth(path[1])
		if a == nil {
			return c06CallRes{}, false
		}
		return w.ethTx(ctx, *a, to, data), true
	case "contract":
		a := c06AcctByEth(path[1])
		proxy := common.BytesToAddress(unhx(path[2]))
		if a == nil || (proxy != c06ForwarderAddr && proxy != c06SwallowAddr) {
			return c06CallRes{}, false
		}
		r := w.ethTx(ctx, *a, proxy, append(c06Word(to), data...))
		if proxy == c06SwallowAddr && r.ok {
			flag := len(r.ret) == 32 && r.ret[31] == 1
			return c06CallRes{flag, "inner call failed (swallowed)", r.ret}, true
		}
		return r, true
	case "execute":
		a := c06AcctByEth(path[1])
		if a == nil {
			return c06CallRes{}, false
		}
		d, err := xa.Pack("execute", packettypes.CallData{ContractAddress: strings.ToLower(to.Hex()), CallData: data})
		if err != nil {
			return c06CallRes{}, false
		}
		r := w.ethTx(ctx, *a, endpointcontract.ExecuteContractAddress, d)
		if r.ok {
			vals, err := xa.Unpack("execute", r.ret)
			if err != nil || len(vals) != 2 {
				return c06CallRes{false, "undecodable execute result", r.ret}, true
			}
			inner, _ := vals[1].([]byte)
			if !vals[0].(bool) {
				return c06CallRes{false, c06Reason("inner call failed", inner), inner}, true
			}
			return c06CallRes{true, "", inner}, true
		}
		return r, true
	case "packet":
		cd, _ := (&packettypes.CallData{ContractAddress: strings.ToLower(to.Hex()), CallData: data}).ABIPack()
		pk := packettypes.NewPacket("tss-a", w.self, 1, c06Sender, nil, cd, c06ZeroHex, 0)
		bz, _ := pk.ABIPack()
		msg := &packettypes.MsgRecvPacket{Packet: bz, ProofCommitment: []byte{1}, ProofHeight: clienttypes.NewHeight(0, 1), Signer: c06Accts[0].lower}
		var err error
		var ackBz []byte
		em := sdk.NewEventManager()
		if p, m := safely(func() { _, err = w.app.XIBCKeeper.RecvPacket(sdk.WrapSDKContext(ctx.WithEventManager(em)), msg) }); p {
			return c06CallRes{false, "panic: " + m, nil}, true
		}
		if err != nil {
			return c06CallRes{false, "recv rejected: " + err.Error(), nil}, true
		}
		for _, e := range em.Events() {
			if strings.HasSuffix(e.Type, "EventWriteAck") {
				for _, at := range e.Attributes {
					if string(at.Key) == "ack" {
						ackBz, _ = c06B64(strings.Trim(string(at.Value), "\""))
					}
				}
			}
		}
		var ack packettypes.Acknowledgement
		if ackBz == nil || ack.ABIDecode(ackBz) != nil {
			return c06CallRes{false, "no acknowledgement written", nil}, true
		}
		if ack.Code != 0 {
			return c06CallRes{false, fmt.Sprintf("ack code %d: %s", ack.Code, ack.Message), ack.Result}, true
		}
		return c06CallRes{true, "", ack.Result}, true
	case "module":
		return c06ModuleCall(w.app, ctx, common.BytesToAddress(unhx(path[1])), to, data), true
	}
	return w.runPath2(ctx, path, to, data)
}

func c06AcctByEth(h string) *c06Acct {
	b := unhx(h)
	for i := range c06Accts {
		if bytes.Equal(c06Accts[i].addr, b) {
			return &c06Accts[i]
		}
	}
	return nil
}

// observed caller class: which of the candidate callers is NOT stopped by a caller guard
func (w *c06EvmWorld) observeClass(m c06Method, data []byte) string {
	cands := []struct {
		n string
		a common.Address
	}{{"eoa", c06EOA.addr2()}, {"packetModule", packettypes.ModuleAddress}, {"aggregateModule", aggregatetypes.ModuleAddress},
		{"packetContract", packetcontract.PacketContractAddress}, {"endpointContract", endpointcontract.EndpointContractAddress},
		{"executeContract", endpointcontract.ExecuteContractAddress}}
	var through []string
	for _, c := range cands {
		cc, _ := w.mw.T.GetContext().CacheContext()
		if w.setup(cc, m) != "" {
			return "setup-failed"
		}
		r := c06ModuleCall(w.app, cc, c.a, m.addr, data)
		if r.ok || !strings.HasPrefix(r.reason, "caller must be") {
			through = append(through, c.n)
		}
	}
	switch {
	case len(through) == len(cands):
		return "anyone"
	case len(through) == 1 && through[0] != "eoa" && through[0] != "executeContract":
		return through[0]
	}
	return "mixed:" + strings.Join(through, "+")
}

func c06HasPushConst(code []byte, a common.Address) bool {
	want := bytes.TrimLeft(a.Bytes(), "\x00")
	for i := 0; i < len(code); {
		op := code[i]
		if op >= 0x60 && op <= 0x7f {
			n := int(op - 0x5f)
			if i+1+n <= len(code) && n == len(want) && bytes.Equal(code[i+1:i+1+n], want) {
				return true
			}
			i += n + 1
		} else {
			i++
		}
	}
	return false
}

func (w *c06EvmWorld) apply(r *Rec, op string) string {
	f := strings.Fields(op)
	keep := f[0] == "addr" || f[0] == "evmrestart" || f[0] == "evmupgrade" // part of every later replay
	if keep {
		w.hist = append(w.hist, op)
	}
	defer func(n int) { w.hist = w.hist[:n] }(len(w.hist))
	if !keep {
		w.hist = append(w.hist, op) // replay of a finding = world + addresses (+ restart / upgrade) + this cell
	}
	switch f[0] {
	case "emit":
		return w.applyEmit(r, f)
	case "emitmix":
		return w.applyEmitMix(r, f)
	case "spoof":
		return w.applySpoof(r, f)
	case "evmrestart":
		return w.applyEvmRestart(r)
	case "evmupgrade":
		return w.applyEvmUpgrade(r)
	case "addr":
		a, ok := w.classAddr(f[1])
		if !ok || hx(a.Bytes()) != f[2] {
			return "go-address-differs"
		}
		return "ok"
	case "const":
		var code []byte
		switch f[1] {
		case "packet":
			code = packetcontract.PacketContract.Bin
		case "endpoint":
			code = endpointcontract.EndpointContract.Bin
		case "execute":
			code = endpointcontract.ExecuteContract.Bin
		}
		a, ok := w.classAddr(f[2])
		if !ok || code == nil {
			return "bad-op"
		}
		r.Count("const")
		if !c06HasPushConst(code, a) {
			w.find(r, "C06/guard-constant-not-in-bytecode/"+f[1]+"/"+f[2], "the byte code of "+f[1]+" does not push the address the Go code computes for "+f[2],
				"constant absent", "PUSH of "+a.Hex())
			return "missing"
		}
		return "ok"
	}
	// method ops
	var m *c06Method
	ms := c06Methods()
	if f[0] == "row" || f[0] == "call" {
		for i := range ms {
			if ms[i].contract == f[1] && ms[i].name == f[2] {
				m = &ms[i]
			}
		}
		if m == nil {
			return "no-such-method"
		}
	}
	switch f[0] {
	case "row":
		args, ok := w.args(*m)
		if !ok {
			return "row no-arguments-in-harness"
		}
		data, err := m.abi.Pack(m.name, args...)
		if err != nil {
			return "row arguments-do-not-fit-abi"
		}
		r.Count("row")
		return "row " + w.observeClass(*m, data)
	case "call":
		args, ok := w.args(*m)
		if !ok {
			return "no-arguments-in-harness"
		}
		data, err := m.abi.Pack(m.name, args...)
		if err != nil {
			return "arguments-do-not-fit-abi"
		}
		path := f[3:]
		ctx, _ := w.mw.T.GetContext().CacheContext()
		if fail := w.setup(ctx, *m); fail != "" {
			w.find(r, "C06/positive-control-failed/setup", "the chain's own module cannot prepare the state for "+m.contract+"."+m.name, fail, "module calls pass the caller guards")
			return "setup-failed"
		}
		st0, v0 := w.storage(ctx), w.views(ctx)
		res, ok := w.runPath(ctx, path, m.addr, data)
		if !ok {
			return "bad-op"
		}
		st1, v1 := w.storage(ctx), w.views(ctx)
		r.Count("call." + path[0])
		// ---- the property on the real byte code ----------------------------------------------
		if class, priv := c06PropertyCaller[m.contract+"."+m.name]; priv {
			req, _ := w.classAddr(class)
			if caller := w.effectiveCaller(path); caller != req {
				r.Count("call.unauthorised")
				if res.ok {
					w.find(r, "C06/privileged-method-exercised-by-unauthorised-caller/"+path[0], m.contract+"."+m.name+" went through although the effective caller is not the "+class,
						"call passed", "revert")
				}
				changed := v0 != v1
				if path[0] != "packet" { // a received packet legitimately records itself (latestPacket); the views must still be identical
					changed = changed || st0 != st1
				}
				if changed {
					w.find(r, "C06/unauthorised-call-changed-contract-state/"+path[0], "an unauthorised call of "+m.contract+"."+m.name+" changed contract state",
						"state differs", "identical storage / views")
				}
				if !res.ok && strings.Contains(res.reason, "caller must be") {
					r.Count("call.unauthorised.guard-reason")
				}
			} else {
				r.Count("call.positive-control")
				if !res.ok {
					w.find(r, "C06/positive-control-failed/"+m.contract+"."+m.name, "the required caller ("+class+" = address computed by the Go code) cannot exercise the method: guard constant and module address disagree, or the harness arguments no longer fit",
						"revert: "+res.reason, "pass")
				} else if st0 == st1 && v0 == v1 {
					r.Count("call.positive-control.no-state-change")
					r.Extra["positive-control-without-state-change:"+m.contract+"."+m.name] = true
				}
			}
		}
		if res.ok {
			return "pass"
		}
		return "revert"
	case "whoami":
		ctx, _ := w.mw.T.GetContext().CacheContext()
		res, ok := w.runPath(ctx, f[1:], c06WhoamiAddr, []byte{})
		if !ok {
			return "bad-op"
		}
		r.Count("whoami")
		if !res.ok || len(res.ret) != 32 {
			return "caller ?" + res.reason
		}
		return "caller " + hx(res.ret[12:])
	}
	return "bad-op"
}

func (w *c06EvmWorld) effectiveCaller(path []string) common.Address {
	switch path[0] {
	case "eoa", "module", "delegatecall": // DELEGATECALL keeps the helper's own caller as msg.sender
		return common.BytesToAddress(unhx(path[1]))
	case "contract", "callcode", "staticcall", "ctor":
		return common.BytesToAddress(unhx(path[2]))
	}
	return endpointcontract.ExecuteContractAddress // execute / packet: established by the whoami ops
}
