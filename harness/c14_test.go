//go:build c14

package verifharness

// C14 — deterministic state machine: same blocks give the same state hash.
//
// Three parts (DESIGN.md 5/C14):
//  1. site inventory: tools/nondetsites is built and run over the source tree the harness is compiled against;
//     every order-/environment-dependent site must match props/sites-C14.json (or be classified automatically);
//  2. the Lean theorems of Proofs/C14.lean (named by the expectation file) — checked by ./check, not here;
//  3. twin replay: a block history generated from the seed is serialised as a script and executed in TWO child
//     processes (this same test binary, VERIF_C14_CHILD=1) with different GOMAXPROCS, GOGC, TMPDIR (one of them
//     non-existent), HOME, TZ, working directory and extra environment. Every child prints, per script step,
//     LastCommitID().Hash + height of both chains and (code, codespace, gas used, digest of data / events / log)
//     of every DeliverTx. Oracle: the two streams are identical.

import (
	"bufio"
	"bytes"
	crand "crypto/rand"
	"crypto/sha256"
	"encoding/binary"
	"encoding/hex"
	"encoding/json"
	"fmt"
	"math/big"
	"os"
	"os/exec"
	"path/filepath"
	"regexp"
	"runtime/debug"
	"sort"
	"strconv"
	"strings"
	"sync"
	"testing"
	"time"

	abcicli "github.com/tendermint/tendermint/abci/client"
	abci "github.com/tendermint/tendermint/abci/types"
	dbm "github.com/tendermint/tm-db"

	"github.com/cosmos/cosmos-sdk/client"
	cryptotypes "github.com/cosmos/cosmos-sdk/crypto/types"
	sdk "github.com/cosmos/cosmos-sdk/types"
	"github.com/cosmos/cosmos-sdk/types/tx/signing"
	authsign "github.com/cosmos/cosmos-sdk/x/auth/signing"
	authtypes "github.com/cosmos/cosmos-sdk/x/auth/types"
	banktypes "github.com/cosmos/cosmos-sdk/x/bank/types"
	govtypes "github.com/cosmos/cosmos-sdk/x/gov/types"

	transfertypes "github.com/cosmos/ibc-go/v3/modules/apps/transfer/types"
	ibcclienttypes "github.com/cosmos/ibc-go/v3/modules/core/02-client/types"
	channeltypes "github.com/cosmos/ibc-go/v3/modules/core/04-channel/types"
	ibcexported "github.com/cosmos/ibc-go/v3/modules/core/exported"

	"github.com/ethereum/go-ethereum/common"
	ethtypes "github.com/ethereum/go-ethereum/core/types"
	"github.com/ethereum/go-ethereum/crypto"

	"github.com/tharsis/ethermint/server/config"
	"github.com/tharsis/ethermint/tests"
	evm "github.com/tharsis/ethermint/x/evm/types"

	"github.com/teleport-network/teleport/app"
	cmdcfg "github.com/teleport-network/teleport/cmd/config"
	"github.com/teleport-network/teleport/syscontracts"
	erc20contracts "github.com/teleport-network/teleport/syscontracts/erc20"
	stakingcontract "github.com/teleport-network/teleport/syscontracts/staking"
	endpointcontract "github.com/teleport-network/teleport/syscontracts/xibc_endpoint"
	aggregatetypes "github.com/teleport-network/teleport/x/aggregate/types"
	rvestingtypes "github.com/teleport-network/teleport/x/rvesting/types"
	xibcbsctypes "github.com/teleport-network/teleport/x/xibc/clients/light-clients/bsc/types"
	xibcethtypes "github.com/teleport-network/teleport/x/xibc/clients/light-clients/eth/types"
	tsstypes "github.com/teleport-network/teleport/x/xibc/clients/tss-client/types"
	clienttypes "github.com/teleport-network/teleport/x/xibc/core/client/types"
	"github.com/teleport-network/teleport/x/xibc/core/host"
	packettypes "github.com/teleport-network/teleport/x/xibc/core/packet/types"
	"github.com/teleport-network/teleport/x/xibc/exported"
	xibctesting "github.com/teleport-network/teleport/x/xibc/testing"
)

// ---------------------------------------------------------------------------------------------------------
// deterministic randomness for the scaffolding of the children (validator / sender keys of xibctesting)
// ---------------------------------------------------------------------------------------------------------

type c14Rand struct {
	mu   sync.Mutex
	seed [32]byte
	ctr  uint64
	buf  []byte
}

func (r *c14Rand) Read(p []byte) (int, error) {
	r.mu.Lock()
	defer r.mu.Unlock()
	if len(p) == 1 {
		// crypto/internal/randutil.MaybeReadByte reads one byte with probability 1/2 to make callers not depend
		// on the stream position; a one byte read must therefore not advance the deterministic stream
		p[0] = 0x5a
		return 1, nil
	}
	for i := range p {
		if len(r.buf) == 0 {
			var c [8]byte
			binary.BigEndian.PutUint64(c[:], r.ctr)
			r.ctr++
			h := sha256.Sum256(append(r.seed[:], c[:]...))
			r.buf = h[:]
		}
		p[i] = r.buf[0]
		r.buf = r.buf[1:]
	}
	return len(p), nil
}

// ---------------------------------------------------------------------------------------------------------
// the child: interpreter of a script over two xibctesting chains
// ---------------------------------------------------------------------------------------------------------

type c14World struct {
	t       *testing.T
	coord   *xibctesting.Coordinator
	ch      [2]*xibctesting.TestChain
	path    *xibctesting.Path
	out     *bufio.Writer
	txs     []string
	pending []c14Packet
	ethHdrs []*xibcethtypes.EthHeader
	ethNext int
	ethOn   int
	bscGen  struct {
		GenesisHeader          *xibcbsctypes.BscHeader `json:"genesis_header"`
		GenesisValidatorHeader *xibcbsctypes.BscHeader `json:"genesis_validator_header"`
	}
	bscHdrs []*xibcbsctypes.BscHeader
	bscNext int
	bscOn   int
	tssOn    int
	eth4On   int
	eth4Head xibcethtypes.Header
	twin     string // "a" / "b": which of the two twins this process is (asymmetric `discard` ops)
	t0       uint64 // wall-clock anchor of the run (VERIF_C14_T0), the same for both twins
	bias     int64  // seconds relative to T0 at which this twin delivers `ethnow`
	erc20   [2]common.Address
	propID  [2]uint64
	repo    string
}

type c14Packet struct {
	src    int
	packet packettypes.Packet
	bz     []byte
}

func c14Digest(b []byte) string {
	if len(b) == 0 {
		return "-"
	}
	h := sha256.Sum256(b)
	return hex.EncodeToString(h[:8])
}

// canonical digest of an event list: order of events and attributes preserved (it is part of the result)
func c14Events(evs []abci.Event) string {
	var sb bytes.Buffer
	for _, e := range evs {
		sb.WriteString(e.Type)
		sb.WriteByte(0)
		for _, a := range e.Attributes {
			sb.Write(a.Key)
			sb.WriteByte(1)
			sb.Write(a.Value)
			sb.WriteByte(2)
		}
		sb.WriteByte(3)
	}
	// second digest: insensitive to the order of attributes inside an event (classification of a divergence only)
	var sb2 bytes.Buffer
	for _, e := range evs {
		sb2.WriteString(e.Type)
		sb2.WriteByte(0)
		var as []string
		for _, a := range e.Attributes {
			as = append(as, string(a.Key)+"\x01"+string(a.Value))
		}
		sort.Strings(as)
		sb2.WriteString(strings.Join(as, "\x02"))
		sb2.WriteByte(3)
	}
	return strconv.Itoa(len(evs)) + ":" + c14Digest(sb.Bytes()) + ":" + c14Digest(sb2.Bytes())
}

func (w *c14World) recTx(kind string, res abci.ResponseDeliverTx) {
	if os.Getenv("VERIF_C14_DEBUG") != "" && res.Code != 0 {
		fmt.Fprintf(os.Stderr, "C14DEBUG %s code=%d log=%s\n", kind, res.Code, res.Log)
	}
	w.txs = append(w.txs, fmt.Sprintf("%s:c%d:%s:g%d:d%s:e%s:l%s", kind, res.Code, res.Codespace+"-", res.GasUsed, c14Digest(res.Data), c14Events(res.Events), c14Digest([]byte(res.Log))))
}

func (w *c14World) note(s string) { w.txs = append(w.txs, s) }

// c14GenTx is simapp/helpers.GenTx without the time-seeded random memo.
func c14GenTx(gen client.TxConfig, msgs []sdk.Msg, gas uint64, chainID string, accNum, accSeq uint64, priv cryptotypes.PrivKey) (sdk.Tx, error) {
	signMode := gen.SignModeHandler().DefaultMode()
	sig := signing.SignatureV2{PubKey: priv.PubKey(), Data: &signing.SingleSignatureData{SignMode: signMode}, Sequence: accSeq}
	tx := gen.NewTxBuilder()
	if err := tx.SetMsgs(msgs...); err != nil {
		return nil, err
	}
	if err := tx.SetSignatures(sig); err != nil {
		return nil, err
	}
	tx.SetMemo("c14")
	tx.SetFeeAmount(sdk.Coins{sdk.NewInt64Coin(sdk.DefaultBondDenom, 0)})
	tx.SetGasLimit(gas)
	signBytes, err := gen.SignModeHandler().GetSignBytes(signMode, authsign.SignerData{ChainID: chainID, AccountNumber: accNum, Sequence: accSeq}, tx.GetTx())
	if err != nil {
		return nil, err
	}
	s, err := priv.Sign(signBytes)
	if err != nil {
		return nil, err
	}
	sig.Data.(*signing.SingleSignatureData).Signature = s
	if err := tx.SetSignatures(sig); err != nil {
		return nil, err
	}
	return tx.GetTx(), nil
}

// c14Deep puts n extra frames on the call stack before running f.
//
//go:noinline
func c14Deep(n int, f func()) {
	if n <= 0 {
		f()
		return
	}
	c14Deep(n-1, f)
}

// c14DeliverVia reaches DeliverTx the way a node does when Tendermint runs in process: through the ABCI local client,
// below a few extra frames. A result that captures the call stack (a `%+v` of a wrapped error, runtime.Callers) differs
// from the one of a direct call.
func c14DeliverVia(a *app.Teleport, req abci.RequestDeliverTx) (res abci.ResponseDeliverTx) {
	c14Deep(7, func() {
		cl := abcicli.NewLocalClient(nil, a)
		if r, err := cl.DeliverTxSync(req); err == nil && r != nil {
			res = *r
		} else {
			res = a.BaseApp.DeliverTx(req)
		}
	})
	return res
}

func c14EndBlockVia(a *app.Teleport, req abci.RequestEndBlock) (res abci.ResponseEndBlock) {
	c14Deep(5, func() {
		cl := abcicli.NewLocalClient(nil, a)
		if r, err := cl.EndBlockSync(req); err == nil && r != nil {
			res = *r
		} else {
			res = a.EndBlock(req)
		}
	})
	return res
}

// twin a calls the application directly, twin b through the ABCI local client and a deeper stack
func (w *c14World) deliverTx(a *app.Teleport, req abci.RequestDeliverTx) abci.ResponseDeliverTx {
	if w.twin == "b" {
		return c14DeliverVia(a, req)
	}
	return a.BaseApp.DeliverTx(req)
}

func (w *c14World) endBlock(a *app.Teleport, req abci.RequestEndBlock) abci.ResponseEndBlock {
	if w.twin == "b" {
		return c14EndBlockVia(a, req)
	}
	return a.EndBlock(req)
}

// finish ends the current block of a chain (EndBlock + Commit) and opens the next one.
func (w *c14World) finish(c *xibctesting.TestChain) {
	w.endBlock(c.App, abci.RequestEndBlock{Height: c.CurrentHeader.Height})
	c.App.Commit()
	c.NextBlock()
	w.coord.IncrementTime()
}

// deliver sends one signed transaction through the real ABCI DeliverTx in a block of its own.
func (w *c14World) deliver(kind string, c *xibctesting.TestChain, msgs ...sdk.Msg) abci.ResponseDeliverTx {
	w.coord.UpdateTimeForChain(c) // BeginBlock with the coordinator's time
	acc := c.App.AccountKeeper.GetAccount(c.GetContext(), c.SenderAcc)
	tx, err := c14GenTx(c.TxConfig, msgs, 20000000, c.ChainID, acc.GetAccountNumber(), acc.GetSequence(), c.SenderPrivKey)
	if err != nil {
		w.note(kind + ":gentx-error")
		w.finish(c)
		return abci.ResponseDeliverTx{Code: 1}
	}
	bz, err := c.TxConfig.TxEncoder()(tx)
	if err != nil {
		w.note(kind + ":encode-error")
		w.finish(c)
		return abci.ResponseDeliverTx{Code: 1}
	}
	res := w.deliverTx(c.App, abci.RequestDeliverTx{Tx: bz})
	w.recTx(kind, res)
	w.finish(c)
	return res
}

// evmDeliver sends an EVM transaction of the chain's sender through the real ABCI DeliverTx: ethermint ante handler
// (signature, nonce, fee deduction against the feemarket base fee), state transition, hooks, refund. The sender was
// funded at start (see c14Child). The keeper-level path evmCall stays for the ops with suffix "k".
func (w *c14World) evmDeliver(kind string, c *xibctesting.TestChain, to common.Address, amount *big.Int, data []byte) ([]abci.Event, bool) {
	w.coord.UpdateTimeForChain(c)
	ctx := c.GetContext()
	chainID := c.App.EvmKeeper.ChainID()
	nonce := c.App.EvmKeeper.GetNonce(ctx, c.SenderAddress)
	feeCap := big.NewInt(2_000_000_000)
	if bf := c.App.FeeMarketKeeper.GetBaseFee(ctx); bf != nil {
		feeCap = new(big.Int).Mul(bf, big.NewInt(2))
	}
	tx := evm.NewTx(chainID, nonce, &to, amount, 3_000_000, nil, feeCap, big.NewInt(1), data, &ethtypes.AccessList{})
	tx.From = c.SenderAddress.Hex()
	if err := tx.Sign(ethtypes.LatestSignerForChainID(chainID), tests.NewSigner(c.SenderPrivKey)); err != nil {
		w.note(kind + ":sign-error")
		w.finish(c)
		return nil, false
	}
	sdkTx, err := tx.BuildTx(c.TxConfig.NewTxBuilder(), sdk.DefaultBondDenom)
	if err != nil {
		w.note(kind + ":build-error")
		w.finish(c)
		return nil, false
	}
	bz, err := c.TxConfig.TxEncoder()(sdkTx)
	if err != nil {
		w.note(kind + ":encode-error")
		w.finish(c)
		return nil, false
	}
	res := w.deliverTx(c.App, abci.RequestDeliverTx{Tx: bz})
	w.recTx(kind, res)
	w.finish(c)
	return res.Events, res.Code == 0
}

// evmCall executes an EVM transaction of the chain's sender through EvmKeeper.EthereumTx in the current block
// (the path x/xibc/integration_test.go uses; all EVM hooks — xibc packet, aggregate, adapters — run) and records
// hash, gas, VM error, logs and the emitted sdk events.
func (w *c14World) evmCall(kind string, c *xibctesting.TestChain, to common.Address, amount *big.Int, data []byte) ([]abci.Event, bool) {
	w.coord.UpdateTimeForChain(c)
	ctx := c.GetContext()
	chainID := c.App.EvmKeeper.ChainID()
	nonce := c.App.EvmKeeper.GetNonce(ctx, c.SenderAddress)
	tx := evm.NewTx(chainID, nonce, &to, amount, config.DefaultGasCap, big.NewInt(0), big.NewInt(0), big.NewInt(0), data, &ethtypes.AccessList{})
	tx.From = c.SenderAddress.Hex()
	if err := tx.Sign(ethtypes.LatestSignerForChainID(chainID), tests.NewSigner(c.SenderPrivKey)); err != nil {
		w.note(kind + ":sign-error")
		return nil, false
	}
	var rsp *evm.MsgEthereumTxResponse
	var err error
	pan, _ := safely(func() { rsp, err = c.App.EvmKeeper.EthereumTx(sdk.WrapSDKContext(ctx), tx) })
	evs := ctx.EventManager().ABCIEvents()
	ok := false
	switch {
	case pan:
		w.note(kind + ":panic")
	case err != nil:
		w.note(kind + ":err:l" + c14Digest([]byte(err.Error())) + ":e" + c14Events(evs))
	default:
		var lb bytes.Buffer
		for _, l := range rsp.Logs {
			lb.WriteString(l.Address)
			for _, tp := range l.Topics {
				lb.WriteString(tp)
			}
			lb.Write(l.Data)
		}
		ok = rsp.VmError == ""
		w.note(fmt.Sprintf("%s:h%s:g%d:vm%s:logs%d:%s:r%s:e%s", kind, c14Digest([]byte(rsp.Hash)), rsp.GasUsed, c14Digest([]byte(rsp.VmError)), len(rsp.Logs), c14Digest(lb.Bytes()), c14Digest(rsp.Ret), c14Events(evs)))
	}
	w.finish(c)
	return evs, ok
}

func (w *c14World) tmUpdate(i int) bool {
	c, cp := w.ch[i], w.ch[1-i]
	// the counterparty needs a committed header newer than the client's latest height
	w.coord.UpdateTimeForChain(cp)
	w.finish(cp)
	var hdr exported.Header
	var err error
	pan, _ := safely(func() { hdr, err = c.ConstructUpdateTMClientHeader(cp, cp.ChainID) })
	if pan || err != nil {
		w.note("tmupd:no-header")
		return false
	}
	msg, err := clienttypes.NewMsgUpdateClient(cp.ChainID, hdr, c.SenderAcc)
	if err != nil {
		w.note("tmupd:pack-error")
		return false
	}
	res := w.deliver("tmupd", c, msg)
	return res.Code == 0
}

// c14Relayers registers the chain's sender as relayer of every foreign client the scripts may create (+ the counterparty)
func (w *c14World) c14Relayers(ctx sdk.Context, i int) {
	c := w.ch[i]
	chains := []string{"eth", "bsc", "tss", "eth4"}
	addrs := []string{c.SenderAcc.String(), c.SenderAcc.String(), c.SenderAcc.String(), c.SenderAcc.String()}
	if w.path != nil {
		chains = append(chains, w.ch[1-i].ChainID)
		addrs = append(addrs, w.ch[1-i].SenderAcc.String())
	}
	c.App.XIBCKeeper.ClientKeeper.RegisterRelayers(ctx, c.SenderAcc.String(), chains, addrs)
}

func c14TypedEvent(evs []abci.Event, name string, f func(m interface{}) bool) {
	for _, e := range evs {
		if e.Type != name {
			continue
		}
		m, err := sdk.ParseTypedEvent(e)
		if err != nil {
			continue
		}
		if f(m) {
			return
		}
	}
}

func (w *c14World) step(line string) {
	f := strings.Fields(line)
	argi := func(i int) int64 {
		if i < len(f) {
			n, _ := strconv.ParseInt(f[i], 10, 64)
			return n
		}
		return 0
	}
	ci := func(i int) int { return int(argi(i)) & 1 }
	switch f[0] {
	case "warp": // jump the coordinator clock (both chains get a block at the new time)
		w.coord.IncrementTimeBy(time.Duration(argi(1)) * time.Second)
		for _, c := range w.ch {
			w.coord.UpdateTimeForChain(c)
			w.finish(c)
		}
	case "commit":
		c := w.ch[ci(1)]
		for n := int(argi(2)); n > 0; n-- {
			w.coord.UpdateTimeForChain(c)
			w.finish(c)
		}
	case "clients": // Tendermint light clients in both directions + relayer registration (xibctesting path setup)
		if w.path != nil {
			w.note("clients:already")
			break
		}
		w.path = xibctesting.NewPath(w.ch[0], w.ch[1])
		w.coord.SetupClients(w.path)
		for _, c := range w.ch {
			w.coord.UpdateTimeForChain(c)
			w.finish(c)
		}
	case "bank":
		c := w.ch[ci(1)]
		to := sdk.AccAddress(crypto.Keccak256([]byte("c14-recipient-" + f[2]))[:20])
		k := int(argi(4))
		if k < 1 {
			k = 1
		}
		var msgs []sdk.Msg
		for j := 0; j < k; j++ {
			msgs = append(msgs, banktypes.NewMsgSend(c.SenderAcc, to, sdk.NewCoins(sdk.NewInt64Coin(sdk.DefaultBondDenom, argi(3)+int64(j)))))
		}
		w.deliver("bank", c, msgs...)
	case "tmupd":
		if w.path == nil {
			w.note("tmupd:no-clients")
			break
		}
		w.tmUpdate(ci(1))
	case "ethnew": // ETH (PoW main-net) light client created on a chain; sender registered as its relayer
		i := ci(1)
		c := w.ch[i]
		if len(w.ethHdrs) == 0 || w.ethOn >= 0 {
			w.note("ethnew:skipped")
			break
		}
		h := w.ethHdrs[0]
		height := clienttypes.NewHeight(0, h.Number.Uint64())
		cs := &xibcethtypes.ClientState{Header: h.ToHeader(), ChainId: 1, ContractAddress: []byte("0x00"), TrustingPeriod: 999999999, TimeDelay: 0, BlockDelay: 1}
		cons := &xibcethtypes.ConsensusState{Timestamp: h.Time, Height: height, Root: h.Root[:]}
		w.coord.UpdateTimeForChain(c)
		ctx := c.GetContext()
		err := c.App.XIBCKeeper.ClientKeeper.CreateClient(ctx, "eth", cs, cons)
		w.c14Relayers(ctx, i)
		w.note(fmt.Sprintf("ethnew:%v:e%s", err == nil, c14Events(ctx.EventManager().ABCIEvents())))
		w.finish(c)
		w.ethOn, w.ethNext = i, 1
	case "ethupd": // MsgUpdateClient with the next main-net header: ethash PoW verification (F8 touch point)
		if w.ethOn < 0 || w.ethNext >= len(w.ethHdrs) {
			w.note("ethupd:skipped")
			break
		}
		c := w.ch[w.ethOn]
		h := w.ethHdrs[w.ethNext].ToHeader()
		w.ethNext++
		msg, err := clienttypes.NewMsgUpdateClient("eth", &h, c.SenderAcc)
		if err != nil {
			w.note("ethupd:pack-error")
			break
		}
		w.deliver("ethupd", c, msg)
	case "bscnew": // BSC (parlia) light client from the package's testdata; relayers re-registered including "bsc"
		i := ci(1)
		c := w.ch[i]
		if w.bscGen.GenesisHeader == nil || w.bscGen.GenesisValidatorHeader == nil || w.bscOn >= 0 {
			w.note("bscnew:skipped")
			break
		}
		h := w.bscGen.GenesisHeader
		vals, err := xibcbsctypes.ParseValidators(w.bscGen.GenesisValidatorHeader.Extra)
		if err != nil {
			w.note("bscnew:validators-error")
			break
		}
		cs := &xibcbsctypes.ClientState{Header: h.ToHeader(), ChainId: 56, Epoch: 200, BlockInteval: 3, Validators: vals, ContractAddress: []byte("0x00"), TrustingPeriod: 999999999}
		cons := &xibcbsctypes.ConsensusState{Timestamp: h.Time, Height: clienttypes.NewHeight(0, h.Number.Uint64()), Root: h.Root[:]}
		w.coord.UpdateTimeForChain(c)
		ctx := c.GetContext()
		var e1 error
		pan, _ := safely(func() { e1 = c.App.XIBCKeeper.ClientKeeper.CreateClient(ctx, "bsc", cs, cons) })
		w.c14Relayers(ctx, i)
		w.note(fmt.Sprintf("bscnew:%v:%v:e%s", pan, e1 == nil, c14Events(ctx.EventManager().ABCIEvents())))
		w.finish(c)
		w.bscOn = i
	case "bscupd": // k consecutive BSC headers, one MsgUpdateClient each, in one transaction (snapshot: validators map, recents map)
		if w.bscOn < 0 {
			w.note("bscupd:skipped")
			break
		}
		c := w.ch[w.bscOn]
		var msgs []sdk.Msg
		for k := int(argi(1)); k > 0 && w.bscNext < len(w.bscHdrs); k-- {
			h := w.bscHdrs[w.bscNext].ToHeader()
			w.bscNext++
			if msg, err := clienttypes.NewMsgUpdateClient("bsc", &h, c.SenderAcc); err == nil {
				msgs = append(msgs, msg)
			}
		}
		if len(msgs) == 0 {
			w.note("bscupd:exhausted")
			break
		}
		w.deliver("bscupd", c, msgs...)
	case "discard": // ASYMMETRIC: only the named twin runs an execution that is thrown away (cache context dropped, as
		// CheckTx / Simulate / a rolled-back transaction would): both twins keep the same committed state but have
		// different process histories. Nothing of the execution is printed; the op line is identical in both twins.
		w.note("discard:" + f[2])
		if f[1] != w.twin {
			break
		}
		_, _ = safely(func() {
			switch f[2] {
			case "render": // this process renders 60001 throw-away addresses: cosmos-sdk's process-global bech32 LRU (60000
				// entries, keyed by the raw bytes only) forgets everything it held before
				for i := 0; i < 60001; i++ {
					_ = sdk.AccAddress(crypto.Keccak256([]byte(fmt.Sprintf("c14-throwaway-%d", i)))[:20]).String()
				}
			case "bscnext": // the next genuine BSC header is verified on a dropped context (fills any verification cache)
				if w.bscOn < 0 || w.bscNext >= len(w.bscHdrs) {
					return
				}
				c := w.ch[w.bscOn]
				h := w.bscHdrs[w.bscNext].ToHeader()
				cctx, _ := c.GetContext().CacheContext()
				_ = c.App.XIBCKeeper.ClientKeeper.UpdateClient(cctx, "bsc", &h)
			case "eth4": // the next header of the chain-id-4 ETH client verified on a dropped context (difficulty calculator at its
				// floor after the bomb delay, base-fee calculator: go-ethereum's shared *big.Int constants are in reach)
				if w.eth4On < 0 {
					return
				}
				c := w.ch[w.eth4On]
				h := c14EthHeader(&w.eth4Head, w.eth4Head.Time+12)
				cctx, _ := c.GetContext().CacheContext()
				_ = c.App.XIBCKeeper.ClientKeeper.UpdateClient(cctx, "eth4", &h)
			case "tmupd": // a Tendermint client update on a dropped context
				if w.path == nil {
					return
				}
				i := ci(3)
				c, cp := w.ch[i], w.ch[1-i]
				if hdr, err := c.ConstructUpdateTMClientHeader(cp, cp.ChainID); err == nil {
					cctx, _ := c.GetContext().CacheContext()
					_ = c.App.XIBCKeeper.ClientKeeper.UpdateClient(cctx, cp.ChainID, hdr)
				}
			}
		})
	case "modsend": // a bank send to every module account of the application: all of them are blocked recipients on every node
		c := w.ch[ci(1)]
		var names []string
		for n := range app.GetMaccPerms() {
			if n == "distribution" {
				continue // the only module account that may receive funds (a direct send would break the distribution invariant)
			}
			names = append(names, n)
		}
		sort.Strings(names)
		for _, n := range names {
			w.deliver("modsend", c, banktypes.NewMsgSend(c.SenderAcc, authtypes.NewModuleAddress(n), sdk.NewCoins(sdk.NewInt64Coin(sdk.DefaultBondDenom, 3))))
		}
	case "bscforged": // the next BSC header with its seal replaced by a signature of a stranger: same seal hash, other signer.
		// Rejected (coinbase mismatch) by every node — unless a node remembers the signer it recovered for that seal hash.
		if w.bscOn < 0 || w.bscNext >= len(w.bscHdrs) {
			w.note("bscforged:skipped")
			break
		}
		c := w.ch[w.bscOn]
		h := w.bscHdrs[w.bscNext].ToHeader()
		h.Extra = append([]byte{}, h.Extra...)
		key, _ := crypto.ToECDSA(crypto.Keccak256([]byte("c14-forger")))
		if sig, err := crypto.Sign(c14BscSealHash(&h, 56).Bytes(), key); err == nil && len(h.Extra) >= 65 {
			copy(h.Extra[len(h.Extra)-65:], sig)
		}
		msg, err := clienttypes.NewMsgUpdateClient("bsc", &h, c.SenderAcc)
		if err != nil {
			w.note("bscforged:pack-error")
			break
		}
		w.deliver("bscforged", c, msg)
	case "tssnew": // TSS client (no consensus heights): created on chain 0's side of the script, sender = relayer
		i := ci(1)
		c := w.ch[i]
		if w.tssOn >= 0 {
			w.note("tssnew:skipped")
			break
		}
		w.coord.UpdateTimeForChain(c)
		ctx := c.GetContext()
		cs := &tsstypes.ClientState{TssAddress: c.SenderAcc.String(), Pubkey: crypto.Keccak256([]byte("c14-tss-pub")), PartPubkeys: [][]byte{{1}, {2}, {3}}, Threshold: 2}
		var e1 error
		pan, _ := safely(func() { e1 = c.App.XIBCKeeper.ClientKeeper.CreateClient(ctx, "tss", cs, &tsstypes.ConsensusState{}) })
		w.c14Relayers(ctx, i)
		w.note(fmt.Sprintf("tssnew:%v:%v:e%s", pan, e1 == nil, c14Events(ctx.EventManager().ABCIEvents())))
		w.finish(c)
		w.tssOn = i
	case "tssupd": // MsgUpdateClient with a TSS header (new key set)
		if w.tssOn < 0 {
			w.note("tssupd:skipped")
			break
		}
		c := w.ch[w.tssOn]
		n := argi(1)
		parts := [][]byte{}
		for j := int64(0); j <= n%4; j++ {
			parts = append(parts, crypto.Keccak256([]byte(fmt.Sprintf("c14-tss-part-%d-%d", n, j))))
		}
		tssAddr := c.SenderAcc.String()
		if n%7 == 6 {
			tssAddr = sdk.AccAddress(crypto.Keccak256([]byte("c14-tss-" + f[1]))[:20]).String() // hands the client over: later updates by the sender are refused
		}
		h := &tsstypes.Header{TssAddress: tssAddr, Pubkey: crypto.Keccak256([]byte("c14-tss-pub-" + f[1])), PartPubkeys: parts, Threshold: uint64(1 + n%3)}
		msg, err := clienttypes.NewMsgUpdateClient("tss", h, c.SenderAcc)
		if err != nil {
			w.note("tssupd:pack-error")
			break
		}
		w.deliver("tssupd", c, msg)
	case "eth4new": // ETH client of chain id 4 (no PoW); `ethnow` dates a header relative to the run's T0 (wall clock)
		i := ci(1)
		c := w.ch[i]
		if w.eth4On >= 0 || w.t0 == 0 {
			w.note("eth4new:skipped")
			break
		}
		g := c14EthGenesis(1632440000) // before the block time of the scripts (2021-09-24): `ethold` headers pass the time checks
		w.eth4Head = g
		w.coord.UpdateTimeForChain(c)
		ctx := c.GetContext()
		cs := &xibcethtypes.ClientState{Header: g, ChainId: 4, ContractAddress: []byte("0x00"), TrustingPeriod: 1 << 40, TimeDelay: 0, BlockDelay: 1}
		var e1 error
		pan, _ := safely(func() {
			e1 = c.App.XIBCKeeper.ClientKeeper.CreateClient(ctx, "eth4", cs, &xibcethtypes.ConsensusState{Timestamp: g.Time, Height: g.Height, Root: g.Root})
		})
		w.c14Relayers(ctx, i)
		w.note(fmt.Sprintf("eth4new:%v:%v", pan, e1 == nil))
		w.finish(c)
		w.eth4On = i
	case "ethnow": // header dated T0+15+k: the twins deliver it at wall-clock times T0-2 and T0+2 — a time.Now() in the
		// future-block check accepts it in one twin only; the block time (2021) rejects it in both
		if w.eth4On < 0 {
			w.note("ethnow:skipped")
			break
		}
		c := w.ch[w.eth4On]
		target := time.Unix(int64(w.t0)+w.bias, 0)
		if d := time.Until(target); d > 0 && d < 60*time.Second {
			time.Sleep(d)
		}
		if time.Now().Unix() < int64(w.t0) {
			w.note("wall=early") // informational, stripped by the parent before the comparison
		} else {
			w.note("wall=late")
		}
		h := c14EthHeader(&w.eth4Head, w.t0+15+uint64(argi(1)))
		msg, err := clienttypes.NewMsgUpdateClient("eth4", &h, c.SenderAcc)
		if err != nil {
			w.note("ethnow:pack-error")
			break
		}
		w.deliver("ethnow", c, msg)
	case "ethold": // a header of the eth4 client dated in the past of the block time: accepted by the time checks
		if w.eth4On < 0 {
			w.note("ethold:skipped")
			break
		}
		c := w.ch[w.eth4On]
		h := c14EthHeader(&w.eth4Head, w.eth4Head.Time+12)
		msg, err := clienttypes.NewMsgUpdateClient("eth4", &h, c.SenderAcc)
		if err != nil {
			w.note("ethold:pack-error")
			break
		}
		if res := w.deliver("ethold", c, msg); res.Code == 0 {
			w.eth4Head = h
		}
	case "converterc": // MsgConvertERC20: the ERC20 representation of a registered coin back into the coin
		c := w.ch[ci(1)]
		denom := "c14coin" + f[2]
		ctx := c.GetContext()
		id := c.App.AggregateKeeper.GetTokenPairID(ctx, denom)
		pair, found := c.App.AggregateKeeper.GetTokenPair(ctx, id)
		if !found {
			w.note("converterc:no-pair")
			w.coord.UpdateTimeForChain(c)
			w.finish(c)
			break
		}
		w.deliver("converterc", c, aggregatetypes.NewMsgConvertERC20(sdk.NewInt(argi(3)), c.SenderAcc, common.HexToAddress(pair.ERC20Address), c.SenderAddress, denom))
	case "ics20": // ICS-20 receive through the aggregate middleware hook: voucher of a registered coin converted for the receiver
		c := w.ch[ci(1)]
		w.coord.UpdateTimeForChain(c)
		ctx := c.GetContext()
		denom := "transfer/channel-0/c14coin" + f[2]
		if argi(3)%5 == 0 {
			denom = "c14coin" + f[2] // receiver chain is not the source: ibc/ voucher, not registered
		}
		data := transfertypes.NewFungibleTokenPacketData(denom, strconv.FormatInt(argi(3), 10), "cosmos1sender", c.SenderAcc.String())
		packet := channeltypes.NewPacket(data.GetBytes(), uint64(1+argi(3)), "transfer", "channel-0", "transfer", "channel-1", ibcclienttypes.NewHeight(0, 1000), 0)
		ackIn := channeltypes.NewResultAcknowledgement([]byte{1})
		var ackOut ibcexported.Acknowledgement
		pan, _ := safely(func() { ackOut = c.App.AggregateKeeper.OnRecvPacket(ctx, packet, ackIn) })
		ab := []byte{}
		if ackOut != nil {
			ab = ackOut.Acknowledgement()
		}
		w.note(fmt.Sprintf("ics20:%v:a%s:e%s", pan, c14Digest(ab), c14Events(ctx.EventManager().ABCIEvents())))
		w.finish(c)
	case "erc20": // deploy an ERC20 on the chain and bind it as the image of the counterparty's base token
		i := ci(1)
		c, cp := w.ch[i], w.ch[1-i]
		w.coord.UpdateTimeForChain(c)
		ctx := c.GetContext()
		ctor, _ := erc20contracts.ERC20MinterBurnerDecimalsContract.ABI.Pack("", "name", "symbol", uint8(18))
		data := append(append([]byte{}, erc20contracts.ERC20MinterBurnerDecimalsContract.Bin...), ctor...)
		nonce := c.App.EvmKeeper.GetNonce(ctx, endpointcontract.EndpointContractAddress)
		addr := crypto.CreateAddress(endpointcontract.EndpointContractAddress, nonce)
		var e1, e2 error
		pan, _ := safely(func() {
			_, e1 = c.App.AggregateKeeper.CallEVMWithData(ctx, endpointcontract.EndpointContractAddress, nil, data)
			if e1 == nil {
				e2 = c.App.AggregateKeeper.RegisterERC20Trace(ctx, addr, strings.ToLower(common.Address{}.String()), cp.ChainID, uint8(0))
			}
		})
		w.erc20[i] = addr
		w.note(fmt.Sprintf("erc20:%v:%v:%v:%s:e%s", pan, e1 == nil, e2 == nil, c14Digest(addr.Bytes()), c14Events(ctx.EventManager().ABCIEvents())))
		w.finish(c)
	case "xsend", "xsendk": // cross chain call (base token transfer) through the endpoint system contract
		i := ci(1)
		c, cp := w.ch[i], w.ch[1-i]
		zero := common.Address{}
		d := packettypes.CrossChainData{DstChain: cp.ChainID, TokenAddress: zero, Receiver: strings.ToLower(cp.SenderAddress.String()),
			Amount: big.NewInt(argi(2)), ContractAddress: "", CallData: []byte(""), CallbackAddress: zero, FeeOption: 0}
		fee := packettypes.Fee{TokenAddress: zero, Amount: big.NewInt(argi(3))}
		data, err := endpointcontract.EndpointContract.ABI.Pack("crossChainCall", d, fee)
		if err != nil {
			w.note("xsend:pack-error")
			break
		}
		var evs []abci.Event
		if f[0] == "xsendk" {
			evs, _ = w.evmCall("xsend", c, endpointcontract.EndpointContractAddress, big.NewInt(argi(2)+argi(3)), data)
		} else {
			evs, _ = w.evmDeliver("xsend", c, endpointcontract.EndpointContractAddress, big.NewInt(argi(2)+argi(3)), data)
		}
		c14TypedEvent(evs, "xibc.core.packet.v1.EventSendPacket", func(m interface{}) bool {
			ev, ok := m.(*packettypes.EventSendPacket)
			if !ok {
				return false
			}
			var p packettypes.Packet
			if err := p.ABIDecode(ev.Packet); err != nil {
				return false
			}
			w.pending = append(w.pending, c14Packet{src: i, packet: p, bz: ev.Packet})
			return true
		})
	case "xbad": // a packet committed on the source chain by the keeper (as xibctesting's Endpoint.SendPacket does) whose receive
		// callback FAILS on the destination: the error paths write acknowledgement bytes, events and state
		i := ci(1)
		c, cp := w.ch[i], w.ch[1-i]
		if w.path == nil {
			w.note("xbad:no-clients")
			break
		}
		w.coord.UpdateTimeForChain(c)
		ctx := c.GetContext()
		seq := c.App.XIBCKeeper.PacketKeeper.GetNextSequenceSend(ctx, c.ChainID, cp.ChainID)
		pk := packettypes.Packet{SrcChain: c.ChainID, DstChain: cp.ChainID, Sequence: seq, Sender: strings.ToLower(c.SenderAddress.String()),
			CallbackAddress: common.Address{}.String(), FeeOption: 0}
		junk := crypto.Keccak256([]byte("c14-junk-" + f[2]))
		switch argi(2) % 4 {
		case 0: // transfer data the packet contract cannot ABI-decode
			pk.TransferData = junk
		case 1: // call data the packet contract cannot ABI-decode
			pk.CallData = append(junk, junk...)
		case 2: // well-formed transfer of a token that is not bound on the destination: the callback returns a non-zero code
			td := packettypes.TransferData{Receiver: strings.ToLower(cp.SenderAddress.String()), Amount: big.NewInt(7).FillBytes(make([]byte, 32)), Token: "0x00000000000000000000000000000000000000aa", OriToken: ""}
			pk.TransferData, _ = td.ABIPack()
		default: // well-formed call of a contract that does not exist
			cd := packettypes.CallData{ContractAddress: "0x00000000000000000000000000000000000000bb", CallData: junk}
			pk.CallData, _ = cd.ABIPack()
		}
		var e1 error
		pan, _ := safely(func() { e1 = c.App.XIBCKeeper.PacketKeeper.SendPacket(ctx, &pk) })
		w.note(fmt.Sprintf("xbad:%v:%v:e%s", pan, e1 == nil, c14Events(ctx.EventManager().ABCIEvents())))
		w.finish(c)
		if !pan && e1 == nil {
			if bz, err := pk.ABIPack(); err == nil {
				w.pending = append(w.pending, c14Packet{src: i, packet: pk, bz: bz})
			}
		}
	case "relay": // update client on dst, MsgRecvPacket with proof, update client on src, MsgAcknowledgement with proof
		if len(w.pending) == 0 || w.path == nil {
			w.note("relay:nothing")
			break
		}
		p := w.pending[0]
		w.pending = w.pending[1:]
		src, dst := w.ch[p.src], w.ch[1-p.src]
		if !w.tmUpdate(1 - p.src) {
			break
		}
		key := host.PacketCommitmentKey(p.packet.GetSrcChain(), p.packet.GetDstChain(), p.packet.GetSequence())
		proof, ph := src.QueryProof(key)
		res := w.deliver("recv", dst, packettypes.NewMsgRecvPacket(p.bz, proof, ph, dst.SenderAcc))
		var ack []byte
		c14TypedEvent(res.Events, "xibc.core.packet.v1.EventWriteAck", func(m interface{}) bool {
			if ev, ok := m.(*packettypes.EventWriteAck); ok {
				ack = ev.Ack
				return true
			}
			return false
		})
		if res.Code != 0 || ack == nil {
			w.note("relay:no-ack")
			break
		}
		if !w.tmUpdate(p.src) {
			break
		}
		akey := host.PacketAcknowledgementKey(p.packet.GetSrcChain(), p.packet.GetDstChain(), p.packet.GetSequence())
		aproof, aph := dst.QueryProof(akey)
		w.deliver("ack", src, packettypes.NewMsgAcknowledgement(p.bz, ack, aproof, aph, src.SenderAcc))
	case "prop": // governance proposal: submit with deposit + vote yes (two transactions)
		i := ci(1)
		c := w.ch[i]
		var content govtypes.Content
		switch f[2] {
		case "coin":
			denom := "c14coin" + f[3]
			{ // the denomination needs a supply: minted to the sender (out of band, like a genesis allocation)
				w.coord.UpdateTimeForChain(c)
				ctx := c.GetContext()
				coins := sdk.NewCoins(sdk.NewInt64Coin(denom, 1000000))
				if err := c.App.BankKeeper.MintCoins(ctx, "aggregate", coins); err == nil {
					_ = c.App.BankKeeper.SendCoinsFromModuleToAccount(ctx, "aggregate", c.SenderAcc, coins)
				}
				w.finish(c)
			}
			content = aggregatetypes.NewRegisterCoinProposal("t", "d", banktypes.Metadata{Description: "c14", Base: denom, Display: denom, Name: denom, Symbol: "C" + f[3],
				DenomUnits: []*banktypes.DenomUnit{{Denom: denom, Exponent: 0}}})
		case "relayer":
			content = clienttypes.NewRegisterRelayerProposal("t", "d", c.SenderAcc.String(), []string{w.ch[1-i].ChainID, "eth", "bsc", "tss", "eth4", "chain" + f[3]},
				[]string{w.ch[1-i].SenderAcc.String(), c.SenderAcc.String(), c.SenderAcc.String(), c.SenderAcc.String(), c.SenderAcc.String(), "0x00" + f[3]})
		case "ethclient":
			if len(w.ethHdrs) == 0 {
				w.note("prop:skipped")
				return
			}
			h := w.ethHdrs[0]
			cs := &xibcethtypes.ClientState{Header: h.ToHeader(), ChainId: 1, ContractAddress: []byte("0x00"), TrustingPeriod: 999999999, TimeDelay: 0, BlockDelay: 1}
			cons := &xibcethtypes.ConsensusState{Timestamp: h.Time, Height: clienttypes.NewHeight(0, h.Number.Uint64()), Root: h.Root[:]}
			p, err := clienttypes.NewCreateClientProposal("t", "d", "ethp"+f[3], cs, cons)
			if err != nil {
				w.note("prop:pack-error")
				return
			}
			content = p
		case "toggle":
			content = aggregatetypes.NewToggleTokenRelayProposal("t", "d", "c14coin"+f[3])
		case "upgradec", "togglec": // client upgrade (same type, newer header) / toggle (eth client replaced by a tss client)
			if len(w.ethHdrs) < 2 {
				w.note("prop:skipped")
				return
			}
			var cs exported.ClientState
			var cons exported.ConsensusState
			if f[2] == "upgradec" {
				h := w.ethHdrs[1]
				cs = &xibcethtypes.ClientState{Header: h.ToHeader(), ChainId: 1, ContractAddress: []byte("0x00"), TrustingPeriod: 999999999, TimeDelay: 0, BlockDelay: 1}
				cons = &xibcethtypes.ConsensusState{Timestamp: h.Time, Height: clienttypes.NewHeight(0, h.Number.Uint64()), Root: h.Root[:]}
			} else {
				cs = &tsstypes.ClientState{TssAddress: c.SenderAcc.String(), Pubkey: crypto.Keccak256([]byte("c14-toggle-" + f[3])), PartPubkeys: [][]byte{{7}}, Threshold: 1}
				cons = &tsstypes.ConsensusState{}
			}
			var err error
			if f[2] == "upgradec" {
				content, err = clienttypes.NewUpgradeClientProposal("t", "d", "ethp"+f[3], cs, cons)
			} else {
				content, err = clienttypes.NewToggleClientProposal("t", "d", "ethp"+f[3], cs, cons)
			}
			if err != nil {
				w.note("prop:pack-error")
				return
			}
		default:
			w.note("prop:unknown")
			return
		}
		msg, err := govtypes.NewMsgSubmitProposal(content, sdk.NewCoins(sdk.NewInt64Coin(sdk.DefaultBondDenom, 20000000)), c.SenderAcc)
		if err != nil {
			w.note("prop:msg-error")
			return
		}
		res := w.deliver("submit", c, msg)
		if res.Code != 0 {
			return
		}
		var id uint64
		for _, e := range res.Events {
			for _, a := range e.Attributes {
				if e.Type == govtypes.EventTypeSubmitProposal && string(a.Key) == govtypes.AttributeKeyProposalID {
					id, _ = strconv.ParseUint(string(a.Value), 10, 64)
				}
			}
		}
		w.propID[i] = id
		w.deliver("vote", c, govtypes.NewMsgVote(c.SenderAcc, id, govtypes.OptionYes))
	case "govwait": // pass the voting period on a chain: proposals execute inside gov.EndBlocker
		c := w.ch[ci(1)]
		vp := c.App.GovKeeper.GetVotingParams(c.GetContext()).VotingPeriod
		w.coord.IncrementTimeBy(vp + time.Second)
		for _, cc := range w.ch {
			w.coord.UpdateTimeForChain(cc)
			ctx := cc.GetContext()
			_ = ctx
			res := w.endBlock(cc.App, abci.RequestEndBlock{Height: cc.CurrentHeader.Height})
			w.note("endblock:e" + c14Events(res.Events))
			cc.App.Commit()
			cc.NextBlock()
			w.coord.IncrementTime()
		}
	case "convert":
		c := w.ch[ci(1)]
		w.deliver("convert", c, aggregatetypes.NewMsgConvertCoin(sdk.NewInt64Coin(f[2], argi(3)), c.SenderAddress, c.SenderAcc))
	case "evmpay": // plain EVM value transfer
		c := w.ch[ci(1)]
		w.evmDeliver("evmpay", c, common.BytesToAddress(crypto.Keccak256([]byte("c14-evm-"+f[2]))[:20]), big.NewInt(argi(3)), nil)
	case "evmstake", "evmstakek": // staking system contract: delegate(validator, amount) -> adapter hook -> MsgDelegate
		c := w.ch[ci(1)]
		vals := c.App.StakingKeeper.GetAllValidators(c.GetContext())
		if len(vals) == 0 {
			w.note("evmstake:no-validator")
			break
		}
		abiS, err := stakingcontract.StakingMetaData.GetAbi()
		if err != nil {
			w.note("evmstake:abi-error")
			break
		}
		data, err := abiS.Pack("delegate", vals[0].OperatorAddress, big.NewInt(argi(2)))
		if err != nil {
			w.note("evmstake:pack-error")
			break
		}
		if f[0] == "evmstakek" {
			w.evmCall("evmstake", c, common.HexToAddress(syscontracts.StakingContractAddress), big.NewInt(0), data)
		} else {
			w.evmDeliver("evmstake", c, common.HexToAddress(syscontracts.StakingContractAddress), big.NewInt(0), data)
		}
	case "rvest": // reward vesting: parameters through the real Subspace.Update validation, pool funded; BeginBlocker pays
		c := w.ch[ci(1)]
		w.coord.UpdateTimeForChain(c)
		ctx := c.GetContext()
		ss, _ := c.App.ParamsKeeper.GetSubspace(rvestingtypes.ModuleName)
		var e1, e2, e3 error
		pan, _ := safely(func() {
			e1 = ss.Update(ctx, rvestingtypes.KeyPerBlockReward, []byte(fmt.Sprintf(`[{"denom":"stake","amount":"%d"}]`, argi(2))))
			e2 = ss.Update(ctx, rvestingtypes.KeyEnableVesting, []byte("true"))
			coins := sdk.NewCoins(sdk.NewInt64Coin(sdk.DefaultBondDenom, argi(3)))
			if e3 = c.App.BankKeeper.MintCoins(ctx, "aggregate", coins); e3 == nil {
				e3 = c.App.BankKeeper.SendCoinsFromModuleToModule(ctx, "aggregate", rvestingtypes.ModuleName, coins)
			}
		})
		w.note(fmt.Sprintf("rvest:%v:%v:%v:%v", pan, e1 == nil, e2 == nil, e3 == nil))
		w.finish(c)
	default:
		w.note("unknown-op")
	}
}

func (w *c14World) emit(idx int, line string) {
	var sb strings.Builder
	fmt.Fprintf(&sb, "%d %s |", idx, strings.Fields(line)[0])
	for _, s := range w.txs {
		sb.WriteString(" " + s)
	}
	sb.WriteString(" |")
	for i, c := range w.ch {
		fmt.Fprintf(&sb, " %c:%d:%s", 'A'+i, c.App.LastBlockHeight(), hex.EncodeToString(c.App.LastCommitID().Hash))
	}
	w.out.WriteString(sb.String() + "\n")
	w.out.Flush()
	w.txs = w.txs[:0]
}

func c14Child(t *testing.T) {
	script, err := os.ReadFile(os.Getenv("VERIF_C14_SCRIPT"))
	if err != nil {
		t.Fatal(err)
	}
	of, err := os.Create(os.Getenv("VERIF_C14_OBS"))
	if err != nil {
		t.Fatal(err)
	}
	defer of.Close()
	w := &c14World{t: t, out: bufio.NewWriter(of), ethOn: -1, bscOn: -1, tssOn: -1, eth4On: -1, t0: uint64(envInt("VERIF_C14_T0", 0)), bias: envInt("VERIF_C14_BIAS", 0), twin: os.Getenv("VERIF_C14_TWIN"), repo: os.Getenv("VERIF_C14_REPO")}
	defer w.out.Flush()
	var lines []string
	for _, l := range strings.Split(string(script), "\n") {
		if strings.TrimSpace(l) != "" {
			lines = append(lines, strings.TrimSpace(l))
		}
	}
	if len(lines) == 0 || !strings.HasPrefix(lines[0], "seed ") {
		t.Fatal("script must start with `seed <hex>`")
	}
	if d := envInt("VERIF_C14_START_DELAY", 0); d > 0 {
		time.Sleep(time.Duration(d) * time.Second) // this twin lives later on the wall clock
	}
	rd := &c14Rand{seed: sha256.Sum256([]byte(lines[0]))}
	crand.Reader = rd
	if bz, err := os.ReadFile(filepath.Join(w.repo, "x/xibc/clients/light-clients/eth/types/testdata/update_headers.json")); err == nil {
		_ = json.Unmarshal(bz, &w.ethHdrs)
	}
	if bz, err := os.ReadFile(filepath.Join(w.repo, "x/xibc/clients/light-clients/bsc/types/testdata/genesis_state.json")); err == nil {
		_ = json.Unmarshal(bz, &w.bscGen)
	}
	if bz, err := os.ReadFile(filepath.Join(w.repo, "x/xibc/clients/light-clients/bsc/types/testdata/update_headers.json")); err == nil {
		_ = json.Unmarshal(bz, &w.bscHdrs)
	}
	if w.twin == "b" {
		// twin b is a node whose operator configured everything that is meant to be node-local differently
		xibctesting.DefaultTestingAppInit = func() (*app.Teleport, map[string]json.RawMessage) {
			return c14NewAppConfigured(dbm.NewMemDB()), app.NewDefaultGenesisState()
		}
	}
	w.coord = xibctesting.NewCoordinator(t, 2)
	w.ch[0] = w.coord.GetChain(xibctesting.GetChainID(0))
	w.ch[1] = w.coord.GetChain(xibctesting.GetChainID(1))
	// fund the senders for the base fee of EVM transactions sent through DeliverTx (like a larger genesis allocation)
	for _, c := range w.ch {
		w.coord.UpdateTimeForChain(c)
		ctx := c.GetContext()
		coins := sdk.NewCoins(sdk.NewCoin(sdk.DefaultBondDenom, sdk.NewIntWithDecimal(1, 30)))
		if err := c.App.BankKeeper.MintCoins(ctx, "aggregate", coins); err == nil {
			_ = c.App.BankKeeper.SendCoinsFromModuleToAccount(ctx, "aggregate", c.SenderAcc, coins)
		}
		w.finish(c)
	}
	w.note(fmt.Sprintf("tmp=%t", c14TmpUsable())) // informational, stripped by the parent before the comparison
	w.emit(0, lines[0])
	for i, l := range lines[1:] {
		pan, msg := safely(func() { w.step(l) })
		if pan {
			// a panic of the scaffolding or of code outside recovery: recorded (both twins must agree), the
			// history ends here because the block state is undefined
			if os.Getenv("VERIF_C14_DEBUG") != "" {
				fmt.Fprintln(os.Stderr, "C14DEBUG panic:", strings.Split(msg, "\n")[0])
			}
			w.note("PANIC:" + c14Digest([]byte(msg)))
			w.out.WriteString(fmt.Sprintf("%d %s | PANIC:%s |\n", i+1, strings.Fields(l)[0], c14Digest([]byte(msg))))
			w.out.Flush()
			return
		}
		w.emit(i+1, l)
	}
}

func c14TmpUsable() bool {
	d, err := os.MkdirTemp("", "c14probe")
	if err != nil {
		return false
	}
	os.RemoveAll(d)
	return true
}

// ---------------------------------------------------------------------------------------------------------
// the parent
// ---------------------------------------------------------------------------------------------------------

// c14RepoPath: the source tree this test binary was BUILT against. ./check builds with a private -modfile whose replace
// directive names the tree under check (VERIF_REPO); the tracked harness/go.mod always names /repo, so the build info of the
// binary is the authority (then the environment, then the tracked go.mod).
func c14RepoPath() string {
	if bi, ok := debug.ReadBuildInfo(); ok {
		for _, d := range bi.Deps {
			if d.Path == "github.com/teleport-network/teleport" && d.Replace != nil && d.Replace.Path != "" {
				return d.Replace.Path
			}
		}
	}
	if p := os.Getenv("VERIF_REPO"); p != "" {
		return p
	}
	if b, err := os.ReadFile(filepath.Join(verifRoot(), "harness", "go.mod")); err == nil {
		if m := regexp.MustCompile(`github.com/teleport-network/teleport => (\S+)`).FindSubmatch(b); m != nil {
			return string(m[1])
		}
	}
	return "/repo"
}

// c14Script generates one block history. Every script: seed, clock jump to the time of the main-net headers,
// then a random mix of the operations the child understands.
func c14Script(r *Rec, n int, eth int) []string {
	rng := r.Rng
	s := []string{fmt.Sprintf("seed %016x%016x", rng.Uint64(), rng.Uint64())}
	// xibctesting starts at 2020-01-02; main-net header 13286181 is from 2021-09-24 (1632455201)
	s = append(s, fmt.Sprintf("warp %d", 1632455201+600-1577923200+rng.Intn(3000)))
	s = append(s, "clients")
	// wall clock: an ETH client (chain id 4) dated relative to the run's T0; `ethnow` is delivered by twin a before and
	// by twin b after the instant at which a time.Now()-based future-block check would start to accept the header
	s = append(s, "eth4new 0", "ethold", "ethnow 0", fmt.Sprintf("discard %s eth4", []string{"a", "b"}[rng.Intn(2)]), "ethold")
	r.Count("op.ethnow")
	ethLeft := eth
	ethNew := false
	bscNew := false
	coins := [2]int{}
	ethp := [2][]int{}
	tssNew := false
	pend := 0
	erc := [2]bool{}
	for len(s) < n {
		c := rng.Intn(2)
		switch k := rng.Intn(100); {
		case k < 14:
			s = append(s, fmt.Sprintf("bank %d %d %d %d", c, rng.Intn(6), 1+rng.Intn(1000), 1+rng.Intn(3)))
			r.Count("op.bank")
		case k < 20:
			if rng.Intn(6) == 0 {
				s = append(s, fmt.Sprintf("discard %s render", []string{"a", "b"}[rng.Intn(2)]), fmt.Sprintf("modsend %d", c))
				r.Count("op.modsend")
			}
			s = append(s, fmt.Sprintf("commit %d %d", c, 1+rng.Intn(3)))
			r.Count("op.commit")
		case k < 30:
			if rng.Intn(3) == 0 {
				s = append(s, fmt.Sprintf("discard %s tmupd %d", []string{"a", "b"}[rng.Intn(2)], c))
				r.Count("op.discard-tmupd")
			}
			s = append(s, fmt.Sprintf("tmupd %d", c))
			r.Count("op.tmupd")
		case k < 36:
			if ethLeft > 0 {
				if !ethNew {
					s = append(s, "ethnew 0")
					ethNew = true
				}
				s = append(s, "ethupd")
				ethLeft--
				r.Count("op.ethupd")
			}
		case k < 39:
			if !bscNew {
				// light clients of foreign chains live on the chain that holds the ETH client (one relayer record)
				s = append(s, "bscnew 0")
				bscNew = true
			}
			s = append(s, fmt.Sprintf("bscupd %d", 1+rng.Intn(4)))
			r.Count("op.bscupd")
			if rng.Intn(2) == 0 {
				// process history differs: one twin has already verified the next header on a dropped context, then both
				// get its forged-seal copy, then the genuine one
				s = append(s, fmt.Sprintf("discard %s bscnext", []string{"a", "b"}[rng.Intn(2)]), "bscforged", "bscupd 1")
				r.Count("op.bscforged")
			}
		case k < 42:
			if !erc[c] {
				s = append(s, fmt.Sprintf("erc20 %d", c))
				erc[c] = true
				r.Count("op.erc20")
			}
		case k < 56:
			if rng.Intn(4) == 0 {
				// a packet whose receive callback fails on the destination (undecodable transfer / call data, unbound token,
				// missing contract): error acknowledgement written, acknowledgement callback on the source fails too
				s = append(s, fmt.Sprintf("xbad %d %d", c, rng.Intn(8)))
				pend++
				r.Count("op.xbad")
				break
			}
			op := "xsend"
			if rng.Intn(5) == 0 {
				op = "xsendk"
			}
			s = append(s, fmt.Sprintf("%s %d %d %d", op, c, 1+rng.Intn(500), rng.Intn(50)))
			pend++
			r.Count("op.xsend")
		case k < 70:
			if pend > 0 {
				s = append(s, "relay")
				pend--
				r.Count("op.relay")
			}
		case k < 78:
			kinds := []string{"coin", "coin", "relayer", "ethclient", "ethclient", "toggle", "upgradec", "togglec"}
			kd := kinds[rng.Intn(len(kinds))]
			if kd == "toggle" && coins[c] == 0 {
				kd = "coin"
			}
			if (kd == "upgradec" || kd == "togglec") && len(ethp[c]) == 0 {
				kd = "ethclient"
			}
			arg := len(s)
			if kd == "ethclient" {
				ethp[c] = append(ethp[c], arg)
			}
			if kd == "upgradec" || kd == "togglec" {
				arg = ethp[c][rng.Intn(len(ethp[c]))]
			}
			if kd == "coin" {
				coins[c]++
				arg = coins[c]
			}
			if kd == "toggle" {
				arg = 1 + rng.Intn(coins[c])
			}
			s = append(s, fmt.Sprintf("prop %d %s %d", c, kd, arg), fmt.Sprintf("govwait %d", c))
			if kd == "coin" {
				s = append(s, fmt.Sprintf("convert %d c14coin%d %d", c, arg, 1+rng.Intn(1000)))
				r.Count("op.convert")
			}
			r.Count("op.prop." + kd)
		case k < 81:
			s = append(s, fmt.Sprintf("convert %d %s %d", c, []string{"stake", "c14coin1", "c14coin2", "nope"}[rng.Intn(4)], 1+rng.Intn(100)))
			r.Count("op.convert")
		case k < 84:
			if coins[c] > 0 {
				n := 1 + rng.Intn(coins[c])
				s = append(s, fmt.Sprintf("convert %d c14coin%d %d", c, n, 200+rng.Intn(100)), fmt.Sprintf("converterc %d %d %d", c, n, 1+rng.Intn(150)))
				r.Count("op.converterc")
			}
		case k < 86:
			if coins[c] > 0 {
				s = append(s, fmt.Sprintf("ics20 %d %d %d", c, 1+rng.Intn(coins[c]), 1+rng.Intn(60)))
				r.Count("op.ics20")
			}
		case k < 89:
			if !tssNew {
				s = append(s, "tssnew 0")
				tssNew = true
			}
			s = append(s, fmt.Sprintf("tssupd %d", rng.Intn(30)))
			r.Count("op.tssupd")
		case k < 92:
			s = append(s, fmt.Sprintf("evmpay %d %d %d", c, rng.Intn(4), rng.Intn(1000)))
			r.Count("op.evmpay")
		case k < 96:
			op := "evmstake"
			if rng.Intn(4) == 0 {
				op = "evmstakek" // keeper-level path (no ante handler)
			}
			s = append(s, fmt.Sprintf("%s %d %d", op, c, 1+rng.Intn(100000)))
			r.Count("op.evmstake")
		default:
			s = append(s, fmt.Sprintf("rvest %d %d %d", c, 1+rng.Intn(50), rng.Intn(400)))
			r.Count("op.rvest")
		}
	}
	// make sure the ETH path (F8 touch point) is in every history that asked for it
	for ethLeft > 0 {
		if !ethNew {
			s = append(s, "ethnew 0")
			ethNew = true
		}
		s = append(s, "ethupd")
		ethLeft--
		r.Count("op.ethupd")
	}
	for ; pend > 0; pend-- {
		s = append(s, "relay")
		r.Count("op.relay")
	}
	return s
}

type c14ChildCfg struct {
	name string
	env  []string
	cwd  string
}

// c14RunChild executes the script in a child process with the given environment; returns its observation lines.
func c14RunChild(t *testing.T, dir, tag string, script string, cfg c14ChildCfg, repo string) ([]string, string) {
	exe, err := os.Executable()
	if err != nil {
		t.Fatal(err)
	}
	obs := filepath.Join(dir, tag+".obs")
	cmd := exec.Command(exe, "-test.run", "^TestC14$", "-test.timeout", "1200s")
	keep := map[string]bool{"PATH": true, "VERIF_ROOT": true}
	var env []string
	for _, e := range os.Environ() {
		if k := strings.SplitN(e, "=", 2)[0]; keep[k] {
			env = append(env, e)
		}
	}
	env = append(env, "VERIF_C14_CHILD=1", "VERIF_C14_SCRIPT="+script, "VERIF_C14_OBS="+obs, "VERIF_C14_REPO="+repo)
	env = append(env, cfg.env...)
	cmd.Env = env
	cmd.Dir = cfg.cwd
	lf, _ := os.Create(filepath.Join(dir, tag+".log"))
	defer lf.Close()
	cmd.Stdout, cmd.Stderr = lf, lf
	runErr := cmd.Run()
	b, _ := os.ReadFile(obs)
	var lines []string
	for _, l := range strings.Split(string(b), "\n") {
		if l != "" {
			lines = append(lines, l)
		}
	}
	status := "ok"
	if runErr != nil {
		status = "exit:" + runErr.Error()
	}
	return lines, status
}

var c14EvRe = regexp.MustCompile(`:e(\d+):([0-9a-f-]+):([0-9a-f-]+)`)
var c14LogRe = regexp.MustCompile(`:l[0-9a-f-]+`)

// c14Classify names the mechanism of the first differing observation line (stable part of the finding signature).
func c14Classify(a, b string) string {
	pa, pb := strings.Split(a, "|"), strings.Split(b, "|")
	if len(pa) != 3 || len(pb) != 3 {
		return "process"
	}
	if pa[1] == pb[1] {
		return "state-hash"
	}
	ea, eb := c14EvRe.ReplaceAllString(pa[1], ":e$1:X:$3"), c14EvRe.ReplaceAllString(pb[1], ":e$1:X:$3")
	if c14LogRe.ReplaceAllString(ea, ":lX") == c14LogRe.ReplaceAllString(eb, ":lX") {
		if c14LogRe.ReplaceAllString(pa[1], ":lX") == c14LogRe.ReplaceAllString(pb[1], ":lX") {
			return "log-only"
		}
		return "event-attribute-order"
	}
	return "tx-result"
}

var c14TmpNote = regexp.MustCompile(` tmp=(true|false)`)
var c14WallNote = regexp.MustCompile(` wall=(early|late)`)

// c14Pair runs the twin replay of one script and records ops / findings.
type c14PairResult struct {
	outs [2][]string
	stat [2]string
}

// c14Pairs runs several twin replays concurrently (the children are separate processes) and records them in order.
func c14Pairs(t *testing.T, r *Rec, first int, scripts [][]string, repo string) {
	res := make([]c14PairResult, len(scripts))
	var wg sync.WaitGroup
	for i := range scripts {
		wg.Add(1)
		go func(i int) {
			defer wg.Done()
			res[i] = c14PairRun(t, r.Shard, r.Tier, first+i, scripts[i], repo)
		}(i)
	}
	wg.Wait()
	for i := range scripts {
		c14PairRecord(t, r, first+i, scripts[i], res[i])
	}
}

func c14Pair(t *testing.T, r *Rec, pair int, script []string, repo string) {
	c14PairRecord(t, r, pair, script, c14PairRun(t, r.Shard, r.Tier, pair, script, repo))
}

func c14PairRun(t *testing.T, shard int, tier string, pair int, script []string, repo string) c14PairResult {
	dir := filepath.Join(outDir(), fmt.Sprintf("c14.%d.%d", shard, pair))
	_ = os.MkdirAll(dir, 0o755)
	sf := filepath.Join(dir, "script")
	if err := os.WriteFile(sf, []byte(strings.Join(script, "\n")+"\n"), 0o644); err != nil {
		t.Fatal(err)
	}
	mk := func(n string) string {
		d := filepath.Join(dir, n)
		_ = os.MkdirAll(d, 0o755)
		return d
	}
	// wall clock: twin b starts 3 s later; both get the same anchor T0, twin a delivers `ethnow` at T0-2, twin b at T0+2
	lead := int64(9)
	if tier == "thorough" {
		lead = 20 // 64 children share the machine
	}
	t0 := fmt.Sprintf("VERIF_C14_T0=%d", time.Now().Unix()+lead)
	cfgs := []c14ChildCfg{
		{name: "a", cwd: mk("cwd-a"), env: []string{t0, "VERIF_C14_TWIN=a", "VERIF_C14_BIAS=-2", "GOMAXPROCS=1", "GOGC=25", "TMPDIR=" + mk("tmp-a"), "HOME=" + mk("home-a"), "TZ=UTC", "LANG=C", "C14_NOISE=alpha"}},
		{name: "b", cwd: mk("cwd-b"), env: []string{t0, "VERIF_C14_TWIN=b", "VERIF_C14_BIAS=2", "VERIF_C14_START_DELAY=3", "GOMAXPROCS=4", "GOGC=400", "TMPDIR=" + filepath.Join(dir, "no-such-dir", "tmp"), "HOME=" + filepath.Join(dir, "no-such-dir", "home"),
			"TZ=Asia/Kolkata", "LANG=tr_TR.UTF-8", "C14_NOISE=beta", "GODEBUG=madvdontneed=1", "XDG_CACHE_HOME=/proc/none"}},
	}
	var outs [2][]string
	var stat [2]string
	var wg sync.WaitGroup
	for i := range cfgs {
		wg.Add(1)
		go func(i int) {
			defer wg.Done()
			outs[i], stat[i] = c14RunChild(t, dir, cfgs[i].name, sf, cfgs[i], repo)
		}(i)
	}
	wg.Wait()
	return c14PairResult{outs: outs, stat: stat}
}

func c14PairRecord(t *testing.T, r *Rec, pair int, script []string, res c14PairResult) {
	outs, stat := res.outs, res.stat
	h := sha256.Sum256([]byte(strings.Join(script, "\n")))
	r.Op(fmt.Sprintf("pair %d %d %s", r.Shard, pair, hex.EncodeToString(h[:8])), "ok")
	for _, l := range script {
		r.Op(fmt.Sprintf("script %d %s", pair, l), "ok")
	}
	tmpNote := [2]string{}
	for i := range outs {
		for j, l := range outs[i] {
			if m := c14TmpNote.FindStringSubmatch(l); m != nil {
				tmpNote[i] = m[1]
				outs[i][j] = c14TmpNote.ReplaceAllString(l, "")
			}
		}
	}
	wallNote := [2]string{}
	for i := range outs {
		for j, l := range outs[i] {
			if m := c14WallNote.FindStringSubmatch(l); m != nil {
				wallNote[i] = m[1]
				outs[i][j] = c14WallNote.ReplaceAllString(l, "")
			}
		}
	}
	if wallNote[0] == "early" && wallNote[1] == "late" {
		r.Count("pair.wallclock-straddled") // a time.Now()+15s check would have accepted the header in twin b only
	}
	if tmpNote[0] == "true" && tmpNote[1] == "false" {
		r.Count("pair.tmpdir-differs")
	}
	n := len(outs[0])
	if len(outs[1]) > n {
		n = len(outs[1])
	}
	diverged, resultDiverged := false, false
	for i := 0; i < n; i++ {
		a, b := "missing", "missing"
		if i < len(outs[0]) {
			a = outs[0][i]
		}
		if i < len(outs[1]) {
			b = outs[1][i]
		}
		da, db := c14Digest([]byte(a)), c14Digest([]byte(b))
		out := "same " + da
		if a != b {
			out = "diverged"
		}
		r.Op(fmt.Sprintf("obs %d %d %s %s", pair, i, da, db), out)
		r.Count("obs")
		if a == b {
			if strings.Contains(a, ":c0:") {
				r.Count("obs.tx-ok")
			}
			if regexp.MustCompile(`:c[1-9]`).MatchString(a) {
				r.Count("obs.tx-failed")
			}
			op := strings.Fields(a)
			if len(op) > 1 {
				r.Count("seen." + op[1])
				if strings.Contains(a, ":c0:") || strings.Contains(a, ":vm-:") {
					r.Count("okop." + op[1])
				}
			}
			r.Nontrivial(a)
			continue
		}
		opn := "?"
		if fs := strings.Fields(a); len(fs) > 1 {
			opn = fs[1]
		} else if fs := strings.Fields(b); len(fs) > 1 {
			opn = fs[1]
		}
		what := c14Classify(a, b)
		// a state-hash / process difference after a result difference is its consequence: one finding per mechanism
		if (what == "state-hash" || what == "process") && resultDiverged {
			continue
		}
		if what == "tx-result" {
			resultDiverged = true
		}
		diverged = true
		r.Find(Finding{Sig: "C14:twin-divergence:" + what,
			What: fmt.Sprintf("the same block history gives a different result (%s) in two processes that differ only in GOMAXPROCS/GOGC/TMPDIR/HOME/TZ/cwd/environment (step %d, operation %s)", what, i, opn),
			Ops:  append([]string{}, script...), Obs: "child a (TMPDIR usable): " + a + "  ||  child b (TMPDIR/HOME missing): " + b, Req: "identical LastCommitID hashes, DeliverTx codes, data, events and logs"})
	}
	out := fmt.Sprintf("end %d %d", len(outs[0]), len(outs[1]))
	r.Op(fmt.Sprintf("end %d %d %d", pair, len(outs[0]), len(outs[1])), out)
	if len(outs[0]) != len(script) || len(outs[1]) != len(script) || stat[0] != "ok" || stat[1] != "ok" {
		// a child that does not finish its history (crash / os.Exit / panic outside recovery) is a result too
		r.Count("pair.incomplete")
		if !diverged && (len(outs[0]) != len(outs[1]) || stat[0] != stat[1]) {
			r.Find(Finding{Sig: "C14:twin-divergence:process", What: "one twin stopped before the other", Ops: append([]string{}, script...),
				Obs: fmt.Sprintf("a: %d lines %s, b: %d lines %s", len(outs[0]), stat[0], len(outs[1]), stat[1]), Req: "identical streams"})
		}
	} else {
		r.Count("pair.complete")
	}
	r.Count("pair")
}

// ---- part 1: site inventory ---------------------------------------------------------------------------------

type c14Site struct {
	File  string `json:"file"`
	Func  string `json:"func"`
	Kind  string `json:"kind"`
	Expr  string `json:"expr"`
	Count int    `json:"count"`
	Auto  string   `json:"auto"`
	Reach string   `json:"reach"`
	Lines []string `json:"lines"`
}

// classes whose reason is "no path from block processing": the call graph must agree (thorough tier)
var c14UnreachableClasses = map[string]bool{"class:vendored-ethash-mining-unreachable": true, "class:simulation-only": true, "class:test-support-only": true,
	"class:abigen-binding-unreachable": true, "class:cli-or-query-only": true, "class:startup-wiring": true, "class:startup-configuration": true}

type c14Report struct {
	Files         int `json:"files"`
	Funcs         int `json:"funcs"`
	Sites         int `json:"sites"`
	Matched       []struct {
		c14Site
		Discharge string `json:"discharge"`
	} `json:"matched"`
	Auto          []c14Site `json:"auto"`
	Uninventoried []c14Site `json:"uninventoried"`
	Errors        []string  `json:"errors"`
}

func c14Inventory(t *testing.T, r *Rec, repo string) {
	root := verifRoot()
	bin := filepath.Join(root, "build", "nondetsites")
	env := append(os.Environ(), "GOFLAGS=-mod=mod", "GOPROXY=off", "GOSUMDB=off", "GOTOOLCHAIN=local")
	b := exec.Command("go", "build", "-o", bin, ".")
	b.Dir = filepath.Join(root, "tools", "nondetsites")
	b.Env = env
	if out, err := b.CombinedOutput(); err != nil {
		r.Op("inventory build", "failed")
		r.Find(Finding{Sig: "C14:inventory-tool-failed", What: "tools/nondetsites does not build: " + string(out), Ops: []string{"inventory"}, Obs: "build error", Req: "inventory"})
		return
	}
	rep := filepath.Join(outDir(), "C14.sites.report.json")
	args := []string{"-repo", repo, "-out", filepath.Join(root, "build", "nondetsites.json"), "-expect", filepath.Join(root, "props", "sites-C14.json"), "-report", rep}
	if r.Tier == "thorough" {
		args = append(args, "-reach") // SSA + CHA/RTA call graph from the block-processing roots (≈ 10 s, 3 GB)
	}
	c := exec.Command(bin, args...)
	c.Env = env
	out, err := c.CombinedOutput()
	var rp c14Report
	if bz, e2 := os.ReadFile(rep); e2 == nil {
		_ = json.Unmarshal(bz, &rp)
	}
	if err != nil || rp.Files == 0 {
		r.Op("inventory run", "failed")
		r.Find(Finding{Sig: "C14:inventory-tool-failed", What: "tools/nondetsites failed (source tree no longer loads / type-checks): " + string(out), Ops: []string{"inventory"}, Obs: "error", Req: "inventory"})
		return
	}
	r.Extra["inventory"] = strings.TrimSpace(string(out))
	key := func(s c14Site) string {
		h := sha256.Sum256([]byte(s.Expr))
		return fmt.Sprintf("site %s %s %s %s", s.Kind, s.File, strings.ReplaceAll(s.Func, " ", ""), hex.EncodeToString(h[:6]))
	}
	var lines [][2]string
	for _, m := range rp.Matched {
		l := key(m.c14Site) + " " + strings.ReplaceAll(m.Discharge, " ", "_")
		if m.Reach != "" {
			l += " " + m.Reach
			r.Count("site.reach." + m.Reach)
			if m.Reach == "reachable" && c14UnreachableClasses[m.Discharge] {
				r.Find(Finding{Sig: fmt.Sprintf("C14:class-contradicted-by-callgraph:%s:%s:%s", m.File, m.Func, m.Kind),
					What: fmt.Sprintf("site %s in %s %s is discharged as %s, but the function is reachable from the block-processing roots (SSA + rapid type analysis)", m.Kind, m.File, m.Func, m.Discharge),
					Ops:  []string{l}, Obs: "reachable", Req: "unreachable / rta-unreachable / init"})
			}
		}
		lines = append(lines, [2]string{l, "discharged"})
		r.Count("site.matched")
		r.Count("site.kind." + m.Kind)
		if strings.HasPrefix(m.Discharge, "theorem:") {
			r.Count("site.by-theorem")
		}
	}
	matched := map[string]bool{}
	for _, m := range rp.Matched {
		matched[key(m.c14Site)] = true
	}
	for _, a := range rp.Auto {
		if matched[key(a)] {
			continue
		}
		lines = append(lines, [2]string{key(a) + " " + a.Auto, "discharged"})
		r.Count("site.auto")
	}
	for _, u := range rp.Uninventoried {
		lines = append(lines, [2]string{key(u) + " none", "uninventoried"})
		r.Count("site.uninventoried")
		r.Find(Finding{Sig: fmt.Sprintf("C14:uninventoried-nondeterminism-site:%s:%s:%s", u.File, u.Func, u.Kind),
			What: fmt.Sprintf("new order-/environment-/process-dependent site without discharge: %s in %s %s: %s %s", u.Kind, u.File, u.Func, u.Expr, strings.Join(u.Lines, " ")),
			Ops:  []string{key(u) + " none"}, Obs: "site present" + c14At(u.Lines) + ", no matching entry in props/sites-C14.json and body not syntactically order-independent",
			Req: "a Lean theorem of order-independence or a class with a reason"})
	}
	sort.Slice(lines, func(i, j int) bool { return lines[i][0] < lines[j][0] })
	for _, l := range lines {
		r.Op(l[0], l[1])
	}
}

func c14At(lines []string) string {
	if len(lines) == 0 {
		return ""
	}
	return " at " + strings.Join(lines, ", ")
}

// TestMain configures the bech32 prefixes AFTER package initialisation, the way cmd/teleport's main() does (cmd/config):
// anything a package-level initialiser rendered before is rendered with the default `cosmos` prefix.
func TestMain(m *testing.M) {
	cfg := sdk.GetConfig()
	cmdcfg.SetBech32Prefixes(cfg)
	cmdcfg.SetBip44CoinType(cfg)
	os.Exit(m.Run())
}

func TestC14(t *testing.T) {
	if os.Getenv("VERIF_C14_CHILD") != "" {
		c14Child(t)
		return
	}
	r := NewRec(t, "C14")
	defer r.Close()
	repo := c14RepoPath()
	r.Extra["repo"] = repo

	if ops := replayOps(t); ops != nil {
		switch {
		case strings.HasPrefix(ops[0], "seed "):
			c14Pair(t, r, 0, ops, repo)
		case strings.HasPrefix(ops[0], "site ") || ops[0] == "inventory":
			c14Inventory(t, r, repo)
		case strings.HasPrefix(ops[0], "replica "):
			c14Replicas(t, r, 2, strings.Fields(ops[0])[1])
		default:
			p := newC14Probes()
			for _, op := range ops {
				p.apply(r, op, "")
			}
		}
		return
	}
	if r.Shard == 0 {
		c14Inventory(t, r, repo)
	}
	// loop-model probes (in process): corpus scenarios first, then the random stream
	probes := newC14Probes()
	for _, h := range corpusOps("C14") {
		if len(h) > 0 && !strings.HasPrefix(h[0], "seed ") && r.Shard == 0 {
			for _, op := range h {
				out := probes.apply(r, op, "")
				cls := strings.Fields(out + " -")[0]
				if strings.Contains(cls, "=") {
					cls = "ok"
				}
				r.Count("corpus." + strings.Fields(op)[0] + "." + cls)
			}
		}
	}
	if r.Tier == "thorough" {
		c14RunProbes(r, probes, 300)
	} else {
		c14RunProbes(r, probes, 60)
	}
	// replica differential: same committed state, different process histories, identical next block
	if r.Tier == "thorough" {
		c14Replicas(t, r, 4, "")
	} else {
		c14Replicas(t, r, 2, "")
	}
	var scripts [][]string
	for _, h := range corpusOps("C14") {
		if r.Shard == 0 && len(h) > 0 && strings.HasPrefix(h[0], "seed ") {
			scripts = append(scripts, h)
		}
	}
	if r.Tier == "thorough" {
		// 16 shards x 3 = 48 process pairs; every pair replays a long history with PoW header verifications
		scripts = append(scripts, c14Script(r, 110, 2), c14Script(r, 110, 2), c14Script(r, 110, 1))
	} else {
		// quick: two pairs, one PoW verification each
		scripts = append(scripts, c14Script(r, 40, 1), c14Script(r, 40, 1))
	}
	c14Pairs(t, r, 0, scripts, repo)
}
