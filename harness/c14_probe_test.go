//go:build c14

package verifharness

// C14 — differential probes of the LOOP MODELS (Model/Determinism.lean, "probe models").
//
// The permutation theorems of Proofs/C14.lean speak about list models of Go loops. These probes tie the models
// to the code: the REAL function is fed the same entries in several insertion orders (and, because the loops run
// over real Go maps, R repetitions each so that the randomised iteration order shows); the canonical result is
// compared line by line with the Lean model (./check, tpmodel_C14). Independent oracles, evaluated on the
// implementation only:
//   * every repetition of one op gives the same result           (C14:loop-unstable:<what>)
//   * all permutations of one entry multiset give the same verdict (C14:loop-order-dependence:<what>)
//
//   bscp  bsc CheckHeaderAndUpdateState over a crafted client state: snapshot() map, validators() sort, inturn,
//         recents loop of verifySeal, validator rotation of update() (pending list with duplicates)
//   relp  relayer registry through the gov proposal handler: stored slices, AuthRelayer, GetRelayerAddressOnOtherChain
//   adp   adapter gov / staking NewHookAdapter handler table (PostTxProcessing with one crafted log per event)
//   gdup  genesis / parameter duplicate checks (aggregate GenesisState.Validate, rvesting PerBlockReward validator)
//   tev   types.EmitTypedEvent attribute order
//   etime eth verifyHeader future-block check around block time + 15 s (chain id 4: no PoW)

import (
	"crypto/ecdsa"
	"encoding/hex"
	"errors"
	"fmt"
	"math/big"
	"sort"
	"strconv"
	"strings"
	"time"

	"github.com/gogo/protobuf/proto"

	sdk "github.com/cosmos/cosmos-sdk/types"
	govtypes "github.com/cosmos/cosmos-sdk/x/gov/types"

	ethabi "github.com/ethereum/go-ethereum/accounts/abi"
	"github.com/ethereum/go-ethereum/common"
	ethtypes "github.com/ethereum/go-ethereum/core/types"
	"github.com/ethereum/go-ethereum/crypto"
	"github.com/ethereum/go-ethereum/rlp"
	tmproto "github.com/tendermint/tendermint/proto/tendermint/types"
	"golang.org/x/crypto/sha3"

	adgov "github.com/teleport-network/teleport/adapter/gov"
	adstaking "github.com/teleport-network/teleport/adapter/staking"
	"github.com/teleport-network/teleport/app"
	"github.com/teleport-network/teleport/syscontracts"
	govcontract "github.com/teleport-network/teleport/syscontracts/gov"
	stakingcontract "github.com/teleport-network/teleport/syscontracts/staking"
	teletypes "github.com/teleport-network/teleport/types"
	aggregatetypes "github.com/teleport-network/teleport/x/aggregate/types"
	rvestingtypes "github.com/teleport-network/teleport/x/rvesting/types"
	bsctypes "github.com/teleport-network/teleport/x/xibc/clients/light-clients/bsc/types"
	xibcethtypes "github.com/teleport-network/teleport/x/xibc/clients/light-clients/eth/types"
	xibcclient "github.com/teleport-network/teleport/x/xibc/core/client"
	clienttypes "github.com/teleport-network/teleport/x/xibc/core/client/types"
	packettypes "github.com/teleport-network/teleport/x/xibc/core/packet/types"
)

const c14ProbeT0 = 1_700_000_000

var c14UncleHash = common.HexToHash("0x1dcc4de8dec75d7aab85b567b6ccd41ad312451b948a7413f0a142fd40d49347")

type c14Probes struct {
	app   *app.Teleport
	base  sdk.Context
	keys  map[common.Address]*ecdsa.PrivateKey
	addrs []common.Address // addrs[i] = address of the deterministic key i
	// permutation groups: group id -> verdict seen first
	groups map[string]string
}

func newC14Probes() *c14Probes {
	a := app.Setup(false, nil)
	ctx := a.BaseApp.NewContext(false, tmproto.Header{Height: 1, ChainID: "teleport_9000-1", Time: time.Unix(c14ProbeT0, 0)})
	p := &c14Probes{app: a, base: ctx, keys: map[common.Address]*ecdsa.PrivateKey{}, groups: map[string]string{}}
	for i := 0; i < 48; i++ {
		k, err := crypto.ToECDSA(crypto.Keccak256([]byte(fmt.Sprintf("c14-validator-key-%d", i))))
		if err != nil {
			panic(err)
		}
		ad := crypto.PubkeyToAddress(k.PublicKey)
		p.keys[ad] = k
		p.addrs = append(p.addrs, ad)
	}
	return p
}

func c14BscSealHash(h *bsctypes.Header, chainID uint64) (hash common.Hash) {
	hasher := sha3.NewLegacyKeccak256()
	if err := rlp.Encode(hasher, []interface{}{
		big.NewInt(int64(chainID)),
		h.ParentHash, h.UncleHash, h.Coinbase, h.Root, h.TxHash, h.ReceiptHash, h.Bloom, h.Difficulty,
		h.Height.RevisionHeight, h.GasLimit, h.GasUsed, h.Time,
		h.Extra[:len(h.Extra)-65],
		h.MixDigest, h.Nonce,
	}); err != nil {
		panic(err)
	}
	hasher.Sum(hash[:0])
	return hash
}

func c14Atoi(s string) int {
	n, _ := strconv.Atoi(s)
	return n
}

func c14U64(s string) uint64 {
	n, _ := strconv.ParseUint(s, 10, 64)
	return n
}

// c14Take reads "<n> x…" (width fields per entry) from f
func c14Take(f []string, width int) (ents []string, rest []string, ok bool) {
	if len(f) == 0 {
		return nil, nil, false
	}
	n := c14Atoi(f[0]) * width
	if n < 0 || len(f) < 1+n {
		return nil, nil, false
	}
	return f[1 : 1+n], f[1+n:], true
}

func c14HexList(bs [][]byte) string {
	ss := make([]string, len(bs))
	for i, b := range bs {
		ss[i] = hx(b)
	}
	return strings.Join(ss, ",")
}

// stable runs f R times and returns the common result, or "unstable" with the two differing results.
func c14Stable(R int, f func() string) (string, bool, string) {
	first := ""
	for i := 0; i < R; i++ {
		var out string
		if pan, msg := safely(func() { out = f() }); pan {
			out = "panic:" + strings.Split(msg, "\n")[0]
		}
		if i == 0 {
			first = out
		} else if out != first {
			return "unstable", false, first + "  ||  " + out
		}
	}
	return first, true, ""
}

func (p *c14Probes) bscp(f []string) string {
	if len(f) < 6 {
		return "bad-op"
	}
	R, epoch, N, claim := c14Atoi(f[0]), c14U64(f[1]), c14U64(f[2]), f[3]
	signer := common.BytesToAddress(unhx(f[4]))
	valsS, rest, ok1 := c14Take(f[5:], 1)
	recS, rest, ok2 := c14Take(rest, 2)
	pendS, _, ok3 := c14Take(rest, 1)
	if !ok1 || !ok2 || !ok3 || epoch == 0 {
		return "bad-op"
	}
	key := p.keys[signer]
	if key == nil {
		return "bad-op"
	}
	var vals, pend [][]byte
	for _, s := range valsS {
		vals = append(vals, unhx(s))
	}
	for _, s := range pendS {
		pend = append(pend, unhx(s))
	}
	parent := bsctypes.Header{
		Height: clienttypes.NewHeight(0, N), ParentHash: make([]byte, 32), UncleHash: c14UncleHash.Bytes(), Coinbase: make([]byte, 20),
		Root: make([]byte, 32), TxHash: make([]byte, 32), ReceiptHash: make([]byte, 32), Difficulty: []byte{2},
		GasLimit: 30_000_000, GasUsed: 0, Time: c14ProbeT0 - 10, Extra: make([]byte, 32+65), MixDigest: make([]byte, 32), Nonce: make([]byte, 8),
	}
	d := byte(1)
	if claim == "2" {
		d = 2
	}
	h := bsctypes.Header{
		Height: clienttypes.NewHeight(0, N+1), ParentHash: parent.Hash().Bytes(), UncleHash: c14UncleHash.Bytes(), Coinbase: signer.Bytes(),
		Root: crypto.Keccak256([]byte("c14-root")), TxHash: make([]byte, 32), ReceiptHash: make([]byte, 32), Difficulty: []byte{d},
		GasLimit: 30_000_000, GasUsed: 1, Time: c14ProbeT0 - 7, Extra: make([]byte, 32+65), MixDigest: make([]byte, 32), Nonce: make([]byte, 8),
	}
	sig, err := crypto.Sign(c14BscSealHash(&h, 56).Bytes(), key)
	if err != nil {
		return "bad-op"
	}
	copy(h.Extra[len(h.Extra)-65:], sig)
	k := p.app.XIBCKeeper.ClientKeeper
	out, _, _ := c14Stable(R, func() string {
		ctx, _ := p.base.CacheContext()
		cs := &bsctypes.ClientState{Header: parent, ChainId: 56, Epoch: epoch, BlockInteval: 3, Validators: vals, ContractAddress: []byte("0x00"), TrustingPeriod: 999999999}
		k.SetClientState(ctx, "bscp", cs)
		k.SetClientConsensusState(ctx, "bscp", parent.Height, &bsctypes.ConsensusState{Timestamp: parent.Time, Height: parent.Height, Root: parent.Root})
		store := k.ClientStore(ctx, "bscp")
		for i := 0; i+1 < len(recS); i += 2 {
			bsctypes.SetSigner(store, bsctypes.Signer{Height: clienttypes.NewHeight(0, c14U64(recS[i])), Validator: unhx(recS[i+1])})
		}
		bsctypes.SetPendingValidators(store, p.app.AppCodec(), pend)
		hh := h
		err := k.UpdateClient(ctx, "bscp", &hh)
		switch {
		case err == nil:
			st, _ := k.GetClientState(ctx, "bscp")
			return "ok vals=" + c14HexList(st.(*bsctypes.ClientState).Validators)
		case errors.Is(err, bsctypes.ErrUnauthorizedValidator):
			return "unauthorized"
		case errors.Is(err, bsctypes.ErrRecentlySigned):
			return "recent"
		case errors.Is(err, bsctypes.ErrWrongDifficulty):
			return "wrongdiff"
		}
		return "err:" + strings.Split(err.Error(), ":")[0]
	})
	return out
}

func (p *c14Probes) relp(f []string) string {
	if len(f) < 3 {
		return "bad-op"
	}
	R, addr := c14Atoi(f[0]), f[1]
	ents, rest, ok1 := c14Take(f[2:], 2)
	qs, _, ok2 := c14Take(rest, 1)
	if !ok1 || !ok2 {
		return "bad-op"
	}
	var chains, addrs []string
	for i := 0; i+1 < len(ents); i += 2 {
		chains = append(chains, ents[i])
		addrs = append(addrs, ents[i+1])
	}
	k := p.app.XIBCKeeper.ClientKeeper
	handler := xibcclient.NewClientProposalHandler(k)
	out, _, _ := c14Stable(R, func() string {
		ctx, _ := p.base.CacheContext()
		content := clienttypes.NewRegisterRelayerProposal("t", "d", addr, append([]string{}, chains...), append([]string{}, addrs...))
		if err := handler(ctx, content); err != nil {
			return "err"
		}
		ir, found := k.GetRelayer(ctx, addr)
		if !found {
			return "missing"
		}
		auth, other := "", []string{}
		for _, q := range qs {
			if k.AuthRelayer(ctx, q, addr) {
				auth += "1"
			} else {
				auth += "0"
			}
			if a, ok := k.GetRelayerAddressOnOtherChain(ctx, q, addr); ok {
				other = append(other, a)
			} else {
				other = append(other, "-")
			}
		}
		return "chains=" + strings.Join(ir.Chains, ",") + " addrs=" + strings.Join(ir.Addresses, ",") + " auth=" + auth + " other=" + strings.Join(other, ",")
	})
	return out
}

// c14AbiEvents returns (name, id) of the events of an adapter's contract, sorted by name.
func c14AbiEvents(which string) [][2]string {
	src := govcontract.GovMetaData.ABI
	if which == "staking" {
		src = stakingcontract.StakingMetaData.ABI
	}
	parsed, err := ethabi.JSON(strings.NewReader(src))
	if err != nil {
		return nil
	}
	var out [][2]string
	for name, ev := range parsed.Events {
		out = append(out, [2]string{name, hex.EncodeToString(ev.ID.Bytes())})
	}
	sort.Slice(out, func(i, j int) bool { return out[i][0] < out[j][0] })
	return out
}

func (p *c14Probes) adp(f []string) string {
	if len(f) < 3 {
		return "bad-op"
	}
	R, which := c14Atoi(f[0]), f[1]
	ents, _, ok := c14Take(f[2:], 2)
	if !ok {
		return "bad-op"
	}
	contract := common.HexToAddress(syscontracts.GovContractAddress)
	if which == "staking" {
		contract = common.HexToAddress(syscontracts.StakingContractAddress)
	}
	out, _, _ := c14Stable(R, func() string {
		var post func(ctx sdk.Context, r *ethtypes.Receipt) error
		if which == "staking" {
			h := adstaking.NewHookAdapter(&p.app.AccountKeeper, &p.app.StakingKeeper, p.app.EvmKeeper, p.app.MsgServiceRouter())
			post = func(ctx sdk.Context, r *ethtypes.Receipt) error { return h.PostTxProcessing(ctx, nil, r) }
		} else {
			h := adgov.NewHookAdapter(&p.app.AccountKeeper, p.app.EvmKeeper, p.app.MsgServiceRouter())
			post = func(ctx sdk.Context, r *ethtypes.Receipt) error { return h.PostTxProcessing(ctx, nil, r) }
		}
		var res []string
		for i := 0; i+1 < len(ents); i += 2 {
			name := string(unhx(ents[i]))
			ctx, _ := p.base.CacheContext()
			// one log with the event's topic and a data blob no event can decode: a handler of the right event fails in
			// the ABI decoder, a handler of another event fails with "event signature mismatch", no handler = nil
			err := post(ctx, &ethtypes.Receipt{Logs: []*ethtypes.Log{{Address: contract, Topics: []common.Hash{common.BytesToHash(unhx(ents[i+1]))}, Data: []byte{1, 2, 3}}}})
			switch {
			case err == nil:
				res = append(res, name+"=none")
			case strings.Contains(err.Error(), "event signature mismatch"):
				res = append(res, name+"=wrong")
			default:
				res = append(res, name+"=ok")
			}
		}
		return strings.Join(res, " ")
	})
	return out
}

func (p *c14Probes) gdup(f []string) string {
	if len(f) < 2 {
		return "bad-op"
	}
	switch f[0] {
	case "agg":
		ents, _, ok := c14Take(f[1:], 2)
		if !ok {
			return "bad-op"
		}
		gs := aggregatetypes.GenesisState{Params: aggregatetypes.DefaultParams()}
		for i := 0; i+1 < len(ents); i += 2 {
			gs.TokenPairs = append(gs.TokenPairs, aggregatetypes.TokenPair{ERC20Address: string(unhx(ents[i])), Denoms: []string{string(unhx(ents[i+1]))}, Enabled: true, ContractOwner: aggregatetypes.OWNER_MODULE})
		}
		out, _, _ := c14Stable(3, func() string {
			if err := gs.Validate(); err != nil {
				return "err"
			}
			return "ok"
		})
		return out
	case "rv":
		ds, _, ok := c14Take(f[1:], 1)
		if !ok {
			return "bad-op"
		}
		coins := sdk.Coins{}
		for i, d := range ds {
			coins = append(coins, sdk.Coin{Denom: string(unhx(d)), Amount: sdk.NewInt(int64(1 + i))})
		}
		params := rvestingtypes.Params{EnableVesting: true, PerBlockReward: coins}
		out, _, _ := c14Stable(3, func() string {
			for _, pr := range params.ParamSetPairs() {
				if string(pr.Key) == string(rvestingtypes.KeyPerBlockReward) {
					if err := pr.ValidatorFn(coins); err != nil {
						return "err"
					}
					return "ok"
				}
			}
			return "no-validator"
		})
		return out
	}
	return "bad-op"
}

// typed events the probe can emit: kind -> (message, JSON field names in declaration order)
func c14TypedEvents() map[string]struct {
	msg  proto.Message
	keys []string
} {
	return map[string]struct {
		msg  proto.Message
		keys []string
	}{
		"send":    {&packettypes.EventSendPacket{SrcChain: "a", DstChain: "b", Sequence: "1", Packet: []byte{1}}, []string{"src_chain", "dst_chain", "sequence", "packet"}},
		"ack":     {&packettypes.EventWriteAck{SrcChain: "a", DstChain: "b", Sequence: "1", Packet: []byte{1}, Ack: []byte{2}}, []string{"src_chain", "dst_chain", "sequence", "packet", "ack"}},
		"relayer": {&clienttypes.EventRegisterRelayerProposal{Address: "x", Chains: []string{"c"}, Addresses: []string{"y"}}, []string{"address", "chains", "addresses"}},
		"update":  {&clienttypes.EventUpdateClient{ChainName: "c", ClientType: "t", ConsensusHeight: "1", Header: "00"}, []string{"chain_name", "client_type", "consensus_height", "header"}},
	}
}

func (p *c14Probes) tev(f []string) string {
	if len(f) < 3 {
		return "bad-op"
	}
	R := c14Atoi(f[0])
	keys, _, ok := c14Take(f[1:], 1)
	if !ok {
		return "bad-op"
	}
	var want []string
	for _, k := range keys {
		want = append(want, string(unhx(k)))
	}
	sort.Strings(want)
	// the event kind is identified by its key set
	for _, ev := range c14TypedEvents() {
		ks := append([]string{}, ev.keys...)
		sort.Strings(ks)
		if strings.Join(ks, ",") != strings.Join(want, ",") {
			continue
		}
		out, _, _ := c14Stable(R, func() string {
			ctx, _ := p.base.CacheContext()
			ctx = ctx.WithEventManager(sdk.NewEventManager())
			if err := teletypes.EmitTypedEvent(ctx, ev.msg); err != nil {
				return "err"
			}
			evs := ctx.EventManager().Events()
			if len(evs) != 1 {
				return "events=" + strconv.Itoa(len(evs))
			}
			var got []string
			for _, a := range evs[0].Attributes {
				got = append(got, string(a.Key))
			}
			return strings.Join(got, ",")
		})
		return out
	}
	return "bad-op"
}

func c14EthHeader(parent *xibcethtypes.Header, t uint64) xibcethtypes.Header {
	h := xibcethtypes.Header{
		ParentHash: parent.Hash().Bytes(), UncleHash: c14UncleHash.Bytes(), Coinbase: make([]byte, 20), Root: crypto.Keccak256([]byte("c14-eth-root")),
		TxHash: make([]byte, 32), ReceiptHash: make([]byte, 32), Difficulty: big.NewInt(2).Bytes(), Height: clienttypes.NewHeight(0, parent.Height.RevisionHeight+1),
		GasLimit: parent.GasLimit, GasUsed: parent.GasLimit / 2, Time: t, Extra: []byte("c14"), MixDigest: make([]byte, 32), Nonce: 0,
	}
	h.BaseFee = xibcethtypes.CalcBaseFee(parent).Bytes()
	return h
}

func c14EthGenesis(t uint64) xibcethtypes.Header {
	return xibcethtypes.Header{
		ParentHash: make([]byte, 32), UncleHash: c14UncleHash.Bytes(), Coinbase: make([]byte, 20), Root: make([]byte, 32), TxHash: make([]byte, 32), ReceiptHash: make([]byte, 32),
		Difficulty: big.NewInt(2).Bytes(), Height: clienttypes.NewHeight(0, 13_000_000), GasLimit: 30_000_000, GasUsed: 15_000_000, Time: t,
		Extra: []byte("c14"), MixDigest: make([]byte, 32), Nonce: 0, BaseFee: big.NewInt(1_000_000_000).Bytes(),
	}
}

// etime: chain id 4 (rinkeby: no PoW, difficulty mismatch tolerated) so that only the time checks decide
func (p *c14Probes) etime(f []string) string {
	if len(f) != 3 {
		return "bad-op"
	}
	bt, pt, ht := c14U64(f[0]), c14U64(f[1]), c14U64(f[2])
	k := p.app.XIBCKeeper.ClientKeeper
	out, _, _ := c14Stable(2, func() string {
		ctx, _ := p.base.CacheContext()
		ctx = ctx.WithBlockTime(time.Unix(int64(bt), 0))
		g := c14EthGenesis(pt)
		cs := &xibcethtypes.ClientState{Header: g, ChainId: 4, ContractAddress: []byte("0x00"), TrustingPeriod: 1 << 40, TimeDelay: 0, BlockDelay: 1}
		if err := k.CreateClient(ctx, "ethp", cs, &xibcethtypes.ConsensusState{Timestamp: pt, Height: g.Height, Root: g.Root}); err != nil {
			return "create-err:" + strings.Split(err.Error(), ":")[0]
		}
		h := c14EthHeader(&g, ht)
		err := k.UpdateClient(ctx, "ethp", &h)
		switch {
		case err == nil:
			return "ok"
		case errors.Is(err, xibcethtypes.ErrFutureBlock):
			return "future"
		case errors.Is(err, xibcethtypes.ErrHeader):
			return "old"
		}
		return "err:" + strings.Split(err.Error(), ":")[0]
	})
	return out
}

// apply runs one probe op on the real code, records it, and evaluates the repetition oracle.
func (p *c14Probes) apply(r *Rec, op string, group string) string {
	f := strings.Fields(op)
	var out string
	switch f[0] {
	case "bscp":
		out = p.bscp(f[1:])
	case "relp":
		out = p.relp(f[1:])
	case "adp":
		out = p.adp(f[1:])
	case "gdup":
		out = p.gdup(f[1:])
	case "tev":
		out = p.tev(f[1:])
	case "etime":
		out = p.etime(f[1:])
	default:
		out = "bad-op"
	}
	r.Op(op, out)
	r.Count("probe." + f[0])
	r.Nontrivial(op)
	if out == "unstable" || strings.HasPrefix(out, "panic:") {
		r.Find(Finding{Sig: "C14:loop-unstable:" + f[0], What: "repetitions of the same call on the same state give different results (the result depends on Go's map iteration order) or panic",
			Ops: []string{op}, Obs: out, Req: "the same result on every repetition"})
	}
	if group != "" {
		verdict := strings.Fields(out + " -")[0]
		if prev, ok := p.groups[group]; ok && prev != verdict {
			r.Find(Finding{Sig: "C14:loop-order-dependence:" + f[0], What: "the same entries in another insertion order give a different verdict",
				Ops: []string{op}, Obs: verdict + " (another order: " + prev + ")", Req: "a verdict that depends on the set of entries only"})
		} else if !ok {
			p.groups[group] = verdict
		}
	}
	return out
}

// ---- generators ----------------------------------------------------------------------------------------------

func (p *c14Probes) perm(r *Rec, l []string) []string {
	o := append([]string{}, l...)
	r.Rng.Shuffle(len(o), func(i, j int) { o[i], o[j] = o[j], o[i] })
	return o
}

func c14Counted(l []string) string {
	if len(l) == 0 {
		return "0"
	}
	return strconv.Itoa(len(l)) + " " + strings.Join(l, " ")
}

func c14CountedPairs(l [][2]string) string {
	s := strconv.Itoa(len(l))
	for _, e := range l {
		s += " " + e[0] + " " + e[1]
	}
	return s
}

// genBsc: one validator multiset (with or without duplicates), a recents window, one signer and claim — emitted in
// `orders` insertion orders. The signer / claim are chosen so that all four verdicts occur.
func (p *c14Probes) genBsc(r *Rec, reps, orders int) {
	rng := r.Rng
	n := 1 + rng.Intn(9)
	base := rng.Perm(len(p.addrs))[:n+2]
	var vals []string
	for _, i := range base[:n] {
		vals = append(vals, hx(p.addrs[i].Bytes()))
	}
	dup := rng.Intn(3) == 0
	if dup {
		for k := 1 + rng.Intn(2); k > 0; k-- {
			vals = append(vals, vals[rng.Intn(n)])
		}
		r.Count("probe.bscp.dup-validators")
	}
	epoch := uint64(200)
	N := uint64(1000 + rng.Intn(5000))
	// sorted distinct set, as the property defines the turn
	set := map[string]bool{}
	for _, v := range vals {
		set[v] = true
	}
	var sorted []string
	for v := range set {
		sorted = append(sorted, v)
	}
	sort.Strings(sorted)
	inturn := sorted[(N+1)%uint64(len(sorted))]
	var signer string
	switch k := rng.Intn(10); {
	case k < 4:
		signer = inturn
	case k < 8:
		signer = sorted[rng.Intn(len(sorted))]
	default:
		signer = hx(p.addrs[base[n]].Bytes()) // not a validator
	}
	claim := "1"
	if (signer == inturn) != (rng.Intn(6) == 0) {
		claim = "2"
	}
	limit := uint64(len(sorted)/2 + 1)
	var recs [][2]string
	usedSeen := map[uint64]bool{}
	for k := rng.Intn(4); k > 0; k-- {
		who := sorted[rng.Intn(len(sorted))]
		if rng.Intn(3) == 0 {
			who = signer
		}
		var seen uint64
		switch rng.Intn(4) {
		case 0:
			seen = N + 1 - limit // exactly shifted out
		case 1:
			seen = N + 2 - limit // just inside the window
		case 2:
			seen = N
		default:
			seen = N - uint64(rng.Intn(12))
		}
		if usedSeen[seen] {
			continue // the recents are keyed by height: one signer per height
		}
		usedSeen[seen] = true
		recs = append(recs, [2]string{strconv.FormatUint(seen, 10), who})
	}
	// pending list (activated when (N+1) % epoch == len(vals)/2): sometimes arrange the activation, with duplicates
	var pend []string
	if rng.Intn(3) == 0 {
		N = N - (N+1)%epoch + uint64(len(vals)/2) // (N+1) % epoch == len/2
		if N%epoch == epoch-1 {
			N += epoch // never an epoch header itself (len/2 == 0 only for one validator)
		}
		m := 1 + rng.Intn(5)
		for _, i := range rng.Perm(len(p.addrs))[:m] {
			pend = append(pend, hx(p.addrs[i].Bytes()))
		}
		if rng.Intn(2) == 0 {
			pend = append(pend, pend[rng.Intn(len(pend))])
			pend = p.perm(r, pend)
			r.Count("probe.bscp.dup-pending")
		}
		r.Count("probe.bscp.rotation")
		// turn / signer must be recomputed for the moved N
		inturn = sorted[(N+1)%uint64(len(sorted))]
		if rng.Intn(2) == 0 {
			signer, claim = inturn, "2"
		}
		recs = nil
	}
	if (N+1)%epoch == 0 {
		return
	}
	group := fmt.Sprintf("bsc-%d", r.Stats["probe.bscp"])
	for o := 0; o < orders; o++ {
		v := vals
		rc := recs
		if o > 0 {
			v = p.perm(r, vals)
			rc = append([][2]string{}, recs...)
			rng.Shuffle(len(rc), func(i, j int) { rc[i], rc[j] = rc[j], rc[i] })
		}
		op := fmt.Sprintf("bscp %d %d %d %s %s %s %s %s", reps, epoch, N, claim, signer, c14Counted(v), c14CountedPairs(rc), c14Counted(pend))
		out := p.apply(r, op, group)
		r.Count("probe.bscp." + strings.Fields(out)[0])
	}
}

func (p *c14Probes) genRel(r *Rec, reps int) {
	rng := r.Rng
	names := []string{"chaina", "chainb", "chainc", "bsc", "eth", "teleport-1", "rinkeby"}
	n := 1 + rng.Intn(5)
	var ents [][2]string
	for _, i := range rng.Perm(len(names))[:n] {
		ents = append(ents, [2]string{names[i], fmt.Sprintf("0x%040x", rng.Int63())})
	}
	if rng.Intn(2) == 0 {
		// a chain listed twice (with another address): the stored record keeps both, lookups take the first
		d := ents[rng.Intn(len(ents))]
		ents = append(ents, [2]string{d[0], fmt.Sprintf("0x%040x", rng.Int63())})
		rng.Shuffle(len(ents), func(i, j int) { ents[i], ents[j] = ents[j], ents[i] })
		r.Count("probe.relp.dup-chain")
	}
	qs := []string{names[rng.Intn(len(names))], ents[0][0], "nochain"}
	addr := sdk.AccAddress(p.addrs[rng.Intn(len(p.addrs))].Bytes()).String()
	p.apply(r, fmt.Sprintf("relp %d %s %s %s", reps, addr, c14CountedPairs(ents), c14Counted(qs)), "")
}

func (p *c14Probes) genAdp(r *Rec, reps int) {
	for _, which := range []string{"gov", "staking"} {
		evs := c14AbiEvents(which)
		var ents [][2]string
		for _, e := range evs {
			ents = append(ents, [2]string{hxs(e[0]), e[1]})
		}
		r.Rng.Shuffle(len(ents), func(i, j int) { ents[i], ents[j] = ents[j], ents[i] })
		out := p.apply(r, fmt.Sprintf("adp %d %s %s", reps, which, c14CountedPairs(ents)), "")
		if !strings.Contains(out, "=wrong") && !strings.Contains(out, "=none") && out != "panic" {
			r.Count("probe.adp.all-ok")
		}
	}
}

func (p *c14Probes) genDup(r *Rec) {
	rng := r.Rng
	n := 1 + rng.Intn(5)
	var ents [][2]string
	for i := 0; i < n; i++ {
		ents = append(ents, [2]string{hxs(common.BytesToAddress(crypto.Keccak256([]byte{byte(rng.Intn(250))})).Hex()), hxs(fmt.Sprintf("coin%d", rng.Intn(1000)))})
	}
	switch rng.Intn(4) {
	case 0:
		ents = append(ents, [2]string{ents[0][0], hxs("othercoin")})
		r.Count("probe.gdup.dup")
	case 1:
		ents = append(ents, [2]string{hxs(common.BytesToAddress([]byte{251}).Hex()), ents[rng.Intn(len(ents))][1]})
		r.Count("probe.gdup.dup")
	}
	group := fmt.Sprintf("gdup-%d", r.Stats["probe.gdup"])
	for o := 0; o < 3; o++ {
		e := append([][2]string{}, ents...)
		if o > 0 {
			rng.Shuffle(len(e), func(i, j int) { e[i], e[j] = e[j], e[i] })
		}
		p.apply(r, "gdup agg "+c14CountedPairs(e), group)
	}
	var ds []string
	for i := rng.Intn(4); i >= 0; i-- {
		ds = append(ds, hxs(fmt.Sprintf("denom%d", rng.Intn(6))))
	}
	g2 := fmt.Sprintf("gduprv-%d", r.Stats["probe.gdup"])
	p.apply(r, "gdup rv "+c14Counted(ds), g2)
	p.apply(r, "gdup rv "+c14Counted(p.perm(r, ds)), g2)
}

func (p *c14Probes) genTev(r *Rec, reps int) {
	kinds := []string{"send", "ack", "relayer", "update"}
	ev := c14TypedEvents()[kinds[r.Rng.Intn(len(kinds))]]
	var ks []string
	for _, k := range ev.keys {
		ks = append(ks, hxs(k))
	}
	p.apply(r, fmt.Sprintf("tev %d %s", reps, c14Counted(p.perm(r, ks))), "")
}

func (p *c14Probes) genEtime(r *Rec) {
	rng := r.Rng
	// block times far from the wall clock (past and future): a time.Now() in the check flips the verdict
	bt := uint64(1_500_000_000 + rng.Intn(100_000_000))
	if rng.Intn(3) == 0 {
		bt = uint64(time.Now().Unix()) + uint64(86400*(365+rng.Intn(3000)))
	}
	pt := bt - uint64(20+rng.Intn(1000))
	var ht uint64
	switch k := rng.Intn(10); {
	case k < 6:
		ht = bt + 13 + uint64(rng.Intn(5)) // bt+13 … bt+17: around the boundary bt+15
		r.Count("probe.etime.boundary")
	case k < 8:
		ht = pt + uint64(rng.Intn(2)) // equal to / one after the parent
	default:
		ht = pt + 1 + uint64(rng.Int63n(int64(bt-pt)))
	}
	out := p.apply(r, fmt.Sprintf("etime %d %d %d", bt, pt, ht), "")
	r.Count("probe.etime." + out)
	// the same header relative to a block time on the other side of the wall clock: the verdict may depend on the
	// differences only (oracle on the implementation: no absolute / wall-clock time in the check)
	shift := uint64(time.Now().Unix()) + 86400*365*20
	if bt > uint64(time.Now().Unix()) {
		shift = 1_400_000_000
	}
	op2 := fmt.Sprintf("etime %d %d %d", shift, shift-(bt-pt), shift+ht-bt)
	if ht < bt {
		op2 = fmt.Sprintf("etime %d %d %d", shift, shift-(bt-pt), shift-(bt-ht))
	}
	out2 := p.apply(r, op2, "")
	if out2 != out {
		r.Find(Finding{Sig: "C14:wall-clock-dependence:eth-future-block", What: "the verdict on a header with the same position relative to block time and parent time differs between a block time before and after the wall clock",
			Ops: []string{fmt.Sprintf("etime %d %d %d", bt, pt, ht), op2}, Obs: out + " vs " + out2, Req: "a verdict that depends on header time - block time and header time - parent time only"})
	}
}

// c14RunProbes: the probe stream of one shard.
func c14RunProbes(r *Rec, p *c14Probes, rounds int) {
	reps := 12
	for i := 0; i < rounds; i++ {
		p.genBsc(r, reps, 3)
		p.genRel(r, reps)
		p.genDup(r)
		p.genTev(r, reps)
		p.genEtime(r)
		p.genEtime(r)
		if i%8 == 0 {
			p.genAdp(r, 6)
		}
	}
}

var _ = govtypes.ModuleName
