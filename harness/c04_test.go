//go:build c04

package verifharness

// C04 — send sequencing: gap-free sequences, one commitment per send, failed send changes nothing.
//
// Real code driven: every history runs on a FRESH world of three real chains (c04_world_test.go); user sends are
// real signed Ethereum transactions delivered through BaseApp (ante handler → MsgEthereumTx → ethermint
// ApplyTransaction → real EVM byte code of endpoint/packet/ERC-20/agent → PostTxProcessing hook → SendPacket);
// receives and acknowledgements are real MsgRecvPacket / MsgAcknowledgement transactions (TSS client on A);
// `hook` calls the exported Hooks.PostTxProcessing on fabricated receipts inside the same
// "cache context, written only on nil error" wrapper ApplyTransaction uses (reaches decoder / guard branches the
// fixed system contract cannot emit).
//
// op language (names/bytes hex, `-` empty):
//   reset <self> <cbOnCctx> <n> <client>*n
//   tx <vmOk> <n> <log>*n          log := o | u | b | s <src> <dst> <seq> <hasData> <bytes> <sha256> <tok|-> <amt>
//   hook <n> <log>*n
//   recv <packet 8 fields> <verifyOk> <relayerFound> <cbVmOk> <cbCode> <n> <log>*n
//   ack <packet 8 fields> <verifyOk> <code> <relayerFound> <cbOk>
//   client <name>
//   commit
// output:  <ok|vmfail|hookfail|err|ack<code>|ackerr> N:<dst=next,…> K:<dst=contract next,…> C:<dst/seq=hash,…> E:<tok/dst=amt,…> R:<#receipts>

import (
	"bytes"
	"crypto/sha256"
	"encoding/hex"
	"fmt"
	"math/big"
	"math/rand"
	"sort"
	"strconv"
	"strings"
	"testing"

	"github.com/ethereum/go-ethereum/common"
	"github.com/ethereum/go-ethereum/crypto"
	ethtypes "github.com/ethereum/go-ethereum/core/types"

	"github.com/cosmos/cosmos-sdk/simapp/helpers"
	sdk "github.com/cosmos/cosmos-sdk/types"
	upgradetypes "github.com/cosmos/cosmos-sdk/x/upgrade/types"
	abci "github.com/tendermint/tendermint/abci/types"

	evm "github.com/tharsis/ethermint/x/evm/types"

	"github.com/teleport-network/teleport/syscontracts"
	agentcontract "github.com/teleport-network/teleport/syscontracts/xibc_agent"
	endpointcontract "github.com/teleport-network/teleport/syscontracts/xibc_endpoint"
	packetcontract "github.com/teleport-network/teleport/syscontracts/xibc_packet"
	tsstypes "github.com/teleport-network/teleport/x/xibc/clients/tss-client/types"
	clienttypes "github.com/teleport-network/teleport/x/xibc/core/client/types"
	"github.com/teleport-network/teleport/x/xibc/core/host"
	packettypes "github.com/teleport-network/teleport/x/xibc/core/packet/types"
)

const (
	c04Unk     = "nochain-7"
	c04Relayer = "0x1111111111111111111111111111111111111111"
)

// ---- observation ----------------------------------------------------------------------------

type c04Sent struct {
	dst   string
	seq   uint64
	bytes []byte
}

type c04Recvd struct {
	p         packettypes.Packet
	nestedDst string
	cbCode    int
}

type c04Hist struct {
	w        *c04World
	r        *Rec
	ops      []string
	universe map[string]bool
	sent     map[string][]c04Sent // per dst: EventSendPacket observed (oracle ground truth of "successful send")
	acked    map[string]bool      // dst/seq accepted acknowledgements
	selfCl   bool                 // a client under the chain's own name exists (property hypothesis violated)
	cb       bool
	recvd    []c04Recvd // accepted receives (for replays; after an upgrade the receipts are gone and a replay runs its callback again)
	nextRecv uint64
	plannedDel  *big.Int          // delegation of the multicall contract while a mixed transaction is planned
	undelegations int
	clientNames map[string]bool   // OWN record: names for which a client was created (exact string); cleared by an upgrade
	nearTag     string            // near-miss class of the destination of the single send being delivered
	nearDst     string
	nearRot     int
	mixedOrder  string            // plan of the mixed transaction being sent (S send, K staking, G gov, E erc20, F foreign)
	hot         string            // wide histories: destination planted at 2^64-2 / 2^64-3
	base        map[string]uint64 // planted counters: dst -> n-1
	pendingTags []string // non-default field values of the call(s) being sent (counted when the send commits)
	lastRaws  [][]byte // payloads of the genuine PacketSent logs of the last classified receipt (as emitted)
	restarted int // number of restarts from exported genesis in this history
	upgraded int  // number of software upgrades applied in this history
	mode     int  // 0 normal, 1 own-name witness, 2 upgrade-heavy
	rg       *rand.Rand // PRNG of this history (sub-seed drawn from r.Rng and recorded in the `gen` line for replays)
}

func (h *c04Hist) see(d string) { h.universe[d] = true }

func (h *c04Hist) dsts() []string {
	var l []string
	for d := range h.universe {
		l = append(l, d)
	}
	sort.Slice(l, func(i, j int) bool { return hxs(l[i]) < hxs(l[j]) })
	return l
}

func (w *c04World) view(abiC evm.CompiledContract, to common.Address, method string, args ...interface{}) ([]byte, error) {
	cctx, _ := w.A.GetContext().CacheContext()
	res, err := w.A.App.XIBCKeeper.PacketKeeper.CallEVM(cctx, abiC.ABI, packettypes.ModuleAddress, to, method, args...)
	if err != nil {
		return nil, err
	}
	return res.Ret, nil
}

func (w *c04World) contractNext(dst string) string {
	ret, err := w.view(packetcontract.PacketContract, packetcontract.PacketContractAddress, "getNextSequenceSend", dst)
	if err != nil {
		return "viewerr"
	}
	return new(big.Int).SetBytes(ret).String()
}

func (w *c04World) tokenAddr(i int) common.Address {
	switch i {
	case 0, 1:
		return w.tok[i]
	case 2:
		return w.bnd
	}
	return common.Address{}
}

func (w *c04World) tokenIndex(s string) int {
	for i := 0; i < 4; i++ {
		if strings.EqualFold(w.tokenAddr(i).String(), s) {
			return i
		}
	}
	return -1
}

func (w *c04World) outTokens(tok int, dst string) string {
	ret, err := w.view(endpointcontract.EndpointContract, endpointcontract.EndpointContractAddress, "outTokens", w.tokenAddr(tok), dst)
	if err != nil {
		return "viewerr"
	}
	return new(big.Int).SetBytes(ret).String()
}

func (h *c04Hist) dump() string {
	w := h.w
	ctx := w.A.GetContext()
	pk := w.A.App.XIBCKeeper.PacketKeeper
	ds := h.dsts()
	var n, k, c, e []string
	seqs := w.rawSendSeqs()
	sort.Slice(seqs, func(i, j int) bool { return hxs(seqs[i].DstChain) < hxs(seqs[j].DstChain) })
	for _, s := range seqs {
		pre := ""
		if s.SrcChain != w.self {
			pre = "src!" + hxs(s.SrcChain) + "/"
		}
		n = append(n, pre+hxs(s.DstChain)+"="+strconv.FormatUint(s.Sequence, 10))
	}
	for _, d := range ds {
		k = append(k, hxs(d)+"="+w.contractNext(d))
	}
	cms := pk.GetAllPacketCommitments(ctx)
	sort.Slice(cms, func(i, j int) bool {
		if cms[i].DstChain != cms[j].DstChain {
			return hxs(cms[i].DstChain) < hxs(cms[j].DstChain)
		}
		return cms[i].Sequence < cms[j].Sequence
	})
	for _, m := range cms {
		pre := ""
		if m.SrcChain != w.self {
			pre = "src!" + hxs(m.SrcChain) + "/"
		}
		c = append(c, pre+hxs(m.DstChain)+"/"+strconv.FormatUint(m.Sequence, 10)+"="+hx(m.Data))
	}
	for t := 0; t < 4; t++ {
		for _, d := range ds {
			if v := w.outTokens(t, d); v != "0" {
				e = append(e, fmt.Sprintf("%d/%s=%s", t, hxs(d), v))
			}
		}
	}
	j := func(l []string) string {
		if len(l) == 0 {
			return "-"
		}
		return strings.Join(l, ",")
	}
	return "N:" + j(n) + " K:" + j(k) + " C:" + j(c) + " E:" + j(e) + " R:" + strconv.Itoa(len(pk.GetAllPacketReceipts(ctx)))
}

// rawSendSeqs reads the next-send counters straight from the xibc store (keys nextSequenceSend/<src>/<dst>, value
// big-endian uint64) — not through the keeper's export helper GetAllPacketSendSeqs, so that a defect of the export path
// shows where it acts (restart), not in every dump
func (w *c04World) rawSendSeqs() []packettypes.PacketSequence {
	ctx := w.A.GetContext()
	st := ctx.KVStore(w.A.App.GetKey(host.StoreKey))
	it := sdk.KVStorePrefixIterator(st, []byte(host.KeyNextSeqSendPrefix+"/"))
	defer it.Close()
	var out []packettypes.PacketSequence
	for ; it.Valid(); it.Next() {
		parts := strings.Split(string(it.Key()), "/")
		src, dst := "?", string(it.Key())
		if len(parts) == 3 {
			src, dst = parts[1], parts[2]
		}
		out = append(out, packettypes.PacketSequence{SrcChain: src, DstChain: dst, Sequence: sdk.BigEndianToUint64(it.Value())})
	}
	return out
}

// digest of everything a failed send must leave alone: the whole xibc store, the whole EVM store (code and
// storage of every contract: token balances, allowances, outTokens, bindings, contract sequences, fees) and the
// native balances of the accounts a send can touch.
func (w *c04World) stateDigest(skipReceiptsAcks bool) string {
	ctx := w.A.GetContext()
	hsh := sha256.New()
	for _, name := range []string{host.StoreKey, evm.StoreKey} {
		st := ctx.KVStore(w.A.App.GetKey(name))
		it := st.Iterator(nil, nil)
		for ; it.Valid(); it.Next() {
			k := it.Key()
			if skipReceiptsAcks && name == host.StoreKey && (bytes.Contains(k, []byte(host.KeyPacketReceiptPrefix+"/")) || bytes.Contains(k, []byte(host.KeyPacketAckPrefix+"/"))) {
				continue
			}
			hsh.Write([]byte(fmt.Sprintf("%d:%x=%d:%x;", len(k), k, len(it.Value()), it.Value())))
		}
		it.Close()
	}
	for _, a := range []common.Address{w.A.SenderAddress, w.multi, endpointcontract.EndpointContractAddress, packetcontract.PacketContractAddress, agentcontract.AgentContractAddress} {
		hsh.Write([]byte(w.A.App.BankKeeper.GetAllBalances(ctx, sdk.AccAddress(a.Bytes())).String() + ";"))
	}
	return hex.EncodeToString(hsh.Sum(nil))
}

// ---- delivering -------------------------------------------------------------------------------

type c04TxOut struct {
	sdkErr error
	vmErr  string
	logs   []*ethtypes.Log
	events []abci.Event
}

func (w *c04World) deliverEth(to common.Address, value *big.Int, data []byte) c04TxOut {
	var out c04TxOut
	ctx := w.A.GetContext()
	tx := w.signedTx(ctx, to, value, data)
	stx, err := tx.BuildTx(w.A.TxConfig.NewTxBuilder(), w.A.App.EvmKeeper.GetParams(ctx).EvmDenom)
	c04Must(err)
	_, res, err := w.A.App.BaseApp.Deliver(w.A.TxConfig.TxEncoder(), stx)
	if err != nil {
		out.sdkErr = err
		return out
	}
	rsp, err := evm.DecodeTxResponse(res.Data)
	c04Must(err)
	out.vmErr = rsp.VmError
	out.logs = evm.LogsToEthereum(rsp.Logs)
	out.events = res.Events
	return out
}

func (w *c04World) deliverMsg(msg sdk.Msg) (*sdk.Result, error) {
	ctx := w.A.GetContext()
	acc := w.A.App.AccountKeeper.GetAccount(ctx, w.A.SenderAcc)
	tx, err := helpers.GenTx(w.A.TxConfig, []sdk.Msg{msg}, sdk.Coins{sdk.NewInt64Coin(sdk.DefaultBondDenom, 0)}, helpers.DefaultGenTxGas*20,
		w.A.ChainID, []uint64{acc.GetAccountNumber()}, []uint64{acc.GetSequence()}, w.A.SenderPrivKey)
	c04Must(err)
	_, res, err := w.A.App.BaseApp.Deliver(w.A.TxConfig.TxEncoder(), tx)
	return res, err
}

// typed EventSendPacket events of an ABCI event list
func c04SendEvents(evs []abci.Event) []packettypes.EventSendPacket {
	var out []packettypes.EventSendPacket
	for _, e := range evs {
		if !strings.HasSuffix(e.Type, "EventSendPacket") {
			continue
		}
		m, err := sdk.ParseTypedEvent(e)
		if err != nil {
			continue
		}
		if sp, ok := m.(*packettypes.EventSendPacket); ok {
			out = append(out, *sp)
		}
	}
	return out
}

func c04AckEvents(evs []abci.Event) []packettypes.EventWriteAck {
	var out []packettypes.EventWriteAck
	for _, e := range evs {
		if !strings.HasSuffix(e.Type, "EventWriteAck") {
			continue
		}
		if m, err := sdk.ParseTypedEvent(e); err == nil {
			if a, ok := m.(*packettypes.EventWriteAck); ok {
				out = append(out, *a)
			}
		}
	}
	return out
}

// ---- op-line encoding -----------------------------------------------------------------------

func c04B(b bool) string {
	if b {
		return "1"
	}
	return "0"
}

// packet fields of the op line; bytes = ABIPack of the decoded packet (what CommitPacket hashes)
func (w *c04World) packetFields(p *packettypes.Packet, knownBytes bool) string {
	return w.packetFieldsRaw(p, knownBytes, nil)
}

// packetFieldsRaw: with `raw` (the payload the packet contract EMITTED, taken from the PacketSent log) the op line carries
// those bytes and their hash — the model commits to sha256 of the emitted bytes (decode-then-encode is the identity, C19)
func (w *c04World) packetFieldsRaw(p *packettypes.Packet, knownBytes bool, raw []byte) string {
	bz, hs := "-", "-"
	if knownBytes {
		b := raw
		if b == nil {
			var err error
			b, err = p.ABIPack()
			c04Must(err)
		}
		s := sha256.Sum256(b)
		bz, hs = hx(b), hx(s[:])
	}
	tok, amt := "-", "0"
	if len(p.TransferData) > 0 {
		var td packettypes.TransferData
		if td.ABIDecode(p.TransferData) == nil {
			// a bound token going back to its origin chain is burnt (bindings), not escrowed (outTokens)
			if i := w.tokenIndex(td.Token); i >= 0 && td.OriToken == "" {
				tok, amt = strconv.Itoa(i), new(big.Int).SetBytes(td.Amount).String()
			}
		}
	}
	return strings.Join([]string{hxs(p.SrcChain), hxs(p.DstChain), strconv.FormatUint(p.Sequence, 10),
		c04B(len(p.CallData) != 0 || len(p.TransferData) != 0), bz, hs, tok, amt}, " ")
}

// classification of a receipt log exactly as the property reads it (independent re-implementation of the
// filter: packet-contract address, PacketSent topic, payload decodes to a packet)
func (h *c04Hist) classify(l *ethtypes.Log) (string, *packettypes.Packet) {
	s, p, _ := h.classifyRaw(l)
	return s, p
}

func (h *c04Hist) classifyRaw(l *ethtypes.Log) (string, *packettypes.Packet, []byte) {
	w := h.w
	if l.Address != packetcontract.PacketContractAddress || len(l.Topics) == 0 {
		return "o", nil, nil
	}
	if l.Topics[0] != w.sentTopic {
		if _, err := packetcontract.PacketContract.ABI.EventByID(l.Topics[0]); err != nil {
			return "u", nil, nil
		}
		return "o", nil, nil
	}
	vals, err := packetcontract.PacketContract.ABI.Unpack(packettypes.PacketSendEvent, l.Data)
	if err != nil || len(vals) == 0 {
		return "b", nil, nil
	}
	raw, ok := vals[0].([]byte)
	if !ok {
		return "b", nil, nil
	}
	var p packettypes.Packet
	if err := p.ABIDecode(raw); err != nil {
		return "b", nil, nil
	}
	h.see(p.DstChain)
	return "s " + w.packetFieldsRaw(&p, true, raw), &p, raw
}

func (h *c04Hist) logsField(logs []*ethtypes.Log) (string, []*packettypes.Packet) {
	parts := []string{strconv.Itoa(len(logs))}
	var ps []*packettypes.Packet
	h.lastRaws = nil
	for _, l := range logs {
		s, p, raw := h.classifyRaw(l)
		parts = append(parts, s)
		if p != nil {
			ps = append(ps, p)
			h.lastRaws = append(h.lastRaws, raw)
		}
	}
	return strings.Join(parts, " "), ps
}

// ---- oracle ---------------------------------------------------------------------------------

func (h *c04Hist) find(sig, what, obs, req string) {
	h.r.Find(Finding{Sig: sig, What: what, Ops: append([]string{}, h.ops...), Obs: obs, Req: req})
}

// noteSends records the EventSendPacket events of a committed operation (ground truth of successful sends).
func (h *c04Hist) noteSends(evs []packettypes.EventSendPacket) {
	for _, e := range evs {
		if e.SrcChain != h.w.self {
			continue // relay-branch event of a self-named client history (src is always self there, kept for safety)
		}
		q, _ := strconv.ParseUint(e.Sequence, 10, 64)
		if !h.clientNames[e.DstChain] { // own record, exact string — not the client keeper's lookup
			cls := h.nearMissClass(e.DstChain)
			h.find("C04:send-to-unknown-destination-committed:"+cls, "a send to a destination for which no client of exactly that name was created was committed",
				fmt.Sprintf("dst %q seq %s (class %s); commitment, both counters and the escrow of a phantom destination", e.DstChain, e.Sequence, cls), "the send fails and changes nothing")
		}
		if h.hasCaseSibling(e.DstChain) {
			h.r.Count("send.ok.case-sibling")
		}
		h.sent[e.DstChain] = append(h.sent[e.DstChain], c04Sent{e.DstChain, q, e.Packet})
		h.see(e.DstChain)
	}
}

// invariants: the property's own statement on the real chain's state (skipped once a self-named client exists)
func (h *c04Hist) invariants() {
	if h.selfCl {
		return
	}
	w := h.w
	ctx := w.A.GetContext()
	pk := w.A.App.XIBCKeeper.PacketKeeper
	for _, d := range h.dsts() {
		ss := h.sent[d]
		base := h.base[d] // packets sent to d before the history started (planted counter - 1); 0 normally and after an upgrade
		next := pk.GetNextSequenceSend(ctx, w.self, d)
		if next != base+uint64(len(ss))+1 {
			h.find("C04:gap-free-counter", "chain counter ≠ base + successful sends + 1", fmt.Sprintf("dst %q next=%d base=%d sends=%d", d, next, base, len(ss)), "next = base+k+1")
		}
		for i, s := range ss {
			if s.seq != base+uint64(i)+1 {
				h.find("C04:gap-free-order", "i-th successful send does not carry sequence base+i", fmt.Sprintf("dst %q i=%d seq=%d base=%d", d, i+1, s.seq, base), "seq = base+i")
			}
		}
		if next == 0 || (len(ss) > 0 && ss[len(ss)-1].seq == ^uint64(0)) {
			h.find("C04:counter-wrapped", "the uint64 next-send counter wrapped", fmt.Sprintf("dst %q next=%d", d, next), "a send carrying 2^64-1 fails; the counter stays at 2^64-1")
		}
		if cn := w.contractNext(d); cn != strconv.FormatUint(next, 10) {
			h.find("C04:counters-disagree", "chain counter ≠ packet contract counter", fmt.Sprintf("dst %q chain=%d contract=%s", d, next, cn), "equal")
		}
	}
	cms := pk.GetAllPacketCommitments(ctx)
	have := map[string][]byte{}
	for _, m := range cms {
		key := m.DstChain + "/" + strconv.FormatUint(m.Sequence, 10)
		have[key] = m.Data
		if m.SrcChain != w.self {
			h.find("C04:commitment-foreign-source", "commitment stored under another source chain", m.SrcChain+"/"+key, "source = self")
			continue
		}
		ss := h.sent[m.DstChain]
		base := h.base[m.DstChain]
		if m.Sequence <= base || m.Sequence-base > uint64(len(ss)) {
			h.find("C04:commitment-without-send", "commitment without a successful send", key, "committed sequences ⊆ base+1..base+k")
			continue
		}
		want := sha256.Sum256(ss[m.Sequence-base-1].bytes)
		if !bytes.Equal(want[:], m.Data) {
			h.find("C04:commitment-not-hash-of-sent-bytes", "commitment ≠ sha256(EventSendPacket bytes)", key, "commitment = sha256(bytes)")
		}
	}
	for d, ss := range h.sent {
		for _, s := range ss {
			key := d + "/" + strconv.FormatUint(s.seq, 10)
			if _, ok := have[key]; !ok && !h.acked[key] {
				h.find("C04:send-without-commitment", "successful send left no commitment", key, "exactly one commitment per send")
			}
		}
	}
}

// ---- operations -----------------------------------------------------------------------------

func (h *c04Hist) emit(op, res string) {
	h.ops = append(h.ops, op)
	h.r.Op(op, res+" "+h.dump())
	h.invariants()
}

// registerRelayers (re-)registers the TSS relayer for every chain it relays for: the standard clients, the extra
// destinations of wide histories and `more`
func (w *c04World) registerRelayers(more ...string) {
	chains := []string{w.tss, w.B.ChainID, w.C.ChainID}
	addrs := []string{c04Relayer, w.B.SenderAcc.String(), w.C.SenderAcc.String()}
	for _, n := range append(append([]string{}, w.extra...), more...) {
		chains = append(chains, n)
		addrs = append(addrs, c04Relayer)
	}
	w.A.App.XIBCKeeper.ClientKeeper.RegisterRelayers(w.A.GetContext(), w.tssAddr, chains, addrs)
}

func c04Pow2(n uint) *big.Int { return new(big.Int).Lsh(big.NewInt(1), n) }

// c04Boundaries: the boundary values of CROSSCUT (B) for a uint256 amount / fee
func c04Boundaries() []*big.Int {
	one := big.NewInt(1)
	var l []*big.Int
	for _, n := range []uint{31, 32, 53, 63, 64} {
		l = append(l, new(big.Int).Sub(c04Pow2(n), one), c04Pow2(n), new(big.Int).Add(c04Pow2(n), one))
	}
	l = append(l, c04Pow2(128), c04Pow2(255), new(big.Int).Sub(c04Pow2(256), one))
	e19, _ := new(big.Int).SetString("10000000000000000000", 10)
	e30, _ := new(big.Int).SetString("1000000000000000000000000000000", 10)
	return append(l, e19, e30)
}

// every field of a cross-chain call, varied
type c04Send struct {
	dst      string
	tok      int
	amt      *big.Int
	feeTok   int
	feeAmt   *big.Int
	feeOpt   uint64
	receiver string
	contract string
	callData []byte
	callback common.Address
	tags     []string // non-default field values, counted when the send commits
}

func (h *c04Hist) randSend(small bool) c04Send {
	rg := h.rg
	s := c04Send{dst: h.randDst(), tok: []int{0, 0, 1, 1, 3}[rg.Intn(5)], receiver: c04Relayer, feeAmt: big.NewInt(0)}
	s.feeTok = s.tok
	// amount
	switch x := rg.Intn(16); {
	case x == 0:
		s.amt = big.NewInt(0)
	case x == 1:
		s.amt = big.NewInt(1)
	case x == 2:
		s.amt = big.NewInt(1_000_000_000)
	case x == 3:
		s.amt = big.NewInt(2501)
	case x < 7 && !small:
		bs := c04Boundaries()
		s.amt = bs[rg.Intn(len(bs))]
		s.tags = append(s.tags, "amount.boundary")
		if s.amt.BitLen() > 33 {
			s.tok, s.feeTok = 1, 1 // the token with a balance / allowance large enough
		}
		if s.amt.BitLen() > 64 {
			s.tags = append(s.tags, "amount.ge2^64")
		}
	default:
		s.amt = big.NewInt(int64(1 + rg.Intn(400)))
	}
	// fee option: the whole uint64 range
	if rg.Intn(2) == 0 {
		opts := []uint64{1, 2, 3, 255, 1<<31 - 1, 1 << 32, 1<<53 + 1, 1<<63 - 1, 1 << 63, ^uint64(0)}
		s.feeOpt = opts[rg.Intn(len(opts))]
		s.tags = append(s.tags, "feeopt.nonzero")
		if s.feeOpt > 3 {
			s.tags = append(s.tags, "feeopt.out-of-range")
		}
		if s.feeOpt >= 1<<63 {
			s.tags = append(s.tags, "feeopt.ge2^63")
		}
	}
	// fee token / amount
	if rg.Intn(3) == 0 {
		switch rg.Intn(5) {
		case 0:
			s.feeAmt = big.NewInt(1)
		case 1:
			s.feeAmt = big.NewInt(int64(2 + rg.Intn(50)))
		case 2:
			s.feeAmt = c04Pow2(64)
		case 3:
			s.feeAmt = c04Pow2(128)
		case 4:
			s.feeAmt = new(big.Int).Sub(c04Pow2(256), big.NewInt(1))
		}
		if rg.Intn(3) == 0 {
			s.feeTok = []int{0, 1, 3}[rg.Intn(3)]
		}
		s.tags = append(s.tags, "fee.nonzero")
		if s.feeTok != s.tok {
			s.tags = append(s.tags, "fee.other-token")
		}
	}
	// receiver
	if rg.Intn(3) == 0 {
		rs := []string{strings.ToUpper(c04Relayer), "", strings.Repeat("r", 300), "alice", "0x" + strings.Repeat("Ab", 20), c04Relayer + "00"}
		s.receiver = rs[rg.Intn(len(rs))]
		s.tags = append(s.tags, "receiver.other")
	}
	// contract call
	if rg.Intn(3) == 0 {
		cs := []string{"0x2222222222222222222222222222222222222222", "0x2222222222222222222222222222222222222222", strings.ToUpper("0x2222222222222222222222222222222222222222"), "", "not-an-address", strings.Repeat("c", 200)}
		s.contract = cs[rg.Intn(len(cs))]
		ls := []int{0, 1, 4, 31, 32, 33, 200, 1500}
		s.callData = make([]byte, ls[rg.Intn(len(ls))])
		rg.Read(s.callData)
		s.tags = append(s.tags, "calldata.present")
		if len(s.callData) > 32 {
			s.tags = append(s.tags, "calldata.long")
		}
	}
	// callback
	if rg.Intn(4) == 0 {
		cbs := []common.Address{common.HexToAddress("0x77"), agentcontract.AgentContractAddress, h.w.fake, common.HexToAddress("0x" + strings.Repeat("ff", 20))}
		s.callback = cbs[rg.Intn(len(cbs))]
		s.tags = append(s.tags, "callback.nonzero")
	}
	h.nearTag, h.nearDst = "", ""
	if !small && rg.Intn(100) < 14 {
		if d, tag := h.nearMiss(); d != "" {
			h.nearTag, h.nearDst, s.dst = tag, d, d
		}
	}
	if h.nearTag != "" && !small {
		// a near miss of a client name: everything else about the call is plain, so that it reaches the packet hook and is
		// refused THERE (not by an allowance or a receiver check of the endpoint)
		s.tok, s.feeTok, s.amt, s.feeAmt = 1, 1, big.NewInt(int64(1+rg.Intn(50))), big.NewInt(0)
		s.receiver, s.contract, s.callData, s.callback = c04Relayer, "", nil, common.Address{}
	}
	return s
}

func (w *c04World) ccPack(s c04Send) ([]byte, *big.Int) {
	d := packettypes.CrossChainData{DstChain: s.dst, TokenAddress: w.tokenAddr(s.tok), Receiver: s.receiver, Amount: s.amt,
		ContractAddress: s.contract, CallData: s.callData, CallbackAddress: s.callback, FeeOption: s.feeOpt}
	fee := packettypes.Fee{TokenAddress: w.tokenAddr(s.feeTok), Amount: s.feeAmt}
	b, err := endpointcontract.EndpointContract.ABI.Pack("crossChainCall", d, fee)
	c04Must(err)
	val := big.NewInt(0)
	if s.tok == 3 {
		val.Add(val, s.amt)
	}
	if s.feeTok == 3 {
		val.Add(val, s.feeAmt)
	}
	if val.BitLen() > 200 {
		val = big.NewInt(0) // cannot even be funded: the call reverts on value mismatch, which is the point
	}
	return b, val
}

// dry: CROSSCUT (D) — the same handler on a context that is DROPPED (what Simulate, CheckTx, a proposal dry run and a
// failed multi-message transaction do), before the real delivery. Nothing may remain (keeper-level memos that ignore the
// context would) and the real delivery that follows must behave as the model says.
func (h *c04Hist) dry(kind string, f func(ctx sdk.Context)) {
	w := h.w
	before := w.stateDigest(false)
	cctx, _ := w.A.GetContext().CacheContext()
	safely(func() { f(cctx) })
	if w.stateDigest(false) != before {
		h.find("C04:discarded-execution-left-trace", "a handler run on a dropped context changed the committed-to state", kind, "nothing changes")
	}
	h.r.Count("dry")
	h.r.Count("dry." + kind)
	h.emit("dry "+kind, "ok")
}

func (h *c04Hist) dryTx(to common.Address, value *big.Int, data []byte) {
	w := h.w
	if h.rg.Intn(2) == 0 {
		h.dry("tx-cache", func(cctx sdk.Context) {
			_, _ = w.A.App.EvmKeeper.EthereumTx(sdk.WrapSDKContext(cctx), w.signedTx(cctx, to, value, data))
		})
		return
	}
	h.dry("tx-simulate", func(_ sdk.Context) {
		ctx := w.A.GetContext()
		stx, err := w.signedTx(ctx, to, value, data).BuildTx(w.A.TxConfig.NewTxBuilder(), w.A.App.EvmKeeper.GetParams(ctx).EvmDenom)
		c04Must(err)
		bz, err := w.A.TxConfig.TxEncoder()(stx)
		c04Must(err)
		_, _, _ = w.A.App.BaseApp.Simulate(bz)
		_ = w.A.App.BaseApp.CheckTx(abci.RequestCheckTx{Tx: bz, Type: abci.CheckTxType_New})
	})
}

// doTx delivers one real Ethereum transaction and records it
func (h *c04Hist) doTx(kind string, to common.Address, value *big.Int, data []byte) {
	w := h.w
	if h.rg.Intn(100) < 10 {
		h.dryTx(to, value, data)
	}
	before := w.stateDigest(false)
	out := w.deliverEth(to, value, data)
	if out.sdkErr != nil {
		// rejected before the EVM ran (ante handler): nothing is executed; recorded as a failed VM run
		h.r.Count("tx.sdkerr")
		if w.stateDigest(false) != before {
			h.find("C04:failed-tx-changed-state", "transaction rejected by the SDK layer changed send state", out.sdkErr.Error(), "state unchanged")
		}
		h.emit("tx 0 0", "vmfail")
		return
	}
	vmOk := out.vmErr == "" || out.vmErr == evm.ErrPostTxProcessing.Error()
	var lf string
	var ps []*packettypes.Packet
	if vmOk {
		lf, ps = h.logsField(out.logs)
	} else {
		lf = "0"
	}
	res := "ok"
	switch {
	case !vmOk:
		res = "vmfail"
	case out.vmErr != "":
		res = "hookfail"
	}
	evs := c04SendEvents(out.events)
	if res == "ok" {
		h.noteSends(evs)
		// the committed transaction's genuine PacketSent logs and its EventSendPacket events must pair up
		if len(evs) != len(ps) {
			h.find("C04:sends-vs-logs", "EventSendPacket events ≠ genuine PacketSent logs of a committed transaction", fmt.Sprintf("%d events, %d logs", len(evs), len(ps)), "one send per genuine log")
		} else {
			for i, p := range ps {
				if evs[i].DstChain != p.DstChain || evs[i].Sequence != strconv.FormatUint(p.Sequence, 10) {
					h.find("C04:sends-vs-logs", "EventSendPacket does not match the PacketSent log", evs[i].DstChain+"/"+evs[i].Sequence, p.DstChain)
				}
			}
		}
		h.checkEmitted(ps, h.lastRaws, evs)
		for _, p := range ps {
			if p.Sequence >= 1<<63 {
				h.r.Count("send.ok.seq-ge2^63")
			}
			if p.Sequence == ^uint64(0)-1 {
				h.r.Count("send.ok.seq-max-1")
			}
			if len(w.extra) > 0 {
				h.r.Count("send.ok.wide")
			}
		}
		if kind == "mixed" {
			h.countMixed(out)
		}
		if kind == "send" && len(ps) == 1 {
			for _, tg := range h.pendingTags {
				h.r.Count("sendfield." + tg)
			}
			if ps[0].FeeOption != 0 {
				h.r.Count("sendfield.emitted-feeopt-nonzero")
			}
		}
		if len(ps) > 0 {
			h.r.Count("send.ok")
			if h.upgraded > 0 {
				h.r.Count("send.ok.after-upgrade")
			}
			if h.restarted > 0 {
				h.r.Count("send.ok.after-restart")
			}
			h.r.Nontrivial(strings.Join(h.ops, ";") + lf)
		}
		if len(ps) > 1 {
			h.r.Count("send.ok.multi-in-one-tx")
		}
	} else {
		if len(evs) != 0 {
			h.find("C04:failed-tx-emitted-send", "failed transaction emitted EventSendPacket", out.vmErr, "no send")
		}
		for _, p := range ps {
			if p.Sequence == ^uint64(0) {
				h.r.Count("send.at-max.rejected")
			}
		}
		if after := w.stateDigest(false); after != before {
			h.find("C04:failed-tx-changed-state", "failed transaction changed xibc store / contract storage / balances", kind+" "+out.vmErr, "state identical before and after")
		}
	}
	if kind == "send" && h.nearTag != "" {
		reached := false
		for _, p := range ps {
			if p.DstChain == h.nearDst {
				reached = true
			}
		}
		switch {
		case res == "ok" && reached:
			h.r.Count("send.nearmiss." + h.nearTag + ".committed")
		case reached:
			h.r.Count("send.nearmiss." + h.nearTag + ".refused")
			h.r.Count("send.nearmiss.refused")
			if strings.Contains(h.nearTag, "case") {
				h.r.Count("send.nearmiss.case-variant.refused")
			} else {
				h.r.Count("send.nearmiss.prefix-or-extension.refused")
			}
		default:
			h.r.Count("send.nearmiss." + h.nearTag + ".reverted-in-evm")
		}
	}
	h.nearTag, h.nearDst = "", ""
	h.pendingTags = nil
	h.r.Count("tx." + kind + "." + res)
	h.emit("tx "+c04B(vmOk)+" "+lf, res)
}

// checkEmitted: for every genuine PacketSent log of a committed operation — the stored commitment is sha256 of the bytes
// the packet contract EMITTED (payload of the log, decoded with the contract ABI only), it is also sha256 of the bytes
// of the chain's EventSendPacket, and the two byte strings are equal
func (h *c04Hist) checkEmitted(ps []*packettypes.Packet, raws [][]byte, evs []packettypes.EventSendPacket) {
	if h.selfCl || len(ps) != len(raws) {
		return
	}
	pk := h.w.A.App.XIBCKeeper.PacketKeeper
	for i, p := range ps {
		key := p.DstChain + "/" + strconv.FormatUint(p.Sequence, 10)
		want := sha256.Sum256(raws[i])
		got := pk.GetPacketCommitment(h.w.A.GetContext(), h.w.self, p.DstChain, p.Sequence)
		if !bytes.Equal(got, want[:]) {
			h.find("C04:commitment-not-hash-of-emitted-log", "a PacketSent log of the packet contract in the receipt of a committed transaction has no commitment equal to sha256(its payload)",
				fmt.Sprintf("%s commitment %x, sha256(emitted) %x", key, got, want[:]), "commitment = sha256(emitted packet bytes) for every emitted packet")
		}
		if len(evs) == len(ps) && !bytes.Equal(evs[i].Packet, raws[i]) {
			h.find("C04:event-bytes-differ-from-emitted-log", "EventSendPacket bytes ≠ bytes emitted by the packet contract", key, "the chain announces the packet the contract emitted")
		}
		h.r.Count("send.emitted-checked")
	}
}

func (h *c04Hist) forgedPacket(dst string, seq uint64, src string, data bool) packettypes.Packet {
	p := packettypes.Packet{SrcChain: src, DstChain: dst, Sequence: seq, Sender: "0xabc", CallbackAddress: "", FeeOption: 0}
	if data {
		p.CallData = []byte{1, 2, 3}
	}
	return p
}

func (h *c04Hist) sentLogData(p packettypes.Packet) []byte {
	bz, err := p.ABIPack()
	c04Must(err)
	data, err := packetcontract.PacketContract.ABI.Events[packettypes.PacketSendEvent].Inputs.Pack(bz)
	c04Must(err)
	return data
}

// random forged / malformed log for `hook` and for the look-alike emitter
func (h *c04Hist) randomForgedPacket() packettypes.Packet {
	w, rg := h.w, h.rg
	ds := []string{w.B.ChainID, w.C.ChainID, w.tss, c04Unk}
	dst := ds[rg.Intn(len(ds))]
	if rg.Intn(8) == 0 {
		if d, tag := h.nearMiss(); d != "" {
			dst = d
			h.r.Count("hook.nearmiss." + tag)
		}
	}
	next := w.A.App.XIBCKeeper.PacketKeeper.GetNextSequenceSend(w.A.GetContext(), w.self, dst)
	p := h.forgedPacket(dst, next, w.self, true)
	if rg.Intn(3) == 0 { // forged packets vary the fields a genuine one varies
		p.FeeOption = []uint64{1, 2, 1 << 63, ^uint64(0)}[rg.Intn(4)]
		p.CallbackAddress = "0x0000000000000000000000000000000000000077"
	}
	switch rg.Intn(18) {
	case 0:
		p.Sequence = next + 1
	case 1:
		if next > 1 {
			p.Sequence = next - 1
		} else {
			p.Sequence = 0
		}
	case 2:
		p.Sequence = 0
	case 3:
		p.SrcChain = w.B.ChainID
	case 4:
		p.DstChain = w.self
	case 5:
		p.DstChain = ""
	case 6:
		p.SrcChain = ""
	case 7:
		p.CallData = nil
	case 8:
		p.Sequence = ^uint64(0)
	}
	return p
}

func (h *c04Hist) doHook() {
	w, rg := h.w, h.rg
	n := 1 + rg.Intn(3)
	var logs []*ethtypes.Log
	for i := 0; i < n; i++ {
		l := &ethtypes.Log{Address: packetcontract.PacketContractAddress, Topics: []common.Hash{w.sentTopic}}
		p := h.randomForgedPacket()
		if i > 0 && rg.Intn(2) == 0 {
			// continue the sequence of an earlier forged log to the same destination so that several succeed in a row
			for _, q := range logs {
				if q.Address == packetcontract.PacketContractAddress && len(q.Topics) > 0 && q.Topics[0] == w.sentTopic {
					if _, pp := h.classify(q); pp != nil && pp.DstChain == p.DstChain && pp.Sequence >= p.Sequence {
						p.Sequence = pp.Sequence + 1
					}
				}
			}
		}
		l.Data = h.sentLogData(p)
		switch rg.Intn(16) {
		case 0:
			l.Address = w.fake // look-alike address
		case 1:
			l.Topics = nil
		case 2:
			l.Topics = []common.Hash{common.HexToHash("0x1234")} // unknown event id from the packet contract address
		case 3:
			l.Data = l.Data[:len(l.Data)/2] // truncated payload
		case 4:
			l.Data = append([]byte{}, bytes.Repeat([]byte{0xff}, 64)...)
		}
		logs = append(logs, l)
	}
	lf, ps := h.logsField(logs)
	hookRaws := h.lastRaws
	ctx := w.A.GetContext()
	cctx, write := ctx.CacheContext()
	before := w.stateDigest(false)
	var err error
	if pan, msg := safely(func() {
		err = w.A.App.XIBCKeeper.PacketKeeper.Hooks().PostTxProcessing(cctx, nil, &ethtypes.Receipt{Logs: logs})
	}); pan {
		h.find("C04:hook-panic", "PostTxProcessing panicked", msg, "error or nil")
		err = fmt.Errorf("panic")
	}
	res := "hookfail"
	if err == nil {
		write()
		res = "ok"
		hevs := c04SendEvents(cctx.EventManager().ABCIEvents())
		h.noteSends(hevs)
		h.checkEmitted(ps, hookRaws, hevs)
		if len(ps) > 0 {
			h.r.Count("hook.ok.sends")
		}
	} else if w.stateDigest(false) != before {
		h.find("C04:failed-tx-changed-state", "failed hook (discarded context) changed state", err.Error(), "unchanged")
	}
	h.r.Count("hook." + res)
	h.r.Nontrivial("hook " + lf)
	h.emit("hook "+lf, res)
}

// doUpgrade runs the repository's registered software-upgrade handler (app/upgrades.go, plan "v0.2").
// First upgrade of a history (usually): the plan is scheduled through the upgrade keeper for the next height and the
// block is committed, so x/upgrade's BeginBlocker applies it at the plan height. Otherwise (a plan name can be
// scheduled only once) UpgradeKeeper.ApplyUpgrade — the function BeginBlocker calls — is invoked directly, mid-block.
// Afterwards the test-environment step of xibctesting.NewTestChain is repeated (the packet contract's chain name lives
// in the contract storage the handler wipes); clients and relayers are gone and are re-created by `client` ops.
func (h *c04Hist) doUpgrade() {
	w := h.w
	ctx := w.A.GetContext()
	how := "beginblock"
	var perr string
	done := w.A.App.UpgradeKeeper.GetDoneHeight(ctx, "v0.2") != 0
	if !done && h.rg.Intn(4) != 0 {
		plan := upgradetypes.Plan{Name: "v0.2", Height: ctx.BlockHeight() + 1}
		c04Must(w.A.App.UpgradeKeeper.ScheduleUpgrade(ctx, plan))
		if pan, msg := safely(func() { w.coord.CommitBlock(w.A) }); pan {
			perr = msg
		} else if w.A.App.UpgradeKeeper.GetDoneHeight(w.A.GetContext(), "v0.2") != plan.Height {
			perr = "plan not executed at its height"
		}
	} else {
		how = "direct"
		if pan, msg := safely(func() {
			w.A.App.UpgradeKeeper.ApplyUpgrade(ctx, upgradetypes.Plan{Name: "v0.2", Height: ctx.BlockHeight()})
		}); pan {
			perr = msg
		}
	}
	if perr != "" {
		h.find("C04:upgrade-handler-failed", "the registered upgrade handler panicked / was not applied", perr, "handler runs")
	}
	safely(func() { w.A.SetPacketChainName() })
	h.sent = map[string][]c04Sent{}
	h.acked = map[string]bool{}
	h.base = map[string]uint64{}
	h.clientNames = map[string]bool{}
	h.selfCl = false
	h.upgraded++
	h.r.Count("upgrade")
	h.r.Count("upgrade." + how)
	h.r.Nontrivial(strings.Join(h.ops, ";") + ";upgrade")
	h.emit("upgrade", "ok")
}

// names whose client the world creates at start and an upgrade removes
func (h *c04Hist) missingClients() []string {
	w := h.w
	var l []string
	for _, n := range []string{w.B.ChainID, w.C.ChainID, w.tss} {
		if _, found := w.A.App.XIBCKeeper.ClientKeeper.GetClientState(w.A.GetContext(), n); !found {
			l = append(l, n)
		}
	}
	return l
}

func (h *c04Hist) doClient(name string) {
	w := h.w
	ctx := w.A.GetContext()
	cs, err := clienttypes.PackClientState(&tsstypes.ClientState{TssAddress: w.tssAddr})
	c04Must(err)
	cons, err := clienttypes.PackConsensusState(&tsstypes.ConsensusState{})
	c04Must(err)
	cctx, write := ctx.CacheContext() // gov handler wrapper: cache context written on nil error
	_, err = w.A.App.XIBCKeeper.ClientKeeper.HandleCreateClient(cctx, &clienttypes.CreateClientProposal{Title: "t", Description: "d", ChainName: name, ClientState: cs, ConsensusState: cons})
	res := "err"
	if err == nil {
		write()
		res = "ok"
		h.clientNames[name] = true
		if name == w.self {
			h.selfCl = true
		}
		// the TSS relayer must be registered for the new chain for acknowledgements from it
		w.registerRelayers(name)
	}
	h.see(name)
	if name == w.self {
		h.r.Count("client.own-name." + res)
	}
	h.r.Count("client." + res)
	h.emit("client "+hxs(name), res)
}

// recv kinds: 0 transfer only, 1 nested send to a known destination, 2 nested send to an unknown destination,
// 3 call data failing inside the EVM, 4 wrong TSS signer (verification fails), 5 replay, 6 source without client,
// 7 neither source nor destination is this chain, 8 src = self (relay branch; needs a self-named client)
func (h *c04Hist) doRecv(kind int) {
	w, rg := h.w, h.rg
	ctx := w.A.GetContext()
	pk := w.A.App.XIBCKeeper.PacketKeeper
	h.nextRecv++
	amt, fee := int64(2000), int64(1000)
	mkTransfer := func(receiver string) []byte {
		td := packettypes.TransferData{Receiver: strings.ToLower(receiver), Amount: common.LeftPadBytes(big.NewInt(amt).Bytes(), 32), Token: w.oriTok, OriToken: ""}
		b, err := td.ABIPack()
		c04Must(err)
		return b
	}
	mkAgentCall := func(dst string) []byte {
		cd, err := agentcontract.AgentContract.ABI.Pack("send", w.bnd, strings.ToLower(w.A.SenderAddress.String()), dst, big.NewInt(fee))
		c04Must(err)
		b, err := (&packettypes.CallData{ContractAddress: syscontracts.AgentContractAddress, CallData: cd}).ABIPack()
		c04Must(err)
		return b
	}
	agent := agentcontract.AgentContractAddress.String()
	p := packettypes.Packet{SrcChain: w.tss, DstChain: w.self, Sequence: h.nextRecv, Sender: strings.ToLower(w.A.SenderAddress.String()),
		CallbackAddress: common.Address{}.String(), FeeOption: 0}
	signer := w.tssAddr
	verifyOk, relayerFound := true, true
	cbVmOk, cbCode := true, 0
	nestedDst := ""
	switch kind {
	case 0:
		p.TransferData = mkTransfer(c04Relayer)
	case 1:
		nestedDst = []string{w.B.ChainID, w.C.ChainID, w.tss}[rg.Intn(3)]
		p.TransferData, p.CallData = mkTransfer(agent), mkAgentCall(nestedDst)
	case 2:
		nestedDst = c04Unk
		if _, found := w.A.App.XIBCKeeper.ClientKeeper.GetClientState(ctx, c04Unk); found {
			nestedDst = "nochain-8"
		}
		p.TransferData, p.CallData = mkTransfer(agent), mkAgentCall(nestedDst)
	case 3:
		p.TransferData, p.CallData = mkTransfer(agent), mkAgentCall("") // agent: "invalid dstChain" ⇒ result code 3
		cbCode = 3
	case 4:
		p.SrcChain = "tss-2"
		p.TransferData = mkTransfer(c04Relayer)
		verifyOk = false
	case 5:
		if len(h.recvd) == 0 {
			p.TransferData = mkTransfer(c04Relayer)
		} else {
			old := h.recvd[rg.Intn(len(h.recvd))]
			p, nestedDst, cbCode = old.p, old.nestedDst, old.cbCode
			h.nextRecv--
		}
	case 6:
		p.SrcChain = "nochain-9"
		p.TransferData = mkTransfer(c04Relayer)
	case 7:
		p.SrcChain, p.DstChain = w.tss, w.B.ChainID
		p.TransferData = mkTransfer(c04Relayer)
	case 8:
		p.SrcChain, p.DstChain = w.self, []string{w.B.ChainID, w.C.ChainID, c04Unk}[rg.Intn(3)]
		p.Sequence = uint64(1 + rg.Intn(4))
		p.TransferData = mkTransfer(c04Relayer)
		p.Sender = "forged"
	}
	bz, err := p.ABIPack()
	c04Must(err)
	msg := &packettypes.MsgRecvPacket{Packet: bz, ProofCommitment: []byte("x"), ProofHeight: clienttypes.NewHeight(0, 1), Signer: signer}

	// nested-send expectation by construction (before the call): sequence the contract will put into the packet
	var nestedLog string
	if nestedDst != "" {
		np := packettypes.Packet{SrcChain: w.self, DstChain: nestedDst, Sequence: 0, TransferData: []byte{1}}
		cn, _ := strconv.ParseUint(w.contractNext(nestedDst), 10, 64)
		np.Sequence = cn
		nestedLog = strings.Join([]string{"s", hxs(np.SrcChain), hxs(np.DstChain), strconv.FormatUint(np.Sequence, 10), "1", "-", "-", "2", strconv.FormatInt(amt-fee, 10)}, " ")
	}
	if h.rg.Intn(100) < 15 {
		h.dry("recv-cache", func(cctx sdk.Context) {
			_, _ = w.A.App.XIBCKeeper.RecvPacket(sdk.WrapSDKContext(cctx), msg)
		})
		if nestedDst != "" { // the sequence the contract will emit is read again after the dry run (it must be the same)
			cn2, _ := strconv.ParseUint(w.contractNext(nestedDst), 10, 64)
			if !strings.Contains(nestedLog, " "+strconv.FormatUint(cn2, 10)+" 1 - - ") {
				h.find("C04:discarded-execution-left-trace", "contract counter moved by a dropped receive", nestedDst, "unchanged")
			}
		}
	}
	h.see(p.DstChain)
	if nestedDst != "" {
		h.see(nestedDst)
	}
	before := w.stateDigest(true)
	res, derr := w.deliverMsg(msg)
	out := "err"
	logsField := "0"
	if derr == nil {
		acks := c04AckEvents(res.Events)
		sends := c04SendEvents(res.Events)
		var own []packettypes.EventSendPacket
		for _, s := range sends {
			if !(s.SrcChain == p.SrcChain && s.DstChain == p.DstChain && s.Sequence == strconv.FormatUint(p.Sequence, 10) && p.DstChain != w.self) {
				own = append(own, s)
			}
		}
		out = "ok"
		if len(acks) > 0 {
			var a packettypes.Acknowledgement
			c04Must(a.ABIDecode(acks[0].Ack))
			if a.Message == "receive packet callback failed" {
				out = "ackerr"
			} else {
				out = "ack" + strconv.FormatUint(a.Code, 10)
			}
		}
		h.noteSends(own)
		h.recvd = append(h.recvd, c04Recvd{p, nestedDst, cbCode})
		// logs of the callback: successful nested sends are read from the events (exact bytes); a failing
		// nested send is known by construction
		switch {
		case nestedDst != "" && out == "ack0" && len(own) == 1:
			var np packettypes.Packet
			c04Must(np.ABIDecode(own[0].Packet))
			logsField = "1 s " + w.packetFields(&np, true)
			h.r.Count("recv.nested-send.ok")
		case nestedDst != "":
			logsField = "1 " + nestedLog
			h.r.Count("recv.nested-send.failed")
			if after := w.stateDigest(true); after != before {
				h.find("C04:F1-nested-send-in-recv-callback", "a nested crossChainCall whose SendPacket failed inside the receive callback left state behind (callback ran on ctx, not cctx)",
					"send state (xibc counters/commitments, contract storage incl. outTokens/bindings, balances) changed although the nested send failed", "unchanged apart from receipt and acknowledgement")
			}
		}
		if kind == 8 {
			h.r.Count("recv.self-source.accepted")
		}
	} else {
		if w.stateDigest(false) != w.stateDigest(false) || w.stateDigest(true) != before {
			h.find("C04:failed-recv-changed-state", "rejected receive changed state", derr.Error(), "unchanged")
		}
		if nestedDst != "" {
			logsField = "1 " + nestedLog
		}
	}
	_ = pk
	h.r.Count(fmt.Sprintf("recv.k%d.%s", kind, out))
	op := strings.Join([]string{"recv", w.packetFields(&p, true), c04B(verifyOk), c04B(relayerFound), c04B(cbVmOk), strconv.Itoa(cbCode), logsField}, " ")
	h.r.Nontrivial(op)
	h.emit(op, out)
}

func (h *c04Hist) doAck() {
	w, rg := h.w, h.rg
	// candidates: sends towards a TSS-verified destination
	var cands []c04Sent
	for _, d := range h.dsts() { // sorted: map iteration order must not leak into the history (replays)
		ss := h.sent[d]
		if cs, found := w.A.App.XIBCKeeper.ClientKeeper.GetClientState(w.A.GetContext(), d); found && cs.ClientType() == "009-tss" || d == w.tss {
			for _, s := range ss {
				// packets sent by the agent carry the agent as callback address; what its callback does on an
				// acknowledgement is outside this model (cbOk would not be known by construction) — not acknowledged here
				var q packettypes.Packet
				// likewise packets forged through `hook` (sender is not an address: the contract side of their
				// acknowledgement is undefined)
				if q.ABIDecode(s.bytes) == nil && common.IsHexAddress(q.Sender) && (q.CallbackAddress == "" || common.HexToAddress(q.CallbackAddress) == (common.Address{})) {
					cands = append(cands, s)
				}
			}
		}
	}
	if len(cands) == 0 {
		h.r.Count("ack.none")
		return
	}
	s := cands[rg.Intn(len(cands))]
	var p packettypes.Packet
	c04Must(p.ABIDecode(s.bytes))
	code := uint64(0)
	relayer := c04Relayer
	mut := rg.Intn(8)
	switch mut {
	case 0:
		// an error acknowledgement makes the endpoint refund; for a packet without transfer data the contract side
		// reverts (observed in a thorough run: real `err`) — outside this model, so only transfers are refunded here
		if len(p.TransferData) > 0 {
			code = 1
		}
	case 1:
		p.Sender = "someone-else" // different bytes ⇒ commitment mismatch
	case 2:
		relayer = "0x3333333333333333333333333333333333333333" // unregistered relayer ⇒ message fails
	case 3:
		p.Sequence += 7
	}
	bz, err := p.ABIPack()
	c04Must(err)
	ackBz, err := packettypes.NewAcknowledgement(code, []byte{}, "", relayer, 0).ABIPack()
	c04Must(err)
	before := w.stateDigest(false)
	_, derr := w.deliverMsg(&packettypes.MsgAcknowledgement{Packet: bz, Acknowledgement: ackBz, ProofAcked: []byte("x"), ProofHeight: clienttypes.NewHeight(0, 1), Signer: w.tssAddr})
	out := "err"
	key := p.DstChain + "/" + strconv.FormatUint(p.Sequence, 10)
	if derr == nil {
		out = "ok"
		h.acked[key] = true
	} else if w.stateDigest(false) != before {
		h.find("C04:failed-ack-changed-state", "rejected acknowledgement changed state", derr.Error(), "unchanged")
	}
	h.see(p.DstChain)
	h.r.Count("ack." + out)
	op := strings.Join([]string{"ack", w.packetFields(&p, true), "1", strconv.FormatUint(code, 10), c04B(relayer == c04Relayer), "1"}, " ")
	h.emit(op, out)
}

// ---- generator ------------------------------------------------------------------------------

func (h *c04Hist) randDst() string {
	w, rg := h.w, h.rg
	if len(w.extra) > 0 && rg.Intn(10) < 6 {
		if h.hot != "" && rg.Intn(3) == 0 {
			return h.hot // the destination whose counter is about to reach 2^64-1
		}
		return w.extra[rg.Intn(len(w.extra))]
	}
	switch x := rg.Intn(20); {
	case x < 6:
		return w.B.ChainID
	case x < 11:
		return w.C.ChainID
	case x < 14:
		return w.tss
	case x < 17:
		return c04Unk
	case x < 18:
		return w.self
	case x < 19:
		return ""
	}
	return "tss-2"
}


func (h *c04Hist) genOp(witness bool) {
	w, rg := h.w, h.rg
	if h.mode == 2 && len(h.ops) > 4 && rg.Intn(100) < 7 {
		h.doUpgrade()
		return
	}
	if h.mode == 3 && len(h.ops) > 5 && rg.Intn(100) < 8 {
		h.doRestart()
		return
	}
	if h.upgraded > 0 {
		// after an upgrade every client is gone: re-create them (as TSS clients) so that sends resume
		if miss := h.missingClients(); len(miss) > 0 && rg.Intn(100) < 30 {
			h.doClient(miss[rg.Intn(len(miss))])
			return
		}
	}
	switch x := rg.Intn(100); {
	case x < 30: // single crossChainCall from the sender
		snd := h.randSend(false)
		data, val := w.ccPack(snd)
		h.pendingTags = snd.tags
		h.doTx("send", endpointcontract.EndpointContractAddress, val, data)
	case x >= 43 && x < 50: // ONE receipt mixing bridge sends with staking / gov / ERC-20 / foreign logs
		h.doMixed()
	case x < 50: // several calls in ONE transaction through the multicall contract
		h.pendingTags = nil
		n := 2 + rg.Intn(2)
		var data []byte
		total := big.NewInt(0)
		// every fourth multicall repeats its previous crossChainCall BYTE FOR BYTE: the packet contract stamps both with
		// its current counter, so the two sends carry the same sequence and the same commitment (the second must fail)
		repeat := rg.Intn(4) == 0
		var lastRec []byte
		var lastVal *big.Int
		var lastTags []string
		for i := 0; i < n; i++ {
			must := rg.Intn(4) != 0
			if repeat && lastRec != nil {
				h.pendingTags = append(h.pendingTags, lastTags...)
				total.Add(total, lastVal)
				data = append(data, lastRec...)
				h.r.Count("multi.identical-send-repeated")
				continue
			}
			switch rg.Intn(6) {
			case 0: // look-alike log, forged packet
				payload := append(w.sentTopic.Bytes(), h.sentLogData(h.randomForgedPacket())...)
				data = append(data, c04Record(w.fake, must, big.NewInt(0), payload)...)
			default:
				snd := h.randSend(true)
				d, val := w.ccPack(snd)
				h.pendingTags = append(h.pendingTags, snd.tags...)
				total.Add(total, val)
				rec := c04Record(endpointcontract.EndpointContractAddress, must, val, d)
				data = append(data, rec...)
				if repeat {
					lastRec, lastVal, lastTags = rec, val, snd.tags
				}
			}
		}
		h.doTx("multi", w.multi, total, data)
	case x < 56: // look-alike emitter called directly
		var payload []byte
		if rg.Intn(4) == 0 {
			payload = append(w.sentTopic.Bytes(), []byte("garbage")...)
		} else {
			payload = append(w.sentTopic.Bytes(), h.sentLogData(h.randomForgedPacket())...)
		}
		h.doTx("fake", w.fake, big.NewInt(0), payload)
	case x < 70:
		h.doHook()
	case x < 84:
		k := []int{0, 1, 1, 1, 2, 2, 3, 4, 5, 6, 7, 8}[rg.Intn(12)]
		h.doRecv(k)
	case x < 90:
		h.doAck()
	case x < 93:
		name := c04Unk
		if rg.Intn(3) == 0 {
			name = w.B.ChainID // exists ⇒ rejected
		}
		if witness && rg.Intn(2) == 0 {
			name = w.self
		}
		h.doClient(name)
	case x >= 98:
		h.doUpgrade()
	case x == 97:
		h.doRestart()
	default:
		w.coord.CommitBlock(w.A)
		h.r.Count("commit")
		h.emit("commit", "ok")
	}
}

func (w *c04World) fund() {
	// balances and allowances of the sender and of the multicall contract
	ctx := w.A.GetContext()
	for i := 0; i < 2; i++ {
		for _, to := range []common.Address{w.A.SenderAddress, w.multi} {
			c04ModCall(ctx, w.A, w.A.SenderAddress, w.tok[i], c04ERC20Pack("mint", to, big.NewInt(100000)))
		}
		c04ModCall(ctx, w.A, w.A.SenderAddress, w.tok[i], c04ERC20Pack("approve", endpointcontract.EndpointContractAddress, big.NewInt(2500)))
		c04ModCall(ctx, w.A, w.multi, w.tok[i], c04ERC20Pack("approve", endpointcontract.EndpointContractAddress, big.NewInt(2500)))
	}
	// token 1: a balance and an allowance large enough for the boundary amounts (2^64, 2^128 commit; 2^255 and above do not)
	c04ModCall(ctx, w.A, w.A.SenderAddress, w.tok[1], c04ERC20Pack("mint", w.A.SenderAddress, c04Pow2(250)))
	c04ModCall(ctx, w.A, w.A.SenderAddress, w.tok[1], c04ERC20Pack("approve", endpointcontract.EndpointContractAddress, new(big.Int).Sub(c04Pow2(256), big.NewInt(1))))
	// native coins for the multicall contract are forwarded from the transaction value
	p := w.A.App.FeeMarketKeeper.GetParams(ctx)
	p.NoBaseFee = true
	w.A.App.FeeMarketKeeper.SetParams(ctx, p)
	c04Must(w.A.App.XIBCKeeper.ClientKeeper.CreateClient(ctx, "tss-2", &tsstypes.ClientState{TssAddress: w.B.SenderAcc.String()}, &tsstypes.ConsensusState{}))
	w.prepMixed()
	w.coord.CommitBlock(w.A)
}

func newC04Hist(t *testing.T, r *Rec, cb bool, sub int64, mode int, n int) *c04Hist {
	w := newC04World(t)
	w.fund()
	h := &c04Hist{w: w, r: r, universe: map[string]bool{}, sent: map[string][]c04Sent{}, acked: map[string]bool{}, base: map[string]uint64{}, clientNames: map[string]bool{}, cb: cb, rg: rand.New(rand.NewSource(sub))}
	gen := fmt.Sprintf("gen %d %d %d", sub, mode, n)
	h.ops = append(h.ops, gen)
	r.Op(gen, "ok")
	cl := []string{w.B.ChainID, w.C.ChainID, w.tss, "tss-2"}
	if mode == 4 {
		w.widen(h)
		cl = append(cl, w.extra...)
	}
	var parts []string
	for _, c := range cl {
		h.clientNames[c] = true
		h.see(c)
		parts = append(parts, hxs(c))
	}
	op := "reset " + hxs(w.self) + " " + c04B(cb) + " " + c04B(c04RejectOwn) + " " + strconv.Itoa(len(cl)) + " " + strings.Join(parts, " ")
	seqs := w.rawSendSeqs()
	op += " " + strconv.Itoa(len(seqs))
	for _, s := range seqs {
		op += " " + hxs(s.DstChain) + " " + strconv.FormatUint(s.Sequence, 10)
	}
	h.ops = append(h.ops, op)
	r.Op(op, "ok")
	return h
}

// probe: does msg_server.RecvPacket run the callback on the branched context (C03 repair) or on ctx (F1)?
func c04ProbeCb(t *testing.T) bool {
	w := newC04World(t)
	w.fund()
	r := &Rec{t: t, Stats: map[string]int{}, distinct: map[string]struct{}{}}
	_ = r
	before := w.outTokens(2, c04Unk)
	agent := agentcontract.AgentContractAddress.String()
	td := packettypes.TransferData{Receiver: strings.ToLower(agent), Amount: common.LeftPadBytes(big.NewInt(2000).Bytes(), 32), Token: w.oriTok}
	tdb, _ := td.ABIPack()
	cd, _ := agentcontract.AgentContract.ABI.Pack("send", w.bnd, strings.ToLower(w.A.SenderAddress.String()), c04Unk, big.NewInt(1000))
	cdb, _ := (&packettypes.CallData{ContractAddress: syscontracts.AgentContractAddress, CallData: cd}).ABIPack()
	p := packettypes.Packet{SrcChain: w.tss, DstChain: w.self, Sequence: 1, Sender: "0xabc", TransferData: tdb, CallData: cdb, CallbackAddress: common.Address{}.String()}
	bz, _ := p.ABIPack()
	_, err := w.deliverMsg(&packettypes.MsgRecvPacket{Packet: bz, ProofCommitment: []byte("x"), ProofHeight: clienttypes.NewHeight(0, 1), Signer: w.tssAddr})
	if err != nil {
		t.Fatalf("C04 probe receive failed: %v", err)
	}
	return w.outTokens(2, c04Unk) == before
}

// c04ExtraNames: second (… fourteenth) instances of "a destination": prefix-related names and case siblings
var c04ExtraNames = []string{"dst", "dst-1", "dst-10", "dst-1a", "Dst-1", "DST-1", "dsT-1", "d", "tss-10", "tss-1x"}

// widen: wide / boundary histories — ten more destinations (TSS clients), and the counters of some of them planted at
// boundary values on BOTH sides (chain store and the packet contract's `sequences` slot) before the history starts: a
// chain that has already sent n-1 packets there
func (w *c04World) widen(h *c04Hist) {
	ctx := w.A.GetContext()
	for _, n := range c04ExtraNames {
		c04Must(w.A.App.XIBCKeeper.ClientKeeper.CreateClient(ctx, n, &tsstypes.ClientState{TssAddress: w.tssAddr}, &tsstypes.ConsensusState{}))
	}
	w.extra = append([]string{}, c04ExtraNames...)
	w.registerRelayers()
	max := ^uint64(0)
	vals := []uint64{2, 1<<31 - 1, 1 << 32, 1<<53 + 1, 1<<63 - 1, 1 << 63, max - 3, max - 2, max - 1, max}
	perm := h.rg.Perm(len(w.extra))
	for i := 0; i < 5; i++ {
		dst, n := w.extra[perm[i]], vals[h.rg.Intn(len(vals))]
		if i == 0 {
			n = max - 1 - uint64(h.rg.Intn(2)) // always one destination about to be closed
			h.hot = dst
		}
		w.plant(dst, n)
		h.base[dst] = n - 1
		h.r.Count("plant")
		if n >= 1<<63 {
			h.r.Count("plant.ge2^63")
		}
		if n >= max-2 {
			h.r.Count("plant.near-max")
		}
	}
	w.coord.CommitBlock(w.A)
}

func (w *c04World) plant(dst string, n uint64) {
	ctx := w.A.GetContext()
	val := common.LeftPadBytes(new(big.Int).SetUint64(n).Bytes(), 32)
	for slot := int64(0); slot < 40; slot++ {
		key := crypto.Keccak256Hash(append([]byte(dst), common.LeftPadBytes(big.NewInt(slot).Bytes(), 32)...))
		old := w.A.App.EvmKeeper.GetState(ctx, packetcontract.PacketContractAddress, key)
		w.A.App.EvmKeeper.SetState(ctx, packetcontract.PacketContractAddress, key, val)
		if w.contractNext(dst) == new(big.Int).SetUint64(n).String() {
			w.A.App.XIBCKeeper.PacketKeeper.SetNextSequenceSend(ctx, w.self, dst, n)
			return
		}
		w.A.App.EvmKeeper.SetState(ctx, packetcontract.PacketContractAddress, key, old.Bytes())
	}
	panic("C04: storage slot of the packet contract's sequences mapping not found")
}

// probe: does HandleCreateClient reject the chain's own name (optional hardening patch)?
var c04RejectOwn bool

func c04ProbeOwnName(t *testing.T) bool {
	w := newC04World(t)
	cs, _ := clienttypes.PackClientState(&tsstypes.ClientState{TssAddress: w.tssAddr})
	cons, _ := clienttypes.PackConsensusState(&tsstypes.ConsensusState{})
	cctx, _ := w.A.GetContext().CacheContext()
	_, err := w.A.App.XIBCKeeper.ClientKeeper.HandleCreateClient(cctx, &clienttypes.CreateClientProposal{Title: "t", Description: "d", ChainName: w.self, ClientState: cs, ConsensusState: cons})
	return err != nil
}

func TestC04(t *testing.T) {
	r := NewRec(t, "C04")
	defer r.Close()
	cb := c04ProbeCb(t)
	c04RejectOwn = c04ProbeOwnName(t)
	if r.Shard == 0 {
		c04ScanHooks(r)
	}
	r.Extra["callback_on_branched_context"] = cb
	r.Extra["create_client_rejects_own_name"] = c04RejectOwn
	nh, hl := 40, 30
	if r.Tier == "thorough" {
		nh, hl = 200, 45
	}
	runHist := func(sub int64, mode int, n int) {
		witness := mode == 1
		h := newC04Hist(t, r, cb, sub, mode, n)
		h.mode = mode
		for j := 0; j < n; j++ {
			h.genOp(witness)
		}
		if h.selfCl {
			r.Count("history.self-client")
		}
		if witness {
			r.Count("history.witness")
		}
		r.Count("history")
	}
	// replay: the op lines carry observations of the real run, so a history is re-generated from the sub-seed
	// recorded in its `gen` line (addresses of the fresh world differ, the structure is identical)
	hists := corpusOps("C04")
	if ops := replayOps(t); ops != nil {
		hists = [][]string{ops}
		nh = 0
	}
	for _, ops := range hists {
		for _, l := range ops {
			f := strings.Fields(l)
			if len(f) == 4 && f[0] == "gen" {
				sub, _ := strconv.ParseInt(f[1], 10, 64)
				n, _ := strconv.Atoi(f[3])
				mode, _ := strconv.Atoi(f[2])
				runHist(sub, mode, n)
			}
		}
	}
	for i := 0; i < nh; i++ {
		mode := 0
		switch {
		case i%10 == 9: // every tenth history may register a client under the chain's own name (watch item)
			mode = 1
		case i%4 == 2: // upgrade-heavy: the software-upgrade handler runs at arbitrary points
			mode = 2
		case i%8 == 5: // restart-heavy: the chain is restarted from its exported genesis at arbitrary points
			mode = 3
		case i%8 == 1: // wide + boundary: fourteen destinations, some counters planted near 2^63 / 2^64-1
			mode = 4
		}
		runHist(r.Rng.Int63(), mode, 5+r.Rng.Intn(hl))
	}
}
