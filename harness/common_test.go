package verifharness

// Common machinery of the correspondence harness: one PRNG, the op / impl stream writers,
// the property-oracle finding list and the input-distribution counters. Every property test
// writes   $VERIF_OUT/<id>.ops   (inputs, one operation per line — also the input of the Lean driver),
//          $VERIF_OUT/<id>.impl  (canonical observation of the real code, one line per operation),
//          $VERIF_OUT/<id>.stats.json (distribution + oracle findings).

import (
	"bufio"
	"encoding/hex"
	"encoding/json"
	"fmt"
	"math/rand"
	"os"
	"path/filepath"
	"runtime/debug"
	"sort"
	"strconv"
	"strings"
	"testing"
)

type Finding struct {
	Sig  string   `json:"sig"`  // stable signature used to match known_findings.json
	What string   `json:"what"` // human readable
	Ops  []string `json:"ops"`  // minimal op history reproducing it (replay)
	Obs  string   `json:"observed"`
	Req  string   `json:"required"`
}

type Rec struct {
	t        *testing.T
	id       string
	opsF     *os.File
	implF    *os.File
	ops      *bufio.Writer
	impl     *bufio.Writer
	n        int
	Stats    map[string]int
	Findings []Finding
	distinct map[string]struct{}
	Samples  []string
	Rng      *rand.Rand
	Seed     int64
	Tier     string
	Shard    int
	Extra    map[string]interface{}
}

func envInt(name string, def int64) int64 {
	if v := os.Getenv(name); v != "" {
		if n, err := strconv.ParseInt(v, 10, 64); err == nil {
			return n
		}
	}
	return def
}

func outDir() string {
	d := os.Getenv("VERIF_OUT")
	if d == "" {
		d = filepath.Join(verifRoot(), "build")
	}
	return d
}

func NewRec(t *testing.T, id string) *Rec {
	seed := envInt("VERIF_SEED", 1)
	shard := int(envInt("VERIF_SHARD", 0))
	tier := os.Getenv("VERIF_TIER")
	if tier == "" {
		tier = "quick"
	}
	d := outDir()
	_ = os.MkdirAll(d, 0o755)
	suffix := ""
	if s := os.Getenv("VERIF_SHARD"); s != "" {
		suffix = "." + s
	}
	of, err := os.Create(filepath.Join(d, id+suffix+".ops"))
	if err != nil {
		t.Fatal(err)
	}
	inf, err := os.Create(filepath.Join(d, id+suffix+".impl"))
	if err != nil {
		t.Fatal(err)
	}
	r := &Rec{t: t, id: id, opsF: of, implF: inf, ops: bufio.NewWriterSize(of, 1<<16), impl: bufio.NewWriterSize(inf, 1<<16),
		Stats: map[string]int{}, distinct: map[string]struct{}{}, Seed: seed, Tier: tier, Shard: shard,
		Rng: rand.New(rand.NewSource(seed*1000003 + int64(shard)*7919 + int64(len(id)))), Extra: map[string]interface{}{}}
	return r
}

// Op records one operation and the implementation's canonical observation.
func (r *Rec) Op(op, out string) {
	if strings.ContainsAny(op, "\n\r") || strings.ContainsAny(out, "\n\r") {
		r.t.Fatalf("newline in op/out: %q / %q", op, out)
	}
	r.ops.WriteString(op)
	r.ops.WriteByte('\n')
	r.impl.WriteString(out)
	r.impl.WriteByte('\n')
	r.n++
	if len(r.Samples) < 12 && (r.n%97 == 1 || r.n < 4) {
		r.Samples = append(r.Samples, op+" => "+out)
	}
}

// Nontrivial counts a distinct non-trivial case (by canonical text).
func (r *Rec) Nontrivial(key string) {
	r.distinct[key] = struct{}{}
}

func (r *Rec) Count(k string) { r.Stats[k]++ }

func (r *Rec) Find(f Finding) {
	for _, g := range r.Findings {
		if g.Sig == f.Sig {
			return // one representative per signature
		}
	}
	r.Findings = append(r.Findings, f)
}

func (r *Rec) Close() {
	r.ops.Flush()
	r.impl.Flush()
	r.opsF.Close()
	r.implF.Close()
	suffix := ""
	if s := os.Getenv("VERIF_SHARD"); s != "" {
		suffix = "." + s
	}
	st := map[string]interface{}{
		"property":            r.id,
		"seed":                r.Seed,
		"tier":                r.Tier,
		"shard":               r.Shard,
		"ops":                 r.n,
		"distinct_nontrivial": len(r.distinct),
		"distribution":        r.Stats,
		"findings":            r.Findings,
		"samples":             r.Samples,
		"extra":               r.Extra,
	}
	b, _ := json.MarshalIndent(st, "", " ")
	if err := os.WriteFile(filepath.Join(outDir(), r.id+suffix+".stats.json"), b, 0o644); err != nil {
		r.t.Fatal(err)
	}
}

// ---- small helpers -------------------------------------------------------------------------

func hx(b []byte) string {
	if len(b) == 0 {
		return "-"
	}
	return hex.EncodeToString(b)
}

func hxs(s string) string { return hx([]byte(s)) }

func unhx(s string) []byte {
	if s == "-" {
		return nil
	}
	b, err := hex.DecodeString(s)
	if err != nil {
		panic(err)
	}
	return b
}

func sortedKV(m map[string]string) string {
	ks := make([]string, 0, len(m))
	for k := range m {
		ks = append(ks, k)
	}
	sort.Strings(ks)
	var sb strings.Builder
	for i, k := range ks {
		if i > 0 {
			sb.WriteByte(',')
		}
		sb.WriteString(k)
		sb.WriteByte('=')
		sb.WriteString(m[k])
	}
	if sb.Len() == 0 {
		return "-"
	}
	return sb.String()
}

// replayOps returns the op lines of $VERIF_REPLAY (a replay json or a plain .ops file), or nil.
func replayOps(t *testing.T) []string {
	p := os.Getenv("VERIF_REPLAY")
	if p == "" {
		return nil
	}
	b, err := os.ReadFile(p)
	if err != nil {
		t.Fatal(err)
	}
	var j struct {
		Ops []string `json:"ops"`
	}
	if json.Unmarshal(b, &j) == nil && len(j.Ops) > 0 {
		return j.Ops
	}
	var out []string
	for _, l := range strings.Split(string(b), "\n") {
		if strings.TrimSpace(l) != "" {
			out = append(out, l)
		}
	}
	return out
}

// corpusOps returns all op files of /verif/corpus/<id>/*.ops (each one history).
func corpusOps(id string) [][]string {
	var res [][]string
	fs, _ := filepath.Glob(filepath.Join(verifRoot(), "corpus", id, "*.ops"))
	sort.Strings(fs)
	for _, f := range fs {
		b, err := os.ReadFile(f)
		if err != nil {
			continue
		}
		var h []string
		for _, l := range strings.Split(string(b), "\n") {
			if strings.TrimSpace(l) != "" && !strings.HasPrefix(l, "#") {
				h = append(h, l)
			}
		}
		res = append(res, h)
	}
	return res
}

func safely(f func()) (panicked bool, msg string) {
	defer func() {
		if r := recover(); r != nil {
			panicked = true
			msg = fmt.Sprint(r)
		}
	}()
	f()
	return
}

func verifRoot() string {
	if d := os.Getenv("VERIF_ROOT"); d != "" {
		return d
	}
	return "/verif"
}

// repoDir: the teleport source tree this test binary was BUILT against. ./check builds with a private -modfile whose
// replace directive names the tree under check, so the binary's build info is the authority; then VERIF_REPO; then /repo.
// (The tracked harness/go.mod always names /repo and must not be consulted.)
func repoDir() string {
	if bi, ok := debug.ReadBuildInfo(); ok {
		for _, d := range bi.Deps {
			if d.Path == "github.com/teleport-network/teleport" && d.Replace != nil && d.Replace.Path != "" {
				return d.Replace.Path
			}
		}
	}
	if d := os.Getenv("VERIF_REPO"); d != "" {
		return d
	}
	return "/repo"
}
