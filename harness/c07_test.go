//go:build c07

package verifharness

// C07 — Tendermint client soundness. Drives the real ClientKeeper.CreateClient / UpdateClient and
// ClientState.VerifyPacketCommitment of /repo inside a full app with generated validator sets, commits signed with real
// ed25519 keys, mutated headers, clocks around the trusting period / clock drift, and real ICS-23 proofs.
//
// op language (the Lean driver reads the part before "|"; the part after it is the concrete wire message from which
// the harness re-derives the abstract part on every run):
//   reset
//   create <chainId hex> <tlNum> <tlDen> <trustingPeriod> <maxClockDrift> <timeDelay> <latestRev> <latestH>
//          <consTime> <root hex> <nextValsHash hex> <now>                                  -> ok <dump>
//   upgrade <same fields as create>      keeper UpgradeClient with a validated client state            -> ok <dump> | rej
//   upd <now> <trustedRev> <trustedH> <chainId hex> <height> <time> <valsHash> <nextValsHash> <appHash> <structOk>
//       <headerHash> <hasCommit> <commitHeight> <commitBlockHash> <commitBasicOk> <nsig> {<flag> <addr> <signer> <good>}*
//       <valset> <valset> | <base64 proto Header> <signer,signer,...>                      -> ok <dump> | rej
//       valset := <isNil> <propConv> <propOk> <hash hex> <n> {<addr> <key> <power> <pk> <addrOk>}*
//   vfy <now> <rev> <h> <proofPresent> <proofDecodes> <rootOfProof hex> <genuine> | <kind>  -> ok | rej
//   dump := L=<rev>-<h> C=<rev>-<h>:<time>:<root>:<nextValsHash>,.. P=<rev>-<h>:<ns>,.. I=<rev>-<h>,..

import (
	"bytes"
	"crypto/sha256"
	"encoding/base64"
	"encoding/binary"
	"fmt"
	"math"
	"math/big"
	"sort"
	"strconv"
	"strings"
	"testing"
	"time"

	abci "github.com/tendermint/tendermint/abci/types"
	tmcrypto "github.com/tendermint/tendermint/crypto"
	tmed25519 "github.com/tendermint/tendermint/crypto/ed25519"
	cryptoenc "github.com/tendermint/tendermint/crypto/encoding"
	"github.com/tendermint/tendermint/crypto/tmhash"
	tmprotocrypto "github.com/tendermint/tendermint/proto/tendermint/crypto"
	tmproto "github.com/tendermint/tendermint/proto/tendermint/types"
	tmprotoversion "github.com/tendermint/tendermint/proto/tendermint/version"
	tmtypes "github.com/tendermint/tendermint/types"
	"github.com/tendermint/tendermint/libs/log"
	dbm "github.com/tendermint/tm-db"

	"github.com/cosmos/cosmos-sdk/simapp"
	"github.com/cosmos/cosmos-sdk/store/rootmulti"
	sdk "github.com/cosmos/cosmos-sdk/types"

	"github.com/tharsis/ethermint/encoding"

	"github.com/teleport-network/teleport/app"
	xibc "github.com/teleport-network/teleport/x/xibc"
	xibctypes "github.com/teleport-network/teleport/x/xibc/types"
	xibctm "github.com/teleport-network/teleport/x/xibc/clients/light-clients/tendermint/types"
	clienttypes "github.com/teleport-network/teleport/x/xibc/core/client/types"
	commitmenttypes "github.com/teleport-network/teleport/x/xibc/core/commitment/types"
	"github.com/teleport-network/teleport/x/xibc/core/host"
)

const (
	c07Default = "cpchain" // the client addressed until a `use` op names another one
	c07NKeys   = 12  // keys of the random streams
	c07NBig    = 140 // further keys, for validator sets of more than a hundred entries
	c07MaxTot  = int64(math.MaxInt64 / 8)
	c07SrcName = "cpchain"
	c07DstName = "teleport"
	c07Seq     = uint64(7)
)

type c07Key struct {
	priv tmed25519.PrivKey
	pub  tmcrypto.PubKey
	addr []byte
	pb   tmprotocrypto.PublicKey
}

var (
	c07Keys    []c07Key // c07Keys[0] unused; key id = index
	c07KeyByPB map[string]int
	c07AddrID  map[string]int
)

func c07Init() {
	if c07Keys != nil {
		return
	}
	c07Keys = make([]c07Key, c07NBig+1)
	c07KeyByPB = map[string]int{}
	c07AddrID = map[string]int{}
	for i := 1; i <= c07NBig; i++ {
		priv := tmed25519.GenPrivKeyFromSecret([]byte(fmt.Sprintf("c07-validator-key-%d", i)))
		pub := priv.PubKey()
		pb, err := cryptoenc.PubKeyToProto(pub)
		if err != nil {
			panic(err)
		}
		c07Keys[i] = c07Key{priv: priv, pub: pub, addr: pub.Address(), pb: pb}
		c07KeyByPB[string(pub.Bytes())] = i
		c07AddrID[string(pub.Address())] = i
	}
}

func c07HashID(b []byte) int {
	s := sha256.Sum256(b)
	return 1000 + int(binary.BigEndian.Uint32(s[:4]))
}

// identity of an address byte string (pure function of the bytes)
func c07AddrOf(b []byte) int {
	if len(b) == 0 {
		return 0
	}
	if id, ok := c07AddrID[string(b)]; ok {
		return id
	}
	return c07HashID(b)
}

func c07OtherAddr(n int) []byte {
	s := sha256.Sum256([]byte(fmt.Sprintf("c07-other-address-%d", n)))
	return s[:20]
}

// identity of a public key (0 = absent / not convertible)
func c07KeyOf(pk tmprotocrypto.PublicKey) (int, bool) {
	pub, err := cryptoenc.PubKeyFromProto(pk)
	if err != nil || pub == nil {
		return 0, false
	}
	if id, ok := c07KeyByPB[string(pub.Bytes())]; ok {
		return id, true
	}
	return c07HashID(pub.Bytes()), true
}

func c07B(b bool) string {
	if b {
		return "1"
	}
	return "0"
}

// ---- generator-side description of a validator set ------------------------------------------------

type c07V struct {
	key   int // 0 = nil public key
	addr  []byte
	power int64
}

func c07Vals(keys []int, powers []int64) []c07V {
	vs := make([]c07V, len(keys))
	for i, k := range keys {
		vs[i] = c07V{key: k, addr: c07Keys[k].addr, power: powers[i]}
	}
	return vs
}

func c07CopyVals(vs []c07V) []c07V { return append([]c07V{}, vs...) }

func c07ProtoVal(v c07V) *tmproto.Validator {
	p := &tmproto.Validator{Address: v.addr, VotingPower: v.power}
	if v.key != 0 {
		p.PubKey = c07Keys[v.key].pb
	}
	return p
}

// proposer: >=0 index into vs, -1 nil, -2 invalid (negative power)
func c07ProtoValSet(vs []c07V, proposer int, total int64) *tmproto.ValidatorSet {
	out := &tmproto.ValidatorSet{TotalVotingPower: total}
	for _, v := range vs {
		out.Validators = append(out.Validators, c07ProtoVal(v))
	}
	switch {
	case proposer >= 0 && proposer < len(vs):
		out.Proposer = c07ProtoVal(vs[proposer])
	case proposer == -2:
		out.Proposer = &tmproto.Validator{Address: c07Keys[1].addr, PubKey: c07Keys[1].pb, VotingPower: -1}
	case proposer == -3:
		out.Proposer = &tmproto.Validator{Address: c07Keys[1].addr, PubKey: c07Keys[1].pb, VotingPower: 5}
	}
	return out
}

// hash of the (key, power) list with the node's own library; nil when not computable
func c07HashProtoVals(vs []*tmproto.Validator) []byte {
	if len(vs) == 0 {
		return nil
	}
	l := make([]*tmtypes.Validator, len(vs))
	for i, v := range vs {
		if v == nil {
			return nil
		}
		pub, err := cryptoenc.PubKeyFromProto(v.PubKey)
		if err != nil || pub == nil {
			return nil
		}
		l[i] = &tmtypes.Validator{Address: v.Address, PubKey: pub, VotingPower: v.VotingPower}
	}
	return (&tmtypes.ValidatorSet{Validators: l}).Hash()
}

func c07HashVals(vs []c07V) []byte {
	return c07HashProtoVals(c07ProtoValSet(vs, -1, 0).Validators)
}

// ---- abstraction of the wire message (what the model sees) ----------------------------------------

func c07AbsValSet(vs *tmproto.ValidatorSet) string {
	if vs == nil {
		return "1 0 0 - 0"
	}
	propConv, propOk := false, false
	if vs.Proposer != nil {
		if p, err := tmtypes.ValidatorFromProto(vs.Proposer); err == nil {
			propConv = true
			propOk = p.ValidateBasic() == nil
		}
	}
	parts := []string{"0", c07B(propConv), c07B(propOk), hx(c07HashProtoVals(vs.Validators)), strconv.Itoa(len(vs.Validators))}
	for _, v := range vs.Validators {
		if v == nil {
			parts = append(parts, "0", "0", "0", "0", "0")
			continue
		}
		k, ok := c07KeyOf(v.PubKey)
		parts = append(parts, strconv.Itoa(c07AddrOf(v.Address)), strconv.Itoa(k), strconv.FormatInt(v.VotingPower, 10), c07B(ok), c07B(len(v.Address) == tmcrypto.AddressSize))
	}
	return strings.Join(parts, " ")
}

type c07SigInfo struct {
	flag   int
	signer int
	good   bool
}

// abstract part of an `upd` line; also returns per-signature ground truth
func c07AbsHeader(now int64, h *xibctm.Header, signers []int) (string, []c07SigInfo) {
	ph := h.SignedHeader.Header
	parts := []string{"upd", strconv.FormatInt(now, 10),
		strconv.FormatUint(h.TrustedHeight.RevisionNumber, 10), strconv.FormatUint(h.TrustedHeight.RevisionHeight, 10),
		hxs(ph.ChainID), strconv.FormatInt(ph.Height, 10), strconv.FormatInt(ph.Time.UnixNano(), 10),
		hx(ph.ValidatorsHash), hx(ph.NextValidatorsHash), hx(ph.AppHash)}
	// structural validity of the header apart from the sign of the height
	cp := *ph
	cp.Height = 1
	_, errS := tmtypes.HeaderFromProto(&cp)
	parts = append(parts, c07B(errS == nil))
	var hh []byte
	if th, err := tmtypes.HeaderFromProto(ph); err == nil {
		hh = th.Hash()
	}
	parts = append(parts, hx(hh))
	var infos []c07SigInfo
	pc := h.SignedHeader.Commit
	if pc == nil {
		parts = append(parts, "0", "0", "-", "0", "0")
	} else {
		c, err := tmtypes.CommitFromProto(pc)
		parts = append(parts, "1", strconv.FormatInt(pc.Height, 10), hx(pc.BlockID.Hash), c07B(err == nil), strconv.Itoa(len(pc.Signatures)))
		for i, s := range pc.Signatures {
			signer := 0
			if i < len(signers) {
				signer = signers[i]
			}
			good := false
			fl := int(s.BlockIdFlag)
			if c != nil && signer >= 1 && signer <= c07NBig && fl >= 1 && fl <= 3 {
				pan, _ := safely(func() {
					good = c07Keys[signer].pub.VerifySignature(c.VoteSignBytes(ph.ChainID, int32(i)), s.Signature)
				})
				if pan {
					good = false
				}
			}
			infos = append(infos, c07SigInfo{flag: fl, signer: signer, good: good})
			parts = append(parts, strconv.Itoa(fl), strconv.Itoa(c07AddrOf(s.ValidatorAddress)), strconv.Itoa(signer), c07B(good))
		}
	}
	parts = append(parts, c07AbsValSet(h.ValidatorSet), c07AbsValSet(h.TrustedValidators))
	return strings.Join(parts, " "), infos
}

// "upd" = keeper UpdateClient, "updm" = MsgUpdateClient through ValidateBasic and the msg server
var c07Verb = func() string { return "upd" }

func c07UpdLine(now int64, h *xibctm.Header, signers []int) string {
	abs, _ := c07AbsHeader(now, h, signers)
	abs = c07Verb() + strings.TrimPrefix(abs, "upd")
	bz, err := h.Marshal()
	if err != nil {
		panic(err)
	}
	ss := make([]string, len(signers))
	for i, s := range signers {
		ss[i] = strconv.Itoa(s)
	}
	sg := strings.Join(ss, ",")
	if sg == "" {
		sg = "-"
	}
	return abs + " | " + base64.RawURLEncoding.EncodeToString(bz) + " " + sg
}

// ---- ICS-23 proof fixture: a committed IAVL multistore with one packet commitment ---------------------

type c07Proof struct {
	root      []byte
	proof     []byte
	value     []byte
	tamper    []byte
	ackProof  []byte
	ackValue  []byte
	ackTamper []byte
}

func c07MakeProof(t *testing.T, a *app.Teleport) *c07Proof {
	db := dbm.NewMemDB()
	ms := rootmulti.NewStore(db)
	k1 := sdk.NewKVStoreKey(host.StoreKey)
	k2 := sdk.NewKVStoreKey("bank")
	ms.MountStoreWithDB(k1, sdk.StoreTypeIAVL, nil)
	ms.MountStoreWithDB(k2, sdk.StoreTypeIAVL, nil)
	if err := ms.LoadLatestVersion(); err != nil {
		t.Fatal(err)
	}
	value := tmhash.Sum([]byte("c07 packet commitment"))
	kv := ms.GetKVStore(k1)
	for s := uint64(1); s <= 12; s++ {
		kv.Set(host.PacketCommitmentKey(c07SrcName, c07DstName, s), tmhash.Sum([]byte(fmt.Sprintf("other commitment %d", s))))
	}
	kv.Set(host.PacketCommitmentKey(c07SrcName, c07DstName, c07Seq), value)
	ackValue := tmhash.Sum([]byte("c07 packet acknowledgement"))
	for s := uint64(1); s <= 12; s++ {
		kv.Set(host.PacketAcknowledgementKey(c07SrcName, c07DstName, s), tmhash.Sum([]byte(fmt.Sprintf("other acknowledgement %d", s))))
	}
	kv.Set(host.PacketAcknowledgementKey(c07SrcName, c07DstName, c07Seq), ackValue)
	ms.GetKVStore(k2).Set([]byte("x"), []byte("y"))
	cid := ms.Commit()
	res := ms.Query(abci.RequestQuery{Path: "/" + host.StoreKey + "/key", Data: host.PacketCommitmentKey(c07SrcName, c07DstName, c07Seq), Height: cid.Version, Prove: true})
	if res.ProofOps == nil {
		t.Fatalf("no proof: %v", res.Log)
	}
	mp, err := commitmenttypes.ConvertProofs(res.ProofOps)
	if err != nil {
		t.Fatal(err)
	}
	bz, err := a.AppCodec().Marshal(&mp)
	if err != nil {
		t.Fatal(err)
	}
	p := &c07Proof{root: cid.Hash, proof: bz, value: value}
	// self-test of the fixture with the library
	path, _ := commitmenttypes.ApplyPrefix(&commitmenttypes.MerklePrefix{KeyPrefix: []byte(host.StoreKey)}, commitmenttypes.NewMerklePath(host.PacketCommitmentPath(c07SrcName, c07DstName, c07Seq)))
	if err := mp.VerifyMembership(commitmenttypes.GetSDKSpecs(), p.root, path, value); err != nil {
		t.Fatalf("fixture proof does not verify: %v", err)
	}
	// a tampered proof that still decodes: flip one byte of the committed value hash inside the proof
	tb := append([]byte{}, bz...)
	idx := bytes.Index(tb, value)
	if idx < 0 {
		// value is hashed inside the leaf; flip a byte in the middle instead and keep it only if it decodes
		idx = len(tb) / 2
	}
	for ; idx < len(tb); idx++ {
		tb[idx] ^= 0x01
		var m2 commitmenttypes.MerkleProof
		if a.AppCodec().Unmarshal(tb, &m2) == nil && m2.VerifyMembership(commitmenttypes.GetSDKSpecs(), p.root, path, value) != nil {
			break
		}
		tb[idx] ^= 0x01
	}
	p.tamper = tb
	// the acknowledgement of the same packet, proved against the same root
	res = ms.Query(abci.RequestQuery{Path: "/" + host.StoreKey + "/key", Data: host.PacketAcknowledgementKey(c07SrcName, c07DstName, c07Seq), Height: cid.Version, Prove: true})
	if res.ProofOps == nil {
		t.Fatalf("no ack proof: %v", res.Log)
	}
	amp, err := commitmenttypes.ConvertProofs(res.ProofOps)
	if err != nil {
		t.Fatal(err)
	}
	abz, err := a.AppCodec().Marshal(&amp)
	if err != nil {
		t.Fatal(err)
	}
	apath, _ := commitmenttypes.ApplyPrefix(&commitmenttypes.MerklePrefix{KeyPrefix: []byte(host.StoreKey)}, commitmenttypes.NewMerklePath(host.PacketAcknowledgementPath(c07SrcName, c07DstName, c07Seq)))
	if err := amp.VerifyMembership(commitmenttypes.GetSDKSpecs(), p.root, apath, ackValue); err != nil {
		t.Fatalf("fixture ack proof does not verify: %v", err)
	}
	p.ackProof, p.ackValue = abz, ackValue
	atb := append([]byte{}, abz...)
	for idx := len(atb) / 2; idx < len(atb); idx++ {
		atb[idx] ^= 0x01
		var m2 commitmenttypes.MerkleProof
		if a.AppCodec().Unmarshal(atb, &m2) == nil && m2.VerifyMembership(commitmenttypes.GetSDKSpecs(), p.root, apath, ackValue) != nil {
			break
		}
		atb[idx] ^= 0x01
	}
	p.ackTamper = atb
	return p
}

// ---- world -------------------------------------------------------------------------------------------

type c07Cons struct {
	time int64
	root []byte
	nvh  []byte
}

type c07World struct {
	t      *testing.T
	app    *app.Teleport
	base   sdk.Context
	ctx    sdk.Context
	hist   []string
	pf     *c07Proof
	cs     *xibctm.ClientState // configuration of the current client (as created / upgraded)
	exists bool
	cur    string                         // chain name of the client the ops address
	all    map[string]*xibctm.ClientState // every client created in this history (nil entry = not created)
	dry    bool                           // inside a discarded execution
	signer sdk.AccAddress
	app0   *app.Teleport // the pristine app every history starts from (a whole-app restart replaces w.app for the rest of one history)
	base0  sdk.Context
}

func newC07World(t *testing.T) *c07World {
	c07Init()
	a := app.Setup(false, nil)
	ctx := a.BaseApp.NewContext(false, tmproto.Header{Height: 10, ChainID: "teleport_9000-1", Time: time.Unix(1600000000, 0).UTC()})
	w := &c07World{t: t, app: a, base: ctx}
	w.pf = c07MakeProof(t, a)
	w.setupRelayer()
	w.app0, w.base0 = w.app, w.base
	w.reset()
	return w
}

var c07Names = []string{c07Default, "cpchainb", "mirror", "CPCHAIN"}

// one relayer authorised for every client name the histories use (authorisation itself is C06's subject)
func (w *c07World) setupRelayer() {
	w.signer = sdk.AccAddress(tmhash.SumTruncated([]byte("c07 relayer")))
	w.app.XIBCKeeper.ClientKeeper.RegisterRelayers(w.base, w.signer.String(), c07Names, make([]string, len(c07Names)))
}

func (w *c07World) reset() {
	w.app, w.base = w.app0, w.base0
	w.ctx, _ = w.base.CacheContext()
	w.hist = nil
	w.exists = false
	w.cs = nil
	w.cur = c07Default
	w.all = map[string]*xibctm.ClientState{}
}

func (w *c07World) use(name string) {
	w.cur = name
	w.cs = w.all[name]
	w.exists = w.cs != nil
}

func (w *c07World) snapOf(ctx sdk.Context, name string) *c07Snap {
	cur := w.cur
	w.cur = name
	s := w.snap(ctx)
	w.cur = cur
	return s
}

func (w *c07World) names() []string {
	var ns []string
	for n, cs := range w.all {
		if cs != nil {
			ns = append(ns, n)
		}
	}
	sort.Strings(ns)
	return ns
}

func (w *c07World) dumpAll(ctx sdk.Context) string {
	var parts []string
	for _, n := range w.names() {
		parts = append(parts, hxs(n)+"{"+w.snapOf(ctx, n).dump()+"}")
	}
	if len(parts) == 0 {
		return "-"
	}
	return strings.Join(parts, " ")
}

// digest of everything the client keeper stores under clients/ (all clients, all metadata), for the restart oracle
func (w *c07World) rawClients(ctx sdk.Context) map[string]string {
	m := map[string]string{}
	st := ctx.KVStore(w.app.GetKey(host.StoreKey))
	it := sdk.KVStorePrefixIterator(st, host.KeyClientStorePrefix)
	defer it.Close()
	for ; it.Valid(); it.Next() {
		m[string(it.Key())] = string(it.Value())
	}
	return m
}

func c07H(h clienttypes.Height) string {
	return strconv.FormatUint(h.RevisionNumber, 10) + "-" + strconv.FormatUint(h.RevisionHeight, 10)
}

type c07Snap struct {
	latest clienttypes.Height
	hasCS  bool
	cons   map[clienttypes.Height]c07Cons
	ptime  map[clienttypes.Height]uint64
	iter   map[clienttypes.Height]bool
}

func c07KeyHeight(b []byte) clienttypes.Height {
	return clienttypes.NewHeight(binary.BigEndian.Uint64(b[:8]), binary.BigEndian.Uint64(b[8:16]))
}

func (w *c07World) snap(ctx sdk.Context) *c07Snap {
	s := &c07Snap{cons: map[clienttypes.Height]c07Cons{}, ptime: map[clienttypes.Height]uint64{}, iter: map[clienttypes.Height]bool{}}
	store := w.app.XIBCKeeper.ClientKeeper.ClientStore(ctx, w.cur)
	it := store.Iterator(nil, nil)
	defer it.Close()
	cp := []byte(host.KeyConsensusStatePrefix + "/")
	ip := []byte(xibctm.KeyIterateConsensusStatePrefix)
	for ; it.Valid(); it.Next() {
		k, v := it.Key(), it.Value()
		switch {
		case bytes.Equal(k, host.ClientStateKey()):
			csI, err := clienttypes.UnmarshalClientState(w.app.AppCodec(), v)
			if err == nil {
				if cs, ok := csI.(*xibctm.ClientState); ok {
					s.latest = cs.LatestHeight
					s.hasCS = true
				}
			}
		case bytes.HasPrefix(k, cp) && len(k) == len(cp)+16:
			ci, err := clienttypes.UnmarshalConsensusState(w.app.AppCodec(), v)
			if err == nil {
				if c, ok := ci.(*xibctm.ConsensusState); ok {
					s.cons[c07KeyHeight(k[len(cp):])] = c07Cons{time: c.Timestamp.UnixNano(), root: c.Root, nvh: c.NextValidatorsHash}
				}
			}
		case bytes.HasPrefix(k, cp) && len(k) == len(cp)+16+len(xibctm.KeyProcessedTime) && bytes.HasSuffix(k, xibctm.KeyProcessedTime):
			s.ptime[c07KeyHeight(k[len(cp):])] = sdk.BigEndianToUint64(v)
		case bytes.HasPrefix(k, ip) && len(k) == len(ip)+16:
			s.iter[c07KeyHeight(k[len(ip):])] = true
		}
	}
	return s
}

func c07SortedHeights(m map[clienttypes.Height]bool) []clienttypes.Height {
	hs := make([]clienttypes.Height, 0, len(m))
	for h := range m {
		hs = append(hs, h)
	}
	sort.Slice(hs, func(i, j int) bool { return hs[i].LT(hs[j]) })
	return hs
}

func c07List(l []string) string {
	if len(l) == 0 {
		return "-"
	}
	return strings.Join(l, ",")
}

func (s *c07Snap) dump() string {
	var cs, ps, is []string
	hm := map[clienttypes.Height]bool{}
	for h := range s.cons {
		hm[h] = true
	}
	for _, h := range c07SortedHeights(hm) {
		c := s.cons[h]
		cs = append(cs, c07H(h)+":"+strconv.FormatInt(c.time, 10)+":"+hx(c.root)+":"+hx(c.nvh))
	}
	hm = map[clienttypes.Height]bool{}
	for h := range s.ptime {
		hm[h] = true
	}
	for _, h := range c07SortedHeights(hm) {
		ps = append(ps, c07H(h)+":"+strconv.FormatUint(s.ptime[h], 10))
	}
	for _, h := range c07SortedHeights(s.iter) {
		is = append(is, c07H(h))
	}
	return "L=" + c07H(s.latest) + " C=" + c07List(cs) + " P=" + c07List(ps) + " I=" + c07List(is)
}

// independent reading of the revision of a chain id: "<something not ending in '-'>-<digits, no leading zero>"
func c07Rev(chainID string) (prefix string, rev uint64, isRev bool) {
	i := strings.LastIndex(chainID, "-")
	if i <= 0 {
		return chainID, 0, false
	}
	pre, suf := chainID[:i], chainID[i+1:]
	if suf == "" || suf[0] < '1' || suf[0] > '9' || pre[len(pre)-1] == '-' || strings.Contains(pre[:len(pre)-1], "\n") {
		return chainID, 0, false
	}
	for _, c := range suf {
		if c < '0' || c > '9' {
			return chainID, 0, false
		}
	}
	v, err := strconv.ParseUint(suf, 10, 64)
	if err != nil {
		return chainID, 0, false
	}
	return pre, v, true
}

func c07Class(err error) string {
	m := err.Error()
	for _, p := range [][2]string{
		{"with status", "status"}, {"could not get consensus state from clientstore", "no-trusted-cons"},
		{"does not hash to latest trusted validators", "trusted-vals-hash"}, {"trusted validator set in not", "trusted-vals-conv"},
		{"does not match trusted header revision", "revision"}, {"header height ≤ consensus state height", "height-lte"},
		{"signed header in not tendermint", "signed-header-conv"}, {"validator set in not tendermint", "vals-conv"},
		{"old header has expired", "old-header-expired"}, {"ValidateBasic failed", "signed-header-basic"},
		{"to be greater than one of old header", "height-not-greater"}, {"to be after old header time", "time-not-after"},
		{"time from the future", "time-from-future"}, {"to match those that were supplied", "vals-hash"},
		{"to match those from new header", "adjacent-next-vals"}, {"double vote", "double-vote"},
		{"wrong signature", "wrong-signature"}, {"cant trust new val set", "trusting-power"}, {"int64 overflow", "trusting-overflow"},
		{"insufficient voting power", "light-power"}, {"wrong set size", "light-size"},
	} {
		if strings.Contains(m, p[0]) {
			return p[1]
		}
	}
	return "other"
}

func (w *c07World) find(r *Rec, sig, what, obs, req string) {
	r.Find(Finding{Sig: sig, What: what, Ops: append([]string{}, w.hist...), Obs: obs, Req: req})
}

func (w *c07World) apply(r *Rec, op string) string {
	f := strings.Fields(op)
	if !w.dry {
		w.hist = append(w.hist, op)
	}
	switch f[0] {
	case "reset":
		w.reset()
		w.hist = []string{op}
		return "ok"
	case "use":
		w.use(string(unhx(f[1])))
		return "ok"
	case "dry":
		return w.discarded(r, strings.TrimPrefix(op, "dry "))
	case "restart":
		return w.restart(r)
	case "restartapp":
		return w.restartApp(r)
	}
	// frame: an op addressed to one client leaves every other client of the store untouched
	others := map[string]string{}
	for _, n := range w.names() {
		if n != w.cur {
			others[n] = w.snapOf(w.ctx, n).dump()
		}
	}
	var out string
	verb := f[0]
	switch f[0] {
	case "create":
		out = w.create(r, f)
	case "upgrade":
		out = w.upgrade(r, f)
	case "upd", "updm":
		out = w.update(r, op, f)
	case "vfy", "vfa":
		out = w.verify(r, f)
	default:
		w.t.Fatalf("bad op %q", op)
	}
	for n, before := range others {
		if after := w.snapOf(w.ctx, n).dump(); after != before {
			w.find(r, "C07:other-client-changed:"+verb, "an operation on client "+w.cur+" changed client "+n, after, before)
		}
	}
	if len(others) > 0 {
		r.Count("frame.checked." + verb)
	}
	return out
}

// the op runs on a cache context that is dropped (simulation, CheckTx, proposal dry run, failed multi-message tx)
func (w *c07World) discarded(r *Rec, inner string) string {
	if w.dry {
		w.t.Fatalf("nested dry op")
	}
	before := w.rawClients(w.ctx)
	saveCtx, saveCur, saveCS, saveEx := w.ctx, w.cur, w.cs, w.exists
	saveAll := map[string]*xibctm.ClientState{}
	for k, v := range w.all {
		saveAll[k] = v
	}
	w.ctx, _ = w.ctx.CacheContext()
	w.dry = true
	out := w.apply(r, inner)
	w.dry = false
	w.ctx, w.cur, w.cs, w.exists, w.all = saveCtx, saveCur, saveCS, saveEx, saveAll
	after := w.rawClients(w.ctx)
	if !c07SameMap(before, after) {
		w.find(r, "C07:discarded-execution-had-effect", "an operation executed on a dropped cache context changed the client store", c07MapDiff(before, after), "no change")
	}
	r.Count("dry")
	r.Count("dry." + strings.Fields(inner)[0])
	if i := strings.Index(out, " "); i > 0 {
		out = out[:i] + out[i:] // verdict and dump of the discarded branch
	}
	return "dry " + out
}

func c07SameMap(a, b map[string]string) bool {
	if len(a) != len(b) {
		return false
	}
	for k, v := range a {
		if w, ok := b[k]; !ok || w != v {
			return false
		}
	}
	return true
}

func c07MapDiff(a, b map[string]string) string {
	var ks []string
	for k := range a {
		if v, ok := b[k]; !ok {
			ks = append(ks, "lost:"+hx([]byte(k)))
		} else if v != a[k] {
			ks = append(ks, "changed:"+hx([]byte(k)))
		}
	}
	for k := range b {
		if _, ok := a[k]; !ok {
			ks = append(ks, "new:"+hx([]byte(k)))
		}
	}
	sort.Strings(ks)
	if len(ks) > 6 {
		ks = ks[:6]
	}
	return strings.Join(ks, " ")
}

// family of a client-store key, for stable finding signatures
func c07KeyFamily(k string) string {
	switch {
	case strings.Contains(k, "/"+host.KeyClientState):
		return "client-state"
	case strings.HasSuffix(k, string(xibctm.KeyProcessedTime)):
		return "processed-time"
	case strings.Contains(k, "/"+xibctm.KeyIterateConsensusStatePrefix):
		return "iteration-key"
	case strings.Contains(k, "/"+host.KeyConsensusStatePrefix+"/"):
		return "consensus-state"
	}
	return "other"
}

func (w *c07World) restartOracle(r *Rec, kind string, before, after map[string]string) {
	fam := map[string]bool{}
	for k, v := range before {
		if a, ok := after[k]; !ok {
			fam["lost:"+c07KeyFamily(k)] = true
		} else if a != v {
			fam["changed:"+c07KeyFamily(k)] = true
		}
	}
	for k := range after {
		if _, ok := before[k]; !ok {
			fam["new:"+c07KeyFamily(k)] = true
		}
	}
	for f := range fam {
		w.find(r, "C07:"+kind+"-changed-client-store:"+f, "export + import changed what the Tendermint clients store ("+f+")", c07MapDiff(before, after), "identical client states, consensus states, processed times and iteration keys")
	}
	revs := map[uint64]bool{}
	for _, n := range w.names() {
		sn := w.snapOf(w.ctx, n)
		for h := range sn.cons {
			revs[h.RevisionNumber] = true
			if sn.latest.LT(h) {
				r.Count(kind + ".with-state-above-latest")
			}
		}
		if len(sn.iter) != len(sn.cons) || len(sn.ptime) != len(sn.cons) {
			r.Count(kind + ".with-uneven-metadata")
		}
	}
	if len(revs) > 1 {
		r.Count(kind + ".multi-revision")
	}
	if len(w.names()) > 1 {
		r.Count(kind + ".two-clients")
	}
}

// module level: xibc ExportGenesis -> JSON through the app codec -> Validate -> emptied xibc store -> InitGenesis
func (w *c07World) restart(r *Rec) string {
	before := w.rawClients(w.ctx)
	cctx, write := w.ctx.CacheContext()
	var verr error
	pan, msg := safely(func() {
		gs := xibc.ExportGenesis(cctx, *w.app.XIBCKeeper)
		cdc := w.app.AppCodec()
		var gs2 xibctypes.GenesisState
		cdc.MustUnmarshalJSON(cdc.MustMarshalJSON(gs), &gs2)
		if verr = gs2.Validate(); verr != nil {
			return
		}
		st := cctx.KVStore(w.app.GetKey(host.StoreKey))
		var ks [][]byte
		it := sdk.KVStorePrefixIterator(st, nil)
		for ; it.Valid(); it.Next() {
			ks = append(ks, append([]byte{}, it.Key()...))
		}
		it.Close()
		for _, kk := range ks {
			st.Delete(kk)
		}
		xibc.InitGenesis(cctx, *w.app.XIBCKeeper, false, &gs2)
	})
	if pan || verr != nil {
		r.Count("restart.failed")
		w.find(r, "C07:restart-export-not-importable", "the exported xibc genesis of a state with Tendermint clients fails validation / InitGenesis", fmt.Sprintf("panic=%v %s err=%v", pan, msg, verr), "export -> validate -> import succeeds")
		return "err"
	}
	if !w.dry {
		write()
	}
	r.Count("restart")
	w.restartOracle(r, "restart", before, w.rawClients(cctx))
	return "ok " + w.dumpAll(w.ctx)
}

// whole app: the history's state is committed in a fresh app, app.ExportAppStateAndValidators, a second fresh app is
// initialised from the export (every module's InitGenesis); the history continues on the new app
func (w *c07World) restartApp(r *Rec) string {
	if w.dry {
		w.t.Fatalf("restartapp inside dry")
	}
	before := w.rawClients(w.ctx)
	var failure string
	var app2 *app.Teleport
	pan, msg := safely(func() {
		app1 := app.Setup(false, nil)
		hdr := tmproto.Header{Height: 1, ChainID: "teleport_9000-1", Time: time.Unix(1600000000, 0).UTC()}
		c1 := app1.BaseApp.NewContext(false, hdr)
		// the xibc store of the history, as it is, becomes the xibc store of the chain that is exported
		dst := c1.KVStore(app1.GetKey(host.StoreKey))
		src := w.ctx.KVStore(w.app.GetKey(host.StoreKey))
		var ks [][]byte
		it := sdk.KVStorePrefixIterator(dst, nil)
		for ; it.Valid(); it.Next() {
			ks = append(ks, append([]byte{}, it.Key()...))
		}
		it.Close()
		for _, k := range ks {
			dst.Delete(k)
		}
		it = sdk.KVStorePrefixIterator(src, nil)
		for ; it.Valid(); it.Next() {
			dst.Set(append([]byte{}, it.Key()...), append([]byte{}, it.Value()...))
		}
		it.Close()
		app1.Commit()
		exported, err := app1.ExportAppStateAndValidators(false, nil)
		if err != nil {
			failure = "export: " + err.Error()
			return
		}
		app2 = app.NewTeleport(log.NewNopLogger(), dbm.NewMemDB(), nil, true, map[int64]bool{}, app.DefaultNodeHome, 5,
			encoding.MakeConfig(app.ModuleBasics), simapp.EmptyAppOptions{})
		app2.InitChain(abci.RequestInitChain{
			ChainId:         "teleport_9000-1",
			Time:            hdr.Time,
			InitialHeight:   exported.Height,
			Validators:      []abci.ValidatorUpdate{},
			ConsensusParams: exported.ConsensusParams,
			AppStateBytes:   exported.AppState,
		})
	})
	if pan {
		failure = "panic: " + msg
	}
	if failure != "" {
		if len(failure) > 500 {
			failure = failure[:500]
		}
		r.Count("restartapp.failed")
		w.find(r, "C07:restartapp-failed", "whole-app export / InitChain of the exported genesis failed", failure, "a chain hosting Tendermint clients can be restarted from its exported state")
		return "err"
	}
	w.app = app2
	w.base = app2.BaseApp.NewContext(false, tmproto.Header{Height: 10, ChainID: "teleport_9000-1", Time: time.Unix(1600000000, 0).UTC()})
	w.ctx, _ = w.base.CacheContext()
	r.Count("restartapp")
	w.restartOracle(r, "restartapp", before, w.rawClients(w.ctx))
	return "ok " + w.dumpAll(w.ctx)
}

func c07ParseI(s string) int64 {
	v, err := strconv.ParseInt(s, 10, 64)
	if err != nil {
		panic(err)
	}
	return v
}

func c07ParseU(s string) uint64 {
	v, err := strconv.ParseUint(s, 10, 64)
	if err != nil {
		panic(err)
	}
	return v
}

func c07ParseClient(f []string) (*xibctm.ClientState, *xibctm.ConsensusState, int64) {
	now := c07ParseI(f[12])
	latest := clienttypes.NewHeight(c07ParseU(f[7]), c07ParseU(f[8]))
	cs := xibctm.NewClientState(string(unhx(f[1])), xibctm.Fraction{Numerator: c07ParseU(f[2]), Denominator: c07ParseU(f[3])},
		time.Duration(c07ParseI(f[4])), time.Duration(c07ParseI(f[4]))+time.Hour, time.Duration(c07ParseI(f[5])), latest,
		commitmenttypes.GetSDKSpecs(), commitmenttypes.MerklePrefix{KeyPrefix: []byte(host.StoreKey)}, c07ParseU(f[6]))
	cons := &xibctm.ConsensusState{Timestamp: time.Unix(0, c07ParseI(f[9])).UTC(), Root: unhx(f[10]), NextValidatorsHash: unhx(f[11])}
	return cs, cons, now
}

// CreateClientProposal as governance executes it: ValidateBasic (stateless), then the keeper's HandleCreateClient
func (w *c07World) create(r *Rec, f []string) string {
	cs, cons, now := c07ParseClient(f)
	p, err := clienttypes.NewCreateClientProposal("t", "d", w.cur, cs, cons)
	if err != nil {
		w.t.Fatal(err)
	}
	if err := p.ValidateBasic(); err != nil {
		r.Count("create.rejected")
		return "rej"
	}
	cctx, write := w.ctx.WithBlockTime(time.Unix(0, now).UTC()).CacheContext()
	var herr error
	pan, _ := safely(func() { _, herr = w.app.XIBCKeeper.ClientKeeper.HandleCreateClient(cctx, p) })
	if pan || herr != nil {
		r.Count("create.rejected")
		if !w.exists {
			// a valid proposal for a name no client has (names that differ only in case are different names)
			w.find(r, "C07:create-refused-for-free-name", "a valid create-client proposal was refused although no client has that name", fmt.Sprintf("panic=%v err=%v", pan, herr), "client created")
		}
		if w.exists {
			r.Count("create.rejected.name-taken")
		}
		return "rej"
	}
	if w.exists {
		w.find(r, "C07:create-over-existing-client", "a create-client proposal replaced an existing client", w.cur, "refused")
	}
	write()
	w.cs = cs
	w.exists = true
	w.all[w.cur] = cs
	w.configOracle(r, "create", cs)
	r.Count("create")
	return "ok " + w.snap(w.ctx).dump()
}

// UpgradeClientProposal: ValidateBasic, then HandleUpgradeClient -> keeper UpgradeClient + tendermint UpgradeState: the client
// state is replaced, the consensus state and its metadata are written at the new latest height; older consensus states stay
func (w *c07World) upgrade(r *Rec, f []string) string {
	if !w.exists {
		return "bad-op"
	}
	cs, cons, now := c07ParseClient(f)
	latest := cs.LatestHeight
	p, err := clienttypes.NewUpgradeClientProposal("t", "d", w.cur, cs, cons)
	if err != nil {
		w.t.Fatal(err)
	}
	if err := p.ValidateBasic(); err != nil {
		r.Count("upgrade.rejected")
		return "rej"
	}
	pre := w.snap(w.ctx)
	cctx, write := w.ctx.WithBlockTime(time.Unix(0, now).UTC()).CacheContext()
	pan, _ := safely(func() { _, err = w.app.XIBCKeeper.ClientKeeper.HandleUpgradeClient(cctx, p) })
	if pan || err != nil {
		r.Count("upgrade.rejected")
		return "rej"
	}
	write()
	w.cs = cs
	w.all[w.cur] = cs
	w.configOracle(r, "upgrade", cs)
	r.Count("upgrade")
	switch {
	case latest.RevisionNumber > pre.latest.RevisionNumber && latest.RevisionHeight < pre.latest.RevisionHeight:
		r.Count("upgrade.new-revision.smaller-revision-height")
	case latest.RevisionNumber > pre.latest.RevisionNumber && latest.RevisionHeight == pre.latest.RevisionHeight:
		r.Count("upgrade.new-revision.equal-revision-height")
	case latest.RevisionNumber > pre.latest.RevisionNumber:
		r.Count("upgrade.new-revision.larger-revision-height")
	}
	if _, had := pre.cons[latest]; had {
		r.Count("upgrade.over-stored-height")
	}
	return "ok " + w.snap(w.ctx).dump()
}

// what the soundness statements assume of an installed configuration: a trust level in [1/3, 1] that fits int64
func (w *c07World) configOracle(r *Rec, kind string, cs *xibctm.ClientState) {
	n, d := new(big.Int).SetUint64(cs.TrustLevel.Numerator), new(big.Int).SetUint64(cs.TrustLevel.Denominator)
	ok := d.Sign() > 0 && n.Cmp(d) <= 0 && new(big.Int).Mul(n, big.NewInt(3)).Cmp(d) >= 0 && n.IsInt64() && d.IsInt64()
	if !ok {
		w.find(r, "C07:invalid-trust-level-installed:"+kind, "a "+kind+" proposal installed a trust level outside [1/3, 1] or beyond int64", fmt.Sprintf("%d/%d", cs.TrustLevel.Numerator, cs.TrustLevel.Denominator), "refused by ValidateBasic")
	}
}

func c07SetPower(vs *tmproto.ValidatorSet, infos []c07SigInfo) (signed, total *big.Int) {
	signed, total = new(big.Int), new(big.Int)
	if vs == nil {
		return
	}
	for _, v := range vs.Validators {
		if v == nil {
			continue
		}
		total.Add(total, big.NewInt(v.VotingPower))
		k, ok := c07KeyOf(v.PubKey)
		if !ok {
			continue
		}
		for _, s := range infos {
			if s.flag == int(tmproto.BlockIDFlagCommit) && s.good && s.signer == k {
				signed.Add(signed, big.NewInt(v.VotingPower))
				break
			}
		}
	}
	return
}

func (w *c07World) update(r *Rec, op string, f []string) string {
	bar := -1
	for i, x := range f {
		if x == "|" {
			bar = i
		}
	}
	if bar < 0 || bar+2 >= len(f) {
		w.t.Fatalf("upd without payload: %q", op)
	}
	now := c07ParseI(f[1])
	bz, err := base64.RawURLEncoding.DecodeString(f[bar+1])
	if err != nil {
		w.t.Fatal(err)
	}
	hdr := &xibctm.Header{}
	if err := hdr.Unmarshal(bz); err != nil {
		w.t.Fatal(err)
	}
	var signers []int
	if f[bar+2] != "-" {
		for _, s := range strings.Split(f[bar+2], ",") {
			v, _ := strconv.Atoi(s)
			signers = append(signers, v)
		}
	}
	abs, infos := c07AbsHeader(now, hdr, signers)
	viaMsg := f[0] == "updm"
	f[0] = "upd"
	if abs != strings.Join(f[:bar], " ") {
		w.t.Fatalf("abstract part of the op does not describe its payload:\n op  %s\n abs %s", strings.Join(f[:bar], " "), abs)
	}
	if !w.exists {
		return "bad-op"
	}
	pre := w.snap(w.ctx)
	if s, tot := c07SetPower(hdr.ValidatorSet, infos); tot.Sign() > 0 && new(big.Int).Mul(big.NewInt(3), s).Cmp(new(big.Int).Mul(big.NewInt(2), tot)) == 0 {
		r.Count("thr.light.exact")
	}
	if s, tot := c07SetPower(hdr.TrustedValidators, infos); tot.Sign() > 0 && new(big.Int).Mul(new(big.Int).SetUint64(w.cs.TrustLevel.Denominator), s).Cmp(new(big.Int).Mul(new(big.Int).SetUint64(w.cs.TrustLevel.Numerator), tot)) == 0 {
		r.Count("thr.trusting.exact")
	}
	ctx := w.ctx.WithBlockTime(time.Unix(0, now).UTC())
	cctx, write := ctx.CacheContext()
	var uerr error
	pan, _ := safely(func() {
		if !viaMsg {
			uerr = w.app.XIBCKeeper.ClientKeeper.UpdateClient(cctx, w.cur, hdr)
			return
		}
		// the transaction path: MsgUpdateClient.ValidateBasic (ante handler), then the msg server
		msg, err := clienttypes.NewMsgUpdateClient(w.cur, hdr, w.signer)
		if err != nil {
			w.t.Fatal(err)
		}
		if uerr = msg.ValidateBasic(); uerr != nil {
			r.Count("updm.rejected-by-validate-basic")
			return
		}
		_, uerr = w.app.XIBCKeeper.UpdateClient(sdk.WrapSDKContext(cctx), msg)
		if uerr != nil {
			r.Count("updm.rejected-by-keeper")
		}
	})
	if viaMsg {
		r.Count("updm")
	}
	if pan {
		r.Count("upd.panic")
		return "rej"
	}
	if uerr != nil {
		r.Count("upd.rejected")
		r.Count("rej." + c07Class(uerr))
		return "rej"
	}
	write()
	r.Count("upd.accepted")
	if viaMsg {
		r.Count("updm.accepted")
	}
	if _, had := pre.cons[clienttypes.NewHeight(clienttypes.ParseChainID(hdr.Header.ChainID), uint64(hdr.Header.Height))]; had {
		r.Count("upd.accepted.over-stored-height")
	}
	post := w.snap(w.ctx)
	w.oracleUpdate(r, now, hdr, infos, pre, post)
	return "ok " + post.dump()
}

// accept_sound evaluated on the real code's observations and the harness's own bookkeeping of who signed
func (w *c07World) oracleUpdate(r *Rec, now int64, hdr *xibctm.Header, infos []c07SigInfo, pre, post *c07Snap) {
	ph := hdr.SignedHeader.Header
	bad := func(which, obs, req string) {
		w.find(r, "C07:accepted-header:"+which, "UpdateClient accepted a header although: "+which, obs, req)
	}
	tp, drift := int64(w.cs.TrustingPeriod), int64(w.cs.MaxClockDrift)
	// expired client accepts nothing
	lc, ok := pre.cons[pre.latest]
	if !ok {
		bad("no-consensus-state-at-latest-height", "accepted", "rejected")
	} else if new(big.Int).Add(big.NewInt(lc.time), big.NewInt(tp)).Cmp(big.NewInt(now)) <= 0 {
		bad("client-expired", fmt.Sprintf("latest consensus time %d + trusting period %d <= now %d", lc.time, tp, now), "an expired client accepts nothing")
	}
	tc, ok := pre.cons[hdr.TrustedHeight]
	if !ok {
		bad("no-consensus-state-at-trusted-height", c07H(hdr.TrustedHeight), "stored trusted height")
		return
	}
	tvh := []byte(nil)
	if hdr.TrustedValidators != nil {
		tvh = c07HashProtoVals(hdr.TrustedValidators.Validators)
	}
	if tvh == nil || !bytes.Equal(tvh, tc.nvh) {
		bad("trusted-validators-do-not-hash-to-stored-next-validators-hash", hx(tvh), hx(tc.nvh))
	}
	// same chain, same revision, newer height
	cpre, _, cIsRev := c07Rev(w.cs.ChainId)
	hpre, hrev, hIsRev := c07Rev(ph.ChainID)
	if cIsRev {
		if !hIsRev || hpre != cpre {
			bad("chain-id-differs", ph.ChainID, w.cs.ChainId)
		}
	} else if ph.ChainID != w.cs.ChainId {
		bad("chain-id-differs", ph.ChainID, w.cs.ChainId)
	}
	if hrev != hdr.TrustedHeight.RevisionNumber {
		bad("revision-differs", fmt.Sprint(hrev), fmt.Sprint(hdr.TrustedHeight.RevisionNumber))
	}
	if ph.Height <= 0 || uint64(ph.Height) <= hdr.TrustedHeight.RevisionHeight {
		bad("height-not-above-trusted-height", fmt.Sprint(ph.Height), "> "+fmt.Sprint(hdr.TrustedHeight.RevisionHeight))
	}
	H := clienttypes.NewHeight(hrev, uint64(ph.Height))
	// freshness
	if new(big.Int).Add(big.NewInt(tc.time), big.NewInt(tp)).Cmp(big.NewInt(now)) <= 0 {
		bad("trusted-state-expired", fmt.Sprintf("%d + %d <= %d", tc.time, tp, now), "trusted time + trusting period > now")
	}
	ht := ph.Time.UnixNano()
	if !(tc.time < ht) {
		bad("header-time-not-after-trusted-time", fmt.Sprint(ht), "> "+fmt.Sprint(tc.time))
	}
	if new(big.Int).Add(big.NewInt(now), big.NewInt(drift)).Cmp(big.NewInt(ht)) <= 0 {
		bad("header-time-beyond-clock-drift", fmt.Sprint(ht), fmt.Sprintf("< %d + %d", now, drift))
	}
	// the commit is for this header, the validator set is the header's
	var vh []byte
	if hdr.ValidatorSet != nil {
		vh = c07HashProtoVals(hdr.ValidatorSet.Validators)
	}
	if vh == nil || !bytes.Equal(vh, ph.ValidatorsHash) {
		bad("validator-set-does-not-hash-to-header-validators-hash", hx(vh), hx(ph.ValidatorsHash))
	}
	pc := hdr.SignedHeader.Commit
	if pc == nil {
		bad("no-commit", "nil", "commit")
		return
	}
	if th, err := tmtypes.HeaderFromProto(ph); err != nil || !bytes.Equal(th.Hash(), pc.BlockID.Hash) || pc.Height != ph.Height {
		bad("commit-is-not-for-this-header", hx(pc.BlockID.Hash), "hash of the header")
	}
	adjacent := uint64(ph.Height) == hdr.TrustedHeight.RevisionHeight+1
	if adjacent {
		r.Count("upd.accepted.adjacent")
		if !bytes.Equal(ph.ValidatorsHash, tc.nvh) {
			bad("adjacent-validators-hash-differs-from-trusted-next-validators-hash", hx(ph.ValidatorsHash), hx(tc.nvh))
		}
	} else {
		r.Count("upd.accepted.nonadjacent")
		s, tot := c07SetPower(hdr.TrustedValidators, infos)
		l := new(big.Int).Mul(new(big.Int).SetUint64(w.cs.TrustLevel.Denominator), s)
		rr := new(big.Int).Mul(new(big.Int).SetUint64(w.cs.TrustLevel.Numerator), tot)
		if l.Cmp(rr) <= 0 && (w.cs.TrustLevel.Numerator > math.MaxInt64 || w.cs.TrustLevel.Denominator > math.MaxInt64) {
			bad("trusted-set-signed-power-not-above-trust-level:trust-level-exceeds-int64", fmt.Sprintf("signed %s of %s", s, tot), fmt.Sprintf("> %d/%d", w.cs.TrustLevel.Numerator, w.cs.TrustLevel.Denominator))
		} else if l.Cmp(rr) <= 0 {
			bad("trusted-set-signed-power-not-above-trust-level", fmt.Sprintf("signed %s of %s", s, tot), fmt.Sprintf("> %d/%d", w.cs.TrustLevel.Numerator, w.cs.TrustLevel.Denominator))
		}
		d := new(big.Int).Sub(l, rr)
		if d.Sign() > 0 && d.Cmp(new(big.Int).SetUint64(w.cs.TrustLevel.Denominator)) <= 0 {
			r.Count("thr.trusting.just-above")
		}
	}
	s, tot := c07SetPower(hdr.ValidatorSet, infos)
	l := new(big.Int).Mul(big.NewInt(3), s)
	rr := new(big.Int).Mul(big.NewInt(2), tot)
	if l.Cmp(rr) <= 0 {
		bad("own-set-signed-power-not-above-two-thirds", fmt.Sprintf("signed %s of %s", s, tot), "> 2/3")
	}
	if d := new(big.Int).Sub(l, rr); d.Sign() > 0 && d.Cmp(big.NewInt(3)) <= 0 {
		r.Count("thr.light.just-above")
	}
	// what is stored
	nc, ok := post.cons[H]
	if !ok || nc.time != ht || !bytes.Equal(nc.root, ph.AppHash) || !bytes.Equal(nc.nvh, ph.NextValidatorsHash) {
		bad("stored-consensus-state-is-not-the-header's", fmt.Sprintf("%v %d %s %s", ok, nc.time, hx(nc.root), hx(nc.nvh)), fmt.Sprintf("%d %s %s", ht, hx(ph.AppHash), hx(ph.NextValidatorsHash)))
	}
	if pt, ok := post.ptime[H]; !ok || pt != uint64(now) {
		bad("processed-time-is-not-the-block-time", fmt.Sprint(pt), fmt.Sprint(now))
	}
	want := pre.latest // the maximum in the lexicographic (revision number, revision height) order
	if H.RevisionNumber > pre.latest.RevisionNumber || (H.RevisionNumber == pre.latest.RevisionNumber && H.RevisionHeight > pre.latest.RevisionHeight) {
		want = H
		r.Count("upd.accepted.forward")
	} else {
		r.Count("upd.accepted.backfill")
	}
	multi := false
	for h := range pre.cons {
		if h.RevisionNumber != pre.latest.RevisionNumber {
			multi = true
		}
	}
	switch {
	case H.RevisionNumber < pre.latest.RevisionNumber && H.RevisionHeight > pre.latest.RevisionHeight:
		r.Count("upd.accepted.old-revision-backfill")
		r.Count("upd.accepted.old-revision-backfill.larger-revision-height")
	case H.RevisionNumber < pre.latest.RevisionNumber && H.RevisionHeight == pre.latest.RevisionHeight:
		r.Count("upd.accepted.old-revision-backfill")
		r.Count("upd.accepted.old-revision-backfill.equal-revision-height")
	case H.RevisionNumber < pre.latest.RevisionNumber:
		r.Count("upd.accepted.old-revision-backfill")
		r.Count("upd.accepted.old-revision-backfill.smaller-revision-height")
	case multi && H.RevisionNumber == pre.latest.RevisionNumber:
		r.Count("upd.accepted.new-revision-after-upgrade")
	}
	if post.latest.LT(pre.latest) {
		bad("latest-height-lowered", c07H(post.latest), ">= "+c07H(pre.latest))
	}
	if post.latest != want {
		bad("latest-height-is-not-the-maximum", c07H(post.latest), c07H(want))
	}
	if len(post.cons) < len(pre.cons) || (len(post.cons) == len(pre.cons) && func() bool { _, had := pre.cons[H]; return !had }()) {
		r.Count("upd.accepted.pruned")
	}
}

// kinds: 0 nil, 1 genuine, 2 wrong value, 3 wrong sequence, 4 undecodable, 5 empty, 6 tampered, 7 the genuine proof of the other path
func (w *c07World) proofOf(kind int, ack bool) (proof []byte, seq uint64, value []byte) {
	seq, value = c07Seq, w.pf.value
	gen, other, tamper := w.pf.proof, w.pf.ackProof, w.pf.tamper
	if ack {
		value = w.pf.ackValue
		gen, other, tamper = w.pf.ackProof, w.pf.proof, w.pf.ackTamper
	}
	switch kind {
	case 0:
		return nil, seq, value
	case 1:
		return gen, seq, value
	case 2:
		return gen, seq, tmhash.Sum([]byte("another value"))
	case 3:
		return gen, seq + 1, value
	case 4:
		return []byte{0xff, 0xff, 0xff, 0x01, 0x02}, seq, value
	case 5:
		return []byte{}, seq, value
	case 7:
		return other, seq, value
	default:
		return tamper, seq, value
	}
}

// both Verify* entry points of the client: op "vfy" = VerifyPacketCommitment, "vfa" = VerifyPacketAcknowledgement
func (w *c07World) verify(r *Rec, f []string) string {
	if !w.exists {
		return "bad-op"
	}
	ack := f[0] == "vfa"
	pn := "commit"
	if ack {
		pn = "ack"
	}
	now := c07ParseI(f[1])
	h := clienttypes.NewHeight(c07ParseU(f[2]), c07ParseU(f[3]))
	kind, _ := strconv.Atoi(f[9])
	proof, seq, value := w.proofOf(kind, ack)
	// the abstract fields must describe the payload
	var mp commitmenttypes.MerkleProof
	decodes := proof != nil && w.app.AppCodec().Unmarshal(proof, &mp) == nil
	if f[4] != c07B(proof != nil) || f[5] != c07B(decodes) || f[6] != hx(w.pf.root) || f[7] != c07B(kind == 1) || f[8] != "|" {
		w.t.Fatalf("%s op does not describe its payload: %v", f[0], f)
	}
	snap := w.snap(w.ctx)
	ctx := w.ctx.WithBlockTime(time.Unix(0, now).UTC())
	csI, found := w.app.XIBCKeeper.ClientKeeper.GetClientState(ctx, w.cur)
	if !found {
		w.t.Fatal("client state missing")
	}
	store := w.app.XIBCKeeper.ClientKeeper.ClientStore(ctx, w.cur)
	// classification of the case by the harness's own reading of the store (for the distribution, not for the verdict)
	c, ok := snap.cons[h]
	pt, okp := snap.ptime[h]
	valid := new(big.Int).Add(new(big.Int).SetUint64(pt), new(big.Int).SetUint64(w.cs.TimeDelay))
	elapsed := okp && valid.BitLen() <= 64 && valid.Cmp(big.NewInt(now)) <= 0
	cat := ""
	switch {
	case ok && snap.latest.LT(h):
		cat = "stored-above-latest"
	case snap.latest.LT(h):
		cat = "above-latest"
	case !ok:
		cat = "not-stored"
	case !elapsed:
		cat = "delay-not-elapsed"
	case kind != 1 || !bytes.Equal(c.root, w.pf.root):
		cat = "no-membership"
	default:
		cat = "honourable"
	}
	if ok && okp && w.cs.TimeDelay > 0 && valid.BitLen() <= 64 {
		switch valid.Cmp(big.NewInt(now)) {
		case 0:
			r.Count(pn + ".delay.exactly-elapsed")
		case 1:
			if new(big.Int).Sub(valid, big.NewInt(now)).Cmp(big.NewInt(1)) == 0 {
				r.Count(pn + ".delay.one-ns-before")
			}
		case -1:
			if new(big.Int).Sub(big.NewInt(now), valid).Cmp(big.NewInt(1)) == 0 {
				r.Count(pn + ".delay.one-ns-after")
			}
		}
	}
	var err error
	pan, _ := safely(func() {
		if ack {
			err = csI.VerifyPacketAcknowledgement(ctx, store, w.app.AppCodec(), h, proof, c07SrcName, c07DstName, seq, value)
		} else {
			err = csI.VerifyPacketCommitment(ctx, store, w.app.AppCodec(), h, proof, c07SrcName, c07DstName, seq, value)
		}
	})
	if pan || err != nil {
		r.Count("vfy.rejected")
		r.Count(pn + "." + cat + ".rejected")
		if err != nil {
			m := err.Error()
			switch {
			case strings.Contains(m, "client state height < proof height"):
				r.Count("vfy.rej.above-latest")
			case strings.Contains(m, "consensus state does not exist"):
				r.Count("vfy.rej.no-consensus-state")
			case strings.Contains(m, "cannot verify packet until time"):
				r.Count("vfy.rej.delay")
			case strings.Contains(m, "proof cannot be empty"), strings.Contains(m, "failed to unmarshal proof"):
				r.Count("vfy.rej.proof-format")
			default:
				r.Count("vfy.rej.membership")
			}
		}
		return "rej"
	}
	r.Count("vfy.accepted")
	r.Count(pn + ".accepted")
	if w.cs.TimeDelay > 0 {
		r.Count(pn + ".accepted.nonzero-delay")
	}
	sfx, fn := "", "VerifyPacketCommitment"
	if ack {
		sfx, fn = ":ack-path", "VerifyPacketAcknowledgement"
	}
	bad := func(which, obs, req string) {
		w.find(r, "C07:honoured-proof:"+which+sfx, fn+" honoured a proof although: "+which, obs, req)
	}
	if snap.latest.LT(h) {
		bad("height-above-latest", c07H(h), "<= "+c07H(snap.latest))
	}
	if !ok {
		bad("no-consensus-state-at-proof-height", c07H(h), "stored height")
	}
	if !okp {
		bad("no-processed-time", c07H(h), "processed time")
	} else {
		if valid.BitLen() > 64 {
			bad("delay-not-passed:delay-overflows-uint64", fmt.Sprintf("processed %d + delay %d > now %d", pt, w.cs.TimeDelay, now), "processed + delay <= now")
		} else if valid.Cmp(big.NewInt(now)) > 0 {
			bad("delay-not-passed", fmt.Sprintf("processed %d + delay %d > now %d", pt, w.cs.TimeDelay, now), "processed + delay <= now")
		}
		if valid.Cmp(big.NewInt(now)) == 0 {
			r.Count("thr.delay.exact")
		}
	}
	if ok && (!bytes.Equal(c.root, w.pf.root) || kind != 1) {
		bad("no-membership", fmt.Sprintf("kind %d root %s", kind, hx(c.root)), "genuine proof against the stored root")
	}
	return "ok"
}

// ---- generator ---------------------------------------------------------------------------------------

type c07Blk struct {
	h    int64
	time int64
	vals []c07V
	next []c07V
	app  []byte
}

type c07Gen struct {
	r       *Rec
	w       *c07World
	chainID string
	rev     uint64
	blocks  map[int64]*c07Blk
	lo, hi  int64
	now     int64
	tp      int64
	drift   int64
	delay   uint64
	num     uint64
	den     uint64
}

func (g *c07Gen) rn(n int) int { return g.r.Rng.Intn(n) }

var c07Profiles = [][]int64{
	{1}, {5}, {1, 1}, {2, 1}, {1, 2}, {1, 1, 1}, {2, 2, 2}, {3, 2, 1}, {1, 1, 1, 1}, {2, 1, 1, 1}, {10, 10, 10, 1},
	{1, 1, 1, 1, 1, 1}, {4, 1, 1}, {1, 0, 1}, {0, 0, 3}, {5, 4, 3, 2, 1}, {1, 1, 1, 1, 1, 1, 1}, {3, 3, 3, 3, 3, 3, 3, 3},
	{6, 3}, {100, 50, 50, 49, 51}, {7, 7, 7, 7, 7, 7},
}

func (g *c07Gen) powers() []int64 {
	switch x := g.rn(20); {
	case x < 11:
		return append([]int64{}, c07Profiles[g.rn(len(c07Profiles))]...)
	case x < 15:
		n := 1 + g.rn(8)
		p := make([]int64, n)
		for i := range p {
			p[i] = int64(g.rn(12))
		}
		p[g.rn(n)] += 1
		return p
	case x < 17: // total exactly MaxTotalVotingPower, thirds around it
		n := 2 + g.rn(4)
		p := make([]int64, n)
		rest := c07MaxTot
		for i := 0; i < n-1; i++ {
			p[i] = c07MaxTot / int64(n)
			if g.rn(3) == 0 {
				p[i] -= int64(g.rn(3))
			}
			rest -= p[i]
		}
		p[n-1] = rest
		if g.rn(4) == 0 {
			p[n-1] -= int64(1 + g.rn(5))
		}
		return p
	case x < 19: // divisible by three, equal shares (exact 1/3 and 2/3 reachable)
		k := []int64{1, 3, 1000, 1 << 40, c07MaxTot / 3, c07MaxTot / 6}[g.rn(6)]
		n := []int{3, 6}[g.rn(2)]
		if k > c07MaxTot/int64(n) {
			k = c07MaxTot / int64(n)
		}
		p := make([]int64, n)
		for i := range p {
			p[i] = k
		}
		return p
	default:
		n := 1 + g.rn(8)
		p := make([]int64, n)
		for i := range p {
			p[i] = 1 + int64(g.r.Rng.Int63n(c07MaxTot/int64(n)))
		}
		return p
	}
}

func (g *c07Gen) newVals() []c07V {
	p := g.powers()
	perm := g.r.Rng.Perm(c07NKeys)
	keys := make([]int, len(p))
	for i := range p {
		keys[i] = perm[i] + 1
	}
	return c07Vals(keys, p)
}

func c07Sum(vs []c07V) *big.Int {
	t := new(big.Int)
	for _, v := range vs {
		t.Add(t, big.NewInt(v.power))
	}
	return t
}

func (g *c07Gen) evolve(vs []c07V) []c07V {
	switch x := g.rn(10); {
	case x < 5:
		return c07CopyVals(vs)
	case x < 8:
		out := c07CopyVals(vs)
		i := g.rn(len(out))
		switch g.rn(3) {
		case 0:
			out[i].power += int64(g.rn(3))
		case 1:
			if len(out) > 1 {
				out = append(out[:i], out[i+1:]...)
			}
		default:
			if len(out) < 8 {
				used := map[int]bool{}
				for _, v := range out {
					used[v.key] = true
				}
				for k := 1; k <= c07NKeys; k++ {
					if !used[k] {
						out = append(out, c07V{key: k, addr: c07Keys[k].addr, power: 1 + int64(g.rn(4))})
						break
					}
				}
			}
		}
		if c07Sum(out).Cmp(big.NewInt(c07MaxTot)) > 0 || c07Sum(out).Sign() == 0 {
			return c07CopyVals(vs)
		}
		return out
	default:
		return g.newVals()
	}
}

func (g *c07Gen) block(h int64) *c07Blk {
	if b, ok := g.blocks[h]; ok {
		return b
	}
	// off-chain heights: an unrelated block
	return &c07Blk{h: h, time: g.now - 1000, vals: g.newVals(), next: g.newVals(), app: tmhash.Sum([]byte(fmt.Sprint("app", h)))}
}

func (g *c07Gen) buildChain(lo int64, n int, t0 int64, step int64) {
	g.blocks = map[int64]*c07Blk{}
	g.lo, g.hi = lo, lo+int64(n)-1
	vals := g.newVals()
	t := t0
	for i := 0; i < n; i++ {
		next := g.evolve(vals)
		app := tmhash.Sum([]byte(fmt.Sprint("app", lo+int64(i), g.rn(1000))))
		if g.rn(5) < 3 {
			app = g.w.pf.root
		}
		g.blocks[lo+int64(i)] = &c07Blk{h: lo + int64(i), time: t, vals: vals, next: next, app: app}
		vals = next
		t += 1 + g.r.Rng.Int63n(step)
	}
}

type c07Req struct {
	blk       *c07Blk
	trusted   clienttypes.Height
	tvals     []c07V
	signMask  []bool // per validator of blk.vals: signs for the block
	nilVote   []bool // non-signers: nil vote instead of absent
	mut       int    // 0 = none
	chainID   string
	hdrTime   int64
	permute   bool
	tvalsProp int
	valsProp  int
	first     bool // directed cases: mutate the first signature (no early exit before it)
	pre       bool // header mutations 1..25 before signing (a consistent, differently-valued header)
}

func c07MakeBlockID(hash []byte) tmtypes.BlockID {
	return tmtypes.BlockID{Hash: hash, PartSetHeader: tmtypes.PartSetHeader{Total: 3, Hash: tmhash.Sum([]byte("part_set"))}}
}

const c07NMut = 60

// builds the wire header for a request; mutation `mut` (1..c07NMut) alters one aspect
func (g *c07Gen) build(q *c07Req) (*xibctm.Header, []int) {
	b := q.blk
	vals := c07CopyVals(b.vals)
	tvals := c07CopyVals(q.tvals)
	mut := q.mut
	if mut == 59 { // a well-formed header of a different validator set (signed by that set)
		vals = g.newVals()
		q.signMask = g.mask(vals, 0, 2, 3)
		q.nilVote = make([]bool, len(vals))
	}
	th := tmtypes.Header{
		Version:            tmprotoversion.Consensus{Block: 11, App: 2},
		ChainID:            q.chainID,
		Height:             b.h,
		Time:               time.Unix(0, q.hdrTime).UTC(),
		LastBlockID:        c07MakeBlockID(make([]byte, tmhash.Size)),
		LastCommitHash:     tmhash.Sum([]byte("last_commit_hash")),
		DataHash:           tmhash.Sum([]byte("data_hash")),
		ValidatorsHash:     c07HashVals(vals),
		NextValidatorsHash: c07HashVals(b.next),
		ConsensusHash:      tmhash.Sum([]byte("consensus_hash")),
		AppHash:            b.app,
		LastResultsHash:    tmhash.Sum([]byte("last_results_hash")),
		EvidenceHash:       tmhash.Sum([]byte("evidence_hash")),
		ProposerAddress:    vals[0].addr,
	}
	rnd := tmhash.Sum([]byte(fmt.Sprint("rnd", g.rn(1<<30))))
	mutHdr := func(m int, h *tmtypes.Header) {
		switch m {
		case 1:
			h.Version.Block = 12
		case 2:
			h.Version.App = 3
		case 3:
			h.ChainID = "otherchain-" + fmt.Sprint(g.rev)
		case 4:
			if pre, _, isRev := c07Rev(g.chainID); isRev {
				h.ChainID = fmt.Sprintf("%s-%d", pre, g.rev+1)
			} else {
				h.ChainID = g.chainID + "-1"
			}
		case 5:
			h.ChainID = g.chainID + "x"
		case 6:
			h.Height = b.h + 1
		case 7:
			h.Height = b.h - 1
		case 8:
			h.Height = []int64{0, -1, -b.h, math.MaxInt64, math.MinInt64, int64(q.trusted.RevisionHeight)}[g.rn(6)]
		case 9:
			h.Time = h.Time.Add(time.Duration(1 + g.rn(1000)))
		case 10:
			h.Time = h.Time.Add(-time.Duration(1 + g.rn(1000)))
		case 11:
			h.LastBlockID = c07MakeBlockID(rnd)
		case 12:
			h.LastCommitHash = rnd
		case 13:
			h.DataHash = rnd
		case 14:
			h.ValidatorsHash = rnd
		case 15:
			h.NextValidatorsHash = rnd
		case 16:
			h.ConsensusHash = rnd
		case 17:
			h.AppHash = rnd
		case 18:
			h.LastResultsHash = rnd
		case 19:
			h.EvidenceHash = rnd
		case 20:
			h.ProposerAddress = c07OtherAddr(1)
		case 21:
			h.ValidatorsHash = rnd[:20] // wrong size
		case 22:
			h.ProposerAddress = rnd[:19]
		case 23:
			h.ValidatorsHash = nil
		case 24:
			h.AppHash = nil
		case 25:
			h.ChainID = []string{strings.Repeat("c", 51) + "-1", "cpchain-18446744073709551616", "cpchain-99999999999999999999999", g.chainID + "\n", "-1", ""}[g.rn(6)]
		}
	}
	if mut >= 1 && mut <= 25 && (q.pre || g.rn(2) == 0) { // before signing: a consistent, differently-valued header
		mutHdr(mut, &th)
		mut = 0
	}
	blockID := c07MakeBlockID(th.Hash())
	if len(blockID.Hash) == 0 {
		blockID.Hash = rnd
	}
	commit := &tmtypes.Commit{Height: th.Height, Round: 1, BlockID: blockID}
	signChain := th.ChainID
	if mut == 26 {
		signChain = th.ChainID + "-fork"
	}
	n := len(vals)
	signers := make([]int, 0, n)
	for i := 0; i < n; i++ {
		ts := time.Unix(0, q.hdrTime+int64(i)).UTC()
		switch {
		case q.signMask[i] && vals[i].key != 0:
			commit.Signatures = append(commit.Signatures, tmtypes.CommitSig{BlockIDFlag: tmtypes.BlockIDFlagCommit, ValidatorAddress: vals[i].addr, Timestamp: ts})
			signers = append(signers, vals[i].key)
		case q.nilVote[i] && vals[i].key != 0:
			commit.Signatures = append(commit.Signatures, tmtypes.CommitSig{BlockIDFlag: tmtypes.BlockIDFlagNil, ValidatorAddress: vals[i].addr, Timestamp: ts})
			signers = append(signers, vals[i].key)
		default:
			commit.Signatures = append(commit.Signatures, tmtypes.NewCommitSigAbsent())
			signers = append(signers, 0)
		}
	}
	if commit.Height < 0 {
		commit.Height = 1
	}
	sign := func(i int) {
		if signers[i] == 0 {
			return
		}
		sig, err := c07Keys[signers[i]].priv.Sign(commit.VoteSignBytes(signChain, int32(i)))
		if err != nil {
			panic(err)
		}
		commit.Signatures[i].Signature = sig
	}
	for i := range commit.Signatures {
		sign(i)
	}
	// signature-level mutations
	pickSigned := func() int {
		var c []int
		for i, s := range commit.Signatures {
			if s.BlockIDFlag == tmtypes.BlockIDFlagCommit {
				c = append(c, i)
			}
		}
		if len(c) == 0 {
			return -1
		}
		if q.first {
			return c[0]
		}
		return c[g.rn(len(c))]
	}
	switch mut {
	case 27: // garbage signature
		if i := pickSigned(); i >= 0 {
			commit.Signatures[i].Signature = append(append([]byte{}, rnd...), rnd...)
			signers[i] = 0
		}
	case 28: // signed by another key
		if i := pickSigned(); i >= 0 {
			signers[i] = 1 + (signers[i] % c07NKeys)
			sign(i)
		}
	case 29: // timestamp changed after signing
		if i := pickSigned(); i >= 0 {
			commit.Signatures[i].Timestamp = commit.Signatures[i].Timestamp.Add(time.Nanosecond)
		}
	case 30: // double vote: one validator's signature twice (second copy replaces another entry)
		if i := pickSigned(); i >= 0 && n > 1 {
			j := (i + 1 + g.rn(n-1)) % n
			if q.first {
				j = (i + 1) % n
			}
			commit.Signatures[j] = commit.Signatures[i]
			signers[j] = signers[i]
		}
	case 31: // double vote re-signed at the other index with its own timestamp
		if i := pickSigned(); i >= 0 && n > 1 {
			j := (i + 1 + g.rn(n-1)) % n
			if q.first {
				j = (i + 1) % n
			}
			commit.Signatures[j] = tmtypes.CommitSig{BlockIDFlag: tmtypes.BlockIDFlagCommit, ValidatorAddress: vals[i].addr, Timestamp: time.Unix(0, q.hdrTime+99).UTC()}
			signers[j] = signers[i]
			sign(j)
		}
	case 32: // one signature dropped
		if n > 0 {
			i := g.rn(n)
			commit.Signatures = append(commit.Signatures[:i], commit.Signatures[i+1:]...)
			signers = append(signers[:i], signers[i+1:]...)
			for k := range commit.Signatures {
				sign(k)
			}
		}
	case 33: // an extra signature of a foreign validator
		k := 1 + g.rn(c07NKeys)
		commit.Signatures = append(commit.Signatures, tmtypes.CommitSig{BlockIDFlag: tmtypes.BlockIDFlagCommit, ValidatorAddress: c07Keys[k].addr, Timestamp: time.Unix(0, q.hdrTime).UTC()})
		signers = append(signers, k)
		sign(len(signers) - 1)
	case 34: // unknown block id flag
		if i := pickSigned(); i >= 0 {
			commit.Signatures[i].BlockIDFlag = tmtypes.BlockIDFlag([]int{0, 4, 9}[g.rn(3)])
		}
	case 35: // address of another validator on a signature
		if i := pickSigned(); i >= 0 {
			commit.Signatures[i].ValidatorAddress = c07Keys[1+g.rn(c07NKeys)].addr
		}
	case 36: // address of nobody
		if i := pickSigned(); i >= 0 {
			commit.Signatures[i].ValidatorAddress = c07OtherAddr(g.rn(3))
		}
	case 37: // a for-block vote turned into a nil vote after signing
		if i := pickSigned(); i >= 0 {
			commit.Signatures[i].BlockIDFlag = tmtypes.BlockIDFlagNil
		}
	case 38: // a nil vote presented as a for-block vote
		for i := range commit.Signatures {
			if commit.Signatures[i].BlockIDFlag == tmtypes.BlockIDFlagNil {
				commit.Signatures[i].BlockIDFlag = tmtypes.BlockIDFlagCommit
				break
			}
		}
	case 39: // short address
		if i := pickSigned(); i >= 0 {
			commit.Signatures[i].ValidatorAddress = commit.Signatures[i].ValidatorAddress[:19]
		}
	case 40: // empty signature
		if i := pickSigned(); i >= 0 {
			commit.Signatures[i].Signature = nil
			signers[i] = 0
		}
	}
	if q.permute || mut == 41 {
		p := g.r.Rng.Perm(len(commit.Signatures))
		ns := make([]tmtypes.CommitSig, len(p))
		nk := make([]int, len(p))
		for i, j := range p {
			ns[i], nk[i] = commit.Signatures[j], signers[j]
		}
		commit.Signatures, signers = ns, nk
		// signatures do not depend on the position: they stay valid
	}
	pc := commit.ToProto()
	phd := th.ToProto()
	// mutations after signing
	if mut >= 1 && mut <= 25 {
		mutHdr(mut, &th)
		phd = th.ToProto()
	}
	switch mut {
	case 42:
		pc.Height++
	case 43:
		pc.Round++
	case 44:
		pc.BlockID.Hash = rnd
	case 45:
		pc.BlockID.PartSetHeader.Total++
	case 46:
		pc.BlockID.PartSetHeader.Hash = rnd[:10]
	case 47:
		pc = nil
	case 48:
		pc.Signatures = nil
	}
	// validator sets
	pv := c07ProtoValSet(vals, q.valsProp, []int64{0, 1, c07Sum(vals).Int64(), -5}[g.rn(4)])
	ptv := c07ProtoValSet(tvals, q.tvalsProp, []int64{0, 1, 77}[g.rn(3)])
	mutVS := func(m int, vs *tmproto.ValidatorSet, src []c07V) *tmproto.ValidatorSet {
		if len(vs.Validators) == 0 {
			return vs
		}
		i := g.rn(len(vs.Validators))
		switch m {
		case 0:
			vs.Validators[i].VotingPower += 1 + int64(g.rn(3))
		case 1:
			if vs.Validators[i].VotingPower > 0 {
				vs.Validators[i].VotingPower--
			}
		case 2:
			vs.Validators = append(vs.Validators[:i], vs.Validators[i+1:]...)
		case 3:
			k := 1 + g.rn(c07NKeys)
			vs.Validators = append(vs.Validators, c07ProtoVal(c07V{key: k, addr: c07Keys[k].addr, power: 1 + int64(g.rn(5))}))
		case 4:
			return nil
		case 5:
			vs.Validators = nil
		case 6:
			vs.Validators[i].VotingPower = -1 - int64(g.rn(3))
		case 7:
			vs.Validators[i].PubKey = tmprotocrypto.PublicKey{}
		case 8:
			vs.Validators[i].Address = vs.Validators[i].Address[:19]
		case 9:
			vs.Proposer = nil
		case 10:
			vs.Proposer = c07ProtoValSet(nil, -2, 0).Proposer
		case 11: // total voting power overflow
			vs.Validators[i].VotingPower = c07MaxTot + 1 - (c07Sum(src).Int64() - src[minInt(i, len(src)-1)].power)
			if g.rn(2) == 0 {
				vs.Validators[i].VotingPower = math.MaxInt64
			}
		case 12: // the key of another validator
			k := 1 + g.rn(c07NKeys)
			vs.Validators[i].PubKey = c07Keys[k].pb
		case 13: // same validator twice
			vs.Validators = append(vs.Validators, vs.Validators[i])
		case 14: // order
			j := g.rn(len(vs.Validators))
			vs.Validators[i], vs.Validators[j] = vs.Validators[j], vs.Validators[i]
		case 15: // address of another validator (not hashed)
			vs.Validators[i].Address = c07Keys[1+g.rn(c07NKeys)].addr
		case 16: // address of nobody (not hashed)
			vs.Validators[i].Address = c07OtherAddr(g.rn(3))
		}
		return vs
	}
	if mut == 49 {
		pv = mutVS(g.rn(17), pv, vals)
	}
	if mut == 50 {
		ptv = mutVS(g.rn(17), ptv, tvals)
	}
	if mut == 51 { // trusted validators of another height
		ptv = c07ProtoValSet(g.block(g.lo+int64(g.rn(int(g.hi-g.lo+1)))).vals, 0, 0)
	}
	if mut == 52 { // the header's own set offered as trusted set
		ptv = c07ProtoValSet(vals, 0, 0)
	}
	trusted := q.trusted
	switch mut {
	case 53:
		trusted.RevisionHeight++
	case 54:
		trusted.RevisionNumber++
	case 55:
		trusted.RevisionHeight = uint64(b.h)
	case 56:
		trusted.RevisionHeight = uint64(b.h) + 1 + uint64(g.rn(3))
	case 57:
		trusted.RevisionHeight = 0
	case 58:
		if trusted.RevisionHeight > 1 {
			trusted.RevisionHeight--
		}
	}
	return &xibctm.Header{SignedHeader: &tmproto.SignedHeader{Header: phd, Commit: pc}, ValidatorSet: pv, TrustedHeight: trusted, TrustedValidators: ptv}, signers
}

func minInt(a, b int) int {
	if a < b {
		return a
	}
	return b
}

// signer mask reaching a chosen relation to a threshold num/den of the set
func (g *c07Gen) mask(vs []c07V, mode int, num, den int64) []bool {
	n := len(vs)
	m := make([]bool, n)
	switch mode {
	case 0: // everybody
		for i := range m {
			m[i] = true
		}
	case 1: // random subset
		for i := range m {
			m[i] = g.rn(2) == 0
		}
	case 2: // nobody
	default: // greedy towards the threshold, then stop just below / at / just above
		tot := c07Sum(vs)
		need := new(big.Int).Mul(tot, big.NewInt(num)) // signed*den > need
		acc := new(big.Int)
		order := g.r.Rng.Perm(n)
		for _, i := range order {
			nx := new(big.Int).Add(acc, big.NewInt(vs[i].power))
			over := new(big.Int).Mul(nx, big.NewInt(den)).Cmp(need) > 0
			if over && mode == 3 { // stay at or below the threshold
				continue
			}
			m[i] = true
			acc = nx
			if over {
				break
			}
		}
	}
	return m
}

func (g *c07Gen) storedHeights() []clienttypes.Height {
	s := g.w.snap(g.w.ctx)
	hm := map[clienttypes.Height]bool{}
	for h := range s.cons {
		hm[h] = true
	}
	return c07SortedHeights(hm)
}

func (g *c07Gen) createOp(h0 int64, now int64) string {
	b := g.blocks[h0]
	return fmt.Sprintf("create %s %d %d %d %d %d %d %d %d %s %s %d", hxs(g.chainID), g.num, g.den, g.tp, g.drift, g.delay, g.rev, h0,
		b.time, hx(b.app), hx(c07HashVals(b.next)), now)
}

func (g *c07Gen) vfOp(ack bool, now int64, h clienttypes.Height, kind int) string {
	proof, _, _ := g.w.proofOf(kind, ack)
	var mp commitmenttypes.MerkleProof
	decodes := proof != nil && g.w.app.AppCodec().Unmarshal(proof, &mp) == nil
	op := "vfy"
	if ack {
		op = "vfa"
	}
	return fmt.Sprintf("%s %d %d %d %s %s %s %s | %d", op, now, h.RevisionNumber, h.RevisionHeight, c07B(proof != nil), c07B(decodes), hx(g.w.pf.root), c07B(kind == 1), kind)
}

func (g *c07Gen) vfyOp(now int64, h clienttypes.Height, kind int) string { return g.vfOp(false, now, h, kind) }
func (g *c07Gen) vfaOp(now int64, h clienttypes.Height, kind int) string { return g.vfOp(true, now, h, kind) }

func TestC07(t *testing.T) {
	r := NewRec(t, "C07")
	defer r.Close()
	w := newC07World(t)
	run := func(op string) string {
		out := w.apply(r, op)
		r.Op(op, out)
		if strings.HasPrefix(op, "upd") || strings.HasPrefix(op, "vfy") || strings.HasPrefix(op, "vfa") {
			f := strings.Fields(op)
			for i, x := range f {
				if x == "|" {
					f = f[:i]
					break
				}
			}
			r.Nontrivial(strings.Join(f, " "))
		}
		return out
	}
	if ops := replayOps(t); ops != nil {
		for _, op := range ops {
			run(op)
		}
		return
	}
	for _, h := range corpusOps("C07") {
		run("reset")
		for _, op := range h {
			run(op)
		}
	}
	hist := 600
	if r.Tier == "thorough" {
		hist = 4000
	}
	if n := envInt("VERIF_N", 0); n > 0 {
		hist = int(n)
	}
	g := &c07Gen{r: r, w: w}
	c07Verb = func() string {
		if r.Rng.Intn(2) == 0 {
			return "updm"
		}
		return "upd"
	}
	// generated streams: now and then an op is first executed on a dropped cache context (`dry`), the chain is restarted
	// from its exported state (`restart`: module level; `restartapp`: whole app, a few times per run)
	nops, appEvery := 0, 1800
	if r.Tier == "thorough" {
		appEvery = 9000
	}
	gen := func(op string) string {
		nops++
		f0 := strings.Fields(op)[0]
		dryOut := ""
		if (f0 == "upd" || f0 == "updm" || f0 == "vfy" || f0 == "vfa" || f0 == "upgrade" || f0 == "create") && r.Rng.Intn(25) == 0 {
			dryOut = run("dry " + op)
		}
		out := run(op)
		if dryOut != "" && strings.Fields(strings.TrimPrefix(dryOut, "dry "))[0] != strings.Fields(out)[0] {
			// the same op in the same state: the verdict of the discarded execution and of the real one must agree
			w.find(r, "C07:dry-run-verdict-differs:"+f0, "an operation gave another verdict after the same operation had run on a dropped cache context", out, dryOut)
		}
		if f0 != "reset" && f0 != "use" && r.Rng.Intn(30) == 0 {
			if r.Rng.Intn(12) == 0 {
				run("dry restart")
			}
			run("restart")
		}
		if f0 != "reset" && nops%appEvery == appEvery/2 {
			run("restartapp")
		}
		return out
	}
	c07Exhaustive(g, gen)
	c07Directed(g, gen)
	c07DirectedExpiry(g, gen)
	c07DirectedConfigEdges(g, gen)
	c07DirectedMultiRev(g, gen)
	c07DirectedVerifyMatrix(g, gen)
	c07DirectedHardening(g, run)
	for i := 0; i < hist/4; i++ {
		c07HistoryMultiRev(g, gen)
	}
	for i := 0; i < hist/4; i++ {
		c07HistoryTwoClients(g, gen)
	}
	for i := 0; i < hist; i++ {
		c07History(g, gen)
	}
}

func (g *c07Gen) config() {
	ids := []string{"cpchain", "cpchain-1", "cpchain-1", "cp-chain-3", "cpchain-12", "cpchain-2", "cpchain-01", "cp\nchain-4", "cpchain\n-5", "cpchain--6", "cpchain-18446744073709551615", "cpchain-18446744073709551616"}
	g.chainID = ids[g.rn(len(ids))]
	if g.rn(3) > 0 {
		g.chainID = ids[g.rn(6)]
	}
	_, g.rev, _ = c07Rev(g.chainID)
	g.tp = []int64{int64(100 * time.Second), int64(time.Hour), int64(14 * 24 * time.Hour)}[g.rn(3)]
	g.drift = []int64{1, int64(10 * time.Second), int64(time.Minute)}[g.rn(3)]
	g.delay = []uint64{0, 0, 1, uint64(5 * time.Second), uint64(time.Hour), 0, 1, uint64(5 * time.Second), uint64(time.Hour), math.MaxUint64 - 1700000000000000000}[g.rn(10)]
	if g.rn(12) == 0 {
		g.delay = []uint64{1<<31 - 1, 1<<31 + 1, 1<<32 - 1, 1<<32 + 1, 1<<53 + 1, 1<<63 - 1, 1 << 63, math.MaxUint64, 10000000000000000000}[g.rn(9)]
		g.r.Count("cfg.delay-boundary")
	}
	if g.rn(30) == 0 {
		g.tp = []int64{math.MaxInt64 - int64(2*time.Hour), 1<<53 + 1, 1<<32 + 1}[g.rn(3)]
		g.r.Count("cfg.trusting-period-boundary")
	}
	if g.rn(30) == 0 {
		g.drift = []int64{math.MaxInt64, 1<<53 + 1, 1<<31 - 1}[g.rn(3)]
		g.r.Count("cfg.drift-boundary")
	}
	tl := [][2]uint64{{1, 3}, {1, 3}, {1, 2}, {2, 3}, {3, 4}, {1, 1}, {1 << 40, 3 << 40}, {5, 7}, {9, 10}}[g.rn(9)]
	if g.rn(25) == 0 { // configurations that must not pass validation, and extreme ones that do
		tl = [][2]uint64{{1, 4}, {4, 3}, {0, 0}, {0, 1}, {3074457345618258603, 9223372036854775808}, {9223372036854775808, 9223372036854775808}, {6148914691236517205, math.MaxUint64},
			{math.MaxUint64, math.MaxUint64}, {6148914691236517206, 1}, {6148914691236517206, math.MaxUint64}, {math.MaxInt64, math.MaxInt64},
			{3074457345618258603, math.MaxInt64}, {3074457345618258602, math.MaxInt64}}[g.rn(13)]
	}
	g.num, g.den = tl[0], tl[1]
}

// every mutation once on the adjacent and once on the skipping path, on a set where no early exit hides it
func c07Directed(g *c07Gen, run func(string) string) {
	reps := 1
	if g.r.Tier == "thorough" {
		reps = 3
	}
	for rep := 0; rep < reps; rep++ {
		for mut := 0; mut < c07NMut; mut++ {
			for _, adj := range []bool{true, false} {
				g.rev, g.chainID = 1, "cpchain-1"
				g.tp, g.drift, g.delay = int64(time.Hour), int64(10*time.Second), 0
				g.num, g.den = 2, 3
				t0 := int64(1700000000) * int64(time.Second)
				g.now = t0
				vals := c07Vals([]int{1, 2, 3, 4}, []int64{1, 1, 1, 1})
				g.blocks = map[int64]*c07Blk{}
				g.lo, g.hi = 5, 9
				g.blocks[5] = &c07Blk{h: 5, time: t0, vals: vals, next: vals, app: g.w.pf.root}
				tgt := int64(6)
				if !adj {
					tgt = 8
				}
				g.blocks[tgt] = &c07Blk{h: tgt, time: t0 + 5e9, vals: vals, next: vals, app: g.w.pf.root}
				run("reset")
				run(g.createOp(5, t0+1e9))
				q := &c07Req{blk: g.blocks[tgt], trusted: clienttypes.NewHeight(1, 5), tvals: vals, signMask: []bool{true, true, true, true}, nilVote: make([]bool, 4), chainID: g.chainID, hdrTime: t0 + 5e9, mut: mut, first: true}
				hd, signers := g.build(q)
				run(c07UpdLine(t0+6e9, hd, signers))
				g.r.Count("directed.case")
			}
		}
	}
}

// the latest consensus state is not the youngest one (header times need not be monotone in height): the client is
// expired when the state at the *latest height* leaves the trusting period, even if a younger trusted state exists
func c07DirectedExpiry(g *c07Gen, run func(string) string) {
	for _, off := range []int64{0, 1, 2} {
		g.rev, g.chainID = 1, "cpchain-1"
		g.tp, g.drift, g.delay = int64(time.Hour), int64(10*time.Second), 0
		g.num, g.den = 1, 3
		t0 := int64(1700000000) * int64(time.Second)
		g.now = t0
		vals := c07Vals([]int{1, 2, 3}, []int64{1, 1, 1})
		g.blocks = map[int64]*c07Blk{}
		g.lo, g.hi = 5, 9
		for h, t := range map[int64]int64{5: t0, 9: t0 + 1, 7: t0 + 1000e9, 8: t0 + 1001e9} {
			g.blocks[h] = &c07Blk{h: h, time: t, vals: vals, next: vals, app: g.w.pf.root}
		}
		all := []bool{true, true, true}
		upd := func(h int64, th uint64, now int64) string {
			q := &c07Req{blk: g.blocks[h], trusted: clienttypes.NewHeight(1, th), tvals: vals, signMask: all, nilVote: make([]bool, 3), chainID: g.chainID, hdrTime: g.blocks[h].time}
			hd, signers := g.build(q)
			return run(c07UpdLine(now, hd, signers))
		}
		run("reset")
		run(g.createOp(5, t0+1e9))
		upd(9, 5, t0+2e9)
		upd(7, 5, t0+1002e9)
		upd(8, 7, t0+1+g.tp-off)
		g.r.Count("directed.expiry")
	}
}

// configurations at the edge of the integer types: a trust level that does not fit int64 (the library converts it with
// int64(...): the needed power becomes negative) and a delay that overflows uint64 when added to the processed time
func c07DirectedConfigEdges(g *c07Gen, run func(string) string) {
	t0 := int64(1700000000) * int64(time.Second)
	g.rev, g.chainID = 1, "cpchain-1"
	g.tp, g.drift, g.delay = int64(time.Hour), int64(10*time.Second), 0
	g.num, g.den = 6148914691236517205, math.MaxUint64 // exactly 1/3; int64(den) = -1
	g.now = t0
	tv := c07Vals([]int{1, 2}, []int64{0, 1})
	vals := c07Vals([]int{1, 4, 5, 6}, []int64{0, 1, 1, 1})
	g.blocks = map[int64]*c07Blk{}
	g.lo, g.hi = 5, 9
	g.blocks[5] = &c07Blk{h: 5, time: t0, vals: tv, next: tv, app: g.w.pf.root}
	g.blocks[8] = &c07Blk{h: 8, time: t0 + 5e9, vals: vals, next: vals, app: g.w.pf.root}
	run("reset")
	run(g.createOp(5, t0+1e9))
	q := &c07Req{blk: g.blocks[8], trusted: clienttypes.NewHeight(1, 5), tvals: tv, signMask: []bool{true, true, true, true}, nilVote: make([]bool, 4), chainID: g.chainID, hdrTime: t0 + 5e9}
	hd, signers := g.build(q)
	run(c07UpdLine(t0+6e9, hd, signers))
	// delay overflow
	g.num, g.den = 1, 3
	g.delay = math.MaxUint64
	run("reset")
	run(g.createOp(5, t0+1e9))
	run(g.vfyOp(t0+2e9, clienttypes.NewHeight(1, 5), 1))
	run(g.vfaOp(t0+2e9, clienttypes.NewHeight(1, 5), 1))
	g.delay = math.MaxUint64 - uint64(t0+1e9) // processed + delay = MaxUint64: no overflow, never reached
	run("reset")
	run(g.createOp(5, t0+1e9))
	run(g.vfyOp(t0+2e9, clienttypes.NewHeight(1, 5), 1))
	g.r.Count("directed.config-edges")
}

// every signer subset of small validator sets, adjacent and skipping
func c07Exhaustive(g *c07Gen, run func(string) string) {
	profiles := [][]int64{{1}, {1, 1}, {2, 1}, {1, 1, 1}, {2, 1, 1}, {1, 1, 1, 1}}
	if g.r.Tier == "thorough" {
		profiles = append(profiles, []int64{3, 2, 1, 1}, []int64{1, 1, 1, 1, 1}, []int64{2, 2, 1, 1, 1, 1}, []int64{c07MaxTot / 3, c07MaxTot / 3, c07MaxTot / 3}, []int64{1, 0, 1, 1})
	}
	shard := g.r.Shard
	for pi, p := range profiles {
		if g.r.Tier == "thorough" && pi%4 != shard%4 {
			continue
		}
		for _, adj := range []bool{true, false} {
			for mask := 0; mask < 1<<len(p); mask++ {
				g.rev, g.chainID = 1, "cpchain-1"
				g.tp, g.drift, g.delay = int64(time.Hour), int64(10*time.Second), 0
				tl := [][2]uint64{{1, 3}, {2, 3}, {1, 2}}[(mask+pi)%3]
				g.num, g.den = tl[0], tl[1]
				t0 := int64(1700000000) * int64(time.Second)
				g.now = t0
				keys := make([]int, len(p))
				for i := range p {
					keys[i] = i + 1
				}
				vals := c07Vals(keys, p)
				// the trusted set of the skipping case overlaps the header's set in all but the first validator
				tv := c07CopyVals(vals)
				if !adj && len(tv) > 1 {
					tv[0] = c07V{key: 9, addr: c07Keys[9].addr, power: tv[0].power}
				}
				g.blocks = map[int64]*c07Blk{}
				g.lo, g.hi = 5, 9
				g.blocks[5] = &c07Blk{h: 5, time: t0, vals: tv, next: tv, app: g.w.pf.root}
				tgt := int64(6)
				if !adj {
					tgt = 8
				}
				g.blocks[tgt] = &c07Blk{h: tgt, time: t0 + 5e9, vals: vals, next: vals, app: g.w.pf.root}
				run("reset")
				run(g.createOp(5, t0+1e9))
				sm := make([]bool, len(p))
				for i := range sm {
					sm[i] = mask&(1<<i) != 0
				}
				q := &c07Req{blk: g.blocks[tgt], trusted: clienttypes.NewHeight(1, 5), tvals: tv, signMask: sm, nilVote: make([]bool, len(p)), chainID: g.chainID, hdrTime: t0 + 5e9}
				hd, signers := g.build(q)
				run(c07UpdLine(t0+6e9, hd, signers))
				g.r.Count("exhaustive.case")
			}
		}
	}
}

func c07History(g *c07Gen, run func(string) string) {
	r := g.r
	g.config()
	t0 := int64(1700000000)*int64(time.Second) + int64(g.rn(1000000))
	step := g.tp / int64(30+g.rn(70))
	if g.rn(20) < 3 {
		step = g.tp / int64(3+g.rn(8)) // long chains: expiry and pruning
	}
	if step < 2 {
		step = 2
	}
	lo := int64(1 + g.rn(60))
	if g.rn(12) == 0 {
		lo = 0x2e00 + int64(g.rn(600)) // heights with interesting key bytes
	}
	g.buildChain(lo, 24, t0, step)
	h0 := lo + int64(g.rn(6))
	g.now = g.blocks[h0].time + 1 + int64(g.rn(int(minI64(step, 1e9))))
	run("reset")
	if run(g.createOp(h0, g.now)) == "rej" {
		return
	}
	steps := 3 + g.rn(8)
	statusRej0 := r.Stats["rej.status"]
	ever := map[clienttypes.Height]bool{}
	for s := 0; s < steps; s++ {
		stored := g.storedHeights()
		if len(stored) == 0 || r.Stats["rej.status"] >= statusRej0+2 {
			break
		}
		if g.rn(40) == 0 && len(stored) >= 2 {
			// an upgrade (governance path) installs a lower latest height of the same revision: stored heights above it remain
			low := int64(stored[len(stored)-2].RevisionHeight)
			if stored[len(stored)-2].RevisionNumber == g.rev && low >= g.lo && low <= g.hi {
				if g.rn(2) == 0 && low > g.lo {
					low--
				}
				run(g.upgradeOp(low, g.now))
				top := stored[len(stored)-1]
				late := g.now + int64(g.delay) + 1
				if late < 0 {
					late = g.now
				}
				run(g.vfOp(g.rn(2) == 0, late, top, 1))
				r.Count("rollback-upgrade")
				continue
			}
		}
		if g.rn(4) == 0 {
			// proof verification at stored / unstored / too recent heights
			var h clienttypes.Height
			switch g.rn(14) {
			case 0:
				h = clienttypes.NewHeight(g.rev, uint64(g.lo+int64(g.rn(24))))
			case 6, 7: // at or below the latest height, probably not stored
				h = stored[len(stored)-1]
				if h.RevisionHeight > uint64(g.lo) {
					h.RevisionHeight -= uint64(g.rn(int(h.RevisionHeight - uint64(g.lo) + 1)))
				}
			case 1:
				h = stored[len(stored)-1]
				h.RevisionHeight++
			case 2:
				h = stored[g.rn(len(stored))]
				h.RevisionNumber++
			default:
				h = stored[g.rn(len(stored))]
			}
			now := g.now
			sn := g.w.snap(g.w.ctx)
			if pt, ok := sn.ptime[h]; ok && g.rn(2) == 0 {
				now = int64(pt + g.delay + uint64(g.rn(3)) - 1)
				if now < 0 {
					now = g.now
				}
			}
			kind := []int{1, 1, 1, 1, 1, 1, 1, 0, 2, 3, 4, 5, 6}[g.rn(13)]
			if g.rn(8) == 0 {
				kind = 7
			}
			run(g.vfOp(g.rn(2) == 0, now, h, kind))
			continue
		}
		// choose trusted height and target
		ti := len(stored) - 1
		if g.rn(3) == 0 {
			ti = g.rn(len(stored))
		}
		trusted := stored[ti]
		for _, h := range stored {
			ever[h] = true
		}
		if len(ever) > len(stored) && g.rn(6) == 0 { // a height that was stored once and has been pruned
			for _, h := range c07SortedHeights(ever) {
				if _, still := g.w.snap(g.w.ctx).cons[h]; !still {
					trusted = h
					r.Count("trusted.pruned")
					break
				}
			}
		}
		var tgt int64
		th := int64(trusted.RevisionHeight)
		switch x := g.rn(20); {
		case x < 7:
			tgt = th + 1
		case x < 14:
			tgt = th + 2 + int64(g.rn(6))
		case x < 16: // re-submit a stored height above the trusted one, or adjacent
			tgt = th + 1
			if ti+1 < len(stored) {
				tgt = int64(stored[ti+1].RevisionHeight)
			}
		case x < 18: // back-fill just below the next stored one
			tgt = th + 1
			if ti+1 < len(stored) && int64(stored[ti+1].RevisionHeight) > th+1 {
				tgt = th + 1 + int64(g.rn(int(int64(stored[ti+1].RevisionHeight)-th-1)))
			}
		case x < 19:
			tgt = th - int64(g.rn(3))
		default:
			tgt = th + 1 + int64(g.rn(4))
			trusted.RevisionHeight += uint64(1 + g.rn(3)) // probably not stored
		}
		if tgt < 1 {
			tgt = 1
		}
		blk := g.block(tgt)
		tblk := g.block(int64(trusted.RevisionHeight))
		tvals := tblk.next
		// clock
		sn := g.w.snap(g.w.ctx)
		tc, hasTC := sn.cons[trusted]
		hdrTime := blk.time
		boundary := false
		now := g.now
		if now < blk.time {
			now = blk.time + int64(g.rn(int(minI64(step, 5e9))))
		} else {
			now += int64(g.rn(int(minI64(step, 5e9))))
		}
		switch x := g.rn(24); {
		case x == 0 && hasTC: // trusted state exactly expired / one ns before
			now = tc.time + g.tp - int64(g.rn(2))
			boundary = true
			r.Count("clock.trusting-boundary")
		case x == 1 && hasTC:
			now = tc.time + g.tp + int64(g.rn(1000))
			boundary = true
		case x == 2: // header time at the drift boundary
			now = hdrTime - g.drift + int64(g.rn(3)) - 1
			boundary = true
			r.Count("clock.drift-boundary")
		case x == 3 && hasTC: // header time at / just after the trusted time
			hdrTime = tc.time + int64(g.rn(3)) - 1
			r.Count("clock.trusted-time-boundary")
		case x == 5 && len(stored) >= 2: // earliest consensus state at its expiry (pruning boundary)
			if ec, ok := sn.cons[stored[0]]; ok {
				now = ec.time + g.tp - int64(g.rn(2))
				boundary = true
				r.Count("clock.prune-boundary")
			}
		case x == 6 && hasTC: // a header older than stored ones but newer than the trusted one: times need not be monotone in height
			hdrTime = tc.time + 1 + int64(g.rn(1000))
			r.Count("clock.header-time-just-after-trusted")
		case x == 4: // latest consensus state at its expiry
			if lc, ok := sn.cons[sn.latest]; ok {
				now = lc.time + g.tp - int64(g.rn(2))
				boundary = true
				r.Count("clock.client-expiry-boundary")
			}
		}
		if now < 0 {
			now = g.now
		}
		if now > g.now && (!boundary || g.rn(4) == 0) {
			g.now = now // the clock of the history moves on (boundary probes mostly do not move it)
		}
		// signers
		n := len(blk.vals)
		var sm []bool
		switch x := g.rn(20); {
		case x < 7:
			sm = g.mask(blk.vals, 0, 2, 3)
		case x < 9:
			sm = g.mask(blk.vals, 1, 2, 3)
		case x < 11:
			sm = g.mask(blk.vals, 3, 2, 3) // at or just below 2/3
		case x < 14:
			sm = g.mask(blk.vals, 4, 2, 3) // just above 2/3
		case x < 15:
			sm = g.mask(blk.vals, 2, 2, 3)
		default:
			// steer by the trusted set: signers of the header set whose keys reach / miss the trust level of the trusted set
			mode := 3 + g.rn(2)
			tm := g.mask(tvals, mode, int64(g.num>>minU(g.num)), int64(g.den>>minU(g.num)))
			in := map[int]bool{}
			for i, v := range tvals {
				if tm[i] {
					in[v.key] = true
				}
			}
			sm = g.mask(blk.vals, 4, 2, 3)
			for i, v := range blk.vals {
				if _, isT := keyIndex(tvals, v.key); isT {
					sm[i] = in[v.key]
				}
			}
		}
		nv := make([]bool, n)
		for i := range nv {
			nv[i] = g.rn(3) == 0
		}
		q := &c07Req{blk: blk, trusted: trusted, tvals: tvals, signMask: sm, nilVote: nv, chainID: g.chainID, hdrTime: hdrTime, permute: g.rn(25) == 0}
		if g.rn(4) == 0 {
			q.mut = 1 + g.rn(c07NMut-1)
			r.Count("mut")
		}
		if g.rn(40) == 0 {
			q.valsProp = -1 - g.rn(3)
		}
		if g.rn(40) == 0 {
			q.tvalsProp = -1 - g.rn(3)
		}
		hd, signers := g.build(q)
		run(c07UpdLine(now, hd, signers))
	}
}

func keyIndex(vs []c07V, k int) (int, bool) {
	for i, v := range vs {
		if v.key == k {
			return i, true
		}
	}
	return -1, false
}

func minI64(a, b int64) int64 {
	if a < b {
		return a
	}
	return b
}

// shift that brings a (possibly scaled) trust level numerator into a small range
func minU(n uint64) uint {
	var s uint
	for n>>s > 1000 {
		s++
	}
	return s
}

// ---- several revisions in one client store (create, upgrade to the next revision, updates in both) --------------

type c07Sim struct {
	chainID string
	rev     uint64
	blocks  map[int64]*c07Blk
	lo, hi  int64
}

func (g *c07Gen) save() *c07Sim {
	return &c07Sim{chainID: g.chainID, rev: g.rev, blocks: g.blocks, lo: g.lo, hi: g.hi}
}

func (g *c07Gen) use(s *c07Sim) {
	g.chainID, g.rev, g.blocks, g.lo, g.hi = s.chainID, s.rev, s.blocks, s.lo, s.hi
}

func (g *c07Gen) upgradeOp(h0 int64, now int64) string {
	return "upgrade" + strings.TrimPrefix(g.createOp(h0, now), "create")
}

// one update of the current sim: header at height tgt trusting (rev, th)
func (g *c07Gen) simUpd(run func(string) string, tgt int64, trusted clienttypes.Height, now int64, sm []bool, mut int) string {
	blk := g.block(tgt)
	tvals := g.block(int64(trusted.RevisionHeight)).next
	if sm == nil {
		sm = g.mask(blk.vals, 0, 2, 3)
	}
	q := &c07Req{blk: blk, trusted: trusted, tvals: tvals, signMask: sm, nilVote: make([]bool, len(blk.vals)), chainID: g.chainID, hdrTime: blk.time, mut: mut}
	hd, signers := g.build(q)
	return run(c07UpdLine(now, hd, signers))
}

// The history of the report: created at 1-100, upgraded to revision 2 at a smaller / equal / larger revision height, then
// the old revision is extended and back-filled and the new revision moves forward; the latest height must stay the
// lexicographic maximum.
func c07DirectedMultiRev(g *c07Gen, run func(string) string) {
	t0 := int64(1700000000) * int64(time.Second)
	for _, hb := range []int64{5, 99, 100, 101, 102, 300} {
		g.tp, g.drift, g.delay = int64(time.Hour), int64(10*time.Second), 0
		g.num, g.den = 1, 3
		g.now = t0
		vals := c07Vals([]int{1, 2, 3}, []int64{1, 1, 1})
		a := &c07Sim{chainID: "cpchain-1", rev: 1, blocks: map[int64]*c07Blk{}, lo: 100, hi: 110}
		for h := int64(100); h <= 110; h++ {
			a.blocks[h] = &c07Blk{h: h, time: t0 + (h-100)*1e9, vals: vals, next: vals, app: g.w.pf.root}
		}
		b := &c07Sim{chainID: "cpchain-2", rev: 2, blocks: map[int64]*c07Blk{}, lo: hb, hi: hb + 10}
		for h := hb; h <= hb+10; h++ {
			b.blocks[h] = &c07Blk{h: h, time: t0 + 20e9 + (h-hb)*1e9, vals: vals, next: vals, app: g.w.pf.root}
		}
		run("reset")
		g.use(a)
		run(g.createOp(100, t0+1e9))
		g.use(b)
		run(g.upgradeOp(hb, t0+21e9))
		g.use(a)
		g.simUpd(run, 101, clienttypes.NewHeight(1, 100), t0+30e9, nil, 0) // old revision, adjacent, revision height above/below 2-hb
		g.simUpd(run, 105, clienttypes.NewHeight(1, 101), t0+31e9, nil, 0) // old revision, skipping
		g.use(b)
		run(g.vfyOp(t0+32e9, clienttypes.NewHeight(2, uint64(hb)), 1)) // a proof at the new revision is still below the latest height
		g.simUpd(run, hb+1, clienttypes.NewHeight(2, uint64(hb)), t0+33e9, nil, 0)
		g.use(a)
		g.simUpd(run, 103, clienttypes.NewHeight(1, 101), t0+34e9, nil, 0) // old revision, back-fill
		g.simUpd(run, 106, clienttypes.NewHeight(2, uint64(hb)), t0+35e9, nil, 0) // trusted height of the other revision: rejected
		g.use(b)
		g.simUpd(run, hb+4, clienttypes.NewHeight(2, uint64(hb+1)), t0+36e9, nil, 0)
		run(g.vfyOp(t0+37e9, clienttypes.NewHeight(2, uint64(hb+4)), 1))
		run(g.vfyOp(t0+37e9, clienttypes.NewHeight(1, 105), 1))
		run(g.vfaOp(t0+37e9, clienttypes.NewHeight(2, uint64(hb+4)), 1))
		run(g.vfaOp(t0+37e9, clienttypes.NewHeight(1, 105), 1))
		g.r.Count("directed.multirev")
	}
}

func c07HistoryMultiRev(g *c07Gen, run func(string) string) {
	r := g.r
	g.tp = []int64{int64(time.Hour), int64(14 * 24 * time.Hour)}[g.rn(2)]
	g.drift = int64(10 * time.Second)
	g.delay = []uint64{0, 0, uint64(5 * time.Second)}[g.rn(3)]
	tl := [][2]uint64{{1, 3}, {1, 2}, {2, 3}}[g.rn(3)]
	g.num, g.den = tl[0], tl[1]
	prefix := []string{"cpchain", "cp-chain", "x"}[g.rn(3)]
	n := []uint64{1, 1, 2, 3, 12, 99}[g.rn(6)]
	t0 := int64(1700000000)*int64(time.Second) + int64(g.rn(1000000))
	step := g.tp / int64(400+g.rn(400))
	// revision N
	g.chainID, g.rev = fmt.Sprintf("%s-%d", prefix, n), n
	loA := int64(1 + g.rn(200))
	g.buildChain(loA, 24, t0, step)
	a := g.save()
	hA := loA + int64(g.rn(4))
	g.now = a.blocks[hA].time + 1 + int64(g.rn(1000))
	run("reset")
	if run(g.createOp(hA, g.now)) == "rej" {
		return
	}
	tick := func() int64 {
		g.now += 1 + int64(g.rn(int(minI64(step, 2e9))))
		return g.now
	}
	latestOf := func(rev uint64) (clienttypes.Height, []clienttypes.Height) {
		var hs []clienttypes.Height
		for _, h := range g.storedHeights() {
			if h.RevisionNumber == rev {
				hs = append(hs, h)
			}
		}
		if len(hs) == 0 {
			return clienttypes.Height{}, nil
		}
		return hs[len(hs)-1], hs
	}
	// a few forward updates in revision N
	for i := g.rn(4); i > 0; i-- {
		top, _ := latestOf(n)
		tgt := int64(top.RevisionHeight) + 1 + int64(g.rn(3))
		if tgt > a.hi {
			break
		}
		if g.now < a.blocks[tgt].time {
			g.now = a.blocks[tgt].time
		}
		g.simUpd(run, tgt, top, tick(), nil, 0)
	}
	// upgrade to revision N+1 (rarely N+2) at a revision height below / equal / above the current one
	cur := g.w.snap(g.w.ctx).latest
	L := int64(cur.RevisionHeight)
	hB := []int64{1 + int64(g.rn(5)), L - 1, L, L + 1, L + 2 + int64(g.rn(50)), L / 2, loA + int64(g.rn(24))}[g.rn(7)]
	if hB < 1 {
		hB = 1
	}
	m := n + 1
	if g.rn(8) == 0 {
		m = n + 2
	}
	g.chainID, g.rev = fmt.Sprintf("%s-%d", prefix, m), m
	g.buildChain(hB, 24, g.now-int64(g.rn(1000)), step)
	b := g.save()
	if run(g.upgradeOp(hB, tick())) == "rej" {
		return
	}
	// updates in both revisions
	steps := 4 + g.rn(8)
	for s := 0; s < steps; s++ {
		sim, other := a, b
		if g.rn(2) == 0 {
			sim, other = b, a
		}
		g.use(sim)
		top, hs := latestOf(sim.rev)
		if len(hs) == 0 {
			continue
		}
		if g.rn(5) == 0 {
			h := hs[g.rn(len(hs))]
			if g.rn(4) == 0 {
				h.RevisionHeight++
			}
			run(g.vfOp(g.rn(2) == 0, g.now+int64(g.delay)+int64(g.rn(3))-1, h, []int{1, 1, 1, 2, 0, 7}[g.rn(6)]))
			continue
		}
		ti := len(hs) - 1
		if g.rn(3) == 0 {
			ti = g.rn(len(hs))
		}
		trusted := hs[ti]
		th := int64(trusted.RevisionHeight)
		var tgt int64
		switch x := g.rn(10); {
		case x < 4:
			tgt = th + 1
		case x < 7:
			tgt = th + 2 + int64(g.rn(4))
		case x < 9 && ti+1 < len(hs) && int64(hs[ti+1].RevisionHeight) > th+1: // back-fill inside the revision
			tgt = th + 1 + int64(g.rn(int(int64(hs[ti+1].RevisionHeight)-th-1)))
		default:
			tgt = int64(top.RevisionHeight) + 1
			trusted = top
		}
		if tgt > sim.hi || tgt < sim.lo {
			continue
		}
		if g.rn(12) == 0 { // trusted height of the other revision
			if o, ohs := latestOf(other.rev); len(ohs) > 0 {
				trusted = o
				r.Count("multirev.cross-revision-trusted")
			}
		}
		if g.now < sim.blocks[tgt].time {
			g.now = sim.blocks[tgt].time
		}
		var sm []bool
		switch g.rn(8) {
		case 0:
			sm = g.mask(sim.blocks[tgt].vals, 3, 2, 3)
		case 1:
			sm = g.mask(sim.blocks[tgt].vals, 4, 2, 3)
		}
		mut := 0
		if g.rn(10) == 0 {
			mut = 1 + g.rn(c07NMut-1)
		}
		g.simUpd(run, tgt, trusted, tick(), sm, mut)
	}
	r.Count("multirev.history")
}

// ---- every Verify* entry point over the same matrix --------------------------------------------------------------
// TimeDelay in {0, 1ns, 5s, 1h} x path in {commitment, acknowledgement} x proof height in {stored <= latest (created,
// updated), not stored, latest+1, stored > latest (after an upgrade installed a lower latest height)} x block time in
// {processed+delay-1, processed+delay, processed+delay+1} x proof in {genuine, wrong value, nil, proof of the other path}.
func c07DirectedVerifyMatrix(g *c07Gen, run func(string) string) {
	t0 := int64(1700000000) * int64(time.Second)
	vals := c07Vals([]int{1, 2, 3}, []int64{1, 1, 1})
	{
		// the short form of the roll-back history: update to 1-8, an upgrade installs latest height 1-6, the consensus
		// state at 1-8 is still stored; a proof at 1-8 must be refused on both paths, a proof at 1-6 is honoured
		g.rev, g.chainID = 1, "cpchain-1"
		g.tp, g.drift, g.delay = int64(24*time.Hour), int64(10*time.Second), uint64(5*time.Second)
		g.num, g.den = 1, 3
		g.now = t0
		g.blocks = map[int64]*c07Blk{}
		g.lo, g.hi = 4, 12
		for h := int64(4); h <= 12; h++ {
			g.blocks[h] = &c07Blk{h: h, time: t0 + (h-5)*1e9, vals: vals, next: vals, app: g.w.pf.root}
		}
		run("reset")
		run(g.createOp(5, t0+10e9))
		g.simUpd(run, 8, clienttypes.NewHeight(1, 5), t0+20e9, nil, 0)
		run(g.upgradeOp(6, t0+30e9))
		run(g.vfyOp(t0+100e9, clienttypes.NewHeight(1, 8), 1))
		run(g.vfaOp(t0+100e9, clienttypes.NewHeight(1, 8), 1))
		run(g.vfyOp(t0+100e9, clienttypes.NewHeight(1, 6), 1))
		run(g.vfaOp(t0+100e9, clienttypes.NewHeight(1, 6), 1))
		g.r.Count("directed.rollback")
	}
	for _, delay := range []uint64{0, 1, uint64(5 * time.Second), uint64(time.Hour)} {
		g.rev, g.chainID = 1, "cpchain-1"
		g.tp, g.drift, g.delay = int64(24*time.Hour), int64(10*time.Second), delay
		g.num, g.den = 1, 3
		g.now = t0
		g.blocks = map[int64]*c07Blk{}
		g.lo, g.hi = 4, 12
		for h := int64(4); h <= 12; h++ {
			g.blocks[h] = &c07Blk{h: h, time: t0 + (h-5)*1e9, vals: vals, next: vals, app: g.w.pf.root}
		}
		pCreate, pUpd := t0+10e9, t0+20e9 // processed times of 1-5 and 1-8
		matrix := func(tag string, hs []clienttypes.Height, ptOf func(clienttypes.Height) int64) {
			for _, h := range hs {
				base := ptOf(h) + int64(delay)
				for _, dt := range []int64{-1, 0, 1} {
					for _, kind := range []int{1, 2, 0, 7} {
						if kind != 1 && dt != 1 {
							continue // wrong proofs once, after the delay (so that only the proof is wrong)
						}
						run(g.vfyOp(base+dt, h, kind))
						run(g.vfaOp(base+dt, h, kind))
					}
				}
			}
			g.r.Count("directed.verify-matrix." + tag)
		}
		run("reset")
		run(g.createOp(5, pCreate))
		g.simUpd(run, 8, clienttypes.NewHeight(1, 5), pUpd, nil, 0)
		pt := func(h clienttypes.Height) int64 {
			if h.RevisionHeight == 5 {
				return pCreate
			}
			return pUpd
		}
		// latest = 1-8: stored (1-5, 1-8), not stored (1-7), latest+1 (1-9)
		matrix("forward", []clienttypes.Height{clienttypes.NewHeight(1, 5), clienttypes.NewHeight(1, 8), clienttypes.NewHeight(1, 7), clienttypes.NewHeight(1, 9)}, pt)
		// roll the latest height back by an upgrade (governance path: no height check): 1-8 stays stored above latest 1-6
		pUpg := t0 + 30e9 + int64(delay)
		run(g.upgradeOp(6, pUpg))
		pt2 := func(h clienttypes.Height) int64 {
			switch h.RevisionHeight {
			case 5:
				return pCreate
			case 6:
				return pUpg
			}
			return pUpd
		}
		matrix("rolled-back", []clienttypes.Height{clienttypes.NewHeight(1, 8), clienttypes.NewHeight(1, 6), clienttypes.NewHeight(1, 5), clienttypes.NewHeight(1, 7)}, pt2)
		// well after every delay: the only reason left to refuse 1-8 is that it is above the latest height
		late := pUpg + 2*int64(delay) + 100e9
		run(g.vfyOp(late, clienttypes.NewHeight(1, 8), 1))
		run(g.vfaOp(late, clienttypes.NewHeight(1, 8), 1))
		run(g.vfyOp(late, clienttypes.NewHeight(1, 6), 1))
		run(g.vfaOp(late, clienttypes.NewHeight(1, 6), 1))
	}
}

// ---- hardening round: conflicting writes, trusted-height skipping, thresholds, big numbers, restarts, two clients -----------

func (g *c07Gen) fixed(vals []c07V, lo, hi int64, t0 int64) {
	g.rev, g.chainID = 1, "cpchain-1"
	g.tp, g.drift, g.delay = int64(time.Hour), int64(10*time.Second), 0
	g.num, g.den = 1, 3
	g.now = t0
	g.blocks = map[int64]*c07Blk{}
	g.lo, g.hi = lo, hi
	for i := int64(0); i <= hi-lo; i++ {
		h := lo + i
		g.blocks[h] = &c07Blk{h: h, time: t0 + i*1e9, vals: vals, next: vals, app: g.w.pf.root}
	}
}

func (g *c07Gen) reqUpd(run func(string) string, q *c07Req, now int64) string {
	if q.signMask == nil {
		q.signMask = g.mask(q.blk.vals, 0, 2, 3)
	}
	if q.nilVote == nil {
		q.nilVote = make([]bool, len(q.blk.vals))
	}
	if q.chainID == "" {
		q.chainID = g.chainID
	}
	if q.hdrTime == 0 {
		q.hdrTime = q.blk.time
	}
	hd, signers := g.build(q)
	return run(c07UpdLine(now, hd, signers))
}

func c07DirectedHardening(g *c07Gen, run func(string) string) {
	t0 := int64(1700000000) * int64(time.Second)
	V := c07Vals([]int{1, 2, 3}, []int64{1, 1, 1})
	E := c07Vals([]int{7, 8, 9}, []int64{5, 5, 5}) // a validator set of the submitter's own making
	h := func(x uint64) clienttypes.Height { return clienttypes.NewHeight(1, x) }
	for _, verb := range []string{"upd", "updm"} {
		vb := verb
		old := c07Verb
		c07Verb = func() string { return vb }
		// (1) a second, different header for a stored height: what is stored afterwards is the accepted header's tuple; the same
		//     for a height whose consensus state was written by an upgrade
		g.fixed(V, 5, 14, t0)
		run("reset")
		run(g.createOp(5, t0+1e9))
		g.reqUpd(run, &c07Req{blk: g.blocks[8], trusted: h(5), tvals: V}, t0+20e9)
		g.reqUpd(run, &c07Req{blk: g.blocks[8], trusted: h(5), tvals: V, mut: 17, pre: true, hdrTime: g.blocks[8].time + 7}, t0+21e9)
		run(g.upgradeOp(11, t0+22e9))
		blk := *g.blocks[11]
		blk.app = tmhash.Sum([]byte("another app hash at the upgraded height"))
		g.reqUpd(run, &c07Req{blk: &blk, trusted: h(8), tvals: V, hdrTime: blk.time + 3}, t0+23e9)
		run("restart")
		g.num, g.den = 6148914691236517205, math.MaxUint64 // an upgrade proposal with a trust level beyond int64: refused by ValidateBasic
		run(g.upgradeOp(12, t0+23e9))
		g.num, g.den = 1, 4
		run(g.upgradeOp(12, t0+23e9))
		g.num, g.den = 1, 3
		run(g.vfyOp(t0+24e9, h(8), 1)) // the root now stored at 1-8 is not the fixture's: no membership
		g.r.Count("directed.conflicting-header")
		// (1b) a consistent, fully signed header with an empty app hash: what it would store is not a consensus state the module
		//      accepts (genesis validation), so it is refused; the export stays importable
		g.fixed(V, 5, 14, t0)
		run("reset")
		run(g.createOp(5, t0+1e9))
		g.reqUpd(run, &c07Req{blk: g.blocks[6], trusted: h(5), tvals: V, mut: 24, pre: true}, t0+20e9)
		run("restart")
		g.r.Count("directed.empty-app-hash")
		// (2) a header at latest+1 whose trusted height is older than the latest height, with a self-made validator set offered as
		//     trusted validators (of the header's own set and of the genuine set)
		g.fixed(V, 5, 14, t0)
		run("reset")
		run(g.createOp(5, t0+1e9))
		g.reqUpd(run, &c07Req{blk: g.blocks[8], trusted: h(5), tvals: V}, t0+20e9)
		evil := &c07Blk{h: 9, time: g.blocks[9].time, vals: E, next: E, app: g.w.pf.root}
		g.reqUpd(run, &c07Req{blk: evil, trusted: h(5), tvals: E}, t0+21e9)
		g.reqUpd(run, &c07Req{blk: g.blocks[9], trusted: h(5), tvals: E}, t0+21e9)
		g.reqUpd(run, &c07Req{blk: evil, trusted: h(8), tvals: E}, t0+21e9)
		g.reqUpd(run, &c07Req{blk: g.blocks[9], trusted: h(5), tvals: V}, t0+22e9) // the honest one: accepted
		g.r.Count("directed.latest-plus-one-old-trusted")
		c07Verb = old
	}
	// (3) voting power exactly at / one unit around the trust level of the trusted set (1/3, 2/3, 1) and around 2/3 of the own set
	for _, lv := range [][2]uint64{{1, 3}, {2, 3}, {1, 1}} {
		for _, T := range []int64{3, 300, 3 << 40, c07MaxTot - c07MaxTot%3} {
			thr := T / int64(lv[1]) * int64(lv[0])
			for _, d := range []int64{-1, 0, 1} {
				sp := thr + d
				if sp < 0 || sp > T {
					continue
				}
				tv := c07Vals([]int{1, 2}, []int64{sp, T - sp})
				own := c07Vals([]int{1, 4, 5}, []int64{1, 5, 5})
				g.fixed(tv, 5, 9, t0)
				g.num, g.den = lv[0], lv[1]
				g.blocks[8] = &c07Blk{h: 8, time: t0 + 3e9, vals: own, next: own, app: g.w.pf.root}
				run("reset")
				run(g.createOp(5, t0+1e9))
				g.reqUpd(run, &c07Req{blk: g.blocks[8], trusted: h(5), tvals: tv}, t0+20e9) // skipping: trust level of the trusted set
				// adjacent: 2/3 of the header's own set = the trusted set, only the first validator signs
				thr2 := T / 3 * 2
				sp2 := thr2 + d
				ov := c07Vals([]int{1, 2}, []int64{sp2, T - sp2})
				g.fixed(ov, 5, 9, t0)
				run("reset")
				run(g.createOp(5, t0+1e9))
				g.reqUpd(run, &c07Req{blk: g.blocks[6], trusted: h(5), tvals: ov, signMask: []bool{true, false}}, t0+20e9)
				g.r.Count("directed.threshold")
			}
		}
	}
	// (4) clocks exactly at the trusting period and the clock drift
	g.fixed(V, 5, 9, t0)
	for _, d := range []int64{-1, 0, 1} {
		run("reset")
		run(g.createOp(5, t0+1e9))
		g.reqUpd(run, &c07Req{blk: g.blocks[6], trusted: h(5), tvals: V}, t0+g.tp+d) // trusted time + trusting period = block time at d = 0
		run("reset")
		run(g.createOp(5, t0+1e9))
		g.reqUpd(run, &c07Req{blk: g.blocks[6], trusted: h(5), tvals: V}, g.blocks[6].time-g.drift+d) // header time = now + drift at d = 0
		g.r.Count("directed.clock-boundary")
	}
	// (5) revisions and heights at the integer boundaries
	for _, rev := range []uint64{1<<31 - 1, 1<<32 + 1, 1<<53 + 1, 1<<63 - 1, 1 << 63, math.MaxUint64} {
		g.fixed(V, 5, 9, t0)
		g.rev, g.chainID = rev, fmt.Sprintf("cpchain-%d", rev)
		hr := func(x uint64) clienttypes.Height { return clienttypes.NewHeight(rev, x) }
		run("reset")
		run(g.createOp(5, t0+1e9))
		g.reqUpd(run, &c07Req{blk: g.blocks[6], trusted: hr(5), tvals: V}, t0+20e9)
		g.reqUpd(run, &c07Req{blk: g.blocks[9], trusted: hr(6), tvals: V}, t0+21e9)
		g.reqUpd(run, &c07Req{blk: g.blocks[9], trusted: hr(5), tvals: V}, t0+21e9)
		run(g.vfyOp(t0+30e9, hr(5), 1))
		run(g.vfaOp(t0+30e9, hr(9), 1))
		run("restart")
		g.r.Count("directed.big-revision")
	}
	for _, h0 := range []int64{1<<31 - 1, 1<<32 - 1, 1<<53 + 1, math.MaxInt64 - 3} {
		g.fixed(V, h0, h0+3, t0)
		hh := func(x int64) clienttypes.Height { return clienttypes.NewHeight(1, uint64(x)) }
		run("reset")
		run(g.createOp(h0, t0+1e9))
		g.reqUpd(run, &c07Req{blk: g.blocks[h0+1], trusted: hh(h0), tvals: V}, t0+20e9)
		g.reqUpd(run, &c07Req{blk: g.blocks[h0+3], trusted: hh(h0+1), tvals: V}, t0+21e9) // MaxInt64 for the last h0
		g.reqUpd(run, &c07Req{blk: g.blocks[h0+2], trusted: hh(h0+3), tvals: V}, t0+22e9) // below the trusted height
		run(g.vfyOp(t0+30e9, hh(h0+3), 1))
		run(g.vfaOp(t0+30e9, clienttypes.NewHeight(1, uint64(h0+3)+1), 1))
		run("restart")
		g.r.Count("directed.big-height")
	}
	for _, lh := range []uint64{1 << 63, 1<<63 + 1, math.MaxUint64} { // latest heights no int64 header height can reach
		g.fixed(V, 5, 9, t0)
		g.blocks[int64(math.MaxInt64)] = &c07Blk{h: math.MaxInt64, time: t0 + 9e9, vals: V, next: V, app: g.w.pf.root}
		run("reset")
		b := g.blocks[5]
		run(fmt.Sprintf("create %s 1 3 %d %d 0 1 %d %d %s %s %d", hxs(g.chainID), g.tp, g.drift, lh, b.time, hx(b.app), hx(c07HashVals(b.next)), t0+1e9))
		g.reqUpd(run, &c07Req{blk: g.blocks[int64(math.MaxInt64)], trusted: clienttypes.NewHeight(1, lh), tvals: V}, t0+20e9)
		g.reqUpd(run, &c07Req{blk: g.blocks[6], trusted: clienttypes.NewHeight(1, lh), tvals: V}, t0+20e9)
		run(g.vfyOp(t0+30e9, clienttypes.NewHeight(1, lh), 1))
		run("restart")
		g.r.Count("directed.height-beyond-int64")
	}
	// (6) a validator set of more than a hundred entries: exactly two thirds / one more than two thirds sign
	{
		n := 129
		keys := make([]int, n)
		pw := make([]int64, n)
		for i := range keys {
			keys[i], pw[i] = i+1, 1
		}
		big := c07Vals(keys, pw)
		for _, k := range []int{86, 87} {
			sm := make([]bool, n)
			for i := 0; i < k; i++ {
				sm[(i*7)%n] = true
			}
			cnt := 0
			for _, b := range sm {
				if b {
					cnt++
				}
			}
			for i := 0; cnt < k; i++ {
				if !sm[i] {
					sm[i] = true
					cnt++
				}
			}
			g.fixed(big, 5, 9, t0)
			run("reset")
			run(g.createOp(5, t0+1e9))
			g.reqUpd(run, &c07Req{blk: g.blocks[6], trusted: h(5), tvals: big, signMask: sm}, t0+20e9)
			g.reqUpd(run, &c07Req{blk: g.blocks[9], trusted: h(5), tvals: big, signMask: sm}, t0+21e9)
			g.r.Count("directed.big-validator-set")
		}
	}
	// (7) restart after back-fills, after pruning, after an upgrade to another revision, with a state left above the latest height
	{
		g.fixed(V, 5, 30, t0)
		g.tp = int64(100 * time.Second)
		for hh := int64(5); hh <= 30; hh++ {
			g.blocks[hh].time = t0 + (hh-5)*10e9
		}
		run("reset")
		run(g.createOp(5, t0+1e9))
		g.reqUpd(run, &c07Req{blk: g.blocks[9], trusted: h(5), tvals: V}, t0+45e9)
		g.reqUpd(run, &c07Req{blk: g.blocks[7], trusted: h(5), tvals: V}, t0+46e9) // back-fill
		run("restart")
		g.reqUpd(run, &c07Req{blk: g.blocks[16], trusted: h(9), tvals: V}, t0+112e9) // 1-5 (time t0) is expired at t0+100s: pruned
		run("restart")
		run("dry restart")
		g.reqUpd(run, &c07Req{blk: g.blocks[8], trusted: h(7), tvals: V}, t0+113e9) // back-fill after the restart
		b := g.save()
		g.chainID, g.rev = "cpchain-2", 2
		g.blocks = map[int64]*c07Blk{3: {h: 3, time: t0 + 113e9, vals: V, next: V, app: g.w.pf.root}, 4: {h: 4, time: t0 + 114e9, vals: V, next: V, app: g.w.pf.root}}
		g.lo, g.hi = 3, 4
		run(g.upgradeOp(3, t0+114e9))
		run("restart")
		g.reqUpd(run, &c07Req{blk: g.blocks[4], trusted: clienttypes.NewHeight(2, 3), tvals: V}, t0+115e9)
		g.use(b)
		g.reqUpd(run, &c07Req{blk: g.blocks[17], trusted: h(16), tvals: V}, t0+170e9) // old revision after upgrade and restart
		run(g.upgradeOp(9, t0+171e9))                                                   // back to revision 1 at 1-9: 1-16, 1-17, 2-x are stored above the latest height
		run("restart")
		run(g.vfyOp(t0+172e9, h(17), 1))
		run(g.vfaOp(t0+172e9, h(9), 1))
		run("restartapp")
		run(g.vfaOp(t0+172e9, h(9), 1))
		g.reqUpd(run, &c07Req{blk: g.blocks[10], trusted: h(9), tvals: V}, t0+173e9)
		g.r.Count("directed.restart-scenario")
	}
}

// two Tendermint clients in one store: of two different chains, or of the same chain under two names
func c07HistoryTwoClients(g *c07Gen, run func(string) string) {
	r := g.r
	sameChain := g.rn(2) == 0
	t0 := int64(1700000000)*int64(time.Second) + int64(g.rn(1000000))
	type side struct {
		name  string
		sim   *c07Sim
		tp    int64
		delay uint64
		num   uint64
		den   uint64
	}
	mk := func(name, chain string, rev uint64, lo int64) *side {
		sd := &side{name: name}
		sd.tp = []int64{int64(time.Hour), int64(14 * 24 * time.Hour)}[g.rn(2)]
		sd.delay = []uint64{0, 1, uint64(5 * time.Second)}[g.rn(3)]
		tl := [][2]uint64{{1, 3}, {1, 2}, {2, 3}}[g.rn(3)]
		sd.num, sd.den = tl[0], tl[1]
		g.chainID, g.rev = chain, rev
		g.buildChain(lo, 24, t0, int64(time.Hour)/int64(400+g.rn(400)))
		sd.sim = g.save()
		return sd
	}
	a := mk(c07Default, "cpchain-1", 1, int64(1+g.rn(50)))
	other := []string{"cpchainb", "mirror", "CPCHAIN"}[g.rn(3)]
	var b *side
	if sameChain {
		b = &side{name: other, sim: a.sim, tp: a.tp, delay: a.delay, num: a.num, den: a.den}
		if g.rn(2) == 0 { // the same chain, tracked with another configuration
			b.delay = uint64(time.Second)
			b.num, b.den = 2, 3
		}
		r.Count("two-clients.same-chain")
	} else {
		b = mk(other, []string{"otherchain-4", "cpchain-2", "cpchain"}[g.rn(3)], 0, int64(1+g.rn(50)))
		_, b.sim.rev, _ = c07Rev(b.sim.chainID)
		r.Count("two-clients.different-chains")
	}
	g.drift = int64(10 * time.Second)
	sel := func(sd *side) {
		g.use(sd.sim)
		g.tp, g.delay, g.num, g.den = sd.tp, sd.delay, sd.num, sd.den
		run("use " + hxs(sd.name))
	}
	run("reset")
	g.now = t0 + 1000
	for _, sd := range []*side{a, b} {
		sel(sd)
		h0 := sd.sim.lo + int64(g.rn(4))
		if g.now < sd.sim.blocks[h0].time {
			g.now = sd.sim.blocks[h0].time + 1
		}
		if run(g.createOp(h0, g.now)) == "rej" {
			return
		}
	}
	if g.rn(6) == 0 { // a create proposal for a taken name is refused
		run(g.createOp(b.sim.lo, g.now))
	}
	steps := 6 + g.rn(10)
	for s := 0; s < steps; s++ {
		sd := a
		if g.rn(2) == 0 {
			sd = b
		}
		sel(sd)
		stored := g.storedHeights()
		if len(stored) == 0 {
			continue
		}
		g.now += 1 + int64(g.rn(2e9))
		if g.rn(5) == 0 {
			hh := stored[g.rn(len(stored))]
			sn := g.w.snap(g.w.ctx)
			now := g.now
			if pt, ok := sn.ptime[hh]; ok {
				now = int64(pt+sd.delay) + int64(g.rn(3)) - 1
			}
			run(g.vfOp(g.rn(2) == 0, now, hh, []int{1, 1, 2, 0}[g.rn(4)]))
			continue
		}
		ti := len(stored) - 1
		if g.rn(3) == 0 {
			ti = g.rn(len(stored))
		}
		trusted := stored[ti]
		tgt := int64(trusted.RevisionHeight) + 1 + int64(g.rn(4))
		if _, onChain := sd.sim.blocks[tgt]; !onChain || trusted.RevisionNumber != sd.sim.rev {
			continue
		}
		if g.now < sd.sim.blocks[tgt].time {
			g.now = sd.sim.blocks[tgt].time
		}
		mut := 0
		if g.rn(10) == 0 {
			mut = 1 + g.rn(c07NMut-1)
		}
		blk := g.block(tgt)
		q := &c07Req{blk: blk, trusted: trusted, tvals: g.block(int64(trusted.RevisionHeight)).next, mut: mut}
		hd, signers := g.build(g.fill(q))
		line := c07UpdLine(g.now, hd, signers)
		out := run(line)
		if sameChain && out != "rej" && g.rn(2) == 0 {
			// the very same header is then delivered to the other client of that chain
			o := b
			if sd == b {
				o = a
			}
			sel(o)
			run(line)
			r.Count("two-clients.same-header-to-both")
		}
	}
	run("use " + hxs(c07Default))
	r.Count("two-clients.history")
}

func (g *c07Gen) fill(q *c07Req) *c07Req {
	if q.signMask == nil {
		q.signMask = g.mask(q.blk.vals, 0, 2, 3)
	}
	if q.nilVote == nil {
		q.nilVote = make([]bool, len(q.blk.vals))
	}
	if q.chainID == "" {
		q.chainID = g.chainID
	}
	if q.hdrTime == 0 {
		q.hdrTime = q.blk.time
	}
	return q
}
