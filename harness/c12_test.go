//go:build c12

package verifharness

// C12 — token-pair registry consistency. Drives the real x/aggregate keeper (real EVM, real bank) inside a real app:
// governance proposals through `ValidateBasic` + aggregate.NewAggregateProposalHandler inside a cache context (as
// x/gov does), the ConvertCoin / ConvertERC20 message handlers (self-destruct clean-up), InitGenesis / ExportGenesis.
//
// op language (strings in hex, addresses = 40 lower-case hex digits; fields marked * are EXTERNAL ANSWERS which the
// harness recomputes from the real run every time a line is applied, whatever the input line says):
//   reset | push | pop                         (push/pop: branch / drop a cache context — exhaustive enumeration)
//   params <0|1>
//   bankmeta <meta>                            meta = base name symbol display desc units(d:exp,..|-)
//   regcoin  vb* hasSupply* isEvmDenom* deployOk* deployAddr* deployStr* <meta>     (…Str = common.Address.String())
//   addcoin  vb* hasSupply* isEvmDenom* <contract string> <meta>
//   regerc20 vb* <addr> addrStr* qok* name* symbol* decimals* sanitized* denom* desc* mdValid*
//   toggle   vb* <token string>
//   update   vb* <old> <new> newStr* qok* name* symbol* decimals* descOld* descNew*
//   convert  vb* <token string> <denom> live*  (token = denom: MsgConvertCoin, else MsgConvertERC20; vb = msg.ValidateBasic)
//   dry <op>                                   (the op on a context that is DROPPED: tx simulation / CheckTx / failed tx)
//   restart                                    (module restart: ExportGenesis -> JSON -> Validate -> empty store -> InitGenesis)
//   bulkmeta <n> <prefix>                      (bank metadata of the coins <prefix>0000 .. ; `env mint <n> <prefix>` mints them)
// every proposal goes: MsgSubmitProposal.ValidateBasic -> gov Keeper.SubmitProposal (routed handler on a dropped context)
// -> the handler gov's router returns, on a cache context written back on success (what gov's EndBlocker does)
//   env kill <addr>                            (the contract self-destructs; no registry change)
//   env wipe                                   (the three registry prefixes are emptied — a chain restarted from an export;
//                                               contracts, balances, escrow and bank metadata stay)
//   genvalidate <pairs> | geninit <pairs> | genexport       pairs = addrString>d1,d2>enabled>owner;...
//                                              addrString = ERC20Address AS WRITTEN in the file (any spelling)
// output: <status> en=<0|1> P:<id>addrString>denoms>enabled>owner;..> E:<addr>id;..> D:<denom>id;..> M:<metadata dump | = >
//   where every raw store id is printed as the preimage `addrString|denom` the harness finds by recomputing tmhash over
//   all address spellings and denominations seen, and addrString is the stored ERC20Address field itself.

import (
	"fmt"
	"math/big"
	"os"
	"sort"
	"strconv"
	"strings"
	"testing"

	"github.com/cosmos/cosmos-sdk/crypto/keys/ed25519"
	sdk "github.com/cosmos/cosmos-sdk/types"
	authtypes "github.com/cosmos/cosmos-sdk/x/auth/types"
	banktypes "github.com/cosmos/cosmos-sdk/x/bank/types"
	govtypes "github.com/cosmos/cosmos-sdk/x/gov/types"
	stakingtypes "github.com/cosmos/cosmos-sdk/x/staking/types"
	"github.com/ethereum/go-ethereum/common"
	"github.com/ethereum/go-ethereum/crypto"
	"github.com/tendermint/tendermint/crypto/tmhash"
	tmproto "github.com/tendermint/tendermint/proto/tendermint/types"
	ethermint "github.com/tharsis/ethermint/types"
	"github.com/tharsis/ethermint/x/evm/statedb"

	"github.com/teleport-network/teleport/app"
	erc20contracts "github.com/teleport-network/teleport/syscontracts/erc20"
	"github.com/teleport-network/teleport/x/aggregate"
	aggtypes "github.com/teleport-network/teleport/x/aggregate/types"
)

type c12Frame struct {
	ctx     sdk.Context
	histLen int
	conv    map[string]bool
	full    string
	tainted bool
	noRT    bool
}

type c12World struct {
	app     *app.Teleport
	base    sdk.Context
	ctx     sdk.Context
	stack   []c12Frame
	hist    []string
	user    common.Address
	ext     []common.Address // externally deployed ERC20 contracts (same name / symbol / decimals)
	mod     []common.Address // the addresses the next module deployments will get
	eoa     common.Address   // an address without code
	vanity  common.Address   // a contract whose 20 address bytes read "stake-validator-pool"
	addrs   []common.Address // universe
	denoms  map[string]bool  // every denomination seen (for the id table)
	spells  map[string]bool  // every address spelling seen (for the id table)
	wiped   *c12Snapshot     // what the registry contained at the last `env wipe`
	idTab   map[string]string
	handler govtypes.Handler
	conv    map[string]bool // denominations that were convertible and whose pair was not deleted since
	full    string          // full dump of the current state (incl. metadata and live set)
	lastOp  string
	nodes   int
	writeBase func() // writes the current history into the block state (whole-app restart)
	genmode string
	dryDepth int
	noRT    bool // a genesis file was imported: ownership claims of its pairs are unchecked, so no round-trip demands
	tainted bool // a genesis file that Validate accepts but that is not consistent was imported: no oracle afterwards
}

const c12VanityDenom = "stake-validator-pool" // 20 characters: also a contract address

// a denomination of maximal length (128 characters)
var c12MaxDenom = "m" + strings.Repeat("x", 126) + "z"

func c12Must(err error) {
	if err != nil {
		panic(err)
	}
}

func newC12World() *c12World {
	a := app.Setup(false, nil)
	consPriv := ed25519.GenPrivKeyFromSecret([]byte("c12-consensus"))
	consAddr := sdk.ConsAddress(consPriv.PubKey().Address())
	ctx := a.BaseApp.NewContext(false, tmproto.Header{Height: 1, ChainID: "teleport_9000-1", ProposerAddress: consAddr.Bytes()})
	val, err := stakingtypes.NewValidator(sdk.ValAddress(consAddr.Bytes()), consPriv.PubKey(), stakingtypes.Description{})
	c12Must(err)
	c12Must(a.StakingKeeper.SetValidatorByConsAddr(ctx, val))
	a.StakingKeeper.SetValidator(ctx, val)
	a.StakingKeeper.AfterValidatorCreated(ctx, val.GetOperator()) // distribution / slashing records (a whole-app export checks the invariants)
	w := &c12World{app: a, denoms: map[string]bool{}, spells: map[string]bool{}, idTab: map[string]string{}}
	w.handler = aggregate.NewAggregateProposalHandler(a.AggregateKeeper)
	w.user = common.HexToAddress("0x00000000000000000000000000000000c12c12c1")
	w.eoa = common.HexToAddress("0x00000000000000000000000000000000000e0a01")
	a.AccountKeeper.SetAccount(ctx, &ethermint.EthAccount{
		BaseAccount: authtypes.NewBaseAccount(sdk.AccAddress(w.user.Bytes()), nil, 0, 0),
		CodeHash:    common.BytesToHash(crypto.Keccak256(nil)).String(),
	})
	// coins with supply, held by the user
	for _, d := range []string{"acoin", "bcoin", "ccoin", "ibc/27394FB092D2ECCD56123C74F36E4C1F926001CEADA9CA97EA622B25F41E5EB2", "abcdefabcdefabcdefabcdefabcdefabcdefabcd",
		c12VanityDenom, c12MaxDenom} {
		c := sdk.NewCoins(sdk.NewCoin(d, sdk.NewInt(1000000)))
		c12Must(a.BankKeeper.MintCoins(ctx, aggtypes.ModuleName, c))
		c12Must(a.BankKeeper.SendCoinsFromModuleToAccount(ctx, aggtypes.ModuleName, sdk.AccAddress(w.user.Bytes()), c))
	}
	// external ERC20 contracts, all with the same name / symbol / decimals (so that an address update between them passes
	// the metadata comparison of UpdateTokenPairERC20), plus one with other details
	k := a.AggregateKeeper
	deploy := func(name, symbol string, dec uint8) common.Address {
		ctor, err := erc20contracts.ERC20MinterBurnerDecimalsContract.ABI.Pack("", name, symbol, dec)
		c12Must(err)
		data := append(append([]byte{}, erc20contracts.ERC20MinterBurnerDecimalsContract.Bin...), ctor...)
		nonce, err := a.AccountKeeper.GetSequence(ctx, w.user.Bytes())
		c12Must(err)
		_, err = k.CallEVMWithData(ctx, w.user, nil, data)
		c12Must(err)
		addr := crypto.CreateAddress(w.user, nonce)
		_, err = k.CallEVM(ctx, erc20contracts.ERC20MinterBurnerDecimalsContract.ABI, w.user, addr, "mint", w.user, sdk.NewInt(1000000).BigInt())
		c12Must(err)
		return addr
	}
	for i := 0; i < 3; i++ {
		w.ext = append(w.ext, deploy("usdx", "USDX", 6))
	}
	w.ext = append(w.ext, deploy("Euro Coin", "EURX", 18))
	w.ext = append(w.ext, deploy("zero", "ZERO", 0))
	w.ext = append(w.ext, deploy("maxdec", "MAXD", 255))
	// a contract whose ADDRESS BYTES are a valid denomination string ("stake-validator-pool"): the code, storage (name,
	// symbol, balances) of the first ERC20 are placed at that address; a coin with exactly that denomination exists too
	w.vanity = common.BytesToAddress([]byte(c12VanityDenom))
	if acc := a.EvmKeeper.GetAccount(ctx, w.ext[0]); acc != nil {
		c12Must(a.EvmKeeper.SetAccount(ctx, w.vanity, statedb.Account{Nonce: 1, Balance: new(big.Int), CodeHash: acc.CodeHash}))
		a.EvmKeeper.ForEachStorage(ctx, w.ext[0], func(key, value common.Hash) bool {
			a.EvmKeeper.SetState(ctx, w.vanity, key, value.Bytes())
			return true
		})
	}
	nonce, err := a.AccountKeeper.GetSequence(ctx, aggtypes.ModuleAddress.Bytes())
	c12Must(err)
	for i := uint64(0); i < 8; i++ {
		w.mod = append(w.mod, crypto.CreateAddress(aggtypes.ModuleAddress, nonce+i))
	}
	w.addrs = append(append(append([]common.Address{}, w.ext...), w.mod...), w.eoa, w.vanity)
	for _, a := range w.addrs {
		w.seeSpelling(a.Hex())
	}
	w.base = ctx
	w.reset()
	return w
}

func (w *c12World) reset() {
	w.ctx, w.writeBase = w.base.CacheContext()
	w.stack = nil
	w.hist = nil
	w.conv = map[string]bool{}
	w.full = ""
	w.tainted = false
	w.noRT = false
}

func c12Addr(a common.Address) string { return strings.ToLower(a.Hex()[2:]) }

func c12ParseAddr(s string) common.Address { return common.HexToAddress("0x" + s) }

// ---- raw store access -----------------------------------------------------------------------

type c12Raw struct {
	pairs map[string]aggtypes.TokenPair // raw id -> pair
	byErc map[string]string             // addr (40 hex) -> raw id
	byDen map[string]string             // denom -> raw id
}

func (w *c12World) raw(ctx sdk.Context) c12Raw {
	st := ctx.KVStore(w.app.GetKey(aggtypes.StoreKey))
	res := c12Raw{pairs: map[string]aggtypes.TokenPair{}, byErc: map[string]string{}, byDen: map[string]string{}}
	it := sdk.KVStorePrefixIterator(st, aggtypes.KeyPrefixTokenPair)
	for ; it.Valid(); it.Next() {
		var p aggtypes.TokenPair
		w.app.AppCodec().MustUnmarshal(it.Value(), &p)
		res.pairs[string(it.Key()[1:])] = p
	}
	it.Close()
	it = sdk.KVStorePrefixIterator(st, aggtypes.KeyPrefixTokenPairByERC20)
	for ; it.Valid(); it.Next() {
		res.byErc[hx(it.Key()[1:])] = string(it.Value())
	}
	it.Close()
	it = sdk.KVStorePrefixIterator(st, aggtypes.KeyPrefixTokenPairByDenom)
	for ; it.Valid(); it.Next() {
		res.byDen[string(it.Key()[1:])] = string(it.Value())
	}
	it.Close()
	return res
}

func (w *c12World) seeDenom(d string) {
	if !w.denoms[d] {
		w.denoms[d] = true
		for s := range w.spells {
			w.idTab[string(tmhash.Sum([]byte(s+"|"+d)))] = c12Str(s) + "|" + hxs(d)
		}
	}
}

// seeSpelling registers one way of writing an address (GetID hashes the string, not the 20 bytes).
func (w *c12World) seeSpelling(s string) {
	if !w.spells[s] {
		w.spells[s] = true
		for d := range w.denoms {
			w.idTab[string(tmhash.Sum([]byte(s+"|"+d)))] = c12Str(s) + "|" + hxs(d)
		}
	}
}

// c12Str prints an address string as it is (only hex digits and x/X can occur in what IsHexAddress accepts).
func c12Str(s string) string {
	if s != "" && strings.Trim(s, "0123456789abcdefABCDEFxX") == "" {
		return s
	}
	return "?" + hxs(s)
}

// canonical name of a raw id: the preimage found by recomputing the hash over the universe (independent of what the
// stored pair says); unknown ids are printed raw.
func (w *c12World) canonID(id string) string {
	if c, ok := w.idTab[id]; ok {
		return c
	}
	return "?" + hx([]byte(id))
}

func c12PairAddr(p aggtypes.TokenPair) string {
	if common.IsHexAddress(p.ERC20Address) {
		return c12Addr(common.HexToAddress(p.ERC20Address))
	}
	return "?" + hxs(p.ERC20Address)
}

func c12Join(l []string, sep string) string {
	if len(l) == 0 {
		return "-"
	}
	return strings.Join(l, sep)
}

func c12RenderPair(id string, p aggtypes.TokenPair) string {
	ds := make([]string, len(p.Denoms))
	for i, d := range p.Denoms {
		ds[i] = hxs(d)
	}
	en := "0"
	if p.Enabled {
		en = "1"
	}
	return id + ">" + c12Str(p.ERC20Address) + ">" + c12Join(ds, ",") + ">" + en + ">" + strconv.Itoa(int(p.ContractOwner))
}

func c12RenderMeta(m banktypes.Metadata) string {
	us := make([]string, len(m.DenomUnits))
	for i, u := range m.DenomUnits {
		us[i] = hxs(u.Denom) + ":" + strconv.Itoa(int(u.Exponent))
	}
	return hxs(m.Base) + ">" + hxs(m.Name) + ">" + hxs(m.Symbol) + ">" + hxs(m.Display) + ">" + hxs(m.Description) + ">" + c12Join(us, ",")
}

func (w *c12World) live(ctx sdk.Context) []string {
	var l []string
	for _, a := range w.addrs {
		acc := w.app.EvmKeeper.GetAccountWithoutBalance(ctx, a)
		if acc != nil && acc.IsContract() {
			l = append(l, c12Addr(a))
		}
	}
	return l
}

// dump returns (registry part, metadata part)
func (w *c12World) dump(ctx sdk.Context) (string, string) {
	raw := w.raw(ctx)
	for _, p := range raw.pairs {
		for _, d := range p.Denoms {
			w.seeDenom(d)
		}
	}
	for d := range raw.byDen {
		w.seeDenom(d)
	}
	var ps, es, ds, ms []string
	for id, p := range raw.pairs {
		ps = append(ps, c12RenderPair(w.canonID(id), p))
	}
	for a, id := range raw.byErc {
		es = append(es, a+">"+w.canonID(id))
	}
	for d, id := range raw.byDen {
		ds = append(ds, hxs(d)+">"+w.canonID(id))
	}
	w.app.BankKeeper.IterateAllDenomMetaData(ctx, func(m banktypes.Metadata) bool {
		ms = append(ms, c12RenderMeta(m))
		return false
	})
	sort.Strings(ps)
	sort.Strings(es)
	sort.Strings(ds)
	sort.Strings(ms)
	en := "0"
	if w.app.AggregateKeeper.GetParams(ctx).EnableAggregate {
		en = "1"
	}
	return "en=" + en + " P:" + c12Join(ps, ";") + " E:" + c12Join(es, ";") + " D:" + c12Join(ds, ";"), c12Join(ms, ";")
}

// ---- property oracle on the real store ------------------------------------------------------

func c12Kind(op string) string {
	f := strings.Fields(op)
	if len(f) == 0 {
		return "none"
	}
	return f[0]
}

func (w *c12World) find(r *Rec, kind, what, obs, req string) {
	r.Find(Finding{Sig: "C12:" + kind + ":after-" + c12Kind(w.lastOp), What: what, Ops: append([]string{}, w.hist...), Obs: obs, Req: req})
}

func c12Has(l []string, x string) bool {
	for _, y := range l {
		if y == x {
			return true
		}
	}
	return false
}

func c12Convertible(raw c12Raw, d string) bool {
	id, ok := raw.byDen[d]
	if !ok {
		return false
	}
	p, ok := raw.pairs[id]
	if !ok || !c12Has(p.Denoms, d) {
		return false
	}
	return raw.byErc[c12PairAddr(p)] == id
}

// oracle evaluates `Consistent` (the statement of the property) directly on the raw store, and the
// "still convertible" consequence for every denomination that was convertible before.
func (w *c12World) oracle(r *Rec) bool {
	raw := w.raw(w.ctx)
	ok := true
	bad := func(kind, what string) {
		ok = false
		w.find(r, kind, what, what, "Consistent registry")
	}
	addrOwner := map[string]string{}
	denOwner := map[string]string{}
	ids := make([]string, 0, len(raw.pairs))
	for id := range raw.pairs {
		ids = append(ids, id)
	}
	sort.Strings(ids)
	for _, id := range ids {
		p := raw.pairs[id]
		a := c12PairAddr(p)
		if raw.byErc[a] != id {
			bad("pair-not-found-by-address", fmt.Sprintf("pair %s is not found by its contract address %s", w.canonID(id), a))
		}
		if o, dup := addrOwner[a]; dup && o != id {
			bad("address-in-two-pairs", fmt.Sprintf("contract %s belongs to pairs %s and %s", a, w.canonID(o), w.canonID(id)))
		}
		addrOwner[a] = id
		for _, d := range p.Denoms {
			if raw.byDen[d] != id {
				bad("pair-not-found-by-denom", fmt.Sprintf("pair %s is not found by its denomination %q (index says %s)", w.canonID(id), d, w.canonID(raw.byDen[d])))
			}
			if o, dup := denOwner[d]; dup && o != id {
				bad("denom-in-two-pairs", fmt.Sprintf("denomination %q belongs to pairs %s and %s", d, w.canonID(o), w.canonID(id)))
			}
			denOwner[d] = id
		}
	}
	for a, id := range raw.byErc {
		p, found := raw.pairs[id]
		if !found {
			bad("dangling-address-index", fmt.Sprintf("address entry %s points to the missing pair %s", a, w.canonID(id)))
		} else if c12PairAddr(p) != a {
			bad("address-index-wrong-pair", fmt.Sprintf("address entry %s points to pair %s whose contract is %s", a, w.canonID(id), c12PairAddr(p)))
		}
	}
	for d, id := range raw.byDen {
		p, found := raw.pairs[id]
		if !found {
			bad("dangling-denom-index", fmt.Sprintf("denomination entry %q points to the missing pair %s", d, w.canonID(id)))
		} else if !c12Has(p.Denoms, d) {
			bad("denom-index-wrong-pair", fmt.Sprintf("denomination entry %q points to pair %s which does not list it", d, w.canonID(id)))
		}
	}
	// a coin that could be converted before the change can still be converted afterwards
	for d := range w.conv {
		if !c12Convertible(raw, d) {
			ok = false
			w.find(r, "convertible-lost", fmt.Sprintf("denomination %q was convertible, its pair was not deleted, now it is not convertible", d),
				"lookup by denomination / address no longer leads to a pair listing it", "still convertible")
			delete(w.conv, d)
		}
	}
	for d := range raw.byDen {
		if c12Convertible(raw, d) {
			w.conv[d] = true
		}
	}
	// the keeper's own conversion gate accepts every registered denomination of an enabled pair (both entry points:
	// ConvertCoin(denom) and ConvertERC20(contract, denom)); denominations that read as hex addresses are excluded
	// (documented: GetTokenPairID treats them as addresses)
	if ok && w.app.AggregateKeeper.GetParams(w.ctx).EnableAggregate {
		u := sdk.AccAddress(w.user.Bytes())
		n := 0
		for _, id := range ids {
			p := raw.pairs[id]
			if !p.Enabled {
				continue
			}
			if n++; n > 40 {
				break
			}
			for _, d := range p.Denoms {
				if common.IsHexAddress(d) {
					continue
				}
				var e1, e2 error
				safely(func() {
					_, e1 = w.app.AggregateKeeper.MintingEnabled(w.ctx, u, u, d, d)
					_, e2 = w.app.AggregateKeeper.MintingEnabled(w.ctx, u, u, p.ERC20Address, d)
				})
				r.Count("oracle.minting-enabled")
				if e1 != nil || e2 != nil {
					ok = false
					w.find(r, "minting-enabled-rejects-registered-denom", fmt.Sprintf("MintingEnabled rejects denomination %q of the enabled pair %s: %v / %v", d, w.canonID(id), e1, e2),
						"rejected", "a registered denomination of an enabled pair passes the conversion gate")
				}
			}
		}
	}
	// the keeper's own lookup functions agree with the raw maps
	k := w.app.AggregateKeeper
	for _, id := range ids {
		p := raw.pairs[id]
		if got := k.GetERC20Map(w.ctx, p.GetERC20Contract()); ok && string(got) != id {
			bad("keeper-lookup-disagrees", "GetERC20Map disagrees with the raw store")
		}
	}
	return ok
}

func (w *c12World) balances(ctx sdk.Context, token common.Address, d string) (string, string) {
	coin := w.app.BankKeeper.GetBalance(ctx, sdk.AccAddress(w.user.Bytes()), d).Amount.String()
	tok := "?"
	res, err := w.app.AggregateKeeper.CallEVM(ctx, erc20contracts.ERC20MinterBurnerDecimalsContract.ABI, aggtypes.ModuleAddress, token, "balanceOf", w.user)
	if err == nil {
		if out, err := erc20contracts.ERC20MinterBurnerDecimalsContract.ABI.Unpack("balanceOf", res.Ret); err == nil && len(out) == 1 {
			tok = fmt.Sprint(out[0])
		}
	}
	return coin, tok
}

// roundTrip converts one coin into the token and back (module-owned pairs: every denomination; external pairs: the
// voucher denomination, token first) on a throw-away context and requires both steps to succeed with balances restored.
func (w *c12World) roundTrip(r *Rec) {
	k := w.app.AggregateKeeper
	if w.tainted || w.noRT || !k.GetParams(w.ctx).EnableAggregate {
		return
	}
	raw := w.raw(w.ctx)
	live := w.live(w.ctx)
	sender := sdk.AccAddress(w.user.Bytes())
	for id, p := range raw.pairs {
		if !p.Enabled || !c12Has(live, c12PairAddr(p)) {
			continue
		}
		for i, d := range p.Denoms {
			if sdk.ValidateDenom(d) != nil || common.IsHexAddress(d) {
				continue
			}
			module := p.ContractOwner == aggtypes.OWNER_MODULE
			if !module && i > 0 {
				continue
			}
			// only where nothing but the registry can be in the way: module pairs over a module-deployed contract and a coin
			// the user holds; external pairs over a contract whose tokens the user holds
			if module && !c12HasAddr(w.mod, p.GetERC20Contract()) || !module && !c12HasAddr(w.ext, p.GetERC20Contract()) {
				continue
			}
			ctx, _ := w.ctx.CacheContext()
			c0, t0 := w.balances(ctx, p.GetERC20Contract(), d)
			if module && len(c0) < 2 || !module && len(t0) < 2 {
				continue // balance below 10
			}
			coinMsg := aggtypes.NewMsgConvertCoin(sdk.NewCoin(d, sdk.NewInt(5)), w.user, sender)
			ercMsg := aggtypes.NewMsgConvertERC20(sdk.NewInt(5), sender, p.GetERC20Contract(), w.user, d)
			var e1, e2 error
			var stage string
			pan, msg := safely(func() {
				if module {
					var res *aggtypes.MsgConvertCoinResponse
					res, e1 = k.ConvertCoin(sdk.WrapSDKContext(ctx), coinMsg)
					if e1 != nil || res == nil {
						stage = "coin-to-token"
						return
					}
					var res2 *aggtypes.MsgConvertERC20Response
					res2, e2 = k.ConvertERC20(sdk.WrapSDKContext(ctx), ercMsg)
					if e2 != nil || res2 == nil {
						stage = "token-to-coin"
					}
				} else {
					var res2 *aggtypes.MsgConvertERC20Response
					res2, e2 = k.ConvertERC20(sdk.WrapSDKContext(ctx), ercMsg)
					if e2 != nil || res2 == nil {
						stage = "token-to-coin"
						return
					}
					var res *aggtypes.MsgConvertCoinResponse
					res, e1 = k.ConvertCoin(sdk.WrapSDKContext(ctx), coinMsg)
					if e1 != nil || res == nil {
						stage = "coin-to-token"
					}
				}
			})
			if pan {
				stage = "panic"
				e1 = fmt.Errorf("%s", msg)
			}
			c1, t1 := w.balances(ctx, p.GetERC20Contract(), d)
			r.Count("roundtrip")
			if stage != "" || c0 != c1 || t0 != t1 {
				if stage == "" {
					stage = "balances"
				}
				w.find(r, "round-trip-failed:"+stage, fmt.Sprintf("round trip of %q through pair %s failed (%v / %v), balances %s/%s -> %s/%s", d, w.canonID(id), e1, e2, c0, t0, c1, t1),
					"round trip failed", "coin converted there and back")
			} else {
				r.Count("roundtrip.ok")
			}
		}
	}
}

// ---- applying one op to the real code ---------------------------------------------------------

func c12HasAddr(l []common.Address, a common.Address) bool {
	for _, x := range l {
		if x == a {
			return true
		}
	}
	return false
}

func c12Bit(b bool) string {
	if b {
		return "1"
	}
	return "0"
}

func c12ParseMeta(f []string) (banktypes.Metadata, bool) {
	if len(f) != 6 {
		return banktypes.Metadata{}, false
	}
	m := banktypes.Metadata{Base: string(unhx(f[0])), Name: string(unhx(f[1])), Symbol: string(unhx(f[2])), Display: string(unhx(f[3])), Description: string(unhx(f[4]))}
	if f[5] != "-" {
		for _, u := range strings.Split(f[5], ",") {
			x := strings.Split(u, ":")
			e, _ := strconv.Atoi(x[1])
			m.DenomUnits = append(m.DenomUnits, &banktypes.DenomUnit{Denom: string(unhx(x[0])), Exponent: uint32(e)})
		}
	}
	return m, true
}

func c12MetaFields(m banktypes.Metadata) string {
	return strings.ReplaceAll(c12RenderMeta(m), ">", " ")
}

func c12ParsePairs(s string) []aggtypes.TokenPair {
	var res []aggtypes.TokenPair
	if s == "-" {
		return res
	}
	for _, ps := range strings.Split(s, ";") {
		f := strings.Split(ps, ">")
		p := aggtypes.TokenPair{ERC20Address: f[0], Enabled: f[2] == "1"} // the address string AS WRITTEN
		if f[1] != "-" {
			for _, d := range strings.Split(f[1], ",") {
				p.Denoms = append(p.Denoms, string(unhx(d)))
			}
		}
		o, _ := strconv.Atoi(f[3])
		p.ContractOwner = aggtypes.Owner(o)
		res = append(res, p)
	}
	return res
}

// proposal runs a governance proposal the way x/gov does: stateless validation at submission, handler inside a cache
// context which is written back only on success.
// c12WipeRegistry empties the aggregate module's store (every key, whatever its prefix)
func c12WipeRegistry(ctx sdk.Context, key sdk.StoreKey) {
	st := ctx.KVStore(key)
	var keys [][]byte
	it := st.Iterator(nil, nil)
	for ; it.Valid(); it.Next() {
		keys = append(keys, append([]byte{}, it.Key()...))
	}
	it.Close()
	for _, k := range keys {
		st.Delete(k)
	}
}

// snapshotAll: everything the harness observes of a state (registry, params, metadata, live contracts, module nonce)
func (w *c12World) snapshotAll(ctx sdk.Context) string {
	reg, metas := w.dump(ctx)
	nonce, _ := w.app.AccountKeeper.GetSequence(ctx, aggtypes.ModuleAddress.Bytes())
	return reg + " M:" + metas + " L:" + strings.Join(w.live(ctx), ",") + " N:" + strconv.FormatUint(nonce, 10)
}

// c12VB: the stateless stage of a proposal as a transaction goes through it: MsgSubmitProposal.ValidateBasic
// (proposal type registered, content.ValidateBasic)
func (w *c12World) vbProposal(c govtypes.Content) bool {
	msg, err := govtypes.NewMsgSubmitProposal(c, sdk.NewCoins(), sdk.AccAddress(w.user.Bytes()))
	if err != nil {
		return false
	}
	ok := false
	safely(func() { ok = msg.ValidateBasic() == nil })
	return ok
}

func (w *c12World) proposal(r *Rec, vb bool, c govtypes.Content) string {
	if !vb {
		return "err"
	}
	// submission: gov runs the routed handler on a branch that is dropped; nothing may change, and (same state) the verdict
	// is the verdict of the execution below
	before := w.snapshotAll(w.ctx)
	sctx, _ := w.ctx.CacheContext() // the proposal record itself is not kept either (gov store is outside the property)
	var subErr error
	span, smsg := safely(func() { _, subErr = w.app.GovKeeper.SubmitProposal(sctx, c) })
	r.Count("gov.submit")
	if after := w.snapshotAll(w.ctx); after != before {
		r.Find(Finding{Sig: "C12:dropped-execution-changed-state:submit-proposal", What: "the dry run of a proposal at submission changed state", Ops: append(append([]string{}, w.hist...), w.lastOp), Obs: after, Req: before})
	}
	handler := w.app.GovKeeper.Router().GetRoute(c.ProposalRoute())
	cctx, write := w.ctx.CacheContext()
	var err error
	pan, msg := safely(func() { err = handler(cctx, c) })
	if span {
		pan, msg = true, smsg
	}
	if !pan && (subErr == nil) != (err == nil) {
		r.Find(Finding{Sig: "C12:dry-run-verdict-differs:" + c.ProposalType(), What: fmt.Sprintf("submission dry run says %v, execution in the same state says %v", subErr, err), Ops: append(append([]string{}, w.hist...), w.lastOp), Obs: "different verdicts", Req: "same verdict"})
	}
	if pan {
		r.Find(Finding{Sig: "C12:handler-panic:" + c.ProposalType(), What: "proposal handler panics: " + msg, Ops: append(append([]string{}, w.hist...), w.lastOp), Obs: "panic", Req: "ok or error"})
		return "panic"
	}
	if err != nil {
		return "err"
	}
	write()
	return "ok"
}

func (w *c12World) queryERC20(a common.Address) (bool, aggtypes.ERC20Data) {
	cctx, _ := w.ctx.CacheContext()
	var d aggtypes.ERC20Data
	var err error
	pan, _ := safely(func() { d, err = w.app.AggregateKeeper.QueryERC20(cctx, a) })
	return !pan && err == nil, d
}

// apply parses an op line, recomputes the external answers from the real state, runs the real code and returns the
// canonical op line and the canonical observation.
func (w *c12World) apply(r *Rec, line string) (string, string) {
	f := strings.Fields(line)
	k := w.app.AggregateKeeper
	op := line
	status := "ok"
	track := true // registry op: dump + oracle
	switch f[0] {
	case "reset":
		w.reset()
	case "push":
		conv := map[string]bool{}
		for d := range w.conv {
			conv[d] = true
		}
		w.stack = append(w.stack, c12Frame{ctx: w.ctx, histLen: len(w.hist), conv: conv, full: w.full, tainted: w.tainted, noRT: w.noRT})
		w.ctx, _ = w.ctx.CacheContext()
		return op, "ok"
	case "pop":
		fr := w.stack[len(w.stack)-1]
		w.stack = w.stack[:len(w.stack)-1]
		w.ctx, w.hist, w.conv, w.full, w.tainted, w.noRT = fr.ctx, w.hist[:fr.histLen], fr.conv, fr.full, fr.tainted, fr.noRT
		return op, "ok"
	case "mode", "genmode":
		return op, "ok"
	case "dry":
		inner := strings.Join(f[1:], " ")
		before := w.snapshotAll(w.ctx)
		w.apply(r, "push")
		iop, iout := w.apply(r, inner)
		w.apply(r, "pop")
		if after := w.snapshotAll(w.ctx); after != before {
			r.Find(Finding{Sig: "C12:dropped-execution-changed-state:" + f[1], What: "an execution on a context that was dropped changed state", Ops: append(append([]string{}, w.hist...), "dry "+iop), Obs: after, Req: before})
		}
		r.Count("dry." + f[1])
		return "dry " + iop, strings.Fields(iout)[0] + " dry"
	case "restart":
		pre, _ := w.dump(w.ctx)
		valid := false
		cctx, write := w.ctx.CacheContext()
		pan, msg := safely(func() {
			g := aggregate.ExportGenesis(cctx, *k)
			bz := w.app.AppCodec().MustMarshalJSON(g) // through the app codec, as a genesis file
			var g2 aggtypes.GenesisState
			w.app.AppCodec().MustUnmarshalJSON(bz, &g2)
			valid = g2.Validate() == nil
			c12WipeRegistry(cctx, w.app.GetKey(aggtypes.StoreKey))
			aggregate.InitGenesis(cctx, *k, w.app.AccountKeeper, g2)
		})
		if pan {
			status = "panic"
			r.Find(Finding{Sig: "C12:restart-panics", What: "export / import of the module's own state panics: " + msg, Ops: append(append([]string{}, w.hist...), op), Obs: "panic", Req: "restart"})
		} else {
			write()
		}
		if !valid && !w.tainted {
			r.Find(Finding{Sig: "C12:restart-export-rejected", What: "GenesisState.Validate rejects the module's own export", Ops: append(append([]string{}, w.hist...), op), Obs: "Validate: error", Req: "ok"})
		}
		if post, _ := w.dump(w.ctx); post != pre && !w.tainted {
			r.Find(Finding{Sig: "C12:state-lost-across-restart", What: "export -> JSON -> Validate -> empty store -> InitGenesis changed the registry", Ops: append(append([]string{}, w.hist...), op), Obs: post, Req: pre})
		}
		r.Count("restart")
		raw := w.raw(w.ctx)
		for _, p := range raw.pairs {
			if !p.Enabled {
				r.Count("restart.with-disabled-pair")
			}
			if len(p.Denoms) > 1 {
				r.Count("restart.with-multidenom-pair")
			}
			if p.ERC20Address != p.GetERC20Contract().Hex() {
				r.Count("restart.with-respelled-pair")
			}
		}
		if len(raw.pairs) >= 2 {
			r.Count("restart.two-or-more-pairs")
		}
		status += " valid=" + c12Bit(valid)
	case "bulkmeta":
		n, _ := strconv.Atoi(f[1])
		pre := string(unhx(f[2]))
		for i := 0; i < n; i++ {
			d := fmt.Sprintf("%s%04d", pre, i)
			w.seeDenom(d)
			w.app.BankKeeper.SetDenomMetaData(w.ctx, banktypes.Metadata{Description: "bulk", Base: d, Name: d, Symbol: "BULK", Display: d,
				DenomUnits: []*banktypes.DenomUnit{{Denom: d, Exponent: 0}}})
		}
	case "params":
		p := k.GetParams(w.ctx)
		p.EnableAggregate = f[1] == "1"
		k.SetParams(w.ctx, p)
	case "bankmeta":
		m, _ := c12ParseMeta(f[1:])
		w.seeDenom(m.Base)
		w.app.BankKeeper.SetDenomMetaData(w.ctx, m)
	case "env":
		if f[1] == "mint" { // coins <prefix>0000.. get a supply (held by the user)
			n, _ := strconv.Atoi(f[2])
			pre := string(unhx(f[3]))
			for i := 0; i < n; i++ {
				c := sdk.NewCoins(sdk.NewCoin(fmt.Sprintf("%s%04d", pre, i), sdk.NewInt(1000)))
				c12Must(w.app.BankKeeper.MintCoins(w.ctx, aggtypes.ModuleName, c))
				c12Must(w.app.BankKeeper.SendCoinsFromModuleToAccount(w.ctx, aggtypes.ModuleName, sdk.AccAddress(w.user.Bytes()), c))
			}
			break
		}
		if f[1] == "restartapp" {
			if msg := w.restartApp(r); msg != "" {
				r.Find(Finding{Sig: "C12:app-restart-failed", What: "whole-app export / InitChain failed: " + msg, Ops: append(append([]string{}, w.hist...), op), Obs: msg, Req: "the chain restarts from its export"})
			}
			break
		}
		if f[1] == "wipe" {
			raw := w.raw(w.ctx)
			snap := c12Snap(raw)
			snap.conv = w.conv
			w.wiped = &snap
			w.conv = map[string]bool{}
			c12WipeRegistry(w.ctx, w.app.GetKey(aggtypes.StoreKey))
			r.Count("env.wipe")
			break
		}
		a := c12ParseAddr(f[2])
		sdb := statedb.New(w.ctx, w.app.EvmKeeper, statedb.NewEmptyTxConfig(common.BytesToHash(w.ctx.HeaderHash().Bytes())))
		// ethermint v0.13 DeleteAccount removes the code blob by code HASH, i.e. the code of every contract with the same
		// byte code (all ERC20 instances here); that is outside this property, so the shared blob is put back.
		var codeHash, code []byte
		if acc := w.app.EvmKeeper.GetAccountWithoutBalance(w.ctx, a); acc != nil && acc.IsContract() {
			codeHash = acc.CodeHash
			code = w.app.EvmKeeper.GetCode(w.ctx, common.BytesToHash(codeHash))
		}
		sdb.Suicide(a)
		c12Must(sdb.Commit())
		if len(code) > 0 {
			w.app.EvmKeeper.SetCode(w.ctx, codeHash, code)
		}
	case "regcoin":
		m, _ := c12ParseMeta(f[7:])
		w.seeDenom(m.Base)
		c := aggtypes.NewRegisterCoinProposal("t", "d", m)
		vb := w.vbProposal(c)
		hs := w.app.BankKeeper.HasSupply(w.ctx, m.Base)
		ev := m.Base == w.app.EvmKeeper.GetParams(w.ctx).EvmDenom
		nonce, _ := w.app.AccountKeeper.GetSequence(w.ctx, aggtypes.ModuleAddress.Bytes())
		addr := crypto.CreateAddress(aggtypes.ModuleAddress, nonce)
		dk := true
		if vb {
			cctx, _ := w.ctx.CacheContext()
			var err error
			pan, _ := safely(func() { _, err = k.DeployERC20Contract(cctx, m) })
			dk = !pan && err == nil
		}
		if k.IsERC20Registered(w.ctx, addr) {
			// hypothesis FreshDeploys of the theorems (CREATE never returns a used address) does not hold for this
			// history (only a genesis file naming a future module address can do that): not judged any further
			r.Count("assumption.fresh-deploy.broken")
			w.tainted = true
		}
		op = fmt.Sprintf("regcoin %s %s %s %s %s %s %s", c12Bit(vb), c12Bit(hs), c12Bit(ev), c12Bit(dk), c12Addr(addr), addr.String(), c12MetaFields(m))
		w.lastOp = op
		status = w.proposal(r, vb, c)
		r.Count("regcoin." + status)
	case "addcoin":
		m, _ := c12ParseMeta(f[5:])
		w.seeDenom(m.Base)
		contract := string(unhx(f[4]))
		c := aggtypes.NewAddCoinProposal("t", "d", m, contract)
		vb := w.vbProposal(c)
		hs := w.app.BankKeeper.HasSupply(w.ctx, m.Base)
		ev := m.Base == w.app.EvmKeeper.GetParams(w.ctx).EvmDenom
		op = fmt.Sprintf("addcoin %s %s %s %s %s", c12Bit(vb), c12Bit(hs), c12Bit(ev), hxs(contract), c12MetaFields(m))
		w.lastOp = op
		status = w.proposal(r, vb, c)
		r.Count("addcoin." + status)
	case "regerc20":
		a := c12ParseAddr(f[2])
		c := aggtypes.NewRegisterERC20Proposal("t", "d", a.String())
		vb := w.vbProposal(c)
		qok, q := w.queryERC20(a)
		denom := aggtypes.CreateDenom(a.String())
		w.seeDenom(denom)
		desc := aggtypes.CreateDenomDescription(a.String())
		san := aggtypes.SanitizeERC20Name(q.Name)
		md := banktypes.Metadata{Description: desc, Base: denom, DenomUnits: []*banktypes.DenomUnit{{Denom: denom, Exponent: 0}}, Name: denom, Symbol: q.Symbol, Display: denom}
		if q.Decimals > 0 {
			md.DenomUnits = append(md.DenomUnits, &banktypes.DenomUnit{Denom: san, Exponent: uint32(q.Decimals)})
			md.Display = san
		}
		mv := md.Validate() == nil
		op = fmt.Sprintf("regerc20 %s %s %s %s %s %s %d %s %s %s %s", c12Bit(vb), c12Addr(a), a.String(), c12Bit(qok), hxs(q.Name), hxs(q.Symbol), q.Decimals, hxs(san), hxs(denom), hxs(desc), c12Bit(mv))
		w.lastOp = op
		status = w.proposal(r, vb, c)
		r.Count("regerc20." + status)
	case "toggle":
		tok := string(unhx(f[2]))
		c := aggtypes.NewToggleTokenRelayProposal("t", "d", tok)
		vb := w.vbProposal(c)
		op = fmt.Sprintf("toggle %s %s", c12Bit(vb), hxs(tok))
		w.lastOp = op
		status = w.proposal(r, vb, c)
		r.Count("toggle." + status)
	case "update":
		o, n := c12ParseAddr(f[2]), c12ParseAddr(f[3])
		c := aggtypes.NewUpdateTokenPairERC20Proposal("t", "d", o.String(), n.String())
		vb := w.vbProposal(c)
		qok, q := w.queryERC20(n)
		op = fmt.Sprintf("update %s %s %s %s %s %s %s %d %s %s", c12Bit(vb), c12Addr(o), c12Addr(n), n.Hex(), c12Bit(qok), hxs(q.Name), hxs(q.Symbol), q.Decimals,
			hxs(aggtypes.CreateDenomDescription(o.String())), hxs(aggtypes.CreateDenomDescription(n.String())))
		w.lastOp = op
		before := w.raw(w.ctx)
		status = w.proposal(r, vb, c)
		r.Count("update." + status)
		if status == "ok" {
			if id, ok := before.byErc[c12Addr(o)]; ok && len(before.pairs[id].Denoms) > 1 {
				r.Count("update.ok.multidenom")
			}
		} else if _, reg := before.byErc[c12Addr(n)]; reg && o != n {
			if _, ok := before.byErc[c12Addr(o)]; ok {
				r.Count("update.rejected.registered-target")
			}
		}
	case "convert":
		tok, den := string(unhx(f[2])), string(unhx(f[3]))
		live := w.live(w.ctx)
		sender := sdk.AccAddress(w.user.Bytes())
		var cvb bool
		safely(func() {
			if tok == den {
				cvb = (aggtypes.MsgConvertCoin{Coin: sdk.Coin{Denom: den, Amount: sdk.NewInt(3)}, Receiver: w.user.Hex(), Sender: sender.String()}).ValidateBasic() == nil
			} else {
				cvb = (aggtypes.MsgConvertERC20{ContractAddress: tok, Amount: sdk.NewInt(3), Receiver: sender.String(), Sender: w.user.Hex(), Denom: den}).ValidateBasic() == nil
			}
		})
		op = fmt.Sprintf("convert %s %s %s %s", c12Bit(cvb), hxs(tok), hxs(den), c12Join(live, ","))
		w.lastOp = op
		if !cvb { // the transaction never reaches the message server
			status = "rej"
			r.Count("convert.rej.validatebasic")
			r.Count("convert." + status)
			break
		}
		before := w.raw(w.ctx)
		var meErr error
		var mePair aggtypes.TokenPair
		pan, msg := safely(func() { mePair, meErr = k.MintingEnabled(w.ctx, sender, sdk.AccAddress(w.user.Bytes()), tok, den) })
		cctx, write := w.ctx.CacheContext()
		var err error
		var nilRes bool
		if !pan {
			pan, msg = safely(func() {
				if tok == den {
					var res *aggtypes.MsgConvertCoinResponse
					res, err = k.ConvertCoin(sdk.WrapSDKContext(cctx), &aggtypes.MsgConvertCoin{Coin: sdk.Coin{Denom: den, Amount: sdk.NewInt(3)}, Receiver: w.user.Hex(), Sender: sender.String()})
					nilRes = res == nil
				} else {
					var res *aggtypes.MsgConvertERC20Response
					res, err = k.ConvertERC20(sdk.WrapSDKContext(cctx), &aggtypes.MsgConvertERC20{ContractAddress: tok, Amount: sdk.NewInt(3), Receiver: sender.String(), Sender: w.user.Hex(), Denom: den})
					nilRes = res == nil
				}
			})
		}
		switch {
		case pan:
			status = "panic"
			r.Find(Finding{Sig: "C12:convert-panic", What: "conversion message panics: " + msg, Ops: append(append([]string{}, w.hist...), op), Obs: "panic", Req: "no panic"})
		case meErr != nil:
			status = "rej"
			if err == nil {
				r.Find(Finding{Sig: "C12:convert-accepted-without-minting-enabled", What: "message succeeded although MintingEnabled fails", Ops: append(append([]string{}, w.hist...), op), Obs: "ok", Req: "error"})
			}
		case err == nil && nilRes:
			status = "del"
			write()
			for _, d := range mePair.Denoms { // the pair of these denominations was deleted (allowed to become unconvertible)
				delete(w.conv, d)
			}
			if len(mePair.Denoms) > 1 {
				r.Count("convert.del.multidenom")
			}
		default:
			status = "conv"
			if err == nil {
				write()
				r.Count("convert.conv.success")
			}
		}
		_ = before
		r.Count("convert." + status)
	case "genvalidate":
		ps := c12ParsePairs(f[1])
		var err error
		pan, _ := safely(func() { err = aggtypes.GenesisState{Params: aggtypes.DefaultParams(), TokenPairs: ps}.Validate() })
		track = false
		switch {
		case pan:
			status = "panic"
		case err != nil:
			status = "err"
		}
		r.Count("genvalidate." + status)
		if status == "ok" {
			// a file that Validate accepts must import into a consistent registry (given bank metadata): its pairs have to be
			// disjoint as CONTRACTS (20 bytes) and in ALL their denominations
			if kind := c12FileOverlap(ps); kind != "" {
				r.Count("genvalidate.accepted-overlap." + kind)
				r.Find(Finding{Sig: "C12:validate-accepts-inconsistent-genesis:" + kind,
					What: "GenesisState.Validate accepts a genesis file whose import puts " + kind + " (InitGenesis then leaves a pair that is not found by its address / denomination)",
					Ops: []string{"reset", op, "geninit " + f[1]}, Obs: "Validate: ok", Req: "error"})
			}
		}
		return op, status
	case "geninit":
		ps := c12ParsePairs(f[1])
		for _, p := range ps {
			for _, d := range p.Denoms {
				w.seeDenom(d)
			}
		}
		for _, p := range ps {
			w.seeSpelling(p.ERC20Address)
		}
		// a re-import of this history's own export (after `env wipe`), whatever the spelling of the addresses: ownership
		// claims are genuine, so conversions are demanded to work afterwards; any other file: no round-trip demands
		reimport := w.wiped != nil && len(w.raw(w.ctx).pairs) == 0 && c12SameContent(w.wiped, ps)
		if !reimport {
			w.noRT = true
		}
		if reimport {
			r.Count("geninit.reimport")
		}
		c12CountSpellings(r, ps)
		if reimport {
			for d := range w.wiped.conv {
				w.conv[d] = true // must be convertible again after the import (checked by the oracle below)
			}
		}
		if !c12GenesisOk(ps, w.raw(w.ctx), func(d string) bool { _, ok := w.app.BankKeeper.GetDenomMetaData(w.ctx, d); return ok }) {
			w.tainted = true
		}
		cctx, write := w.ctx.CacheContext()
		pan, _ := safely(func() {
			aggregate.InitGenesis(cctx, *k, w.app.AccountKeeper, aggtypes.GenesisState{Params: k.GetParams(w.ctx), TokenPairs: ps})
		})
		if pan {
			status = "panic"
		} else {
			write()
		}
		if reimport && !w.tainted {
			after := c12Snap(w.raw(w.ctx))
			same := len(after.pairs) == len(w.wiped.pairs)
			for a, c := range w.wiped.pairs {
				if after.pairs[a] != c {
					same = false
				}
			}
			if !same || pan {
				r.Find(Finding{Sig: "C12:genesis-roundtrip-differs", What: "export, re-import (addresses spelled differently) does not give back the registry content",
					Ops: append(append([]string{}, w.hist...), op), Obs: fmt.Sprint(after.pairs), Req: fmt.Sprint(w.wiped.pairs)})
			}
		}
		r.Count("geninit." + status)
	case "genexport":
		g := aggregate.ExportGenesis(w.ctx, *k)
		var l []string
		for _, p := range g.TokenPairs {
			l = append(l, c12RenderPair("", p))
		}
		sort.Strings(l)
		return op, "ok " + c12Join(l, ";")
	default:
		r.t.Fatalf("bad op %q", line)
	}
	w.lastOp = op
	w.hist = append(w.hist, op)
	reg, metas := w.dump(w.ctx)
	full := reg + " M:" + metas + " L:" + strings.Join(w.live(w.ctx), ",")
	prevMetas := ""
	if i := strings.Index(w.full, " M:"); i >= 0 {
		prevMetas = w.full[i+3 : strings.Index(w.full, " L:")]
	}
	out := status + " " + reg + " M:"
	if f[0] != "reset" && prevMetas == metas {
		out += "="
	} else {
		out += metas
	}
	w.full = full
	if track && !w.tainted {
		// the property is about steps from a consistent registry: once an inconsistency was reported, later states of
		// the same history are not judged again
		if !w.oracle(r) {
			w.tainted = true
		}
	}
	return op, out
}

// c12FileOverlap: "" if the pairs of a genesis file are pairwise disjoint, else which kind of overlap it has
func c12FileOverlap(ps []aggtypes.TokenPair) string {
	seenA, seenD := map[string]bool{}, map[string]bool{}
	for _, p := range ps {
		if seenA[c12PairAddr(p)] {
			return "one-contract-into-two-pairs"
		}
		seenA[c12PairAddr(p)] = true
		for _, d := range p.Denoms {
			if seenD[d] {
				return "one-denomination-into-two-pairs"
			}
			seenD[d] = true
		}
	}
	return ""
}

// c12Snapshot: the content of the registry, independent of ids and of the spelling of addresses
type c12Snapshot struct {
	pairs map[string]string // addr20 -> denoms|enabled|owner
	conv  map[string]bool
}

func c12PairContent(p aggtypes.TokenPair) string {
	return strings.Join(p.Denoms, ",") + "|" + c12Bit(p.Enabled) + "|" + strconv.Itoa(int(p.ContractOwner))
}

func c12Snap(raw c12Raw) c12Snapshot {
	sn := c12Snapshot{pairs: map[string]string{}}
	for _, p := range raw.pairs {
		sn.pairs[c12PairAddr(p)] = c12PairContent(p)
	}
	return sn
}

func c12SameContent(sn *c12Snapshot, ps []aggtypes.TokenPair) bool {
	if len(ps) != len(sn.pairs) {
		return false
	}
	for _, p := range ps {
		if c, ok := sn.pairs[c12PairAddr(p)]; !ok || c != c12PairContent(p) {
			return false
		}
	}
	return true
}

// spelling class of an address string (for the distribution record)
func c12SpellClass(s string) string {
	body := s
	pre := "bare"
	if strings.HasPrefix(s, "0x") {
		pre, body = "0x", s[2:]
	} else if strings.HasPrefix(s, "0X") {
		pre, body = "0X", s[2:]
	}
	switch {
	case common.IsHexAddress(s) && common.HexToAddress(s).Hex()[2:] == body:
		return pre + ".checksum"
	case body == strings.ToLower(body):
		return pre + ".lower"
	case body == strings.ToUpper(body):
		return pre + ".upper"
	}
	return pre + ".mixed"
}

func c12CountSpellings(r *Rec, ps []aggtypes.TokenPair) {
	for _, p := range ps {
		cl := c12SpellClass(p.ERC20Address)
		r.Count("geninit.spelling." + cl)
		if !strings.HasSuffix(cl, ".checksum") || !strings.HasPrefix(cl, "0x.") {
			r.Count("geninit.respelled-pair")
			if len(p.Denoms) > 1 {
				r.Count("geninit.respelled-pair.multidenom")
			}
		}
	}
}

// c12GenesisOk: the pairs of a genesis file are disjoint from each other and from what is registered, and every
// denomination has bank metadata (what a consistent registry exports, together with the bank genesis); `Validate` checks less.
func c12GenesisOk(ps []aggtypes.TokenPair, cur c12Raw, hasMeta func(string) bool) bool {
	seenA, seenD := map[string]bool{}, map[string]bool{}
	for a := range cur.byErc {
		seenA[a] = true
	}
	for d := range cur.byDen {
		seenD[d] = true
	}
	for _, p := range cur.pairs {
		seenA[c12PairAddr(p)] = true
		for _, d := range p.Denoms {
			seenD[d] = true
		}
	}
	for _, p := range ps {
		if seenA[c12PairAddr(p)] || len(p.Denoms) == 0 {
			return false
		}
		for _, d := range p.Denoms {
			if !hasMeta(d) {
				return false
			}
		}
		seenA[c12PairAddr(p)] = true
		for _, d := range p.Denoms {
			if seenD[d] {
				return false
			}
			seenD[d] = true
		}
	}
	return true
}

// ---- generators ---------------------------------------------------------------------------------

func c12Coin(base, name string) banktypes.Metadata {
	return banktypes.Metadata{Description: "coin " + base, Base: base, Name: name, Symbol: strings.ToUpper(name), Display: base,
		DenomUnits: []*banktypes.DenomUnit{{Denom: base, Exponent: 0}}}
}

func (w *c12World) tokStr(a common.Address) string { return hxs(a.Hex()) }

// the alphabet of the exhaustive enumeration: 3 coins, 3 interchangeable external contracts, the first module contracts
func (w *c12World) alphabet(big bool) []string {
	e, m := w.ext, w.mod
	rc := func(md banktypes.Metadata) string { return "regcoin _ _ _ _ _ _ " + c12MetaFields(md) }
	ac := func(md banktypes.Metadata, a common.Address) string {
		return "addcoin _ _ _ " + w.tokStr(a) + " " + c12MetaFields(md)
	}
	re := func(a common.Address) string { return "regerc20 _ " + c12Addr(a) + " _ _ _ _ _ _ _ _ _" }
	up := func(a, b common.Address) string { return "update _ " + c12Addr(a) + " " + c12Addr(b) + " _ _ _ _ _ _ _" }
	l := []string{
		rc(c12Coin("acoin", "acoin")),
		rc(c12Coin("bcoin", "bcoin")),
		rc(c12Coin("acoin", "ccoin")), // Name != Base: probes the IsDenomRegistered(Name) guard
		re(e[0]),
		re(e[1]),
		ac(c12Coin("bcoin", "bcoin"), m[0]),
		ac(c12Coin("ccoin", "ccoin"), e[0]),
		ac(c12Coin("acoin", "ccoin"), e[0]),
		"toggle _ " + hxs("acoin"),
		"toggle _ " + w.tokStr(e[0]),
		up(e[0], e[2]),
		up(e[0], e[1]),
		up(e[1], e[0]),
		up(e[2], e[0]),
		"env kill " + c12Addr(e[0]),
		"env kill " + c12Addr(m[0]),
		"convert _ " + hxs("acoin") + " " + hxs("acoin") + " _",
		"convert _ " + hxs("ccoin") + " " + hxs("ccoin") + " _",
		"convert _ " + w.tokStr(e[0]) + " " + hxs(aggtypes.CreateDenom(e[0].String())) + " _",
		"params 0",
		"params 1",
	}
	if big {
		l = append(l,
			ac(c12Coin("ccoin", "ccoin"), m[0]),
			ac(c12Coin("bcoin", "bcoin"), e[1]),
			up(e[1], e[2]),
			"env kill "+c12Addr(e[1]),
			"convert _ "+w.tokStr(m[0])+" "+hxs("bcoin")+" _",
			"toggle _ "+hxs(aggtypes.CreateDenom(e[0].String())),
		)
	}
	return l
}

func (w *c12World) do(r *Rec, line string) (string, bool) {
	before := w.full
	op, out := w.apply(r, line)
	r.Op(op, out)
	return out, w.full != before
}

// dfs enumerates every action sequence over the alphabet up to the given depth, branching with cache contexts.
// A branch whose last action left the whole observable state unchanged is not extended (its extensions are exactly
// the extensions of its parent). Sharding: the nodes of level 2 are dealt round-robin to the shards.
func (w *c12World) dfs(r *Rec, alpha []string, depth, level, shard, nshards int, counter *int, rt bool) {
	for _, a := range alpha {
		if level == 2 && nshards > 1 {
			*counter++
			if *counter%nshards != shard%nshards {
				continue
			}
		}
		w.do(r, "push")
		if level <= 2 && !strings.HasPrefix(a, "env") && !strings.HasPrefix(a, "params") {
			w.do(r, "dry "+a) // the same action on a dropped context first: nothing may change, the verdict below is unaffected
		}
		out, changed := w.do(r, a)
		r.Count("dfs.node")
		if changed {
			r.Count("dfs.changed")
			r.Nontrivial(strings.Join(w.hist, ";"))
			if rt && (strings.HasPrefix(out, "ok") || strings.HasPrefix(out, "del")) {
				w.roundTrip(r)
			}
			// every second extended node: the module is restarted from its own export before the history goes on
			if w.nodes++; w.nodes%2 == 0 && depth > 1 && !w.tainted {
				if ro, _ := w.do(r, "restart"); rt && strings.HasPrefix(ro, "ok") {
					w.roundTrip(r)
				}
				r.Count("dfs.restart-then-continue")
			}
			if depth > 1 {
				w.dfs(r, alpha, depth-1, level+1, shard, nshards, counter, rt)
			}
		}
		w.do(r, "pop")
	}
}


// random long histories over a wider space: odd denominations, mutated metadata, malformed address strings,
// pre-existing bank metadata, genesis import/export.
func (w *c12World) randomOp(r *Rec) string {
	rng := r.Rng
	denoms := []string{"acoin", "bcoin", "ccoin", "dcoin", "atele", "ibc/27394FB092D2ECCD56123C74F36E4C1F926001CEADA9CA97EA622B25F41E5EB2",
		"abcdefabcdefabcdefabcdefabcdefabcdefabcd", aggtypes.CreateDenom(w.ext[0].String()), aggtypes.CreateDenom(w.ext[3].String()), "usdx",
		c12VanityDenom, c12MaxDenom, c12MaxDenom + "y", "0xabcdefabcdefabcdefabcdefabcdefabcdefabcd", aggtypes.CreateDenom(w.vanity.String())}
	den := func() string { return denoms[rng.Intn(len(denoms))] }
	addr := func() common.Address {
		switch x := rng.Intn(10); {
		case x < 6:
			return w.ext[rng.Intn(len(w.ext))]
		case x < 8:
			return w.mod[rng.Intn(4)]
		case x < 9:
			return w.vanity
		default:
			return w.eoa
		}
	}
	meta := func() banktypes.Metadata {
		b := den()
		m := c12Coin(b, b)
		if strings.HasPrefix(b, "ibc/") {
			m.Name = "channel-0 coin"
			m.Symbol = "ibcX"
		}
		switch rng.Intn(15) {
		case 6: // an IBC voucher whose name does not mention the channel / whose symbol lacks the ibc prefix
			m.Name = "some coin"
		case 7:
			m.Symbol = "XCOIN"
		case 8: // display unit differs from the base
			m.DenomUnits = append(m.DenomUnits, &banktypes.DenomUnit{Denom: "m" + strings.ReplaceAll(b, "/", ""), Exponent: 6})
			m.Display = "m" + strings.ReplaceAll(b, "/", "")
			m.Symbol = "m" + m.Symbol
		case 0:
			m.Name = den()
		case 1:
			m.DenomUnits = nil
		case 2:
			m.DenomUnits = append(m.DenomUnits, &banktypes.DenomUnit{Denom: "usdx", Exponent: 6})
			m.Display = "usdx"
			m.Symbol = "USDX"
		case 3:
			m.Display = "other"
		case 4:
			m.Symbol = ""
		case 5: // looks like the metadata RegisterERC20 would write for a contract
			a := addr()
			m.Description = aggtypes.CreateDenomDescription(a.String())
			m.DenomUnits = append(m.DenomUnits, &banktypes.DenomUnit{Denom: "usdx", Exponent: 6})
			m.Display = "usdx"
			m.Symbol = "USDX"
		}
		return m
	}
	tok := func() string {
		switch x := rng.Intn(12); {
		case x < 4:
			return den()
		case x < 8:
			return addr().Hex()
		case x == 8:
			return strings.ToLower(addr().Hex())
		case x == 9:
			return addr().Hex()[2:]
		case x == 10:
			return "0xZZ"
		default:
			return ""
		}
	}
	pairs := func() string {
		n := 1 + rng.Intn(3)
		var l []string
		for i := 0; i < n; i++ {
			nd := rng.Intn(3)
			if rng.Intn(4) > 0 && nd == 0 {
				nd = 1
			}
			var ds []string
			for j := 0; j < nd; j++ {
				ds = append(ds, hxs(denoms[rng.Intn(4)]))
			}
			as := w.respell(r, addr())
			switch rng.Intn(14) {
			case 0:
				as = as[:len(as)-1] // too short
			case 1:
				as = "0xzz" + as[4:] // not hex
			}
			l = append(l, as+">"+c12Join(ds, ",")+">"+c12Bit(rng.Intn(3) > 0)+">"+strconv.Itoa(1+rng.Intn(2)))
		}
		return strings.Join(l, ";")
	}
	if w.dryDepth == 0 {
		switch rng.Intn(16) {
		case 0:
			// (not in a history that imported an inconsistent file: re-importing an inconsistent registry depends on the
			// store's iteration order by raw id, which is outside the model and the theorems)
			if !w.tainted {
				return "restart"
			}
		case 1:
			w.dryDepth++
			inner := w.randomOp(r)
			w.dryDepth--
			if f := strings.Fields(inner)[0]; f != "restart" && f != "env" && f != "bankmeta" && f != "params" && f != "genvalidate" && f != "genexport" {
				return "dry " + inner
			}
		}
	}
	switch x := rng.Intn(100); {
	case x < 16:
		return "regcoin _ _ _ _ _ _ " + c12MetaFields(meta())
	case x < 32:
		c := addr().Hex()
		if rng.Intn(8) == 0 {
			c = tok()
		}
		return "addcoin _ _ _ " + hxs(c) + " " + c12MetaFields(meta())
	case x < 46:
		return "regerc20 _ " + c12Addr(addr()) + " _ _ _ _ _ _ _ _ _"
	case x < 56:
		return "toggle _ " + hxs(tok())
	case x < 72:
		return "update _ " + c12Addr(addr()) + " " + c12Addr(addr()) + " _ _ _ _ _ _ _"
	case x < 84:
		if rng.Intn(2) == 0 {
			d := tok()
			return "convert _ " + hxs(d) + " " + hxs(d) + " _"
		}
		return "convert _ " + hxs(addr().Hex()) + " " + hxs(den()) + " _"
	case x < 89:
		return "env kill " + c12Addr(addr())
	case x < 92:
		return "params " + c12Bit(rng.Intn(4) > 0)
	case x < 95:
		return "bankmeta " + c12MetaFields(meta())
	case x < 97:
		return "genvalidate " + pairs()
	case x < 98:
		return "genexport"
	default:
		return "params 1"
	}
}

// c12Spellings: the ways of writing one address that common.IsHexAddress (hence TokenPair.Validate) accepts
func c12Spellings(a common.Address) []string {
	cs := a.Hex()[2:]
	lo, up := strings.ToLower(cs), strings.ToUpper(cs)
	flip := []byte(cs)
	for i, c := range flip {
		switch {
		case c >= 'a' && c <= 'f':
			flip[i] = c - 32
		case c >= 'A' && c <= 'F':
			flip[i] = c + 32
		}
	}
	return []string{"0x" + cs, "0x" + lo, "0x" + up, "0X" + up, "0x" + string(flip), lo, cs, up}
}

func (w *c12World) respell(r *Rec, a common.Address) string {
	sp := c12Spellings(a)
	return sp[r.Rng.Intn(len(sp))]
}

// exportLine renders the real ExportGenesis of the current state as a geninit argument, every address re-spelled by f
func (w *c12World) exportLine(f func(common.Address) string) string {
	g := aggregate.ExportGenesis(w.ctx, *w.app.AggregateKeeper)
	var l []string
	for _, p := range g.TokenPairs {
		ds := make([]string, len(p.Denoms))
		for i, d := range p.Denoms {
			ds[i] = hxs(d)
		}
		l = append(l, f(p.GetERC20Contract())+">"+c12Join(ds, ",")+">"+c12Bit(p.Enabled)+">"+strconv.Itoa(int(p.ContractOwner)))
	}
	return c12Join(l, ";")
}

// genesisSweep: for every spelling of the contract address and for single- and multi-denomination pairs of both owner
// kinds: build the pair with governance actions, convert some coins, export, restart the registry from the export with the
// address re-spelled, then enumerate ALL probe sequences up to `depth` (lookups through other spellings, toggle,
// AddCoin, address update, conversion back, self-destruct clean-up, re-export) with the oracles after every step.
func (w *c12World) genesisSweep(r *Rec, depth, shard, nshards int) {
	e, m := w.ext, w.mod
	voucher := aggtypes.CreateDenom(e[0].String())
	type scen struct {
		name  string
		setup []string
		addr  common.Address
	}
	rc := "regcoin _ _ _ _ _ _ " + c12MetaFields(c12Coin("acoin", "acoin"))
	ac := func(d string, a common.Address) string {
		return "addcoin _ _ _ " + w.tokStr(a) + " " + c12MetaFields(c12Coin(d, d))
	}
	re := "regerc20 _ " + c12Addr(e[0]) + " _ _ _ _ _ _ _ _ _"
	cvCoin := "convert _ " + hxs("acoin") + " " + hxs("acoin") + " _"
	cvTok := "convert _ " + w.tokStr(e[0]) + " " + hxs(voucher) + " _"
	scens := []scen{
		{"module.single", []string{rc, cvCoin}, m[0]},
		{"module.multi", []string{rc, ac("bcoin", m[0]), cvCoin}, m[0]},
		{"external.single", []string{re, cvTok}, e[0]},
		{"external.multi", []string{re, ac("ccoin", e[0]), cvTok}, e[0]},
	}
	k := 0
	for _, sc := range scens {
		for si := range c12Spellings(sc.addr) {
			k++
			if nshards > 1 && k%nshards != shard%nshards {
				continue
			}
			w.do(r, "reset")
			for _, l := range sc.setup {
				w.do(r, l)
			}
			w.do(r, "genexport")
			line := w.exportLine(func(a common.Address) string { return c12Spellings(a)[si] })
			w.do(r, "env wipe")
			w.do(r, "genvalidate "+line)
			out, _ := w.do(r, "geninit "+line)
			r.Count("gen.sweep.root")
			r.Count("gen.sweep." + sc.name)
			if strings.HasPrefix(out, "ok") {
				w.roundTrip(r)
			}
			a := sc.addr
			sp := c12Spellings(a)
			probes := []string{
				"toggle _ " + hxs(sp[1]), // lower case
				"toggle _ " + hxs(sp[7]), // upper case, no prefix
				"toggle _ " + hxs("acoin"),
				"addcoin _ _ _ " + hxs(sp[5]) + " " + c12MetaFields(c12Coin("bcoin", "bcoin")),
				"addcoin _ _ _ " + hxs(sp[0]) + " " + c12MetaFields(c12Coin("ccoin", "ccoin")),
				"convert _ " + hxs("acoin") + " " + hxs("acoin") + " _",
				"convert _ " + hxs(sp[3]) + " " + hxs("acoin") + " _",
				"convert _ " + hxs(sp[1]) + " " + hxs(voucher) + " _",
				"update _ " + c12Addr(e[0]) + " " + c12Addr(e[2]) + " _ _ _ _ _ _ _",
				"update _ " + c12Addr(e[2]) + " " + c12Addr(e[0]) + " _ _ _ _ _ _ _",
				"regerc20 _ " + c12Addr(e[0]) + " _ _ _ _ _ _ _ _ _",
				"env kill " + c12Addr(a),
				"genexport",
			}
			counter := 0
			w.probeDfs(r, probes, depth, &counter)
		}
	}
}

func (w *c12World) probeDfs(r *Rec, alpha []string, depth int, counter *int) {
	for _, a := range alpha {
		w.do(r, "push")
		out, changed := w.do(r, a)
		r.Count("gen.probe.node")
		if strings.HasPrefix(a, "toggle") && strings.HasPrefix(out, "ok") {
			r.Count("gen.probe.toggle.ok")
		}
		if strings.HasPrefix(a, "addcoin") && strings.HasPrefix(out, "ok") {
			r.Count("gen.probe.addcoin.ok")
		}
		if strings.HasPrefix(a, "update") && strings.HasPrefix(out, "ok") {
			r.Count("gen.probe.update.ok")
		}
		if strings.HasPrefix(a, "convert") && strings.HasPrefix(out, "conv") {
			r.Count("gen.probe.convert.conv")
		}
		if changed {
			r.Nontrivial(strings.Join(w.hist, ";"))
			if strings.HasPrefix(out, "ok") || strings.HasPrefix(out, "del") {
				w.roundTrip(r)
			}
			if depth > 1 {
				w.probeDfs(r, alpha, depth-1, counter)
			}
		}
		w.do(r, "pop")
	}
}

const c12IbcDenom = "ibc/27394FB092D2ECCD56123C74F36E4C1F926001CEADA9CA97EA622B25F41E5EB2"

// metadata of an ICS-20 voucher as RegisterCoinProposal.ValidateBasic demands it (name with the channel, symbol ibc…)
func c12IbcCoin() banktypes.Metadata {
	m := c12Coin(c12IbcDenom, "transfer/channel-0/uatom")
	m.Symbol = "ibcATOM"
	return m
}

// coin with a display unit other than the base (Display / Symbol variants)
func c12DisplayCoin(base string) banktypes.Metadata {
	m := c12Coin(base, base)
	m.DenomUnits = append(m.DenomUnits, &banktypes.DenomUnit{Denom: "mega" + base, Exponent: 6})
	m.Display = "mega" + base
	m.Symbol = "M" + strings.ToUpper(base)
	return m
}

// boundarySweep: ALL sequences up to `depth` over boundary-valued actions: a contract whose address bytes are a valid
// denomination and the coin with exactly that denomination, a 128-character denomination, a denomination that reads as a
// hex address (and one with 0x, which is no valid denomination), an IBC voucher, display-unit variants, an ERC20 with 255
// decimals, restarts.
func (w *c12World) boundarySweep(r *Rec, depth int) {
	e, m := w.ext, w.mod
	rc := func(md banktypes.Metadata) string { return "regcoin _ _ _ _ _ _ " + c12MetaFields(md) }
	ac := func(md banktypes.Metadata, a common.Address) string {
		return "addcoin _ _ _ " + w.tokStr(a) + " " + c12MetaFields(md)
	}
	re := func(a common.Address) string { return "regerc20 _ " + c12Addr(a) + " _ _ _ _ _ _ _ _ _" }
	up := func(a, b common.Address) string { return "update _ " + c12Addr(a) + " " + c12Addr(b) + " _ _ _ _ _ _ _" }
	vd := c12VanityDenom
	hexd := "abcdefabcdefabcdefabcdefabcdefabcdefabcd"
	alpha := []string{
		re(w.vanity),
		rc(c12Coin(vd, vd)),
		ac(c12Coin(vd, vd), e[1]),
		ac(c12Coin("acoin", "acoin"), w.vanity),
		re(e[1]),
		"toggle _ " + hxs(vd),
		"toggle _ " + w.tokStr(w.vanity),
		"convert _ " + hxs(vd) + " " + hxs(vd) + " _",
		"convert _ " + w.tokStr(w.vanity) + " " + hxs(aggtypes.CreateDenom(w.vanity.String())) + " _",
		up(w.vanity, e[2]),
		up(e[1], w.vanity),
		rc(c12Coin(c12MaxDenom, c12MaxDenom)),
		ac(c12Coin(c12MaxDenom, c12MaxDenom), m[0]),
		rc(c12IbcCoin()),
		rc(c12DisplayCoin("bcoin")),
		rc(c12Coin(hexd, hexd)),
		rc(c12Coin("0x"+hexd, "0x"+hexd)),
		rc(c12Coin(c12MaxDenom+"y", c12MaxDenom+"y")),
		re(e[5]),
		"env kill " + c12Addr(w.vanity),
		"restart",
	}
	w.do(r, "reset")
	var rec func(d int)
	rec = func(d int) {
		for _, a := range alpha {
			w.do(r, "push")
			out, changed := w.do(r, a)
			r.Count("boundary.node")
			if strings.HasPrefix(out, "ok") && !strings.HasPrefix(a, "env") && a != "restart" {
				r.Count("boundary.ok." + strings.Fields(a)[0])
			}
			if changed {
				r.Nontrivial(strings.Join(w.hist, ";"))
				if strings.HasPrefix(out, "ok") || strings.HasPrefix(out, "del") {
					w.roundTrip(r)
				}
				if d > 1 {
					rec(d - 1)
				}
			}
			w.do(r, "pop")
		}
	}
	rec(depth)
}

// bulk histories: 1000 pairs (imported, restarted, probed at both ends) and a pair with 100 denominations (built by
// governance, restarted, re-indexed by an address update, converted, deleted)
func (w *c12World) bulkHistories(r *Rec) {
	e, m := w.ext, w.mod
	// ---- 1000 pairs
	w.do(r, "reset")
	w.do(r, "bulkmeta 1000 "+hxs("bk"))
	pairs := make([]string, 1000)
	for i := 0; i < 1000; i++ {
		a := common.BigToAddress(new(big.Int).Add(new(big.Int).Lsh(big.NewInt(0xB01DFACE), 96), big.NewInt(int64(i)*7919+1)))
		sp := c12Spellings(a)
		pairs[i] = sp[i%len(sp)] + ">" + hxs(fmt.Sprintf("bk%04d", i)) + ">" + c12Bit(i%5 != 3) + ">" + strconv.Itoa(1+i%2)
	}
	g := strings.Join(pairs, ";")
	w.do(r, "genvalidate "+g)
	w.do(r, "geninit "+g)
	w.do(r, "restart")
	w.do(r, "genexport")
	for _, i := range []int{0, 99, 100, 101, 500, 999} {
		w.do(r, "toggle _ "+hxs(fmt.Sprintf("bk%04d", i)))
	}
	w.do(r, "toggle _ "+hxs(strings.Split(pairs[999], ">")[0]))
	w.do(r, "regerc20 _ "+c12Addr(e[0])+" _ _ _ _ _ _ _ _ _")
	w.do(r, "addcoin _ _ _ "+w.tokStr(e[0])+" "+c12MetaFields(c12Coin("acoin", "acoin")))
	w.do(r, "update _ "+c12Addr(e[0])+" "+c12Addr(e[2])+" _ _ _ _ _ _ _")
	w.do(r, "convert _ "+hxs("bk0998")+" "+hxs("bk0998")+" _") // no contract there: the pair is cleaned up
	w.do(r, "restart")
	w.do(r, "convert _ "+w.tokStr(e[2])+" "+hxs(aggtypes.CreateDenom(e[0].String()))+" _")
	r.Count("bulk.pairs1000")
	// ---- a pair with 100 (module) / 101 (external) denominations
	w.do(r, "reset")
	w.do(r, "env mint 100 "+hxs("hd"))
	w.do(r, "env mint 100 "+hxs("he"))
	w.do(r, "regcoin _ _ _ _ _ _ "+c12MetaFields(c12Coin("acoin", "acoin")))
	w.do(r, "regerc20 _ "+c12Addr(e[0])+" _ _ _ _ _ _ _ _ _")
	for i := 0; i < 100; i++ {
		d := fmt.Sprintf("hd%04d", i)
		w.do(r, "addcoin _ _ _ "+w.tokStr(m[0])+" "+c12MetaFields(c12Coin(d, d)))
		d = fmt.Sprintf("he%04d", i)
		w.do(r, "addcoin _ _ _ "+w.tokStr(e[0])+" "+c12MetaFields(c12Coin(d, d)))
	}
	w.roundTrip(r)
	w.do(r, "restart")
	w.do(r, "toggle _ "+hxs("hd0099"))
	w.do(r, "toggle _ "+hxs("hd0099"))
	w.do(r, "convert _ "+hxs("hd0099")+" "+hxs("hd0099")+" _")
	w.do(r, "convert _ "+w.tokStr(m[0])+" "+hxs("hd0099")+" _")
	w.do(r, "update _ "+c12Addr(e[0])+" "+c12Addr(e[2])+" _ _ _ _ _ _ _")
	w.do(r, "restart")
	w.roundTrip(r)
	w.do(r, "env kill "+c12Addr(e[2]))
	w.do(r, "convert _ "+hxs("he0050")+" "+hxs("he0050")+" _") // clean-up of 101 denomination entries
	w.do(r, "genexport")
	r.Count("bulk.denoms100")
}

func (w *c12World) randomGenesis(r *Rec) []string {
	rng := r.Rng
	ds := []string{"acoin", "bcoin", "ccoin", "dcoin"}
	rng.Shuffle(len(ds), func(i, j int) { ds[i], ds[j] = ds[j], ds[i] })
	as := rng.Perm(len(w.ext))
	var lines, pairs []string
	n := 1 + rng.Intn(3)
	k := 0
	for i := 0; i < n && k < len(ds); i++ {
		nd := 1 + rng.Intn(2)
		var l []string
		for j := 0; j < nd && k < len(ds); j++ {
			if rng.Intn(10) > 0 {
				lines = append(lines, "bankmeta "+c12MetaFields(c12Coin(ds[k], ds[k])))
			}
			l = append(l, hxs(ds[k]))
			if rng.Intn(12) > 0 { // rarely the same denomination again (Validate only looks at Denoms[0])
				k++
			}
		}
		a := w.ext[as[i]]
		if i > 0 && rng.Intn(10) == 0 { // the contract of the previous pair again, in another spelling (Validate compares strings)
			a = w.ext[as[i-1]]
		}
		pairs = append(pairs, w.respell(r, a)+">"+c12Join(l, ",")+">"+c12Bit(rng.Intn(4) > 0)+">"+strconv.Itoa(1+rng.Intn(2)))
	}
	g := strings.Join(pairs, ";")
	return append(lines, "genvalidate "+g, "geninit "+g, "genexport")
}

func TestC12(t *testing.T) {
	r := NewRec(t, "C12")
	defer r.Close()
	w := newC12World()
	// which GenesisState.Validate does the tree under test have? (the repaired one of
	// fixes/C12-genesis-validate-duplicates.diff compares contracts as addresses and looks at every denomination)
	{
		a := w.ext[0]
		probe := aggtypes.GenesisState{Params: aggtypes.DefaultParams(), TokenPairs: []aggtypes.TokenPair{
			{ERC20Address: strings.ToLower(a.Hex()), Denoms: []string{"acoin"}, Enabled: true, ContractOwner: aggtypes.OWNER_EXTERNAL},
			{ERC20Address: a.Hex(), Denoms: []string{"bcoin", "acoin"}, Enabled: true, ContractOwner: aggtypes.OWNER_EXTERNAL},
		}}
		strict := false
		safely(func() { strict = probe.Validate() != nil })
		w.genmode = "genmode orig"
		if strict {
			w.genmode = "genmode strict"
		}
		w.do(r, w.genmode)
	}
	if os.Getenv("VERIF_C12_MODEL") == "orig" { // development aid: compare against the model of the UNREPAIRED update function
		w.do(r, "mode orig")
	}
	if ops := replayOps(t); ops != nil {
		for _, op := range ops {
			w.do(r, op)
		}
		return
	}
	for _, h := range corpusOps("C12") {
		w.do(r, "reset")
		for _, op := range h {
			w.do(r, op)
		}
		r.Count("corpus.history")
	}
	thorough := r.Tier == "thorough"
	depth, nrand := 4, 150
	if thorough {
		depth, nrand = 5, 600
	}
	if n := envInt("VERIF_N", 0); n > 0 {
		nrand = int(n)
	}
	if d := envInt("VERIF_DEPTH", 0); d > 0 {
		depth = int(d)
	}
	alpha := w.alphabet(thorough)
	nshards := 1
	if thorough {
		nshards = int(envInt("VERIF_SHARDS", 16))
	}
	counter := 0
	w.do(r, "reset")
	w.dfs(r, alpha, depth, 1, r.Shard, nshards, &counter, true)
	// genesis files with re-spelled addresses, followed by every short probe sequence
	gdepth := 2
	if thorough {
		gdepth = 3
	}
	w.genesisSweep(r, gdepth, r.Shard, nshards)
	// boundary values and bulk
	w.boundarySweep(r, 3)
	if !thorough || r.Shard%4 == 0 {
		w.bulkHistories(r)
	}
	// whole-app restarts (own world: a committed chain cannot be reset)
	if !thorough || r.Shard%4 == 1 {
		c12AppRestartHistories(r, 60, w.genmode)
	}
	// random long histories
	for i := 0; i < nrand; i++ {
		w.do(r, "reset")
		if r.Rng.Intn(5) == 0 { // start from an imported genesis (mostly disjoint pairs whose denominations have metadata)
			for _, l := range w.randomGenesis(r) {
				w.do(r, l)
			}
		}
		n := 8 + r.Rng.Intn(30)
		for j := 0; j < n; j++ {
			var line string
			if r.Rng.Intn(3) == 0 {
				line = alpha[r.Rng.Intn(len(alpha))]
			} else {
				line = w.randomOp(r)
			}
			out, changed := w.do(r, line)
			if changed {
				r.Nontrivial(strings.Join(w.hist, ";"))
				if r.Rng.Intn(4) == 0 && (strings.HasPrefix(out, "ok") || strings.HasPrefix(out, "del")) {
					w.roundTrip(r)
				}
			}
			// export -> re-spell every address -> restart the registry from the file, then go on
			if !w.tainted && r.Rng.Intn(12) == 0 && len(w.raw(w.ctx).pairs) > 0 {
				w.do(r, "genexport")
				g := w.exportLine(func(a common.Address) string { return w.respell(r, a) })
				w.do(r, "env wipe")
				w.do(r, "genvalidate "+g)
				if out, _ := w.do(r, "geninit "+g); strings.HasPrefix(out, "ok") {
					w.roundTrip(r)
				}
				r.Count("random.respell-roundtrip")
			}
		}
		r.Count("random.history")
	}
}
