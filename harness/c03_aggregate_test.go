//go:build c03

package verifharness

// C03 — conversions of the aggregate module for a PROGRAMMABLE token.
//
// The aggregate keeper has its own CallEVMWithData (x/aggregate/keeper/evm.go): it applies the message with commit = true and
// never runs the EVM post-transaction hooks. MsgConvertERC20 / MsgConvertCoin of an externally owned ERC-20 pair (registered
// by governance: Keeper.RegisterERC20) call the token's `transfer` from the module. If the token itself makes a cross-chain
// call inside `transfer`, the endpoint escrows and the packet contract emits PacketSent inside that module-initiated call —
// and no hook turns the event into a commitment.
//
// Y: a hand-assembled ERC-20 with real balances (balanceOf / transfer / mint / name / symbol / decimals; everything else
// answers `true`), which — once armed by a 1-byte call — makes its next `transfer` bridge native coin it owns:
// endpoint.crossChainCall{value: v}(dst = chain 1, native coin, v). The scenario runs the real msg server through a
// delivered transaction and evaluates, on the real chain's own views: native coin escrowed towards the destination
// (outTokens, endpoint balance) against commitments and send counter.

import (
	"encoding/binary"
	"fmt"
	"math/big"
	"strings"

	sdk "github.com/cosmos/cosmos-sdk/types"
	"github.com/ethereum/go-ethereum/common"
	"github.com/tharsis/ethermint/crypto/ethsecp256k1"

	endpointcontract "github.com/teleport-network/teleport/syscontracts/xibc_endpoint"
	packetcontract "github.com/teleport-network/teleport/syscontracts/xibc_packet"
	aggregatetypes "github.com/teleport-network/teleport/x/aggregate/types"
	packettypes "github.com/teleport-network/teleport/x/xibc/core/packet/types"
)

func c03ProgrammableTokenRuntime(nested []byte, value uint16) []byte {
	a := &c03Asm{labels: map[string]int{}, fixups: map[int]string{}}
	raw := func(b ...byte) { a.code = append(a.code, b...) }
	push2 := func(v uint16) { raw(0x61, byte(v>>8), byte(v)) }
	sel := func(s uint32, label string) { // DUP1 PUSH4 s EQ PUSH2 label JUMPI
		raw(0x80, 0x63, byte(s>>24), byte(s>>16), byte(s>>8), byte(s), 0x14)
		a.pushLabel(label).op("JUMPI")
	}
	const (
		SUB, CALLER, SWAP1, SHL = 0x03, 0x33, 0x90, 0x1b
	)
	a.op("CALLDATASIZE", "ISZERO").pushLabel("stop").op("JUMPI")
	a.op("CALLDATASIZE").push1(1).op("EQ").pushLabel("arm").op("JUMPI")
	a.push1(0).op("CALLDATALOAD").push1(0xe0).op("SHR")
	sel(0x70a08231, "balanceOf")
	sel(0xa9059cbb, "transfer")
	sel(0x40c10f19, "mint")
	sel(0x06fdde03, "str")
	sel(0x95d89b41, "str")
	sel(0x313ce567, "dec")
	a.pushLabel("answer").op("JUMP")
	credit := func() { // balances[calldata to] += calldata amount
		a.push1(0x24).op("CALLDATALOAD").push1(4).op("CALLDATALOAD", "SLOAD", "ADD").push1(4).op("CALLDATALOAD", "SSTORE")
	}
	a.label("balanceOf")
	a.push1(4).op("CALLDATALOAD", "SLOAD").push1(0).op("MSTORE").push1(32).push1(0).op("RETURN")
	a.label("mint")
	credit()
	a.op("STOP")
	a.label("transfer")
	raw(CALLER)
	a.op("SLOAD").push1(0x24).op("CALLDATALOAD", "DUP2", "DUP2", "GT").pushLabel("fail").op("JUMPI") // amount > balance: revert
	raw(SWAP1, SUB, CALLER)
	a.op("SSTORE")
	credit()
	a.push1(0).op("SLOAD", "ISZERO").pushLabel("answer").op("JUMPI") // not armed
	a.push1(0).push1(0).op("SSTORE")                                   // one shot
	push2(uint16(len(nested)))
	dataAt := len(a.code) + 1
	push2(0)
	a.push1(0).op("CODECOPY")
	a.push1(0).push1(0)
	push2(uint16(len(nested)))
	a.push1(0)
	push2(value)
	raw(0x73)
	raw(endpointcontract.EndpointContractAddress.Bytes()...)
	a.op("GAS", "CALL", "ISZERO").pushLabel("fail").op("JUMPI")
	a.label("answer")
	a.push1(1).push1(0).op("MSTORE").push1(32).push1(0).op("RETURN")
	a.label("str") // abi string "YTK"
	a.push1(0x20).push1(0).op("MSTORE").push1(3).push1(0x20).op("MSTORE")
	raw(0x62, 0x59, 0x54, 0x4b) // PUSH3 "YTK"
	a.push1(0xe8)
	raw(SHL)
	a.push1(0x40).op("MSTORE").push1(0x60).push1(0).op("RETURN")
	a.label("dec")
	a.push1(18).push1(0).op("MSTORE").push1(32).push1(0).op("RETURN")
	a.label("arm")
	a.push1(0).op("CALLDATALOAD").push1(0xf8).op("SHR").push1(0).op("SSTORE", "STOP")
	a.label("stop")
	a.op("STOP")
	a.label("fail")
	a.push1(0).push1(0).op("REVERT")
	code := a.bytes()
	binary.BigEndian.PutUint16(code[dataAt:], uint16(len(code)))
	return append(code, nested...)
}

// aggregateConversionScenario: returns nothing; findings / counters go to the recorder
func (h *c03Harness) aggregateConversionScenario() {
	r := h.r
	h.apply("reset")
	for _, op := range h.defaultRegistry() {
		h.apply(h.canonRegister(op))
	}
	w := h.w
	const A, B = 0, 1
	const v = 500
	ch := w.ch[A]
	nestedData := packettypes.CrossChainData{DstChain: h.name(B), TokenAddress: common.Address{}, Receiver: strings.ToLower(w.acc[c03AccU6].String()), Amount: big.NewInt(v),
		ContractAddress: "", CallData: nil, CallbackAddress: common.Address{}, FeeOption: 0}
	nested, err := endpointcontract.EndpointContract.ABI.Pack("crossChainCall", nestedData, packettypes.Fee{TokenAddress: common.Address{}, Amount: big.NewInt(0)})
	if err != nil {
		r.t.Fatal(err)
	}
	key, _ := ethsecp256k1.GenerateKey()
	rt := c03ProgrammableTokenRuntime(nested, v)
	Y := w.deployRaw(A, key, c03InitCode2(rt), len(rt))
	// governance registers the pair (what the RegisterERC20 proposal handler calls)
	pair, err := ch.App.AggregateKeeper.RegisterERC20(ch.GetContext(), Y)
	if err != nil {
		r.t.Fatalf("aggregate scenario: RegisterERC20: %v", err)
	}
	denom := pair.Denoms[0]
	user := w.acc[c03AccUser]
	userAcc := sdk.AccAddress(user.Bytes())
	mint, _ := w.erc20().Pack("mint", user, big.NewInt(10000))
	if failed, e, _ := w.sendTx(A, Y, big.NewInt(0), mint); failed {
		r.t.Fatalf("aggregate scenario: mint: %s", e)
	}
	if failed, e, _ := w.sendTx(A, Y, big.NewInt(4*v), nil); failed { // Y owns coin it can bridge
		r.t.Fatalf("aggregate scenario: funding: %s", e)
	}
	w.coord.CommitBlock(ch)
	hist := []string{"scenario aggregate-conversion: Y = ERC-20 with real balances whose transfer(), once armed, bridges " + fmt.Sprint(v) + " native coin of its own to chain 1 (endpoint.crossChainCall)",
		"governance: aggregate RegisterERC20(Y) on chain 0 (externally owned pair)", "Y.mint(user, 10000); Y funded with native coin"}
	type views struct {
		out, esc, balY *big.Int
		next           uint64
		commits        int
	}
	look := func() views {
		ctx := ch.GetContext()
		n := ch.App.XIBCKeeper.PacketKeeper.GetNextSequenceSend(ctx, h.name(A), h.name(B))
		c := 0
		for q := uint64(1); q <= n+2; q++ {
			if w.hasCommitment(A, B, q) {
				c++
			}
		}
		return views{out: w.outTokens(A, common.Address{}, h.name(B)), esc: w.balance(A, common.Address{}, w.acc[c03AccEndpoint]), balY: w.balance(A, common.Address{}, Y), next: n, commits: c}
	}
	step := func(kind string, msg sdk.Msg) {
		if failed, e, _ := w.sendTx(A, Y, big.NewInt(0), []byte{1}); failed { // armed
			r.t.Fatalf("aggregate scenario: arming: %s", e)
		}
		w.coord.CommitBlock(ch)
		before := look()
		res, derr := w.deliver(A, msg)
		after := look()
		hist = append(hist, "arm Y", "deliver Msg"+kind+" 100 (signed tx of the user, aggregate msg server)")
		obs := fmt.Sprintf("%s: accepted=%v | outTokens[native][chain1] %s -> %s, endpoint native balance %s -> %s, Y native balance %s -> %s, commitments 0->1 %d -> %d, next send sequence %d -> %d",
			kind, derr == nil, before.out, after.out, before.esc, after.esc, before.balY, after.balY, before.commits, after.commits, before.next, after.next)
		r.Extra["aggregate-conversion."+kind] = obs
		if derr != nil {
			r.Count("aggregate-conversion." + kind + ".rejected")
			if after != before && (after.out.Cmp(before.out) != 0 || after.commits != before.commits || after.next != before.next) {
				r.Find(Finding{Sig: "C03:rejected-conversion-changed-state:" + kind, What: "a rejected conversion changed escrow / commitments", Ops: append([]string{}, hist...), Obs: obs, Req: "unchanged"})
			}
			return
		}
		r.Count("aggregate-conversion." + kind + ".accepted")
		sent := 0
		ev := packetcontract.PacketContract.ABI.Events["PacketSent"]
		for _, l := range c03LogsOf(res) {
			if common.HexToAddress(l.Address) == packetcontract.PacketContractAddress && len(l.Topics) > 0 && common.HexToHash(l.Topics[0]) == ev.ID {
				sent++
			}
		}
		locked := new(big.Int).Sub(after.out, before.out)
		committed := after.commits - before.commits
		if locked.Sign() > 0 {
			r.Count("aggregate-conversion." + kind + ".nested-send")
		}
		// escrowed towards the destination = minted there (nothing: no relay happened) + in flight (committed packets of v each)
		if locked.Cmp(big.NewInt(int64(committed*v))) != 0 {
			r.Count("oracle.finding")
			r.Find(Finding{Sig: "C03:value-locked-without-commitment:aggregate-conversion:" + strings.ToLower(kind[:1]) + kind[1:],
				What: fmt.Sprintf("Msg%s of an externally owned ERC-20 pair whose token makes a cross-chain call inside transfer(): the endpoint escrowed %s native coin towards chain 1 (PacketSent events in the module-initiated call: %d) but %d commitment(s) were stored and the send counter went %d -> %d: the value is locked with nothing in flight — neither deliverable nor refundable (the aggregate keeper's CallEVMWithData commits the EVM state without running the post-transaction hooks)", kind, locked, sent, committed, before.next, after.next),
				Ops: append([]string{}, hist...), Obs: obs, Req: "escrowed = in flight: a commitment and a sequence step for every PacketSent, or the conversion fails as a whole"})
		} else if locked.Sign() > 0 {
			r.Count("aggregate-conversion." + kind + ".nested-send.committed")
		}
	}
	step("ConvertERC20", aggregatetypes.NewMsgConvertERC20(sdk.NewInt(100), userAcc, Y, user, denom))
	step("ConvertCoin", aggregatetypes.NewMsgConvertCoin(sdk.NewCoin(denom, sdk.NewInt(40)), user, userAcc))
}
