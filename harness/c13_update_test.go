//go:build c13

package verifharness

// C13 — states that only the REAL update paths of the light clients produce.
//
// The histories here drive `ClientKeeper.UpdateClient` with generated, really signed / rule-abiding headers:
//   BSC         a self-signed parlia chain (epoch 10, validator sets of 1…5 rotating at every epoch header) carried across epoch
//               headers and switch heights; the effects of every update are predicted BY CONSTRUCTION (own bookkeeping of the
//               validators in force) and executed by the Lean model (`bscUpdate`): op `bscupdate`
//   Tendermint  a synthetic chain with rotating validator sets (revision ≠ 0): adjacent and skipping updates, back-fills,
//               expiry pruning, an upgrade to the next revision: op `update` + the store diff as `plant` / `unplant` lines
//   ETH         Rinkeby rules (chain id 4): a main branch, a longer side branch (re-pointing of the main chain), expiry pruning
// and take the export → validate → init → re-export pipeline at every phase (right after create, between an epoch header and the
// switch, right after the switch, after a second epoch, after an upgrade …).
//
// op language (additions):
//   update TY CHAIN HEADERBLOB NOWNS                      ClientKeeper.UpdateClient at block time NOWNS          -> ok | err
//   bscupdate CHAIN HEADERBLOB NOWNS REV H CBLOB CVALID SBLOB SVALID SIGNER PENDING|- NDEL (DELHEIGHT)*           -> ok | err
//        the same real call; the rest of the line is what the update must write, by construction: the new client state, the
//        consensus state at REV-H, the recent-signer record, the pending validator set (epoch headers only) and the recent-signer
//        heights it deletes
//   plant KEY VAL VALID | unplant KEY                           raw write / delete in the xibc store (what a real `update` wrote:
//                                                         keeps the model in step; idempotent on the real store)

import (
	"bytes"
	"crypto/ecdsa"
	"crypto/sha256"
	"fmt"
	"math/big"
	"sort"
	"strings"
	"time"

	sdk "github.com/cosmos/cosmos-sdk/types"
	"github.com/ethereum/go-ethereum/common"
	"github.com/ethereum/go-ethereum/consensus/misc"
	"github.com/ethereum/go-ethereum/crypto"
	"github.com/ethereum/go-ethereum/params"
	"github.com/tendermint/tendermint/crypto/tmhash"
	tmproto "github.com/tendermint/tendermint/proto/tendermint/types"
	tmprotoversion "github.com/tendermint/tendermint/proto/tendermint/version"
	tmtypes "github.com/tendermint/tendermint/types"
	"github.com/tendermint/tendermint/version"

	bsctypes "github.com/teleport-network/teleport/x/xibc/clients/light-clients/bsc/types"
	ethtypes "github.com/teleport-network/teleport/x/xibc/clients/light-clients/eth/types"
	xibctmtypes "github.com/teleport-network/teleport/x/xibc/clients/light-clients/tendermint/types"
	clienttypes "github.com/teleport-network/teleport/x/xibc/core/client/types"
	commitmenttypes "github.com/teleport-network/teleport/x/xibc/core/commitment/types"
	"github.com/teleport-network/teleport/x/xibc/core/host"
	"github.com/teleport-network/teleport/x/xibc/exported"
	xibctesting "github.com/teleport-network/teleport/x/xibc/testing"
	"github.com/teleport-network/teleport/x/xibc/testing/mock"
)

// ---- real-side execution of the new ops -----------------------------------------------------------------------------------

func (w *c13World) unHeader(bz []byte) exported.Header {
	var h exported.Header
	if err := w.app.AppCodec().UnmarshalInterface(bz, &h); err != nil {
		panic(err)
	}
	return h
}

func (w *c13World) hdrBlob(h exported.Header) []byte {
	bz, err := w.app.AppCodec().MarshalInterface(h)
	if err != nil {
		panic(err)
	}
	return bz
}

func (w *c13World) realUpdate(r *Rec, chain string, hdr exported.Header, nowNs uint64) string {
	cctx, write := w.ctx.CacheContext()
	cctx = cctx.WithBlockTime(time.Unix(0, int64(nowNs)))
	var err error
	pan, msg := safely(func() { err = w.app.XIBCKeeper.ClientKeeper.UpdateClient(cctx, chain, hdr) })
	if pan || err != nil {
		r.Count("update.rejected")
		if pan {
			w.lastErr = "panic: " + msg
		} else {
			w.lastErr = err.Error()
		}
		return "err"
	}
	write()
	return "ok"
}

func (w *c13World) applyUpdateOp(r *Rec, f []string) string {
	switch f[0] {
	case "update":
		return w.realUpdate(r, string(unhx(f[2])), w.unHeader(unhx(f[3])), pu(f[4]))
	case "bscupdate":
		return w.realUpdate(r, string(unhx(f[1])), w.unHeader(unhx(f[2])), pu(f[3]))
	case "plant":
		w.ctx.KVStore(w.app.GetKey(host.StoreKey)).Set(unhx(f[1]), unhx(f[2]))
		return "ok"
	case "unplant":
		w.ctx.KVStore(w.app.GetKey(host.StoreKey)).Delete(unhx(f[1]))
		return "ok"
	}
	return "bad-op"
}

func (w *c13World) xibcSnapshot() map[string]string {
	m := map[string]string{}
	it := sdk.KVStorePrefixIterator(w.ctx.KVStore(w.app.GetKey(host.StoreKey)), nil)
	for ; it.Valid(); it.Next() {
		m[string(it.Key())] = string(it.Value())
	}
	it.Close()
	return m
}

// one real update + the store diff as plant / unplant lines; false = the real client rejected the header (nothing emitted)
func (w *c13World) genUpdate(r *Rec, emit func(string), ty, chain string, hdr exported.Header, nowNs uint64) bool {
	before := w.xibcSnapshot()
	// dry run first: only accepted updates become ops (C07 / C09 / C10 judge the verdicts, C13 the state they leave behind)
	cctx, _ := w.ctx.CacheContext()
	cctx = cctx.WithBlockTime(time.Unix(0, int64(nowNs)))
	var err error
	if pan, _ := safely(func() { err = w.app.XIBCKeeper.ClientKeeper.UpdateClient(cctx, chain, hdr) }); pan || err != nil {
		r.Count("update.dry-rejected." + ty)
		return false
	}
	emit(fmt.Sprintf("update %s %s %s %d", ty, hxs(chain), hx(w.hdrBlob(hdr)), nowNs))
	after := w.xibcSnapshot()
	var ks []string
	for k := range after {
		if v, ok := before[k]; !ok || v != after[k] {
			ks = append(ks, k)
		}
	}
	sort.Strings(ks)
	for _, k := range ks {
		// VALID: ClientState.Validate() / ConsensusState.ValidateBasic() of a planted client / consensus state (external computation)
		valid := true
		switch c13Family("x", []byte(k)) {
		case "clientState":
			safely(func() { valid = w.unCS([]byte(after[k])).Validate() == nil })
		case "consensusState":
			safely(func() { valid = w.unCons([]byte(after[k])).ValidateBasic() == nil })
		}
		emit("plant " + hxs(k) + " " + hx([]byte(after[k])) + " " + b01(valid))
		r.Count("update.planted." + c13Family("x", []byte(k)))
	}
	ks = nil
	for k := range before {
		if _, ok := after[k]; !ok {
			ks = append(ks, k)
		}
	}
	sort.Strings(ks)
	for _, k := range ks {
		emit("unplant " + hxs(k))
		r.Count("update.unplanted." + c13Family("x", []byte(k)))
	}
	r.Count("update." + ty)
	return true
}

func c13Prelude(r *Rec, emit func(string)) {
	emit("chainname " + hxs("teleport"))
	emit(fmt.Sprintf("param %s %s %s", hxs("aggregate"), hxs("EnableAggregate"), hxs("true")))
	emit(fmt.Sprintf("param %s %s %s", hxs("aggregate"), hxs("EnableEVMHook"), hxs("true")))
	emit(c13RvParamsLine(r, "prop", true))
}

// ---- BSC: a self-signed parlia chain ----------------------------------------------------------------------------------------

const (
	c13BscChainID = 7140
	c13BscEpoch   = 10
	c13BscT0      = 1650000000
)

var c13BscKeys = func() (ks []*ecdsa.PrivateKey) {
	for i := 0; len(ks) < 12; i++ {
		seed := sha256.Sum256([]byte{'c', '1', '3', 'b', 's', 'c', byte(i)})
		if k, err := crypto.ToECDSA(seed[:]); err == nil {
			ks = append(ks, k)
		}
	}
	return
}()

type c13BscChain struct {
	first, last uint64
	keyOf       map[common.Address]*ecdsa.PrivateKey
	addrs       []common.Address
	announced   map[uint64][]common.Address
	inForce     map[uint64][]common.Address // the set that verifies the header of that height (inForce[last+1] = after the last header)
	sealer      map[uint64]common.Address
	hdr         map[uint64]*bsctypes.Header
}

func c13SortedAddrs(as []common.Address) []common.Address {
	s := append([]common.Address{}, as...)
	sort.Slice(s, func(i, j int) bool { return bytes.Compare(s[i][:], s[j][:]) < 0 })
	return s
}

func c13HasAddr(as []common.Address, a common.Address) bool {
	for _, x := range as {
		if x == a {
			return true
		}
	}
	return false
}

func c13AddrBytes(as []common.Address) [][]byte {
	out := make([][]byte, len(as))
	for i, a := range as {
		out[i] = append([]byte{}, a.Bytes()...)
	}
	return out
}

func (c *c13BscChain) randSet(r *Rec) []common.Address {
	n := 1 + r.Rng.Intn(5)
	p := r.Rng.Perm(len(c.addrs))[:n]
	var s []common.Address
	for _, i := range p {
		s = append(s, c.addrs[i])
	}
	return s
}

// first must be an epoch height; the chain is sealed so that the real client accepts every header in order
func newC13BscChain(r *Rec, first, last uint64) *c13BscChain {
	c := &c13BscChain{first: first, last: last, keyOf: map[common.Address]*ecdsa.PrivateKey{}, announced: map[uint64][]common.Address{},
		inForce: map[uint64][]common.Address{}, sealer: map[uint64]common.Address{}, hdr: map[uint64]*bsctypes.Header{}}
	for _, k := range c13BscKeys {
		a := crypto.PubkeyToAddress(k.PublicKey)
		c.addrs = append(c.addrs, a)
		c.keyOf[a] = k
	}
	cur := c.randSet(r)
	var pending []common.Address
	var parent *bsctypes.Header
	for n := first; n <= last; n++ {
		c.inForce[n] = cur
		limit := uint64(len(cur)/2 + 1)
		recent := func(x common.Address) bool {
			for h := n - 1; h >= first && h+limit > n; h-- {
				if c.sealer[h] == x {
					return true
				}
			}
			return false
		}
		sorted := c13SortedAddrs(cur)
		inturn := sorted[n%uint64(len(sorted))]
		signer, picked := common.Address{}, false
		if !recent(inturn) {
			signer, picked = inturn, true
		}
		for _, x := range sorted {
			if !picked && !recent(x) {
				signer, picked = x, true
			}
		}
		if !picked {
			signer = inturn // the real client will reject it; the chain is used up to there
		}
		extra := make([]byte, 32)
		copy(extra, []byte("c13 generated bsc chain"))
		if n%c13BscEpoch == 0 {
			c.announced[n] = c.randSet(r)
			for _, x := range c.announced[n] {
				extra = append(extra, x.Bytes()...)
			}
		}
		extra = append(extra, make([]byte, 65)...)
		root, txh, rch := sha256.Sum256([]byte{'r', byte(n), byte(n >> 8)}), sha256.Sum256([]byte{'t', byte(n)}), sha256.Sum256([]byte{'c', byte(n)})
		parentHash := c13Bytes(r, 32)
		if parent != nil {
			parentHash = parent.Hash().Bytes()
		}
		diff := []byte{1}
		if signer == inturn {
			diff = []byte{2}
		}
		h := &bsctypes.Header{Height: clienttypes.NewHeight(0, n), ParentHash: parentHash, UncleHash: ethUncleHash(), Coinbase: signer.Bytes(),
			Root: root[:], TxHash: txh[:], ReceiptHash: rch[:], Difficulty: diff, GasLimit: 30000000, GasUsed: 21000, Time: c13BscT0 + 3*(n-first),
			Extra: extra, MixDigest: make([]byte, 32), Nonce: make([]byte, 8)}
		sig, err := crypto.Sign(c13BscSealHash(*h, big.NewInt(c13BscChainID)).Bytes(), c.keyOf[signer])
		if err != nil {
			panic(err)
		}
		copy(h.Extra[len(h.Extra)-65:], sig)
		c.hdr[n], c.sealer[n], parent = h, signer, h
		if n%c13BscEpoch == 0 {
			pending = c.announced[n]
		}
		// the client applies the switch while processing the header at epoch + len(cur)/2 (not while being created)
		if n > first && pending != nil && n%c13BscEpoch == uint64(len(cur)/2) {
			cur = pending
		}
	}
	c.inForce[last+1] = cur
	return c
}

func (c *c13BscChain) state(n uint64, vals []common.Address) *bsctypes.ClientState {
	return &bsctypes.ClientState{Header: *c.hdr[n], ChainId: c13BscChainID, Epoch: c13BscEpoch, BlockInteval: 3,
		Validators: c13AddrBytes(vals), ContractAddress: []byte("0x00"), TrustingPeriod: 100000000}
}

func (c *c13BscChain) cons(n uint64) *bsctypes.ConsensusState {
	h := c.hdr[n]
	return &bsctypes.ConsensusState{Timestamp: h.Time, Height: h.Height, Root: h.Root}
}

func (c *c13BscChain) nowNs(n uint64) uint64 { return (c.hdr[n].Time + 1) * 1000000000 }

// install line (create / upgrade / toggle) of the BSC client at epoch height n
func (w *c13World) bscInstallLine(c *c13BscChain, verb, chain string, n uint64) string {
	cs, cons := c.state(n, c.inForce[n]), c.cons(n)
	pend := w.app.AppCodec().MustMarshal(&bsctypes.ValidatorSet{Validators: c13AddrBytes(c.announced[n])})
	return fmt.Sprintf("%s bsc %s %s %s %s %s %d %d %s %s", verb, hxs(chain), hx(w.csBlob(cs)), b01(cs.Validate() == nil),
		hx(w.consBlob(cons)), b01(cons.ValidateBasic() == nil), 0, n, hx(c.sealer[n].Bytes()), hx(pend))
}

// the `bscupdate` line of header n: the real call + what it must write, by construction
func (w *c13World) bscUpdateLine(c *c13BscChain, chain string, n uint64) string {
	old, nw := c.inForce[n], c.inForce[n+1]
	cs, cons := c.state(n, nw), c.cons(n)
	pend := "-"
	if n%c13BscEpoch == 0 {
		pend = hx(w.app.AppCodec().MustMarshal(&bsctypes.ValidatorSet{Validators: c13AddrBytes(c.announced[n])}))
	}
	var dels []uint64
	if n%c13BscEpoch == uint64(len(old)/2) { // the switch
		oldLimit, newLimit := len(old)/2+1, len(nw)/2+1
		for i := 0; i < oldLimit-newLimit; i++ {
			dels = append(dels, n-uint64(newLimit)-uint64(i))
		}
	}
	if limit := uint64(len(nw)/2 + 1); n >= limit {
		dels = append(dels, n-limit)
	}
	line := fmt.Sprintf("bscupdate %s %s %d %d %d %s %s %s %s %s %s %d", hxs(chain), hx(w.hdrBlob(c.hdr[n])), c.nowNs(n), 0, n,
		hx(w.csBlob(cs)), b01(cs.Validate() == nil), hx(w.consBlob(cons)), b01(cons.ValidateBasic() == nil), hx(c.sealer[n].Bytes()), pend, len(dels))
	for _, d := range dels {
		line += fmt.Sprintf(" %d", d)
	}
	return line
}

// BSC history: create at an epoch header, real updates across epoch headers and switch heights, the pipeline at every phase
func (w *c13World) genBscReal(r *Rec, emit func(string), tail func(phase string)) {
	w.genBscRealAt(r, emit, tail, 0, 0, false)
}

// every = true: the pipeline after every single update, no upgrade (corpus)
func (w *c13World) genBscRealAt(r *Rec, emit func(string), tail func(phase string), first, length uint64, every bool) {
	c13Prelude(r, emit)
	if first == 0 {
		first = uint64(c13BscEpoch * (2 + r.Rng.Intn(5)))
		if r.Rng.Intn(4) == 0 {
			first = 470 // 0x2f bytes nearby: heights 470…, keys "recentSingers/0-47x"
		}
		length = uint64(12 + r.Rng.Intn(24))
	}
	last := first + length
	c := newC13BscChain(r, first, last)
	chain := []string{"bsc", "bsctest", "bsc-real"}[r.Rng.Intn(3)]
	emit(w.bscInstallLine(c, "create", chain, first))
	if w.lastOut != "ok" {
		r.Count("bscreal.create-rejected")
		return
	}
	tail("bsc.after-create")
	upgraded := false
	for n := first + 1; n <= last; n++ {
		// an upgrade to a later epoch header of the same chain instead of updating up to it
		if !every && !upgraded && n%c13BscEpoch == 0 && r.Rng.Intn(4) == 0 {
			emit(w.bscInstallLine(c, "upgrade", chain, n))
			if w.lastOut == "ok" {
				upgraded = true
				r.Count("bscreal.upgrade")
				tail("bsc.after-upgrade")
				continue
			}
		}
		// dry run: only accepted updates become ops (C09 judges the verdicts)
		{
			cctx, _ := w.ctx.CacheContext()
			cctx = cctx.WithBlockTime(time.Unix(0, int64(c.nowNs(n))))
			var err error
			if pan, _ := safely(func() { err = w.app.XIBCKeeper.ClientKeeper.UpdateClient(cctx, chain, c.hdr[n]) }); pan || err != nil {
				r.Count("bscreal.update-dry-rejected")
				if err != nil {
					r.Extra["bscreal_reject"] = err.Error()
				}
				break
			}
		}
		emit(w.bscUpdateLine(c, chain, n))
		r.Count("bscreal.update")
		off := n % c13BscEpoch
		swOff := uint64(len(c.inForce[n]) / 2)
		switch {
		case off == 0:
			r.Count("bscreal.epoch-header")
			tail("bsc.at-epoch")
		case off == swOff && off != 0:
			r.Count("bscreal.switch")
			tail("bsc.right-after-switch")
		case off < swOff:
			if every || r.Rng.Intn(2) == 0 {
				tail("bsc.between-epoch-and-switch")
			}
		default:
			if every || r.Rng.Intn(4) == 0 {
				tail("bsc.between-switch-and-epoch")
			}
		}
	}
	tail("bsc.end")
}

// ---- Tendermint: a synthetic chain with rotating validator sets ------------------------------------------------------------------

type c13TmChain struct {
	id          string
	rev         uint64
	first, last int64
	dt          time.Duration
	t0          time.Time
	pvs         []mock.PV
	vals        []*tmtypes.Validator
	sets        map[int64]*tmtypes.ValidatorSet
	hdr         map[int64]*xibctmtypes.Header
}

func newC13TmChain(r *Rec, rev uint64, first, last int64, t0 time.Time, dt time.Duration, pvs []mock.PV) *c13TmChain {
	c := &c13TmChain{id: fmt.Sprintf("c13tm-%d", rev), rev: rev, first: first, last: last, dt: dt, t0: t0, sets: map[int64]*tmtypes.ValidatorSet{}, hdr: map[int64]*xibctmtypes.Header{}}
	if pvs == nil {
		for i := 0; i < 6; i++ {
			pvs = append(pvs, mock.NewPV())
		}
	}
	c.pvs = pvs
	for _, pv := range pvs {
		pk, err := pv.GetPubKey()
		if err != nil {
			panic(err)
		}
		c.vals = append(c.vals, tmtypes.NewValidator(pk, 10))
	}
	set := func(idx ...int) *tmtypes.ValidatorSet {
		var vs []*tmtypes.Validator
		for _, i := range idx {
			v := *c.vals[i]
			vs = append(vs, &v)
		}
		return tmtypes.NewValidatorSet(vs)
	}
	// validators 0,1,2 always sign (skipping updates keep > 1/3 of the trusted power), one more rotates
	for h := first; h <= last+1; h++ {
		c.sets[h] = set(0, 1, 2, 3+int(h%3))
	}
	for h := first; h <= last; h++ {
		vs := c.sets[h]
		var signers []tmtypes.PrivValidator
		for _, v := range vs.Validators {
			for i, x := range c.vals {
				if bytes.Equal(v.Address, x.Address) {
					signers = append(signers, c.pvs[i])
				}
			}
		}
		ts := t0.Add(time.Duration(h-first) * dt)
		th := tmtypes.Header{
			Version: tmprotoversion.Consensus{Block: version.BlockProtocol, App: 2}, ChainID: c.id, Height: h, Time: ts,
			LastBlockID:    xibctesting.MakeBlockID(make([]byte, tmhash.Size), 10_000, make([]byte, tmhash.Size)),
			LastCommitHash: tmhash.Sum([]byte("last_commit")), DataHash: tmhash.Sum([]byte("data_hash")),
			ValidatorsHash: vs.Hash(), NextValidatorsHash: c.sets[h+1].Hash(), ConsensusHash: tmhash.Sum([]byte("consensus_hash")),
			AppHash: tmhash.Sum([]byte{'a', byte(h), byte(rev)}), LastResultsHash: tmhash.Sum([]byte("last_results_hash")),
			EvidenceHash: tmhash.Sum([]byte("evidence_hash")), ProposerAddress: vs.Proposer.Address, //nolint:staticcheck
		}
		blockID := xibctesting.MakeBlockID(th.Hash(), 3, tmhash.Sum([]byte("part_set")))
		voteSet := tmtypes.NewVoteSet(c.id, h, 1, tmproto.PrecommitType, vs)
		commit, err := tmtypes.MakeCommit(blockID, h, 1, voteSet, signers, ts)
		if err != nil {
			panic(err)
		}
		pvs, err := vs.ToProto()
		if err != nil {
			panic(err)
		}
		c.hdr[h] = &xibctmtypes.Header{SignedHeader: &tmproto.SignedHeader{Header: th.ToProto(), Commit: commit.ToProto()}, ValidatorSet: pvs}
	}
	return c
}

func (c *c13TmChain) timeOf(h int64) time.Time { return c.t0.Add(time.Duration(h-c.first) * c.dt) }

func (c *c13TmChain) update(h, trusted int64) *xibctmtypes.Header {
	cp := *c.hdr[h]
	cp.TrustedHeight = clienttypes.NewHeight(c.rev, uint64(trusted))
	p, err := c.sets[trusted+1].ToProto()
	if err != nil {
		panic(err)
	}
	cp.TrustedValidators = p
	return &cp
}

func (w *c13World) tmInstallLine(c *c13TmChain, verb, chain string, h int64, trusting time.Duration) string {
	cs := xibctmtypes.NewClientState(c.id, xibctmtypes.Fraction{Numerator: 1, Denominator: 3}, trusting, trusting*2, 10*time.Second,
		clienttypes.NewHeight(c.rev, uint64(h)), commitmenttypes.GetSDKSpecs(), commitmenttypes.MerklePrefix{KeyPrefix: []byte("xibc")}, 0)
	th := c.hdr[h].SignedHeader.Header
	cons := xibctmtypes.NewConsensusState(c.timeOf(h).UTC(), th.AppHash, th.NextValidatorsHash)
	now := uint64(c.timeOf(h).Add(time.Second).UnixNano())
	return fmt.Sprintf("%s tm %s %s %s %s %s %d %d %d", verb, hxs(chain), hx(w.csBlob(cs)), b01(cs.Validate() == nil),
		hx(w.consBlob(cons)), b01(cons.ValidateBasic() == nil), c.rev, h, now)
}

func (w *c13World) genTmReal(r *Rec, emit func(string), tail func(phase string)) {
	c13Prelude(r, emit)
	rev := uint64(1 + r.Rng.Intn(3))
	if r.Rng.Intn(3) == 0 {
		rev = 47 // 0x2f in the revision bytes of every key
	}
	first := int64(100 + r.Rng.Intn(300))
	if r.Rng.Intn(3) == 0 {
		first = 300 // 303 = 0x012f among the heights
	}
	last := first + 12
	dt := 20 * time.Minute
	trusting := 90 * time.Minute
	t0 := time.Unix(1700000000, 0)
	c := newC13TmChain(r, rev, first, last, t0, dt, nil)
	chain := []string{"tmchain", "tm-real", "cosmoshub"}[r.Rng.Intn(3)]
	emit(w.tmInstallLine(c, "create", chain, first, trusting))
	if w.lastOut != "ok" {
		r.Count("tmreal.create-rejected")
		return
	}
	tail("tm.after-create")
	latest := first
	known := []int64{first}
	for step := 0; step < 9; step++ {
		var h, trusted int64
		// a gap left by an earlier skipping update can be back-filled (header below the latest height)
		gapLo := int64(-1)
		for i := 0; i+1 < len(known); i++ {
			if known[i+1]-known[i] >= 2 {
				gapLo = known[i]
			}
		}
		switch k := r.Rng.Intn(5); {
		case gapLo >= 0 && k <= 1:
			h, trusted = gapLo+1, gapLo
			r.Count("tmreal.try-backfill")
		case k <= 2 && latest+2 <= last: // skipping update
			h, trusted = latest+2+int64(r.Rng.Intn(2)), latest
			r.Count("tmreal.try-skip")
		default:
			h, trusted = latest+1, latest
		}
		if h > last {
			break
		}
		// block time: just after the newest header known to the client (so that old consensus states expire and are pruned)
		nowH := h
		if latest > nowH {
			nowH = latest
		}
		now := uint64(c.timeOf(nowH).Add(2 * time.Second).UnixNano())
		if !w.genUpdate(r, emit, "tm", chain, c.update(h, trusted), now) {
			continue
		}
		if h > latest {
			latest = h
		} else {
			r.Count("tmreal.backfill")
		}
		if h > trusted+1 {
			r.Count("tmreal.skip")
		}
		known = append(known, h)
		sort.Slice(known, func(i, j int) bool { return known[i] < known[j] })
		if r.Rng.Intn(3) == 0 {
			tail("tm.after-update")
		}
	}
	tail("tm.after-updates")
	// the next revision: UpgradeClient to the first header of a new chain id, then one more real update there
	c2 := newC13TmChain(r, rev+1, 5, 9, c.timeOf(latest).Add(time.Minute), dt, c.pvs)
	emit(w.tmInstallLine(c2, "upgrade", chain, 5, trusting))
	if w.lastOut == "ok" {
		r.Count("tmreal.upgrade-revision")
		tail("tm.after-upgrade")
		if w.genUpdate(r, emit, "tm", chain, c2.update(6, 5), uint64(c2.timeOf(6).Add(2*time.Second).UnixNano())) {
			tail("tm.after-upgrade-update")
		}
	}
}

// ---- ETH: Rinkeby rules (chain id 4: no PoW, difficulty free) ------------------------------------------------------------------

var c13London = &params.ChainConfig{ChainID: big.NewInt(4), LondonBlock: big.NewInt(0)}

func c13EthChild(r *Rec, p *ethtypes.Header, dt uint64, tag byte) *ethtypes.Header {
	h := &ethtypes.Header{ParentHash: p.Hash().Bytes(), UncleHash: ethUncleHash(), Coinbase: make([]byte, 20), Root: c13Bytes(r, 32),
		TxHash: c13Bytes(r, 32), ReceiptHash: c13Bytes(r, 32), Bloom: make([]byte, 256), Difficulty: []byte{byte(1 + r.Rng.Intn(2))},
		Height: clienttypes.NewHeight(0, p.Height.RevisionHeight+1), GasLimit: p.GasLimit, GasUsed: p.GasLimit / 2, Time: p.Time + dt,
		Extra: []byte{'c', '1', '3', tag}, MixDigest: make([]byte, 32), Nonce: uint64(r.Rng.Int63())}
	h.BaseFee = misc.CalcBaseFee(c13London, p.ToVerifyHeader()).Bytes()
	return h
}

func (w *c13World) genEthReal(r *Rec, emit func(string), tail func(phase string)) {
	c13Prelude(r, emit)
	n0 := uint64(1000 + r.Rng.Intn(100000))
	if r.Rng.Intn(3) == 0 {
		n0 = 12079 - 3 // 12079 = 0x2f2f among the heights
	}
	t0 := uint64(1700000000)
	gen := &ethtypes.Header{ParentHash: c13Bytes(r, 32), UncleHash: ethUncleHash(), Coinbase: make([]byte, 20), Root: c13Bytes(r, 32), TxHash: c13Bytes(r, 32),
		ReceiptHash: c13Bytes(r, 32), Bloom: make([]byte, 256), Difficulty: []byte{1}, Height: clienttypes.NewHeight(0, n0), GasLimit: 30000000, GasUsed: 15000000,
		Time: t0, Extra: []byte("c13"), MixDigest: make([]byte, 32), Nonce: 0, BaseFee: big.NewInt(1000000000).Bytes()}
	trusting := uint64(1500 + r.Rng.Intn(2)*100000000) // every second history: short enough for the earliest entries to expire
	cs := &ethtypes.ClientState{Header: *gen, ChainId: 4, ContractAddress: c13Bytes(r, 20), TrustingPeriod: trusting, TimeDelay: 0, BlockDelay: 1}
	cons := &ethtypes.ConsensusState{Timestamp: gen.Time, Height: gen.Height, Root: gen.Root}
	idx, err := w.app.AppCodec().MarshalInterface(gen)
	if err != nil {
		panic(err)
	}
	chain := []string{"eth", "eth2", "rinkeby"}[r.Rng.Intn(3)]
	emit(fmt.Sprintf("create eth %s %s %s %s %s %d %d %s %s %s", hxs(chain), hx(w.csBlob(cs)), b01(cs.Validate() == nil), hx(w.consBlob(cons)),
		b01(cons.ValidateBasic() == nil), 0, n0, hx(gen.Hash().Bytes()), hx(gen.Root), hx(idx)))
	if w.lastOut != "ok" {
		r.Count("ethreal.create-rejected")
		return
	}
	tail("eth.after-create")
	// main branch
	main := []*ethtypes.Header{gen}
	dt := uint64(300 + r.Rng.Intn(600)) // with the short trusting period the earliest consensus states expire on the way
	for i := 0; i < 6+r.Rng.Intn(4); i++ {
		h := c13EthChild(r, main[len(main)-1], dt, 'm')
		if !w.genUpdate(r, emit, "eth", chain, h, (h.Time+1)*1000000000) {
			break
		}
		main = append(main, h)
		if r.Rng.Intn(3) == 0 {
			tail("eth.main")
		}
	}
	tail("eth.after-main")
	// a side branch from an inner header, longer than the main branch's rest (fork: the main chain is re-pointed)
	if len(main) >= 4 {
		at := 1 + r.Rng.Intn(len(main)-2)
		side := []*ethtypes.Header{main[at]}
		now := (main[len(main)-1].Time + 1) * 1000000000
		for i := 0; i < len(main)-at+1; i++ {
			h := c13EthChild(r, side[len(side)-1], dt, 's')
			if !w.genUpdate(r, emit, "eth", chain, h, now) {
				r.Count("ethreal.side-rejected")
				break
			}
			side = append(side, h)
			r.Count("ethreal.side-accepted")
		}
		tail("eth.after-fork")
	}
}

// the phases at which the pipeline was taken, for the floors
func c13PhaseKey(phase string) string { return "phase." + strings.ReplaceAll(phase, " ", "-") }
