import TeleportModel.Driver.C20

def main (args : List String) : IO UInt32 := do
  match args with
  | ["C20"] => TM.Driver.C20.main; return 0
  | _ => IO.eprintln "usage: tpmodel <property>"; return 2
